import RigModel.Lemmas.C14
namespace Rig.C14
open Rig.Gen.C14
set_option linter.unusedSimpArgs false

/-- what discovery must return for the chips of a table: the listed chips that answer, each with the
view of its state -/
def describedChips (answering : Nat × Nat → Option ChipState) (table : List ((Nat × Nat) × Nat)) :
    List ((Nat × Nat) × ChipInfo) :=
  table.filterMap fun e =>
    if e.2 != P2P_NONE then (answering e.1).map fun st => (e.1, chipView st) else none

theorem probeAll_spec (answering : Nat × Nat → Option ChipState)
    (hwf : ∀ xy st, answering xy = some st → st.WF) (table : List ((Nat × Nat) × Nat)) :
    probeAll (fun xy => (answering xy).map infoReply) table = .ok (describedChips answering table) := by
  induction table with
  | nil => rfl
  | cons e rest ih =>
    obtain ⟨xy, r⟩ := e
    simp only [probeAll, describedChips, List.filterMap_cons]
    by_cases hr : (r != P2P_NONE) = true
    · simp only [hr, if_true]
      cases ha : answering xy with
      | none => simp only [Option.map_none]; exact ih
      | some st =>
        simp only [Option.map_some, chipinfo_roundtrip_lem st (hwf xy st ha), ih]
        rfl
    · simp only [hr, if_false]
      exact ih

theorem foldl_max_ge (l : List Nat) (a : Nat) : a ≤ l.foldl max a ∧ ∀ x ∈ l, x ≤ l.foldl max a := by
  induction l generalizing a with
  | nil => simp
  | cons b t ih =>
    simp only [List.foldl_cons, List.mem_cons]
    have h1 := (ih (max a b)).1
    have h2 := (ih (max a b)).2
    refine ⟨by omega, ?_⟩
    intro x hx
    rcases hx with rfl | hx
    · omega
    · exact h2 x hx

theorem foldl_max_mem (l : List Nat) (a : Nat) : l.foldl max a = a ∨ l.foldl max a ∈ l := by
  induction l generalizing a with
  | nil => simp
  | cons b t ih =>
    simp only [List.foldl_cons, List.mem_cons]
    rcases ih (max a b) with h | h
    · rw [h]
      by_cases hab : a ≤ b
      · right; left; omega
      · left; omega
    · right; right; exact h

theorem maxList_ge (l : List Nat) : ∀ x ∈ l, x ≤ maxList l := (foldl_max_ge l 0).2

theorem maxList_mem (l : List Nat) (hl : l ≠ []) : maxList l ∈ l := by
  rcases foldl_max_mem l 0 with h | h
  · cases l with
    | nil => exact absurd rfl hl
    | cons b t =>
      have := maxList_ge (b :: t) b (by simp)
      unfold maxList at *
      have hb : b = 0 := by omega
      rw [h, ← hb]; simp
  · exact h


def liveEntries (table : List ((Nat × Nat) × Nat)) : List ((Nat × Nat) × Nat) :=
  table.filter fun e => e.2 != P2P_NONE

theorem systemInfo_spec (answering : Nat × Nat → Option ChipState)
    (hwf : ∀ xy st, answering xy = some st → st.WF) (table : List ((Nat × Nat) × Nat))
    (hlive : liveEntries table ≠ []) :
    systemInfo table (fun xy => (answering xy).map infoReply) =
      .ok { width := maxList ((liveEntries table).map (·.1.1)) + 1,
            height := maxList ((liveEntries table).map (·.1.2)) + 1,
            chips := describedChips answering table } := by
  have he : (List.filter (fun e => e.2 != P2P_NONE) table).isEmpty = false := by
    cases h : List.filter (fun e => e.2 != P2P_NONE) table with
    | nil => exact absurd h hlive
    | cons a t => rfl
  simp only [systemInfo, he, Bool.false_eq_true, if_false, probeAll_spec answering hwf table, liveEntries]

theorem mem_describedChips (answering : Nat × Nat → Option ChipState) (table : List ((Nat × Nat) × Nat))
    (xy : Nat × Nat) (ci : ChipInfo) :
    (xy, ci) ∈ describedChips answering table ↔
      ∃ r st, (xy, r) ∈ table ∧ r ≠ P2P_NONE ∧ answering xy = some st ∧ ci = chipView st := by
  simp only [describedChips, List.mem_filterMap]
  constructor
  · rintro ⟨⟨xy', r⟩, hmem, h⟩
    by_cases hr : (r != P2P_NONE) = true
    · simp only [hr, if_true] at h
      cases ha : answering xy' with
      | none => simp [ha] at h
      | some st =>
        simp only [ha, Option.map_some, Option.some.injEq, Prod.mk.injEq] at h
        obtain ⟨rfl, rfl⟩ := h
        exact ⟨r, st, hmem, by simpa using hr, ha, rfl⟩
    · simp [hr] at h
  · rintro ⟨r, st, hmem, hr, ha, rfl⟩
    refine ⟨(xy, r), hmem, ?_⟩
    have : (r != P2P_NONE) = true := by simpa using hr
    simp [this, ha]

/-- extent: every listed chip lies inside width x height, and both bounds are attained -/
theorem extent_spec (table : List ((Nat × Nat) × Nat)) (hlive : liveEntries table ≠ []) :
    (∀ xy r, (xy, r) ∈ table → r ≠ P2P_NONE →
      xy.1 < maxList ((liveEntries table).map (·.1.1)) + 1 ∧ xy.2 < maxList ((liveEntries table).map (·.1.2)) + 1) ∧
    (∃ e ∈ liveEntries table, e.1.1 + 1 = maxList ((liveEntries table).map (·.1.1)) + 1) ∧
    (∃ e ∈ liveEntries table, e.1.2 + 1 = maxList ((liveEntries table).map (·.1.2)) + 1) := by
  refine ⟨?_, ?_, ?_⟩
  · intro xy r hmem hr
    have hl : (xy, r) ∈ liveEntries table := by
      simp only [liveEntries, List.mem_filter]; exact ⟨hmem, by simpa using hr⟩
    have h1 := maxList_ge ((liveEntries table).map (·.1.1)) xy.1 (List.mem_map.2 ⟨_, hl, rfl⟩)
    have h2 := maxList_ge ((liveEntries table).map (·.1.2)) xy.2 (List.mem_map.2 ⟨_, hl, rfl⟩)
    omega
  · have := maxList_mem ((liveEntries table).map (·.1.1)) (by simpa using hlive)
    obtain ⟨e, he, h⟩ := List.mem_map.1 this
    exact ⟨e, he, by omega⟩
  · have := maxList_mem ((liveEntries table).map (·.1.2)) (by simpa using hlive)
    obtain ⟨e, he, h⟩ := List.mem_map.1 this
    exact ⟨e, he, by omega⟩

theorem has_iff (si : SysInfo) (xy : Nat × Nat) : si.has xy = true ↔ ∃ ci, (xy, ci) ∈ si.chips := by
  unfold SysInfo.has
  induction si.chips with
  | nil => simp
  | cons e t ih =>
    obtain ⟨k, v⟩ := e
    by_cases hk : xy = k
    · subst hk; simp [List.lookup]
    · have : (xy == k) = false := by simpa using hk
      simp only [List.lookup, this, List.mem_cons, Prod.mk.injEq]
      rw [ih]
      constructor
      · rintro ⟨ci, h⟩; exact ⟨ci, Or.inr h⟩
      · rintro ⟨ci, h | h⟩
        · exact absurd h.1 hk
        · exact ⟨ci, h⟩

/-- **dead chips** = the coordinates inside the extent without a record -/
theorem mem_deadChips (si : SysInfo) (x y : Nat) :
    (x, y) ∈ si.deadChips ↔ x < si.width ∧ y < si.height ∧ ¬ ∃ ci, ((x, y), ci) ∈ si.chips := by
  rw [← has_iff]
  simp only [SysInfo.deadChips, List.mem_flatMap, List.mem_filterMap, List.mem_range]
  constructor
  · rintro ⟨x', hx, y', hy, h⟩
    by_cases hh : si.has (x', y') = true
    · simp [hh] at h
    · simp only [hh, Bool.false_eq_true, if_false, Option.some.injEq, Prod.mk.injEq] at h
      obtain ⟨rfl, rfl⟩ := h
      exact ⟨hx, hy, hh⟩
  · rintro ⟨hx, hy, hh⟩
    exact ⟨x, hx, y, hy, by simp [hh]⟩

/-- **dead links** = the links of described chips that are not reported working -/
theorem mem_deadLinks (si : SysInfo) (x y l : Nat) :
    (x, y, l) ∈ si.deadLinks ↔ ∃ ci, ((x, y), ci) ∈ si.chips ∧ l < 6 ∧ l ∉ ci.links := by
  simp only [SysInfo.deadLinks, List.mem_flatMap, List.mem_filterMap, LINK_VALUES]
  constructor
  · rintro ⟨⟨xy, ci⟩, hmem, l', hl', h⟩
    by_cases hc : l' ∈ ci.links
    · simp [hc] at h
    · simp only [List.contains_iff_mem, hc, Bool.false_eq_true, if_false, Option.some.injEq, Prod.mk.injEq,
        decide_false] at h
      obtain ⟨h1, h2, rfl⟩ := h
      obtain ⟨a, b⟩ := xy
      simp only at h1 h2
      subst h1; subst h2
      refine ⟨ci, hmem, ?_, hc⟩
      simp only [List.mem_cons, List.mem_nil_iff, or_false] at hl'
      omega
  · rintro ⟨ci, hmem, hl, hn⟩
    refine ⟨((x, y), ci), hmem, l, ?_, ?_⟩
    · have : l = 0 ∨ l = 1 ∨ l = 2 ∨ l = 3 ∨ l = 4 ∨ l = 5 := by omega
      simp only [List.mem_cons, List.mem_nil_iff, or_false]; exact this
    · simp [hn]

end Rig.C14
