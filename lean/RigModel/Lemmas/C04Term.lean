/-
C04 - the fuel of the two `while` loops is never exhausted: `_refine_downcheck` removes at
least one member per round, `ordered_covering` shortens the table with every applied merge.
-/
import RigModel.Lemmas.C04Top
set_option linter.unusedSimpArgs false
set_option linter.unusedVariables false

namespace Rig.C04

/-! ### every round of the down-check removes a member -/

theorem popcount_le (x : W) : popcount x ≤ 32 := by
  unfold popcount
  have := List.countP_le_length (p := fun i => x.getLsbD i) (l := List.range 32)
  simpa using this

theorem popcount_pos {x : W} (h : popcount x ≠ 0) : ∃ i, i < 32 ∧ x.getLsbD i = true := by
  unfold popcount at h
  have : 0 < List.countP (fun i => x.getLsbD i) (List.range 32) := Nat.pos_of_ne_zero h
  rw [List.countP_pos_iff] at this
  obtain ⟨i, hi, hx⟩ := this
  exact ⟨i, by simpa using hi, hx⟩

/-- the pass over the covered key/masks: if anything is covered, the stringency is at most 32
and, unless it is 0, there is at least one (bit, value) option; every option is a bit that is
an X of the merged key/mask -/
theorem stringency_spec (m : Merge) (cov : List KM) (hne : cov ≠ []) :
    (stringency m cov).1 ≤ 32 ∧ ((stringency m cov).1 ≠ 0 → (stringency m cov).2 ≠ []) ∧
    (∀ bv ∈ (stringency m cov).2, bv.1 < 32 ∧ m.mask.getLsbD bv.1 = false) := by
  unfold stringency
  have gen : ∀ (l : List KM) (st : Nat × List (Nat × Bool)),
      (st.1 ≠ 0 → st.1 ≤ 32 → st.2 ≠ []) → (∀ bv ∈ st.2, bv.1 < 32 ∧ m.mask.getLsbD bv.1 = false) →
      (l ≠ [] ∨ st.1 ≤ 32) →
      let r := l.foldl (fun (st : Nat × List (Nat × Bool)) km =>
        let settable := km.2 &&& ~~~m.mask
        let n := popcount settable
        if n ≤ st.1 then
          let bav := if n < st.1 then [] else st.2
          (n, bav ++ ((List.range 32).filter (fun i => settable.getLsbD i)).map
            (fun i => (i, !km.1.getLsbD i)))
        else st) st
      r.1 ≤ 32 ∧ (r.1 ≠ 0 → r.2 ≠ []) ∧ (∀ bv ∈ r.2, bv.1 < 32 ∧ m.mask.getLsbD bv.1 = false) := by
    intro l
    induction l with
    | nil =>
      intro st h1 h2 h3
      simp only [List.foldl_nil]
      have : st.1 ≤ 32 := by rcases h3 with h | h; exact absurd rfl h; exact h
      exact ⟨this, fun h => h1 h this, h2⟩
    | cons km rest ih =>
      intro st h1 h2 _
      simp only [List.foldl_cons]
      have hp := popcount_le (km.2 &&& ~~~m.mask)
      by_cases hle : popcount (km.2 &&& ~~~m.mask) ≤ st.1
      · rw [if_pos hle]
        apply ih
        · intro hn0 _
          obtain ⟨i, hi, hx⟩ := popcount_pos hn0
          intro hnil
          have : (i, !km.1.getLsbD i) ∈ (if popcount (km.2 &&& ~~~m.mask) < st.1 then [] else st.2) ++
              ((List.range 32).filter (fun i => (km.2 &&& ~~~m.mask).getLsbD i)).map (fun i => (i, !km.1.getLsbD i)) := by
            apply List.mem_append_right
            exact List.mem_map.mpr ⟨i, List.mem_filter.mpr ⟨by simpa using hi, hx⟩, rfl⟩
          dsimp only at hnil
          rw [hnil] at this; cases this
        · intro bv hbv
          rcases List.mem_append.mp hbv with hb | hb
          · split at hb
            · cases hb
            · exact h2 bv hb
          · obtain ⟨i, hi, rfl⟩ := List.mem_map.mp hb
            obtain ⟨hi1, hi2⟩ := List.mem_filter.mp hi
            refine ⟨by simpa using hi1, ?_⟩
            simp only [BitVec.getLsbD_and, BitVec.getLsbD_not, Bool.and_eq_true] at hi2
            simpa using hi2.2.2
        · right; exact hp
      · rw [if_neg hle]
        exact ih st h1 h2 (Or.inr (by omega))
  exact gen cov (33, []) (by intro _ h; simp at h) (by simp) (Or.inl hne)

theorem mem_bitsDesc (i : Nat) (v : Bool) (hi : i < 32) : (i, v) ∈ bitsDesc := by
  simp only [bitsDesc, List.mem_flatMap, List.mem_reverse, List.mem_range]
  exact ⟨i, hi, by cases v <;> simp⟩

theorem chooseRemove_spec (T : List Entry) (m : Merge) (bav : List (Nat × Bool)) (hne : bav ≠ [])
    (hb : ∀ bv ∈ bav, bv.1 < 32)
    (hw : ∀ bv ∈ bav, workingRemove T m bv.1 bv.2 ≠ []) :
    chooseRemove T m bav ≠ [] ∧ ∀ x ∈ chooseRemove T m bav, x ∈ m.entries := by
  unfold chooseRemove
  have hC : bitsDesc.filter (fun bv => bav.contains bv) ≠ [] := by
    cases bav with
    | nil => exact absurd rfl hne
    | cons bv r =>
      intro hnil
      have : bv ∈ bitsDesc.filter (fun x => (bv :: r).contains x) :=
        List.mem_filter.mpr ⟨mem_bitsDesc bv.1 bv.2 (hb bv (by simp)), by simp⟩
      rw [hnil] at this; cases this
  have hall : ∀ bv ∈ bitsDesc.filter (fun bv => bav.contains bv), workingRemove T m bv.1 bv.2 ≠ [] := by
    intro bv hbv
    have := (List.mem_filter.mp hbv).2
    exact hw bv (by simpa using this)
  generalize bitsDesc.filter (fun bv => bav.contains bv) = C at hC hall
  have gen : ∀ (C : List (Nat × Bool)) (remove : List Nat),
      (∀ bv ∈ C, workingRemove T m bv.1 bv.2 ≠ []) →
      ((remove ≠ [] ∧ ∀ x ∈ remove, x ∈ m.entries) ∨ (remove = [] ∧ C ≠ [])) →
      let r := C.foldl (fun remove bv =>
        let working := workingRemove T m bv.1 bv.2
        if remove.isEmpty || working.length < remove.length then working else remove) remove
      r ≠ [] ∧ ∀ x ∈ r, x ∈ m.entries := by
    intro C
    induction C with
    | nil =>
      intro remove _ h
      rcases h with h | ⟨_, h⟩
      · exact h
      · exact absurd rfl h
    | cons bv rest ih =>
      intro remove hall h
      simp only [List.foldl_cons]
      apply ih _ (fun x hx => hall x (by simp [hx]))
      left
      have hwq : workingRemove T m bv.1 bv.2 ≠ [] ∧ ∀ x ∈ workingRemove T m bv.1 bv.2, x ∈ m.entries :=
        ⟨hall bv (by simp), fun x hx => (List.mem_filter.mp hx).1⟩
      split
      · exact hwq
      · rename_i hc
        rcases h with h | ⟨h, _⟩
        · exact h
        · subst h; simp at hc
  exact gen C [] hall (Or.inr ⟨rfl, hC⟩)

theorem mem_members_iff {T : List Entry} {es : List Nat} {e : Entry} :
    e ∈ members T es ↔ ∃ j ∈ es, T[j]? = some e := by
  simp [members, List.mem_filterMap]

/-- a bit that is an X of the merged key/mask can be "set" either way by removing members -/
theorem workingRemove_ne_nil (T : List Entry) (es : List Nat) (hne : ∃ i ∈ es, i < T.length)
    (bit : Nat) (val : Bool) (hbit : bit < 32) (hx : (mkMerge T es).mask.getLsbD bit = false) :
    workingRemove T (mkMerge T es) bit val ≠ [] := by
  have hmne := members_ne_nil hne
  have hmask : (mergedMask (members T es)).getLsbD bit = false := hx
  have hff := ff_bit bit hbit
  have hz : BitVec.getLsbD (0 : W) bit = false := by simp
  simp only [mergedMask, allOnes, allSelected, anyOnes, BitVec.getLsbD_and, BitVec.getLsbD_xor,
    BitVec.getLsbD_not, foldl_and_key_bit, foldl_and_mask_bit, foldl_or_key_bit, hbit, decide_true,
    Bool.true_and, hff, hz, Bool.false_or] at hmask
  -- find a member that has to go
  have key : ∃ e ∈ members T es, (!e.mask.getLsbD bit || (e.key.getLsbD bit == !val)) = true := by
    by_cases hA : (members T es).all (fun e => e.mask.getLsbD bit) = true
    · rw [hA, Bool.true_and] at hmask
      cases hB : (members T es).all (fun e => e.key.getLsbD bit) with
      | true =>
        exfalso
        rw [hB] at hmask
        cases hm : members T es with
        | nil => exact hmne hm
        | cons x r =>
          have hxk : x.key.getLsbD bit = true := (List.all_eq_true.mp hB) x (by rw [hm]; simp)
          have : (members T es).any (fun e => e.key.getLsbD bit) = true :=
            List.any_eq_true.mpr ⟨x, by rw [hm]; simp, hxk⟩
          rw [this] at hmask; simp at hmask
      | false =>
        rw [hB] at hmask
        have hC : (members T es).any (fun e => e.key.getLsbD bit) = true := by
          cases hc : (members T es).any (fun e => e.key.getLsbD bit) with
          | true => rfl
          | false => rw [hc] at hmask; simp at hmask
        obtain ⟨e1, he1, hk1⟩ := List.any_eq_true.mp hC
        have : ∃ e0 ∈ members T es, e0.key.getLsbD bit = false := by
          obtain ⟨e0, he0, hk0⟩ := List.all_eq_false.mp hB
          exact ⟨e0, he0, by simpa using hk0⟩
        obtain ⟨e0, he0, hk0⟩ := this
        cases val with
        | true => exact ⟨e0, he0, by simp [hk0]⟩
        | false => exact ⟨e1, he1, by simp [hk1]⟩
    · have hA' : (members T es).all (fun e => e.mask.getLsbD bit) = false := by simpa using hA
      obtain ⟨e, he, hm⟩ := List.all_eq_false.mp hA'
      exact ⟨e, he, by simp [hm]⟩
  obtain ⟨e, he, hcond⟩ := key
  obtain ⟨j, hj, hTj⟩ := mem_members_iff.mp he
  intro hnil
  have : j ∈ workingRemove T (mkMerge T es) bit val := by
    simp only [workingRemove, mkMerge_entries, List.mem_filter]
    exact ⟨hj, by rw [hTj]; exact hcond⟩
  rw [hnil] at this; cases this

theorem downLoop_total (T : List Entry) (A : Aliases) (minG : Int) (h0 : 0 ≤ minG) (fuel : Nat)
    (es : List Nat) (hv : ∀ i ∈ es, i < T.length) (hf : es.length + 1 ≤ fuel) :
    ∃ m', downLoop T A minG fuel (mkMerge T es) = some m' := by
  induction fuel generalizing es with
  | zero => omega
  | succ fuel ih =>
    simp only [downLoop]
    split
    · rename_i hg
      split
      · exact ⟨_, rfl⟩
      · rename_i hcov
        split
        · exact ⟨_, rfl⟩
        · rename_i hs0
          simp only [mkMerge_entries]
          have hcne : covered T A (mkMerge T es) ≠ [] := by simpa using hcov
          obtain ⟨s1, s2, s3⟩ := stringency_spec (mkMerge T es) _ hcne
          have hs0' : (stringency (mkMerge T es) (covered T A (mkMerge T es))).1 ≠ 0 := by simpa using hs0
          have hne := exists_valid_of_goodness hv h0 hg
          obtain ⟨c1, c2⟩ := chooseRemove_spec T (mkMerge T es) _ (s2 hs0') (fun bv hbv => (s3 bv hbv).1)
            (fun bv hbv => workingRemove_ne_nil T es hne bv.1 bv.2 (s3 bv hbv).1 (s3 bv hbv).2)
          apply ih
          · intro i hi; exact hv i (List.mem_filter.mp hi).1
          · have hlt : (es.filter (fun i => !(chooseRemove T (mkMerge T es)
                (stringency (mkMerge T es) (covered T A (mkMerge T es))).2).contains i)).length < es.length := by
              rw [List.length_filter_lt_length_iff_exists]
              cases hr : chooseRemove T (mkMerge T es) (stringency (mkMerge T es) (covered T A (mkMerge T es))).2 with
              | nil => exact absurd hr c1
              | cons x r =>
                have hx : x ∈ es := by
                  have := c2 x (by rw [hr]; simp)
                  simpa [mkMerge_entries] using this
                exact ⟨x, hx, by simp⟩
            omega
    · exact ⟨_, rfl⟩

theorem downcheck_total (T : List Entry) (A : Aliases) (minG : Int) (h0 : 0 ≤ minG)
    (es : List Nat) (hv : ∀ i ∈ es, i < T.length) :
    ∃ m', downcheck T A (mkMerge T es) minG = some m' :=
  downLoop_total T A minG h0 _ es hv (by simp [mkMerge_entries])

theorem refineMerge_total (T : List Entry) (A : Aliases) (minG : Int) (hs : SortedGen T) (h0 : 0 ≤ minG)
    (es : List Nat) (hv : ∀ i ∈ es, i < T.length) :
    ∃ m', refineMerge T A (mkMerge T es) minG = some m' := by
  obtain ⟨m1, hd1⟩ := downcheck_total T A minG h0 es hv
  simp only [refineMerge, hd1]
  obtain ⟨es1, rfl, hsub1, _, _⟩ := downcheck_spec T A minG h0 es m1 hd1
  have hv1 : ∀ i ∈ es1, i < T.length := fun i hi => hv i (hsub1 i hi)
  split
  · obtain ⟨es2, hu, hsub2, _, _, _⟩ := upcheck_spec T minG hs h0 es1 hv1
    have hfst : (upcheck T (mkMerge T es1) minG).1 = mkMerge T es2 := by rw [hu]
    split
    · rw [hfst]
      exact downcheck_total T A minG h0 es2 (fun i hi => hv1 i (hsub2 i hi))
    · exact ⟨_, rfl⟩
  · exact ⟨_, rfl⟩

theorem bestLoop_total (T : List Entry) (A : Aliases) (hs : SortedGen T) (ms : List (List Nat))
    (hms : ∀ es ∈ ms, ∀ i ∈ es, i < T.length) (best : Merge) (bg : Int) (h0 : 0 ≤ bg) :
    ∃ m, bestLoop T A ms best bg = some m := by
  induction ms generalizing best bg with
  | nil => exact ⟨best, rfl⟩
  | cons es rest ih =>
    have hrest : ∀ es ∈ rest, ∀ i ∈ es, i < T.length := fun x hx => hms x (by simp [hx])
    simp only [bestLoop]
    split
    · exact ih hrest best bg h0
    · obtain ⟨m', hr⟩ := refineMerge_total T A bg hs h0 es (hms es (by simp))
      rw [hr]
      simp only
      split
      · exact ih hrest _ _ (by omega)
      · exact ih hrest best bg h0

theorem bestMerge_total (T : List Entry) (A : Aliases) (hs : SortedGen T) :
    ∃ m, bestMerge T A = some m :=
  bestLoop_total T A hs _ (fun es he => (allMerges_spec T es he).1) _ 0 (Int.le_refl _)

/-! ### every applied merge shortens the table -/

theorem keepIdx_append (es : List Nat) (i : Nat) (l1 l2 : List Entry) :
    keepIdx es i (l1 ++ l2) = keepIdx es i l1 ++ keepIdx es (i + l1.length) l2 := by
  induction l1 generalizing i with
  | nil => simp [keepIdx]
  | cons e r ih =>
    simp only [List.cons_append, keepIdx, ih (i + 1), List.length_cons, List.append_assoc]
    rw [show i + 1 + r.length = i + (r.length + 1) by omega]

theorem keepIdx_two (es : List Nat) (T : List Entry) (a b : Nat) (ha : a ∈ es) (hb : b ∈ es)
    (hab : a < b) (hbl : b < T.length) : (keepIdx es 0 T).length + 2 ≤ T.length := by
  have hsplit : T = T.take b ++ T.drop b := (List.take_append_drop b T).symm
  have h1 := keepIdx_length_lt es 0 (T.take b) a (by simp; omega) (by simpa using ha)
  have h2 := keepIdx_length_lt es b (T.drop b) 0 (by simp; omega) (by simpa using hb)
  rw [hsplit, keepIdx_append]
  simp only [List.length_append, List.length_take, List.length_drop, Nat.zero_add] at *
  rw [Nat.min_eq_left (by omega)] at *
  omega

theorem applyMerge_length_lt (T : List Entry) (es : List Nat) (A : Aliases)
    (hv : ∀ i ∈ es, i < T.length) (hnd : es.Nodup) (hg : (mkMerge T es).goodness > 0) :
    (applyMerge T (mkMerge T es) A).1.length < T.length := by
  have hins := insertionIndex_le T (mkMerge T es).gen
  rw [← mkMerge_ins_eq] at hins
  rw [applyMerge_table T es A hins]
  have hk : keepIdx es 0 T = keepIdx es 0 (T.take (mkMerge T es).ins) ++
      keepIdx es (mkMerge T es).ins (T.drop (mkMerge T es).ins) := by
    conv => lhs; rw [← List.take_append_drop (mkMerge T es).ins T]
    rw [keepIdx_append]
    simp [Nat.min_eq_left hins]
  rw [mkMerge_goodness] at hg
  match es, hv, hnd, hg, hk with
  | a :: b :: r, hv, hnd, _, hk =>
    have hne : a ≠ b := by
      intro h; subst h
      simp at hnd
    have hal := hv a (by simp)
    have hbl := hv b (by simp)
    have := if h : a < b then keepIdx_two (a :: b :: r) T a b (by simp) (by simp) h hbl
      else keepIdx_two (a :: b :: r) T b a (by simp) (by simp) (by omega) hal
    rw [hk] at this
    simp only [List.length_append, List.length_cons] at *
    omega
  | [a], _, _, hg, _ => simp at hg
  | [], _, _, hg, _ => simp at hg

/-- **ocLoop_total.** With fuel above the table length the loop of `ordered_covering` on a
generality-sorted table never runs out of fuel. -/
theorem ocLoop_total (fuel : Nat) (T : List Entry) (target : Option Nat) (A : Aliases)
    (hs : SortedGen T) (hf : T.length + 1 ≤ fuel) : ocLoop fuel T target A ≠ .error .fuel := by
  induction fuel generalizing T A with
  | zero => omega
  | succ fuel ih =>
    simp only [ocLoop]
    split
    · obtain ⟨m, hb⟩ := bestMerge_total T A hs
      rw [hb]
      simp only
      split
      · intro h; cases h
      · rename_i hg
        obtain ⟨es, rfl, hv, _, _, _, hnd⟩ := bestMerge_spec T A hs m hb (by omega)
        apply ih _ _ (applyMerge_sorted T es A hs)
        have := applyMerge_length_lt T es A hv hnd (by omega)
        omega
    · intro h; cases h

end Rig.C04
