/-
C08 helper lemmas: keys, masks, read-back.
-/
import RigModel.Lemmas.C08Add
set_option linter.unusedSimpArgs false
set_option linter.unusedVariables false

namespace Rig.C08

end Rig.C08
