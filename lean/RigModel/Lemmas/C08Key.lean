/-
C08 helper lemmas: keys, masks, read-back.
-/
import RigModel.Lemmas.C08Add
set_option linter.unusedSimpArgs false
set_option linter.unusedVariables false

namespace Rig.C08

/-- every present field that has a value and a length holds a value that fits the length -/
def ValuesFit (es : List Entry) (fv : Reqs) : Prop :=
  ∀ e ∈ enabledFields es fv, ∀ x l, fv.lookup e.ident = some x → e.field.length = some l → x < 2 ^ l

theorem testBit_false_of_lt {x l i : Nat} (h : x < 2 ^ l) (hi : l ≤ i) : x.testBit i = false :=
  Nat.testBit_lt_two_pow (Nat.lt_of_lt_of_le h (Nat.pow_le_pow_right (by decide) hi))

theorem enabled_pair {es : List Entry} (hd : SpecDisjoint es) {fv : Reqs} {e e' : Entry}
    (he : e ∈ enabledFields es fv) (he' : e' ∈ enabledFields es fv) : e = e' ∨ EntryDisjoint e e' := by
  simp only [enabledFields, List.mem_filter] at he he'
  rcases pairwise_mem hd he.1 he'.1 with h | h | h
  · exact Or.inl h
  · exact Or.inr (h (compatible_of_enabled he.2 he'.2))
  · right
    intro l s l' s' h1 h2 h3 h4
    exact (h (compatible_of_enabled he'.2 he.2) l' s' l s h3 h4 h1 h2).symm

theorem isFixed_iff (f : Field) : f.isFixed = true ↔ ∃ l s, f.length = some l ∧ f.startAt = some s := by
  unfold Field.isFixed
  cases f.length <;> cases f.startAt <;> simp

/-- what a successful `get_value()` (no tag, no field) returns -/
theorem getValue_all {es : List Entry} {fv : Reqs} {key : Nat} (h : getValue es fv none none = .ok key) :
    (∀ j, key.testBit j = (enabledFields es fv).any fun e => (valBits fv e).testBit j) ∧
    (∀ e ∈ enabledFields es fv, (∃ x, fv.lookup e.ident = some x) ∧ e.field.isFixed = true) := by
  unfold getValue selectFields at h
  simp only at h
  split at h
  · simp at h
  · rename_i hmiss
    split at h
    · simp at h
    · rename_i hfix
      simp only [Except.ok.injEq] at h
      constructor
      · intro j
        rw [← h, testBit_foldl_or]; simp
      · intro e he
        simp only [Bool.not_eq_true, List.any_eq_false, Option.isNone_iff_eq_none] at hmiss hfix
        refine ⟨?_, by simpa using hfix e he⟩
        have := hmiss e he
        cases hl : fv.lookup e.ident with
        | none => simp [hl] at this
        | some x => exact ⟨x, rfl⟩

/-- **read-back**: the value of a present field is found in the key at the field's position -/
theorem readback_lemma {es : List Entry} {fv : Reqs} {key : Nat} (hd : SpecDisjoint es) (hfit : ValuesFit es fv)
    (hk : getValue es fv none none = .ok key) {e : Entry} (he : e ∈ enabledFields es fv) {x l s : Nat}
    (hx : fv.lookup e.ident = some x) (hl : e.field.length = some l) (hs : e.field.startAt = some s) :
    ReadBack key s l x := by
  obtain ⟨hbits, hall⟩ := getValue_all hk
  have hxl := hfit e he x l hx hl
  unfold ReadBack
  apply Nat.eq_of_testBit_eq
  intro i
  rw [Nat.testBit_mod_two_pow, Nat.testBit_shiftRight]
  by_cases hi : i < l
  · simp only [hi, decide_true, Bool.true_and]
    rw [hbits, Bool.eq_iff_iff, List.any_eq_true]
    constructor
    · rintro ⟨e', he', hb⟩
      obtain ⟨⟨x', hx'⟩, hfix'⟩ := hall e' he'
      obtain ⟨l', s', hl', hs'⟩ := (isFixed_iff _).mp hfix'
      simp only [valBits, hx', hs', Nat.testBit_shiftLeft, Bool.and_eq_true, decide_eq_true_eq] at hb
      have hx'l := hfit e' he' x' l' hx' hl'
      have hlt : s + i - s' < l' := by
        by_cases hc : s + i - s' < l'
        · exact hc
        · rw [testBit_false_of_lt hx'l (by omega)] at hb; simp at hb
      rcases enabled_pair hd he he' with heq | hdis
      · subst heq
        rw [hx] at hx'; rw [hs] at hs'
        cases hx'; cases hs'
        have : s + i - s = i := by omega
        rw [this] at hb; exact hb.2
      · have := hdis l s l' s' hl hs hl' hs'
        unfold Disjoint at this
        omega
    · intro hb
      refine ⟨e, he, ?_⟩
      simp only [valBits, hx, hs, Nat.testBit_shiftLeft, Bool.and_eq_true, decide_eq_true_eq]
      have : s + i - s = i := by omega
      exact ⟨by omega, by rw [this]; exact hb⟩
  · simp only [hi, decide_false, Bool.false_and]
    exact (testBit_false_of_lt hxl (by omega)).symm

theorem testBit_fieldBits (f : Field) (j : Nat) :
    (fieldBits f).testBit j = true ↔ ∃ l s, f.length = some l ∧ f.startAt = some s ∧ s ≤ j ∧ j < s + l := by
  unfold fieldBits
  cases hl : f.length <;> cases hs : f.startAt <;>
    simp [testBit_rangeMask, Nat.zero_testBit]

theorem testBit_unionBits (sel : List Entry) (j : Nat) :
    (unionBits sel).testBit j = true ↔
      ∃ e ∈ sel, ∃ l s, e.field.length = some l ∧ e.field.startAt = some s ∧ s ≤ j ∧ j < s + l := by
  unfold unionBits
  rw [testBit_foldl_or]
  simp only [Nat.zero_testBit, Bool.false_or, List.any_eq_true, testBit_fieldBits]

/-- what a successful `get_mask()` returns -/
theorem getMask_all {es : List Entry} {fv : Reqs} {m : Nat} (h : getMask es fv none none = .ok m) :
    m = unionBits (enabledFields es fv) := by
  unfold getMask selectFields at h
  simp only at h
  split at h
  · simp at h
  · simp only [Except.ok.injEq] at h
    rw [← h]; rfl

/-- what a successful `get_mask(tag=t)` returns -/
theorem getMask_tag {es : List Entry} {fv : Reqs} {t : String} {m : Nat} (h : getMask es fv (some t) none = .ok m) :
    m = unionBits ((enabledFields es fv).filter fun e => e.field.tags.contains t) := by
  unfold getMask selectFields at h
  simp only at h
  split at h
  · simp at h
  · rename_i sel hsel
    split at hsel
    · simp at hsel
    · simp only [Except.ok.injEq] at hsel
      split at h
      · simp at h
      · simp only [Except.ok.injEq] at h
        rw [← h, ← hsel]; rfl

/-- the mask covers every bit of a present positioned field -/
theorem mask_covers {es : List Entry} {fv : Reqs} {m : Nat} (h : getMask es fv none none = .ok m)
    {e : Entry} (he : e ∈ enabledFields es fv) {l s : Nat} (hl : e.field.length = some l)
    (hs : e.field.startAt = some s) : ∀ i, i < l → m.testBit (s + i) = true := by
  intro i hi
  rw [getMask_all h, testBit_unionBits]
  exact ⟨e, he, l, s, hl, hs, by omega, by omega⟩

theorem readback_and_mask {k m s l : Nat} (hc : ∀ i, i < l → m.testBit (s + i) = true) :
    ((k &&& m) >>> s) % 2 ^ l = (k >>> s) % 2 ^ l := by
  apply Nat.eq_of_testBit_eq
  intro i
  simp only [Nat.testBit_mod_two_pow, Nat.testBit_shiftRight, Nat.testBit_and]
  by_cases hi : i < l
  · simp [hi, hc i hi]
  · simp [hi]

/-- **orthogonality** of two instances that give different values to a field present in both -/
theorem orthogonal_lemma {es : List Entry} {fv fv' : Reqs} {k m k' m' : Nat} (hd : SpecDisjoint es)
    (hfit : ValuesFit es fv) (hfit' : ValuesFit es fv')
    (hk : getValue es fv none none = .ok k) (hm : getMask es fv none none = .ok m)
    (hk' : getValue es fv' none none = .ok k') (hm' : getMask es fv' none none = .ok m')
    {e : Entry} (he : e ∈ enabledFields es fv) (he' : e ∈ enabledFields es fv') {x x' : Nat}
    (hx : fv.lookup e.ident = some x) (hx' : fv'.lookup e.ident = some x') (hne : x ≠ x') :
    k &&& m' ≠ k' &&& m ∧ ¬ Matches k k' m' ∧ ¬ Matches k' k m := by
  obtain ⟨_, hall⟩ := getValue_all hk
  obtain ⟨l, s, hl, hs⟩ := (isFixed_iff _).mp (hall e he).2
  have r1 := readback_lemma hd hfit hk he hx hl hs
  have r2 := readback_lemma hd hfit' hk' he' hx' hl hs
  have c1 := mask_covers hm he hl hs
  have c2 := mask_covers hm' he' hl hs
  unfold ReadBack at r1 r2
  refine ⟨?_, ?_, ?_⟩
  · intro h
    have := congrArg (fun v => (v >>> s) % 2 ^ l) h
    simp only [readback_and_mask c1, readback_and_mask c2, r1, r2] at this
    exact hne this
  · intro h
    unfold Matches at h
    have := congrArg (fun v => (v >>> s) % 2 ^ l) h
    simp only [readback_and_mask c2, r1, r2] at this
    exact hne this
  · intro h
    unfold Matches at h
    have := congrArg (fun v => (v >>> s) % 2 ^ l) h
    simp only [readback_and_mask c1, r1, r2] at this
    exact hne this.symm

end Rig.C08
