/-
C09 helper lemmas, part 1: the requests of one flood fill decode to the packets of a
well-formed fill; shape lemmas for the data packets.
-/
import RigModel.Model.C09
set_option linter.unusedSimpArgs false
set_option linter.unusedVariables false

namespace Rig.C09
open Rig.Gen.Load Rig.Gen.Scp

theorem orAdd (a b i : Nat) (h : b < 2 ^ i) (h2 : 2 ^ i ∣ a) : a ||| b = a + b := by
  obtain ⟨c, rfl⟩ := h2
  rw [Nat.mul_comm, ← Nat.shiftLeft_eq]
  exact (Nat.shiftLeft_add_eq_or_of_lt h c).symm

macro "side" : tactic =>
  `(tactic| first | omega | (simp only [Nat.reducePow]; omega) | exact ⟨_, Nat.mul_comm _ _⟩)

theorem decode_ffs (pid n : Nat) (hp : pid < 256) (hn : n < 256) :
    decode (ffsReq pid n) = .ffs pid n := by
  have e : ((nnFfs <<< 24) ||| (pid <<< 16) ||| (n <<< 8)) = 6 * 16777216 + pid * 65536 + n * 256 := by
    simp only [Nat.shiftLeft_eq, nnFfs]
    rw [orAdd (6 * 2^24) (pid * 2^16) 24 (by side) (by side), orAdd _ (n * 2^8) 16 (by side) (by side)]
  simp only [decode, ffsReq, nnReq, e]
  have h1 : (6 * 16777216 + pid * 65536 + n * 256) / 16777216 % 256 = 6 := by omega
  have h2 : (6 * 16777216 + pid * 65536 + n * 256) / 65536 % 256 = pid := by omega
  have h3 : (6 * 16777216 + pid * 65536 + n * 256) / 256 % 256 = n := by omega
  simp [h1, h2, h3, cmdNnp, nnFfs]

theorem decode_ffcs (rm : Nat × Nat) (hm : rm.2 < 262144) :
    decode (ffcsReq rm) = .ffcs rm.1 rm.2 := by
  have e : ((nnFfcs <<< 24) ||| rm.2) = 7 * 16777216 + rm.2 := by
    simp only [Nat.shiftLeft_eq, nnFfcs]
    rw [orAdd (7 * 2^24) rm.2 24 (by side) (by side)]
  simp only [decode, ffcsReq, nnReq, e]
  have h1 : (7 * 16777216 + rm.2) / 16777216 % 256 = 7 := by omega
  have h2 : (7 * 16777216 + rm.2) % 262144 = rm.2 := by omega
  simp [h1, h2, cmdNnp, nnFfs, nnFfcs]

theorem ffe_h3 (appId flags : Nat) (ha : appId < 256) (hf : flags < 64) :
    (appId * 16777216 + flags * 262144) / 16777216 % 256 = appId := by omega
theorem ffe_h4 (appId flags : Nat) (ha : appId < 256) (hf : flags < 64) :
    (appId * 16777216 + flags * 262144) / 262144 % 64 = flags := by omega
theorem ffe_h1 (pid : Nat) (hp : pid < 256) : (15 * 16777216 + pid) / 16777216 % 256 = 15 := by omega
theorem ffe_h2 (pid : Nat) (hp : pid < 256) : (15 * 16777216 + pid) % 256 = pid := by omega

theorem decode_ffe (pid appId flags : Nat) (hp : pid < 256) (ha : appId < 256) (hf : flags < 64) :
    decode (ffeReq pid appId flags) = .ffe pid appId flags := by
  have e : ((nnFfe <<< 24) ||| pid) = 15 * 16777216 + pid := by
    simp only [Nat.shiftLeft_eq, nnFfe]
    rw [orAdd (15 * 2^24) pid 24 (by side) (by side)]
  have e2 : ((appId <<< 24) ||| (flags <<< 18)) = appId * 16777216 + flags * 262144 := by
    simp only [Nat.shiftLeft_eq]
    rw [orAdd (appId * 2^24) (flags * 2^18) 24 (by side) (by side)]
  simp only [decode, ffeReq, nnReq, e, e2]
  simp [ffe_h1 pid hp, ffe_h2 pid hp, ffe_h3 appId flags ha hf, ffe_h4 appId flags ha hf, cmdNnp, nnFfs, nnFfcs, nnFfe]

theorem decode_ffd (pid block size addr : Nat) (d : List Nat) (hp : pid < 256) (hb : block < 256)
    (hs : size < 256) :
    decode { x := 255, y := 255, p := 0, cmd := cmdFfd,
             arg1 := (nnForward <<< 24) ||| (nnRetry <<< 16) ||| pid,
             arg2 := (block <<< 16) ||| (size <<< 8), arg3 := addr, data := d }
      = .ffd pid block size addr d := by
  have e : ((nnForward <<< 24) ||| (nnRetry <<< 16) ||| pid) = 63 * 16777216 + 24 * 65536 + pid := by
    simp only [Nat.shiftLeft_eq, nnForward, nnRetry]
    rw [orAdd (63 * 2^24) (24 * 2^16) 24 (by side) (by side), orAdd _ pid 16 (by side) (by side)]
  have e2 : ((block <<< 16) ||| (size <<< 8)) = block * 65536 + size * 256 := by
    simp only [Nat.shiftLeft_eq]
    rw [orAdd (block * 2^16) (size * 2^8) 16 (by side) (by side)]
  simp only [decode, e, e2]
  have h1 : (63 * 16777216 + 24 * 65536 + pid) % 256 = pid := by omega
  have h2 : (block * 65536 + size * 256) / 65536 % 256 = block := by omega
  have h3 : (block * 65536 + size * 256) / 256 % 256 = size := by omega
  simp [h1, h2, h3, cmdNnp, cmdFfd]

theorem decode_count (state appId : Nat) (hs : state < 16) (ha : appId < 256) :
    decode (countReq state appId) = .count state 255 appId := by
  have e : ((0 <<< 26) ||| (1 <<< 22) ||| (diagCount <<< 20) ||| (state <<< 16) ||| (255 <<< 8) ||| appId)
      = 4194304 + 2 * 1048576 + state * 65536 + 255 * 256 + appId := by
    simp only [Nat.shiftLeft_eq, diagCount, Nat.zero_mul, Nat.zero_or]
    rw [orAdd (1 * 2^22) (2 * 2^20) 22 (by side) (by side), orAdd _ (state * 2^16) 20 (by side) (by side),
      orAdd _ (255 * 2^8) 16 (by side) (by side), orAdd _ appId 8 (by side) (by side)]
  simp only [decode, countReq, e]
  have h1 : (4194304 + 2 * 1048576 + state * 65536 + 255 * 256 + appId) / 1048576 % 4 = 2 := by omega
  have h2 : (4194304 + 2 * 1048576 + state * 65536 + 255 * 256 + appId) / 4194304 % 4 = 1 := by omega
  have h3 : (4194304 + 2 * 1048576 + state * 65536 + 255 * 256 + appId) / 65536 % 16 = state := by omega
  have h4 : (4194304 + 2 * 1048576 + state * 65536 + 255 * 256 + appId) / 256 % 256 = 255 := by omega
  have h5 : (4194304 + 2 * 1048576 + state * 65536 + 255 * 256 + appId) % 256 = appId := by omega
  simp [h1, h2, h3, h4, h5, cmdNnp, cmdFfd, cmdSignal, diagCountType, diagCount]

theorem decode_start (appId : Nat) (ha : appId < 256) :
    decode (startReq appId) = .signal sigStart 255 appId := by
  have e : ((sigStart <<< 16) ||| 65280 ||| appId) = 3 * 65536 + 65280 + appId := by
    simp only [Nat.shiftLeft_eq, sigStart]
    rw [orAdd (3 * 2^16) 65280 16 (by side) (by side), orAdd _ appId 8 (by side) (by side)]
  simp only [decode, startReq, e]
  have h3 : (3 * 65536 + 65280 + appId) / 65536 % 256 = 3 := by omega
  have h4 : (3 * 65536 + 65280 + appId) / 256 % 256 = 255 := by omega
  have h5 : (3 * 65536 + 65280 + appId) % 256 = appId := by omega
  simp [h3, h4, h5, cmdNnp, cmdFfd, cmdSignal, diagCountType, sigStartType, sigStart]

theorem decode_read (x y addr len dt : Nat) :
    decode { x := x, y := y, p := 0, cmd := cmdRead, arg1 := addr, arg2 := len, arg3 := dt, data := [] }
      = .read x y addr len := by
  simp [decode, cmdRead, cmdNnp, cmdFfd, cmdSignal]

/-! data packets -/

theorem take_drop_len (buf : Nat) (data : List Nat) :
    data.drop (data.take buf).length = data.drop buf := by
  by_cases h : buf ≤ data.length
  · simp [List.length_take, Nat.min_eq_left h]
  · have h' : data.length ≤ buf := by omega
    simp [List.length_take, Nat.min_eq_right h', List.drop_eq_nil_of_le h']

/-- the data requests decode to the data packets of a well-formed fill -/
theorem ffdReqs_decode (pid buf : Nat) (hp : pid < 256) (hbuf : buf ≤ 1024) :
    ∀ (fuel block addr : Nat) (data : List Nat) (k : Nat), k + block = 255 → data.length ≤ k * buf →
      (ffdReqs pid buf fuel block addr data).map decode = ffdPkts pid buf fuel block addr data := by
  intro fuel
  induction fuel with
  | zero => intros; simp [ffdReqs, ffdPkts]
  | succ fuel ih =>
    intro block addr data k hk hlen
    unfold ffdReqs ffdPkts
    by_cases h : data.length > 0
    · simp only [h, if_true, List.map_cons]
      have hk1 : 1 ≤ k := by
        rcases Nat.eq_zero_or_pos k with h0 | h0
        · subst h0; rw [Nat.zero_mul] at hlen; omega
        · exact h0
      obtain ⟨k', rfl⟩ : ∃ k', k = k' + 1 := ⟨k - 1, by omega⟩
      have hsz : (List.take buf data).length / 4 - 1 < 256 := by
        have : (List.take buf data).length ≤ buf := by simp [List.length_take]; omega
        omega
      rw [decode_ffd pid block _ addr _ hp (by omega) hsz, take_drop_len]
      congr 1
      apply ih (block + 1) _ _ k' (by omega)
      rw [Nat.succ_mul] at hlen
      simp only [List.length_drop]
      omega
    · simp [h]

/-- number of data packets = ceil(len / buf) -/
theorem ffdPkts_length (pid buf : Nat) (hb : 0 < buf) :
    ∀ (fuel block addr : Nat) (data : List Nat), data.length ≤ fuel →
      (ffdPkts pid buf fuel block addr data).length = (data.length + buf - 1) / buf := by
  intro fuel
  induction fuel with
  | zero =>
    intro block addr data h
    have : data.length = 0 := by omega
    simp [ffdPkts, this]
    exact (Nat.div_eq_of_lt (by omega)).symm
  | succ fuel ih =>
    intro block addr data h
    unfold ffdPkts
    by_cases hd : data.length > 0
    · simp only [hd, if_true, List.length_cons]
      rw [ih _ _ _ (by simp only [List.length_drop]; omega)]
      simp only [List.length_drop]
      by_cases hle : buf ≤ data.length
      · have : data.length + buf - 1 = (data.length - buf + buf - 1) + buf := by omega
        rw [this, Nat.add_div_right _ hb]
      · have h1 : data.length - buf = 0 := by omega
        rw [h1]
        have e1 : (0 + buf - 1) / buf = 0 := Nat.div_eq_of_lt (by omega)
        have e2 : (data.length + buf - 1) / buf = 1 := by
          have : data.length + buf - 1 = (data.length - 1) + buf := by omega
          rw [this, Nat.add_div_right _ hb, Nat.div_eq_of_lt (by omega)]
        omega
    · have : data.length = 0 := by omega
      simp [hd, this]
      exact (Nat.div_eq_of_lt (by omega)).symm

def Pkt.block : Pkt → Nat
  | .ffd _ b _ _ _ => b
  | _ => 0

def Pkt.payload : Pkt → List Nat
  | .ffd _ _ _ _ d => d
  | _ => []

/-- blocks are numbered consecutively -/
theorem ffdPkts_blocks (pid buf : Nat) :
    ∀ (fuel block addr : Nat) (data : List Nat),
      (ffdPkts pid buf fuel block addr data).map Pkt.block =
        List.range' block (ffdPkts pid buf fuel block addr data).length := by
  intro fuel
  induction fuel with
  | zero => intros; simp [ffdPkts]
  | succ fuel ih =>
    intro block addr data
    unfold ffdPkts
    by_cases hd : data.length > 0
    · simp only [hd, if_true, List.map_cons, List.length_cons, List.range'_succ, Pkt.block]
      rw [ih]
    · simp [hd]

/-- the payloads reassemble to the binary -/
theorem ffdPkts_payload (pid buf : Nat) (hb : 0 < buf) :
    ∀ (fuel block addr : Nat) (data : List Nat), data.length ≤ fuel →
      ((ffdPkts pid buf fuel block addr data).map Pkt.payload).flatten = data := by
  intro fuel
  induction fuel with
  | zero =>
    intro block addr data h
    have : data = [] := List.eq_nil_of_length_eq_zero (by omega)
    simp [ffdPkts, this]
  | succ fuel ih =>
    intro block addr data h
    unfold ffdPkts
    by_cases hd : data.length > 0
    · simp only [hd, if_true, List.map_cons, List.flatten_cons, Pkt.payload]
      rw [ih _ _ _ (by simp only [List.length_drop]; omega), List.take_append_drop]
    · have : data = [] := List.eq_nil_of_length_eq_zero (by omega)
      simp [this]

/-- every data packet carries between 1 and `buf` bytes, a whole number of words when the binary
and the buffer are whole words, with the word count field = words - 1 -/
theorem ffdPkts_sizes (pid buf : Nat) (hb : 0 < buf) :
    ∀ (fuel block addr : Nat) (data : List Nat) (q : Pkt), q ∈ ffdPkts pid buf fuel block addr data →
      0 < q.payload.length ∧ q.payload.length ≤ buf ∧
      (4 ∣ buf → 4 ∣ data.length → 4 ∣ q.payload.length) := by
  intro fuel
  induction fuel with
  | zero => intro _ _ _ q h; simp [ffdPkts] at h
  | succ fuel ih =>
    intro block addr data q h
    unfold ffdPkts at h
    by_cases hd : data.length > 0
    · simp only [hd, if_true, List.mem_cons] at h
      rcases h with rfl | h
      · simp only [Pkt.payload, List.length_take]
        refine ⟨by omega, by omega, fun h1 h2 => ?_⟩
        by_cases hle : buf ≤ data.length
        · rw [Nat.min_eq_left hle]; exact h1
        · rw [Nat.min_eq_right (by omega)]; exact h2
      · obtain ⟨h1, h2, h3⟩ := ih _ _ _ q h
        refine ⟨h1, h2, fun hb4 hd4 => h3 hb4 ?_⟩
        simp only [List.length_drop]
        by_cases hle : buf ≤ data.length
        · omega
        · have : data.length - buf = 0 := by omega
          rw [this]; exact Nat.dvd_zero 4
    · simp [hd] at h

end Rig.C09
