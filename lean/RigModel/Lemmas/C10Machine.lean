/-
C10 helper lemmas: controller programs against a machine of several chips.

`Prog.bind` sequences programs; `loadEntries … k` is `loadEntries … (ret ())` followed by `k`; a
program that only addresses one chip runs on the machine as it runs on that chip (`runM_local`).
-/
import RigModel.Model.C10
import RigModel.Lemmas.C10Load
set_option linter.unusedSimpArgs false
set_option linter.unusedVariables false

namespace Rig.C10
open Rig.Gen.Router Rig.Gen.Scp

/-! ### sequencing -/

def Prog.bind {α β : Type} : Prog α → (α → Prog β) → Prog β
  | .ret a, f => f a
  | .fail e, _ => .fail e
  | .send r k, f => .send r (fun rep => (k rep).bind f)

theorem readProg_bind {α β : Type} (x y p : Nat) (f : α → Prog β) :
    ∀ (cs : List Rig.C07.Chunk) (acc : List Nat) (k : List Nat → Prog α),
      (readProg x y p cs acc k).bind f = readProg x y p cs acc (fun d => (k d).bind f)
  | [], acc, k => rfl
  | c :: cs, acc, k => by
    simp only [readProg, Prog.bind]
    congr 1
    funext rep
    exact readProg_bind x y p f cs _ k

theorem writeProg_bind {α β : Type} (x y p : Nat) (f : α → Prog β) :
    ∀ (cs : List Rig.C07.Chunk) (k : Prog α),
      (writeProg x y p cs k).bind f = writeProg x y p cs (k.bind f)
  | [], k => rfl
  | c :: cs, k => by
    simp only [writeProg, Prog.bind]
    congr 1
    funext rep
    exact writeProg_bind x y p f cs k

theorem readSvWord_bind {α β : Type} (scpLen x y off : Nat) (k : Nat → Prog α) (f : α → Prog β) :
    (readSvWord scpLen x y off k).bind f = readSvWord scpLen x y off (fun v => (k v).bind f) := by
  unfold readSvWord
  rw [readProg_bind]
  congr 1
  funext d
  split <;> rfl

theorem loadEntries_bind {α β : Type} (scpLen : Nat) (entries : List Entry) (x y app : Nat) (k : Prog α)
    (f : α → Prog β) :
    (loadEntries scpLen entries x y app k).bind f = loadEntries scpLen entries x y app (k.bind f) := by
  unfold loadEntries
  simp only [Prog.bind]
  congr 1
  funext rv
  split
  · rfl
  · rw [readSvWord_bind]
    congr 1
    funext buf
    split
    · rfl
    · rw [writeProg_bind]
      rfl

/-- `load_routing_table_entries` followed by the rest of the caller's loop -/
theorem loadEntries_then {β : Type} (scpLen : Nat) (entries : List Entry) (x y app : Nat) (k : Prog β) :
    loadEntries scpLen entries x y app k =
      (loadEntries scpLen entries x y app (.ret ())).bind (fun _ => k) := by
  rw [loadEntries_bind]; rfl

/-! ### running on a machine -/

theorem Machine.set_self (m : Machine) (c : ChipXY) : m.set c (m c) = m := by
  funext c'
  unfold Machine.set
  split
  · next h => rw [h]
  · rfl

theorem Machine.set_set (m : Machine) (c : ChipXY) (s s' : Chip) : (m.set c s).set c s' = m.set c s' := by
  funext c'
  unfold Machine.set
  split <;> rfl

theorem Machine.set_same (m : Machine) (c : ChipXY) (s : Chip) : (m.set c s) c = s := by
  simp [Machine.set]

theorem Machine.set_other (m : Machine) (c c' : ChipXY) (s : Chip) (h : c' ≠ c) : (m.set c s) c' = m c' := by
  simp [Machine.set, h]

theorem runM_bind {α β : Type} (pol : ChipXY → Pol) (f : α → Prog β) :
    ∀ (p : Prog α) (m : Machine),
      runM pol (p.bind f) m =
        match (runM pol p m).2.1 with
        | .ok a =>
          ((runM pol (f a) (runM pol p m).1).1, (runM pol (f a) (runM pol p m).1).2.1,
           (runM pol p m).2.2 ++ (runM pol (f a) (runM pol p m).1).2.2)
        | .error e => ((runM pol p m).1, .error e, (runM pol p m).2.2)
  | .ret a, m => by simp [Prog.bind, runM]
  | .fail e, m => by simp [Prog.bind, runM]
  | .send r k, m => by
    simp only [Prog.bind, runM]
    rw [runM_bind pol f (k _) _]
    split <;> simp_all

/-- a program all of whose commands address chip `c` runs on the machine as on that chip alone -/
theorem runM_local {α : Type} (pol : ChipXY → Pol) (c : ChipXY) :
    ∀ (p : Prog α) (m : Machine), (∀ r ∈ (run (pol c) p (m c)).2.2, (r.x, r.y) = c) →
      runM pol p m = (m.set c (run (pol c) p (m c)).1, (run (pol c) p (m c)).2.1, (run (pol c) p (m c)).2.2)
  | .ret a, m, _ => by simp [runM, run, Machine.set_self]
  | .fail e, m, _ => by simp [runM, run, Machine.set_self]
  | .send r k, m, h => by
    have hr : (r.x, r.y) = c := h r (by simp [run])
    simp only [runM, run, hr]
    have ih := runM_local pol c (k (stepChip (pol c) (m c) r).2) (m.set c (stepChip (pol c) (m c) r).1) (by
      intro r' hr'
      rw [Machine.set_same] at hr'
      exact h r' (by simp only [run, List.mem_cons]; exact Or.inr hr'))
    rw [ih, Machine.set_same, Machine.set_set]

/-! ### one chip's load -/

/-- the commands of one successful `load_routing_table_entries` -/
def loadCmds (scpLen x y app buf b : Nat) (entries : List Entry) : List Req :=
  allocReq x y app entries.length ::
    ((Rig.C07.read scpLen (svBase + svSdramSys) 4).map (readReq x y 0) ++
     ((Rig.C07.write scpLen buf (recordsFrom 0 entries)).map (writeReq x y 0) ++
      [loadReq x y app entries.length buf b]))

theorem loadCmds_addr (scpLen x y app buf b : Nat) (entries : List Entry) :
    ∀ r ∈ loadCmds scpLen x y app buf b entries, (r.x, r.y) = (x, y) := by
  intro r hr
  simp only [loadCmds, List.mem_cons, List.mem_append, List.mem_map, List.mem_singleton,
    List.not_mem_nil, or_false] at hr
  rcases hr with rfl | ⟨c, _, rfl⟩ | ⟨c, _, rfl⟩ | rfl <;> rfl

/-- what a chip must satisfy for its table to be loadable: entries in the documented range,
`sv.sdram_sys` holds the staging buffer address `buf`, the buffer is outside the router copy -/
structure ChipReady (s : Chip) (entries : List Entry) (buf : Nat) : Prop where
  inRange : ∀ e ∈ entries, e.InRange
  sv : SvWord s svSdramSys buf
  dis : buf + 16 * entries.length ≤ s.copyBase ∨ s.copyBase + 16 * rtrEntries ≤ buf

theorem blockFree_of_pol {pol : Pol} (hpol : PolValid pol) (rows : Nat → Row) (app n : Nat)
    (h : pol rows app n ≠ 0) : BlockFree rows (pol rows app n) n := by
  rcases hpol rows app n with h' | h'
  · exact absurd h' h
  · exact h'

/-- one successful load on a machine: only the addressed chip changes, to `loadedChip` -/
theorem runM_loadEntries_ok (pol : ChipXY → Pol) (m : Machine) (scpLen app buf : Nat) (c : ChipXY)
    (entries : List Entry) (hpol : PolValid (pol c)) (hb : 0 < scpLen) (ha : app < 256)
    (hbase : pol c (m c).rows app entries.length ≠ 0) (hrdy : ChipReady (m c) entries buf) :
    runM pol (loadEntries scpLen entries c.1 c.2 app (.ret ())) m =
      (m.set c (loadedChip (m c) buf (pol c (m c).rows app entries.length) app entries), .ok (),
       loadCmds scpLen c.1 c.2 app buf (pol c (m c).rows app entries.length) entries) := by
  have hfree := blockFree_of_pol hpol _ _ _ hbase
  have hlen : entries.length < 65536 := by
    have := hfree.2.1; simp only [rtrEntries] at this; omega
  have hrun := load_run (pol c) (m c) scpLen c.1 c.2 app buf entries (.ret ()) hb ha hbase hlen
    hrdy.inRange hrdy.sv hrdy.dis
  have hl := runM_local pol c (loadEntries scpLen entries c.1 c.2 app (.ret ())) m (by
    rw [hrun]
    simp only [run, List.append_nil]
    exact loadCmds_addr scpLen c.1 c.2 app buf _ entries)
  rw [hl, hrun]
  simp [run, loadCmds]

/-- a failed allocation on a machine: nothing changes, one command -/
theorem runM_loadEntries_fail {α : Type} (pol : ChipXY → Pol) (m : Machine) (scpLen app : Nat) (c : ChipXY)
    (entries : List Entry) (k : Prog α) (ha : app < 256) (h0 : pol c (m c).rows app entries.length = 0) :
    runM pol (loadEntries scpLen entries c.1 c.2 app k) m =
      (m, .error (.routerError entries.length c.1 c.2), [allocReq c.1 c.2 app entries.length]) := by
  have hx : ((allocReq c.1 c.2 app entries.length).x, (allocReq c.1 c.2 app entries.length).y) = c := rfl
  simp only [loadEntries, runM, hx, step_alloc (pol c) (m c) c.1 c.2 app _ ha, h0, if_true, Machine.set_self]

/-- `LoadSpec` of the chip a successful load leaves behind -/
theorem loadedChip_spec (s : Chip) (buf b app : Nat) (entries : List Entry) (hb : b ≠ 0) :
    LoadSpec s.rows (loadedChip s buf b app entries).rows entries app b false true := by
  simp only [LoadSpec, hb, if_false, true_and]
  refine ⟨?_, ?_⟩
  · intro i hi
    refine ⟨entries.getD i dfltEntry, by simp [List.getD_eq_getElem?_getD, List.getElem?_eq_getElem hi], ?_, ?_⟩
    · rw [loaded_rows_in s buf _ app entries i hi]
      simp only [RowHolds, entOf, true_and]
      intro b _
      exact routeWord_testBit _ b
    · rw [loaded_rows_in s buf _ app entries i hi]
  · intro j _ hj
    exact loaded_rows_out s buf _ app entries j hj

/-! ### reading back a loaded chip -/

theorem loadedChip_svRtrCopy (s : Chip) (buf b app : Nat) (entries : List Entry)
    (hsv2 : SvWord s svRtrCopy s.copyBase)
    (hdis2 : buf + 16 * entries.length ≤ svBase + svRtrCopy ∨ svBase + svRtrCopy + 4 ≤ buf) :
    SvWord (loadedChip s buf b app entries) svRtrCopy (loadedChip s buf b app entries).copyBase := by
  refine ⟨hsv2.1, hsv2.2.1, ?_⟩
  show List.map _ _ = le32 s.copyBase
  rw [← hsv2.2.2]
  apply List.map_congr_left
  intro i hi
  have hi' : i < 4 := by simpa using hi
  simp only [loadedChip, Rig.C07.writeMem, recordsFrom_length]
  rw [if_neg (by rcases hdis2 with h | h <;> omega)]

theorem loadedChip_rows_ok (s : Chip) (buf b app : Nat) (entries : List Entry) (ha : app < 256)
    (hr : ∀ e ∈ entries, e.InRange) (hrows : ∀ j, j < rtrEntries → (s.rows j).Ok) :
    ∀ j, j < rtrEntries → ((loadedChip s buf b app entries).rows j).Ok := by
  intro j hj
  by_cases hjb : b ≤ j ∧ j < b + entries.length
  · have e : j = b + (j - b) := by omega
    rw [e, loaded_rows_in s buf _ app entries _ (by omega)]
    have : (entries.getD (j - b) dfltEntry).InRange := by
      apply hr
      have hi : j - b < entries.length := by omega
      simp [List.getD_eq_getElem?_getD, List.getElem?_eq_getElem hi]
    simp only [Row.Ok, entOf]
    exact ⟨routeWord_lt _ 24 this.1, this.2.1, this.2.2, ha, by omega⟩
  · rw [loaded_rows_out s buf _ app entries j hjb]
    exact hrows j hj

/-- `get_routing_table_entries` on a machine: only reads, nothing changes -/
theorem runM_getEntries (pol : ChipXY → Pol) (m : Machine) (scpLen : Nat) (c : ChipXY) (hb : 0 < scpLen)
    (hsv : SvWord (m c) svRtrCopy (m c).copyBase) (hrows : ∀ j, j < rtrEntries → ((m c).rows j).Ok) :
    runM pol (getEntries scpLen c.1 c.2) m =
      (m, .ok ((List.range rtrEntries).map (fun j => decRow ((m c).rows j))),
       (Rig.C07.read scpLen (svBase + svRtrCopy) 4).map (readReq c.1 c.2 0) ++
         (Rig.C07.read scpLen (m c).copyBase (rtrEntries * 16)).map (readReq c.1 c.2 0)) := by
  have hrun := get_run (pol c) (m c) scpLen c.1 c.2 hb hsv hrows
  rw [runM_local pol c (getEntries scpLen c.1 c.2) m (by
    rw [hrun]
    intro r hr
    simp only [List.mem_append, List.mem_map] at hr
    rcases hr with ⟨ch, _, rfl⟩ | ⟨ch, _, rfl⟩ <;> rfl)]
  rw [hrun, Machine.set_self]

/-- what reading back a loaded chip gives inside the block -/
theorem readback_loaded_in (s : Chip) (buf b app : Nat) (entries : List Entry) (i : Nat)
    (hi : i < entries.length) (hbi : b + i < rtrEntries) (hr : ∀ e ∈ entries, e.InRange) :
    ∃ e d, entries[i]? = some e ∧
      ((List.range rtrEntries).map (fun j => decRow ((loadedChip s buf b app entries).rows j)))[b + i]? =
        some (some d) ∧
      d.key = e.key ∧ d.mask = e.mask ∧ d.app = app ∧ d.core = 0 ∧ (∀ r, r ∈ d.routes ↔ r ∈ e.route) := by
  have hin : (entries.getD i dfltEntry).InRange := by
    apply hr
    simp [List.getD_eq_getElem?_getD, List.getElem?_eq_getElem hi]
  refine ⟨entries.getD i dfltEntry,
    { routes := routesValues.filter (fun b => (routeWord (entries.getD i dfltEntry).route >>> b) &&& 1 = 1),
      key := (entries.getD i dfltEntry).key, mask := (entries.getD i dfltEntry).mask, app := app, core := 0 },
    by simp [List.getD_eq_getElem?_getD, List.getElem?_eq_getElem hi], ?_, rfl, rfl, rfl, rfl, ?_⟩
  · simp only [List.getElem?_map, List.getElem?_range hbi, Option.map_some]
    rw [loaded_rows_in s buf _ app entries i hi]
    simp only [decRow, entOf]
    rfl
  · intro r
    rw [mem_routes_filter, routeWord_testBit]
    exact ⟨fun h => h.2, fun h => ⟨hin.1 r h, h⟩⟩

theorem readback_loaded_out (s : Chip) (buf b app : Nat) (entries : List Entry) (j : Nat)
    (hj : j < rtrEntries) (hjb : ¬ (b ≤ j ∧ j < b + entries.length)) :
    ((List.range rtrEntries).map (fun j => decRow ((loadedChip s buf b app entries).rows j)))[j]? =
      some (decRow (s.rows j)) := by
  simp only [List.getElem?_map, List.getElem?_range hj, Option.map_some]
  rw [loaded_rows_out s buf _ app entries j hjb]

/-! ### the loop over the chips -/

theorem flatMap_congr' {α β : Type} {f g : α → List β} : ∀ (l : List α), (∀ a ∈ l, f a = g a) →
    l.flatMap f = l.flatMap g
  | [], _ => rfl
  | a :: l, h => by
    simp only [List.flatMap_cons]
    rw [h a (by simp), flatMap_congr' l (fun b hb => h b (by simp [hb]))]

/-- answer of chip `ct.1` to the allocation of its table, from its initial state -/
def baseOf (pol : ChipXY → Pol) (m : Machine) (app : Nat) (ct : ChipXY × List Entry) : Nat :=
  pol ct.1 (m ct.1).rows app ct.2.length

def tableCmds (pol : ChipXY → Pol) (m : Machine) (scpLen app : Nat) (buf : ChipXY → Nat)
    (ct : ChipXY × List Entry) : List Req :=
  loadCmds scpLen ct.1.1 ct.1.2 app (buf ct.1) (baseOf pol m app ct) ct.2

/-- **the loop, up to any point**: as long as allocations succeed, the chips processed so far hold
`loadedChip` of their initial state, all other chips are untouched, and the loop continues with the
remaining tables -/
theorem loadTables_prefix (pol : ChipXY → Pol) (scpLen app : Nat) (buf : ChipXY → Nat)
    (hpol : ∀ c, PolValid (pol c)) (hb : 0 < scpLen) (ha : app < 256) (post : Tables) :
    ∀ (pre : Tables) (m : Machine), ((pre ++ post).map (·.1)).Nodup →
      (∀ ct ∈ pre, ChipReady (m ct.1) ct.2 (buf ct.1)) → (∀ ct ∈ pre, baseOf pol m app ct ≠ 0) →
      ∃ m1 : Machine,
        runM pol (loadTables scpLen app (pre ++ post)) m =
          ((runM pol (loadTables scpLen app post) m1).1, (runM pol (loadTables scpLen app post) m1).2.1,
           pre.flatMap (tableCmds pol m scpLen app buf) ++ (runM pol (loadTables scpLen app post) m1).2.2) ∧
        (∀ ct ∈ pre, m1 ct.1 = loadedChip (m ct.1) (buf ct.1) (baseOf pol m app ct) app ct.2) ∧
        (∀ c, c ∉ pre.map (·.1) → m1 c = m c)
  | [], m, _, _, _ => ⟨m, by simp, by simp, by simp⟩
  | (c, es) :: pre, m, hnd, hrdy, hbase => by
    have hc := hbase (c, es) (by simp)
    have hr := hrdy (c, es) (by simp)
    simp only [baseOf] at hc
    simp only [List.cons_append, List.map_cons, List.nodup_cons] at hnd
    let m' := m.set c (loadedChip (m c) (buf c) (pol c (m c).rows app es.length) app es)
    have hne : ∀ ct ∈ pre, ct.1 ≠ c := by
      intro ct hct h
      exact hnd.1 (by rw [← h]; exact List.mem_map.2 ⟨ct, List.mem_append_left _ hct, rfl⟩)
    have hm' : ∀ ct ∈ pre, m' ct.1 = m ct.1 := fun ct hct => Machine.set_other m c ct.1 _ (hne ct hct)
    have hbo : ∀ ct ∈ pre, baseOf pol m' app ct = baseOf pol m app ct := by
      intro ct hct; simp only [baseOf, hm' ct hct]
    obtain ⟨m1, hrun, hin, hout⟩ := loadTables_prefix pol scpLen app buf hpol hb ha post pre m' hnd.2
      (by intro ct hct; rw [hm' ct hct]; exact hrdy ct (by simp [hct]))
      (by intro ct hct; rw [hbo ct hct]; exact hbase ct (by simp [hct]))
    refine ⟨m1, ?_, ?_, ?_⟩
    · simp only [List.cons_append, loadTables]
      rw [loadEntries_then, runM_bind, runM_loadEntries_ok pol m scpLen app (buf c) c es (hpol c) hb ha hc hr]
      simp only
      rw [hrun]
      have hcm : pre.flatMap (tableCmds pol m' scpLen app buf) = pre.flatMap (tableCmds pol m scpLen app buf) := by
        apply flatMap_congr'
        intro ct hct
        simp only [tableCmds, hbo ct hct]
      simp [List.flatMap_cons, tableCmds, baseOf, hcm]
    · intro ct hct
      simp only [List.mem_cons] at hct
      rcases hct with rfl | hct
      · rw [hout c (fun h => hnd.1 (by
          obtain ⟨ct, hct, h'⟩ := List.mem_map.1 h
          exact List.mem_map.2 ⟨ct, List.mem_append_left _ hct, h'⟩))]
        exact Machine.set_same m c _
      · rw [hin ct hct, hm' ct hct, hbo ct hct]
    · intro c' hc'
      simp only [List.map_cons, List.mem_cons, not_or] at hc'
      rw [hout c' hc'.2]
      exact Machine.set_other m c c' _ hc'.1

end Rig.C10
