/-
C06 - helper definitions and lemmas for the property theorems in `RigModel.Props.C06`.
-/
import RigModel.Model.C06
set_option linter.unusedSimpArgs false
set_option linter.unusedVariables false

namespace Rig.C06
open Rig.Gen.Scp

/-- the per-command extra timeouts as the iterator the burst consumes -/
def ext (l : List Int) : Nat → Option Int := fun i => l[i]?

/-- commands whose callback was called, in order -/
def calledOf (evs : List Ev) : List Nat :=
  evs.filterMap (fun e => match e with | .callback c _ => some c | _ => none)

/-- (command, try number) of every transmission, in order -/
def sendKeys (evs : List Ev) : List (Nat × Nat) :=
  evs.filterMap (fun e => match e with | .send _ c k _ => some (c, k) | _ => none)

def WF (cfg : Cfg) : Prop := 1 ≤ cfg.window ∧ 1 ≤ cfg.nTries ∧ cfg.window < cfg.modulus

/-- states reachable by whole loop iterations from the start of a burst (any initial sequence counter) -/
inductive Reach (cfg : Cfg) (l : List Int) (clock : Nat → Int) : St → Prop
  | init (s0 : Nat) : Reach cfg l clock (St.init s0)
  | step (st : St) (b : List Dgram) : Reach cfg l clock st → st.active = true →
      (iter cfg (ext l) clock st b).2.2 = none → Reach cfg l clock (iter cfg (ext l) clock st b).1

/-! ### event-list projections -/

theorem mem_calledOf {H : List Ev} {c : Nat} : c ∈ calledOf H ↔ ∃ i, Ev.callback c i ∈ H := by
  simp only [calledOf, List.mem_filterMap]
  constructor
  · rintro ⟨e, he, h⟩
    cases e with
    | send => simp at h
    | callback c' i => simp at h; subst h; exact ⟨i, he⟩
  · rintro ⟨i, hi⟩
    exact ⟨_, hi, rfl⟩

theorem mem_sendKeys {H : List Ev} {c k : Nat} :
    (c, k) ∈ sendKeys H ↔ ∃ s t, Ev.send s c k t ∈ H := by
  simp only [sendKeys, List.mem_filterMap]
  constructor
  · rintro ⟨e, he, h⟩
    cases e with
    | callback => simp at h
    | send s c' k' t => simp at h; obtain ⟨rfl, rfl⟩ := h; exact ⟨s, t, he⟩
  · rintro ⟨s, t, h⟩
    exact ⟨_, h, rfl⟩

theorem calledOf_append (A B : List Ev) : calledOf (A ++ B) = calledOf A ++ calledOf B := by
  simp [calledOf, List.filterMap_append]

theorem sendKeys_append (A B : List Ev) : sendKeys (A ++ B) = sendKeys A ++ sendKeys B := by
  simp [sendKeys, List.filterMap_append]

theorem calledOf_callbacks (p : List (Nat × Nat)) :
    calledOf (p.map (fun p => Ev.callback p.1 p.2)) = p.map (·.1) := by
  induction p with
  | nil => rfl
  | cons a p ih => simp [calledOf] at ih ⊢; exact ih

theorem sendKeys_callbacks (p : List (Nat × Nat)) :
    sendKeys (p.map (fun p => Ev.callback p.1 p.2)) = [] := by
  induction p with
  | nil => rfl
  | cons a p ih => simp [sendKeys]

/-! ### `drawSeq` never returns a sequence number that is outstanding -/

theorem hasSeq_iff {outs : List (Nat × Out)} {s : Nat} :
    hasSeq outs s = true ↔ s ∈ outs.map (·.1) := by
  simp [hasSeq, List.any_eq_true]

theorem drawSeq_tried (m : Nat) (hm : 0 < m) (outs : List (Nat × Out)) :
    ∀ fuel ctr, ctr < m → hasSeq outs (drawSeq m outs fuel ctr).1 = true →
      ∀ i, i < fuel → hasSeq outs ((ctr + i) % m) = true := by
  intro fuel
  induction fuel with
  | zero => intro ctr _ _ i hi; omega
  | succ fuel ih =>
    intro ctr hc h i hi
    unfold drawSeq at h
    split at h
    · rename_i hin
      have hlt : (ctr + 1) % m < m := Nat.mod_lt _ hm
      have := ih _ hlt h
      cases i with
      | zero => simpa [Nat.mod_eq_of_lt hc] using hin
      | succ j =>
        have h2 := this j (by omega)
        rw [Nat.mod_add_mod] at h2
        have : ctr + 1 + j = ctr + (j + 1) := by omega
        rw [this] at h2; exact h2
    · rename_i hin
      simp at h; simp [h] at hin

theorem residues_nodup (m c : Nat) (hc : c < m) (n : Nat) (hn : n ≤ m) :
    ((List.range n).map (fun i => (c + i) % m)).Nodup := by
  rw [List.Nodup, List.pairwise_map]
  have := @List.nodup_range n
  refine List.Pairwise.imp_of_mem ?_ this
  intro a b ha hb hab heq
  simp only [List.mem_range] at ha hb
  apply hab
  -- (c + a) % m = (c + b) % m with a, b < m
  have e1 : (c + a) % m = if c + a < m then c + a else c + a - m := by
    split
    · exact Nat.mod_eq_of_lt ‹_›
    · rw [Nat.mod_eq_sub_mod (by omega)]; exact Nat.mod_eq_of_lt (by omega)
  have e2 : (c + b) % m = if c + b < m then c + b else c + b - m := by
    split
    · exact Nat.mod_eq_of_lt ‹_›
    · rw [Nat.mod_eq_sub_mod (by omega)]; exact Nat.mod_eq_of_lt (by omega)
  rw [e1, e2] at heq
  split at heq <;> split at heq <;> omega

theorem drawSeq_fresh (m : Nat) (outs : List (Nat × Out)) (ctr : Nat)
    (h : outs.length + 1 < m) : hasSeq outs (drawSeq m outs m ctr).1 = false := by
  cases hm : m with
  | zero => omega
  | succ m' =>
    cases hh : hasSeq outs (drawSeq (m' + 1) outs (m' + 1) ctr).1 with
    | false => rfl
    | true =>
      exfalso
      unfold drawSeq at hh
      split at hh
      · have hlt : (ctr + 1) % (m' + 1) < m' + 1 := Nat.mod_lt _ (by omega)
        have ht := drawSeq_tried (m' + 1) (by omega) outs m' _ hlt hh
        have hnd := residues_nodup (m' + 1) _ hlt m' (by omega)
        have hsub : (List.range m').map (fun i => ((ctr + 1) % (m' + 1) + i) % (m' + 1)) ⊆ outs.map (·.1) := by
          intro x hx
          simp only [List.mem_map, List.mem_range] at hx
          obtain ⟨i, hi, rfl⟩ := hx
          exact hasSeq_iff.mp (ht i hi)
        have := List.Nodup.length_le_of_subset hnd hsub
        simp at this
        omega
      · rename_i hin
        simp at hh; simp [hh] at hin

/-! ### association-list facts -/

theorem lookup_split {outs : List (Nat × Out)} {s : Nat} {o : Out}
    (hk : (outs.map (·.1)).Nodup) (h : lookupSeq outs s = some o) :
    ∃ l1 l2, outs = l1 ++ (s, o) :: l2 ∧ removeSeq outs s = l1 ++ l2 := by
  induction outs with
  | nil => simp [lookupSeq] at h
  | cons p rest ih =>
    obtain ⟨s1, o1⟩ := p
    simp only [List.map_cons, List.nodup_cons] at hk
    by_cases hs : s1 = s
    · subst hs
      simp [lookupSeq] at h
      subst h
      refine ⟨[], rest, rfl, ?_⟩
      simp only [removeSeq, List.nil_append]
      rw [List.filter_cons_of_neg (by simp)]
      rw [List.filter_eq_self]
      intro a ha
      have : a.1 ≠ s1 := by
        intro e; apply hk.1; rw [← e]; exact List.mem_map_of_mem ha
      simpa using this
    · have h' : lookupSeq rest s = some o := by
        simpa [lookupSeq, List.find?_cons, hs] using h
      obtain ⟨l1, l2, e1, e2⟩ := ih hk.2 h'
      refine ⟨(s1, o1) :: l1, l2, by simp [e1], ?_⟩
      simp only [removeSeq] at e2 ⊢
      rw [List.filter_cons_of_pos (by simpa using hs), e2]
      rfl

theorem lookup_none {outs : List (Nat × Out)} {s : Nat} (h : lookupSeq outs s = none) :
    s ∉ outs.map (·.1) := by
  simp [lookupSeq] at h
  simp
  intro o hm
  exact h _ _ hm rfl

/-! ### the sequence numbers a burst uses when it has at most `modulus` commands -/

/-- the sequence number command `c` gets when the generator starts at `s0` and never has to skip -/
def seqVal (m s0 c : Nat) : Nat := if c = 0 then s0 else (s0 + c) % m

theorem mod_shift {m r d : Nat} (hr : r < m) (hd : d < m) (h : (r + d) % m = r) : d = 0 := by
  by_cases hlt : r + d < m
  · rw [Nat.mod_eq_of_lt hlt] at h; omega
  · rw [Nat.mod_eq_sub_mod (by omega), Nat.mod_eq_of_lt (by omega)] at h; omega

theorem mod_shift' {m a d : Nat} (hd : d < m) (h : (a + d) % m = a % m) : d = 0 := by
  have hm : 0 < m := by omega
  rw [← Nat.mod_add_mod] at h
  exact mod_shift (Nat.mod_lt _ hm) hd h

theorem seqVal_inj {m s0 c c' : Nat} (hc : c < m) (hc' : c' < m)
    (h : seqVal m s0 c = seqVal m s0 c') : c = c' := by
  have hm : 0 < m := by omega
  unfold seqVal at h
  split at h <;> split at h
  · omega
  · have hlt : s0 < m := by rw [h]; exact Nat.mod_lt _ hm
    have := mod_shift hlt hc' h.symm
    omega
  · have hlt : s0 < m := by rw [← h]; exact Nat.mod_lt _ hm
    have := mod_shift hlt hc h
    omega
  · by_cases hle : c ≤ c'
    · have e : s0 + c' = (s0 + c) + (c' - c) := by omega
      rw [e] at h
      have := mod_shift' (by omega) h.symm
      omega
    · have e : s0 + c = (s0 + c') + (c - c') := by omega
      rw [e] at h
      have := mod_shift' (by omega) h
      omega

theorem seqVal_succ (m s0 c : Nat) : (seqVal m s0 c + 1) % m = seqVal m s0 (c + 1) := by
  unfold seqVal
  split
  · subst_vars; simp
  · simp only [Nat.add_eq_zero_iff, Nat.succ_ne_self, and_false, if_false]
    rw [Nat.mod_add_mod, Nat.add_assoc]

theorem drawSeq_nohit (m : Nat) (outs : List (Nat × Out)) (fuel ctr : Nat)
    (h : hasSeq outs ctr = false) : drawSeq m outs fuel ctr = (ctr, (ctr + 1) % m) := by
  cases fuel <;> simp [drawSeq, h]

/-! ### the history invariant -/

/-- the callback for command `c` with datagram `i` is justified: `i` is an OK datagram (satisfying `P`,
e.g. "was in one of the batches") whose sequence number is the one `c` was first sent with -/
def Prov (P : Dgram → Prop) (H : List Ev) (c i : Nat) : Prop :=
  ∃ d, P d ∧ d.id = i ∧ d.rc = rcOk ∧ ∃ t, Ev.send d.seq c 1 t ∈ H

theorem Prov.mono {P : Dgram → Prop} {H H' : List Ev} {c i : Nat} (h : Prov P H c i)
    (sub : ∀ e, e ∈ H → e ∈ H') : Prov P H' c i := by
  obtain ⟨d, hp, hi, hr, t, ht⟩ := h
  exact ⟨d, hp, hi, hr, t, sub _ ht⟩

/-- facts about one outstanding packet `(s, o)` relative to the history `H` -/
structure OutOK (cfg : Cfg) (l : List Int) (H : List Ev) (s : Nat) (o : Out) : Prop where
  tries_pos : 1 ≤ o.tries
  tries_le : o.tries ≤ cfg.nTries
  timeout_eq : ∃ ex, l[o.cmd]? = some ex ∧ o.timeout = cfg.defaultTimeout + ex
  first : ∃ t, Ev.send s o.cmd 1 t ∈ H
  last : ∃ t, Ev.send s o.cmd o.tries t ∈ H ∧ o.deadline = t + o.timeout
  max : ∀ s' k t, Ev.send s' o.cmd k t ∈ H → k ≤ o.tries

theorem OutOK.extend {cfg : Cfg} {l : List Int} {H E : List Ev} {s : Nat} {o : Out}
    (h : OutOK cfg l H s o) (hE : ∀ s' k t, Ev.send s' o.cmd k t ∉ E) : OutOK cfg l (H ++ E) s o := by
  obtain ⟨h1, h2, h3, ⟨t1, h4⟩, ⟨t2, h5, h5'⟩, h6⟩ := h
  refine ⟨h1, h2, h3, ⟨t1, List.mem_append_left _ h4⟩, ⟨t2, List.mem_append_left _ h5, h5'⟩, ?_⟩
  intro s' k t hm
  rcases List.mem_append.mp hm with hm | hm
  · exact h6 _ _ _ hm
  · exact absurd hm (hE _ _ _)

def cmds (H : List Ev) (pend : List (Nat × Nat)) (outs : List (Nat × Out)) : List Nat :=
  calledOf H ++ pend.map (·.1) ++ outs.map (·.2.cmd)

structure Inv (cfg : Cfg) (l : List Int) (P : Dgram → Prop) (s0 ctr : Nat) (next : Nat) (queued : Bool)
    (outs : List (Nat × Out)) (pend : List (Nat × Nat)) (H : List Ev) : Prop where
  win : outs.length ≤ cfg.window
  keys : (outs.map (·.1)).Nodup
  nodup : (cmds H pend outs).Nodup
  cover : ∀ c, c ∈ cmds H pend outs ↔ c < next
  next_le : next ≤ l.length
  drained : queued = false → next = l.length
  out_ok : ∀ s o, (s, o) ∈ outs → OutOK cfg l H s o
  pend_ok : ∀ c i, (c, i) ∈ pend → Prov P H c i
  cb_ok : ∀ c i, Ev.callback c i ∈ H → Prov P H c i
  send_ok : ∀ s c k t, Ev.send s c k t ∈ H → 1 ≤ k ∧ k ≤ cfg.nTries ∧ c < next
  seq_fix : ∀ s c k t s' k' t', Ev.send s c k t ∈ H → Ev.send s' c k' t' ∈ H → s = s'
  keys_nodup : (sendKeys H).Nodup
  spacing : ∀ s c k t, Ev.send s c (k + 2) t ∈ H →
    ∃ t0, Ev.send s c (k + 1) t0 ∈ H ∧ t0 + (cfg.defaultTimeout + (l[c]?).getD 0) < t
  /-- with at most `modulus` commands the generator never skips: the counter and every
  transmission's sequence number are determined by the command index -/
  ctr_val : l.length ≤ cfg.modulus → ctr = seqVal cfg.modulus s0 next
  seq_val : l.length ≤ cfg.modulus → ∀ s c k t, Ev.send s c k t ∈ H → s = seqVal cfg.modulus s0 c

theorem Inv.init (cfg : Cfg) (l : List Int) (P : Dgram → Prop) (s0 : Nat) :
    Inv cfg l P s0 s0 0 true [] [] [] := by
  refine ⟨by simp, by simp, by simp [cmds, calledOf], by simp [cmds, calledOf], by omega, by simp,
    by simp, by simp, by simp, by simp, by simp, by simp [sendKeys], by simp, by simp [seqVal], by simp⟩

/-- the transmit loop sends a new command -/
theorem Inv.send_new {cfg : Cfg} {l : List Int} {P : Dgram → Prop} {s0 : Nat} {ctr next : Nat}
    {outs : List (Nat × Out)} {pend : List (Nat × Nat)} {H : List Ev}
    (wf : WF cfg) (h : Inv cfg l P s0 ctr next true outs pend H)
    (hlen : outs.length < cfg.window) {ex : Int} (hex : l[next]? = some ex)
    {seq : Nat} (hseq : seq ∉ outs.map (·.1)) (t : Int) {ctr' : Nat}
    (hs : l.length ≤ cfg.modulus →
      seq = seqVal cfg.modulus s0 next ∧ ctr' = seqVal cfg.modulus s0 (next + 1)) :
    Inv cfg l P s0 ctr' (next + 1) true
      (outs ++ [(seq, { cmd := next, tries := 1, timeout := cfg.defaultTimeout + ex,
                        deadline := t + (cfg.defaultTimeout + ex) })])
      pend (H ++ [Ev.send seq next 1 t]) := by
  have hcm : cmds (H ++ [Ev.send seq next 1 t]) pend
      (outs ++ [(seq, { cmd := next, tries := 1, timeout := cfg.defaultTimeout + ex,
                        deadline := t + (cfg.defaultTimeout + ex) })]) = cmds H pend outs ++ [next] := by
    simp [cmds, calledOf_append, calledOf]
  have hnext : next ∉ cmds H pend outs := by
    intro hm; have := (h.cover next).mp hm; omega
  have hlt : next < l.length := by
    obtain ⟨hh, _⟩ := List.getElem?_eq_some_iff.mp hex; exact hh
  have hold : ∀ s c k t', Ev.send s c k t' ∈ H → c ≠ next := by
    intro s c k t' hm e
    have := (h.send_ok _ _ _ _ hm).2.2; omega
  constructor
  · simp; omega
  · simp only [List.map_append, List.map_cons, List.map_nil, List.nodup_append]
    refine ⟨h.keys, by simp, ?_⟩
    intro a ha b hb
    simp at hb; subst hb
    intro e; subst e; exact hseq ha
  · rw [hcm, List.nodup_append]
    refine ⟨h.nodup, by simp, ?_⟩
    intro a ha b hb
    simp at hb; subst hb
    intro e; subst e; exact hnext ha
  · intro c
    rw [hcm, List.mem_append, h.cover]
    simp; omega
  · omega
  · intro hq; cases hq
  · intro s o hm
    rcases List.mem_append.mp hm with hm | hm
    · have ho := h.out_ok s o hm
      apply ho.extend
      intro s' k t' hm'
      simp at hm'
      obtain ⟨t0, ht0⟩ := ho.first
      exact hold _ _ _ _ ht0 hm'.2.1
    · simp at hm
      obtain ⟨rfl, rfl⟩ := hm
      refine ⟨by simp, by simpa using wf.2.1, ⟨ex, hex, rfl⟩, ⟨t, by simp⟩, ⟨t, by simp, rfl⟩, ?_⟩
      intro s' k t' hm'
      simp at hm'
      rcases hm' with hm' | hm'
      · exact absurd rfl (hold _ _ _ _ hm')
      · show k ≤ 1; omega
  · intro c i hm
    exact (h.pend_ok c i hm).mono (fun e he => List.mem_append_left _ he)
  · intro c i hm
    simp at hm
    exact (h.cb_ok c i hm).mono (fun e he => List.mem_append_left _ he)
  · intro s c k t' hm
    simp at hm
    rcases hm with hm | hm
    · have := h.send_ok _ _ _ _ hm; omega
    · obtain ⟨_, rfl, rfl, _⟩ := hm
      have := wf.2.1; omega
  · intro s c k t1 s' k' t' hm hm'
    simp at hm hm'
    rcases hm with hm | hm <;> rcases hm' with hm' | hm'
    · exact h.seq_fix _ _ _ _ _ _ _ hm hm'
    · exact absurd hm'.2.1 (hold _ _ _ _ hm)
    · exact absurd hm.2.1 (hold _ _ _ _ hm')
    · rw [hm.1, hm'.1]
  · rw [sendKeys_append, List.nodup_append]
    refine ⟨h.keys_nodup, by simp [sendKeys], ?_⟩
    intro a ha b hb
    simp [sendKeys] at hb; subst hb
    intro e; subst e
    obtain ⟨s, t', hm⟩ := mem_sendKeys.mp ha
    exact hold _ _ _ _ hm rfl
  · intro s c k t' hm
    simp at hm
    obtain ⟨t0, h1, h2⟩ := h.spacing _ _ _ _ hm
    exact ⟨t0, List.mem_append_left _ h1, h2⟩
  · intro hl; exact (hs hl).2
  · intro hl s c k t' hm
    simp at hm
    rcases hm with hm | hm
    · exact h.seq_val hl _ _ _ _ hm
    · obtain ⟨rfl, rfl, _, _⟩ := hm
      exact (hs hl).1

/-- the callback phase: every pending callback is called -/
theorem Inv.callbacks {cfg : Cfg} {l : List Int} {P : Dgram → Prop} {s0 : Nat} {ctr next : Nat} {q : Bool}
    {outs : List (Nat × Out)} {pend : List (Nat × Nat)} {H : List Ev}
    (h : Inv cfg l P s0 ctr next q outs pend H) :
    Inv cfg l P s0 ctr next q outs [] (H ++ pend.map (fun p => Ev.callback p.1 p.2)) := by
  have hcm : cmds (H ++ pend.map (fun p => Ev.callback p.1 p.2)) [] outs = cmds H pend outs := by
    simp [cmds, calledOf_append, calledOf_callbacks]
  have hsend : ∀ s c k t, Ev.send s c k t ∈ H ++ pend.map (fun p => Ev.callback p.1 p.2) ↔
      Ev.send s c k t ∈ H := by simp
  have hsub : ∀ e, e ∈ H → e ∈ H ++ pend.map (fun p => Ev.callback p.1 p.2) :=
    fun e he => List.mem_append_left _ he
  constructor
  · exact h.win
  · exact h.keys
  · rw [hcm]; exact h.nodup
  · rw [hcm]; exact h.cover
  · exact h.next_le
  · exact h.drained
  · intro s o hm
    exact (h.out_ok s o hm).extend (by simp)
  · simp
  · intro c i hm
    rcases List.mem_append.mp hm with hm | hm
    · exact (h.cb_ok c i hm).mono hsub
    · simp at hm
      exact (h.pend_ok _ _ hm).mono hsub
  · simp only [hsend]; exact h.send_ok
  · simp only [hsend]; exact h.seq_fix
  · rw [sendKeys_append, sendKeys_callbacks, List.append_nil]; exact h.keys_nodup
  · simp only [hsend]; exact h.spacing
  · exact h.ctr_val
  · simp only [hsend]; exact h.seq_val

/-- an OK datagram whose sequence number is outstanding: the packet leaves the window and its
callback is queued -/
theorem Inv.recv_ok {cfg : Cfg} {l : List Int} {P : Dgram → Prop} {s0 : Nat} {ctr next : Nat} {q : Bool}
    {outs : List (Nat × Out)} {pend : List (Nat × Nat)} {H : List Ev}
    (h : Inv cfg l P s0 ctr next q outs pend H) {d : Dgram} (hP : P d) (hrc : d.rc = rcOk)
    {o : Out} (hl : lookupSeq outs d.seq = some o) :
    Inv cfg l P s0 ctr next q (removeSeq outs d.seq) (pend ++ [(o.cmd, d.id)]) H := by
  obtain ⟨l1, l2, e1, e2⟩ := lookup_split h.keys hl
  rw [e2]
  subst e1
  have e : cmds H (pend ++ [(o.cmd, d.id)]) (l1 ++ l2) =
      (calledOf H ++ pend.map (·.1)) ++ o.cmd :: (l1.map (·.2.cmd) ++ l2.map (·.2.cmd)) := by
    simp [cmds]
  have e' : cmds H pend (l1 ++ (d.seq, o) :: l2) =
      (calledOf H ++ pend.map (·.1)) ++ (l1.map (·.2.cmd) ++ o.cmd :: l2.map (·.2.cmd)) := by
    simp [cmds]
  have hp : (cmds H (pend ++ [(o.cmd, d.id)]) (l1 ++ l2)).Perm (cmds H pend (l1 ++ (d.seq, o) :: l2)) := by
    rw [e, e']; exact (List.perm_middle.symm).append_left _
  have hmem : ∀ p, p ∈ l1 ++ l2 → p ∈ l1 ++ (d.seq, o) :: l2 := by
    intro p hp; simp at hp ⊢; rcases hp with hp | hp
    · exact Or.inl hp
    · exact Or.inr (Or.inr hp)
  constructor
  · have := h.win; simp at this ⊢; omega
  · have := h.keys
    simp only [List.map_append, List.map_cons] at this ⊢
    exact (List.nodup_cons.mp ((List.perm_middle.nodup_iff).mp this)).2
  · exact hp.nodup_iff.mpr h.nodup
  · intro c; rw [hp.mem_iff]; exact h.cover c
  · exact h.next_le
  · exact h.drained
  · intro s o' hm; exact h.out_ok s o' (hmem _ hm)
  · intro c i hm
    rcases List.mem_append.mp hm with hm | hm
    · exact h.pend_ok c i hm
    · simp at hm
      obtain ⟨rfl, rfl⟩ := hm
      obtain ⟨t, ht⟩ := (h.out_ok d.seq o (by simp)).first
      exact ⟨d, hP, rfl, hrc, t, ht⟩
  · exact h.cb_ok
  · exact h.send_ok
  · exact h.seq_fix
  · exact h.keys_nodup
  · exact h.spacing
  · exact h.ctr_val
  · exact h.seq_val

/-- the retransmission of one timed-out packet -/
theorem Inv.resend {cfg : Cfg} {l : List Int} {P : Dgram → Prop} {s0 : Nat} {ctr next : Nat} {q : Bool}
    {l1 l2 : List (Nat × Out)} {s : Nat} {o : Out} {pend : List (Nat × Nat)} {H : List Ev}
    (h : Inv cfg l P s0 ctr next q (l1 ++ (s, o) :: l2) pend H) {now : Int}
    (hd : o.deadline < now) (ht : o.tries < cfg.nTries) :
    Inv cfg l P s0 ctr next q
      (l1 ++ (s, { o with tries := o.tries + 1, deadline := now + o.timeout }) :: l2) pend
      (H ++ [Ev.send s o.cmd (o.tries + 1) now]) := by
  have hcm : cmds (H ++ [Ev.send s o.cmd (o.tries + 1) now]) pend
      (l1 ++ (s, { o with tries := o.tries + 1, deadline := now + o.timeout }) :: l2) =
      cmds H pend (l1 ++ (s, o) :: l2) := by
    simp [cmds, calledOf_append, calledOf]
  have ho := h.out_ok s o (by simp)
  have hsub : ∀ e, e ∈ H → e ∈ H ++ [Ev.send s o.cmd (o.tries + 1) now] :=
    fun e he => List.mem_append_left _ he
  have hother : ∀ s2 o2, (s2, o2) ∈ l1 ∨ (s2, o2) ∈ l2 → o2.cmd ≠ o.cmd := by
    intro s2 o2 hm e
    have h1 := h.nodup
    simp only [cmds, List.map_append, List.map_cons] at h1
    have h2 := (List.nodup_append.mp h1).2.1
    have h3 := (List.nodup_cons.mp ((List.perm_middle.nodup_iff).mp h2)).1
    apply h3
    rw [← e]
    rcases hm with hm | hm
    · exact List.mem_append_left _ (List.mem_map_of_mem (f := fun p : Nat × Out => p.2.cmd) hm)
    · exact List.mem_append_right _ (List.mem_map_of_mem (f := fun p : Nat × Out => p.2.cmd) hm)
  constructor
  · have := h.win; simp at this ⊢; omega
  · have := h.keys; simpa using this
  · rw [hcm]; exact h.nodup
  · rw [hcm]; exact h.cover
  · exact h.next_le
  · exact h.drained
  · intro s2 o2 hm
    simp only [List.mem_append, List.mem_cons] at hm
    have hold : ∀ s2 o2, (s2, o2) ∈ l1 ∨ (s2, o2) ∈ l2 →
        OutOK cfg l (H ++ [Ev.send s o.cmd (o.tries + 1) now]) s2 o2 := by
      intro s2 o2 hm
      have hne := hother s2 o2 hm
      have hin : (s2, o2) ∈ l1 ++ (s, o) :: l2 := by
        simp only [List.mem_append, List.mem_cons]
        rcases hm with hm | hm
        · exact Or.inl hm
        · exact Or.inr (Or.inr hm)
      apply (h.out_ok s2 o2 hin).extend
      intro s' k t hm'
      simp at hm'
      exact hne hm'.2.1
    rcases hm with hm | hm | hm
    · exact hold _ _ (Or.inl hm)
    · simp only [Prod.mk.injEq] at hm
      obtain ⟨rfl, rfl⟩ := hm
      obtain ⟨t1, h1⟩ := ho.first
      refine ⟨by simp, by simp; omega, ho.timeout_eq, ⟨t1, hsub _ h1⟩, ⟨now, by simp, rfl⟩, ?_⟩
      intro s' k t hm'
      rcases List.mem_append.mp hm' with hm' | hm'
      · have := ho.max _ _ _ hm'; show k ≤ o.tries + 1; omega
      · simp at hm'; show k ≤ o.tries + 1; omega
    · exact hold _ _ (Or.inr hm)
  · intro c i hm; exact (h.pend_ok c i hm).mono hsub
  · intro c i hm
    simp at hm
    exact (h.cb_ok c i hm).mono hsub
  · intro s' c k t hm
    simp at hm
    rcases hm with hm | hm
    · exact h.send_ok _ _ _ _ hm
    · obtain ⟨rfl, rfl, rfl, rfl⟩ := hm
      obtain ⟨t1, h1⟩ := ho.first
      have := h.send_ok _ _ _ _ h1
      omega
  · intro s1 c k t1 s' k' t' hm hm'
    obtain ⟨t0, h0⟩ := ho.first
    simp at hm hm'
    rcases hm with hm | hm <;> rcases hm' with hm' | hm'
    · exact h.seq_fix _ _ _ _ _ _ _ hm hm'
    · obtain ⟨rfl, rfl, _, _⟩ := hm'
      exact h.seq_fix _ _ _ _ _ _ _ hm h0
    · obtain ⟨rfl, rfl, _, _⟩ := hm
      exact h.seq_fix _ _ _ _ _ _ _ h0 hm'
    · rw [hm.1, hm'.1]
  · rw [sendKeys_append, List.nodup_append]
    refine ⟨h.keys_nodup, by simp [sendKeys], ?_⟩
    intro a ha b hb
    simp [sendKeys] at hb; subst hb
    intro e; subst e
    obtain ⟨s', t', hm⟩ := mem_sendKeys.mp ha
    have := ho.max _ _ _ hm; omega
  · intro s' c k t hm
    simp at hm
    rcases hm with hm | hm
    · obtain ⟨t0, h1, h2⟩ := h.spacing _ _ _ _ hm
      exact ⟨t0, hsub _ h1, h2⟩
    · obtain ⟨rfl, rfl, hk, rfl⟩ := hm
      obtain ⟨t0, h1, h2⟩ := ho.last
      obtain ⟨ex, h3, h4⟩ := ho.timeout_eq
      refine ⟨t0, hsub _ (by rw [hk]; exact h1), ?_⟩
      rw [h3]; simp only [Option.getD_some]
      rw [← h4]; omega
  · exact h.ctr_val
  · intro hl s' c k t hm
    simp at hm
    rcases hm with hm | hm
    · exact h.seq_val hl _ _ _ _ hm
    · obtain ⟨rfl, rfl, _, _⟩ := hm
      obtain ⟨t1, h1⟩ := ho.first
      exact h.seq_val hl _ _ _ _ h1

/-- the invariant on a loop state -/
def SInv (cfg : Cfg) (l : List Int) (P : Dgram → Prop) (s0 : Nat) (st : St) (H : List Ev) : Prop :=
  Inv cfg l P s0 st.seqCtr st.next st.queued st.outs st.pend H

theorem Inv.set_drained {cfg : Cfg} {l : List Int} {P : Dgram → Prop} {s0 : Nat} {ctr next : Nat} {q : Bool}
    {outs : List (Nat × Out)} {pend : List (Nat × Nat)} {H : List Ev}
    (h : Inv cfg l P s0 ctr next q outs pend H) (hn : next = l.length) :
    Inv cfg l P s0 ctr next false outs pend H :=
  ⟨h.win, h.keys, h.nodup, h.cover, h.next_le, fun _ => hn, h.out_ok, h.pend_ok, h.cb_ok, h.send_ok,
    h.seq_fix, h.keys_nodup, h.spacing, h.ctr_val, h.seq_val⟩

/-! ### phases of one loop iteration -/

theorem fill_inv {cfg : Cfg} {l : List Int} {P : Dgram → Prop} {s0 : Nat} {clock : Nat → Int} (wf : WF cfg) :
    ∀ fuel st H st' evs, SInv cfg l P s0 st H → fill cfg (ext l) clock fuel st = (st', evs) →
      SInv cfg l P s0 st' (H ++ evs) := by
  intro fuel
  induction fuel with
  | zero =>
    intro st H st' evs h he
    simp only [fill, Prod.mk.injEq] at he
    obtain ⟨rfl, rfl⟩ := he
    simpa using h
  | succ fuel ih =>
    intro st H st' evs h he
    unfold fill at he
    split at he
    · rename_i hc
      obtain ⟨hlen, hq⟩ := hc
      split at he
      · rename_i hnone
        refine ih _ _ _ _ ?_ he
        have : st.next = l.length := by
          have := h.next_le
          have h2 : l.length ≤ st.next := List.getElem?_eq_none_iff.mp hnone
          omega
        exact h.set_drained this
      · rename_i ex hsome
        cases hd : drawSeq cfg.modulus st.outs cfg.modulus st.seqCtr with
        | mk seq ctr =>
          rw [hd] at he
          simp only [Prod.mk.injEq] at he
          obtain ⟨rfl, rfl⟩ := he
          have hfresh : seq ∉ st.outs.map (·.1) := by
            have := drawSeq_fresh cfg.modulus st.outs st.seqCtr (by have := wf.2.2; omega)
            rw [hd] at this
            intro hm
            rw [← hasSeq_iff] at hm
            simp [hm] at this
          have h1 : Inv cfg l P s0 st.seqCtr st.next true st.outs st.pend H := by
            have := h; unfold SInv at this; rwa [hq] at this
          have hs : l.length ≤ cfg.modulus →
              seq = seqVal cfg.modulus s0 st.next ∧ ctr = seqVal cfg.modulus s0 (st.next + 1) := by
            intro hl
            have hc := h1.ctr_val hl
            have hlt : st.next < l.length := (List.getElem?_eq_some_iff.mp hsome).1
            have hno : hasSeq st.outs st.seqCtr = false := by
              cases hh : hasSeq st.outs st.seqCtr with
              | false => rfl
              | true =>
                exfalso
                rw [hasSeq_iff] at hh
                simp only [List.mem_map] at hh
                obtain ⟨⟨s, o⟩, hm, hse⟩ := hh
                simp only at hse
                obtain ⟨t1, ht1⟩ := (h1.out_ok s o hm).first
                have e1 := h1.seq_val hl _ _ _ _ ht1
                have e2 := (h1.send_ok _ _ _ _ ht1).2.2
                have := seqVal_inj (m := cfg.modulus) (s0 := s0) (c := o.cmd) (c' := st.next)
                  (by omega) (by omega) (by rw [← e1, hse, hc])
                omega
            rw [drawSeq_nohit _ _ _ _ hno] at hd
            simp only [Prod.mk.injEq] at hd
            obtain ⟨rfl, rfl⟩ := hd
            exact ⟨hc, by rw [hc]; exact seqVal_succ _ _ _⟩
          have h2 := h1.send_new wf hlen hsome hfresh (clock st.k) hs
          rw [← hq] at h2
          show SInv cfg l P s0 _ (H ++ ([Ev.send seq st.next 1 (clock st.k)] ++ _))
          rw [← List.append_assoc]
          refine ih _ _ _ _ ?_ rfl
          exact h2
    · simp only [Prod.mk.injEq] at he
      obtain ⟨rfl, rfl⟩ := he
      simpa using h

theorem recv_inv {cfg : Cfg} {l : List Int} {P : Dgram → Prop} {s0 : Nat} {ctr next : Nat} {q : Bool} {H : List Ev} :
    ∀ batch outs pend outs' pend', (∀ d, d ∈ batch → P d) → Inv cfg l P s0 ctr next q outs pend H →
      recvAll batch outs pend = .ok outs' pend' → Inv cfg l P s0 ctr next q outs' pend' H := by
  intro batch
  induction batch with
  | nil =>
    intro outs pend outs' pend' _ h he
    simp only [recvAll, RecvRes.ok.injEq] at he
    obtain ⟨rfl, rfl⟩ := he
    exact h
  | cons d ds ih =>
    intro outs pend outs' pend' hP h he
    have hP' : ∀ d, d ∈ ds → P d := fun x hx => hP x (List.mem_cons_of_mem _ hx)
    unfold recvAll at he
    split at he
    · split at he
      · exact ih _ _ _ _ hP' h he
      · cases he
    · rename_i hrc
      have hrc' : d.rc = rcOk := by simpa using hrc
      split at he
      · rename_i o ho
        exact ih _ _ _ _ hP' (h.recv_ok (hP d (List.mem_cons_self ..)) hrc' ho) he
      · exact ih _ _ _ _ hP' h he

theorem recv_fatal : ∀ batch outs pend rc c, recvAll batch outs pend = .fatal rc c →
    ∃ d, d ∈ batch ∧ d.rc = rc ∧ rc ≠ rcOk ∧ rc ∉ retryable := by
  intro batch
  induction batch with
  | nil => intro outs pend rc c he; simp [recvAll] at he
  | cons d ds ih =>
    intro outs pend rc c he
    unfold recvAll at he
    split at he
    · rename_i hrc
      split at he
      · obtain ⟨d', hd', h⟩ := ih _ _ _ _ he
        exact ⟨d', List.mem_cons_of_mem _ hd', h⟩
      · rename_i hnr
        simp only [RecvRes.fatal.injEq] at he
        obtain ⟨rfl, _⟩ := he
        refine ⟨d, List.mem_cons_self .., rfl, by simpa using hrc, by simpa using hnr⟩
    · split at he
      · obtain ⟨d', hd', h⟩ := ih _ _ _ _ he
        exact ⟨d', List.mem_cons_of_mem _ hd', h⟩
      · obtain ⟨d', hd', h⟩ := ih _ _ _ _ he
        exact ⟨d', List.mem_cons_of_mem _ hd', h⟩

theorem retrans_inv {cfg : Cfg} {l : List Int} {P : Dgram → Prop} {s0 : Nat} {ctr next : Nat} {q : Bool}
    {pend : List (Nat × Nat)} {now : Int} :
    ∀ rest pre H rest' evs r, Inv cfg l P s0 ctr next q (pre ++ rest) pend H →
      retrans cfg.nTries now rest = (rest', evs, r) →
      Inv cfg l P s0 ctr next q (pre ++ rest') pend (H ++ evs) ∧
      (∀ c, r = some c → ∃ s o, (s, o) ∈ rest' ∧ o.cmd = c ∧ cfg.nTries ≤ o.tries) := by
  intro rest
  induction rest with
  | nil =>
    intro pre H rest' evs r h he
    simp only [retrans, Prod.mk.injEq] at he
    obtain ⟨rfl, rfl, rfl⟩ := he
    exact ⟨by simpa using h, by simp⟩
  | cons p rest ih =>
    intro pre H rest' evs r h he
    obtain ⟨s, o⟩ := p
    unfold retrans at he
    split at he
    · rename_i hdl
      split at he
      · rename_i htr
        simp only [Prod.mk.injEq] at he
        obtain ⟨rfl, rfl, rfl⟩ := he
        refine ⟨by simpa using h, ?_⟩
        intro c hc
        simp only [Option.some.injEq] at hc
        exact ⟨s, o, List.mem_cons_self .., hc, htr⟩
      · rename_i htr
        cases hr : retrans cfg.nTries now rest with
        | mk rest1 x =>
          obtain ⟨evs1, r1⟩ := x
          rw [hr] at he
          simp only [Prod.mk.injEq] at he
          obtain ⟨rfl, rfl, rfl⟩ := he
          have h1 := h.resend hdl (by omega)
          have h2 := ih (pre ++ [(s, { o with tries := o.tries + 1, deadline := now + o.timeout })])
            (H ++ [Ev.send s o.cmd (o.tries + 1) now]) _ _ _ (by simpa [List.append_assoc] using h1) hr
          refine ⟨by simpa [List.append_assoc] using h2.1, ?_⟩
          intro c hc
          obtain ⟨s', o', hm, h3⟩ := h2.2 c hc
          exact ⟨s', o', List.mem_cons_of_mem _ hm, h3⟩
    · cases hr : retrans cfg.nTries now rest with
      | mk rest1 x =>
        obtain ⟨evs1, r1⟩ := x
        rw [hr] at he
        simp only [Prod.mk.injEq] at he
        obtain ⟨rfl, rfl, rfl⟩ := he
        have h2 := ih (pre ++ [(s, o)]) H _ _ _ (by simpa [List.append_assoc] using h) hr
        refine ⟨by simpa [List.append_assoc] using h2.1, ?_⟩
        intro c hc
        obtain ⟨s', o', hm, h3⟩ := h2.2 c hc
        exact ⟨s', o', List.mem_cons_of_mem _ hm, h3⟩

/-! ### one loop iteration, and the whole burst -/

theorem iter_inv {cfg : Cfg} {l : List Int} {P : Dgram → Prop} {s0 : Nat} {clock : Nat → Int} (wf : WF cfg)
    {st st' : St} {H evs : List Ev} {b : List Dgram} {r : Option Res}
    (hb : ∀ d, d ∈ b → P d) (h : SInv cfg l P s0 st H)
    (he : iter cfg (ext l) clock st b = (st', evs, r)) :
    SInv cfg l P s0 st' (H ++ evs) ∧
    (∀ c, r = some (.timeout c) → ∃ s o, (s, o) ∈ st'.outs ∧ o.cmd = c ∧ cfg.nTries ≤ o.tries) ∧
    (∀ rc c, r = some (.fatal rc c) → ∃ d, d ∈ b ∧ d.rc = rc ∧ rc ≠ rcOk ∧ rc ∉ retryable) ∧
    r ≠ some .done ∧ r ≠ some .exhausted := by
  unfold iter at he
  cases hf : fill cfg (ext l) clock (cfg.window + 1) st with
  | mk st1 ev1 =>
    rw [hf] at he
    simp only at he
    have h1 : SInv cfg l P s0 st1 (H ++ ev1) := fill_inv wf _ _ _ _ _ h hf
    have h2 := Inv.callbacks h1
    generalize hst3 : (if ({ st1 with pend := [] } : St).outs.isEmpty = true then ({ st1 with pend := [] } : St)
      else { ({ st1 with pend := [] } : St) with k := ({ st1 with pend := [] } : St).k + 1 }) = st3 at he
    have e3 : st3.next = st1.next ∧ st3.queued = st1.queued ∧ st3.outs = st1.outs ∧ st3.pend = [] ∧
        st3.seqCtr = st1.seqCtr := by
      rw [← hst3]; split <;> simp
    obtain ⟨e3a, e3b, e3c, e3d, e3e⟩ := e3
    have h3 : SInv cfg l P s0 st3 (H ++ (ev1 ++ st1.pend.map (fun p => Ev.callback p.1 p.2))) := by
      unfold SInv; rw [e3a, e3b, e3c, e3d, e3e, ← List.append_assoc]; exact h2
    split at he
    · rename_i rc c hrecv
      simp only [Prod.mk.injEq] at he
      obtain ⟨rfl, rfl, rfl⟩ := he
      refine ⟨h3, by simp, ?_, by simp, by simp⟩
      intro rc' c' hr
      simp only [Option.some.injEq, Res.fatal.injEq] at hr
      obtain ⟨rfl, rfl⟩ := hr
      exact recv_fatal _ _ _ _ _ hrecv
    · rename_i outs pend hrecv
      have h4 := recv_inv _ _ _ _ _ hb h3 hrecv
      cases hr : retrans cfg.nTries (clock st3.k) outs with
      | mk outs' x =>
        obtain ⟨ev3, r3⟩ := x
        rw [hr] at he
        simp only at he
        have h5 := retrans_inv outs [] _ _ _ _ (by simpa using h4) hr
        split at he
        · rename_i c
          simp only [Prod.mk.injEq] at he
          obtain ⟨rfl, rfl, rfl⟩ := he
          refine ⟨?_, ?_, by simp, by simp, by simp⟩
          · have := h5.1; simp only [List.nil_append] at this
            unfold SInv; simpa [List.append_assoc] using this
          · intro c' hc'
            simp only [Option.some.injEq, Res.timeout.injEq] at hc'
            subst hc'
            exact h5.2 _ rfl
        · simp only [Prod.mk.injEq] at he
          obtain ⟨rfl, rfl, rfl⟩ := he
          refine ⟨?_, by simp, by simp, by simp, by simp⟩
          have := h5.1; simp only [List.nil_append] at this
          unfold SInv; simpa [List.append_assoc] using this

theorem run_inv {cfg : Cfg} {l : List Int} {P : Dgram → Prop} {s0 : Nat} {clock : Nat → Int} (wf : WF cfg) :
    ∀ bs st H st' evs res, (∀ b, b ∈ bs → ∀ d, d ∈ b → P d) → SInv cfg l P s0 st H →
      run cfg (ext l) clock st bs = (st', evs, res) →
      SInv cfg l P s0 st' (H ++ evs) ∧
      (res = .done → st'.active = false) ∧
      (∀ c, res = .timeout c → ∃ s o, (s, o) ∈ st'.outs ∧ o.cmd = c ∧ cfg.nTries ≤ o.tries) ∧
      (∀ rc c, res = .fatal rc c → ∃ d, d ∈ bs.flatten ∧ d.rc = rc ∧ rc ≠ rcOk ∧ rc ∉ retryable) := by
  intro bs
  induction bs with
  | nil =>
    intro st H st' evs res _ h he
    simp only [run, Prod.mk.injEq] at he
    obtain ⟨rfl, rfl, rfl⟩ := he
    refine ⟨by simpa using h, ?_, ?_, ?_⟩
    · intro hd; split at hd
      · cases hd
      · rename_i hna; simpa using hna
    · intro c hc; split at hc <;> cases hc
    · intro rc c hc; split at hc <;> cases hc
  | cons b bs ih =>
    intro st H st' evs res hP h he
    unfold run at he
    split at he
    · rename_i hact
      cases hi : iter cfg (ext l) clock st b with
      | mk st1 x =>
        obtain ⟨evs1, r1⟩ := x
        rw [hi] at he
        have h1 := iter_inv wf (hP b (List.mem_cons_self ..)) h hi
        cases r1 with
        | some r =>
          simp only [Prod.mk.injEq] at he
          obtain ⟨rfl, rfl, rfl⟩ := he
          refine ⟨h1.1, ?_, ?_, ?_⟩
          · intro hd; subst hd; exact absurd rfl h1.2.2.2.1
          · intro c hc; subst hc; exact h1.2.1 c rfl
          · intro rc c hc; subst hc
            obtain ⟨d, hd, h2⟩ := h1.2.2.1 rc c rfl
            exact ⟨d, by simp; exact Or.inl hd, h2⟩
        | none =>
          simp only at he
          cases hr : run cfg (ext l) clock st1 bs with
          | mk st2 y =>
            obtain ⟨evs2, r2⟩ := y
            rw [hr] at he
            simp only [Prod.mk.injEq] at he
            obtain ⟨rfl, rfl, rfl⟩ := he
            have h2 := ih _ _ _ _ _ (fun b' hb' => hP b' (List.mem_cons_of_mem _ hb')) h1.1 hr
            refine ⟨by simpa [List.append_assoc] using h2.1, h2.2.1, h2.2.2.1, ?_⟩
            intro rc c hc
            obtain ⟨d, hd, h3⟩ := h2.2.2.2 rc c hc
            exact ⟨d, by simp at hd ⊢; exact Or.inr hd, h3⟩
    · rename_i hna
      simp only [Prod.mk.injEq] at he
      obtain ⟨rfl, rfl, rfl⟩ := he
      refine ⟨by simpa using h, fun _ => by simpa using hna, by simp, by simp⟩

/-! ### consequences used by the property theorems -/

/-- every reachable state satisfies the invariant for some history -/
theorem reach_inv {cfg : Cfg} {l : List Int} {clock : Nat → Int} (wf : WF cfg) {st : St}
    (hr : Reach cfg l clock st) : ∃ s0 H, SInv cfg l (fun _ => True) s0 st H := by
  induction hr with
  | init s0 => exact ⟨s0, [], Inv.init cfg l _ s0⟩
  | step st b _ hact hnone ih =>
    obtain ⟨s0, H, hH⟩ := ih
    exact ⟨s0, _, (iter_inv wf (st' := (iter cfg (ext l) clock st b).1)
      (evs := (iter cfg (ext l) clock st b).2.1) (r := (iter cfg (ext l) clock st b).2.2)
      (fun _ _ => trivial) hH rfl).1⟩

/-- the invariant and the outcome facts for a complete run from the start of a burst -/
theorem run_top {cfg : Cfg} {l : List Int} {clock : Nat → Int} (wf : WF cfg) {s0 : Nat}
    {batches : List (List Dgram)} {st : St} {evs : List Ev} {res : Res}
    (hrun : run cfg (ext l) clock (St.init s0) batches = (st, evs, res)) :
    SInv cfg l (fun d => d ∈ batches.flatten) s0 st evs ∧
    (res = .done → st.active = false) ∧
    (∀ c, res = .timeout c → ∃ s o, (s, o) ∈ st.outs ∧ o.cmd = c ∧ cfg.nTries ≤ o.tries) ∧
    (∀ rc c, res = .fatal rc c → ∃ d, d ∈ batches.flatten ∧ d.rc = rc ∧ rc ≠ rcOk ∧ rc ∉ retryable) := by
  have := run_inv (P := fun d => d ∈ batches.flatten) wf batches (St.init s0) [] st evs res
    (fun b hb d hd => List.mem_flatten.mpr ⟨b, hb, hd⟩) (Inv.init cfg l _ s0) hrun
  simpa using this

/-- all pairs (c, k) with c < n and 1 ≤ k ≤ m -/
def grid : Nat → Nat → List (Nat × Nat)
  | 0, _ => []
  | n + 1, m => grid n m ++ (List.range m).map (fun k => (n, k + 1))

theorem length_grid (n m : Nat) : (grid n m).length = n * m := by
  induction n with
  | zero => simp [grid]
  | succ n ih => simp [grid, ih, Nat.succ_mul]

theorem mem_grid (n m : Nat) (p : Nat × Nat) (h1 : p.1 < n) (h2 : 1 ≤ p.2) (h3 : p.2 ≤ m) :
    p ∈ grid n m := by
  induction n with
  | zero => omega
  | succ n ih =>
    simp only [grid, List.mem_append, List.mem_map, List.mem_range]
    by_cases h : p.1 = n
    · right
      refine ⟨p.2 - 1, by omega, ?_⟩
      obtain ⟨a, b⟩ := p
      simp at h h2 ⊢
      exact ⟨h.symm, by omega⟩
    · left; exact ih (by omega)

theorem pairs_bound (xs : List (Nat × Nat)) (n m : Nat) (nd : xs.Nodup)
    (hx : ∀ p, p ∈ xs → p.1 < n ∧ 1 ≤ p.2 ∧ p.2 ≤ m) : xs.length ≤ n * m := by
  rw [← length_grid n m]
  apply List.Nodup.length_le_of_subset nd
  intro p hp
  obtain ⟨h1, h2, h3⟩ := hx p hp
  exact mem_grid n m p h1 h2 h3
