/-
C20 - helper lemmas for the struct-file parser model (Model/C20Parse.lean).
-/
import RigModel.Model.C20Parse
set_option linter.unusedSimpArgs false
set_option linter.unusedVariables false

deriving instance DecidableEq for Except

namespace Rig.C20Parse
open Rig.C20 Rig.Gen.C20Boot

end Rig.C20Parse
