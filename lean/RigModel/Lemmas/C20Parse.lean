/-
C20 - helper lemmas for the struct-file parser model (Model/C20Parse.lean): line splitting,
tokenisation and number printing / parsing of canonical text.
-/
import RigModel.Model.C20Parse
set_option linter.unusedSimpArgs false
set_option linter.unusedVariables false

deriving instance DecidableEq for Except

namespace Rig.C20Parse
open Rig.C20 Rig.Gen.C20Boot

/-- a token: non-empty, no white space, no `#` -/
def Tok (t : Bytes) : Prop := t ≠ [] ∧ ∀ c ∈ t, isWs c = false ∧ c ≠ 35

/-! ### lines -/

theorem linesAux_line (l : Bytes) (hl : ∀ c ∈ l, c ≠ 10 ∧ c ≠ 13) (cur rest : Bytes) :
    linesAux false cur (l ++ 10 :: rest) = (cur.reverse ++ l) :: linesAux false [] rest := by
  induction l generalizing cur with
  | nil => simp [linesAux]
  | cons c l ih =>
    have hc := hl c (by simp)
    have := ih (fun d hd => hl d (by simp [hd])) (c :: cur)
    simp [linesAux, hc.1, hc.2, this]

theorem splitLines_flatten (ls : List Bytes) (h : ∀ l ∈ ls, ∀ c ∈ l, c ≠ 10 ∧ c ≠ 13) :
    splitLines ((ls.map (fun l => l ++ [10])).flatten) = ls := by
  unfold splitLines
  induction ls with
  | nil => simp [linesAux]
  | cons l ls ih =>
    have := linesAux_line l (h l (by simp)) [] ((ls.map (fun l => l ++ [10])).flatten)
    simp only [List.map_cons, List.flatten_cons, List.append_assoc, List.singleton_append]
    rw [this, ih (fun l' hl' => h l' (by simp [hl']))]
    simp

/-! ### tokens -/

theorem tokAux_tok (t : Bytes) (ht : ∀ c ∈ t, isWs c = false) (cur rest : Bytes) :
    tokAux cur (t ++ rest) = tokAux (t.reverse ++ cur) rest := by
  induction t generalizing cur with
  | nil => simp
  | cons c t ih =>
    have hc := ht c (by simp)
    have := ih (fun d hd => ht d (by simp [hd])) (c :: cur)
    simp [tokAux, hc, this]

theorem tokAux_sep (cur rest : Bytes) (hc : cur ≠ []) :
    tokAux cur (32 :: rest) = cur.reverse :: tokAux [] rest := by
  cases cur with
  | nil => exact absurd rfl hc
  | cons a b => simp [tokAux, isWs]

theorem tokAux_end (cur : Bytes) (hc : cur ≠ []) : tokAux cur [] = [cur.reverse] := by
  cases cur with
  | nil => exact absurd rfl hc
  | cons a b => simp [tokAux]

theorem tokens_joinSp (ts : List Bytes) (h : ∀ t ∈ ts, Tok t) : tokens (joinSp ts) = ts := by
  unfold tokens
  induction ts with
  | nil => simp [joinSp, tokAux]
  | cons t ts ih =>
    have ht := h t (by simp)
    have hne : t.reverse ++ [] ≠ [] := by simp [ht.1]
    cases ts with
    | nil =>
      have := tokAux_tok t (fun c hc => (ht.2 c hc).1) [] []
      simp only [List.append_nil] at this
      simp only [joinSp]
      rw [this, tokAux_end _ (by simpa using ht.1)]
      simp
    | cons t' ts' =>
      have := tokAux_tok t (fun c hc => (ht.2 c hc).1) [] (32 :: joinSp (t' :: ts'))
      simp only [joinSp] at this ⊢
      rw [this, tokAux_sep _ _ hne, ih (fun x hx => h x (by simp [hx]))]
      simp

theorem joinSp_mem (ts : List Bytes) (c : Nat) (hc : c ∈ joinSp ts) : c = 32 ∨ ∃ t ∈ ts, c ∈ t := by
  induction ts with
  | nil => simp [joinSp] at hc
  | cons t ts ih =>
    cases ts with
    | nil => exact .inr ⟨t, by simp, by simpa [joinSp] using hc⟩
    | cons t' ts' =>
      simp only [joinSp, List.mem_append, List.mem_cons] at hc
      rcases hc with hc | hc | hc
      · exact .inr ⟨t, by simp, hc⟩
      · exact .inl hc
      · rcases ih (by simpa [joinSp] using hc) with h | ⟨x, hx, hcx⟩
        · exact .inl h
        · exact .inr ⟨x, by simp [hx], hcx⟩

theorem takeWhile_all {p : Nat → Bool} (l : Bytes) (h : ∀ c ∈ l, p c = true) : l.takeWhile p = l := by
  induction l with
  | nil => rfl
  | cons c l ih => simp [List.takeWhile, h c (by simp), ih (fun d hd => h d (by simp [hd]))]

theorem takeWhile_append_stop {p : Nat → Bool} (l : Bytes) (x : Nat) (r : Bytes) (h : ∀ c ∈ l, p c = true)
    (hx : p x = false) : (l ++ x :: r).takeWhile p = l := by
  induction l with
  | nil => simp [List.takeWhile, hx]
  | cons c l ih => simp [List.takeWhile, h c (by simp), ih (fun d hd => h d (by simp [hd]))]

theorem dropWhile_append_stop {p : Nat → Bool} (l : Bytes) (x : Nat) (r : Bytes) (h : ∀ c ∈ l, p c = true)
    (hx : p x = false) : (l ++ x :: r).dropWhile p = x :: r := by
  induction l with
  | nil => simp [List.dropWhile, hx]
  | cons c l ih => simp [List.dropWhile, h c (by simp), ih (fun d hd => h d (by simp [hd]))]

theorem stripComment_joinSp (ts : List Bytes) (h : ∀ t ∈ ts, Tok t) :
    stripComment (joinSp ts) = joinSp ts := by
  unfold stripComment
  apply takeWhile_all
  intro c hc
  rcases joinSp_mem ts c hc with h32 | ⟨t, ht, hct⟩
  · simp [h32]
  · simpa using ((h t ht).2 c hct).2

theorem joinSp_noeol (ts : List Bytes) (h : ∀ t ∈ ts, Tok t) : ∀ c ∈ joinSp ts, c ≠ 10 ∧ c ≠ 13 := by
  intro c hc
  rcases joinSp_mem ts c hc with h32 | ⟨t, ht, hct⟩
  · simp [h32]
  · have := ((h t ht).2 c hct).1
    constructor <;> (intro e; subst e; simp [isWs] at this)

/-! ### numbers -/

def digFold (l : Bytes) (acc : Nat) : Nat := l.foldl (fun a c => a * 10 + (c - 48)) acc

theorem isDigit_bounds {c : Nat} (h : isDigit c = true) : 48 ≤ c ∧ c ≤ 57 := by
  simpa [isDigit] using h

theorem digitsLoop_digits (l : Bytes) (h : ∀ c ∈ l, isDigit c = true) (acc : Nat) :
    digitsLoop decVal 10 false acc l = some (digFold l acc) := by
  induction l generalizing acc with
  | nil => simp [digitsLoop, digFold]
  | cons c l ih =>
    have hc := h c (by simp)
    have hb := isDigit_bounds hc
    have h95 : c ≠ 95 := by omega
    have := ih (fun d hd => h d (by simp [hd])) (acc * 10 + (c - 48))
    simp [digitsLoop, decVal, hc, h95, this, digFold]

theorem parseDigits_digits (l : Bytes) (hne : l ≠ []) (h : ∀ c ∈ l, isDigit c = true) :
    parseDigits decVal 10 l = some (digFold l 0) := by
  cases l with
  | nil => exact absurd rfl hne
  | cons c r =>
    have hc := h c (by simp)
    simp [parseDigits, decVal, hc, digitsLoop_digits r (fun d hd => h d (by simp [hd])), digFold]

theorem decDigits_spec (fuel n : Nat) (h : n ≤ fuel) :
    (∀ c ∈ decDigits fuel n, isDigit c = true) ∧ decDigits fuel n ≠ [] ∧ digFold (decDigits fuel n) 0 = n := by
  induction fuel generalizing n with
  | zero =>
    have : n = 0 := by omega
    subst this
    simp [decDigits, isDigit, digFold]
  | succ fuel ih =>
    unfold decDigits
    by_cases hn : n < 10
    · simp only [hn, if_true]
      refine ⟨?_, by simp, ?_⟩
      · intro c hc
        simp at hc
        subst hc
        simp [isDigit]; omega
      · simp [digFold]
    · simp only [hn, if_false]
      obtain ⟨h1, h2, h3⟩ := ih (n / 10) (by omega)
      refine ⟨?_, by simp, ?_⟩
      · intro c hc
        simp only [List.mem_append, List.mem_singleton] at hc
        rcases hc with hc | hc
        · exact h1 c hc
        · subst hc
          simp [isDigit]; omega
      · unfold digFold at h3 ⊢
        rw [List.foldl_append, h3]
        simp
        omega

theorem printNat_digits (n : Nat) : (∀ c ∈ printNat n, isDigit c = true) ∧ printNat n ≠ [] :=
  ⟨(decDigits_spec n n (Nat.le_refl n)).1, (decDigits_spec n n (Nat.le_refl n)).2.1⟩

theorem parseDec_digits (l : Bytes) (hne : l ≠ []) (h : ∀ c ∈ l, isDigit c = true) :
    parseDec l = some (Int.ofNat (digFold l 0)) := by
  cases l with
  | nil => exact absurd rfl hne
  | cons c r =>
    have hb := isDigit_bounds (h c (by simp))
    have := parseDigits_digits (c :: r) hne h
    unfold parseDec
    split
    · rename_i heq; cases heq; omega
    · rename_i heq; cases heq; omega
    · simp [this]

theorem parseNum_digits (l : Bytes) (hne : l ≠ []) (h : ∀ c ∈ l, isDigit c = true) :
    parseNum l = some (Int.ofNat (digFold l 0)) := by
  rw [← parseDec_digits l hne h]
  unfold parseNum
  split
  · rename_i x hh r
    have hb := isDigit_bounds (h x (by simp))
    have : ¬ (x = 120 ∨ x = 88) := by omega
    simp [this]
  · rfl

theorem parseNum_printNat (n : Nat) : parseNum (printNat n) = some (Int.ofNat n) := by
  have := decDigits_spec n n (Nat.le_refl n)
  unfold printNat
  rw [parseNum_digits _ this.2.1 this.1, this.2.2]

theorem parseNum_printInt (v : Int) : parseNum (printInt v) = some v := by
  cases v with
  | ofNat n => exact parseNum_printNat n
  | negSucc n =>
    have hd := decDigits_spec (n + 1) (n + 1) (Nat.le_refl _)
    have hp := parseDigits_digits _ hd.2.1 hd.1
    simp only [printInt, printNat]
    unfold parseNum
    simp only [parseDec, hp, hd.2.2]
    simp [Int.negSucc_eq]

theorem printInt_tok (v : Int) : Tok (printInt v) := by
  have key : ∀ n, ∀ c ∈ printNat n, isWs c = false ∧ c ≠ 35 := by
    intro n c hc
    have hb := isDigit_bounds ((printNat_digits n).1 c hc)
    constructor
    · simp [isWs]; omega
    · omega
  cases v with
  | ofNat n => exact ⟨(printNat_digits n).2, key n⟩
  | negSucc n =>
    refine ⟨by simp [printInt], ?_⟩
    intro c hc
    simp only [printInt, List.mem_cons] at hc
    rcases hc with hc | hc
    · subst hc; simp [isWs]
    · exact key _ c hc

/-! ### pack token -/

/-- Python pack characters the parser can produce: an optional count and one of `s b B H I` -/
def PackOK (pk : Bytes) : Prop :=
  ∃ ds c, pk = ds ++ [c] ∧ (∀ d ∈ ds, isDigit d = true) ∧ (c = 115 ∨ c = 98 ∨ c = 66 ∨ c = 72 ∨ c = 73)

theorem pack_roundtrip_aux (k c : Nat) (ds : Bytes) (hds : ∀ d ∈ ds, isDigit d = true)
    (h1 : perlPacks.find? (fun p => p.2 = [c]) = some ([k], [c])) (h2 : perlLookup [k] = some [c])
    (hk : isWord k = true) (hk2 : isWs k = false ∧ k ≠ 35) :
    convPack (unconvPack (ds ++ [c])) = .ok (ds ++ [c]) ∧ Tok (unconvPack (ds ++ [c])) := by
  have hu : unconvPack (ds ++ [c]) = k :: ds := by
    simp [unconvPack, h1]
  rw [hu]
  constructor
  · cases ds with
    | nil => simp [convPack, h2]
    | cons d r =>
      have hd := hds d (by simp)
      have ht := takeWhile_all (p := isDigit) (d :: r) hds
      simp only [convPack, hk, hd, and_self, if_true, h2, ht]
  · refine ⟨by simp, ?_⟩
    intro x hx
    simp only [List.mem_cons] at hx
    rcases hx with hx | hx
    · subst hx; exact hk2
    · have hb := isDigit_bounds (hds x hx)
      constructor
      · simp [isWs]; omega
      · omega

theorem pack_roundtrip (pk : Bytes) (h : PackOK pk) :
    convPack (unconvPack pk) = .ok pk ∧ Tok (unconvPack pk) := by
  obtain ⟨ds, c, rfl, hds, hc⟩ := h
  rcases hc with rfl | rfl | rfl | rfl | rfl
  · exact pack_roundtrip_aux 65 115 ds hds (by decide) (by decide) (by decide) (by decide)
  · exact pack_roundtrip_aux 99 98 ds hds (by decide) (by decide) (by decide) (by decide)
  · exact pack_roundtrip_aux 67 66 ds hds (by decide) (by decide) (by decide) (by decide)
  · exact pack_roundtrip_aux 118 72 ds hds (by decide) (by decide) (by decide) (by decide)
  · exact pack_roundtrip_aux 86 73 ds hds (by decide) (by decide) (by decide) (by decide)

/-! ### field token -/

theorem matchArray_print (w : Bytes) (n : Nat) (hne : w ≠ []) (hw : ∀ c ∈ w, isWord c = true) :
    matchArray (w ++ 91 :: (printNat n ++ [93])) = some (w, printNat n) := by
  have hd := printNat_digits n
  have t1 := takeWhile_append_stop (p := isWord) w 91 (printNat n ++ [93]) hw (by decide)
  have d1 := dropWhile_append_stop (p := isWord) w 91 (printNat n ++ [93]) hw (by decide)
  have t2 := takeWhile_append_stop (p := isDigit) (printNat n) 93 [] hd.1 (by decide)
  have d2 := dropWhile_append_stop (p := isDigit) (printNat n) 93 [] hd.1 (by decide)
  simp only [matchArray, t1, d1, t2, d2, hne, hd.2, if_false]

theorem word_tok (w : Bytes) (hw : ∀ c ∈ w, isWord c = true) : ∀ c ∈ w, isWs c = false ∧ c ≠ 35 := by
  intro c hc
  have := hw c hc
  simp only [isWord, isDigit, Bool.or_eq_true, Bool.and_eq_true, decide_eq_true_eq, beq_iff_eq] at this
  constructor
  · simp [isWs]; omega
  · omega

structure FieldWF (f : PField) : Prop where
  name : Tok f.name
  shape : (f.length = 1 ∧ matchArray f.name = none) ∨ (f.length ≠ 1 ∧ ∀ c ∈ f.name, isWord c = true)
  pack : PackOK f.pack
  printf : Tok f.printf

theorem fieldName_fieldTok (f : PField) (h : FieldWF f) :
    fieldName (fieldTok f) = (f.name, f.length) ∧ Tok (fieldTok f) := by
  rcases h.shape with ⟨h1, h2⟩ | ⟨h1, h2⟩
  · simp [fieldTok, fieldName, h1, h2, h.name]
  · have hm := matchArray_print f.name f.length h.name.1 h2
    have hn := parseNum_printNat f.length
    constructor
    · simp [fieldTok, fieldName, h1, hm, hn]
    · refine ⟨by simp [fieldTok, h1], ?_⟩
      intro c hc
      simp only [fieldTok, h1, if_false, List.mem_append, List.mem_cons, List.mem_singleton] at hc
      rcases hc with hc | hc | hc | hc
      · exact h.name.2 c hc
      · subst hc; decide
      · have hb := isDigit_bounds ((printNat_digits f.length).1 c hc)
        constructor
        · simp [isWs]; omega
        · omega
      · rcases hc with rfl | hc
        · decide
        · cases hc

/-! ### running the parser over canonical lines -/

/-- `parseLines` on lines that are already cut into tokens -/
def runToks : PState → Nat → List (List Bytes) → Except PErr PState
  | st, _, [] => .ok st
  | st, i, t :: r =>
    match stepLine st i t with
    | .ok st' => runToks st' (i + 1) r
    | .error e => .error e

theorem parseLines_joinSp (tls : List (List Bytes)) (h : ∀ tl ∈ tls, ∀ t ∈ tl, Tok t) (st : PState) (i : Nat) :
    parseLines st i (tls.map joinSp) = runToks st i tls := by
  induction tls generalizing st i with
  | nil => rfl
  | cons tl tls ih =>
    have ht := h tl (by simp)
    simp only [List.map_cons, parseLines, runToks, stripComment_joinSp tl ht, tokens_joinSp tl ht]
    cases stepLine st i tl with
    | error e => rfl
    | ok st' => exact ih (fun x hx => h x (by simp [hx])) st' (i + 1)

theorem runToks_append (a b : List (List Bytes)) (st st' : PState) (i : Nat)
    (h : runToks st i a = .ok st') : runToks st i (a ++ b) = runToks st' (i + a.length) b := by
  induction a generalizing st i with
  | nil => simp [runToks] at h; subst h; simp
  | cons t a ih =>
    simp only [runToks, List.cons_append] at h ⊢
    cases hs : stepLine st i t with
    | error e => simp [hs] at h
    | ok s1 =>
      simp only [hs] at h ⊢
      rw [ih s1 (i + 1) h]
      simp [Nat.add_assoc, Nat.add_comm 1]

theorem modStruct_last (n : Bytes) (g : PStruct → PStruct) (pre : List PStruct) (x : PStruct)
    (hpre : ∀ t ∈ pre, t.name ≠ n) (hx : x.name = n) : modStruct n g (pre ++ [x]) = pre ++ [g x] := by
  induction pre with
  | nil => simp [modStruct, hx]
  | cons t pre ih =>
    simp [modStruct, hpre t (by simp), ih (fun u hu => hpre u (by simp [hu]))]

theorem setStruct_new (pre : List PStruct) (x : PStruct) (hpre : ∀ t ∈ pre, t.name ≠ x.name) :
    setStruct pre x = pre ++ [x] := by
  induction pre with
  | nil => simp [setStruct]
  | cons t pre ih =>
    simp [setStruct, hpre t (by simp), ih (fun u hu => hpre u (by simp [hu]))]

theorem getStruct_last (pre : List PStruct) (x : PStruct) (hpre : ∀ t ∈ pre, t.name ≠ x.name) :
    getStruct (pre ++ [x]) x.name = some x := by
  induction pre with
  | nil => simp [getStruct]
  | cons t pre ih =>
    simp [getStruct, hpre t (by simp), ih (fun u hu => hpre u (by simp [hu]))]

theorem setField_new (fs : List PField) (f : PField) (h : ∀ g ∈ fs, g.name ≠ f.name) :
    setField fs f = fs ++ [f] := by
  induction fs with
  | nil => simp [setField]
  | cons g fs ih =>
    simp [setField, h g (by simp), ih (fun u hu => h u (by simp [hu]))]

theorem fieldToks_tok (f : PField) (h : FieldWF f) : ∀ t ∈ fieldToks f, Tok t := by
  intro t ht
  simp only [fieldToks, List.mem_cons, List.mem_nil_iff, or_false] at ht
  rcases ht with rfl | rfl | rfl | rfl | rfl
  · exact (fieldName_fieldTok f h).2
  · exact (pack_roundtrip f.pack h.pack).2
  · exact printInt_tok _
  · exact h.printf
  · exact printInt_tok _

/-- one canonical field line appends the field to the current struct -/
theorem stepLine_field (pre : List PStruct) (cur : PStruct) (f : PField) (i : Nat) (hf : FieldWF f)
    (hpre : ∀ t ∈ pre, t.name ≠ cur.name) (hnew : ∀ g ∈ cur.fields, g.name ≠ f.name) :
    stepLine ⟨pre ++ [cur], some cur.name⟩ i (fieldToks f) =
      .ok ⟨pre ++ [{ cur with fields := cur.fields ++ [f] }], some cur.name⟩ := by
  have h1 := (pack_roundtrip f.pack hf.pack).1
  have h2 := (fieldName_fieldTok f hf).1
  simp only [stepLine, fieldToks, h1, parseNum_printInt, h2,
    modStruct_last cur.name _ pre cur hpre rfl, setField_new cur.fields _ hnew]

theorem runToks_fields (fs : List PField) (pre : List PStruct) (cur : PStruct) (i : Nat)
    (hf : ∀ f ∈ fs, FieldWF f) (hd : fs.Pairwise (fun f g => f.name ≠ g.name))
    (hpre : ∀ t ∈ pre, t.name ≠ cur.name) (hnew : ∀ g ∈ cur.fields, ∀ f ∈ fs, g.name ≠ f.name) :
    runToks ⟨pre ++ [cur], some cur.name⟩ i (fs.map fieldToks) =
      .ok ⟨pre ++ [{ cur with fields := cur.fields ++ fs }], some cur.name⟩ := by
  induction fs generalizing cur i with
  | nil => simp [runToks]
  | cons f fs ih =>
    have hs := stepLine_field pre cur f i (hf f (by simp)) hpre (fun g hg => hnew g hg f (by simp))
    simp only [List.map_cons, runToks, hs]
    rw [List.pairwise_cons] at hd
    have := ih { cur with fields := cur.fields ++ [f] } (i + 1) (fun x hx => hf x (by simp [hx])) hd.2 hpre
      (by
        intro g hg x hx
        simp only [List.mem_append, List.mem_singleton] at hg
        rcases hg with hg | hg
        · exact hnew g hg x (by simp [hx])
        · subst hg; exact hd.1 x hx)
    simp only [List.append_assoc, List.singleton_append] at this
    exact this

structure StructWF (s : PStruct) : Prop where
  name : Tok s.name
  size : s.size.isSome = true
  base : s.base.isSome = true
  fields : ∀ f ∈ s.fields, FieldWF f
  distinct : s.fields.Pairwise (fun f g => f.name ≠ g.name)

/-- what `name = ...` checks about the struct being finished -/
def Inv (pre : List PStruct) : Option Bytes → Prop
  | none => True
  | some n => checkComplete pre n = .ok ()

theorem structLines_tok (s : PStruct) (h : StructWF s) : ∀ tl ∈ structLines s, ∀ t ∈ tl, Tok t := by
  have hk : Tok kName ∧ Tok kSize ∧ Tok kBase ∧ Tok [61] := by
    refine ⟨⟨by decide, by decide⟩, ⟨by decide, by decide⟩, ⟨by decide, by decide⟩, ⟨by decide, by decide⟩⟩
  intro tl htl t ht
  simp only [structLines, List.mem_cons, List.mem_map] at htl
  rcases htl with rfl | rfl | rfl | ⟨f, hf, rfl⟩
  · simp only [List.mem_cons, List.mem_nil_iff, or_false] at ht
    rcases ht with rfl | rfl | rfl
    · exact hk.1
    · exact hk.2.2.2
    · exact h.name
  · simp only [List.mem_cons, List.mem_nil_iff, or_false] at ht
    rcases ht with rfl | rfl | rfl
    · exact hk.2.1
    · exact hk.2.2.2
    · exact printInt_tok _
  · simp only [List.mem_cons, List.mem_nil_iff, or_false] at ht
    rcases ht with rfl | rfl | rfl
    · exact hk.2.2.1
    · exact hk.2.2.2
    · exact printInt_tok _
  · exact fieldToks_tok f (h.fields f hf) t ht

/-- the canonical lines of one struct append exactly that struct -/
theorem runToks_struct (s : PStruct) (h : StructWF s) (pre : List PStruct) (nm : Option Bytes) (i : Nat)
    (hinv : Inv pre nm) (hpre : ∀ t ∈ pre, t.name ≠ s.name) :
    runToks ⟨pre, nm⟩ i (structLines s) = .ok ⟨pre ++ [s], some s.name⟩ ∧ Inv (pre ++ [s]) (some s.name) := by
  obtain ⟨name, size, base, fields⟩ := s
  obtain ⟨sz, rfl⟩ := Option.isSome_iff_exists.mp h.size
  obtain ⟨bs, rfl⟩ := Option.isSome_iff_exists.mp h.base
  have k1 : kSize ≠ kName := by decide
  have k2 : kBase ≠ kName := by decide
  have k3 : kBase ≠ kSize := by decide
  have hf := runToks_fields fields pre ⟨name, some sz, some bs, []⟩ (i + 1 + 1 + 1) h.fields h.distinct hpre
    (by intro g hg; cases hg)
  constructor
  · cases nm with
    | none =>
      simp only [structLines, runToks, stepLine, if_pos, k1, k2, k3, if_false, Option.getD_some,
        parseNum_printInt, setStruct_new pre ⟨name, none, none, []⟩ hpre,
        modStruct_last name _ pre ⟨name, none, none, []⟩ hpre rfl,
        modStruct_last name _ pre ⟨name, some sz, none, []⟩ hpre rfl]
      simpa using hf
    | some n =>
      have hc : checkComplete pre n = .ok () := hinv
      simp only [structLines, runToks, stepLine, if_pos, hc, k1, k2, k3, if_false, Option.getD_some,
        parseNum_printInt, setStruct_new pre ⟨name, none, none, []⟩ hpre,
        modStruct_last name _ pre ⟨name, none, none, []⟩ hpre rfl,
        modStruct_last name _ pre ⟨name, some sz, none, []⟩ hpre rfl]
      simpa using hf
  · have := getStruct_last pre ⟨name, some sz, some bs, fields⟩ hpre
    simp [Inv, checkComplete, this]

def TableWF (ss : List PStruct) : Prop :=
  ss ≠ [] ∧ (∀ s ∈ ss, StructWF s) ∧ ss.Pairwise (fun s t => s.name ≠ t.name)

theorem runToks_table (ss : List PStruct) (hs : ∀ s ∈ ss, StructWF s)
    (hd : ss.Pairwise (fun s t => s.name ≠ t.name)) (pre : List PStruct) (nm : Option Bytes) (i : Nat)
    (hinv : Inv pre nm) (hpre : ∀ t ∈ pre, ∀ s ∈ ss, t.name ≠ s.name) :
    ∃ nm', runToks ⟨pre, nm⟩ i (ss.flatMap structLines) = .ok ⟨pre ++ ss, nm'⟩ ∧ Inv (pre ++ ss) nm' ∧
      (ss ≠ [] → nm' ≠ none) := by
  induction ss generalizing pre nm i with
  | nil => exact ⟨nm, by simp [runToks], by simpa using hinv, by simp⟩
  | cons s ss ih =>
    obtain ⟨h1, h2⟩ := runToks_struct s (hs s (by simp)) pre nm i hinv (fun t ht => hpre t ht s (by simp))
    rw [List.pairwise_cons] at hd
    obtain ⟨nm', h3, h4, h5⟩ := ih (fun x hx => hs x (by simp [hx])) hd.2 (pre ++ [s]) (some s.name)
      (i + (structLines s).length) h2 (by
        intro t ht x hx
        simp only [List.mem_append, List.mem_singleton] at ht
        rcases ht with ht | ht
        · exact hpre t ht x (by simp [hx])
        · subst ht; exact hd.1 x hx)
    refine ⟨nm', ?_, by simpa using h4, ?_⟩
    · simp only [List.flatMap_cons]
      rw [runToks_append _ _ _ _ _ h1, h3]
      simp
    · intro _
      cases ss with
      | nil =>
        simp [runToks] at h3
        rw [← h3]; simp
      | cons a b => exact h5 (by simp)

/-! ### the executable well-formedness check is sound -/

theorem tokB_sound (t : Bytes) (h : tokB t = true) : Tok t := by
  simp only [tokB, Bool.and_eq_true, Bool.not_eq_true', List.all_eq_true, bne_iff_ne] at h
  refine ⟨by intro e; subst e; simp at h, ?_⟩
  intro c hc
  have := h.2 c hc
  simpa using this

theorem dropLast_getLast (l : Bytes) (c : Nat) (h : l.getLast? = some c) : l = l.dropLast ++ [c] := by
  induction l with
  | nil => simp at h
  | cons a l ih =>
    cases l with
    | nil => simp at h; simp [h]
    | cons b r =>
      have h' : (b :: r).getLast? = some c := by simpa [List.getLast?_cons_cons] using h
      have := ih h'
      simp only [List.dropLast_cons_cons, List.cons_append]
      rw [← this]

theorem packOKB_sound (pk : Bytes) (h : packOKB pk = true) : PackOK pk := by
  unfold packOKB at h
  split at h
  · rename_i c hc
    simp only [Bool.and_eq_true, List.all_eq_true, Bool.or_eq_true, beq_iff_eq] at h
    refine ⟨pk.dropLast, c, dropLast_getLast pk c hc, h.1, ?_⟩
    rcases h.2 with (((h | h) | h) | h) | h <;> simp [h]
  · cases h

theorem fieldWFB_sound (f : PField) (h : fieldWFB f = true) : FieldWF f := by
  simp only [fieldWFB, Bool.and_eq_true, Bool.or_eq_true, beq_iff_eq, bne_iff_ne, List.all_eq_true,
    Option.isNone_iff_eq_none] at h
  obtain ⟨⟨⟨h1, h2⟩, h3⟩, h4⟩ := h
  exact ⟨tokB_sound _ h1, h2, packOKB_sound _ h3, tokB_sound _ h4⟩

theorem distinctB_sound {α : Type} (f : α → Bytes) (l : List α) (h : distinctB (l.map f) = true) :
    l.Pairwise (fun a b => f a ≠ f b) := by
  induction l with
  | nil => exact List.Pairwise.nil
  | cons a l ih =>
    simp only [List.map_cons, distinctB, Bool.and_eq_true, Bool.not_eq_true'] at h
    refine List.Pairwise.cons ?_ (ih h.2)
    intro b hb e
    have : (l.map f).contains (f a) = true := by
      simp only [List.contains_eq_mem, List.mem_map, decide_eq_true_eq]
      exact ⟨b, hb, e.symm⟩
    rw [this] at h
    exact absurd h.1 (by simp)

theorem structWFB_sound (s : PStruct) (h : structWFB s = true) : StructWF s := by
  simp only [structWFB, Bool.and_eq_true, List.all_eq_true] at h
  obtain ⟨⟨⟨⟨h1, h2⟩, h3⟩, h4⟩, h5⟩ := h
  exact ⟨tokB_sound _ h1, h2, h3, fun f hf => fieldWFB_sound f (h4 f hf), distinctB_sound PField.name _ h5⟩

theorem tableWFB_sound (ss : List PStruct) (h : tableWFB ss = true) : TableWF ss := by
  simp only [tableWFB, Bool.and_eq_true, List.all_eq_true, Bool.not_eq_true', List.isEmpty_eq_false_iff] at h
  obtain ⟨⟨h1, h2⟩, h3⟩ := h
  exact ⟨h1, fun s hs => structWFB_sound s (h2 s hs), distinctB_sound PStruct.name _ h3⟩

end Rig.C20Parse
