/-
C02 - completeness of the sequential placer under the unit-demand hypothesis (counting
argument on the total free amount of the one resource in use).
-/
import RigModel.Lemmas.C02Term
import RigModel.Lemmas.C02Loops
set_option linter.unusedSimpArgs false
set_option linter.unusedVariables false

namespace Rig.C02

/-- the vertex needs nothing but 0 or 1 unit of resource `r0` -/
def UnitDem (r0 : Nat) (d : Res) : Prop := (∀ i, i ≠ r0 → dem d i = 0) ∧ (dem d r0 = 0 ∨ dem d r0 = 1)

def NN (m : Machine) : Prop := ∀ c, m.ok c = true → ∀ i, 0 ≤ dem (cap m c) i

/-- total free amount of resource `r0` on the listed chips -/
def total (m : Machine) (chips : List Chip) (r0 : Nat) : Int := (chips.map fun c => dem (cap m c) r0).sum

theorem fits_of_unit {m : Machine} {c : Chip} {d : Res} {r0 : Nat} (hc : m.ok c = true) (hnn : NN m)
    (hu : UnitDem r0 d) (h : dem d r0 = 0 ∨ 1 ≤ dem (cap m c) r0) : over (sub (cap m c) d) = false := by
  rw [over_false_iff]
  intro i hi
  rw [sub_length] at hi
  rw [dem_sub _ _ _ hi]
  have := hnn c hc i
  by_cases e : i = r0
  · subst e; rcases hu.2 with h0 | h1 <;> rcases h with h | h <;> omega
  · rw [hu.1 i e]; omega

theorem chipAt_eq (chips : List Chip) (q : Nat) (hn : 0 < chips.length) :
    chipAt chips q = chips[q % chips.length]'(Nat.mod_lt _ hn) := by
  simp [chipAt, List.getD_eq_getElem?_getD, List.getElem?_eq_getElem (Nat.mod_lt _ hn)]

theorem chipAt_mem (chips : List Chip) (q : Nat) (hn : 0 < chips.length) : chipAt chips q ∈ chips := by
  rw [chipAt_eq chips q hn]; exact List.getElem_mem _

theorem scan_fail_cases (chips : List Chip) (m : Machine) (d : Res) (last : Chip)
    (hget : ∀ q, m.get (chipAt chips q) ≠ none) :
    ∀ (fuel pos : Nat) (e : Err), scan chips m d last fuel pos = .failed e → e = .fuel ∨ e = .insufficient := by
  intro fuel
  induction fuel with
  | zero => intro pos e h; simp [scan] at h; exact Or.inl h.symm
  | succ n ih =>
    intro pos e h
    simp only [scan] at h
    split at h
    · rename_i hg; exact absurd hg (hget pos)
    · split at h
      · simp at h
      · split at h
        · injection h with h; exact Or.inr h.symm
        · exact ih _ _ h

theorem scan_fail_spec (chips : List Chip) (m : Machine) (d : Res) (last : Chip) :
    ∀ (fuel pos : Nat), scan chips m d last fuel pos = .failed .insufficient →
      ∃ t, t < fuel ∧ chipAt chips (pos + t + 1) = last ∧
        ∀ j, j ≤ t → ∃ cur, m.get (chipAt chips (pos + j)) = some cur ∧ over (sub cur d) = true := by
  intro fuel
  induction fuel with
  | zero => intro pos h; simp [scan] at h
  | succ n ih =>
    intro pos h
    simp only [scan] at h
    split at h
    · simp at h
    · rename_i cur hg
      split at h
      · simp at h
      · rename_i hov
        have hov' : over (sub cur d) = true := by simpa using hov
        split at h
        · rename_i hl
          refine ⟨0, by omega, hl, fun j hj => ?_⟩
          have : j = 0 := by omega
          subst this; exact ⟨cur, hg, hov'⟩
        · obtain ⟨t, h1, h2, h3⟩ := ih _ h
          refine ⟨t + 1, by omega, ?_, fun j hj => ?_⟩
          · have : pos + (t + 1) + 1 = pos + 1 + t + 1 := by omega
            rw [this]; exact h2
          · cases j with
            | zero => exact ⟨cur, hg, hov'⟩
            | succ j' =>
              have := h3 j' (by omega)
              have e : pos + (j' + 1) = pos + 1 + j' := by omega
              rw [e]; exact this

theorem mod_cycle {n pos s : Nat} (hn : 0 < n) (hs1 : 0 < s) (hs2 : s ≤ n)
    (h : (pos + s) % n = pos % n) : s = n := by
  rcases Nat.lt_or_ge s n with hlt | hge
  · exfalso
    have hr : pos % n < n := Nat.mod_lt _ hn
    rw [Nat.add_mod, Nat.mod_eq_of_lt hlt] at h
    rcases Nat.lt_or_ge (pos % n + s) n with h1 | h1
    · rw [Nat.mod_eq_of_lt h1] at h; omega
    · rw [Nat.mod_eq_sub_mod h1, Nat.mod_eq_of_lt (by omega)] at h; omega
  · omega

/-- when the scan gives up, every chip of the (duplicate-free) cycle has been tried -/
theorem scan_fail_all (chips : List Chip) (hnd : chips.Nodup) (m : Machine) (d : Res) (pos : Nat)
    (h : scan chips m d (chipAt chips pos) chips.length pos = .failed .insufficient) :
    ∀ c ∈ chips, ∃ cur, m.get c = some cur ∧ over (sub cur d) = true := by
  have hn : 0 < chips.length := by
    rcases Nat.eq_zero_or_pos chips.length with h0 | h0
    · rw [h0] at h; simp [scan] at h
    · exact h0
  obtain ⟨t, h1, h2, h3⟩ := scan_fail_spec chips m d _ _ _ h
  rw [chipAt_eq _ _ hn, chipAt_eq _ _ hn, List.getElem_inj hnd] at h2
  have ht : t + 1 = chips.length := by
    apply mod_cycle hn (by omega) (by omega)
    have : pos + (t + 1) = pos + t + 1 := by omega
    rw [this]; exact h2
  intro c hc
  obtain ⟨k, hk, rfl⟩ := List.getElem_of_mem hc
  have hr : pos % chips.length < chips.length := Nat.mod_lt _ hn
  rcases Nat.lt_or_ge k (pos % chips.length) with hlt | hge
  · have := h3 (k + chips.length - pos % chips.length) (by omega)
    rw [chipAt_eq _ _ hn] at this
    have e : (pos + (k + chips.length - pos % chips.length)) % chips.length = k := by
      rw [Nat.add_mod, Nat.mod_eq_of_lt (show k + chips.length - pos % chips.length < chips.length by omega)]
      have : pos % chips.length + (k + chips.length - pos % chips.length) = k + chips.length := by omega
      rw [this, Nat.add_mod_right, Nat.mod_eq_of_lt hk]
    simp only [e] at this
    exact this
  · have := h3 (k - pos % chips.length) (by omega)
    rw [chipAt_eq _ _ hn] at this
    have e : (pos + (k - pos % chips.length)) % chips.length = k := by
      rw [Nat.add_mod, Nat.mod_eq_of_lt (show k - pos % chips.length < chips.length by omega)]
      have : pos % chips.length + (k - pos % chips.length) = k := by omega
      rw [this, Nat.mod_eq_of_lt hk]
    simp only [e] at this
    exact this

theorem sum_update (f f' : Chip → Int) (c0 : Chip) (δ : Int) (hδ : 0 ≤ δ) :
    ∀ (chips : List Chip), chips.Nodup → (∀ c, c ≠ c0 → f' c = f c) → f c0 - δ ≤ f' c0 →
      (chips.map f).sum - δ ≤ (chips.map f').sum := by
  intro chips
  induction chips with
  | nil => intro _ _ _; simp; omega
  | cons c t ih =>
    intro hnd hne h0
    simp only [List.nodup_cons] at hnd
    simp only [List.map_cons, List.sum_cons]
    by_cases e : c = c0
    · subst e
      have : (t.map f').sum = (t.map f).sum := by
        congr 1
        apply List.map_congr_left
        intro x hx
        exact hne x (fun e => hnd.1 (e ▸ hx))
      omega
    · have := ih hnd.2 hne h0
      rw [hne c e]; omega

theorem sum_zero (f : Chip → Int) : ∀ (chips : List Chip), (∀ c ∈ chips, f c = 0) → (chips.map f).sum = 0 := by
  intro chips
  induction chips with
  | nil => intro _; rfl
  | cons c t ih =>
    intro h
    simp only [List.map_cons, List.sum_cons]
    rw [h c (by simp), ih (fun x hx => h x (by simp [hx]))]; rfl

/-- demand for `r0` of the vertices of `vs` that are not fixed by a location constraint -/
def needOf (fixed : Placement) (vr : VR) (r0 : Nat) : List Vtx → Int
  | [] => 0
  | v :: vs => (if (aget fixed v).isSome then 0 else dem ((aget vr v).getD []) r0) + needOf fixed vr r0 vs

theorem needOf_nonneg (fixed : Placement) (vr : VR) (r0 : Nat) : ∀ (vs : List Vtx),
    (∀ v ∈ vs, ∃ d, aget vr v = some d ∧ UnitDem r0 d) → 0 ≤ needOf fixed vr r0 vs := by
  intro vs
  induction vs with
  | nil => intro _; simp [needOf]
  | cons v t ih =>
    intro h
    obtain ⟨d, hd, hu⟩ := h v (by simp)
    have := ih (fun x hx => h x (by simp [hx]))
    simp only [needOf, hd, Option.getD_some]
    split
    · omega
    · rcases hu.2 with h0 | h1 <;> omega

theorem seqLoop_complete (vr : VR) (chips : List Chip) (hnd : chips.Nodup) (hne : chips ≠ [])
    (fixed : Placement) (r0 : Nat) :
    ∀ (vs : List Vtx) (pos : Nat) (m : Machine) (p : Placement),
      (∀ c ∈ chips, m.ok c = true) → NN m →
      (∀ v ∈ vs, ∃ d, aget vr v = some d ∧ UnitDem r0 d) →
      (∀ v, (aget fixed v).isSome → (aget p v).isSome) →
      needOf fixed vr r0 vs ≤ total m chips r0 →
      ∃ pf, seqLoop vr chips vs pos m p = .ok pf := by
  have hn : 0 < chips.length := List.length_pos_iff.2 hne
  intro vs
  induction vs with
  | nil => intro pos m p _ _ _ _ _; exact ⟨p, rfl⟩
  | cons v vs ih =>
    intro pos m p hok hnn hunit hfix hneed
    obtain ⟨d, hd, hu⟩ := hunit v (by simp)
    have hunit' : ∀ x ∈ vs, ∃ d, aget vr x = some d ∧ UnitDem r0 d := fun x hx => hunit x (by simp [hx])
    have hnn0 := needOf_nonneg fixed vr r0 vs hunit'
    simp only [seqLoop]
    split
    · -- already placed
      apply ih _ _ _ hok hnn hunit' hfix
      simp only [needOf, hd, Option.getD_some] at hneed
      split at hneed
      · omega
      · rcases hu.2 with h0 | h1 <;> omega
    · rename_i hnp
      have hnf : (aget fixed v).isSome = false := by
        cases hx : (aget fixed v).isSome with
        | false => rfl
        | true => exact absurd (hfix v hx) hnp
      have hneed' : dem d r0 + needOf fixed vr r0 vs ≤ total m chips r0 := by
        simpa [needOf, hd, hnf] using hneed
      simp only [hd]
      have hget : ∀ q, m.get (chipAt chips q) ≠ none := by
        intro q
        simp [Machine.get, hok _ (chipAt_mem chips q hn)]
      cases hsc : scan chips m d (chipAt chips pos) chips.length pos with
      | failed e =>
        exfalso
        rcases scan_fail_cases chips m d _ hget _ _ _ hsc with rfl | rfl
        · exact scan_terminates chips hne m d pos hsc
        · have hall := scan_fail_all chips hnd m d pos hsc
          have hz : ∀ c ∈ chips, dem d r0 = 1 ∧ dem (cap m c) r0 = 0 := by
            intro c hc
            obtain ⟨cur, hg, hov⟩ := hall c hc
            obtain ⟨hokc, rfl⟩ := Machine.get_some hg
            have h0 := hnn c hokc r0
            by_cases hfit : dem d r0 = 0 ∨ 1 ≤ dem (cap m c) r0
            · rw [fits_of_unit hokc hnn hu hfit] at hov; simp at hov
            · rcases hu.2 with h0' | h1
              · exact absurd (Or.inl h0') hfit
              · exact ⟨h1, by omega⟩
          have htot : total m chips r0 = 0 := sum_zero _ chips (fun c hc => (hz c hc).2)
          obtain ⟨c, hc⟩ := List.exists_mem_of_ne_nil chips hne
          have := (hz c hc).1
          omega
      | placed pos' c r =>
        simp only
        obtain ⟨cur, hg, hr, hov⟩ := scan_placed _ _ hsc
        obtain ⟨hokc, hcur⟩ := Machine.get_some hg
        have hset : m.set c r = some { m with exc := aset m.exc c r } := by simp [Machine.set, hokc]
        rw [hset]
        obtain ⟨_, hw, hh, hdd, _, hcap⟩ := Machine.set_some hset
        apply ih
        · intro c' hc'; rw [Machine.ok_congr hw hh hdd]; exact hok c' hc'
        · intro c' hc' i
          rw [Machine.ok_congr hw hh hdd] at hc'
          rw [hcap c']; split
          · subst hr
            by_cases hi : i < (sub cur d).length
            · exact (over_false_iff _).1 hov i hi
            · rw [dem_ge_length _ _ (by omega)]; omega
          · exact hnn c' hc' i
        · exact hunit'
        · intro x hx
          rw [aget_aset]; split
          · simp
          · exact hfix x hx
        · have hdn : 0 ≤ dem d r0 := by rcases hu.2 with h0 | h1 <;> omega
          have := sum_update (fun c' => dem (cap m c') r0)
            (fun c' => dem (cap { m with exc := aset m.exc c r } c') r0) c (dem d r0) hdn chips hnd
            (fun c' hc' => by
              have e : ¬ c = c' := fun e => hc' e.symm
              simp only [hcap c', if_neg e])
            (by
              subst hr; subst hcur
              rw [hcap c, if_pos rfl]
              by_cases hi : r0 < (cap m c).length
              · rw [dem_sub _ _ _ hi]; omega
              · rw [dem_ge_length (sub (cap m c) d) r0 (by rw [sub_length]; omega),
                  dem_ge_length (cap m c) r0 (by omega)]; omega)
          have e1 : total m chips r0 = (chips.map fun c' => dem (cap m c') r0).sum := rfl
          have e2 : total { m with exc := aset m.exc c r } chips r0 =
              (chips.map fun c' => dem (cap { m with exc := aset m.exc c r } c') r0).sum := rfl
          rw [e2]; rw [e1] at hneed'
          omega

end Rig.C02
