/-
C19 - helper lemmas: mod-12 lifting, the generated tables against the hand-written
board / lattice description, list lemmas for `spinn5_eth_coords`, the divisor search.
-/
import Mathlib.Data.List.Nodup
import Mathlib.Data.Nat.Sqrt
import RigModel.Model.C19
set_option linter.unusedSimpArgs false
set_option linter.unusedVariables false

namespace Rig.C19
open Rig.Gen.Spinn5

theorem pymod_pos (a : Int) {b : Int} (hb : 0 < b) : pymod a b = a % b :=
  Int.fmod_eq_emod_of_nonneg a (Int.le_of_lt hb)

theorem mem_range12 (W x : Int) (h : W % 12 = 0) :
    x ∈ range12 W ↔ 0 ≤ x ∧ x < W ∧ x % 12 = 0 := by
  simp only [range12, List.mem_map, List.mem_range]
  constructor
  · rintro ⟨a, ha, rfl⟩
    omega
  · rintro ⟨h0, h1, h2⟩
    refine ⟨(x / 12).toNat, ?_, ?_⟩ <;> omega

theorem mod_fwd (W n : Int) (hW : 0 < W) (h12 : W % 12 = 0) :
    0 ≤ n % W ∧ n % W < W ∧ (n % W) % 12 = n % 12 :=
  ⟨Int.emod_nonneg _ (by omega), Int.emod_lt_of_pos _ hW,
   Int.emod_emod_of_dvd _ (Int.dvd_of_emod_eq_zero h12)⟩

theorem mod_bwd (W n v : Int) (h0 : 0 ≤ v) (h1 : v < W) (hc : (n - v) % W = 0) : n % W = v := by
  have := (Int.emod_eq_emod_iff_emod_sub_eq_zero).2 hc
  rw [this, Int.emod_eq_of_lt h0 h1]

/-- one dimension of `spinn5_eth_coords` -/
theorem dim1 (width r dx nx : Int) (hdx : 0 ≤ dx ∧ dx < 12) :
    (∃ x ∈ range12 ((width + 11) / 12 * 12), pymod (x + dx + r) ((width + 11) / 12 * 12) = nx ∧ nx < width)
      ↔ (0 ≤ nx ∧ nx < width ∧ (nx - r) % 12 = dx) := by
  generalize hW : (width + 11) / 12 * 12 = W
  have h12 : W % 12 = 0 := by omega
  constructor
  · rintro ⟨x, hx, hp, hlt⟩
    rw [mem_range12 _ _ h12] at hx
    have hWpos : 0 < W := by omega
    rw [pymod_pos _ hWpos] at hp
    have := mod_fwd W (x + dx + r) hWpos h12
    omega
  · rintro ⟨h0, h1, h2⟩
    have hWpos : 0 < W := by omega
    have t := mod_fwd W (nx - dx - r) hWpos h12
    refine ⟨(nx - dx - r) % W, ?_, ?_, h1⟩
    · rw [mem_range12 _ _ h12]; omega
    · rw [pymod_pos _ hWpos]
      apply mod_bwd _ _ _ h0 (by omega)
      have : (nx - dx - r) % W + dx + r - nx = (nx - dx - r) % W - (nx - dx - r) := by omega
      rw [this, Int.sub_emod, Int.emod_emod, Int.sub_self, Int.zero_emod]

/-- order-insensitive: a reordering of the literal in the source does not matter -/
theorem ethTriple_perm : ethTriple.Perm [(0, 0), (4, 8), (8, 4)] := by decide

theorem ethCoords_mem_aux (width height rx ry : Int) (p : Pt) :
    p ∈ ethCoords width height rx ry ↔
      ∃ d ∈ ethTriple,
        (∃ x ∈ range12 ((width + 11) / 12 * 12),
            pymod (x + d.1 + pymod (pymod rx 12) 12) ((width + 11) / 12 * 12) = p.1 ∧ p.1 < width) ∧
        (∃ y ∈ range12 ((height + 11) / 12 * 12),
            pymod (y + d.2 + ry) ((height + 11) / 12 * 12) = p.2 ∧ p.2 < height) := by
  obtain ⟨px, py⟩ := p
  simp only [ethCoords, List.mem_flatMap, List.mem_filterMap]
  constructor
  · rintro ⟨x, hx, y, hy, d, hd, h⟩
    split at h
    · rename_i hc
      simp only [Option.some.injEq, Prod.mk.injEq] at h
      obtain ⟨h1, h2⟩ := h
      exact ⟨d, hd, ⟨x, hx, h1, by omega⟩, ⟨y, hy, h2, by omega⟩⟩
    · simp at h
  · rintro ⟨d, hd, ⟨x, hx, h1, h1'⟩, ⟨y, hy, h2, h2'⟩⟩
    refine ⟨x, hx, y, hy, d, hd, ?_⟩
    have h1'' : px < width := h1'
    have h2'' : py < height := h2'
    have e1 : pymod (x + d.1 + pymod (pymod rx 12) 12) ((width + 11) / 12 * 12) = px := h1
    have e2 : pymod (y + d.2 + ry) ((height + 11) / 12 * 12) = py := h2
    simp only [e1, e2, h1'', h2'', and_self, if_true]

theorem eth_coords_mem' (width height rx ry : Int) (p : Pt) :
    p ∈ ethCoords width height rx ry ↔
      0 ≤ p.1 ∧ p.1 < width ∧ 0 ≤ p.2 ∧ p.2 < height ∧ IsEthAt (rx, ry) p := by
  rw [ethCoords_mem_aux]
  simp only [ethTriple_perm.mem_iff]
  have hr : pymod (pymod rx 12) 12 = rx % 12 := by
    rw [pymod_pos _ (by omega), pymod_pos _ (by omega)]; omega
  simp only [List.mem_cons, List.not_mem_nil, or_false, exists_eq_or_imp, exists_eq_left, hr]
  rw [dim1 _ _ _ _ (by omega), dim1 _ _ _ _ (by omega), dim1 _ _ _ _ (by omega),
    dim1 _ _ _ _ (by omega), dim1 _ _ _ _ (by omega), dim1 _ _ _ _ (by omega)]
  simp only [IsEthAt, IsEth]
  omega


theorem dim1_inj (W r x x' dx dx' : Int) (h12 : W % 12 = 0) (hx : x ∈ range12 W) (hx' : x' ∈ range12 W)
    (hd : 0 ≤ dx ∧ dx < 12) (hd' : 0 ≤ dx' ∧ dx' < 12)
    (h : pymod (x + dx + r) W = pymod (x' + dx' + r) W) : x = x' ∧ dx = dx' := by
  rw [mem_range12 _ _ h12] at hx hx'
  have hW : 0 < W := by omega
  rw [pymod_pos _ hW, pymod_pos _ hW] at h
  have a := mod_fwd W (x + dx + r) hW h12
  have b := mod_fwd W (x' + dx' + r) hW h12
  have hdx : dx = dx' := by omega
  subst hdx
  refine ⟨?_, rfl⟩
  have h' := Int.emod_eq_emod_iff_emod_sub_eq_zero.1 h
  have e : x + dx + r - (x' + dx + r) = x - x' := by omega
  rw [e] at h'
  have h'' := Int.emod_eq_emod_iff_emod_sub_eq_zero.2 h'
  rw [Int.emod_eq_of_lt hx.1 hx.2.1, Int.emod_eq_of_lt hx'.1 hx'.2.1] at h''
  exact h''

theorem range12_nodup (W : Int) : (range12 W).Nodup := by
  unfold range12
  apply List.Nodup.map _ List.nodup_range
  intro a b h
  simp only at h
  omega

theorem eth_coords_nodup' (width height rx ry : Int) : (ethCoords width height rx ry).Nodup := by
  unfold ethCoords
  simp only []
  generalize hW : (width + 11) / 12 * 12 = W
  generalize hH : (height + 11) / 12 * 12 = H
  generalize pymod (pymod rx 12) 12 = r
  have hW12 : W % 12 = 0 := by omega
  have hH12 : H % 12 = 0 := by omega
  rw [List.nodup_flatMap]
  constructor
  · intro x hx
    rw [List.nodup_flatMap]
    constructor
    · intro y hy
      rw [(ethTriple_perm.filterMap _).nodup_iff, List.Nodup, List.pairwise_filterMap]
      have key : ∀ a a' : Int, (0 ≤ a ∧ a < 12) → (0 ≤ a' ∧ a' < 12) → a ≠ a' →
          pymod (x + a + r) W ≠ pymod (x + a' + r) W := by
        intro a a' h1 h2 hne he
        exact hne (dim1_inj W r x x a a' hW12 hx hx h1 h2 he).2
      simp only [List.pairwise_cons, List.mem_cons, List.not_mem_nil, or_false, forall_eq_or_imp, forall_eq,
        List.Pairwise.nil, and_true, IsEmpty.forall_iff, implies_true]
      refine ⟨⟨?_, ?_⟩, ?_⟩ <;>
      · intro b hb b' hb'
        split at hb <;> split at hb' <;> simp only [Option.some.injEq, reduceCtorEq] at hb hb'
        subst hb; subst hb'
        intro he
        simp only [Prod.mk.injEq] at he
        refine key _ _ ?_ ?_ ?_ he.1 <;> decide
    · apply List.Nodup.pairwise_of_forall_ne (range12_nodup H)
      intro y hy y' hy' hne
      rw [Function.onFun, List.disjoint_left]
      intro p hp hp'
      rw [List.mem_filterMap] at hp hp'
      obtain ⟨d, hd, h⟩ := hp
      obtain ⟨d', hd', h'⟩ := hp'
      rw [ethTriple_perm.mem_iff] at hd hd'
      split at h <;> split at h' <;> simp only [Option.some.injEq, reduceCtorEq] at h h'
      subst h
      simp only [Prod.mk.injEq] at h'
      have hdr : 0 ≤ d.2 ∧ d.2 < 12 := by
        simp only [List.mem_cons, List.not_mem_nil, or_false] at hd
        rcases hd with rfl | rfl | rfl <;> decide
      have hdr' : 0 ≤ d'.2 ∧ d'.2 < 12 := by
        simp only [List.mem_cons, List.not_mem_nil, or_false] at hd'
        rcases hd' with rfl | rfl | rfl <;> decide
      exact hne (dim1_inj H ry y y' d.2 d'.2 hH12 hy hy' hdr hdr' h'.2.symm).1
  · apply List.Nodup.pairwise_of_forall_ne (range12_nodup W)
    intro x hx x' hx' hne
    rw [Function.onFun, List.disjoint_left]
    intro p hp hp'
    rw [List.mem_flatMap] at hp hp'
    obtain ⟨y, hy, hp⟩ := hp
    obtain ⟨y', hy', hp'⟩ := hp'
    rw [List.mem_filterMap] at hp hp'
    obtain ⟨d, hd, h⟩ := hp
    obtain ⟨d', hd', h'⟩ := hp'
    rw [ethTriple_perm.mem_iff] at hd hd'
    split at h <;> split at h' <;> simp only [Option.some.injEq, reduceCtorEq] at h h'
    subst h
    simp only [Prod.mk.injEq] at h'
    have hdr : 0 ≤ d.1 ∧ d.1 < 12 := by
      simp only [List.mem_cons, List.not_mem_nil, or_false] at hd
      rcases hd with rfl | rfl | rfl <;> decide
    have hdr' : 0 ≤ d'.1 ∧ d'.1 < 12 := by
      simp only [List.mem_cons, List.not_mem_nil, or_false] at hd'
      rcases hd' with rfl | rfl | rfl <;> decide
    exact hne (dim1_inj W r x x' d.1 d'.1 hW12 hx hx' hdr hdr' h'.1.symm).1



def cellOk (i j : Nat) : Bool :=
  match offAt i j with
  | .ok d => decide (IsEth ((i:Int) + d.1, (j:Int) + d.2)) && decide (InBoard (-d.1, -d.2))
  | .error _ => false

theorem cells_ok : ∀ i < 12, ∀ j < 12, cellOk i j = true := by decide +kernel

theorem offAt_spec (i j : Int) (hi : 0 ≤ i) (hi' : i < 12) (hj : 0 ≤ j) (hj' : j < 12) :
    ∃ d, offAt i j = .ok d ∧ IsEth (i + d.1, j + d.2) ∧ InBoard (-d.1, -d.2) := by
  have h := cells_ok i.toNat (by omega) j.toNat (by omega)
  have e1 : ((i.toNat : Nat) : Int) = i := Int.toNat_of_nonneg hi
  have e2 : ((j.toNat : Nat) : Int) = j := Int.toNat_of_nonneg hj
  unfold cellOk at h
  rw [e1, e2] at h
  split at h
  · rename_i d hd
    refine ⟨d, hd, ?_⟩
    simpa using h
  · simp at h

/-- the table cell used for chip `(x, y)` with root `(rx, ry)` -/
theorem cell_spec (x y rx ry : Int) :
    ∃ d, offAt (pymod (x - rx) 12) (pymod (y - ry) 12) = .ok d ∧
      IsEthAt (rx, ry) (x + d.1, y + d.2) ∧ InBoard (-d.1, -d.2) := by
  rw [pymod_pos _ (by omega), pymod_pos _ (by omega)]
  obtain ⟨d, hd, he, hb⟩ := offAt_spec ((x - rx) % 12) ((y - ry) % 12) (by omega) (by omega) (by omega) (by omega)
  refine ⟨d, hd, ?_, hb⟩
  simp only [IsEthAt, IsEth] at he ⊢
  omega

theorem tile_unique_aux (root : Pt) (c b b' : Pt) (hb : InBoard b) (hb' : InBoard b')
    (he : IsEthAt root (c.1 - b.1, c.2 - b.2)) (he' : IsEthAt root (c.1 - b'.1, c.2 - b'.2)) : b = b' := by
  obtain ⟨bx, by'⟩ := b
  obtain ⟨fx, fy⟩ := b'
  obtain ⟨cx, cy⟩ := c
  obtain ⟨rx, ry⟩ := root
  simp only [IsEthAt, IsEth, InBoard] at *
  have : bx = fx ∧ by' = fy := by omega
  simp [this]

theorem local_eth_spec' (x y w h rx ry : Int) (hw : 0 < w) (hh : 0 < h) :
    ∃ e b, localEthCoord x y w h rx ry = .ok e ∧ chipCoord x y rx ry = .ok b ∧
      SpecLocal (rx, ry) (x, y) w h e b := by
  obtain ⟨d, hd, he, hb⟩ := cell_spec x y rx ry
  refine ⟨((x + d.1) % w, (y + d.2) % h), (-d.1, -d.2), ?_, ?_, hb, ?_, ?_, ?_⟩
  · simp only [localEthCoord, hd, bind, Except.bind, pymod_pos _ hw, pymod_pos _ hh,
      Int.ne_of_gt hw, Int.ne_of_gt hh, if_false]
  · simp only [chipCoord, hd, bind, Except.bind]
  · simpa only [Int.sub_neg] using he
  · simp only [Int.sub_neg]
  · simp only [Int.sub_neg]



theorem spec_local_unique' (root c : Pt) (w h : Int) (e b e' b' : Pt)
    (h1 : SpecLocal root c w h e b) (h2 : SpecLocal root c w h e' b') : e = e' ∧ b = b' := by
  obtain ⟨hb, he, e1, e2⟩ := h1
  obtain ⟨hb', he', e1', e2'⟩ := h2
  have := tile_unique_aux root c b b' hb hb' he he'
  subst this
  exact ⟨Prod.ext (by rw [e1, e1']) (by rw [e2, e2']), rfl⟩

theorem local_eth_torus' (root c : Pt) (w h : Int) (e b : Pt) (hw : 0 < w) (hh : 0 < h)
    (hw12 : w % 12 = 0) (hh12 : h % 12 = 0) (hs : SpecLocal root c w h e b) :
    IsEthAt root e ∧ 0 ≤ e.1 ∧ e.1 < w ∧ 0 ≤ e.2 ∧ e.2 < h ∧ InBoard b ∧
      (e.1 + b.1) % w = c.1 % w ∧ (e.2 + b.2) % h = c.2 % h := by
  obtain ⟨hb, he, e1, e2⟩ := hs
  have m1 := mod_fwd w (c.1 - b.1) hw hw12
  have m2 := mod_fwd h (c.2 - b.2) hh hh12
  rw [← e1] at m1
  rw [← e2] at m2
  refine ⟨?_, m1.1, m1.2.1, m2.1, m2.2.1, hb, ?_, ?_⟩
  · simp only [IsEthAt, IsEth] at he ⊢
    omega
  · rw [e1, Int.emod_add_emod]; congr 1; omega
  · rw [e2, Int.emod_add_emod]; congr 1; omega

theorem local_eth_torus_unique' (root c : Pt) (w h : Int) (e b e' b' : Pt) (hw : 0 < w) (hh : 0 < h)
    (hw12 : w % 12 = 0) (hh12 : h % 12 = 0) (hs : SpecLocal root c w h e b)
    (he' : IsEthAt root e') (hx : 0 ≤ e'.1 ∧ e'.1 < w) (hy : 0 ≤ e'.2 ∧ e'.2 < h) (hb' : InBoard b')
    (c1 : (e'.1 + b'.1) % w = c.1 % w) (c2 : (e'.2 + b'.2) % h = c.2 % h) : e' = e ∧ b' = b := by
  obtain ⟨hb, he, e1, e2⟩ := hs
  -- congruences modulo 12
  have d1 : (e'.1 + b'.1) % 12 = c.1 % 12 := by
    have := congrArg (· % 12) c1
    simpa only [Int.emod_emod_of_dvd _ (Int.dvd_of_emod_eq_zero hw12)] using this
  have d2 : (e'.2 + b'.2) % 12 = c.2 % 12 := by
    have := congrArg (· % 12) c2
    simpa only [Int.emod_emod_of_dvd _ (Int.dvd_of_emod_eq_zero hh12)] using this
  have hE : IsEthAt root (c.1 - b'.1, c.2 - b'.2) := by
    simp only [IsEthAt, IsEth] at he' ⊢
    omega
  have hbb := tile_unique_aux root c b' b hb' hb hE he
  subst hbb
  refine ⟨Prod.ext ?_ ?_, rfl⟩
  · rw [e1]
    have h0 := Int.emod_eq_emod_iff_emod_sub_eq_zero.1 c1
    have : e'.1 + b'.1 - c.1 = e'.1 - (c.1 - b'.1) := by omega
    rw [this] at h0
    have h1 := Int.emod_eq_emod_iff_emod_sub_eq_zero.2 h0
    rw [Int.emod_eq_of_lt hx.1 hx.2] at h1
    exact h1
  · rw [e2]
    have h0 := Int.emod_eq_emod_iff_emod_sub_eq_zero.1 c2
    have : e'.2 + b'.2 - c.2 = e'.2 - (c.2 - b'.2) := by omega
    rw [this] at h0
    have h1 := Int.emod_eq_emod_iff_emod_sub_eq_zero.2 h0
    rw [Int.emod_eq_of_lt hy.1 hy.2] at h1
    exact h1

theorem local_eth_no_wrap' (root c : Pt) (w h : Int) (e b : Pt) (hs : SpecLocal root c w h e b)
    (hx : 0 ≤ c.1 - b.1 ∧ c.1 - b.1 < w) (hy : 0 ≤ c.2 - b.2 ∧ c.2 - b.2 < h) :
    e = (c.1 - b.1, c.2 - b.2) := by
  obtain ⟨hb, he, e1, e2⟩ := hs
  exact Prod.ext (by rw [e1, Int.emod_eq_of_lt hx.1 hx.2]) (by rw [e2, Int.emod_eq_of_lt hy.1 hy.2])

theorem mem_grid (width height : Int) (p : Pt) :
    p ∈ grid width height ↔ 0 ≤ p.1 ∧ p.1 < width ∧ 0 ≤ p.2 ∧ p.2 < height := by
  obtain ⟨px, py⟩ := p
  simp only [grid, List.mem_flatMap, List.mem_map, List.mem_range, Prod.mk.injEq]
  constructor
  · rintro ⟨x, hx, y, hy, rfl, rfl⟩
    omega
  · rintro ⟨h0, h1, h2, h3⟩
    exact ⟨px.toNat, by omega, py.toNat, by omega, by omega, by omega⟩

theorem mem_boardChips (b : Pt) : b ∈ boardChips ↔ InBoard b := by
  obtain ⟨bx, by'⟩ := b
  simp only [boardChips, List.mem_flatMap, List.mem_filterMap, List.mem_range]
  constructor
  · rintro ⟨x, hx, y, hy, h⟩
    split at h
    · rename_i hc
      simp only [Option.some.injEq, Prod.mk.injEq] at h
      obtain ⟨rfl, rfl⟩ := h
      exact hc
    · simp at h
  · intro hb
    have hb' := hb
    simp only [InBoard] at hb'
    refine ⟨bx.toNat, by omega, by'.toNat, by omega, ?_⟩
    have e1 : ((bx.toNat : Nat) : Int) = bx := by omega
    have e2 : ((by'.toNat : Nat) : Int) = by' := by omega
    rw [e1, e2, if_pos hb]

theorem boardChips_length : boardChips.length = 48 := by decide



/-! ### FPGA link table -/

def fpgaCellOk (b : Pt) (l : Int) : Bool :=
  match dirVec l with
  | some v => decide ((fpgaLinks.lookup (b.1, b.2, l)).isSome ↔ ¬ InBoard (b.1 + v.1, b.2 + v.2))
  | none => false

theorem fpga_cells_ok : ∀ b ∈ boardChips, ∀ l ∈ [(0 : Int), 1, 2, 3, 4, 5], fpgaCellOk b l = true := by
  decide +kernel

theorem fpga_keys_ok : ∀ e ∈ fpgaLinks, InBoard (e.1.1, e.1.2.1) ∧ 0 ≤ e.1.2.2 ∧ e.1.2.2 < 6 := by
  decide +kernel

theorem fpga_values_ok : (fpgaLinks.map (·.2)).Nodup ∧ (fpgaLinks.map (·.1)).Nodup ∧
    (∀ v ∈ fpgaLinks.map (·.2), v.1 < 3 ∧ v.2 < 16) ∧ fpgaLinks.length = 48 := by
  decide +kernel

theorem lookup_some_mem {α β : Type} [BEq α] [LawfulBEq α] (k : α) :
    ∀ (l : List (α × β)) (v : β), l.lookup k = some v → (k, v) ∈ l := by
  intro l
  induction l with
  | nil => intro v h; simp [List.lookup] at h
  | cons a t ih =>
    intro v h
    obtain ⟨a1, a2⟩ := a
    simp only [List.lookup] at h
    split at h
    · rename_i heq
      have := eq_of_beq heq
      subst this
      simp only [Option.some.injEq] at h
      subst h
      exact List.mem_cons_self
    · exact List.mem_cons_of_mem _ (ih v h)

theorem dirVec_some (l : Int) (h : 0 ≤ l ∧ l < 6) : ∃ v, dirVec l = some v := by
  have : l = 0 ∨ l = 1 ∨ l = 2 ∨ l = 3 ∨ l = 4 ∨ l = 5 := by omega
  rcases this with rfl | rfl | rfl | rfl | rfl | rfl <;> exact ⟨_, rfl⟩

theorem dirVec_none (l : Int) (h : l < 0 ∨ 6 ≤ l) : dirVec l = none := by
  unfold dirVec
  rw [if_neg (by omega), if_neg (by omega), if_neg (by omega), if_neg (by omega), if_neg (by omega),
    if_neg (by omega)]

/-- the table on one board chip and any link number -/
theorem fpga_table_cell (b : Pt) (hb : InBoard b) (l : Int) :
    match dirVec l with
    | some v => ((fpgaLinks.lookup (b.1, b.2, l)).isSome ↔ ¬ InBoard (b.1 + v.1, b.2 + v.2))
    | none => fpgaLinks.lookup (b.1, b.2, l) = none := by
  by_cases hl : 0 ≤ l ∧ l < 6
  · have hm : l ∈ [(0 : Int), 1, 2, 3, 4, 5] := by
      simp only [List.mem_cons, List.not_mem_nil, or_false]; omega
    have := fpga_cells_ok b ((mem_boardChips b).2 hb) l hm
    unfold fpgaCellOk at this
    obtain ⟨v, hv⟩ := dirVec_some l hl
    rw [hv] at this ⊢
    exact of_decide_eq_true this
  · rw [dirVec_none l (by omega)]
    cases hk : fpgaLinks.lookup (b.1, b.2, l) with
    | none => rfl
    | some v =>
      have := fpga_keys_ok _ (lookup_some_mem _ _ _ hk)
      simp only at this
      omega

theorem fpga_link_spec' (x y l rx ry : Int) :
    ∃ r, fpgaLink x y l rx ry = .ok r ∧ SpecFpga (rx, ry) (x, y) l r := by
  obtain ⟨d, hd, he, hb⟩ := cell_spec x y rx ry
  refine ⟨fpgaLinks.lookup (-d.1, -d.2, l), ?_, ?_⟩
  · simp only [fpgaLink, chipCoord, hd, bind, Except.bind]
  · intro b' hb' he'
    have hbb : b' = (-d.1, -d.2) := by
      apply tile_unique_aux (rx, ry) (x, y) b' (-d.1, -d.2) ((mem_boardChips b').1 hb') hb he'
      simpa only [Int.sub_neg] using he
    subst hbb
    exact fpga_table_cell _ hb l



/-- chip_coord in the plane: the chip lies on the board of `c - b` -/
theorem chip_coord_plane (x y rx ry : Int) :
    ∃ b, chipCoord x y rx ry = .ok b ∧ OnBoard (rx, ry) (x - b.1, y - b.2) (x, y) := by
  obtain ⟨d, hd, he, hb⟩ := cell_spec x y rx ry
  refine ⟨(-d.1, -d.2), ?_, ?_, ?_⟩
  · simp only [chipCoord, hd, bind, Except.bind]
  · simpa only [Int.sub_neg] using he
  · have e1 : x - (x - -d.1) = -d.1 := by omega
    have e2 : y - (y - -d.2) = -d.2 := by omega
    simp only [e1, e2]
    exact hb

theorem onBoard_unique (root e e' c : Pt) (h1 : OnBoard root e c) (h2 : OnBoard root e' c) : e = e' := by
  obtain ⟨ex, ey⟩ := e
  obtain ⟨fx, fy⟩ := e'
  obtain ⟨cx, cy⟩ := c
  obtain ⟨rx, ry⟩ := root
  simp only [OnBoard, IsEthAt, IsEth, InBoard] at h1 h2
  have : ex = fx ∧ ey = fy := by omega
  simp [this]

theorem fpga_link_iff_leaves' (x y l rx ry : Int) (v : Pt) (hv : dirVec l = some v) :
    ∃ r, fpgaLink x y l rx ry = .ok r ∧
      (r.isSome ↔ ¬ ∃ e, OnBoard (rx, ry) e (x, y) ∧ OnBoard (rx, ry) e (x + v.1, y + v.2)) := by
  obtain ⟨d, hd, he, hb⟩ := cell_spec x y rx ry
  refine ⟨fpgaLinks.lookup (-d.1, -d.2, l), ?_, ?_⟩
  · simp only [fpgaLink, chipCoord, hd, bind, Except.bind]
  · have ht := fpga_table_cell (-d.1, -d.2) hb l
    rw [hv] at ht
    simp only at ht
    rw [ht]
    have hon : OnBoard (rx, ry) (x + d.1, y + d.2) (x, y) := by
      refine ⟨he, ?_⟩
      have e1 : x - (x + d.1) = -d.1 := by omega
      have e2 : y - (y + d.2) = -d.2 := by omega
      simp only [e1, e2]; exact hb
    constructor
    · rintro hn ⟨e, h1, h2⟩
      have := onBoard_unique _ _ _ _ h1 hon
      subst this
      apply hn
      have := h2.2
      have e1 : x + v.1 - (x + d.1) = -d.1 + v.1 := by omega
      have e2 : y + v.2 - (y + d.2) = -d.2 + v.2 := by omega
      simp only [e1, e2] at this
      exact this
    · intro hn hin
      apply hn
      refine ⟨(x + d.1, y + d.2), hon, he, ?_⟩
      have e1 : x + v.1 - (x + d.1) = -d.1 + v.1 := by omega
      have e2 : y + v.2 - (y + d.2) = -d.2 + v.2 := by omega
      simp only [e1, e2]
      exact hin

theorem fpga_link_distinct' (x y l x' y' l' rx ry : Int) (n : Nat × Nat)
    (h1 : fpgaLink x y l rx ry = .ok (some n)) (h2 : fpgaLink x' y' l' rx ry = .ok (some n))
    (hsame : ∃ e, OnBoard (rx, ry) e (x, y) ∧ OnBoard (rx, ry) e (x', y')) :
    x = x' ∧ y = y' ∧ l = l' := by
  obtain ⟨d, hd, he, hb⟩ := cell_spec x y rx ry
  obtain ⟨d', hd', he', hb'⟩ := cell_spec x' y' rx ry
  simp only [fpgaLink, chipCoord, hd, hd', bind, Except.bind, Except.ok.injEq] at h1 h2
  have m1 := lookup_some_mem _ _ _ h1
  have m2 := lookup_some_mem _ _ _ h2
  have hinj := List.inj_on_of_nodup_map fpga_values_ok.1 m1 m2 rfl
  simp only [Prod.mk.injEq] at hinj
  obtain ⟨e, o1, o2⟩ := hsame
  have hon : OnBoard (rx, ry) (x + d.1, y + d.2) (x, y) := by
    refine ⟨he, ?_⟩
    have e1 : x - (x + d.1) = -d.1 := by omega
    have e2 : y - (y + d.2) = -d.2 := by omega
    simp only [e1, e2]; exact hb
  have hon' : OnBoard (rx, ry) (x' + d'.1, y' + d'.2) (x', y') := by
    refine ⟨he', ?_⟩
    have e1 : x' - (x' + d'.1) = -d'.1 := by omega
    have e2 : y' - (y' + d'.2) = -d'.2 := by omega
    simp only [e1, e2]; exact hb'
  have u1 := onBoard_unique _ _ _ _ o1 hon
  have u2 := onBoard_unique _ _ _ _ o2 hon'
  rw [u1] at u2
  simp only [Prod.mk.injEq] at u2
  omega

/-! ### links -/
theorem links_ok : links.map (·.2.1) = [0, 1, 2, 3, 4, 5] ∧
    (∀ l ∈ [(0 : Int), 1, 2, 3, 4, 5], linkVec l = dirVec l) ∧
    (∀ e ∈ links, e.2.2.2 = (e.2.1 + 3) % 6 ∧ linkVec e.2.2.2 = some (-e.2.2.1.1, -e.2.2.1.2)) := by
  decide +kernel



/-! ### the divisor search of standard_system_dimensions -/

theorem searchDown_spec (k : Nat) : ∀ s, 1 ≤ s →
    1 ≤ searchDown k s ∧ searchDown k s ≤ s ∧ k % searchDown k s = 0 ∧
      ∀ d, searchDown k s < d → d ≤ s → k % d ≠ 0 := by
  intro s
  induction s with
  | zero => intro h; omega
  | succ s ih =>
    intro _
    unfold searchDown
    split
    · rename_i hdiv
      exact ⟨by omega, by omega, hdiv, fun d h1 h2 => by omega⟩
    · rename_i hdiv
      by_cases hs : 1 ≤ s
      · obtain ⟨a, b, c, d⟩ := ih hs
        refine ⟨a, by omega, c, fun d' h1 h2 => ?_⟩
        by_cases hd : d' = s + 1
        · subst hd; exact hdiv
        · exact d d' h1 (by omega)
      · have : s = 0 := by omega
        subst this
        simp at hdiv
        omega

theorem std_dims_spec' (n : Nat) (h3 : n % 3 = 0) (hn : 3 ≤ n) :
    ∃ w h : Nat, stdDims (n : Int) = .ok ((w : Int), (h : Int)) ∧ SpecStdDims n w h := by
  have hk : 1 ≤ n / 3 := by omega
  have hs : 1 ≤ Nat.sqrt (n / 3) := Nat.le_sqrt.2 (by omega)
  obtain ⟨a, b, c, d⟩ := searchDown_spec (n / 3) (Nat.sqrt (n / 3)) hs
  have hk' : ((n : Int) / 3).toNat = n / 3 := by omega
  generalize hh : searchDown (n / 3) (Nat.sqrt (n / 3)) = h0 at a b c d
  have hdvd : h0 ∣ n / 3 := Nat.dvd_of_mod_eq_zero c
  have hmul : n / 3 / h0 * h0 = n / 3 := Nat.div_mul_cancel hdvd
  have hsq : h0 * h0 ≤ n / 3 := Nat.le_sqrt.1 b
  have hle : h0 ≤ n / 3 / h0 := by
    rw [← hmul] at hsq
    exact Nat.le_of_mul_le_mul_right hsq (by omega)
  refine ⟨n / 3 / h0 * 12, h0 * 12, ?_, ?_⟩
  · unfold stdDims
    rw [if_neg (by omega), if_neg (by omega), pymod_pos _ (by omega), if_neg (by omega), if_neg (by omega)]
    simp only [hk', hh]
  · refine ⟨by omega, by omega, ?_, by omega, ?_⟩
    · rw [Nat.mul_div_cancel _ (by omega), Nat.mul_div_cancel _ (by omega)]; exact hmul
    · intro e he hmod hsq'
      rw [Nat.mul_div_cancel _ (by omega)]
      by_cases hlt : e ≤ h0
      · exact hlt
      · exact absurd hmod (d e (by omega) (Nat.le_sqrt.2 hsq'))

theorem std_dims_squarest' (n w h : Nat) (hs : SpecStdDims n w h) (hn : 3 ≤ n) (a b : Nat)
    (hab : a * b = n / 3) (hba : b ≤ a) : b ≤ h / 12 ∧ w / 12 ≤ a := by
  obtain ⟨hw, hh, hmul, hle, hmax⟩ := hs
  have hk : 1 ≤ n / 3 := by omega
  have hbpos : 0 < b := by
    rcases Nat.eq_zero_or_pos b with h0 | h0
    · subst h0; simp at hab; omega
    · exact h0
  have hb1 : b ≤ h / 12 := by
    apply hmax b
    · have : b ≤ a * b := Nat.le_mul_of_pos_left b (by omega)
      omega
    · rw [← hab]; exact Nat.mul_mod_left a b
    · rw [← hab]; exact Nat.mul_le_mul_right b hba
  refine ⟨hb1, ?_⟩
  by_cases hlt : w / 12 ≤ a
  · exact hlt
  · exfalso
    have h1 : a * b ≤ a * (h / 12) := Nat.mul_le_mul_left a hb1
    have hpos : 0 < h / 12 := by omega
    have h2 : a * (h / 12) < (w / 12) * (h / 12) := Nat.mul_lt_mul_of_pos_right (by omega) hpos
    omega

theorem std_dims_chips (n w h : Nat) (hs : SpecStdDims n w h) (h3 : n % 3 = 0) : w * h = 48 * n := by
  obtain ⟨hw, hh, hmul, hle, hmax⟩ := hs
  have e1 : w = 12 * (w / 12) := by omega
  have e2 : h = 12 * (h / 12) := by omega
  rw [e1, e2, Nat.mul_mul_mul_comm, hmul]
  omega

theorem std_dims_errors' :
    stdDims 0 = .ok (0, 0) ∧ stdDims 1 = .ok (8, 8) ∧
    (∀ n : Int, n % 3 ≠ 0 → n ≠ 1 → stdDims n = .error .valueError) ∧
    (∀ n : Int, n < 0 → stdDims n = .error .valueError) := by
  refine ⟨by decide, by decide, ?_, ?_⟩
  · intro n h3 h1
    unfold stdDims
    rw [if_neg (by omega), if_neg h1, pymod_pos _ (by omega), if_pos h3]
  · intro n hn
    unfold stdDims
    rw [if_neg (by omega), if_neg (by omega)]
    split
    · rfl
    · rfl



theorem length_flatMap_const {α β : Type} (l : List α) (f : α → List β) (c : Nat)
    (h : ∀ a ∈ l, (f a).length = c) : (l.flatMap f).length = l.length * c := by
  induction l with
  | nil => simp
  | cons a t ih =>
    rw [List.flatMap_cons, List.length_append, h a List.mem_cons_self,
      ih (fun b hb => h b (List.mem_cons_of_mem _ hb)), List.length_cons, Nat.succ_mul, Nat.add_comm]

theorem range12_length (W : Int) : (range12 W).length = ((W + 11) / 12).toNat := by
  simp [range12]

/-- a machine of whole triads lists exactly three Ethernet chips per 12 x 12 block,
i.e. one per board -/
theorem eth_coords_length' (w h rx ry : Int) (hw : w % 12 = 0) (hh : h % 12 = 0) :
    (ethCoords w h rx ry).length = (w / 12).toNat * ((h / 12).toNat * 3) := by
  unfold ethCoords
  simp only []
  have eW : (w + 11) / 12 * 12 = w := by omega
  have eH : (h + 11) / 12 * 12 = h := by omega
  rw [eW, eH]
  have lW : (range12 w).length = (w / 12).toNat := by rw [range12_length]; congr 1; omega
  have lH : (range12 h).length = (h / 12).toNat := by rw [range12_length]; congr 1; omega
  rw [length_flatMap_const _ _ ((h / 12).toNat * 3), lW]
  intro x hx
  rw [length_flatMap_const _ _ 3, lH]
  intro y hy
  rw [mem_range12 _ _ hw] at hx
  rw [mem_range12 _ _ hh] at hy
  have hwp : 0 < w := by omega
  have hhp : 0 < h := by omega
  have key : ∀ d : Pt, (if pymod (x + d.1 + pymod (pymod rx 12) 12) w < w ∧ pymod (y + d.2 + ry) h < h then
      some (pymod (x + d.1 + pymod (pymod rx 12) 12) w, pymod (y + d.2 + ry) h) else none) =
      some (pymod (x + d.1 + pymod (pymod rx 12) 12) w, pymod (y + d.2 + ry) h) := by
    intro d
    rw [if_pos]
    rw [pymod_pos _ hwp, pymod_pos _ hhp]
    exact ⟨Int.emod_lt_of_pos _ hwp, Int.emod_lt_of_pos _ hhp⟩
  simp only [key]
  rw [List.filterMap_eq_map', List.length_map]
  exact ethTriple_perm.length_eq


theorem noDivFrom_iff (k lo : Nat) : ∀ c, noDivFrom k lo c = true ↔ ∀ d, lo < d → d ≤ lo + c → k % d ≠ 0 := by
  intro c
  induction c with
  | zero => simp only [noDivFrom, true_iff]; intro d h1 h2; omega
  | succ c ih =>
    unfold noDivFrom
    split
    · rename_i h0
      simp only [Bool.false_eq_true, false_iff]
      intro h
      exact h (lo + c + 1) (by omega) (by omega) h0
    · rename_i h0
      rw [ih]
      constructor
      · intro h d h1 h2
        by_cases hd : d = lo + c + 1
        · subst hd; exact h0
        · exact h d h1 (by omega)
      · intro h d h1 h2
        exact h d h1 (by omega)

theorem spec_std_dims_fast_iff' (n w h : Nat) : SpecStdDimsFast n w h ↔ SpecStdDims n w h := by
  unfold SpecStdDimsFast SpecStdDims
  rw [noDivFrom_iff]
  constructor
  · rintro ⟨a, b, c, d, e⟩
    refine ⟨a, b, c, d, ?_⟩
    intro x hx hmod hsq
    by_cases hle : x ≤ h / 12
    · exact hle
    · have hs : x ≤ Nat.sqrt (n / 3) := Nat.le_sqrt.2 hsq
      exact absurd hmod (e x (by omega) (by omega))
  · rintro ⟨a, b, c, d, e⟩
    refine ⟨a, b, c, d, ?_⟩
    intro x h1 h2 hmod
    have hs : x ≤ Nat.sqrt (n / 3) := by omega
    have hsq : x * x ≤ n / 3 := Nat.le_sqrt.1 hs
    have hxk : x ≤ n / 3 := Nat.le_trans (Nat.le_mul_self x) hsq
    have := e x (by omega) hmod hsq
    omega

end Rig.C19
