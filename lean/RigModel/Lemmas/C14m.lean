/-
C14 - the `dead_ok` and `machine_ok` oracles: what they decide, and that they accept the model.
-/
import RigModel.Lemmas.C14l
import Std.Data.HashSet.Lemmas
namespace Rig.C14
open Rig.Gen.C14
set_option linter.unusedSimpArgs false
set_option linter.unusedVariables false

theorem has_false_iff (si : SysInfo) (xy : Nat × Nat) : si.has xy = false ↔ ¬ ∃ ci, (xy, ci) ∈ si.chips := by
  rw [← has_iff]; simp

/-- `dead_ok` holds iff the two collections are, as sets, the dead chips and dead links of the description -/
theorem deadOk_iff (si : SysInfo) (hnd : (si.chips.map (·.1)).Nodup) (dc : List (Nat × Nat))
    (dl : List (Nat × Nat × Nat)) :
    deadOk si dc dl = true ↔
      (∀ x y, (x, y) ∈ dc ↔ (x, y) ∈ si.deadChips) ∧ (∀ x y l, (x, y, l) ∈ dl ↔ (x, y, l) ∈ si.deadLinks) := by
  unfold deadOk
  simp only [Bool.and_eq_true, List.all_eq_true, List.mem_range, Std.HashSet.contains_ofList,
    List.contains_iff_mem, Bool.or_eq_true, decide_eq_true_eq, Bool.not_eq_true', mem_deadChips, mem_deadLinks]
  constructor
  · rintro ⟨⟨⟨h1, h2⟩, h3⟩, h4⟩
    refine ⟨?_, ?_⟩
    · intro x y
      constructor
      · intro hm
        have := h1 (x, y) hm
        exact ⟨this.1.1, this.1.2, (has_false_iff si _).1 this.2⟩
      · rintro ⟨hx, hy, hn⟩
        rcases h2 x hx y hy with h | h
        · exact absurd ((has_iff si _).1 h) hn
        · exact h
    · intro x y l
      constructor
      · intro hm
        have := h3 (x, y, l) hm
        simp only at this
        cases hl : si.chips.lookup (x, y) with
        | none => rw [hl] at this; cases this
        | some ci =>
          rw [hl] at this
          simp only [Bool.and_eq_true, decide_eq_true_eq, Bool.not_eq_true', decide_eq_false_iff_not] at this
          exact ⟨ci, lookup_mem_snd _ _ _ hl, this.1, by simpa using this.2⟩
      · rintro ⟨ci, hmem, hl6, hn⟩
        rcases h4 ((x, y), ci) hmem l hl6 with h | h
        · exact absurd h hn
        · exact h
  · rintro ⟨h1, h2⟩
    refine ⟨⟨⟨?_, ?_⟩, ?_⟩, ?_⟩
    · intro xy hm
      obtain ⟨hx, hy, hn⟩ := (h1 xy.1 xy.2).1 hm
      exact ⟨⟨hx, hy⟩, (has_false_iff si _).2 hn⟩
    · intro x hx y hy
      by_cases hh : si.has (x, y) = true
      · exact Or.inl hh
      · right
        apply (h1 x y).2
        refine ⟨hx, hy, ?_⟩
        rw [← has_iff]; exact hh
    · intro e hm
      obtain ⟨x, y, l⟩ := e
      obtain ⟨ci, hmem, hl6, hn⟩ := (h2 x y l).1 hm
      simp only [(lookup_iff_mem si.chips hnd (x, y) ci).2 hmem, Bool.and_eq_true, decide_eq_true_eq,
        Bool.not_eq_true', decide_eq_false_iff_not]
      exact ⟨hl6, by simpa using hn⟩
    · intro e hm l hl6
      by_cases hc : l ∈ e.2.links
      · exact Or.inl hc
      · exact Or.inr ((h2 e.1.1 e.1.2 l).2 ⟨e.2, hm, hl6, hc⟩)

theorem deadOk_sound (si : SysInfo) (hnd : (si.chips.map (·.1)).Nodup) :
    deadOk si si.deadChips si.deadLinks = true :=
  (deadOk_iff si hnd _ _).2 ⟨fun _ _ => Iff.rfl, fun _ _ _ => Iff.rfl⟩

/-- what `machine_ok` decides -/
theorem machineOk_iff (si : SysInfo) (m : PMachine) :
    machineOk si m = true ↔
      m.width = si.width ∧ m.height = si.height ∧
      (∀ x y, x < m.width → y < m.height → ((x, y) ∉ m.deadChips ↔ ∃ ci, ((x, y), ci) ∈ si.chips)) ∧
      (∀ xy ci, (xy, ci) ∈ si.chips → m.chipOk xy = true ∧
        (∀ l, l < 6 → (m.linkOk xy.1 xy.2 l = true ↔ l ∈ ci.links)) ∧
        m.resources xy = (ci.numCores, ci.sdram, ci.sram)) := by
  unfold machineOk
  simp only [Bool.and_eq_true, List.all_eq_true, List.mem_range, Std.HashSet.contains_ofList,
    List.contains_iff_mem, beq_iff_eq, and_assoc]
  constructor
  · rintro ⟨hw, hh, h1, h2⟩
    refine ⟨hw, hh, ?_, ?_⟩
    · intro x y hx hy
      have := h1 x hx y hy
      rw [← has_iff, ← this]
      simp
    · intro xy ci hmem
      obtain ⟨a, b, c⟩ := h2 (xy, ci) hmem
      refine ⟨a, ?_, c⟩
      intro l hl
      have := b l hl
      rw [Bool.eq_iff_iff] at this
      simpa using this
  · rintro ⟨hw, hh, h1, h2⟩
    refine ⟨hw, hh, ?_, ?_⟩
    · intro x hx y hy
      have := h1 x y hx hy
      rw [← has_iff] at this
      rw [Bool.eq_iff_iff]
      simpa using this
    · intro e hmem
      obtain ⟨a, b, c⟩ := h2 e.1 e.2 hmem
      refine ⟨a, ?_, c⟩
      intro l hl
      rw [Bool.eq_iff_iff]
      simpa using b l hl

theorem machineOk_sound (si : SysInfo) (hwf : si.WF) : machineOk si (buildMachine si) = true := by
  rw [machineOk_iff]
  refine ⟨rfl, rfl, ?_, ?_⟩
  · intro x y hx hy
    have := buildMachine_chip si hwf x y
    rw [← this]
    have hx' : x < si.width := hx
    have hy' : y < si.height := hy
    simp [PMachine.chipOk, buildMachine, hx', hy']
  · intro xy ci hmem
    refine ⟨(buildMachine_chip si hwf xy.1 xy.2).2 ⟨ci, hmem⟩, ?_, buildMachine_resources si hwf xy ci hmem⟩
    intro l hl
    rw [buildMachine_link si hwf xy.1 xy.2 l hl]
    constructor
    · rintro ⟨ci', hmem', hl'⟩
      rw [chips_unique si.chips hwf.1 xy ci ci' hmem hmem']; exact hl'
    · intro h; exact ⟨ci, hmem, h⟩

end Rig.C14
