/-
C02 - apply_same_chip_constraints / finalise_same_chip_constraints: a feasible placement of
the merged problem expands to a feasible placement of the original problem.
-/
import RigModel.Lemmas.C02Loops
set_option linter.unusedSimpArgs false
set_option linter.unusedVariables false

namespace Rig.C02

theorem mem_dedup (l : List Vtx) (v : Vtx) : v ∈ dedup l ↔ v ∈ l := by
  induction l with
  | nil => simp [dedup]
  | cons a t ih =>
    simp only [dedup]
    split
    · rename_i h
      simp only [List.mem_cons, ih]
      constructor
      · intro h'; exact Or.inr h'
      · rintro (rfl | h')
        · exact (ih.1 h)
        · exact h'
    · simp [ih]

theorem nodup_dedup (l : List Vtx) : (dedup l).Nodup := by
  induction l with
  | nil => simp [dedup]
  | cons a t ih =>
    simp only [dedup]
    split
    · exact ih
    · rename_i h; exact List.nodup_cons.2 ⟨h, ih⟩

/-! ### load -/

theorem load_congr (vr : VR) (p q : Placement) (c : Chip) (i : Nat)
    (h : ∀ v ∈ keys vr, aget p v = aget q v) : load vr p c i = load vr q c i := by
  induction vr with
  | nil => rfl
  | cons hd t ih =>
    obtain ⟨u, du⟩ := hd
    simp only [load]
    rw [h u (by simp [keys]), ih (fun v hv => h v (by simp [keys] at hv ⊢; exact Or.inr hv))]

theorem load_adel (vr : VR) (p : Placement) (v : Vtx) (r : Res) (c : Chip) (i : Nat)
    (hn : (keys vr).Nodup) (hv : aget vr v = some r) :
    load vr p c i = load (adel vr v) p c i + (if aget p v = some c then dem r i else 0) := by
  induction vr with
  | nil => simp [aget] at hv
  | cons hd t ih =>
    obtain ⟨u, du⟩ := hd
    simp only [keys, List.map_cons, List.nodup_cons] at hn
    by_cases hu : u = v
    · subst hu
      simp [aget] at hv; subst hv
      simp only [load, adel, if_true]; omega
    · simp only [aget, hu, if_false] at hv
      simp only [load, adel, hu, if_false]
      have := ih hn.2 hv
      omega

theorem load_append (a b : VR) (p : Placement) (c : Chip) (i : Nat) :
    load (a ++ b) p c i = load a p c i + load b p c i := by
  induction a with
  | nil => simp [load]
  | cons hd t ih => obtain ⟨u, du⟩ := hd; simp only [List.cons_append, load, ih]; omega

theorem mem_adel_sub (vr : VR) (a : Vtx) : ∀ e, e ∈ adel vr a → e ∈ vr := by
  induction vr with
  | nil => simp [adel]
  | cons hd t ih =>
    obtain ⟨u, du⟩ := hd
    intro e he
    by_cases hu : u = a
    · simp [adel, hu] at he; exact List.mem_cons_of_mem _ he
    · simp only [adel, hu, if_false, List.mem_cons] at he ⊢
      rcases he with he | he
      · exact Or.inl he
      · exact Or.inr (ih e he)

/-! ### popAll -/

structure PopOut (vr : VR) (l : List Vtx) (tot : Res) (vr1 : VR) (tot1 : Res) : Prop where
  present : ∀ v ∈ l, v ∈ keys vr
  nodup : (keys vr1).Nodup
  keys : ∀ v, v ∈ keys vr1 ↔ v ∈ keys vr ∧ v ∉ l
  sub : ∀ e, e ∈ vr1 → e ∈ vr
  load : ∀ (p : Placement) (c0 c : Chip) (i : Nat), (∀ v ∈ l, aget p v = some c0) →
    load vr p c i = load vr1 p c i + (if c = c0 then dem tot1 i - dem tot i else 0)
  nonneg : NonNegVR vr → (∀ i, 0 ≤ dem tot i) → ∀ i, 0 ≤ dem tot1 i

theorem popAll_spec : ∀ (l : List Vtx) (vr : VR) (tot : Res) (vr1 : VR) (tot1 : Res),
    popAll vr l tot = .ok (vr1, tot1) → (keys vr).Nodup → l.Nodup → PopOut vr l tot vr1 tot1 := by
  intro l
  induction l with
  | nil =>
    intro vr tot vr1 tot1 h hn _
    simp [popAll] at h; obtain ⟨rfl, rfl⟩ := h
    exact ⟨fun v h => by simp at h, hn, fun v => by simp, fun e h => h,
      fun p c0 c i _ => by split <;> omega, fun _ h => h⟩
  | cons v vs ih =>
    intro vr tot vr1 tot1 h hn hl
    simp only [popAll] at h
    split at h
    · simp at h
    · rename_i r hv
      simp only [List.nodup_cons] at hl
      have hn1 := nodup_keys_adel vr v hn
      obtain ⟨i1, i2, i3, i4, i5, i6⟩ := ih _ _ _ _ h hn1 hl.2
      refine ⟨?_, i2, ?_, fun e he => mem_adel_sub vr v e (i4 e he), ?_, ?_⟩
      · intro u hu
        simp only [List.mem_cons] at hu
        rcases hu with rfl | hu
        · exact (aget_isSome_iff vr _).1 (by simp [hv])
        · exact ((mem_keys_adel vr v u hn).1 (i1 u hu)).2
      · intro u
        rw [i3 u, mem_keys_adel vr v u hn]
        simp only [List.mem_cons, not_or]
        constructor
        · rintro ⟨⟨a, b⟩, c⟩; exact ⟨b, a, c⟩
        · rintro ⟨b, a, c⟩; exact ⟨⟨a, b⟩, c⟩
      · intro p c0 c i hp
        have h1 := load_adel vr p v r c i hn hv
        have h2 := i5 p c0 c i (fun u hu => hp u (List.mem_cons_of_mem _ hu))
        rw [hp v (by simp)] at h1
        rw [dem_accum] at h2
        by_cases e : c = c0
        · subst e; simp at h1 h2 ⊢; omega
        · have e' : ¬ c0 = c := fun h => e h.symm
          simp [e, e'] at h1 h2 ⊢; omega
      · intro hnn ht
        refine i6 (fun u d hud => hnn u d (mem_adel_sub vr v _ hud)) ?_
        intro i
        rw [dem_accum]
        have := hnn v r (aget_some_mem hv) i
        have := ht i
        omega

/-! ### freshness of merged-vertex names -/

def VFresh (k : Nat) : Vtx → Prop
  | .o _ => True
  | .m j => j < k

def CFresh (k : Nat) : Constraint → Prop
  | .loc v _ => VFresh k v
  | .same vs => ∀ v ∈ vs, VFresh k v
  | _ => True

theorem VFresh.mono {k k' : Nat} (h : k ≤ k') {v : Vtx} (hv : VFresh k v) : VFresh k' v := by
  cases v with
  | o n => trivial
  | m j => simp [VFresh] at hv ⊢; omega

theorem VFresh.ne {k : Nat} {v : Vtx} (hv : VFresh k v) : v ≠ .m k := by
  intro e; subst e; simp [VFresh] at hv

theorem substV_fresh {k : Nat} {vs : List Vtx} {w : Vtx} (hw : VFresh k w) :
    VFresh (k + 1) (substV (.m k) vs w) := by
  unfold substV; split
  · simp [VFresh]
  · exact hw.mono (by omega)

theorem rewrite_fresh {k : Nat} {vs : List Vtx} {c : Constraint} (hc : CFresh k c) :
    CFresh (k + 1) (rewrite (.m k) vs c) := by
  cases c with
  | loc v ch => exact substV_fresh hc
  | same ws =>
    intro v hv
    simp only [List.mem_map] at hv
    obtain ⟨w, hw, rfl⟩ := hv
    exact substV_fresh (hc w hw)
  | reserve r a at_ => trivial
  | endpoint v => trivial
  | other => trivial

/-! ### one expansion step -/

theorem reserved_rewrite (mv : Vtx) (vs : List Vtx) (cs : List Constraint) (c : Chip) (i : Nat) :
    reserved (cs.map (rewrite mv vs)) c i = reserved cs c i := by
  induction cs with
  | nil => rfl
  | cons k t ih => cases k <;> simp [rewrite, reserved, ih]

/-- placements after `for v in merged_vertex.vertices: placements[v] = placement` -/
theorem aget_foldl_aset (vs : List Vtx) (c0 : Chip) : ∀ (q : Placement) (w : Vtx),
    aget (vs.foldl (fun q v => aset q v c0) q) w = if w ∈ vs then some c0 else aget q w := by
  induction vs with
  | nil => intro q w; simp
  | cons v t ih =>
    intro q w
    simp only [List.foldl_cons, ih, aget_aset, List.mem_cons]
    by_cases h1 : w ∈ t
    · simp [h1]
    · by_cases h2 : v = w
      · subst h2; simp [h1]
      · have : ¬ w = v := fun h => h2 h.symm
        simp [h1, h2, this]

theorem nodup_foldl_aset (vs : List Vtx) (c0 : Chip) : ∀ (q : Placement), (keys q).Nodup →
    (keys (vs.foldl (fun q v => aset q v c0) q)).Nodup := by
  induction vs with
  | nil => intro q h; simpa using h
  | cons v t ih => intro q h; simp only [List.foldl_cons]; exact ih _ (nodup_keys_aset _ _ _ h)

theorem expand_feasible {vr vr1 : VR} {cs : List Constraint} {m : Machine} {vs : List Vtx} {k : Nat}
    {tot : Res} {q : Placement}
    (hn : (keys vr).Nodup) (hfv : ∀ v ∈ keys vr, VFresh k v) (hfc : ∀ c ∈ cs, CFresh k c)
    (hvs : 1 < vs.length)
    (hpop : popAll vr (dedup vs) [] = .ok (vr1, tot))
    (F : Feasible (vr1 ++ [(.m k, tot)]) (cs.map (rewrite (.m k) vs)) m q) :
    ∃ p, expandOne q k vs = .ok p ∧ Feasible vr cs m p := by
  have P := popAll_spec _ _ _ _ _ hpop hn (nodup_dedup vs)
  have hmk : Vtx.m k ∈ keys (vr1 ++ [(Vtx.m k, tot)]) := by simp [keys]
  obtain ⟨c0, hq0, hok0⟩ := F.placed _ hmk
  have hvsvr : ∀ v ∈ vs, v ∈ keys vr := fun v hv => P.present v ((mem_dedup vs v).2 hv)
  have hmkvs : Vtx.m k ∉ vs := fun h => (hfv _ (hvsvr _ h)).ne rfl
  refine ⟨vs.foldl (fun q v => aset q v c0) (adel q (.m k)), by simp [expandOne, hq0], ?_⟩
  -- the expanded placement
  have hp : ∀ w, aget (vs.foldl (fun q v => aset q v c0) (adel q (.m k))) w =
      if w ∈ vs then some c0 else if w = .m k then none else aget q w := by
    intro w
    rw [aget_foldl_aset, aget_adel _ _ _ F.keysNodup]
    by_cases h : Vtx.m k = w
    · subst h; simp
    · have : ¬ w = Vtx.m k := fun e => h e.symm
      simp [h, this]
  have hsub : ∀ w, VFresh k w →
      aget (vs.foldl (fun q v => aset q v c0) (adel q (.m k))) w = aget q (substV (.m k) vs w) := by
    intro w hw
    rw [hp w]
    unfold substV
    split
    · exact hq0.symm
    · simp [hw.ne]
  have hkeys1 : ∀ v, v ∈ keys vr1 → v ∈ keys vr ∧ v ∉ vs := by
    intro v hv
    have := (P.keys v).1 hv
    exact ⟨this.1, fun h => this.2 ((mem_dedup vs v).2 h)⟩
  refine ⟨nodup_foldl_aset _ _ _ (nodup_keys_adel _ _ F.keysNodup), ?_, ?_, ?_, ?_, ?_⟩
  · -- placed
    intro v hv
    by_cases hin : v ∈ vs
    · exact ⟨c0, by rw [hp]; simp [hin], hok0⟩
    · have hv1 : v ∈ keys vr1 := (P.keys v).2 ⟨hv, fun h => hin ((mem_dedup vs v).1 h)⟩
      obtain ⟨c, hc, hokc⟩ := F.placed v (by simp [keys] at hv1 ⊢; exact Or.inl hv1)
      refine ⟨c, ?_, hokc⟩
      rw [hp]; simp [hin, (hfv v hv).ne, hc]
  · -- onlyVertices
    intro v hv
    have hs : (aget (vs.foldl (fun q v => aset q v c0) (adel q (.m k))) v).isSome :=
      (aget_isSome_iff _ _).2 hv
    rw [hp] at hs
    by_cases hin : v ∈ vs
    · exact hvsvr v hin
    · by_cases hmk' : v = .m k
      · subst hmk'; rw [if_neg hmkvs, if_pos rfl] at hs; simp at hs
      · rw [if_neg hin, if_neg hmk'] at hs
        have hvq : v ∈ keys q := (aget_isSome_iff _ _).1 hs
        have := F.onlyVertices v hvq
        simp [keys] at this
        rcases this with h | h
        · obtain ⟨d, hd⟩ := h
          exact (hkeys1 v (by simp [keys]; exact ⟨d, hd⟩)).1
        · exact absurd h hmk'
  · -- capacity
    intro c hc i hi
    have hF := F.capacity c hc i hi
    rw [reserved_rewrite, load_append] at hF
    have hl := P.load (vs.foldl (fun q v => aset q v c0) (adel q (.m k))) c0 c i
      (fun v hv => by rw [hp]; simp [(mem_dedup vs v).1 hv])
    have hcg : load vr1 (vs.foldl (fun q v => aset q v c0) (adel q (.m k))) c i = load vr1 q c i := by
      apply load_congr
      intro v hv
      obtain ⟨h1, h2⟩ := hkeys1 v hv
      rw [hp]; simp [h2, (hfv v h1).ne]
    rw [hl, hcg]
    simp only [load, hq0] at hF
    have hd0 := dem_nil i
    by_cases e : c = c0
    · subst e; simp at hF ⊢; omega
    · have e' : ¬ c0 = c := fun h => e h.symm
      simp [e, e'] at hF ⊢; omega
  · -- location
    intro v c hvc
    have hf : VFresh k v := hfc _ hvc
    rw [hsub v hf]
    apply F.location
    exact List.mem_map.2 ⟨_, hvc, rfl⟩
  · -- same chip
    intro ws hws a ha b hb
    have hf := hfc _ hws
    rw [hsub a (hf a ha), hsub b (hf b hb)]
    apply F.sameChip (ws.map (substV (.m k) vs))
    · exact List.mem_map.2 ⟨_, hws, rfl⟩
    · exact List.mem_map.2 ⟨a, ha, rfl⟩
    · exact List.mem_map.2 ⟨b, hb, rfl⟩

end Rig.C02
