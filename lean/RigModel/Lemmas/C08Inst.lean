/-
C08 helper lemmas: the instances of a bit field.  Every value an instance holds belongs to a field present in
it and is at most that field's `max_value` (so it fits once the length is known); two instances that differ
at all differ on a field present in both.
-/
import RigModel.Lemmas.C08Tag
set_option linter.unusedSimpArgs false
set_option linter.unusedVariables false

namespace Rig.C08
open Rig.Gen.BitfieldConsts

/-- one value of an instance: it belongs to a present field and was recorded in `max_value` -/
def ValOK (es : List Entry) (fv : Reqs) (iv : Ident × Nat) : Prop :=
  ∃ e ∈ es, e.ident = iv.1 ∧ e.enabled fv = true ∧ iv.2 ≤ e.field.maxValue

/-- **instance invariant**: every value of the instance names a present field and is `≤ max_value` of it -/
def InstOK (es : List Entry) (fv : Reqs) : Prop := ∀ iv ∈ fv, ValOK es fv iv

theorem mem_modifyFirst_fwd {pm : Entry → Bool} {f : Field → Field} {es : List Entry} {x : Entry} (h : x ∈ es) :
    ∃ x' ∈ modifyFirst pm f es, x'.path = x.path ∧ x'.ident = x.ident ∧
      (x'.field = x.field ∨ x'.field = f x.field) := by
  induction es with
  | nil => simp at h
  | cons e es ih =>
    rw [modifyFirst_cons]
    split
    · rcases List.mem_cons.mp h with h | h
      · exact ⟨e.upd f, List.mem_cons_self, by simp [h], by simp [h], Or.inr (by simp [h])⟩
      · exact ⟨x, List.mem_cons_of_mem _ h, rfl, rfl, Or.inl rfl⟩
    · rcases List.mem_cons.mp h with h | h
      · exact ⟨e, List.mem_cons_self, by simp [h], by simp [h], Or.inl (by simp [h])⟩
      · obtain ⟨x', hx', h1, h2, h3⟩ := ih h
        exact ⟨x', List.mem_cons_of_mem _ hx', h1, h2, h3⟩

/-- an update that never lowers `max_value` keeps every value of every instance recorded -/
theorem valOK_modifyFirst {pm : Entry → Bool} {f : Field → Field} {es : List Entry} {fv : Reqs} {iv : Ident × Nat}
    (hf : ∀ fld, fld.maxValue ≤ (f fld).maxValue) (h : ValOK es fv iv) : ValOK (modifyFirst pm f es) fv iv := by
  obtain ⟨e, he, h1, h2, h3⟩ := h
  obtain ⟨e', he', g1, g2, g3⟩ := mem_modifyFirst_fwd (pm := pm) (f := f) he
  refine ⟨e', he', g2.trans h1, (enabled_congr_path g1 fv).trans h2, ?_⟩
  rcases g3 with g3 | g3
  · rw [g3]; exact h3
  · rw [g3]; exact Nat.le_trans h3 (hf _)

theorem instOK_modifyField {es : List Entry} {fv fv0 : Reqs} {i : Ident} {f : Field → Field}
    (hf : ∀ fld, fld.maxValue ≤ (f fld).maxValue) (h : InstOK es fv) : InstOK (modifyField es i fv0 f) fv :=
  fun iv hiv => valOK_modifyFirst hf (h iv hiv)

/-! ### `__call__` -/

theorem fold_max_mono {all fv : Reqs} {iv : Ident × Nat} : ∀ (kvs : Reqs) (es : List Entry), ValOK es fv iv →
    ValOK (kvs.foldl (fun es kv => modifyField es kv.1 all fun f => { f with maxValue := max f.maxValue kv.2 }) es) fv iv := by
  intro kvs
  induction kvs with
  | nil => intro es h; exact h
  | cons kv kvs ih =>
    intro es h
    simp only [List.foldl_cons]
    exact ih _ (valOK_modifyFirst (fun fld => by simp only; omega) h)

/-- after the `max_value` updates of `__call__` every value of the new instance is recorded -/
theorem fold_max_spec {all : Reqs} : ∀ (kvs : Reqs) (es : List Entry), SpecUnique es →
    (∀ iv ∈ kvs, ∃ e ∈ es, e.ident = iv.1 ∧ e.enabled all = true) →
    ∀ iv ∈ kvs, ValOK (kvs.foldl (fun es kv => modifyField es kv.1 all fun f => { f with maxValue := max f.maxValue kv.2 }) es) all iv := by
  intro kvs
  induction kvs with
  | nil => intro es _ _ iv hiv; simp at hiv
  | cons kv kvs ih =>
    intro es hu hex iv hiv
    simp only [List.foldl_cons]
    have hu1 : SpecUnique (modifyField es kv.1 all fun f => { f with maxValue := max f.maxValue kv.2 }) :=
      pairwise_modifyFirst hu (fun y hy hpy x hx => ⟨id, id⟩)
    rcases List.mem_cons.mp hiv with rfl | hiv
    · refine fold_max_mono kvs _ ?_
      obtain ⟨e, he, h1, h2⟩ := hex iv List.mem_cons_self
      have := upd_mem_modifyFirst (f := fun f => { f with maxValue := max f.maxValue iv.2 })
        (unique_pairwise_match hu iv.1 all) he
      simp only [h1, h2, beq_self_eq_true, Bool.and_self, if_true] at this
      exact ⟨_, this, h1, h2, by simp only [upd_field]; omega⟩
    · refine ih _ hu1 ?_ iv hiv
      intro jw hjw
      obtain ⟨e, he, h1, h2⟩ := hex jw (List.mem_cons_of_mem _ hjw)
      obtain ⟨e', he', g1, g2, _⟩ := mem_modifyFirst_fwd
        (pm := fun e => e.ident == kv.1 && e.enabled all)
        (f := fun f => { f with maxValue := max f.maxValue kv.2 }) he
      exact ⟨e', he', g2.trans h1, (enabled_congr_path g1 all).trans h2⟩

theorem call_instOK {st st' : State} {fv fv' : Reqs} {kw : List (Ident × Int)} (hinv : Inv st)
    (h : call st fv kw = .ok (st', fv')) :
    InstOK st'.entries fv' ∧ ∀ fv0, InstOK st.entries fv0 → InstOK st'.entries fv0 := by
  have hchk := call_values_checked h
  obtain ⟨_, _, hst⟩ := call_ok h
  subst hst
  refine ⟨?_, fun fv0 h0 iv hiv => fold_max_mono fv' _ (h0 iv hiv)⟩
  refine fold_max_spec fv' st.entries hinv.unique ?_
  intro iv hiv
  obtain ⟨e, hg, _⟩ := hchk iv hiv
  obtain ⟨h1, h2, h3⟩ := getField_some hg
  exact ⟨e, h1, h2, h3⟩

/-! ### `add_field` and `assign_fields` -/

theorem addTags_instOK {fv fv0 : Reqs} {T : List String} : ∀ (parents : List Ident) (es : List Entry),
    InstOK es fv0 → InstOK (addTags fv T parents es) fv0 := by
  intro parents
  induction parents with
  | nil => intro es h; exact h
  | cons pi ps ih =>
    intro es h
    simp only [addTags, List.foldl_cons]
    exact ih _ (instOK_modifyField (fun _ => Nat.le_refl _) h)

theorem addField_instOK {st st' : State} {fv fv0 : Reqs} {ident : Ident} {length : Option Int}
    {startAt : Option Nat} {tags : List String} (h : addField st fv ident length startAt tags = .ok st')
    (h0 : InstOK st.entries fv0) : InstOK st'.entries fv0 := by
  obtain ⟨q, e, _, _, hst', _⟩ := addField_ok h
  rw [hst']
  refine addTags_instOK _ _ ?_
  intro iv hiv
  obtain ⟨y, hy, r⟩ := h0 iv hiv
  exact ⟨y, (insertEntry_perm _ _).mem_iff.mpr (List.mem_cons_of_mem _ hy), r⟩

theorem assignFieldsP_instOK {st : State} {fv0 : Reqs} (h0 : InstOK st.entries fv0) :
    InstOK (assignFieldsP st).1.entries fv0 :=
  assignFieldsP_preserves (P := fun es => InstOK es fv0)
    (fun es i fv len start h => instOK_modifyField (fun _ => Nat.le_refl _) h) st h0

/-! ### consequences -/

/-- the values of an instance fit the lengths of the fields that hold them -/
theorem valuesFit_of_instOK {st : State} (hinv : Inv st) {fv : Reqs} (h : InstOK st.entries fv) :
    ValuesFit st.entries fv := by
  intro e he x l hx hl
  obtain ⟨e', he', h1, h2, h3⟩ := h (e.ident, x) (lookup_mem hx)
  have he0 := List.mem_filter.mp he
  have := eq_of_enabled_same_ident hinv.unique he' he0.1 h1 h2 he0.2
  subst this
  exact Nat.lt_of_le_of_lt h3 (hinv.wide e' he0.1 l hl)

/-- two assignments that agree on every field present in both have the same fields present -/
theorem enabled_eq_of_agree {es : List Entry} (hs : Struct es) {fv fv' : Reqs}
    (hag : ∀ y ∈ es, y.enabled fv = true → y.enabled fv' = true → fv.lookup y.ident = fv'.lookup y.ident) :
    ∀ e ∈ es, e.enabled fv = e.enabled fv' := by
  intro e he
  have key : ∀ n, n ≤ e.path.length →
      (e.path.take n).all (satisfied fv) = (e.path.take n).all (satisfied fv') := by
    intro n
    induction n with
    | zero => intro _; simp
    | succ n ih =>
      intro hn
      have hn' : n < e.path.length := by omega
      rw [List.take_succ_eq_append_getElem hn', List.all_append, List.all_append, ih (by omega)]
      cases hpre : (e.path.take n).all (satisfied fv') with
      | false => simp
      | true =>
        have hpre0 : (e.path.take n).all (satisfied fv) = true := (ih (by omega)).trans hpre
        simp only [Bool.true_and, List.all_cons, List.all_nil, Bool.and_true]
        have hk := (hs (e.path, e.ident) (mem_shape.mpr ⟨e, he, rfl, rfl⟩) n hn').2
        have hlk : ∀ iv ∈ e.path[n], fv.lookup iv.1 = fv'.lookup iv.1 := by
          intro iv hiv
          obtain ⟨y, hy, hyp, hyi⟩ := mem_shape.mp (hk iv hiv)
          have e1 : y.enabled fv = true := by simp only [Entry.enabled, hyp]; exact hpre0
          have e2 : y.enabled fv' = true := by simp only [Entry.enabled, hyp]; exact hpre
          rw [← hyi]; exact hag y hy e1 e2
        rw [Bool.eq_iff_iff, satisfied_iff, satisfied_iff]
        constructor
        · intro h iv hiv; rw [← hlk iv hiv]; exact h iv hiv
        · intro h iv hiv; rw [hlk iv hiv]; exact h iv hiv
  have := key e.path.length (Nat.le_refl _)
  simpa [Entry.enabled] using this

/-- **two different assignments differ on a field present in both** - provided every value of either names a
field present in it (true of every instance the code can create; an arbitrary dict may carry a stray key) -/
theorem differ_on_common {es : List Entry} (hs : Struct es) {fv fv' : Reqs}
    (hk : ∀ iv ∈ fv, ∃ e ∈ es, e.ident = iv.1 ∧ e.enabled fv = true)
    (hk' : ∀ iv ∈ fv', ∃ e ∈ es, e.ident = iv.1 ∧ e.enabled fv' = true)
    (hne : ∃ i, fv.lookup i ≠ fv'.lookup i) :
    ∃ e ∈ es, e.enabled fv = true ∧ e.enabled fv' = true ∧ fv.lookup e.ident ≠ fv'.lookup e.ident := by
  apply Classical.byContradiction
  intro hcon
  have hag : ∀ y ∈ es, y.enabled fv = true → y.enabled fv' = true → fv.lookup y.ident = fv'.lookup y.ident :=
    fun y hy h1 h2 => Classical.byContradiction fun hn => hcon ⟨y, hy, h1, h2, hn⟩
  have hen := enabled_eq_of_agree hs hag
  obtain ⟨i, hi⟩ := hne
  apply hi
  cases hf : fv.lookup i with
  | some x =>
    obtain ⟨e, he, h1, h2⟩ := hk (i, x) (lookup_mem hf)
    have := hag e he h2 ((hen e he).symm.trans h2)
    simp only at h1
    rw [h1, hf] at this
    exact this
  | none =>
    cases hf' : fv'.lookup i with
    | none => rfl
    | some x' =>
      obtain ⟨e, he, h1, h2⟩ := hk' (i, x') (lookup_mem hf')
      have := hag e he ((hen e he).trans h2) h2
      simp only at h1
      rw [h1, hf, hf'] at this
      exact this

/-- **orthogonality of any two different instances with complete keys** -/
theorem orthogonal_complete_lemma {st : State} (hinv : Inv st) (hs : Struct st.entries) {fv fv' : Reqs}
    (hi : InstOK st.entries fv) (hi' : InstOK st.entries fv') {k m k' m' : Nat}
    (hk : getValue st.entries fv none none = .ok k) (hm : getMask st.entries fv none none = .ok m)
    (hk' : getValue st.entries fv' none none = .ok k') (hm' : getMask st.entries fv' none none = .ok m')
    (hne : ∃ i, fv.lookup i ≠ fv'.lookup i) :
    k &&& m' ≠ k' &&& m ∧ ¬ Matches k k' m' ∧ ¬ Matches k' k m := by
  obtain ⟨e, he, h1, h2, h3⟩ := differ_on_common hs
    (fun iv hiv => by obtain ⟨e, he, a, b, _⟩ := hi iv hiv; exact ⟨e, he, a, b⟩)
    (fun iv hiv => by obtain ⟨e, he, a, b, _⟩ := hi' iv hiv; exact ⟨e, he, a, b⟩) hne
  have hen : e ∈ enabledFields st.entries fv := List.mem_filter.mpr ⟨he, h1⟩
  have hen' : e ∈ enabledFields st.entries fv' := List.mem_filter.mpr ⟨he, h2⟩
  obtain ⟨⟨x, hx⟩, _⟩ := (getValue_all hk).2 e hen
  obtain ⟨⟨x', hx'⟩, _⟩ := (getValue_all hk').2 e hen'
  refine orthogonal_lemma hinv.disjoint (valuesFit_of_instOK hinv hi) (valuesFit_of_instOK hinv hi')
    hk hm hk' hm' hen hen' hx hx' ?_
  intro hxx; apply h3; rw [hx, hx', hxx]

end Rig.C08
