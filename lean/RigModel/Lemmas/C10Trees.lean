/-
C10 helper lemmas: breadth-first traversal and the table-building fold.
-/
import RigModel.Model.C10
set_option linter.unusedSimpArgs false
set_option linter.unusedVariables false

namespace Rig.C10

/-! ### sets as lists -/

theorem subset_iff (a b : List Nat) : subset a b = true ↔ ∀ x, x ∈ a → x ∈ b := by
  simp [subset, List.all_eq_true]

theorem sameSet_iff (a b : List Nat) : sameSet a b = true ↔ ∀ x, x ∈ a ↔ x ∈ b := by
  simp only [sameSet, Bool.and_eq_true, subset_iff]
  constructor
  · rintro ⟨h1, h2⟩ x; exact ⟨h1 x, h2 x⟩
  · intro h; exact ⟨fun x => (h x).1, fun x => (h x).2⟩

theorem sameSet_refl (a : List Nat) : sameSet a a = true := (sameSet_iff a a).2 (fun _ => Iff.rfl)
theorem sameSet_symm {a b : List Nat} (h : sameSet a b = true) : sameSet b a = true :=
  (sameSet_iff b a).2 (fun x => ((sameSet_iff a b).1 h x).symm)
theorem sameSet_trans {a b c : List Nat} (h1 : sameSet a b = true) (h2 : sameSet b c = true) :
    sameSet a c = true :=
  (sameSet_iff a c).2 (fun x => ((sameSet_iff a b).1 h1 x).trans ((sameSet_iff b c).1 h2 x))

/-! ### traversal -/

def nodesQ (q : List (Option Nat × Tree)) : List Visit := q.flatMap (fun p => p.2.occs p.1)
def sizeQ (q : List (Option Nat × Tree)) : Nat := (q.map (fun p => p.2.size)).sum

theorem Tree.size_pos : ∀ t : Tree, 1 ≤ t.size
  | .node _ _ => by simp [Tree.size]

theorem subs_spec : ∀ (kids : Kids), kids.WF →
    ∃ s, subs kids = some s ∧ (∀ p ∈ s, p.2.WF ∧ ∃ l, p.1 = some l ∧ l < 6) ∧ sizeQ s = kids.size ∧
      ∀ v, v ∈ nodesQ s ↔ v ∈ kids.occs
  | .nil, _ => ⟨[], rfl, by simp, by simp [sizeQ, Kids.size], by simp [nodesQ, Kids.occs]⟩
  | .leaf r rest, h => by
    simp only [Kids.WF] at h
    obtain ⟨s, h1, h2, h3, h4⟩ := subs_spec rest h
    exact ⟨s, by simp [subs, h1], h2, by simp [Kids.size, h3], by simpa [Kids.occs] using h4⟩
  | .sub r t rest, h => by
    simp only [Kids.WF] at h
    obtain ⟨⟨l, rfl, hl⟩, ht, hrest⟩ := h
    obtain ⟨s, h1, h2, h3, h4⟩ := subs_spec rest hrest
    refine ⟨(some l, t) :: s, by simp [subs, h1], ?_, ?_, ?_⟩
    · intro p hp
      simp only [List.mem_cons] at hp
      rcases hp with rfl | hp
      · exact ⟨ht, l, rfl, hl⟩
      · exact h2 p hp
    · simp [sizeQ, Kids.size] at h3 ⊢; omega
    · intro v
      simp only [nodesQ, List.flatMap_cons, List.mem_append, Kids.occs] at h4 ⊢
      rw [h4 v]

theorem sizeQ_append (a b : List (Option Nat × Tree)) : sizeQ (a ++ b) = sizeQ a + sizeQ b := by
  simp [sizeQ]

theorem nodesQ_append (a b : List (Option Nat × Tree)) : nodesQ (a ++ b) = nodesQ a ++ nodesQ b := by
  simp [nodesQ]

theorem bfs_spec : ∀ (fuel : Nat) (q : List (Option Nat × Tree)), sizeQ q ≤ fuel → (∀ p ∈ q, p.2.WF) →
    (bfs fuel q).2 = false ∧ ∀ v, v ∈ (bfs fuel q).1 ↔ v ∈ nodesQ q
  | 0, q, hs, _ => by
    match q, hs with
    | [], _ => simp [bfs, nodesQ]
    | (d, t) :: q, hs =>
      have := Tree.size_pos t
      simp [sizeQ] at hs; omega
  | fuel + 1, [], _, _ => by simp [bfs, nodesQ]
  | fuel + 1, (d, .node chip kids) :: q, hs, hwf => by
    have hk : kids.WF := by
      have := hwf (d, .node chip kids) (by simp)
      simpa [Tree.WF] using this
    obtain ⟨s, h1, h2, h3, h4⟩ := subs_spec kids hk
    have hs' : sizeQ (q ++ s) ≤ fuel := by
      rw [sizeQ_append, h3]
      simp [sizeQ, Tree.size] at hs ⊢; omega
    have hwf' : ∀ p ∈ q ++ s, p.2.WF := by
      intro p hp
      rcases List.mem_append.1 hp with hp | hp
      · exact hwf p (by simp [hp])
      · exact (h2 p hp).1
    obtain ⟨r1, r2⟩ := bfs_spec fuel (q ++ s) hs' hwf'
    simp only [bfs, h1]
    refine ⟨r1, fun v => ?_⟩
    simp only [List.mem_cons, r2 v, nodesQ_append, List.mem_append, h4 v]
    simp only [nodesQ, List.flatMap_cons, Tree.occs, List.mem_append, List.mem_cons]
    constructor
    · rintro (h | h | h)
      · exact Or.inl (Or.inl h)
      · exact Or.inr h
      · exact Or.inl (Or.inr h)
    · rintro ((h | h) | h)
      · exact Or.inl h
      · exact Or.inr (Or.inr h)
      · exact Or.inr (Or.inl h)

/-- the direction a node is entered by is a link (or it is a root) -/
def DirOk (v : Visit) : Prop := ∀ r, v.dir = some r → r < 6

mutual
theorem Tree.occs_dirOk : ∀ (t : Tree) (d : Option Nat), t.WF → (∀ r, d = some r → r < 6) →
    ∀ v ∈ t.occs d, DirOk v
  | .node chip kids, d, h, hd, v, hv => by
    simp only [Tree.occs, List.mem_cons] at hv
    rcases hv with rfl | hv
    · exact hd
    · exact Kids.occs_dirOk kids (by simpa [Tree.WF] using h) v hv
theorem Kids.occs_dirOk : ∀ (k : Kids), k.WF → ∀ v ∈ k.occs, DirOk v
  | .nil, _, v, hv => by simp [Kids.occs] at hv
  | .leaf r rest, h, v, hv => by
    simp only [Kids.occs] at hv
    exact Kids.occs_dirOk rest (by simpa [Kids.WF] using h) v hv
  | .sub r t rest, h, v, hv => by
    simp only [Kids.WF] at h
    obtain ⟨⟨l, rfl, hl⟩, ht, hrest⟩ := h
    simp only [Kids.occs, List.mem_append] at hv
    rcases hv with hv | hv
    · exact Tree.occs_dirOk t (some l) ht (by intro r hr; cases hr; exact hl) v hv
    · exact Kids.occs_dirOk rest hrest v hv
end

theorem traverse_spec (t : Tree) (h : t.WF) :
    (traverse t).2 = false ∧ ∀ v, v ∈ (traverse t).1 ↔ v ∈ t.occs none := by
  have := bfs_spec t.size [(none, t)] (by simp [sizeQ]) (by simpa using h)
  simpa [traverse, nodesQ] using this

theorem inDir_ok (v : Visit) (h : DirOk v) : inDir v.dir = .ok (srcOf v.dir) := by
  cases hd : v.dir with
  | none => rfl
  | some r => simp [inDir, srcOf, h r hd]

/-! ### the table-building fold -/

def Slot.same (a b : Slot) : Prop := a.chip = b.chip ∧ a.key = b.key ∧ a.mask = b.mask

theorem Slot.at_iff (s : Slot) (c : ChipXY) (k m : Nat) : s.at c k m = true ↔ s.chip = c ∧ s.key = k ∧ s.mask = m := by
  simp [Slot.at, and_assoc]

/-- invariant of the fold: `S` is the set of tree nodes consumed so far -/
structure Inv (st : List Slot) (S : Occ → Prop) : Prop where
  distinct : st.Pairwise (fun a b => ¬ a.same b)
  fromOcc : ∀ s ∈ st, ∃ o, S o ∧ o.at s.chip s.key s.mask ∧ sameSet o.v.outs s.outs = true
  covers : ∀ o, S o → ∃ s ∈ st, o.at s.chip s.key s.mask ∧ sameSet s.outs o.v.outs = true ∧ srcOf o.v.dir ∈ s.ins
  insFrom : ∀ s ∈ st, ∀ d ∈ s.ins, ∃ o, S o ∧ o.at s.chip s.key s.mask ∧ srcOf o.v.dir = d

theorem pairwise_inj : ∀ (st : List Slot), st.Pairwise (fun a b => ¬ a.same b) →
    ∀ a ∈ st, ∀ b ∈ st, a.same b → a = b
  | [], _, a, ha, _, _, _ => by simp at ha
  | x :: st, hp, a, ha, b, hb, hab => by
    rw [List.pairwise_cons] at hp
    simp only [List.mem_cons] at ha hb
    rcases ha with rfl | ha <;> rcases hb with rfl | hb
    · rfl
    · exact absurd hab (hp.1 b hb)
    · exact absurd ⟨hab.1.symm, hab.2.1.symm, hab.2.2.symm⟩ (hp.1 a ha)
    · exact pairwise_inj st hp.2 a ha b hb hab

theorem inv_empty : Inv [] (fun _ => False) :=
  ⟨List.Pairwise.nil, by simp, by simp, by simp⟩

theorem mem_addIn (d x : Option Nat) (ins : List (Option Nat)) : x ∈ addIn d ins ↔ x = d ∨ x ∈ ins := by
  unfold addIn
  split
  · rename_i h
    have : d ∈ ins := by simpa using h
    constructor
    · exact Or.inr
    · rintro (rfl | h) <;> assumption
  · simp [or_comm]

def upd (chip : ChipXY) (key mask : Nat) (d : Option Nat) (s' : Slot) : Slot :=
  if s'.at chip key mask then { s' with ins := addIn d s'.ins } else s'

theorem upd_chip (c k m d s) : (upd c k m d s).chip = s.chip := by unfold upd; split <;> rfl
theorem upd_key (c k m d s) : (upd c k m d s).key = s.key := by unfold upd; split <;> rfl
theorem upd_mask (c k m d s) : (upd c k m d s).mask = s.mask := by unfold upd; split <;> rfl
theorem upd_outs (c k m d s) : (upd c k m d s).outs = s.outs := by unfold upd; split <;> rfl
theorem upd_ins_sup (c k m d s) (x : Option Nat) (h : x ∈ s.ins) : x ∈ (upd c k m d s).ins := by
  unfold upd; split
  · exact (mem_addIn _ _ _).2 (Or.inr h)
  · exact h
theorem upd_ins_mem (c k m d s) (x : Option Nat) (h : x ∈ (upd c k m d s).ins) :
    x ∈ s.ins ∨ (x = d ∧ s.at c k m = true) := by
  unfold upd at h; split at h
  · rename_i hat
    rcases (mem_addIn _ _ _).1 h with h | h
    · exact Or.inr ⟨h, hat⟩
    · exact Or.inl h
  · exact Or.inl h

theorem step_cases (key mask : Nat) (st : List Slot) (v : Visit) (hv : DirOk v) :
    (∃ s ∈ st, s.at v.chip key mask = true ∧ sameSet s.outs v.outs = true ∧
        step key mask st v = .ok (st.map (upd v.chip key mask (srcOf v.dir)))) ∨
    (∃ s ∈ st, s.at v.chip key mask = true ∧ sameSet s.outs v.outs = false ∧
        step key mask st v = .error (.multisource key mask v.chip)) ∨
    ((∀ s ∈ st, s.at v.chip key mask = false) ∧
        step key mask st v = .ok (st ++ [{ chip := v.chip, key := key, mask := mask,
                                            ins := [srcOf v.dir], outs := v.outs }])) := by
  unfold step
  rw [inDir_ok v hv]
  simp only
  cases hf : st.find? (fun s => s.at v.chip key mask) with
  | some s =>
    have hm := List.mem_of_find?_eq_some hf
    have hat := List.find?_some hf
    simp only
    cases hs : sameSet s.outs v.outs with
    | true => exact Or.inl ⟨s, hm, hat, hs, by simp [upd]⟩
    | false => exact Or.inr (Or.inl ⟨s, hm, hat, hs, by simp⟩)
  | none =>
    refine Or.inr (Or.inr ⟨?_, rfl⟩)
    intro s hs
    have := List.find?_eq_none.1 hf s hs
    simpa using this

theorem inv_update (st : List Slot) (S : Occ → Prop) (key mask : Nat) (v : Visit) (hI : Inv st S)
    (s : Slot) (hs : s ∈ st) (hat : s.at v.chip key mask = true) (hss : sameSet s.outs v.outs = true) :
    Inv (st.map (upd v.chip key mask (srcOf v.dir)))
      (fun o => o = { key := key, mask := mask, v := v } ∨ S o) := by
  obtain ⟨hc, hk, hm⟩ := (Slot.at_iff _ _ _ _).1 hat
  refine ⟨?_, ?_, ?_, ?_⟩
  · rw [List.pairwise_map]
    refine hI.distinct.imp ?_
    intro a b hab hsame
    exact hab (by simpa [Slot.same, upd_chip, upd_key, upd_mask] using hsame)
  · intro s' hs'
    obtain ⟨s0, hs0, rfl⟩ := List.mem_map.1 hs'
    obtain ⟨o, ho, hoat, hoo⟩ := hI.fromOcc s0 hs0
    exact ⟨o, Or.inr ho, by simpa [upd_chip, upd_key, upd_mask] using hoat, by simpa [upd_outs] using hoo⟩
  · intro o ho
    rcases ho with rfl | ho
    · refine ⟨upd v.chip key mask (srcOf v.dir) s, List.mem_map.2 ⟨s, hs, rfl⟩, ?_, ?_, ?_⟩
      · simp [Occ.at, upd_chip, upd_key, upd_mask, hc, hk, hm]
      · simpa [upd_outs] using hss
      · simp only [upd, hat, if_true]
        exact (mem_addIn _ _ _).2 (Or.inl rfl)
    · obtain ⟨s0, hs0, h1, h2, h3⟩ := hI.covers o ho
      exact ⟨upd v.chip key mask (srcOf v.dir) s0, List.mem_map.2 ⟨s0, hs0, rfl⟩,
        by simpa [upd_chip, upd_key, upd_mask] using h1, by simpa [upd_outs] using h2,
        upd_ins_sup _ _ _ _ _ _ h3⟩
  · intro s' hs' d hd
    obtain ⟨s0, hs0, rfl⟩ := List.mem_map.1 hs'
    rcases upd_ins_mem _ _ _ _ _ _ hd with h | ⟨rfl, h⟩
    · obtain ⟨o, ho, h1, h2⟩ := hI.insFrom s0 hs0 d h
      exact ⟨o, Or.inr ho, by simpa [upd_chip, upd_key, upd_mask] using h1, h2⟩
    · obtain ⟨hc0, hk0, hm0⟩ := (Slot.at_iff _ _ _ _).1 h
      exact ⟨_, Or.inl rfl, by simp [Occ.at, upd_chip, upd_key, upd_mask, hc0, hk0, hm0], rfl⟩

theorem inv_append (st : List Slot) (S : Occ → Prop) (key mask : Nat) (v : Visit) (hI : Inv st S)
    (hnone : ∀ s ∈ st, s.at v.chip key mask = false) :
    Inv (st ++ [{ chip := v.chip, key := key, mask := mask, ins := [srcOf v.dir], outs := v.outs }])
      (fun o => o = { key := key, mask := mask, v := v } ∨ S o) := by
  refine ⟨?_, ?_, ?_, ?_⟩
  · rw [List.pairwise_append]
    refine ⟨hI.distinct, by simp, ?_⟩
    intro a ha b hb
    simp only [List.mem_singleton] at hb
    subst hb
    intro hsame
    have := hnone a ha
    rw [← Bool.not_eq_true] at this
    exact this ((Slot.at_iff _ _ _ _).2 hsame)
  · intro s' hs'
    rcases List.mem_append.1 hs' with hs' | hs'
    · obtain ⟨o, ho, h1, h2⟩ := hI.fromOcc s' hs'
      exact ⟨o, Or.inr ho, h1, h2⟩
    · simp only [List.mem_singleton] at hs'
      subst hs'
      exact ⟨_, Or.inl rfl, by simp [Occ.at], sameSet_refl _⟩
  · intro o ho
    rcases ho with rfl | ho
    · exact ⟨_, List.mem_append.2 (Or.inr (List.mem_singleton.2 rfl)), by simp [Occ.at], sameSet_refl _, by simp⟩
    · obtain ⟨s0, hs0, h⟩ := hI.covers o ho
      exact ⟨s0, List.mem_append.2 (Or.inl hs0), h⟩
  · intro s' hs' d hd
    rcases List.mem_append.1 hs' with hs' | hs'
    · obtain ⟨o, ho, h⟩ := hI.insFrom s' hs' d hd
      exact ⟨o, Or.inr ho, h⟩
    · simp only [List.mem_singleton] at hs'
      subst hs'
      simp only [List.mem_singleton] at hd
      subst hd
      exact ⟨_, Or.inl rfl, by simp [Occ.at], rfl⟩

/-- one step keeps the invariant, or stops with the multisource error at a real conflict -/
theorem step_spec (st : List Slot) (S : Occ → Prop) (key mask : Nat) (v : Visit) (hI : Inv st S)
    (hv : DirOk v) :
    (∃ st', step key mask st v = .ok st' ∧ Inv st' (fun o => o = { key := key, mask := mask, v := v } ∨ S o)) ∨
    (step key mask st v = .error (.multisource key mask v.chip) ∧
      ∃ o, S o ∧ o.at v.chip key mask ∧ sameSet o.v.outs v.outs = false) := by
  rcases step_cases key mask st v hv with ⟨s, hs, hat, hss, he⟩ | ⟨s, hs, hat, hss, he⟩ | ⟨hnone, he⟩
  · exact Or.inl ⟨_, he, inv_update st S key mask v hI s hs hat hss⟩
  · refine Or.inr ⟨he, ?_⟩
    obtain ⟨o, ho, hoat, hoo⟩ := hI.fromOcc s hs
    obtain ⟨hc, hk, hm⟩ := (Slot.at_iff _ _ _ _).1 hat
    refine ⟨o, ho, by simpa [Occ.at, hc, hk, hm] using hoat, ?_⟩
    cases h : sameSet o.v.outs v.outs with
    | false => rfl
    | true =>
      have := sameSet_trans (sameSet_symm hoo) h
      rw [this] at hss; cases hss
  · exact Or.inl ⟨_, he, inv_append st S key mask v hI hnone⟩

theorem Inv.congr {st : List Slot} {S S' : Occ → Prop} (h : ∀ o, S o ↔ S' o) (hI : Inv st S) : Inv st S' := by
  have : S = S' := funext (fun o => propext (h o))
  rw [← this]; exact hI

def ConflictS (S : Occ → Prop) (c : ChipXY) (k m : Nat) : Prop :=
  ∃ a b, S a ∧ S b ∧ a.at c k m ∧ b.at c k m ∧ sameSet a.v.outs b.v.outs = false

theorem ConflictS.mono {S S' : Occ → Prop} (h : ∀ o, S o → S' o) {c k m} :
    ConflictS S c k m → ConflictS S' c k m := by
  rintro ⟨a, b, ha, hb, r⟩; exact ⟨a, b, h a ha, h b hb, r⟩

theorem stepAll_spec (key mask : Nat) : ∀ (vs : List Visit) (st : List Slot) (S : Occ → Prop),
    Inv st S → (∀ v ∈ vs, DirOk v) →
    (∃ st', stepAll key mask st vs = .ok st' ∧
        Inv st' (fun o => (∃ v ∈ vs, o = { key := key, mask := mask, v := v }) ∨ S o)) ∨
    (∃ c, stepAll key mask st vs = .error (.multisource key mask c) ∧
        ConflictS (fun o => (∃ v ∈ vs, o = { key := key, mask := mask, v := v }) ∨ S o) c key mask)
  | [], st, S, hI, _ => Or.inl ⟨st, rfl, hI.congr (by simp)⟩
  | v :: vs, st, S, hI, hv => by
    rcases step_spec st S key mask v hI (hv v (by simp)) with ⟨st1, h1, hI1⟩ | ⟨h1, o, ho, hoat, hoo⟩
    · rcases stepAll_spec key mask vs st1 _ hI1 (fun w hw => hv w (by simp [hw])) with
        ⟨st2, h2, hI2⟩ | ⟨c, h2, hc⟩
      · refine Or.inl ⟨st2, by simp [stepAll, h1, h2], hI2.congr ?_⟩
        intro o; simp only [List.mem_cons, exists_eq_or_imp]
        constructor
        · rintro (h | h | h)
          · exact Or.inl (Or.inr h)
          · exact Or.inl (Or.inl h)
          · exact Or.inr h
        · rintro ((h | h) | h)
          · exact Or.inr (Or.inl h)
          · exact Or.inl h
          · exact Or.inr (Or.inr h)
      · refine Or.inr ⟨c, by simp [stepAll, h1, h2], hc.mono ?_⟩
        intro o; simp only [List.mem_cons, exists_eq_or_imp]
        rintro (h | h | h)
        · exact Or.inl (Or.inr h)
        · exact Or.inl (Or.inl h)
        · exact Or.inr h
    · refine Or.inr ⟨v.chip, by simp [stepAll, h1], ?_⟩
      refine ⟨o, { key := key, mask := mask, v := v }, Or.inr ho, Or.inl ⟨v, by simp, rfl⟩, hoat,
        by simp [Occ.at], hoo⟩

theorem processNet_spec (st : List Slot) (S : Occ → Prop) (n : Net) (hI : Inv st S) (hwf : n.tree.WF) :
    (∃ st', processNet st n = .ok st' ∧ Inv st' (fun o => o ∈ n.occs ∨ S o)) ∨
    (∃ c, processNet st n = .error (.multisource n.key n.mask c) ∧
        ConflictS (fun o => o ∈ n.occs ∨ S o) c n.key n.mask) := by
  obtain ⟨hflag, hmem⟩ := traverse_spec n.tree hwf
  have hdir : ∀ v ∈ (traverse n.tree).1, DirOk v := fun v hv =>
    Tree.occs_dirOk n.tree none hwf (by simp) v ((hmem v).1 hv)
  have heq : ∀ o, ((∃ v ∈ (traverse n.tree).1, o = { key := n.key, mask := n.mask, v := v }) ∨ S o) ↔
      (o ∈ n.occs ∨ S o) := by
    intro o
    simp only [Net.occs, List.mem_map]
    constructor
    · rintro (⟨v, hv, rfl⟩ | h)
      · exact Or.inl ⟨v, (hmem v).1 hv, rfl⟩
      · exact Or.inr h
    · rintro (⟨v, hv, rfl⟩ | h)
      · exact Or.inl ⟨v, (hmem v).2 hv, rfl⟩
      · exact Or.inr h
  rcases stepAll_spec n.key n.mask (traverse n.tree).1 st S hI hdir with ⟨st', h, hI'⟩ | ⟨c, h, hc⟩
  · exact Or.inl ⟨st', by simp [processNet, h, hflag], hI'.congr heq⟩
  · exact Or.inr ⟨c, by simp [processNet, h], hc.mono (fun o => (heq o).1)⟩

theorem processNets_spec : ∀ (nets : List Net) (st : List Slot) (S : Occ → Prop),
    Inv st S → (∀ n ∈ nets, n.tree.WF) →
    (∃ st', processNets st nets = .ok st' ∧ Inv st' (fun o => o ∈ allOccs nets ∨ S o)) ∨
    (∃ k m c, processNets st nets = .error (.multisource k m c) ∧
        ConflictS (fun o => o ∈ allOccs nets ∨ S o) c k m)
  | [], st, S, hI, _ => Or.inl ⟨st, rfl, hI.congr (by simp [allOccs])⟩
  | n :: nets, st, S, hI, hwf => by
    have hsub : ∀ o, (o ∈ allOccs nets ∨ o ∈ n.occs ∨ S o) ↔ (o ∈ allOccs (n :: nets) ∨ S o) := by
      intro o; simp only [allOccs, List.flatMap_cons, List.mem_append]
      constructor
      · rintro (h | h | h)
        · exact Or.inl (Or.inr h)
        · exact Or.inl (Or.inl h)
        · exact Or.inr h
      · rintro ((h | h) | h)
        · exact Or.inr (Or.inl h)
        · exact Or.inl h
        · exact Or.inr (Or.inr h)
    rcases processNet_spec st S n hI (hwf n (by simp)) with ⟨st1, h1, hI1⟩ | ⟨c, h1, hc⟩
    · rcases processNets_spec nets st1 _ hI1 (fun m hm => hwf m (by simp [hm])) with
        ⟨st2, h2, hI2⟩ | ⟨k, m, c, h2, hc⟩
      · exact Or.inl ⟨st2, by simp [processNets, h1, h2], hI2.congr hsub⟩
      · exact Or.inr ⟨k, m, c, by simp [processNets, h1, h2], hc.mono (fun o => (hsub o).1)⟩
    · refine Or.inr ⟨n.key, n.mask, c, by simp [processNets, h1], hc.mono ?_⟩
      intro o ho
      exact (hsub o).1 (Or.inr ho)

/-! ### from the invariant to the tables -/

theorem mem_firsts : ∀ (l : List ChipXY) (x : ChipXY), x ∈ firsts l ↔ x ∈ l
  | [], x => by simp [firsts]
  | c :: cs, x => by
    simp only [firsts, List.mem_cons, List.mem_filter, mem_firsts cs x]
    by_cases h : x = c
    · simp [h]
    · simp [h]

theorem nodup_firsts : ∀ (l : List ChipXY), (firsts l).Nodup
  | [] => by simp [firsts]
  | c :: cs => by
    simp only [firsts, List.nodup_cons, List.mem_filter]
    exact ⟨by simp, (nodup_firsts cs).filter _⟩

theorem inv_no_conflict (st : List Slot) (os : List Occ) (hI : Inv st (fun o => o ∈ os)) : ¬ Conflict os := by
  rintro ⟨a, ha, b, hb, hc, hk, hm, hne⟩
  obtain ⟨sa, hsa, hata, hsama, _⟩ := hI.covers a ha
  obtain ⟨sb, hsb, hatb, hsamb, _⟩ := hI.covers b hb
  have : sa = sb := pairwise_inj st hI.distinct sa hsa sb hsb (by
    obtain ⟨a1, a2, a3⟩ := hata
    obtain ⟨b1, b2, b3⟩ := hatb
    exact ⟨by rw [← a1, ← b1, hc], by rw [← a2, ← b2, hk], by rw [← a3, ← b3, hm]⟩)
  subst this
  have := sameSet_trans (sameSet_symm hsama) hsamb
  rw [this] at hne; cases hne

theorem inv_tables_exact (st : List Slot) (os : List Occ) (hI : Inv st (fun o => o ∈ os)) :
    TablesExact os (tablesOf st) := by
  have hmap : (tablesOf st).map (·.1) = chipsOf st := by simp [tablesOf, Function.comp_def]
  refine ⟨by rw [hmap]; exact nodup_firsts _, ?_, ?_⟩
  · intro o ho
    obtain ⟨s, hs, hat, _⟩ := hI.covers o ho
    refine ⟨(s.chip, (st.filter (fun s' => s'.chip == s.chip)).map Slot.entry), ?_, hat.1.symm⟩
    simp only [tablesOf, List.mem_map]
    exact ⟨s.chip, (mem_firsts _ _).2 (List.mem_map.2 ⟨s, hs, rfl⟩), rfl⟩
  · intro ct hct
    simp only [tablesOf, List.mem_map] at hct
    obtain ⟨c, hc, rfl⟩ := hct
    have hc' := (mem_firsts _ _).1 hc
    obtain ⟨s0, hs0, hs0c⟩ := List.mem_map.1 hc'
    have hmemf : ∀ s, s ∈ st.filter (fun s' => s'.chip == c) ↔ s ∈ st ∧ s.chip = c := by
      intro s; simp [List.mem_filter]
    refine ⟨?_, ?_, ?_, ?_⟩
    · -- one entry per key and mask
      simp only [List.map_map]
      rw [List.Nodup, List.pairwise_map]
      have hp : (st.filter (fun s' => s'.chip == c)).Pairwise (fun a b => ¬ a.same b) :=
        hI.distinct.sublist List.filter_sublist
      refine hp.imp_of_mem ?_
      intro a b ha hb hab heq
      have ha' := (hmemf a).1 ha
      have hb' := (hmemf b).1 hb
      simp only [Function.comp, Slot.entry, Prod.mk.injEq] at heq
      exact hab ⟨by rw [ha'.2, hb'.2], heq.1, heq.2⟩
    · intro hnil
      have : s0.entry ∈ (st.filter (fun s' => s'.chip == c)).map Slot.entry :=
        List.mem_map.2 ⟨s0, (hmemf s0).2 ⟨hs0, hs0c⟩, rfl⟩
      simp only at hnil
      rw [hnil] at this
      simp at this
    · intro e he
      obtain ⟨s, hs, rfl⟩ := List.mem_map.1 he
      obtain ⟨hs, hsc⟩ := (hmemf s).1 hs
      have same_slot : ∀ o ∈ os, o.at c s.entry.key s.entry.mask →
          sameSet s.outs o.v.outs = true ∧ srcOf o.v.dir ∈ s.ins := by
        intro o ho hat
        obtain ⟨s', hs', hat', h1, h2⟩ := hI.covers o ho
        have : s' = s := pairwise_inj st hI.distinct s' hs' s hs (by
          obtain ⟨a1, a2, a3⟩ := hat
          obtain ⟨b1, b2, b3⟩ := hat'
          simp only [Slot.entry] at a2 a3
          exact ⟨by rw [← b1, a1, hsc], by rw [← b2, a2], by rw [← b3, a3]⟩)
        subst this
        exact ⟨h1, h2⟩
      refine ⟨?_, ?_, ?_, ?_, ?_⟩
      · obtain ⟨o, ho, hat, _⟩ := hI.fromOcc s hs
        exact ⟨o, ho, by simpa [Slot.entry, hsc] using hat⟩
      · intro r hr
        obtain ⟨o, ho, hat, hss⟩ := hI.fromOcc s hs
        exact ⟨o, ho, by simpa [Slot.entry, hsc] using hat, ((sameSet_iff _ _).1 hss r).2 hr⟩
      · intro o ho hat r hr
        exact ((sameSet_iff _ _).1 (same_slot o ho hat).1 r).2 hr
      · intro d hd
        obtain ⟨o, ho, hat, hsrc⟩ := hI.insFrom s hs d hd
        exact ⟨o, ho, by simpa [Slot.entry, hsc] using hat, hsrc⟩
      · intro o ho hat
        exact (same_slot o ho hat).2
    · intro o ho hoc
      obtain ⟨s, hs, hat, _⟩ := hI.covers o ho
      refine ⟨s.entry, List.mem_map.2 ⟨s, (hmemf s).2 ⟨hs, by rw [← hat.1]; exact hoc⟩, rfl⟩, ?_, ?_⟩
      · exact hat.2.1.symm
      · exact hat.2.2.symm

end Rig.C10
