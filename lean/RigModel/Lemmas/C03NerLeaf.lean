/-
C03 - every childless node of the forest `ner_net` builds is the source or a destination chip (each route
hung below the tree ends at its destination), and with it: `route()` without the repair (the tree touches no
dead link) returns a valid routing tree on ANY machine whose destination chips are working chips.
-/
import RigModel.Model.C03
import RigModel.Lemmas.C03NerValid
import RigModel.Lemmas.C03RepairValid
set_option linter.unusedSimpArgs false
set_option linter.unusedVariables false
namespace Rig.C03.L
open Rig.C03 Rig.Gen.C03Links Rig

/-- childless entries after hanging a chain: old childless entries other than the attachment point, or the
end of the chain -/
theorem attachChain_leaf : ∀ (path : List (Nat × Chip)) (f : Forest) (last : Chip) (f' : Forest),
    attachChain path f last = .ok f' → ∀ n', n' ∈ f' → n'.2 = [] →
      (n' ∈ f ∧ (path ≠ [] → n'.1 ≠ last)) ∨ (path ≠ [] ∧ n'.1 = C11.lastPos last path) := by
  intro path
  induction path with
  | nil =>
    intro f last f' h n' hn' _
    simp only [attachChain, pure, Except.pure, Except.ok.injEq] at h
    subst h
    exact Or.inl ⟨hn', fun h => absurd rfl h⟩
  | cons e r ih =>
    intro f last f' h n' hn' hk
    obtain ⟨d, c⟩ := e
    simp only [attachChain] at h
    split at h
    · simp at h
    · rcases ih _ _ _ h n' hn' hk with ⟨h1, h2⟩ | ⟨h1, h2⟩
      · obtain ⟨n, hn, rfl⟩ := mem_addChild.1 h1
        split at hk
        · simp at hk
        · rename_i hne
          rw [if_neg hne] at h2 ⊢
          have hne' : n.1 ≠ last := by simpa using hne
          simp only [Forest.insertNew, List.mem_append, List.mem_singleton] at hn
          rcases hn with hn | rfl
          · exact Or.inl ⟨hn, fun _ => hne'⟩
          · right
            refine ⟨by simp, ?_⟩
            rw [C11.lastPos_cons]
            cases r with
            | nil => simp [C11.lastPos]
            | cons a r' => exact absurd rfl (h2 (by simp))
      · right
        exact ⟨by simp, by rw [C11.lastPos_cons]; exact h2⟩

/-- childless entries after the truncated route has been hung below the tree -/
theorem truncAttach_leaf {route route' : Forest} {nb : Chip} {path : List (Nat × Chip)}
    (hat : attachChain ((truncateLdf route path).getD (nb, path)).2 route
      ((truncateLdf route path).getD (nb, path)).1 = .ok route') :
    ∀ n', n' ∈ route' → n'.2 = [] → n' ∈ route ∨ n'.1 = C11.lastPos nb path := by
  intro n' hn' hk
  cases htr : truncateLdf route path with
  | none =>
    rw [htr] at hat
    simp only [Option.getD] at hat
    rcases attachChain_leaf _ _ _ _ hat n' hn' hk with ⟨h, _⟩ | ⟨_, h⟩
    · exact Or.inl h
    · exact Or.inr h
  | some res =>
    obtain ⟨nb', rest⟩ := res
    rw [htr] at hat
    simp only [Option.getD] at hat
    obtain ⟨pre, d, hp, _, _⟩ := truncate_some path nb' rest htr
    rcases attachChain_leaf _ _ _ _ hat n' hn' hk with ⟨h, _⟩ | ⟨_, h⟩
    · exact Or.inl h
    · right; rw [hp, lastPos_append_cons]; exact h

theorem nerAttach_leaf {route : Forest} {w h : Nat} {nb dest : Chip} {v : V3} {t : Tape} {st' : Forest × Tape}
    (hroute : ∀ path t2, ldf v nb w h t = .ok (path, t2) → C11.lastPos nb path = dest)
    (hat : nerAttach route w h nb v t = .ok st') :
    ∀ n', n' ∈ st'.1 → n'.2 = [] → n' ∈ route ∨ n'.1 = dest := by
  unfold nerAttach at hat
  simp only [bind, Except.bind] at hat
  split at hat
  · simp at hat
  rename_i pt hldf
  obtain ⟨path, t2⟩ := pt
  have r2 := hroute path t2 hldf
  simp only at hat
  split at hat
  · simp at hat
  rename_i route' hatt
  simp only [pure, Except.pure, Except.ok.injEq] at hat
  subst hat
  simp only
  rw [← r2]
  exact truncAttach_leaf hatt

theorem nerDest_leaf {src : Chip} {w h : Nat} (hw : 1 ≤ w) (hh : 1 ≤ h) {wrap : Bool} {radius : Nat}
    {hexes : List Chip} {st st' : Forest × Tape} {rank : Chip → Nat}
    (hi : NerInv src w h wrap st.1 rank) {dest : Chip} (hd : InBox w h dest)
    (hstep : nerDest src w h wrap radius hexes st dest = .ok st') :
    ∀ n', n' ∈ st'.1 → n'.2 = [] → n' ∈ st.1 ∨ n'.1 = dest := by
  unfold nerDest at hstep
  simp only at hstep
  generalize hnbdef : ((if 3 * hexes.length < st.1.length then searchHex st.1 hexes dest w h wrap
      else searchScan st.1 dest w h wrap radius).getD src) = nb at hstep
  have hnb : nb ∈ st.1.keys := by
    rw [← hnbdef]
    split
    · cases hs : searchHex st.1 hexes dest w h wrap with
      | none => exact hi.srcKey
      | some c => exact searchHex_mem hs
    · cases hs : searchScan st.1 dest w h wrap radius with
      | none => exact hi.srcKey
      | some c => exact searchScan_mem hs
  have hnbox := hi.inbox nb hnb
  cases wrap with
  | false =>
    simp only [Bool.false_eq_true, if_false, bind, Except.bind, pure, Except.pure] at hstep
    refine nerAttach_leaf ?_ hstep
    intro path t2 hldf
    exact (Cross.mesh_route nb dest w h hw hh hnbox hd _ t2 path hldf).2.1
  | true =>
    simp only [if_true, bind, Except.bind] at hstep
    split at hstep
    · simp at hstep
    rename_i vt htp
    obtain ⟨v, t1⟩ := vt
    refine nerAttach_leaf ?_ hstep
    intro path t2 hldf
    obtain ⟨n1, n2, n3, n4⟩ := hnbox
    obtain ⟨d1, d2, d3, d4⟩ := hd
    exact (Cross.torus_route nb dest w h hw hh n1 n2 n3 n4 d1 d2 d3 d4 _ t1 t2 v path htp hldf).2.1

/-- **Every childless node of the forest `ner_net` returns is the source or a destination chip.** -/
theorem nerNet_leaf {src : Chip} {w h : Nat} (hw : 1 ≤ w) (hh : 1 ≤ h) {wrap : Bool} {radius : Nat}
    {dests : List Chip} {t t' : Tape} {f : Forest} (hs : InBox w h src) (hd : ∀ d, d ∈ dests → InBox w h d)
    (hn : nerNet src dests w h wrap radius t = .ok (f, t')) :
    ∀ n, n ∈ f → n.2 = [] → n.1 = src ∨ n.1 ∈ dests := by
  unfold nerNet at hn
  have aux : ∀ (l : List Chip) (D : List Chip) (st st' : Forest × Tape), (∀ d, d ∈ l → InBox w h d) →
      (∃ rank, NerInv src w h wrap st.1 rank) → (∀ n, n ∈ st.1 → n.2 = [] → n.1 = src ∨ n.1 ∈ D) →
      l.foldlM (nerDest src w h wrap radius (concentricHexagons radius)) st = .ok st' →
      ∀ n, n ∈ st'.1 → n.2 = [] → n.1 = src ∨ n.1 ∈ D ∨ n.1 ∈ l := by
    intro l
    induction l with
    | nil =>
      intro D st st' _ _ hl h n hn' hk
      simp only [List.foldlM, pure, Except.pure, Except.ok.injEq] at h
      subst h
      rcases hl n hn' hk with h | h
      · exact Or.inl h
      · exact Or.inr (Or.inl h)
    | cons a r ih =>
      intro D st st' hbox hi hl h n hn' hk
      simp only [List.foldlM, bind, Except.bind] at h
      split at h
      · simp at h
      rename_i s1 h1
      obtain ⟨rank, hi⟩ := hi
      obtain ⟨rank1, i1, _, _⟩ := nerDest_inv hw hh hi (hbox a (by simp)) h1
      have hl1 : ∀ n, n ∈ s1.1 → n.2 = [] → n.1 = src ∨ n.1 ∈ a :: D := by
        intro n hn1 hk1
        rcases nerDest_leaf hw hh hi (hbox a (by simp)) h1 n hn1 hk1 with h | h
        · rcases hl n h hk1 with h | h
          · exact Or.inl h
          · exact Or.inr (by simp [h])
        · exact Or.inr (by simp [h])
      rcases ih (a :: D) s1 st' (fun d hd => hbox d (by simp [hd])) ⟨rank1, i1⟩ hl1 h n hn' hk with h | h | h
      · exact Or.inl h
      · simp only [List.mem_cons] at h
        rcases h with h | h
        · exact Or.inr (Or.inr (by simp [h]))
        · exact Or.inr (Or.inl h)
      · exact Or.inr (Or.inr (by simp [h]))
  intro n hn' hk
  rcases aux _ [] _ _ (fun d hd' => hd d ((mem_sortAsc _ d dests).1 hd')) ⟨_, nerInv_init src w h wrap hs⟩
      (by intro n hn1 _; simp at hn1; subst hn1; exact Or.inl rfl) hn n hn' hk with h | h | h
  · exact Or.inl h
  · simp at h
  · exact Or.inr ((mem_sortAsc _ _ dests).1 h)

/-- **`route()` without the repair, on any machine.**  If the tree `ner_net` built touches no dead link (so the
repair is not entered), the source and the destinations are working chips, the result unfolds to a valid
routing tree. -/
theorem routeNet_unrepaired_valid (m : Machine) (src : Chip) (dests : List Chip) (radius : Nat) (t : Tape)
    (order : List (Chip × Chip)) (sinks : List Sink) (legacy : Bool) (r : Result)
    (hs : chipOk m src = true) (hd : ∀ d, d ∈ dests → chipOk m d = true)
    (h : routeNet m src dests radius t order sinks legacy = .ok r) (hr : r.repaired = false) :
    r.root = src ∧ ∃ tr, toTree r.forest r.leaves (r.forest.length + 1) r.root = some tr ∧
      ValidTree m src sinks tr := by
  have hsr : InRange m src := chipOk_inRange hs
  have hw : 1 ≤ m.w := by have := hsr.1; have := hsr.2.1; omega
  have hh : 1 ≤ m.h := by have := hsr.2.2.1; have := hsr.2.2.2; omega
  have hlinks := routeNet_links m src dests radius t order sinks legacy r h
  have hleaves := routeNet_leaves m src dests radius t order sinks legacy r h
  unfold routeNet at h
  simp only [bind, Except.bind] at h
  split at h
  · simp at h
  · rename_i ft hner
    obtain ⟨f0, t0⟩ := ft
    simp only at h
    split at h
    · -- repaired branch: contradiction with hr
      split at h
      · simp at h
      · split at h
        · simp only [pure, Except.pure] at h
          split at h
          · simp at h
          · split at h
            · simp at h
            · split at h
              · simp at h
              · simp only [Except.ok.injEq] at h
                subst h
                simp at hr
        · simp at h
    · split at h
      · simp at h
      · rename_i lv hlv
        simp only [pure, Except.pure, Except.ok.injEq] at h
        subst h
        simp only at hlinks hleaves ⊢
        refine ⟨trivial, ?_⟩
        obtain ⟨rank, hi, hall⟩ := nerNet_inv hw hh hsr (fun d hd' => chipOk_inRange (hd d hd')) hner
        have hleaf := nerNet_leaf hw hh hsr (fun d hd' => chipOk_inRange (hd d hd')) hner
        have hrk : rank src < f0.length + 1 := by have := hi.bound src hi.srcKey; omega
        obtain ⟨tr, htr, hu⟩ := toTree_unfolds hi.wf lv (f0.length + 1) src hrk
        have hkeyLive : ∀ c, c ∈ f0.keys → chipOk m c = true := by
          intro c hc
          simp only [Forest.keys, List.mem_map] at hc
          obtain ⟨n, hn, rfl⟩ := hc
          cases hk : n.2 with
          | nil =>
            rcases hleaf n hn hk with h | h
            · rw [h]; exact hs
            · exact hd _ h
          | cons k ks =>
            exact linkOk_chipOk (hlinks n hn k (by rw [hk]; simp)).2.1
        refine ⟨tr, htr, hu.chip, hu.nodup, ?_, ?_, ?_⟩
        · intro c l c' he
          obtain ⟨n, hn0, hn1, hn2⟩ := toTree_edges _ _ _ htr _ he
          simp only at hn1 hn2
          have h1 := hlinks n hn0 _ hn2
          rw [hn1] at h1
          exact ⟨h1.1, h1.2.1, hkeyLive c' (hi.kidsKeys n _ hn0 hn2), h1.2.2⟩
        · intro lf hlf
          rw [← hleaves]
          exact toTree_leaves _ _ _ htr lf hlf
        · intro lf hlf
          rw [← hleaves] at hlf
          apply hu.leavesAll lf hlf
          apply hu.cover
          apply hi.conn
          rw [hleaves] at hlf
          simp only [expectedLeaves, List.mem_flatMap, Sink.leaves, List.mem_map] at hlf
          obtain ⟨s, hs', rt, _, rfl⟩ := hlf
          exact attachSinks_keys _ _ hlv s hs'

end Rig.C03.L
