/-
C02 - completeness of the random placer and of the annealer's initial placement under the
unit-demand hypothesis (same counting argument as for the sequential placer).
-/
import RigModel.Lemmas.C02Doc
set_option linter.unusedSimpArgs false
set_option linter.unusedVariables false

namespace Rig.C02

theorem total_nil (m : Machine) (r0 : Nat) : total m [] r0 = 0 := rfl

theorem total_cons (m : Machine) (c : Chip) (t : List Chip) (r0 : Nat) :
    total m (c :: t) r0 = dem (cap m c) r0 + total m t r0 := by
  simp [total]

theorem total_erase (m : Machine) (r0 : Nat) (pick : Chip) : ∀ (locs : List Chip), pick ∈ locs →
    total m locs r0 = total m (locs.erase pick) r0 + dem (cap m pick) r0 := by
  intro locs
  induction locs with
  | nil => intro h; simp at h
  | cons c t ih =>
    intro h
    by_cases e : c = pick
    · subst e; simp only [List.erase_cons_head, total_cons]; omega
    · have hne : (c == pick) = false := by simpa using e
      simp only [List.mem_cons] at h
      rcases h with h | h
      · exact absurd h.symm e
      · rw [List.erase_cons_tail (by simpa using e), total_cons, total_cons, ih h]; omega

/-- a unit-demand vertex that does not fit needs one unit and finds none -/
theorem unit_not_fit {m : Machine} {c : Chip} {d : Res} {r0 : Nat} (hc : m.ok c = true) (hnn : NN m)
    (hu : UnitDem r0 d) (h : over (sub (cap m c) d) = true) : dem d r0 = 1 ∧ dem (cap m c) r0 = 0 := by
  have h0 := hnn c hc r0
  by_cases hfit : dem d r0 = 0 ∨ 1 ≤ dem (cap m c) r0
  · rw [fits_of_unit hc hnn hu hfit] at h; simp at h
  · rcases hu.2 with h0' | h1
    · exact absurd (Or.inl h0') hfit
    · exact ⟨h1, by omega⟩

theorem NN_set {m : Machine} {c : Chip} {r : Res} (hnn : NN m) (hr : over r = false) :
    NN { m with exc := aset m.exc c r } := by
  intro c' hc' i
  have hcap : cap { m with exc := aset m.exc c r } c' = if c = c' then r else cap m c' := by
    simp only [cap, aget_aset]; split <;> simp
  rw [hcap]; split
  · exact dem_nonneg_of_over hr i
  · exact hnn c' hc' i

theorem cap_set (m : Machine) (c : Chip) (r : Res) (c' : Chip) :
    cap { m with exc := aset m.exc c r } c' = if c = c' then r else cap m c' := by
  simp only [cap, aget_aset]; split <;> simp

/-- placing a vertex of demand `d` on a listed chip lowers the total by at most `d[r0]` -/
theorem total_place (m : Machine) (c : Chip) (d : Res) (r0 : Nat) (hd : 0 ≤ dem d r0) (chips : List Chip)
    (hnd : chips.Nodup) :
    total m chips r0 - dem d r0 ≤ total { m with exc := aset m.exc c (sub (cap m c) d) } chips r0 := by
  apply sum_update (fun c' => dem (cap m c') r0) _ c (dem d r0) hd chips hnd
  · intro c' hc'
    have e : ¬ c = c' := fun e => hc' e.symm
    simp only [cap_set, if_neg e]
  · simp only [cap_set, if_true]
    by_cases hi : r0 < (cap m c).length
    · rw [dem_sub _ _ _ hi]; omega
    · rw [dem_ge_length (sub (cap m c) d) r0 (by rw [sub_length]; omega),
        dem_ge_length (cap m c) r0 (by omega)]; omega

/-! ### random placer -/

theorem randLoop_complete (vr : VR) (r0 : Nat) :
    ∀ (picks : List Chip) (vs : List Vtx) (locs : List Chip) (m : Machine) (p : Placement) (e : Err),
      locs.Nodup → locs ≠ [] → (∀ c ∈ locs, m.ok c = true) → NN m →
      (∀ v ∈ vs, ∃ d, aget vr v = some d ∧ UnitDem r0 d) →
      needOf [] vr r0 vs ≤ total m locs r0 →
      randLoop vr picks vs locs m p = .error e → e = .badOracle := by
  intro picks
  induction picks with
  | nil =>
    intro vs locs m p e _ hne _ _ _ _ h
    cases vs with
    | nil => simp [randLoop] at h
    | cons v vs =>
      cases locs with
      | nil => exact absurd rfl hne
      | cons c t => simp [randLoop] at h; exact h.symm
  | cons pick picks ih =>
    intro vs locs m p e hnd hne hok hnn hunit hneed h
    cases vs with
    | nil => simp [randLoop] at h
    | cons v vs =>
      obtain ⟨d, hd, hu⟩ := hunit v (by simp)
      have hunit' : ∀ x ∈ vs, ∃ d, aget vr x = some d ∧ UnitDem r0 d := fun x hx => hunit x (by simp [hx])
      have hnn0 := needOf_nonneg [] vr r0 vs hunit'
      have hneed' : dem d r0 + needOf [] vr r0 vs ≤ total m locs r0 := by
        simpa [needOf, hd, aget] using hneed
      simp only [randLoop] at h
      split at h
      · rename_i hemp
        cases locs with
        | nil => exact absurd rfl hne
        | cons c t => simp at hemp
      · split at h
        · injection h with h; exact h.symm
        · rename_i hpick
          have hpick' : pick ∈ locs := by simpa using hpick
          have hokp := hok pick hpick'
          simp only [hd, get_of_ok hokp] at h
          split at h
          · rename_i hov
            obtain ⟨h1, h2⟩ := unit_not_fit hokp hnn hu hov
            have ht := total_erase m r0 pick locs hpick'
            refine ih _ _ _ _ _ (hnd.erase pick) ?_ (fun c hc => hok c (List.mem_of_mem_erase hc)) hnn hunit
              (by rw [ht] at hneed; omega) h
            intro hnil
            rw [hnil, total_nil] at ht
            omega
          · rename_i hov
            simp only [set_of_ok _ hokp] at h
            have hdn : 0 ≤ dem d r0 := by rcases hu.2 with h0 | h1 <;> omega
            have := total_place m pick d r0 hdn locs hnd
            refine ih _ _ _ _ _ hnd hne ?_ (NN_set hnn (by simpa using hov)) hunit' (by omega) h
            exact fun c hc => hok c hc

theorem needOf_filter (fixed : Placement) (vr : VR) (r0 : Nat) : ∀ (l : List Vtx),
    needOf fixed vr r0 l = needOf [] vr r0 (l.filter fun v => !(aget fixed v).isSome) := by
  intro l
  induction l with
  | nil => rfl
  | cons v t ih =>
    simp only [needOf, List.filter_cons]
    cases hx : (aget fixed v).isSome with
    | true => simp [ih]
    | false => simp [needOf, aget, ih]

/-! ### initial placement of the annealer -/

theorem advance_complete {m : Machine} {d : Res} {r0 : Nat} (hnn : NN m) (hu : UnitDem r0 d) :
    ∀ (locs : List Chip) (cur : Chip), m.ok cur = true → (∀ c ∈ locs, m.ok c = true) →
      dem d r0 ≤ total m (cur :: locs) r0 → (dem d r0 = 0 ∨ 1 ≤ total m (cur :: locs) r0) →
      ∃ c rest, advance m d cur locs = .found c rest (sub (cap m c) d) ∧
        over (sub (cap m c) d) = false ∧ m.ok c = true ∧ (∀ x ∈ rest, x ∈ locs) ∧
        (c :: rest).Sublist (cur :: locs) ∧ total m (c :: rest) r0 = total m (cur :: locs) r0 := by
  intro locs
  induction locs with
  | nil =>
    intro cur hc _ hneed _
    simp only [advance, get_of_ok hc]
    cases hov : over (sub (cap m cur) d) with
    | true =>
      obtain ⟨h1, h2⟩ := unit_not_fit hc hnn hu hov
      simp only [total_cons, total_nil] at hneed
      omega
    | false =>
      simp only [Bool.false_eq_true, if_false]
      exact ⟨cur, [], rfl, hov, hc, fun x hx => hx, List.Sublist.refl _, rfl⟩
  | cons l ls ih =>
    intro cur hc hl hneed _
    simp only [advance, get_of_ok hc]
    cases hov : over (sub (cap m cur) d) with
    | true =>
      obtain ⟨h1, h2⟩ := unit_not_fit hc hnn hu hov
      simp only [if_true]
      have ht : total m (cur :: l :: ls) r0 = total m (l :: ls) r0 := by rw [total_cons (c := cur)]; omega
      rw [ht] at hneed
      obtain ⟨c, rest, e1, e2, e3, e4, e5, e6⟩ := ih l (hl l (by simp)) (fun c hc' => hl c (by simp [hc']))
        hneed (Or.inr (by omega))
      exact ⟨c, rest, e1, e2, e3, fun x hx => List.mem_cons_of_mem _ (e4 x hx), e5.cons _, by rw [e6, ht]⟩
    | false =>
      simp only [Bool.false_eq_true, if_false]
      exact ⟨cur, l :: ls, rfl, hov, hc, fun x hx => hx, List.Sublist.refl _, rfl⟩

theorem initLoop_complete (vr : VR) (r0 : Nat) :
    ∀ (vs : List Vtx) (cur : Chip) (locs : List Chip) (m : Machine) (p : Placement),
      (cur :: locs).Nodup → m.ok cur = true → (∀ c ∈ locs, m.ok c = true) → NN m →
      (∀ v ∈ vs, ∃ d, aget vr v = some d ∧ UnitDem r0 d) →
      needOf [] vr r0 vs ≤ total m (cur :: locs) r0 →
      ∃ out, initLoop vr vs cur locs m p = .ok out := by
  intro vs
  induction vs with
  | nil => intro cur locs m p _ _ _ _ _ _; exact ⟨_, rfl⟩
  | cons v vs ih =>
    intro cur locs m p hnd hc hl hnn hunit hneed
    obtain ⟨d, hd, hu⟩ := hunit v (by simp)
    have hunit' : ∀ x ∈ vs, ∃ d, aget vr x = some d ∧ UnitDem r0 d := fun x hx => hunit x (by simp [hx])
    have hnn0 := needOf_nonneg [] vr r0 vs hunit'
    have hneed' : dem d r0 + needOf [] vr r0 vs ≤ total m (cur :: locs) r0 := by
      simpa [needOf, hd, aget] using hneed
    have hdn : 0 ≤ dem d r0 := by rcases hu.2 with h0 | h1 <;> omega
    obtain ⟨c, rest, e1, e2, e3, e4, e5, e6⟩ := advance_complete hnn hu locs cur hc hl (by omega)
      (by rcases hu.2 with h0 | h1
          · exact Or.inl h0
          · exact Or.inr (by omega))
    simp only [initLoop, hd, e1, set_of_ok _ e3]
    have hnd' : (c :: rest).Nodup := List.Nodup.sublist e5 hnd
    have := total_place m c d r0 hdn (c :: rest) hnd'
    refine ih _ _ _ _ hnd' ?_ ?_ (NN_set hnn e2) hunit' (by omega)
    · exact e3
    · exact fun x hx => hl x (e4 x hx)

/-! ### `list(machine)` has no duplicates; totals do not depend on the order -/

theorem chips_nodup (m : Machine) : m.chips.Nodup := by
  unfold Machine.chips List.Nodup
  rw [List.pairwise_flatMap]
  constructor
  · intro x _
    rw [List.pairwise_filterMap]
    apply List.Pairwise.imp _ (List.pairwise_lt_range (n := m.h))
    intro a b hab c hc c' hc'
    split at hc <;> simp at hc
    split at hc' <;> simp at hc'
    subst hc; subst hc'
    intro e; injection e with _ e; omega
  · apply List.Pairwise.imp _ (List.pairwise_lt_range (n := m.w))
    intro a b hab x hx y hy
    simp only [List.mem_filterMap] at hx hy
    obtain ⟨_, _, hx⟩ := hx
    obtain ⟨_, _, hy⟩ := hy
    split at hx <;> simp at hx
    split at hy <;> simp at hy
    subst hx; subst hy
    intro e; injection e with e _; omega

theorem total_perm (m : Machine) (r0 : Nat) {l1 l2 : List Chip} (h : l1.Perm l2) :
    total m l1 r0 = total m l2 r0 := by
  induction h with
  | nil => rfl
  | cons x _ ih => simp only [total_cons, ih]
  | swap x y l => simp only [total_cons]; omega
  | trans _ _ ih1 ih2 => rw [ih1, ih2]

/-- a duplicate-free list containing exactly the working chips carries the same total as `list(machine)` -/
theorem total_cover (m : Machine) (r0 : Nat) (l : List Chip) (hnd : l.Nodup)
    (hmem : ∀ c, c ∈ l ↔ m.ok c = true) : total m l r0 = total m m.chips r0 :=
  total_perm m r0 ((List.perm_ext_iff_of_nodup hnd (chips_nodup m)).2
    (fun c => (hmem c).trans (mem_chips_iff m c).symm))

theorem needOf_perm (fixed : Placement) (vr : VR) (r0 : Nat) {l1 l2 : List Vtx} (h : l1.Perm l2) :
    needOf fixed vr r0 l1 = needOf fixed vr r0 l2 := by
  induction h with
  | nil => rfl
  | cons x _ ih => simp only [needOf, ih]
  | swap x y l => simp only [needOf]; omega
  | trans _ _ ih1 ih2 => rw [ih1, ih2]

end Rig.C02
