/-
C01 - helper lemmas: delivery over a routing tree (`visit` vs `treeEvs`).
-/
import RigModel.Model.C01
import Mathlib.Data.List.Nodup
set_option linter.unusedSimpArgs false
set_option linter.unusedVariables false

namespace Rig.C01.L
open Rig.C01
open Rig.C03 (Chip Machine chipOk linkOk step opp Tree chipsL leafL)

/-! ### lists of sub-trees -/

theorem agreesL_mem {m : Machine} {dev T k path c} :
    ∀ {s : List (Nat × Tree)}, AgreesL m dev T k path c s → ∀ sub ∈ s,
      sub.1 < 6 ∧ linkOk m c sub.1 = true ∧ chipOk m sub.2.chip = true ∧ sub.2.chip = step m c sub.1 ∧
      (c, sub.1) ∉ dev ∧ Agrees m dev T k path sub.2
  | [], _, sub, h => by simp at h
  | (d, t) :: r, ha, sub, h => by
    simp only [AgreesL] at ha
    rcases List.mem_cons.1 h with rfl | h
    · exact ha.1
    · exact agreesL_mem ha.2 sub h

theorem chips_sub_subset : ∀ {s : List (Nat × Tree)} {sub : Nat × Tree}, sub ∈ s → ∀ x ∈ sub.2.chips, x ∈ chipsL s
  | [], _, h, _, _ => by simp at h
  | (d, t) :: r, sub, h, x, hx => by
    simp only [chipsL, List.mem_append]
    rcases List.mem_cons.1 h with rfl | h
    · exact Or.inl hx
    · exact Or.inr (chips_sub_subset h x hx)

theorem chips_sub_length : ∀ {s : List (Nat × Tree)} {sub : Nat × Tree}, sub ∈ s →
    sub.2.chips.length ≤ (chipsL s).length
  | [], _, h => by simp at h
  | (d, t) :: r, sub, h => by
    simp only [chipsL, List.length_append]
    rcases List.mem_cons.1 h with rfl | h
    · simp only; omega
    · have := chips_sub_length h; omega

theorem chips_sub_nodup : ∀ {s : List (Nat × Tree)} {sub : Nat × Tree}, sub ∈ s → (chipsL s).Nodup → sub.2.chips.Nodup
  | [], _, h, _ => by simp at h
  | (d, t) :: r, sub, h, hn => by
    simp only [chipsL] at hn
    rcases List.mem_cons.1 h with rfl | h
    · exact (List.nodup_append.1 hn).1
    · exact chips_sub_nodup h (List.nodup_append.1 hn).2.1

/-- two sub-trees that share a chip are the same child -/
theorem subs_disjoint : ∀ {s : List (Nat × Tree)} {a b : Nat × Tree} {x : Chip}, (chipsL s).Nodup →
    a ∈ s → b ∈ s → x ∈ a.2.chips → x ∈ b.2.chips → a = b
  | [], _, _, _, _, h, _, _, _ => by simp at h
  | (d, t) :: r, a, b, x, hn, ha, hb, hxa, hxb => by
    simp only [chipsL] at hn
    obtain ⟨_, hn2, hdis⟩ := List.nodup_append.1 hn
    rcases List.mem_cons.1 ha with rfl | ha <;> rcases List.mem_cons.1 hb with rfl | hb
    · rfl
    · exact absurd rfl (hdis x hxa x (chips_sub_subset hb x hxb))
    · exact absurd rfl (hdis x hxb x (chips_sub_subset ha x hxa))
    · exact subs_disjoint hn2 ha hb hxa hxb

theorem chip_mem_chips (t : Tree) : t.chip ∈ t.chips := by
  cases t with
  | node c subs lv => simp [Tree.chip, Tree.chips]

theorem mem_treeEvsL : ∀ {s : List (Nat × Tree)} {ev : Ev}, ev ∈ treeEvsL s ↔ ∃ sub ∈ s, ev ∈ treeEvs sub.2
  | [], ev => by simp [treeEvsL]
  | (d, t) :: r, ev => by
    simp only [treeEvsL, List.mem_append, List.mem_cons, exists_eq_or_imp, mem_treeEvsL (s := r)]

theorem leafEv_chip (c : Chip) (r : Nat) : (leafEv c r).chip = c := by
  unfold leafEv; split <;> rfl

theorem leafEv_not_flag (c : Chip) (r : Nat) : (leafEv c r).isFlag = false := by
  unfold leafEv; split <;> rfl

/-- every event a tree stands for happens at a chip of the tree, and is a delivery or an exit -/
theorem treeEvs_chip : ∀ (n : Nat) (t : Tree), t.chips.length ≤ n → ∀ ev ∈ treeEvs t,
    ev.chip ∈ t.chips ∧ ev.isFlag = false
  | 0, t, h, _, _ => by
    cases t with
    | node c subs lv => simp [Tree.chips] at h
  | n + 1, .node c subs lv, h, ev, hev => by
    simp only [treeEvs, List.mem_append, List.mem_map] at hev
    simp only [Tree.chips, List.mem_cons]
    rcases hev with ⟨r, _, rfl⟩ | hev
    · exact ⟨Or.inl (leafEv_chip c r), leafEv_not_flag c r⟩
    · obtain ⟨sub, hs, hev⟩ := mem_treeEvsL.1 hev
      simp only [Tree.chips, List.length_cons] at h
      have := treeEvs_chip n sub.2 (by have := chips_sub_length hs; omega) ev hev
      exact ⟨Or.inr (chips_sub_subset hs _ this.1), this.2⟩

/-! ### one chip -/

theorem mem_coreEvs {c : Chip} {r : Nat} {ev : Ev} :
    ev ∈ coreEvs c r ↔ ∃ p, p < 18 ∧ r.testBit (6 + p) = true ∧ ev = .core c p := by
  simp only [coreEvs, List.mem_map, List.mem_filter, List.mem_range]
  constructor
  · rintro ⟨p, ⟨h1, h2⟩, rfl⟩; exact ⟨p, h1, h2, rfl⟩
  · rintro ⟨p, h1, h2, rfl⟩; exact ⟨p, ⟨h1, h2⟩, rfl⟩

theorem coreEvs_nodup (c : Chip) (r : Nat) : (coreEvs c r).Nodup := by
  unfold coreEvs
  apply List.Nodup.map
  · intro a b h; cases h; rfl
  · exact List.Nodup.filter _ List.nodup_range

/-- unfolding of one step of `visit` at a chip that is not on the path and whose table matches -/
theorem visit_step {m : Machine} {dev T k f path c arr e} (hp : c ∉ path)
    (hl : Rig.C04.lookup (T c) k = some e) :
    visit m dev T k (f + 1) path c arr =
      coreEvs c e.route ++ (List.range 6).flatMap fun l =>
        if e.route.testBit l then linkEvs m dev c l (visit m dev T k f (c :: path)) else [] := by
  simp [visit, hp, routeOf, hl]

/-! ### membership: `visit` over a tree gives exactly the tree's events -/

/-- the link part at a node that agrees with the tables -/
theorem mem_links {m : Machine} {dev T k f path c} {subs : List (Nat × Tree)} {lv : List (Option Nat × Nat)}
    {e : Entry}
    (hr : ∀ b, b < 24 → (e.route.testBit b = true ↔ b ∈ nodeOuts subs lv))
    (hlv : ∀ r, r ∈ lv.filterMap (·.1) → r < 24 ∧ (r < 6 → (c, r) ∈ dev))
    (hs : AgreesL m dev T k (c :: path) c subs)
    (ih : ∀ sub ∈ subs, ∀ ev arr, ev ∈ visit m dev T k f (c :: path) sub.2.chip arr ↔ ev ∈ treeEvs sub.2)
    (l : Nat) (hl : l < 6) (ev : Ev) :
    ev ∈ (if e.route.testBit l then linkEvs m dev c l (visit m dev T k f (c :: path)) else []) ↔
      (l ∈ lv.filterMap (·.1) ∧ ev = .exit c l) ∨ (∃ sub ∈ subs, sub.1 = l ∧ ev ∈ treeEvs sub.2) := by
  have hout := hr l (by omega)
  simp only [nodeOuts, List.mem_append, List.mem_map] at hout
  by_cases hb : e.route.testBit l = true
  · rw [if_pos hb]
    rcases hout.1 hb with ⟨sub, hsub, rfl⟩ | hleaf
    · -- a hop
      obtain ⟨h6, hlk, hck, hstep, hnd, _⟩ := agreesL_mem hs sub hsub
      have hnd' : dev.contains (c, sub.1) = false := by simpa using hnd
      have hnl : sub.1 ∉ lv.filterMap (·.1) := fun h => hnd ((hlv _ h).2 h6)
      simp only [linkEvs, hnd', hlk, ← hstep, hck, Bool.and_self, if_true, Bool.false_eq_true, if_false]
      rw [ih sub hsub]
      constructor
      · intro h; exact Or.inr ⟨sub, hsub, rfl, h⟩
      · rintro (⟨h, _⟩ | ⟨sub', hsub', he, h⟩)
        · exact absurd h hnl
        · -- the same direction leads to the same chip: same child is not needed, only its events
          obtain ⟨_, hlk', hck', hstep', _, _⟩ := agreesL_mem hs sub' hsub'
          have : sub'.2.chip = sub.2.chip := by rw [hstep', hstep, he]
          rw [← ih sub hsub ev (some (opp sub.1)), ← this, ih sub' hsub']
          exact h
    · -- a device link
      have hd : dev.contains (c, l) = true := by simpa using (hlv l hleaf).2 hl
      simp only [linkEvs, hd, if_true, List.mem_singleton]
      constructor
      · intro h; exact Or.inl ⟨hleaf, h⟩
      · rintro (⟨_, h⟩ | ⟨sub, hsub, he, _⟩)
        · exact h
        · obtain ⟨_, _, _, _, hnd, _⟩ := agreesL_mem hs sub hsub
          rw [he] at hnd
          exact absurd (by simpa using hd) hnd
  · rw [if_neg hb]
    simp only [List.not_mem_nil, false_iff, not_or, not_and, not_exists]
    refine ⟨fun h _ => hb (hout.2 (Or.inr h)), fun sub hsub he _ => hb (hout.2 (Or.inl ⟨sub, hsub, he⟩))⟩

theorem leaf_core_iff {c : Chip} {lv : List (Option Nat × Nat)}
    (hlv : ∀ r, r ∈ lv.filterMap (·.1) → r < 24) (ev : Ev) :
    (∃ p, p < 18 ∧ 6 + p ∈ lv.filterMap (·.1) ∧ ev = .core c p) ∨
      (∃ l, l < 6 ∧ l ∈ lv.filterMap (·.1) ∧ ev = .exit c l) ↔
    ev ∈ (lv.filterMap (·.1)).map (leafEv c) := by
  simp only [List.mem_map]
  constructor
  · rintro (⟨p, hp, hm, rfl⟩ | ⟨l, hl, hm, rfl⟩)
    · exact ⟨6 + p, hm, by simp [leafEv]⟩
    · exact ⟨l, hm, by simp [leafEv, hl]⟩
  · rintro ⟨r, hm, rfl⟩
    by_cases h6 : r < 6
    · exact Or.inr ⟨r, h6, hm, by simp [leafEv, h6]⟩
    · refine Or.inl ⟨r - 6, by have := hlv r hm; omega, by rw [show 6 + (r - 6) = r by omega]; exact hm, by simp [leafEv, h6]⟩

/-- **membership**: at a tree whose tables agree, `visit` produces exactly the tree's events -/
theorem visit_mem {m : Machine} {dev T k} : ∀ (f : Nat) (t : Tree) (path : List Chip) (arr : Option Nat),
    Agrees m dev T k path t → t.chips.length ≤ f →
    ∀ ev, ev ∈ visit m dev T k f path t.chip arr ↔ ev ∈ treeEvs t
  | 0, .node c subs lv, _, _, _, h, _ => by simp [Tree.chips] at h
  | f + 1, .node c subs lv, path, arr, ha, hlen, ev => by
    simp only [Agrees] at ha
    obtain ⟨hp, ⟨e, hlk, hr⟩, hlv, hs⟩ := ha
    simp only [Tree.chips, List.length_cons] at hlen
    have ih : ∀ sub ∈ subs, ∀ ev arr, ev ∈ visit m dev T k f (c :: path) sub.2.chip arr ↔ ev ∈ treeEvs sub.2 := by
      intro sub hsub ev arr
      exact visit_mem f sub.2 (c :: path) arr (agreesL_mem hs sub hsub).2.2.2.2.2
        (by have := chips_sub_length hsub; omega) ev
    simp only [Tree.chip]
    rw [visit_step hp hlk]
    simp only [List.mem_append, List.mem_flatMap, List.mem_range, treeEvs, mem_treeEvsL]
    rw [← leaf_core_iff (fun r h => (hlv r h).1)]
    constructor
    · rintro (h | ⟨l, hl, h⟩)
      · obtain ⟨p, hp18, hb, rfl⟩ := mem_coreEvs.1 h
        have := (hr (6 + p) (by omega)).1 hb
        simp only [nodeOuts, List.mem_append, List.mem_map] at this
        rcases this with ⟨sub, hsub, he⟩ | h
        · have := (agreesL_mem hs sub hsub).1; omega
        · exact Or.inl (Or.inl ⟨p, hp18, h, rfl⟩)
      · rcases (mem_links hr hlv hs ih l hl ev).1 h with ⟨hm, rfl⟩ | ⟨sub, hsub, _, h⟩
        · exact Or.inl (Or.inr ⟨l, hl, hm, rfl⟩)
        · exact Or.inr ⟨sub, hsub, h⟩
    · rintro ((⟨p, hp18, hm, rfl⟩ | ⟨l, hl, hm, rfl⟩) | ⟨sub, hsub, h⟩)
      · refine Or.inl (mem_coreEvs.2 ⟨p, hp18, (hr (6 + p) (by omega)).2 ?_, rfl⟩)
        simp only [nodeOuts, List.mem_append]; exact Or.inr hm
      · exact Or.inr ⟨l, hl, (mem_links hr hlv hs ih l hl _).2 (Or.inl ⟨hm, rfl⟩)⟩
      · have h6 := (agreesL_mem hs sub hsub).1
        exact Or.inr ⟨sub.1, h6, (mem_links hr hlv hs ih sub.1 h6 ev).2 (Or.inr ⟨sub, hsub, rfl, h⟩)⟩

/-! ### exactly once: `visit` over a tree with distinct chips has no duplicate event -/

theorem visit_nodup {m : Machine} {dev T k} : ∀ (f : Nat) (t : Tree) (path : List Chip) (arr : Option Nat),
    Agrees m dev T k path t → t.chips.Nodup → t.chips.length ≤ f →
    (visit m dev T k f path t.chip arr).Nodup
  | 0, .node c subs lv, _, _, _, _, h => by simp [Tree.chips] at h
  | f + 1, .node c subs lv, path, arr, ha, hn, hlen => by
    have ha0 := ha
    simp only [Agrees] at ha
    obtain ⟨hp, ⟨e, hlk, hr⟩, hlv, hs⟩ := ha
    simp only [Tree.chips, List.length_cons] at hlen
    simp only [Tree.chips, List.nodup_cons] at hn
    obtain ⟨hc, hnL⟩ := hn
    have ih : ∀ sub ∈ subs, ∀ ev arr, ev ∈ visit m dev T k f (c :: path) sub.2.chip arr ↔ ev ∈ treeEvs sub.2 := by
      intro sub hsub ev arr
      exact visit_mem f sub.2 (c :: path) arr (agreesL_mem hs sub hsub).2.2.2.2.2
        (by have := chips_sub_length hsub; omega) ev
    -- where an event of a sub-tree happens
    have hsubchip : ∀ sub ∈ subs, ∀ ev ∈ treeEvs sub.2, ev.chip ∈ chipsL subs ∧ ev.chip ∈ sub.2.chips := by
      intro sub hsub ev hev
      have := (treeEvs_chip _ sub.2 (Nat.le_refl _) ev hev).1
      exact ⟨chips_sub_subset hsub _ this, this⟩
    simp only [Tree.chip]
    rw [visit_step hp hlk, List.nodup_append]
    refine ⟨coreEvs_nodup _ _, ?_, ?_⟩
    · rw [List.nodup_flatMap]
      refine ⟨?_, ?_⟩
      · intro l hl
        have hl6 : l < 6 := List.mem_range.1 hl
        by_cases hb : e.route.testBit l = true
        · rw [if_pos hb]
          unfold linkEvs
          split
          · simp
          · rename_i hnd
            split
            · have hout := (hr l (by omega)).1 hb
              simp only [nodeOuts, List.mem_append, List.mem_map] at hout
              rcases hout with ⟨sub, hsub, rfl⟩ | hleaf
              · obtain ⟨_, _, _, hstep, _, hag⟩ := agreesL_mem hs sub hsub
                rw [← hstep]
                exact visit_nodup f sub.2 (c :: path) _ hag (chips_sub_nodup hsub hnL)
                  (by have := chips_sub_length hsub; omega)
              · exact absurd (by simpa using (hlv l hleaf).2 hl6) hnd
            · simp
        · rw [if_neg hb]; simp
      · refine List.Pairwise.imp_of_mem ?_ (List.pairwise_lt_range (n := 6))
        intro a b ha hb hab ev hea heb
        have ha6 : a < 6 := List.mem_range.1 ha
        have hb6 : b < 6 := List.mem_range.1 hb
        rcases (mem_links hr hlv hs ih a ha6 ev).1 hea with ⟨_, rfl⟩ | ⟨sa, hsa, rfl, hta⟩ <;>
          rcases (mem_links hr hlv hs ih b hb6 _).1 heb with ⟨_, he⟩ | ⟨sb, hsb, rfl, htb⟩
        · cases he; omega
        · exact hc (hsubchip sb hsb _ htb).1
        · subst he; exact hc (hsubchip sa hsa _ hta).1
        · have := subs_disjoint hnL hsa hsb (hsubchip sa hsa _ hta).2 (hsubchip sb hsb _ htb).2
          rw [this] at hab; omega
    · intro x hx y hy hxy
      subst hxy
      obtain ⟨p, _, _, rfl⟩ := mem_coreEvs.1 hx
      obtain ⟨l, hl, hy⟩ := List.mem_flatMap.1 hy
      rcases (mem_links hr hlv hs ih l (List.mem_range.1 hl) _).1 hy with ⟨_, he⟩ | ⟨sub, hsub, _, ht⟩
      · cases he
      · exact hc (hsubchip sub hsub _ ht).1

/-- no flag: every event is a delivery or an exit -/
theorem visit_no_flag {m : Machine} {dev T k} (f : Nat) (t : Tree) (path : List Chip) (arr : Option Nat)
    (ha : Agrees m dev T k path t) (hlen : t.chips.length ≤ f) :
    flags (visit m dev T k f path t.chip arr) = [] := by
  simp only [flags, List.filter_eq_nil_iff]
  intro ev hev
  have := (treeEvs_chip _ t (Nat.le_refl _) ev ((visit_mem f t path arr ha hlen ev).1 hev)).2
  simp [this]

/-! ### congruence under per-chip RouteEquiv -/

theorem opp_eq {l : Nat} (h : l < 6) : opp l = (l + 3) % 6 := by
  have : ∀ l, l < 6 → opp l = (l + 3) % 6 := by decide
  exact this l h

/-- at a state covered by `T`, a table that is RouteEquiv applies the same route -/
theorem routeOf_congr {A B : List Entry} {k : W} {arr : Option Nat} {e : Entry}
    (heq : Rig.C04.RouteEquiv A B) (hl : Rig.C04.lookup A k = some e)
    (hs : e.sources.testBit (srcBit arr) = true) : routeOf B k arr = routeOf A k arr := by
  rcases heq k e hl with ⟨e', hl', hr, _⟩ | ⟨hl', l0, h6, hsrc, hroute⟩
  · simp [routeOf, hl, hl', hr]
  · rw [hsrc, Nat.testBit_two_pow] at hs
    have hs' : l0 = srcBit arr := by simpa using hs
    cases arr with
    | none => simp [srcBit] at hs'; omega
    | some l =>
      simp only [srcBit] at hs'
      subst hs'
      simp [routeOf, hl, hl', hroute, opp_eq h6]

theorem visit_congr {m : Machine} {dev} {T T' : Chip → List Entry} {k : W}
    (heq : ∀ c, Rig.C04.RouteEquiv (T c) (T' c)) :
    ∀ (f : Nat) (path : List Chip) (c : Chip) (arr : Option Nat), Covered m dev T k f path c arr →
      visit m dev T' k f path c arr = visit m dev T k f path c arr
  | 0, _, _, _, _ => by simp [visit]
  | f + 1, path, c, arr, hc => by
    simp only [Covered] at hc
    unfold visit
    by_cases hp : c ∈ path
    · simp [hp]
    · rcases hc with hc | ⟨e, hl, hs, hnext⟩
      · exact absurd hc hp
      · have hp' : path.contains c = false := by simpa using hp
        simp only [hp', if_false, Bool.false_eq_true]
        rw [routeOf_congr (heq c) hl hs]
        have hro : routeOf (T c) k arr = some e.route := by simp [routeOf, hl]
        simp only [hro]
        congr 1
        apply List.flatMap_congr
        intro l hl6
        have hl6 : l < 6 := List.mem_range.1 hl6
        by_cases hb : e.route.testBit l = true
        · simp only [hb, if_true]
          unfold linkEvs
          by_cases hd : (c, l) ∈ dev
          · simp [hd]
          · have hd' : dev.contains (c, l) = false := by simpa using hd
            simp only [hd', if_false, Bool.false_eq_true]
            by_cases hk : (linkOk m c l && chipOk m (step m c l)) = true
            · simp only [hk, if_true]
              have hk' := hk
              simp only [Bool.and_eq_true] at hk'
              exact visit_congr heq f (c :: path) _ _ (hnext l hl6 hb hd hk'.1 hk'.2)
            · simp [hk]
        · simp [hb]

theorem srcListedL_mem {T : Chip → List Entry} {k : W} :
    ∀ {s : List (Nat × Tree)}, SrcListedL T k s → ∀ sub ∈ s, SrcListed T k (some (opp sub.1)) sub.2
  | [], _, sub, h => by simp at h
  | (d, t) :: r, ha, sub, h => by
    simp only [SrcListedL] at ha
    rcases List.mem_cons.1 h with rfl | h
    · exact ha.1
    · exact srcListedL_mem ha.2 sub h

/-- tables that agree with a tree and list the arrival links cover every state the packet reaches -/
theorem covered_of_agrees {m : Machine} {dev T k} : ∀ (f : Nat) (t : Tree) (path : List Chip) (arr : Option Nat),
    Agrees m dev T k path t → SrcListed T k arr t → Covered m dev T k f path t.chip arr
  | 0, _, _, _, _, _ => by simp [Covered]
  | f + 1, .node c subs lv, path, arr, ha, hsl => by
    simp only [Agrees] at ha
    obtain ⟨hp, ⟨e, hlk, hr⟩, hlv, hs⟩ := ha
    simp only [SrcListed] at hsl
    simp only [Covered, Tree.chip]
    refine Or.inr ⟨e, hlk, hsl.1 e hlk, ?_⟩
    intro l hl6 hb hnd _ _
    have hout := (hr l (by omega)).1 hb
    simp only [nodeOuts, List.mem_append, List.mem_map] at hout
    rcases hout with ⟨sub, hsub, rfl⟩ | hleaf
    · obtain ⟨_, _, _, hstep, _, hag⟩ := agreesL_mem hs sub hsub
      rw [← hstep]
      exact covered_of_agrees f sub.2 (c :: path) _ hag (srcListedL_mem hsl.2 sub hsub)
    · exact absurd ((hlv l hleaf).2 hl6) hnd

end Rig.C01.L
