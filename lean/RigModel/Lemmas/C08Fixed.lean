/-
C08 helper lemmas: a successful `assign_fields` leaves every field with a position and a length.
-/
import RigModel.Lemmas.C08Inst
set_option linter.unusedSimpArgs false
set_option linter.unusedVariables false

namespace Rig.C08
open Rig.Gen.BitfieldConsts

/-- the field that `get_field(i, fv)` returns (if any) has a position and a length -/
def FixedAt (es : List Entry) (fv : Reqs) (i : Ident) : Prop :=
  ∀ e, getField es i fv = some e → e.field.isFixed = true

theorem getField_modifyFirst {pm : Entry → Bool} {f : Field → Field} {j : Ident} {fv : Reqs} :
    ∀ {es : List Entry} {y' : Entry}, getField (modifyFirst pm f es) j fv = some y' →
    ∃ y, getField es j fv = some y ∧ (y' = y ∨ y' = y.upd f) := by
  intro es
  induction es with
  | nil => intro y' h; simp [modifyFirst, getField] at h
  | cons e es ih =>
    intro y' h
    rw [modifyFirst_cons] at h
    unfold getField at h ih ⊢
    cases hm : (e.ident == j && e.enabled fv) with
    | true =>
      have hfind : List.find? (fun e => e.ident == j && e.enabled fv) (e :: es) = some e := by
        simp [List.find?_cons, hm]
      split at h
      · have : List.find? (fun e => e.ident == j && e.enabled fv) (e.upd f :: es) = some (e.upd f) := by
          simp [List.find?_cons, hm]
        rw [this] at h; cases h; exact ⟨e, hfind, Or.inr rfl⟩
      · have : List.find? (fun e => e.ident == j && e.enabled fv) (e :: modifyFirst pm f es) = some e := by
          simp [List.find?_cons, hm]
        rw [this] at h; cases h; exact ⟨e, hfind, Or.inl rfl⟩
    | false =>
      have hfind : List.find? (fun e => e.ident == j && e.enabled fv) (e :: es) =
          List.find? (fun e => e.ident == j && e.enabled fv) es := by
        simp [List.find?_cons, hm]
      rw [hfind]
      split at h
      · have : List.find? (fun e => e.ident == j && e.enabled fv) (e.upd f :: es) =
            List.find? (fun e => e.ident == j && e.enabled fv) es := by
          simp [List.find?_cons, hm]
        rw [this] at h; exact ⟨y', h, Or.inl rfl⟩
      · have : List.find? (fun e => e.ident == j && e.enabled fv) (e :: modifyFirst pm f es) =
            List.find? (fun e => e.ident == j && e.enabled fv) (modifyFirst pm f es) := by
          simp [List.find?_cons, hm]
        rw [this] at h; exact ih h

theorem getField_modifyField_self (es : List Entry) (i : Ident) (fv : Reqs) (f : Field → Field) :
    getField (modifyField es i fv f) i fv = (getField es i fv).map (Entry.upd f) := by
  unfold modifyField getField
  induction es with
  | nil => rfl
  | cons e es ih =>
    rw [modifyFirst_cons]
    cases hm : (e.ident == i && e.enabled fv) with
    | true =>
      simp only [if_true, List.find?_cons, upd_ident, upd_enabled, hm, Option.map_some]
    | false =>
      simp only [Bool.false_eq_true, if_false, List.find?_cons, hm, ih]

theorem fixedAt_modifyField_setPos {es : List Entry} {q : Reqs} {j : Ident} (i : Ident) (fv : Reqs) (len start : Nat)
    (h : FixedAt es q j) : FixedAt (modifyField es i fv (setPos len start)) q j := by
  intro y' hy'
  obtain ⟨y, hy, r⟩ := getField_modifyFirst hy'
  rcases r with rfl | rfl
  · exact h _ hy
  · rfl

theorem fixedAt_after_assignField {st st' : State} {a a' : Nat} {i : Ident} {fv : Reqs}
    (h : assignField st a i fv = .ok (st', a')) : FixedAt st'.entries fv i := by
  obtain ⟨e, start, hg, rfl, _, _⟩ := assignField_ok h
  intro y hy
  simp only [getField_modifyField_self, hg, Option.map_some, Option.some.injEq] at hy
  rw [← hy]; rfl

theorem assignLoopP_fixes (fv : Reqs) : ∀ (ids : List Ident) (st : State) (a : Nat),
    (assignLoopP true fv ids st a).2 = none → ∀ i ∈ ids, FixedAt (assignLoopP true fv ids st a).1.entries fv i := by
  intro ids
  induction ids with
  | nil => intro st a _ i hi; simp at hi
  | cons i0 is ih =>
    intro st a hnone i hi
    have mono : ∀ (st1 : State) (a1 : Nat), FixedAt st1.entries fv i0 →
        FixedAt (assignLoopP true fv is st1 a1).1.entries fv i0 := fun st1 a1 h =>
      assignLoopP_preserves (P := fun es => FixedAt es fv i0)
        (fun es i fv' len start h => fixedAt_modifyField_setPos i fv' len start h) true fv is st1 a1 h
    unfold assignLoopP at hnone ⊢
    cases hg : getField st.entries i0 fv with
    | none => simp [hg] at hnone
    | some e =>
      simp only [hg] at hnone ⊢
      split
      · rename_i hfix
        simp only [hfix, if_true] at hnone
        rcases List.mem_cons.mp hi with rfl | hi
        · refine mono st a ?_
          intro e' he'; rw [hg] at he'; cases he'; exact hfix
        · exact ih st a hnone i hi
      · rename_i hfix
        simp only [hfix, Bool.true_or, if_true] at hnone ⊢
        cases hasg : assignField st a i0 fv with
        | error err => simp [hasg] at hnone
        | ok r =>
          obtain ⟨st', a'⟩ := r
          simp only [hasg] at hnone ⊢
          rcases List.mem_cons.mp hi with rfl | hi
          · exact mono st' a' (fixedAt_after_assignField hasg)
          · exact ih st' a' hnone i hi

/-! ### the shape is the same throughout `assign_fields` -/

theorem nodeIdents_shape (es : List Entry) (p : Path) :
    nodeIdents es p = ((shape es).filter fun x => x.1 == p).map (·.2) := by
  unfold nodeIdents shape
  induction es with
  | nil => rfl
  | cons e es ih =>
    simp only [List.filter_cons, List.map_cons]
    cases h : e.path == p <;> simp [h, ih]

theorem nodeIdents_congr {es es' : List Entry} (h : shape es' = shape es) (p : Path) :
    nodeIdents es' p = nodeIdents es p := by
  rw [nodeIdents_shape, nodeIdents_shape, h]

theorem assignLoopP_shape (ap : Bool) (fv : Reqs) (ids : List Ident) (st : State) (a : Nat) :
    shape (assignLoopP ap fv ids st a).1.entries = shape st.entries :=
  assignLoopP_preserves (P := fun es => shape es = shape st.entries)
    (fun es i fv len start h => (shape_modifyField _ _ _ _).trans h) ap fv ids st a rfl

theorem assignRunP_shape (items : List (Bool × Path)) (st : State) :
    shape (assignRunP items st).1.entries = shape st.entries :=
  assignRunP_preserves (P := fun es => shape es = shape st.entries)
    (fun es i fv len start h => (shape_modifyField _ _ _ _).trans h) items st rfl

theorem assignRunP_fixes : ∀ (items : List (Bool × Path)) (st : State), (assignRunP items st).2 = none →
    ∀ p, (true, p) ∈ items → ∀ i ∈ nodeIdents st.entries p, FixedAt (assignRunP items st).1.entries p.flatten i := by
  intro items
  induction items with
  | nil => intro st _ p hp; simp at hp
  | cons it rest ih =>
    intro st hnone p hp i hi
    obtain ⟨ap, p0⟩ := it
    unfold assignRunP at hnone ⊢
    have hl1 := assignLoopP_fixes p0.flatten (nodeIdents st.entries p0) st (potentialMask st.entries p0.flatten)
    have hl2 := assignLoopP_shape ap p0.flatten (nodeIdents st.entries p0) st (potentialMask st.entries p0.flatten)
    generalize hr : assignLoopP ap p0.flatten (nodeIdents st.entries p0) st (potentialMask st.entries p0.flatten) = r
      at hnone hl2 ⊢
    obtain ⟨st1, oe⟩ := r
    cases oe with
    | some e => simp at hnone
    | none =>
      simp only at hnone hl2 ⊢
      rcases List.mem_cons.mp hp with hhead | hp
      · simp only [Prod.mk.injEq] at hhead
        obtain ⟨rfl, rfl⟩ := hhead
        rw [hr] at hl1
        exact assignRunP_preserves (P := fun es => FixedAt es p.flatten i)
          (fun es i' fv' len start h => fixedAt_modifyField_setPos i' fv' len start h) rest st1 (hl1 rfl i hi)
      · exact ih st1 hnone p hp i (by rw [nodeIdents_congr hl2]; exact hi)

/-! ### the leaf-first pass visits every node -/

theorem mem_nodePaths {es : List Entry} {q : Path} : q ∈ nodePaths es ↔ q = [] ∨ ∃ e ∈ es, e.path = q := by
  unfold nodePaths
  rw [List.mem_eraseDups, List.mem_cons, List.mem_map]

theorem le_foldl_max (ps : List Path) : ∀ (m : Nat), m ≤ ps.foldl (fun m p => max m p.length) m ∧
    ∀ q ∈ ps, q.length ≤ ps.foldl (fun m p => max m p.length) m := by
  induction ps with
  | nil => intro m; simp
  | cons p ps ih =>
    intro m
    simp only [List.foldl_cons]
    have := ih (max m p.length)
    refine ⟨by omega, ?_⟩
    intro q hq
    rcases List.mem_cons.mp hq with rfl | hq
    · omega
    · exact this.2 q hq

theorem le_maxDepth {ps : List Path} {q : Path} (h : q ∈ ps) : q.length ≤ maxDepth ps := (le_foldl_max ps 0).2 q h

/-- every prefix of a node path is a node path -/
theorem nodePaths_prefixClosed {es : List Entry} (hs : Struct es) {q : Path} (hq : q ∈ nodePaths es) (n : Nat) :
    q.take n ∈ nodePaths es := by
  by_cases hn : n < q.length
  · rcases mem_nodePaths.mp hq with rfl | ⟨e, he, rfl⟩
    · simp at hn
    · have := hs (e.path, e.ident) (mem_shape.mpr ⟨e, he, rfl, rfl⟩) n hn
      obtain ⟨hne, hk⟩ := this
      cases hkn : e.path[n] with
      | nil => exact absurd hkn hne
      | cons iv rest =>
        obtain ⟨y, hy, hyp, _⟩ := mem_shape.mp (hk iv (by rw [hkn]; exact List.mem_cons_self))
        exact mem_nodePaths.mpr (Or.inr ⟨y, hy, hyp⟩)
  · rw [List.take_of_length_le (by omega)]; exact hq

theorem postOrder_covers {ps : List Path} (hc : ∀ q ∈ ps, ∀ n, q.take n ∈ ps) :
    ∀ (fuel : Nat) (p q : Path), q ∈ ps → p <+: q → q.length ≤ p.length + fuel → q ∈ postOrder ps fuel p := by
  intro fuel
  induction fuel with
  | zero =>
    intro p q _ hpq hlen
    have : p = q := hpq.eq_of_length (by have := hpq.length_le; omega)
    simp [postOrder, this]
  | succ fuel ih =>
    intro p q hq hpq hlen
    unfold postOrder
    rw [List.mem_append]
    by_cases heq : q.length = p.length
    · right; simp [hpq.eq_of_length heq.symm]
    · left
      have hlt : p.length < q.length := by have := hpq.length_le; omega
      rw [List.mem_flatMap]
      refine ⟨q.take (p.length + 1), ?_, ?_⟩
      · rw [List.mem_filter]
        refine ⟨hc q hq _, ?_⟩
        simp only [Bool.and_eq_true, beq_iff_eq, List.length_take, List.isPrefixOf_iff_prefix]
        refine ⟨by omega, ?_⟩
        rw [List.prefix_take_iff]
        exact ⟨hpq, by omega⟩
      · refine ih _ q hq (List.take_prefix _ _) ?_
        simp only [List.length_take]; omega

/-- **a successful `assign_fields` leaves every field with a position and a length** -/
theorem allFixed_of_assign {st st' : State} (hinv : Inv st) (hs : Struct st.entries)
    (h : assignFields st = .ok st') : AllFixed st'.entries := by
  unfold assignFields at h
  generalize hr : assignFieldsP st = r at h
  obtain ⟨st1, oe⟩ := r
  cases oe with
  | some e => simp at h
  | none =>
    simp only [Except.ok.injEq] at h
    subst h
    have hst1 : st1 = (assignFieldsP st).1 := by rw [hr]
    have hnone : (assignFieldsP st).2 = none := by rw [hr]
    have hinv1 : Inv st1 := hst1 ▸ (assignFieldsP_inv hinv).1
    have hshape : shape st1.entries = shape st.entries := hst1 ▸ assignRunP_shape _ st
    intro e he
    obtain ⟨x, hx, hxp, hxi⟩ := exists_of_shape_eq hshape he
    have hnode : e.path ∈ nodePaths st.entries := mem_nodePaths.mpr (Or.inr ⟨x, hx, hxp⟩)
    have hitem : (true, e.path) ∈ assignItems st.entries := by
      unfold assignItems
      simp only [List.mem_append, List.mem_map, Prod.mk.injEq, Bool.false_eq_true, false_and, and_false,
        exists_false, false_or, true_and, exists_eq_right]
      refine postOrder_covers (fun q hq n => nodePaths_prefixClosed hs hq n) _ [] e.path hnode
        (List.nil_prefix) ?_
      have := le_maxDepth hnode
      simp only [List.length_nil]; omega
    have hident : e.ident ∈ nodeIdents st.entries e.path := by
      simp only [nodeIdents, List.mem_map, List.mem_filter, beq_iff_eq]
      exact ⟨x, ⟨hx, hxp⟩, hxi⟩
    have hfix := assignRunP_fixes (assignItems st.entries) st hnone e.path hitem e.ident hident
    rw [show (assignRunP (assignItems st.entries) st).1 = st1 from hst1.symm] at hfix
    -- the field that get_field finds for e's own name and requirements is e
    have hsc := hinv1.selfc e he
    cases hg : getField st1.entries e.ident e.reqs with
    | none =>
      unfold getField at hg
      rw [List.find?_eq_none] at hg
      have := hg e he
      simp [enabled_self hsc] at this
    | some e' =>
      obtain ⟨h1, h2, h3⟩ := getField_some hg
      have := reqs_of_enabled_same_ident hinv1.unique h1 he hsc h2 h3
      subst this
      exact hfix _ hg

end Rig.C08
