/-
C08 helper lemmas: bit masks as sets of bit positions (`Nat.testBit`).
-/
import RigModel.Model.C08
set_option linter.unusedSimpArgs false
set_option linter.unusedVariables false

namespace Rig.C08

theorem testBit_rangeMask (l s i : Nat) :
    (rangeMask l s).testBit i = (decide (s ≤ i) && decide (i < s + l)) := by
  unfold rangeMask
  rw [Nat.testBit_shiftLeft, Nat.one_shiftLeft, Nat.testBit_two_pow_sub_one]
  by_cases h : s ≤ i
  · have : (i - s < l) ↔ (i < s + l) := by omega
    simp [h, this]
  · simp [h]

theorem and_eq_zero_iff (a b : Nat) : a &&& b = 0 ↔ ∀ i, ¬ (a.testBit i = true ∧ b.testBit i = true) := by
  constructor
  · intro h i ⟨ha, hb⟩
    have := congrArg (fun x => x.testBit i) h
    simp [Nat.testBit_and, ha, hb] at this
  · intro h
    apply Nat.eq_of_testBit_eq
    intro i
    have := h i
    rw [Nat.testBit_and, Nat.zero_testBit]
    cases ha : a.testBit i <;> cases hb : b.testBit i <;> simp_all

theorem testBit_foldl_or {α : Type} (g : α → Nat) (l : List α) (a i : Nat) :
    (l.foldl (fun m e => m ||| g e) a).testBit i = (a.testBit i || l.any fun e => (g e).testBit i) := by
  induction l generalizing a with
  | nil => simp
  | cons x xs ih => simp [List.foldl_cons, ih, Nat.testBit_or, Bool.or_assoc]

/-- non-overlap of masks = disjointness of ranges (for non-empty ranges) -/
theorem rangeMask_and_eq_zero (l s l' s' : Nat) (hl : 1 ≤ l) (hl' : 1 ≤ l') :
    rangeMask l s &&& rangeMask l' s' = 0 ↔ Disjoint s l s' l' := by
  rw [and_eq_zero_iff]
  simp only [testBit_rangeMask, Bool.and_eq_true, decide_eq_true_eq, Disjoint]
  constructor
  · intro h
    by_cases h1 : s + l ≤ s'
    · exact Or.inl h1
    · by_cases h2 : s' + l' ≤ s
      · exact Or.inr h2
      · exfalso
        exact h (max s s') ⟨⟨by omega, by omega⟩, ⟨by omega, by omega⟩⟩
  · intro h i ⟨⟨a, b⟩, ⟨c, d⟩⟩
    omega

end Rig.C08
