/-
C14 - the `sysinfo_ok` oracle (the predicate the harness evaluates on the implementation's output)
accepts the model's output and accepts only descriptions that are exact up to order.
-/
import RigModel.Lemmas.C14j
namespace Rig.C14
open Rig.Gen.C14
set_option linter.unusedSimpArgs false
set_option linter.unusedVariables false

theorem mem_listedCoords (m : MachineState) (xy : Nat × Nat) : xy ∈ listedCoords m ↔ m.listed xy = true := by
  obtain ⟨x, y⟩ := xy
  simp only [listedCoords, List.mem_flatMap, List.mem_filterMap, List.mem_range]
  constructor
  · rintro ⟨x', hx, y', hy, h⟩
    by_cases hl : m.listed (x', y') = true
    · simp only [hl, if_true, Option.some.injEq, Prod.mk.injEq] at h
      obtain ⟨rfl, rfl⟩ := h
      exact hl
    · simp [hl] at h
  · intro hl
    have hb := hl
    simp only [MachineState.listed, Bool.and_eq_true, decide_eq_true_eq] at hb
    exact ⟨x, hb.1.1, y, hb.1.2, by simp [hl]⟩

theorem maxList_nil_of (l : List Nat) (h : ∀ a, a ∉ l) : maxList l = 0 := by
  cases l with
  | nil => rfl
  | cons a t => exact absurd (List.mem_cons_self) (h a)

theorem maxList_congr (l1 l2 : List Nat) (h : ∀ a, a ∈ l1 ↔ a ∈ l2) : maxList l1 = maxList l2 := by
  by_cases h1 : l1 = []
  · subst h1
    rw [maxList_nil_of l2 (fun a ha => by have := (h a).2 ha; cases this)]
    rfl
  · have h2 : l2 ≠ [] := by
      intro h2; subst h2
      cases l1 with
      | nil => exact h1 rfl
      | cons a t => have := (h a).1 List.mem_cons_self; cases this
    have a1 := maxList_ge l2 _ ((h _).1 (maxList_mem l1 h1))
    have a2 := maxList_ge l1 _ ((h _).2 (maxList_mem l2 h2))
    omega

theorem listed_xs (m : MachineState) :
    maxList ((listedCoords m).map (·.1)) = maxList ((liveEntries m.table).map (·.1.1)) := by
  apply maxList_congr
  intro a
  simp only [List.mem_map, mem_listedCoords, liveEntries, List.mem_filter, bne_iff_ne, ne_eq]
  constructor
  · rintro ⟨xy, hl, rfl⟩
    obtain ⟨r, hmem, hne⟩ := (listed_iff m xy).1 hl
    exact ⟨(xy, r), ⟨hmem, hne⟩, rfl⟩
  · rintro ⟨e, ⟨hmem, hne⟩, rfl⟩
    exact ⟨e.1, (listed_iff m e.1).2 ⟨e.2, hmem, hne⟩, rfl⟩

theorem listed_ys (m : MachineState) :
    maxList ((listedCoords m).map (·.2)) = maxList ((liveEntries m.table).map (·.1.2)) := by
  apply maxList_congr
  intro a
  simp only [List.mem_map, mem_listedCoords, liveEntries, List.mem_filter, bne_iff_ne, ne_eq]
  constructor
  · rintro ⟨xy, hl, rfl⟩
    obtain ⟨r, hmem, hne⟩ := (listed_iff m xy).1 hl
    exact ⟨(xy, r), ⟨hmem, hne⟩, rfl⟩
  · rintro ⟨e, ⟨hmem, hne⟩, rfl⟩
    exact ⟨e.1, (listed_iff m e.1).2 ⟨e.2, hmem, hne⟩, rfl⟩

/-- what the oracle's six conjuncts say -/
theorem sysinfoOk_iff (m : MachineState) (si : SysInfo) :
    sysinfoOk m si = true ↔
      si.width = maxList ((listedCoords m).map (·.1)) + 1 ∧
      si.height = maxList ((listedCoords m).map (·.2)) + 1 ∧
      (si.chips.map (·.1)).Nodup ∧
      (∀ xy ∈ si.chips.map (·.1), m.listed xy = true ∧ (m.chips.lookup xy).isSome = true) ∧
      (∀ xy ∈ listedCoords m, (m.chips.lookup xy).isSome = true → xy ∈ si.chips.map (·.1)) ∧
      (∀ e ∈ si.chips, (m.chips.lookup e.1).map chipView = some e.2) := by
  simp only [sysinfoOk, Bool.and_eq_true, beq_iff_eq, decide_eq_true_eq, List.all_eq_true, List.contains_iff_mem,
    and_assoc]

/-- **the oracle accepts only exact descriptions** (up to the order of the records) -/
theorem sysinfoOk_complete (m : MachineState) (si : SysInfo) (h : sysinfoOk m si = true) :
    si.width = maxList ((listedCoords m).map (·.1)) + 1 ∧
    si.height = maxList ((listedCoords m).map (·.2)) + 1 ∧
    (si.chips.map (·.1)).Nodup ∧
    (∀ xy ci, (xy, ci) ∈ si.chips ↔
      ∃ st, m.listed xy = true ∧ m.chips.lookup xy = some st ∧ ci = chipView st) := by
  obtain ⟨hw, hh, hnd, hk, hlst, hrec⟩ := (sysinfoOk_iff m si).1 h
  refine ⟨hw, hh, hnd, ?_⟩
  intro xy ci
  constructor
  · intro hmem
    have h1 := hk xy (List.mem_map.2 ⟨(xy, ci), hmem, rfl⟩)
    have h2 := hrec (xy, ci) hmem
    simp only at h2
    cases hst : m.chips.lookup xy with
    | none => rw [hst] at h2; cases h2
    | some st =>
      rw [hst] at h2
      simp only [Option.map_some, Option.some.injEq] at h2
      exact ⟨st, h1.1, rfl, h2.symm⟩
  · rintro ⟨st, h1, h2, rfl⟩
    have hm := hlst xy ((mem_listedCoords m xy).2 h1) (by rw [h2]; rfl)
    obtain ⟨e, he, hxy⟩ := List.mem_map.1 hm
    have h3 := hrec e he
    rw [hxy, h2] at h3
    simp only [Option.map_some, Option.some.injEq] at h3
    obtain ⟨k, v⟩ := e
    simp only at hxy h3
    subst hxy; subst h3
    exact he

/-- **the oracle accepts what the model of `get_system_info` returns on the specification** -/
theorem sysinfoOk_sound (m : MachineState) (hl : ∃ xy, m.listed xy = true) : sysinfoOk m m.sysInfo = true := by
  rw [sysinfoOk_iff]
  have hWF := sysInfo_WF m hl
  refine ⟨by rw [listed_xs]; rfl, by rw [listed_ys]; rfl, hWF.1, ?_, ?_, ?_⟩
  · intro xy hxy
    obtain ⟨e, he, rfl⟩ := List.mem_map.1 hxy
    obtain ⟨st, h1, h2, _⟩ := (mem_sysInfo m e.1 e.2).1 he
    exact ⟨h1, by rw [h2]; rfl⟩
  · intro xy hxy hsome
    cases hst : m.chips.lookup xy with
    | none => rw [hst] at hsome; cases hsome
    | some st =>
      exact List.mem_map.2 ⟨(xy, chipView st),
        (mem_sysInfo m xy _).2 ⟨st, (mem_listedCoords m xy).1 hxy, hst, rfl⟩, rfl⟩
  · intro e he
    obtain ⟨st, _, h2, h3⟩ := (mem_sysInfo m e.1 e.2).1 he
    rw [h2, h3]; rfl

end Rig.C14
