import RigModel.Model.C18
namespace Rig.C18
end Rig.C18
