/-
C18 - commands go to the chip, core and application the caller named.
Property theorems about the model of rig/utils/contexts.py and the controllers'
connection choice.  All statements are generic in the method signature, the call
shape, the context stack and the program, unless they name a generated signature.
-/
import RigModel.Lemmas.C18
set_option linter.unusedSimpArgs false
set_option linter.unusedVariables false

namespace Rig.C18
open Rig.Gen.Signatures

/-! ## the generated signature table -/

/-- every decorated method of both controllers is well-formed for the decorator:
first parameter `self`, no repeated names, keyword-only names distinct from the
parameters, keyword-only defaults only on methods taking `**kwargs` -/
theorem signatures_wellformed : ∀ s ∈ sigs, s.wf = true := by decide

/-- every decorated method has a wire rule in the model (`application` sends nothing itself) -/
theorem every_method_has_rule :
    ∀ s ∈ sigs, s.name = "application" ∨ (bodyOf s.cls s.name).length > 0 := by decide

/-! ## precedence: explicit > innermost context that sets it > default -/

/-- **Precedence.**  The value the wrapper hands on for name `n` is: the explicit
keyword argument if there is one; else, for a name that may still be set (a
parameter after the positional prefix, or a keyword-only argument), the value of
the innermost context that sets it; else its default (`Required` for parameters
without one); names that may not be set are never introduced by a context. -/
theorem precedence (s : Sig) (nPos : Nat) (kwargs : Dict) (stack : List Dict) (n : String) :
    dget (newKwargs s nPos kwargs stack) n =
      (match dgetLast kwargs n with
       | some v => some v
       | none =>
         match dget (baseKwargs s nPos) n with
         | none => none
         | some dflt =>
           match ctxLookup stack n with
           | some v => some v
           | none => some dflt) := by
  unfold newKwargs
  rw [dget_dupdate, dget_applyCtx]
  cases dgetLast kwargs n with
  | some v => rfl
  | none =>
    simp only
    cases dget (baseKwargs s nPos) n with
    | none => rfl
    | some d =>
      simp only
      rw [dgetLast_eq_dget _ (by
        induction stack with
        | nil => simp [merged, keys]
        | cons c o ih => exact nodup_dupdate c _ ih), dget_merged]
      cases ctxLookup stack n <;> rfl

/-- the same for the dictionary of an accepted call, with plain lookups when the
caller's keyword arguments are a Python dict (no repeated keys) -/
theorem precedence_accepted (s : Sig) (nPos : Nat) (kwargs : Dict) (stack : List Dict) (r : Dict)
    (hk : (keys kwargs).Nodup) (h : resolve s nPos kwargs stack = .ok r) (n : String) :
    dget r n =
      (match dget kwargs n with
       | some v => some v
       | none =>
         match dget (baseKwargs s nPos) n with
         | none => none
         | some dflt =>
           match ctxLookup stack n with
           | some v => some v
           | none => some dflt) := by
  have hr : r = newKwargs s nPos kwargs stack := by
    unfold resolve at h
    split at h
    · cases h
    · cases h; rfl
  rw [hr, precedence, dgetLast_eq_dget _ hk]

/-- `ctxLookup` is "the innermost context that sets it": contexts newer than `c`
that do not set `n` are skipped, older ones are not consulted (stack newest-first) -/
theorem ctxLookup_innermost (newer older : List Dict) (c : Dict) (n : String) (v : Val)
    (hn : ∀ d ∈ newer, dgetLast d n = none) (hc : dgetLast c n = some v) :
    ctxLookup (newer ++ c :: older) n = some v := by
  induction newer with
  | nil => simp [ctxLookup, hc]
  | cons d t ih =>
    have h1 : dgetLast d n = none := hn d (by simp)
    simp only [List.cons_append, ctxLookup, h1]
    exact ih (fun e he => hn e (by simp [he]))

theorem ctxLookup_none (stack : List Dict) (n : String) (h : ∀ d ∈ stack, dgetLast d n = none) :
    ctxLookup stack n = none := by
  induction stack with
  | nil => rfl
  | cons d t ih =>
    simp only [ctxLookup, h d (by simp)]
    exact ih (fun e he => h e (by simp [he]))

/-- the default of a parameter that may still be set is the one the code zips it with
(the source default, or `Required` from the padding) -/
theorem default_param (s : Sig) (hwf : s.wf = true) (nPos : Nat) (n : String) (d : Val)
    (h : (n, d) ∈ (s.argNames.drop (1 + nPos)).zip ((paddedDefaults s).drop (1 + nPos))) :
    dget (baseKwargs s nPos) n = some d := by
  obtain ⟨hn, hk, hdisj⟩ := wf_parts s hwf
  have hmem : n ∈ s.argNames := by
    have := keys_zip_subset _ _ n (List.mem_map.mpr ⟨(n, d), h, rfl⟩)
    exact List.mem_of_mem_drop this
  have hnk : n ∉ keys s.kwOnly := fun hc => hdisj n hc hmem
  have hz : (keys ((s.argNames.drop (1 + nPos)).zip ((paddedDefaults s).drop (1 + nPos)))).Nodup :=
    nodup_keys_zip _ _ (List.Nodup.sublist (List.drop_sublist _ _) hn)
  unfold baseKwargs dictOf
  rw [dget_dupdate, dgetLast_none_of_not_mem _ _ hnk]
  simp only
  rw [dget_dupdate, dgetLast_eq_dget _ hz, dget_of_mem _ hz _ _ h]

/-- the default of a keyword-only argument is the decorator's -/
theorem default_kwonly (s : Sig) (hwf : s.wf = true) (nPos : Nat) (k : String) (d : Val)
    (h : (k, d) ∈ s.kwOnly) : dget (baseKwargs s nPos) k = some d := by
  obtain ⟨hn, hk, hdisj⟩ := wf_parts s hwf
  unfold baseKwargs
  rw [dget_dupdate, dgetLast_eq_dget _ hk, dget_of_mem _ hk _ _ h]


/-- **Passing styles agree.**  For a name that may still be set and is not given
otherwise, passing `v` as an explicit keyword argument and setting it in the
innermost enclosing context hand the same value to the method. -/
theorem passing_styles_agree (s : Sig) (nPos : Nat) (kw : Dict) (stack : List Dict) (n : String) (v d : Val)
    (hkw : dgetLast kw n = none) (hb : dget (baseKwargs s nPos) n = some d) :
    dget (newKwargs s nPos ((n, v) :: kw) stack) n = some v ∧
    dget (newKwargs s nPos kw ([(n, v)] :: stack)) n = some v := by
  constructor
  · rw [precedence]; simp [dgetLast, hkw]
  · rw [precedence]; simp [dgetLast, hkw, hb, ctxLookup]

/-! ## required arguments -/

/-- **Rejected.**  A call is rejected with `TypeError` exactly when some argument is
still the `Required` sentinel after explicit values, contexts and defaults. -/
theorem required_rejected (s : Sig) (nPos : Nat) (kwargs : Dict) (stack : List Dict) :
    (∃ k, (k, Val.required) ∈ newKwargs s nPos kwargs stack) ↔
    (∃ k, resolve s nPos kwargs stack = .error (.missing k)) := by
  unfold resolve
  constructor
  · intro ⟨k, hk⟩
    cases hf : firstRequired (newKwargs s nPos kwargs stack) with
    | some k' => exact ⟨k', rfl⟩
    | none => exact absurd rfl ((firstRequired_none _).mp hf (k, Val.required) hk)
  · intro ⟨k, hk⟩
    cases hf : firstRequired (newKwargs s nPos kwargs stack) with
    | some k' => exact ⟨k', firstRequired_some _ _ hf⟩
    | none => simp [hf] at hk

/-- the name reported is one whose value really is `Required` -/
theorem rejected_names_required (s : Sig) (nPos : Nat) (kwargs : Dict) (stack : List Dict) (k : String)
    (h : resolve s nPos kwargs stack = .error (.missing k)) :
    dget (newKwargs s nPos kwargs stack) k = some Val.required := by
  unfold resolve at h
  cases hf : firstRequired (newKwargs s nPos kwargs stack) with
  | some k' =>
    simp only [hf, Except.error.injEq, Err.missing.injEq] at h
    subst h
    exact dget_of_mem _ (nodup_newKwargs s nPos kwargs stack) _ _ (firstRequired_some _ _ hf)
  | none => simp [hf] at h

/-- **Accepted.**  An accepted call hands `f` exactly the precedence dictionary and
no argument of it is the sentinel. -/
theorem accepted_complete (s : Sig) (nPos : Nat) (kwargs : Dict) (stack : List Dict) (r : Dict)
    (h : resolve s nPos kwargs stack = .ok r) :
    r = newKwargs s nPos kwargs stack ∧ ∀ n, dget r n ≠ some Val.required := by
  unfold resolve at h
  cases hf : firstRequired (newKwargs s nPos kwargs stack) with
  | some k' => simp [hf] at h
  | none =>
    simp only [hf, Except.ok.injEq] at h
    subst h
    refine ⟨rfl, fun n hn => ?_⟩
    exact (firstRequired_none _).mp hf (n, Val.required) (mem_of_dget _ _ _ hn) rfl

/-- **Before anything is sent.**  A rejected call produces no datagram pattern at
all: the result of the call carries nothing that may be sent. -/
theorem rejected_sends_nothing (E : Env) (m : String) (pos : List Val) (kw : Dict) (stack : List Dict)
    (s : Sig) (e : Err) (hs : findSig E.sigs E.cls m = some s)
    (hr : resolve s pos.length kw stack = .error e) :
    callRes E m pos kw stack = .rejected e := by
  simp [callRes, hs, hr]

/-! ## leaving a block restores the arguments in force before it

The stack of `ContextMixin` holds context OBJECTS.  An object may be kept and entered again - while
it is already active (`a = mc(x=1); with a: with mc(x=2): with a: ...`), or later, after it was
left - by plain blocks and by application blocks alike; the theorems below make no assumption about
which objects are entered: `o` may occur in `s`. -/

/-- **Restore (the stack of context objects).**  After `with o: body` - for EVERY object `o`, fresh,
already active (anywhere in `s`, any number of times) or used before; for every body (any nesting,
further entries of `o` or of any other object, updates, calls, failing method bodies) and every
sequence `cb` of `before_close` callbacks (which may themselves call methods, enter blocks, update
the context or raise); whether the body ends normally or raises at any depth; whether the stop signal
of an application object fails - the stack of active contexts is exactly the stack before: the
block removed its own entry, the NEWEST one, and nothing else. -/
theorem restore (E : Env) (h : Heap) (s : List Nat) (id o : Nat) (sf : Bool) (body cb : Prog) :
    (exec E h s (.enter id o sf body cb .done)).stack = s := exec_stack E _ h s

/-- the same for `with c(**ctx): body` (a fresh object per `with`) -/
theorem restore_block (E : Env) (h : Heap) (s : List Nat) (id : Nat) (ctx : Dict) (body cb : Prog) :
    (exec E h s (Prog.block id ctx body cb .done)).stack = s := exec_stack E _ h s

/-- and for `with mc.application(..): body`, also when the application call is rejected -/
theorem restore_application (E : Env) (h : Heap) (s : List Nat) (id : Nat) (pos : List Val) (kw : Dict)
    (stopFails : Bool) (body cb : Prog) :
    (exec E h s (Prog.app id pos kw stopFails body cb .done)).stack = s := exec_stack E _ h s

/-- for whole programs (arbitrary well-bracketed enter/exit histories with repeated objects): the
stack of active objects never changes across a statement sequence, and an object that is neither
created nor updated (`update_current_context` while it is on top) keeps its arguments -/
theorem restore_inner (E : Env) (p : Prog) (h : Heap) (s : List Nat) :
    (exec E h s p).stack = s ∧
    (∀ i, i ∉ (exec E h s p).touched → hget (exec E h s p).heap i = hget h i) :=
  ⟨exec_stack E p h s, exec_heap E p h s⟩

/-- **Restore (the arguments in force).**  `get_context_arguments()` after the block is what it was
before it, provided no object that was active before the block was updated during it.  (Without the
proviso the statement is false, for the code as for the model: `update_current_context` inside a
re-entered block changes the one object that is also active further down - that is what the caller
asked for.)  `touched_subset` bounds the updated objects statically: only objects the block names,
each only where it is on top. -/
theorem restore_arguments (E : Env) (h : Heap) (s : List Nat) (id o : Nat) (sf : Bool) (body cb : Prog)
    (hd : ∀ i ∈ (exec E h s (.enter id o sf body cb .done)).touched, i ∉ s) :
    inForce (exec E h s (.enter id o sf body cb .done)).heap (exec E h s (.enter id o sf body cb .done)).stack =
      inForce h s := by
  unfold inForce
  rw [exec_stack, exec_inForce E _ h s s hd]

/-- a block that contains no `update_current_context` and creates no object restores the arguments,
whatever it enters and however often -/
theorem restore_arguments_static (E : Env) (h : Heap) (s : List Nat) (p : Prog)
    (hn : ∀ i ∈ s, i ∉ oidsOf p) (hu : noTopUpdate p = true) :
    inForce (exec E h s p).heap (exec E h s p).stack = inForce h s := by
  unfold inForce
  rw [exec_stack, exec_inForce E _ h s s]
  intro i hi his
  rcases touched_subset E p h s i hi with h1 | h1
  · exact hn i his h1
  · rw [hu] at h1; cases h1.1

/-- the exact event list of `with o: body`: enter; the body in the context with `o` pushed; (for an
application object) the stop signal resolved at that point; the callbacks unless the stop signal
raised; the exit, recording the arguments in force before and after; the rest unless something raised -/
theorem enter_events (E : Env) (h : Heap) (s : List Nat) (id o : Nat) (sf : Bool) (body cb next : Prog)
    (ob : Obj) (ho : hget h o = some ob) :
    ∃ B C N : Res, ∃ stop : Option CallRes,
      B = exec E h (o :: s) body ∧
      stop = (if ob.stop then some (callRes E "send_signal" [.other "'stop'"] [] (frames B.heap (o :: s))) else none) ∧
      C = orElse (match stop with | some r => r.isRejected || sf | none => false) B.heap (o :: s)
            (exec E B.heap (o :: s) cb) ∧
      N = orElse (B.raised || C.raised) C.heap s (exec E C.heap s next) ∧
      (exec E h s (.enter id o sf body cb next)).evs =
        Ev.enter id (inForce h (o :: s)) ::
          (B.evs ++ C.evs ++ [Ev.exit id stop (inForce h s) (inForce C.heap s)]) ++ N.evs ∧
      (exec E h s (.enter id o sf body cb next)).raised = N.raised := by
  have hb := exec_stack E body h (o :: s)
  have hc : ∀ sk, (orElse sk (exec E h (o :: s) body).heap (o :: s)
      (exec E (exec E h (o :: s) body).heap (o :: s) cb)).stack = o :: s := by
    intro sk; exact orElse_stack _ _ _ _ (exec_stack E cb _ _)
  refine ⟨_, _, _, _, rfl, rfl, rfl, rfl, ?_, ?_⟩
  · simp only [exec, ho, hb, hc, List.tail_cons] <;> rfl
  · simp only [exec, ho, hb, hc, List.tail_cons] <;> rfl

/-- **Callbacks.**  For a plain context object: the callbacks run after the body on every exit path,
inside the context (so a decorated method called from a callback resolves its arguments against the
context that is being closed), and an exception thrown by the body or by a callback propagates -
after the context has been removed all the same. -/
theorem block_events (E : Env) (h : Heap) (s : List Nat) (id o : Nat) (body cb next : Prog)
    (ob : Obj) (ho : hget h o = some ob) (hplain : ob.stop = false) :
    (exec E h s (.enter id o false body cb next)).evs =
      Ev.enter id (inForce h (o :: s)) ::
        ((exec E h (o :: s) body).evs ++ (exec E (exec E h (o :: s) body).heap (o :: s) cb).evs ++
          [Ev.exit id none (inForce h s) (inForce (exec E (exec E h (o :: s) body).heap (o :: s) cb).heap s)]) ++
        (orElse ((exec E h (o :: s) body).raised || (exec E (exec E h (o :: s) body).heap (o :: s) cb).raised)
          (exec E (exec E h (o :: s) body).heap (o :: s) cb).heap s
          (exec E (exec E (exec E h (o :: s) body).heap (o :: s) cb).heap s next)).evs ∧
    (((exec E h (o :: s) body).raised || (exec E (exec E h (o :: s) body).heap (o :: s) cb).raised) = true →
      (exec E h s (.enter id o false body cb next)).raised = true ∧
      (exec E h s (.enter id o false body cb next)).stack = s) := by
  have hb := exec_stack E body h (o :: s)
  have hcs := exec_stack E cb (exec E h (o :: s) body).heap (o :: s)
  constructor
  · simp only [exec, ho, hplain, hb, orElse, Bool.false_eq_true, if_false, hcs, List.tail_cons]
  · intro hr
    refine ⟨?_, exec_stack E _ h s⟩
    simp only [exec, ho, hplain, hb, orElse, Bool.false_eq_true, if_false, hcs, List.tail_cons, hr, if_true]

/-- a method body that raises after resolution (SCP error, failed allocation, ...) inside a block
leaves, like any exception: what it has sent stays in the event list, the rest of the body is
skipped and the block removes its entry -/
theorem failing_call_unwinds (E : Env) (h : Heap) (s : List Nat) (id o cid : Nat) (m : String)
    (pos : List Val) (kw : Dict) (rest cb : Prog) (ob : Obj) (ho : hget h o = some ob) :
    (exec E h s (.enter id o false (.call cid m pos kw false true rest) cb .done)).stack = s ∧
    (exec E h s (.enter id o false (.call cid m pos kw false true rest) cb .done)).raised = true ∧
    ∃ post, (exec E h s (.enter id o false (.call cid m pos kw false true rest) cb .done)).evs =
      Ev.enter id (inForce h (o :: s)) :: Ev.call cid (callRes E m pos kw (frames h (o :: s))) :: post := by
  refine ⟨exec_stack E _ h s, ?_, ?_⟩
  · simp [exec, ho, orElse]
  · simp [exec, ho, orElse]

/-! ## leaving an application block stops that application -/

private theorem nodup_merged (stack : List Dict) : (keys (merged stack)).Nodup := by
  induction stack with
  | nil => simp [merged, keys]
  | cons c o ih => exact nodup_dupdate c _ ih

private theorem stop_kwargs (a : Val) (s : List Dict) :
    newKwargs mc_send_signal 1 [] ([("app_id", a)] :: s) = [("app_id", a)] := by
  have hb : baseKwargs mc_send_signal 1 = [("app_id", Val.required)] := by decide
  unfold newKwargs
  rw [hb]
  simp only [dupdate]
  have hk := keys_applyCtx (merged ([("app_id", a)] :: s)) [("app_id", Val.required)]
  have hg := dget_applyCtx (merged ([("app_id", a)] :: s)) [("app_id", Val.required)] "app_id"
  rw [dgetLast_eq_dget _ (nodup_merged _), dget_merged] at hg
  simp only [ctxLookup, dgetLast, dget, if_true] at hg
  generalize applyCtx [("app_id", Val.required)] (merged ([("app_id", a)] :: s)) = l at hk hg
  match l, hk, hg with
  | [(k, w)], hk, hg =>
    simp only [keys, List.map_cons, List.map_nil, List.cons.injEq, and_true] at hk
    subst hk
    simp only [dget, if_true, Option.some.injEq] at hg
    subst hg
    rfl
  | [], hk, _ => simp [keys] at hk
  | _ :: _ :: _, hk, _ => simp [keys] at hk

/-- the callback `self.send_signal("stop")` run inside a context whose newest entry
is `{app_id: a}` is accepted and may only send the signal to application `a`
(destination (255, 255, 0)) -/
theorem stop_targets_application (E : Env) (hs : E.sigs = sigs) (hc : E.cls = "MachineController")
    (a : Val) (ha : a ≠ Val.required) (s : List Dict) :
    callRes E "send_signal" [Val.other "'stop'"] [] ([("app_id", a)] :: s) =
      .sent [("app_id", a)] [⟨.scp, .int 255, .int 255, .int 0, some a⟩] := by
  have hf : findSig sigs "MachineController" "send_signal" = some mc_send_signal := by decide
  have hr : resolve mc_send_signal 1 [] ([("app_id", a)] :: s) = .ok [("app_id", a)] := by
    unfold resolve
    rw [stop_kwargs]
    simp [firstRequired, ha]
  have hb : bind mc_send_signal [Val.other "'stop'"] [("app_id", a)] =
      .ok [("signal", Val.other "'stop'"), ("app_id", a)] := by
    simp [bind, mc_send_signal]
  have hw : wire sigs "MachineController" wireFuel "send_signal"
      [("signal", Val.other "'stop'"), ("app_id", a)] ([("app_id", a)] :: s) =
      [⟨.scp, .int 255, .int 255, .int 0, some a⟩] := by
    have hbd : bodyOf "MachineController" "send_signal" =
        [.scp (.lit (.int 255)) (.lit (.int 255)) (.lit (.int 0)) (some (.ref "app_id"))] := by rfl
    simp [wire, wireB, wireFuel, hbd, evalEx, lookupV, dget]
  simp only [callRes, hs, hc, hf, List.length_singleton, hr, hb, hw]
  simp

/-- **Application objects.**  Leaving `with o: body` where `o` was made by `mc.application(a)` - a
fresh object, one that is already active further down (`app30 / application(31) / app30`) or one
used before; normally, by exception, at any nesting - emits, inside the block, before any callback
the user registered runs and before the entry is removed, the stop signal resolved to the object's
application id `a`, provided the body does not itself update or re-create `o`. -/
theorem application_stops_object (E : Env) (hs : E.sigs = sigs) (hc : E.cls = "MachineController")
    (h : Heap) (s : List Nat) (id o : Nat) (stopFails : Bool) (body cb next : Prog) (a : Val)
    (ho : hget h o = some ⟨[("app_id", a)], true⟩) (hreq : a ≠ Val.required)
    (hbody : o ∉ (exec E h (o :: s) body).touched) :
    ∃ pre post aft,
      (exec E h s (.enter id o stopFails body cb next)).evs =
        pre ++ Ev.exit id (some (.sent [("app_id", a)] [⟨.scp, .int 255, .int 255, .int 0, some a⟩]))
          (inForce h s) aft :: post := by
  obtain ⟨B, C, N, stop, hB, hstop, hC, hN, hev, _⟩ := enter_events E h s id o stopFails body cb next _ ho
  have hargs : argsOf B.heap o = [("app_id", a)] := by
    rw [hB]; unfold argsOf; rw [exec_heap E body h (o :: s) o hbody, ho]
  have hst : stop = some (.sent [("app_id", a)] [⟨.scp, .int 255, .int 255, .int 0, some a⟩]) := by
    rw [hstop]
    simp only [if_true]
    have : frames B.heap (o :: s) = [("app_id", a)] :: frames B.heap s := by simp [frames, hargs]
    rw [this, stop_targets_application E hs hc a hreq]
  rw [hev, hst]
  exact ⟨Ev.enter id (inForce h (o :: s)) :: (B.evs ++ C.evs), N.evs, inForce C.heap s, by simp⟩

/-- an accepted `o = mc.application(..)` creates the object `{app_id: a}` with the stop callback -/
theorem newApp_creates (E : Env) (hs : E.sigs = sigs) (hc : E.cls = "MachineController")
    (h : Heap) (s : List Nat) (id o : Nat) (pos : List Val) (kw : Dict) (next : Prog) (bound : Dict) (a : Val)
    (hacc : (resolve mc_application pos.length kw (frames h s) >>= bind mc_application pos) = .ok bound)
    (ha : dget bound "app_id" = some a) :
    (exec E h s (.newApp id o pos kw next)).evs = (exec E (hset h o ⟨[("app_id", a)], true⟩) s next).evs ∧
    (exec E h s (.newApp id o pos kw next)).touched = o :: (exec E (hset h o ⟨[("app_id", a)], true⟩) s next).touched := by
  have hf : findSig sigs "MachineController" "application" = some mc_application := by decide
  simp only [exec, hs, hc, hf, hacc, ha, Option.getD_some, and_self]

/-- **Application blocks.**  `with mc.application(..): body`: the exit of the block carries the stop
signal for the application id `a` the call resolved (provided the body does not itself re-assign
`app_id` of the block's own context with `update_current_context`) -/
theorem application_stops (E : Env) (hs : E.sigs = sigs) (hc : E.cls = "MachineController")
    (h : Heap) (s : List Nat) (id : Nat) (pos : List Val) (kw : Dict) (stopFails : Bool) (body cb next : Prog)
    (bound : Dict) (a : Val)
    (hacc : (resolve mc_application pos.length kw (frames h s) >>= bind mc_application pos) = .ok bound)
    (ha : dget bound "app_id" = some a) (hreq : a ≠ Val.required)
    (hbody : noTopUpdate body = true) (hfresh : sugarOid id ∉ oidsOf body) :
    ∃ pre post bef aft,
      (exec E h s (Prog.app id pos kw stopFails body cb next)).evs =
        pre ++ Ev.exit id (some (.sent [("app_id", a)] [⟨.scp, .int 255, .int 255, .int 0, some a⟩]))
          bef aft :: post := by
  unfold Prog.app
  rw [(newApp_creates E hs hc h s id (sugarOid id) pos kw _ bound a hacc ha).1]
  have hnt : sugarOid id ∉ (exec E (hset h (sugarOid id) ⟨[("app_id", a)], true⟩) (sugarOid id :: s) body).touched := by
    intro hi
    rcases touched_subset E body _ _ _ hi with h1 | h1
    · exact hfresh h1
    · rw [hbody] at h1; cases h1.1
  obtain ⟨pre, post, aft, hev⟩ := application_stops_object E hs hc (hset h (sugarOid id) ⟨[("app_id", a)], true⟩) s id
    (sugarOid id) stopFails body cb next a (by simp [hget_hset]) hreq hnt
  exact ⟨pre, post, _, aft, hev⟩

/-- the events of an application object's block, exactly: enter; the body; the stop signal for the
object's application, resolved in the block's context BEFORE any user callback runs; the user's
callbacks `cb` (skipped if the stop signal raised); exit; then the rest of the program unless the
body, the stop signal or a callback raised -/
theorem application_events (E : Env) (hs : E.sigs = sigs) (hc : E.cls = "MachineController")
    (h : Heap) (s : List Nat) (id o : Nat) (stopFails : Bool) (body cb next : Prog) (a : Val)
    (ho : hget h o = some ⟨[("app_id", a)], true⟩) (hreq : a ≠ Val.required)
    (hbody : o ∉ (exec E h (o :: s) body).touched) :
    ∃ B C N : Res,
      B = exec E h (o :: s) body ∧
      C = orElse stopFails B.heap (o :: s) (exec E B.heap (o :: s) cb) ∧
      N = orElse (B.raised || C.raised) C.heap s (exec E C.heap s next) ∧
      (exec E h s (.enter id o stopFails body cb next)).evs =
        Ev.enter id (inForce h (o :: s)) ::
          (B.evs ++ C.evs ++
            [Ev.exit id (some (.sent [("app_id", a)] [⟨.scp, .int 255, .int 255, .int 0, some a⟩]))
              (inForce h s) (inForce C.heap s)]) ++ N.evs := by
  obtain ⟨B, C, N, stop, hB, hstop, hC, hN, hev, _⟩ := enter_events E h s id o stopFails body cb next _ ho
  have hargs : argsOf B.heap o = [("app_id", a)] := by
    rw [hB]; unfold argsOf; rw [exec_heap E body h (o :: s) o hbody, ho]
  have hst : stop = some (.sent [("app_id", a)] [⟨.scp, .int 255, .int 255, .int 0, some a⟩]) := by
    rw [hstop]
    simp only [if_true]
    have : frames B.heap (o :: s) = [("app_id", a)] :: frames B.heap s := by simp [frames, hargs]
    rw [this, stop_targets_application E hs hc a hreq]
  subst hst
  simp only [CallRes.isRejected, Bool.false_or] at hC
  exact ⟨B, C, N, hB, hC, hN, hev⟩

private theorem nested_shape (e1 x1 x2 : Ev) (pre2 post2 C X : List Ev) :
    e1 :: ((pre2 ++ x2 :: post2) ++ C ++ [x1]) ++ X =
      (e1 :: pre2) ++ x2 :: ((post2 ++ C) ++ x1 :: X) := by simp

/-- **Nested application blocks.**  `with mc.application(a): with mc.application(b): body` (the inner
block followed by any further statements `next2` of the outer body, any callbacks, any exit path of
`body`): the inner block's exit carries the stop signal for `b`; later, the outer block's exit
carries the stop signal for `a`. -/
theorem nested_applications_stop_inner_first (E : Env) (hs : E.sigs = sigs) (hc : E.cls = "MachineController")
    (h : Heap) (s : List Nat) (id1 id2 : Nat) (pos1 pos2 : List Val) (kw1 kw2 : Dict) (sf1 sf2 : Bool)
    (body cb1 cb2 next1 next2 : Prog) (bound1 bound2 : Dict) (a b : Val)
    (hacc1 : (resolve mc_application pos1.length kw1 (frames h s) >>= bind mc_application pos1) = .ok bound1)
    (ha : dget bound1 "app_id" = some a) (hreqa : a ≠ Val.required)
    (hacc2 : (resolve mc_application pos2.length kw2
        (frames (hset h (sugarOid id1) ⟨[("app_id", a)], true⟩) (sugarOid id1 :: s)) >>= bind mc_application pos2) = .ok bound2)
    (hb : dget bound2 "app_id" = some b) (hreqb : b ≠ Val.required)
    (hbody : noTopUpdate body = true) (hnext2 : noTopUpdate next2 = true)
    (hne : id1 ≠ id2) (hf1 : sugarOid id1 ∉ oidsOf body ++ oidsOf cb2 ++ oidsOf next2)
    (hf2 : sugarOid id2 ∉ oidsOf body) :
    ∃ pre mid post b1 a1 b2 a2,
      (exec E h s (Prog.app id1 pos1 kw1 sf1 (Prog.app id2 pos2 kw2 sf2 body cb2 next2) cb1 next1)).evs =
        pre ++ Ev.exit id2 (some (.sent [("app_id", b)] [⟨.scp, .int 255, .int 255, .int 0, some b⟩])) b1 a1 ::
        (mid ++ Ev.exit id1 (some (.sent [("app_id", a)] [⟨.scp, .int 255, .int 255, .int 0, some a⟩])) b2 a2 ::
          post) := by
  have hso : sugarOid id1 ≠ sugarOid id2 := by unfold sugarOid; omega
  have hinner := application_stops E hs hc (hset h (sugarOid id1) ⟨[("app_id", a)], true⟩) (sugarOid id1 :: s)
    id2 pos2 kw2 sf2 body cb2 next2 bound2 b hacc2 hb hreqb hbody hf2
  obtain ⟨pre2, post2, b1, a1, hin⟩ := hinner
  have hnt : sugarOid id1 ∉ (exec E (hset h (sugarOid id1) ⟨[("app_id", a)], true⟩) (sugarOid id1 :: s)
      (Prog.app id2 pos2 kw2 sf2 body cb2 next2)).touched := by
    intro hi
    rcases touched_subset E _ _ _ _ hi with h1 | h1
    · simp only [Prog.app, oidsOf, List.mem_cons, List.mem_append] at h1
      simp only [List.mem_append] at hf1
      rcases h1 with h1 | h1 | (h1 | h1) | h1
      · exact hso h1
      · exact hso h1
      · exact hf1 (Or.inl (Or.inl h1))
      · exact hf1 (Or.inl (Or.inr h1))
      · exact hf1 (Or.inr h1)
    · simp only [Prog.app, noTopUpdate, hnext2] at h1; cases h1.1
  obtain ⟨B, C, N, hB, hC, hN, hev⟩ := application_events E hs hc (hset h (sugarOid id1) ⟨[("app_id", a)], true⟩) s id1
    (sugarOid id1) sf1 (Prog.app id2 pos2 kw2 sf2 body cb2 next2) cb1 next1 a (by simp [hget_hset]) hreqa hnt
  unfold Prog.app at hev ⊢
  rw [(newApp_creates E hs hc h s id1 (sugarOid id1) pos1 kw1 _ bound1 a hacc1 ha).1, hev, hB]
  rw [hin]
  exact ⟨_, _, _, b1, a1, _, _, nested_shape _ _ _ _ _ _ _⟩

/-! ## connection choice -/

/-- **Connection (MachineController).**  When the machine's size and root chip are
known and a connection to the target's local Ethernet chip has been discovered,
that connection is used; in every other case the initial connection is. -/
theorem connection_choice_mc (c : McCfg) (x y : Int) :
    (∀ w h rx ry, c.dims = some (w, h) → c.root = some (rx, ry) →
        localEth x y w h rx ry ∈ c.conns →
        getConnection c x y = some (localEth x y w h rx ry)) ∧
    (∀ e, getConnection c x y = some e →
        e ∈ c.conns ∧
        ∃ w h rx ry, c.dims = some (w, h) ∧ c.root = some (rx, ry) ∧ e = localEth x y w h rx ry) ∧
    ((c.dims = none ∨ c.root = none) → getConnection c x y = none) := by
  refine ⟨?_, ?_, ?_⟩
  · intro w h rx ry hd hr hc
    simp [getConnection, hd, hr, hc]
  · intro e he
    unfold getConnection at he
    split at he
    · rename_i w h rx ry hd hr
      split at he
      · rename_i hc
        cases he
        exact ⟨by simpa using hc, w, h, rx, ry, hd, hr, rfl⟩
      · cases he
    · cases he
  · intro h
    unfold getConnection
    split
    · rename_i w h' rx ry hd hr
      rcases h with h | h <;> simp_all
    · rfl

/-- **Connection (BMPController).**  The board's own connection if there is one, else
its frame's, else the command is refused (nothing is sent). -/
theorem connection_choice_bmp (conns : List (List Int)) (c f b : Int) :
    ([c, f, b] ∈ conns → bmpConnection conns c f b = .ok [c, f, b]) ∧
    ([c, f, b] ∉ conns → [c, f] ∈ conns → bmpConnection conns c f b = .ok [c, f]) ∧
    ([c, f, b] ∉ conns → [c, f] ∉ conns → bmpConnection conns c f b = .error .noConnection) := by
  refine ⟨?_, ?_, ?_⟩ <;> intros <;> simp_all [bmpConnection]

/-! ## the dimensions stored by `discover_connections` -/

theorem le_maxOf (l : List Nat) (a : Nat) (h : a ∈ l) : a ≤ maxOf l := by
  induction l with
  | nil => simp at h
  | cons b t ih =>
    simp only [List.mem_cons] at h
    simp only [maxOf]
    rcases h with h | h
    · subst h; exact Nat.le_max_left _ _
    · exact Nat.le_trans (ih h) (Nat.le_max_right _ _)

theorem maxOf_mem (l : List Nat) (h : l ≠ []) : maxOf l ∈ l := by
  induction l with
  | nil => exact absurd rfl h
  | cons b t ih =>
    simp only [maxOf]
    cases t with
    | nil => simp [maxOf]
    | cons c u =>
      have := ih (by simp)
      by_cases hb : maxOf (c :: u) ≤ b
      · rw [Nat.max_eq_left hb]; simp
      · rw [Nat.max_eq_right (by omega)]; exact List.mem_cons_of_mem _ this

/-- **Dimensions.**  The width and height `discover_connections` stores cover every chip the P2P
table has a route to, and are tight in each direction separately: some working chip lies in the last
column and some - possibly another one - in the last row.  (So dead chips in the top right corner
shrink neither dimension as long as their column and their row have a working chip elsewhere.) -/
theorem discoveredDims_covers (ws : List (Nat × Nat)) (w h : Nat) (hd : discoveredDims ws = some (w, h)) :
    (∀ c ∈ ws, c.1 < w ∧ c.2 < h) ∧ (∃ c ∈ ws, c.1 + 1 = w) ∧ (∃ c ∈ ws, c.2 + 1 = h) := by
  unfold discoveredDims at hd
  split at hd
  · cases hd
  · rename_i hne
    simp only [Option.some.injEq, Prod.mk.injEq] at hd
    obtain ⟨hw, hh⟩ := hd
    have hne' : ws ≠ [] := by intro e; simp [e] at hne
    refine ⟨fun c hc => ⟨?_, ?_⟩, ?_, ?_⟩
    · have := le_maxOf (ws.map (·.1)) c.1 (List.mem_map.mpr ⟨c, hc, rfl⟩); omega
    · have := le_maxOf (ws.map (·.2)) c.2 (List.mem_map.mpr ⟨c, hc, rfl⟩); omega
    · obtain ⟨c, hc, he⟩ := List.mem_map.mp (maxOf_mem (ws.map (·.1)) (by simpa using hne'))
      exact ⟨c, hc, by omega⟩
    · obtain ⟨c, hc, he⟩ := List.mem_map.mp (maxOf_mem (ws.map (·.2)) (by simpa using hne'))
      exact ⟨c, hc, by omega⟩

/-- a machine whose only dead chip is the top right corner keeps both dimensions; with the whole top
row dead the height shrinks -/
example : discoveredDims (workingChips 4 3 [(3, 2)]) = some (4, 3) := by decide
example : discoveredDims (workingChips 3 3 [(0, 2), (1, 2), (2, 2)]) = some (3, 2) := by decide

/-! ## non-vacuity / worked instances on the generated signatures -/

/-- `with mc(x=9, y=2): with mc(p=3): mc.read(0x100, 4, x=1)` under the initial context -/
example :
    resolve mc_read 2 [("x", .int 1)]
      [[("p", .int 3)], [("x", .int 9), ("y", .int 2)], [("app_id", .int 66)]] =
    .ok [("x", .int 1), ("y", .int 2), ("p", .int 3)] := by rfl

/-- the same call outside any block lacks `y` -/
example : resolve mc_read 2 [("x", .int 1)] [[("app_id", .int 66)]] = .error (.missing "y") := by rfl

/-- hypotheses of `application_stops` are satisfiable: `with mc.application(54): ...` -/
example : (resolve mc_application 1 [] [[("app_id", .int 66)]] >>= bind mc_application [.int 54]) =
    .ok [("app_id", .int 54)] := by rfl

/-- a block left by exception inside a block: the stack is the one before -/
example :
    (exec ⟨sigs, "MachineController", []⟩ [(0, ⟨[("app_id", .int 66)], false⟩)] [0]
      (Prog.block 1 [("x", .int 1)] (.update [("y", .int 5)] (Prog.block 2 [("x", .int 2)] .raise .done .done)) .raise .done)).stack =
    [0] := by rfl

/-- the same context object active twice: `a = mc(x=1, y=1); with a: with mc(x=2, y=2): with a: pass`
followed by `mc.sdram_free(ptr)`: the command after the inner block goes to chip (2, 2) - the
arguments in force before the inner block - and the exit event of the inner block says so -/
example :
    ((exec ⟨sigs, "MachineController", []⟩ [(0, ⟨[("app_id", .int 66)], false⟩)] [0]
      (.new 7 [("x", .int 1), ("y", .int 1)]
        (.enter 1 7 false
          (Prog.block 2 [("x", .int 2), ("y", .int 2)]
            (.enter 3 7 false .done .done
              (.call 4 "sdram_free" [.int 4096] [] true false .done)) .done .done) .done .done))).evs.filterMap
      fun e => match e with
        | .call _ (.sent kw _) => some kw
        | .exit 3 _ bef aft => some (if bef == aft then aft else [])
        | _ => none) =
    [[("app_id", .int 66), ("x", .int 2), ("y", .int 2)], [("x", .int 2), ("y", .int 2)]] := by decide

end Rig.C18
