/-
C18 - commands go to the chip, core and application the caller named.
Property theorems about the model of rig/utils/contexts.py and the controllers'
connection choice.  All statements are generic in the method signature, the call
shape, the context stack and the program, unless they name a generated signature.
-/
import RigModel.Lemmas.C18
set_option linter.unusedSimpArgs false
set_option linter.unusedVariables false

namespace Rig.C18
open Rig.Gen.Signatures

/-! ## the generated signature table -/

/-- every decorated method of both controllers is well-formed for the decorator:
first parameter `self`, no repeated names, keyword-only names distinct from the
parameters, keyword-only defaults only on methods taking `**kwargs` -/
theorem signatures_wellformed : ∀ s ∈ sigs, s.wf = true := by decide

/-- every decorated method has a wire rule in the model (`application` sends nothing itself) -/
theorem every_method_has_rule :
    ∀ s ∈ sigs, s.name = "application" ∨ (bodyOf s.cls s.name).length > 0 := by decide

/-! ## precedence: explicit > innermost context that sets it > default -/

/-- **Precedence.**  The value the wrapper hands on for name `n` is: the explicit
keyword argument if there is one; else, for a name that may still be set (a
parameter after the positional prefix, or a keyword-only argument), the value of
the innermost context that sets it; else its default (`Required` for parameters
without one); names that may not be set are never introduced by a context. -/
theorem precedence (s : Sig) (nPos : Nat) (kwargs : Dict) (stack : List Dict) (n : String) :
    dget (newKwargs s nPos kwargs stack) n =
      (match dgetLast kwargs n with
       | some v => some v
       | none =>
         match dget (baseKwargs s nPos) n with
         | none => none
         | some dflt =>
           match ctxLookup stack n with
           | some v => some v
           | none => some dflt) := by
  unfold newKwargs
  rw [dget_dupdate, dget_applyCtx]
  cases dgetLast kwargs n with
  | some v => rfl
  | none =>
    simp only
    cases dget (baseKwargs s nPos) n with
    | none => rfl
    | some d =>
      simp only
      rw [dgetLast_eq_dget _ (by
        induction stack with
        | nil => simp [merged, keys]
        | cons c o ih => exact nodup_dupdate c _ ih), dget_merged]
      cases ctxLookup stack n <;> rfl

/-- the same for the dictionary of an accepted call, with plain lookups when the
caller's keyword arguments are a Python dict (no repeated keys) -/
theorem precedence_accepted (s : Sig) (nPos : Nat) (kwargs : Dict) (stack : List Dict) (r : Dict)
    (hk : (keys kwargs).Nodup) (h : resolve s nPos kwargs stack = .ok r) (n : String) :
    dget r n =
      (match dget kwargs n with
       | some v => some v
       | none =>
         match dget (baseKwargs s nPos) n with
         | none => none
         | some dflt =>
           match ctxLookup stack n with
           | some v => some v
           | none => some dflt) := by
  have hr : r = newKwargs s nPos kwargs stack := by
    unfold resolve at h
    split at h
    · cases h
    · cases h; rfl
  rw [hr, precedence, dgetLast_eq_dget _ hk]

/-- `ctxLookup` is "the innermost context that sets it": contexts newer than `c`
that do not set `n` are skipped, older ones are not consulted (stack newest-first) -/
theorem ctxLookup_innermost (newer older : List Dict) (c : Dict) (n : String) (v : Val)
    (hn : ∀ d ∈ newer, dgetLast d n = none) (hc : dgetLast c n = some v) :
    ctxLookup (newer ++ c :: older) n = some v := by
  induction newer with
  | nil => simp [ctxLookup, hc]
  | cons d t ih =>
    have h1 : dgetLast d n = none := hn d (by simp)
    simp only [List.cons_append, ctxLookup, h1]
    exact ih (fun e he => hn e (by simp [he]))

theorem ctxLookup_none (stack : List Dict) (n : String) (h : ∀ d ∈ stack, dgetLast d n = none) :
    ctxLookup stack n = none := by
  induction stack with
  | nil => rfl
  | cons d t ih =>
    simp only [ctxLookup, h d (by simp)]
    exact ih (fun e he => h e (by simp [he]))

/-- the default of a parameter that may still be set is the one the code zips it with
(the source default, or `Required` from the padding) -/
theorem default_param (s : Sig) (hwf : s.wf = true) (nPos : Nat) (n : String) (d : Val)
    (h : (n, d) ∈ (s.argNames.drop (1 + nPos)).zip ((paddedDefaults s).drop (1 + nPos))) :
    dget (baseKwargs s nPos) n = some d := by
  obtain ⟨hn, hk, hdisj⟩ := wf_parts s hwf
  have hmem : n ∈ s.argNames := by
    have := keys_zip_subset _ _ n (List.mem_map.mpr ⟨(n, d), h, rfl⟩)
    exact List.mem_of_mem_drop this
  have hnk : n ∉ keys s.kwOnly := fun hc => hdisj n hc hmem
  have hz : (keys ((s.argNames.drop (1 + nPos)).zip ((paddedDefaults s).drop (1 + nPos)))).Nodup :=
    nodup_keys_zip _ _ (List.Nodup.sublist (List.drop_sublist _ _) hn)
  unfold baseKwargs dictOf
  rw [dget_dupdate, dgetLast_none_of_not_mem _ _ hnk]
  simp only
  rw [dget_dupdate, dgetLast_eq_dget _ hz, dget_of_mem _ hz _ _ h]

/-- the default of a keyword-only argument is the decorator's -/
theorem default_kwonly (s : Sig) (hwf : s.wf = true) (nPos : Nat) (k : String) (d : Val)
    (h : (k, d) ∈ s.kwOnly) : dget (baseKwargs s nPos) k = some d := by
  obtain ⟨hn, hk, hdisj⟩ := wf_parts s hwf
  unfold baseKwargs
  rw [dget_dupdate, dgetLast_eq_dget _ hk, dget_of_mem _ hk _ _ h]


/-- **Passing styles agree.**  For a name that may still be set and is not given
otherwise, passing `v` as an explicit keyword argument and setting it in the
innermost enclosing context hand the same value to the method. -/
theorem passing_styles_agree (s : Sig) (nPos : Nat) (kw : Dict) (stack : List Dict) (n : String) (v d : Val)
    (hkw : dgetLast kw n = none) (hb : dget (baseKwargs s nPos) n = some d) :
    dget (newKwargs s nPos ((n, v) :: kw) stack) n = some v ∧
    dget (newKwargs s nPos kw ([(n, v)] :: stack)) n = some v := by
  constructor
  · rw [precedence]; simp [dgetLast, hkw]
  · rw [precedence]; simp [dgetLast, hkw, hb, ctxLookup]

/-! ## required arguments -/

/-- **Rejected.**  A call is rejected with `TypeError` exactly when some argument is
still the `Required` sentinel after explicit values, contexts and defaults. -/
theorem required_rejected (s : Sig) (nPos : Nat) (kwargs : Dict) (stack : List Dict) :
    (∃ k, (k, Val.required) ∈ newKwargs s nPos kwargs stack) ↔
    (∃ k, resolve s nPos kwargs stack = .error (.missing k)) := by
  unfold resolve
  constructor
  · intro ⟨k, hk⟩
    cases hf : firstRequired (newKwargs s nPos kwargs stack) with
    | some k' => exact ⟨k', rfl⟩
    | none => exact absurd rfl ((firstRequired_none _).mp hf (k, Val.required) hk)
  · intro ⟨k, hk⟩
    cases hf : firstRequired (newKwargs s nPos kwargs stack) with
    | some k' => exact ⟨k', firstRequired_some _ _ hf⟩
    | none => simp [hf] at hk

/-- the name reported is one whose value really is `Required` -/
theorem rejected_names_required (s : Sig) (nPos : Nat) (kwargs : Dict) (stack : List Dict) (k : String)
    (h : resolve s nPos kwargs stack = .error (.missing k)) :
    dget (newKwargs s nPos kwargs stack) k = some Val.required := by
  unfold resolve at h
  cases hf : firstRequired (newKwargs s nPos kwargs stack) with
  | some k' =>
    simp only [hf, Except.error.injEq, Err.missing.injEq] at h
    subst h
    exact dget_of_mem _ (nodup_newKwargs s nPos kwargs stack) _ _ (firstRequired_some _ _ hf)
  | none => simp [hf] at h

/-- **Accepted.**  An accepted call hands `f` exactly the precedence dictionary and
no argument of it is the sentinel. -/
theorem accepted_complete (s : Sig) (nPos : Nat) (kwargs : Dict) (stack : List Dict) (r : Dict)
    (h : resolve s nPos kwargs stack = .ok r) :
    r = newKwargs s nPos kwargs stack ∧ ∀ n, dget r n ≠ some Val.required := by
  unfold resolve at h
  cases hf : firstRequired (newKwargs s nPos kwargs stack) with
  | some k' => simp [hf] at h
  | none =>
    simp only [hf, Except.ok.injEq] at h
    subst h
    refine ⟨rfl, fun n hn => ?_⟩
    exact (firstRequired_none _).mp hf (n, Val.required) (mem_of_dget _ _ _ hn) rfl

/-- **Before anything is sent.**  A rejected call produces no datagram pattern at
all: the result of the call carries nothing that may be sent. -/
theorem rejected_sends_nothing (E : Env) (m : String) (pos : List Val) (kw : Dict) (stack : List Dict)
    (s : Sig) (e : Err) (hs : findSig E.sigs E.cls m = some s)
    (hr : resolve s pos.length kw stack = .error e) :
    callRes E m pos kw stack = .rejected e := by
  simp [callRes, hs, hr]

/-! ## leaving a block restores the arguments in force before it -/

/-- **Restore.**  After `with c(**ctx): body` and after `with mc.application(..): body`
the stack is exactly the stack before - for every body (any nesting, updates,
calls, failing method bodies) and every sequence `cb` of `before_close` callbacks
(which may themselves call methods, open blocks, update the context or raise),
whether the body ends normally or raises at any depth, whether the application
call is rejected, and whether the stop signal fails. -/
theorem restore (E : Env) (s : List Dict) (id : Nat) (ctx : Dict) (body cb : Prog) :
    (exec E s (.block id ctx body cb .done)).stack = s := by
  obtain ⟨c', hc⟩ := exec_stack E body (dictOf ctx) s
  obtain ⟨c'', hc2⟩ := exec_stack E cb c' s
  simp only [exec, hc, hc2, List.tail_cons]
  split <;> rfl

theorem restore_application (E : Env) (s : List Dict) (id : Nat) (pos : List Val) (kw : Dict)
    (stopFails : Bool) (body cb : Prog) :
    (exec E s (.app id pos kw stopFails body cb .done)).stack = s := by
  simp only [exec]
  split
  · rfl
  · split
    · rfl
    · rename_i bound _
      obtain ⟨c', hc⟩ := exec_stack E body [("app_id", (dget bound "app_id").getD Val.none)] s
      obtain ⟨c'', hc2⟩ := exec_stack E cb c' s
      simp only [hc]
      split
      · simp only [List.tail_cons]
        split <;> rfl
      · simp only [hc2, List.tail_cons]
        split <;> rfl

/-- for whole programs: nothing below the newest context ever changes, and the
newest context itself changes only by an `update_current_context` at its own level -/
theorem restore_inner (E : Env) (p : Prog) (top : Dict) (rest : List Dict) :
    (∃ top', (exec E (top :: rest) p).stack = top' :: rest) ∧
    (noTopUpdate p = true → (exec E (top :: rest) p).stack = top :: rest) :=
  ⟨exec_stack E p top rest, exec_stack_same E p top rest⟩

/-- and the arguments in force (`get_context_arguments()`) are therefore the same too -/
theorem restore_arguments (E : Env) (s : List Dict) (id : Nat) (ctx : Dict) (body cb : Prog) :
    merged (exec E s (.block id ctx body cb .done)).stack = merged s := by
  rw [restore]

/-! ## leaving an application block stops that application -/

private theorem nodup_merged (stack : List Dict) : (keys (merged stack)).Nodup := by
  induction stack with
  | nil => simp [merged, keys]
  | cons c o ih => exact nodup_dupdate c _ ih

private theorem stop_kwargs (a : Val) (s : List Dict) :
    newKwargs mc_send_signal 1 [] ([("app_id", a)] :: s) = [("app_id", a)] := by
  have hb : baseKwargs mc_send_signal 1 = [("app_id", Val.required)] := by decide
  unfold newKwargs
  rw [hb]
  simp only [dupdate]
  have hk := keys_applyCtx (merged ([("app_id", a)] :: s)) [("app_id", Val.required)]
  have hg := dget_applyCtx (merged ([("app_id", a)] :: s)) [("app_id", Val.required)] "app_id"
  rw [dgetLast_eq_dget _ (nodup_merged _), dget_merged] at hg
  simp only [ctxLookup, dgetLast, dget, if_true] at hg
  generalize applyCtx [("app_id", Val.required)] (merged ([("app_id", a)] :: s)) = l at hk hg
  match l, hk, hg with
  | [(k, w)], hk, hg =>
    simp only [keys, List.map_cons, List.map_nil, List.cons.injEq, and_true] at hk
    subst hk
    simp only [dget, if_true, Option.some.injEq] at hg
    subst hg
    rfl
  | [], hk, _ => simp [keys] at hk
  | _ :: _ :: _, hk, _ => simp [keys] at hk

/-- the callback `self.send_signal("stop")` run inside a context whose newest entry
is `{app_id: a}` is accepted and may only send the signal to application `a`
(destination (255, 255, 0)) -/
theorem stop_targets_application (E : Env) (hs : E.sigs = sigs) (hc : E.cls = "MachineController")
    (a : Val) (ha : a ≠ Val.required) (s : List Dict) :
    callRes E "send_signal" [Val.other "'stop'"] [] ([("app_id", a)] :: s) =
      .sent [("app_id", a)] [⟨.scp, .int 255, .int 255, .int 0, some a⟩] := by
  have hf : findSig sigs "MachineController" "send_signal" = some mc_send_signal := by decide
  have hr : resolve mc_send_signal 1 [] ([("app_id", a)] :: s) = .ok [("app_id", a)] := by
    unfold resolve
    rw [stop_kwargs]
    simp [firstRequired, ha]
  have hb : bind mc_send_signal [Val.other "'stop'"] [("app_id", a)] =
      .ok [("signal", Val.other "'stop'"), ("app_id", a)] := by
    simp [bind, mc_send_signal]
  have hw : wire sigs "MachineController" wireFuel "send_signal"
      [("signal", Val.other "'stop'"), ("app_id", a)] ([("app_id", a)] :: s) =
      [⟨.scp, .int 255, .int 255, .int 0, some a⟩] := by
    have hbd : bodyOf "MachineController" "send_signal" =
        [.scp (.lit (.int 255)) (.lit (.int 255)) (.lit (.int 0)) (some (.ref "app_id"))] := by rfl
    simp [wire, wireFuel, hbd, evalEx, lookupV, dget]
  simp only [callRes, hs, hc, hf, List.length_singleton, hr, hb, hw]
  simp

/-- **Application blocks.**  Leaving `with mc.application(..): body` - normally, by
exception, at any nesting - emits, inside the block, before any callback the user
registered on the context runs and before the context is removed, the stop signal
resolved to the block's application id `a` (provided the body does not itself
re-assign `app_id` of the block's own context with `update_current_context`);
whatever the callbacks `cb` do afterwards, the arguments in force at the exit are
those before the block. -/
theorem application_stops (E : Env) (hs : E.sigs = sigs) (hc : E.cls = "MachineController")
    (s : List Dict) (id : Nat) (pos : List Val) (kw : Dict) (stopFails : Bool) (body cb next : Prog)
    (bound : Dict) (a : Val)
    (hacc : (resolve mc_application pos.length kw s >>= bind mc_application pos) = .ok bound)
    (ha : dget bound "app_id" = some a) (hreq : a ≠ Val.required) (hbody : noTopUpdate body = true) :
    ∃ pre post,
      (exec E s (.app id pos kw stopFails body cb next)).evs =
        pre ++ Ev.exit id (some (.sent [("app_id", a)] [⟨.scp, .int 255, .int 255, .int 0, some a⟩]))
          (merged s) :: post := by
  have hf : findSig sigs "MachineController" "application" = some mc_application := by decide
  have hst := exec_stack_same E body [("app_id", a)] s hbody
  have hstop := stop_targets_application E hs hc a hreq s
  obtain ⟨c'', hc2⟩ := exec_stack E cb [("app_id", a)] s
  simp only [exec, hs, hc, hf, hacc, ha, Option.getD_some]
  rw [← hs, ← hc] at *
  simp only [hst, hstop, hc2, CallRes.isRejected, Bool.false_or]
  cases stopFails
  · simp only [Bool.false_eq_true, if_false, hc2, List.tail_cons]
    split
    · exact ⟨Ev.enter id (merged ([("app_id", a)] :: s)) :: ((exec E ([("app_id", a)] :: s) body).evs ++
        (exec E ([("app_id", a)] :: s) cb).evs), [], by simp⟩
    · exact ⟨Ev.enter id (merged ([("app_id", a)] :: s)) :: ((exec E ([("app_id", a)] :: s) body).evs ++
        (exec E ([("app_id", a)] :: s) cb).evs), (exec E s next).evs, by simp⟩
  · simp only [if_true, List.tail_cons, Bool.or_true]
    exact ⟨Ev.enter id (merged ([("app_id", a)] :: s)) :: (exec E ([("app_id", a)] :: s) body).evs, [], by simp⟩

/-- the events of an application block, exactly: enter; the body; the stop signal for the block's
application, resolved in the block's context BEFORE any user callback runs; the user's callbacks `cb`
(skipped if the stop signal raised); exit with the arguments in force before the block; then the rest
of the program unless the body, the stop signal or a callback raised -/
theorem application_events (E : Env) (hs : E.sigs = sigs) (hc : E.cls = "MachineController")
    (s : List Dict) (id : Nat) (pos : List Val) (kw : Dict) (stopFails : Bool) (body cb next : Prog)
    (bound : Dict) (a : Val)
    (hacc : (resolve mc_application pos.length kw s >>= bind mc_application pos) = .ok bound)
    (ha : dget bound "app_id" = some a) (hreq : a ≠ Val.required) (hbody : noTopUpdate body = true) :
    let B := exec E ([("app_id", a)] :: s) body
    let C : Res := if stopFails then ⟨[("app_id", a)] :: s, [], true⟩ else exec E ([("app_id", a)] :: s) cb
    (exec E s (.app id pos kw stopFails body cb next)).evs =
      Ev.enter id (merged ([("app_id", a)] :: s)) ::
        (B.evs ++ C.evs ++
          [Ev.exit id (some (.sent [("app_id", a)] [⟨.scp, .int 255, .int 255, .int 0, some a⟩])) (merged s)]) ++
      (if B.raised || C.raised then [] else (exec E s next).evs) := by
  have hf : findSig sigs "MachineController" "application" = some mc_application := by decide
  have hst := exec_stack_same E body [("app_id", a)] s hbody
  have hstop := stop_targets_application E hs hc a hreq s
  obtain ⟨c'', hc2⟩ := exec_stack E cb [("app_id", a)] s
  simp only [exec, hs, hc, hf, hacc, ha, Option.getD_some]
  rw [← hs, ← hc] at *
  simp only [hst, hstop, hc2, CallRes.isRejected, Bool.false_or]
  cases stopFails
  · simp only [Bool.false_eq_true, if_false, hc2, List.tail_cons]
    split <;> simp
  · simp

private theorem nested_shape (e1 e2 x1 x2 : Ev) (B C X Y Z : List Ev) :
    e1 :: ((e2 :: (B ++ C ++ [x2]) ++ X) ++ Y ++ [x1]) ++ Z =
      (e1 :: e2 :: (B ++ C)) ++ x2 :: ((X ++ Y) ++ x1 :: Z) := by simp

/-- **Nested application blocks.**  `with mc.application(a): with mc.application(b): body` (the inner
block followed by any further statements `next2` of the outer body, any callbacks, any exit path of
`body`): the inner block's exit carries the stop signal for `b` and restores the outer block's
arguments (application `a` in force again); later, the outer block's exit carries the stop signal
for `a` and restores the arguments before both. -/
theorem nested_applications_stop_inner_first (E : Env) (hs : E.sigs = sigs) (hc : E.cls = "MachineController")
    (s : List Dict) (id1 id2 : Nat) (pos1 pos2 : List Val) (kw1 kw2 : Dict) (sf1 sf2 : Bool)
    (body cb1 cb2 next1 next2 : Prog) (bound1 bound2 : Dict) (a b : Val)
    (hacc1 : (resolve mc_application pos1.length kw1 s >>= bind mc_application pos1) = .ok bound1)
    (ha : dget bound1 "app_id" = some a) (hreqa : a ≠ Val.required)
    (hacc2 : (resolve mc_application pos2.length kw2 ([("app_id", a)] :: s) >>= bind mc_application pos2) = .ok bound2)
    (hb : dget bound2 "app_id" = some b) (hreqb : b ≠ Val.required)
    (hbody : noTopUpdate body = true) (hnext2 : noTopUpdate next2 = true) :
    ∃ pre mid post,
      (exec E s (.app id1 pos1 kw1 sf1 (.app id2 pos2 kw2 sf2 body cb2 next2) cb1 next1)).evs =
        pre ++ Ev.exit id2 (some (.sent [("app_id", b)] [⟨.scp, .int 255, .int 255, .int 0, some b⟩]))
                (merged ([("app_id", a)] :: s)) ::
        (mid ++ Ev.exit id1 (some (.sent [("app_id", a)] [⟨.scp, .int 255, .int 255, .int 0, some a⟩]))
                (merged s) :: post) := by
  have houter := application_events E hs hc s id1 pos1 kw1 sf1 (.app id2 pos2 kw2 sf2 body cb2 next2) cb1 next1
    bound1 a hacc1 ha hreqa (by simpa [noTopUpdate] using hnext2)
  have hinner := application_events E hs hc ([("app_id", a)] :: s) id2 pos2 kw2 sf2 body cb2 next2
    bound2 b hacc2 hb hreqb hbody
  simp only at houter hinner
  rw [houter, hinner]
  exact ⟨_, _, _, nested_shape _ _ _ _ _ _ _ _ _⟩

/-- **Callbacks.**  The events of a plain block with `before_close` callbacks `cb`: the callbacks run
after the body on every exit path, inside the block's context (so a decorated method called from a
callback resolves its arguments against the context that is being closed), and an exception
thrown by a callback propagates - after the context has been removed all the same. -/
theorem block_events (E : Env) (s : List Dict) (id : Nat) (ctx : Dict) (body cb next : Prog) :
    let B := exec E (dictOf ctx :: s) body
    let C := exec E B.stack cb
    (exec E s (.block id ctx body cb next)).evs =
      Ev.enter id (merged (dictOf ctx :: s)) :: (B.evs ++ C.evs ++ [Ev.exit id none (merged s)]) ++
        (if B.raised || C.raised then [] else (exec E s next).evs) ∧
    ((B.raised || C.raised) = true →
      (exec E s (.block id ctx body cb next)).raised = true ∧ (exec E s (.block id ctx body cb next)).stack = s) := by
  obtain ⟨c', hc⟩ := exec_stack E body (dictOf ctx) s
  obtain ⟨c'', hc2⟩ := exec_stack E cb c' s
  simp only [exec, hc, hc2, List.tail_cons]
  constructor
  · split <;> simp
  · intro h
    simp [h]

/-- a method body that raises after resolution (SCP error, failed allocation, ...) inside a block
leaves, like any exception: what it has sent stays in the event list, the rest of the body is
skipped and the block restores the arguments -/
theorem failing_call_unwinds (E : Env) (s : List Dict) (id cid : Nat) (ctx : Dict) (m : String)
    (pos : List Val) (kw : Dict) (rest cb : Prog) :
    let r := exec E s (.block id ctx (.call cid m pos kw false true rest) cb .done)
    r.stack = s ∧ r.raised = true ∧
    ∃ post, r.evs = Ev.enter id (merged (dictOf ctx :: s)) ::
      Ev.call cid (callRes E m pos kw (dictOf ctx :: s)) :: post := by
  obtain ⟨c'', hc2⟩ := exec_stack E cb (dictOf ctx) s
  refine ⟨restore E s id ctx _ cb, ?_, ?_⟩
  · simp [exec]
  · simp [exec]

/-! ## connection choice -/

/-- **Connection (MachineController).**  When the machine's size and root chip are
known and a connection to the target's local Ethernet chip has been discovered,
that connection is used; in every other case the initial connection is. -/
theorem connection_choice_mc (c : McCfg) (x y : Int) :
    (∀ w h rx ry, c.dims = some (w, h) → c.root = some (rx, ry) →
        localEth x y w h rx ry ∈ c.conns →
        getConnection c x y = some (localEth x y w h rx ry)) ∧
    (∀ e, getConnection c x y = some e →
        e ∈ c.conns ∧
        ∃ w h rx ry, c.dims = some (w, h) ∧ c.root = some (rx, ry) ∧ e = localEth x y w h rx ry) ∧
    ((c.dims = none ∨ c.root = none) → getConnection c x y = none) := by
  refine ⟨?_, ?_, ?_⟩
  · intro w h rx ry hd hr hc
    simp [getConnection, hd, hr, hc]
  · intro e he
    unfold getConnection at he
    split at he
    · rename_i w h rx ry hd hr
      split at he
      · rename_i hc
        cases he
        exact ⟨by simpa using hc, w, h, rx, ry, hd, hr, rfl⟩
      · cases he
    · cases he
  · intro h
    unfold getConnection
    split
    · rename_i w h' rx ry hd hr
      rcases h with h | h <;> simp_all
    · rfl

/-- **Connection (BMPController).**  The board's own connection if there is one, else
its frame's, else the command is refused (nothing is sent). -/
theorem connection_choice_bmp (conns : List (List Int)) (c f b : Int) :
    ([c, f, b] ∈ conns → bmpConnection conns c f b = .ok [c, f, b]) ∧
    ([c, f, b] ∉ conns → [c, f] ∈ conns → bmpConnection conns c f b = .ok [c, f]) ∧
    ([c, f, b] ∉ conns → [c, f] ∉ conns → bmpConnection conns c f b = .error .noConnection) := by
  refine ⟨?_, ?_, ?_⟩ <;> intros <;> simp_all [bmpConnection]

/-! ## non-vacuity / worked instances on the generated signatures -/

/-- `with mc(x=9, y=2): with mc(p=3): mc.read(0x100, 4, x=1)` under the initial context -/
example :
    resolve mc_read 2 [("x", .int 1)]
      [[("p", .int 3)], [("x", .int 9), ("y", .int 2)], [("app_id", .int 66)]] =
    .ok [("x", .int 1), ("y", .int 2), ("p", .int 3)] := by rfl

/-- the same call outside any block lacks `y` -/
example : resolve mc_read 2 [("x", .int 1)] [[("app_id", .int 66)]] = .error (.missing "y") := by rfl

/-- hypotheses of `application_stops` are satisfiable: `with mc.application(54): ...` -/
example : (resolve mc_application 1 [] [[("app_id", .int 66)]] >>= bind mc_application [.int 54]) =
    .ok [("app_id", .int 54)] := by rfl

/-- a block left by exception inside a block: the stack is the one before -/
example :
    (exec ⟨sigs, "MachineController", []⟩ [[("app_id", .int 66)]]
      (.block 1 [("x", .int 1)] (.update [("y", .int 5)] (.block 2 [("x", .int 2)] .raise .done .done)) .raise .done)).stack =
    [[("app_id", .int 66)]] := by rfl

end Rig.C18
