/-
C01 (capstone) - the composed MODEL pipeline delivers.

`pipeline_delivery` (Props/C01.lean) takes the stage CONCLUSIONS as hypotheses.  Here they are discharged by the
stage THEOREMS for `modelPipeline` (Model/C01Pipe.lean), which chains the stage models exactly as rig's hand-chained
pipeline / `place_and_route_wrapper` does, with explicit bridge functions between the stage models' data types:

  C02 `seqPlace_sound` / `randPlace_sound` / `saPlace_sound`   : the placement is `Feasible`
  C05 `alloc_sound`                                             : the allocation is `Valid`
  C03 `routeNet_valid`                                          : every routed net unfolds to a `ValidTree`
  C10 `tables_exact`                                            : the tables are exactly what the trees demand
  C04 `minimiseTables_equiv` / `minimiseTable_equiv`            : the minimised tables are per chip `RouteEquiv`

`model_pipeline_delivers`: for every problem in the documented domain (`Domain`, `PlacerDomain`: every restriction by
name) and every oracle input (placer orders / draws / proposals, per net destination order, tape, broken-link order;
every radius, every method list, every target), IF the model pipeline returns THEN every net of the problem, in order,
was routed from the chip of its source to the sinks as placed and allocated, and for every key matching the net's
key/mask the packet injected at the source chip is `Delivered` on the FINAL tables: exactly one copy to every allocated
core of every sink, exactly one exit on every endpoint link, nothing else, no flag (never dropped, only working links
between working chips, never circulating).  No stage conclusion is left as a hypothesis.
-/
import RigModel.Lemmas.C01Stage
import RigModel.Props.C01
import RigModel.Props.C02
import RigModel.Props.C03
import RigModel.Props.C04
import RigModel.Props.C05
import RigModel.Props.C10
set_option linter.unusedSimpArgs false
set_option linter.unusedVariables false

namespace Rig.C01Pipe
open Rig.C01
open Rig.C03 (Chip Machine chipOk linkOk Sink)


/-- `afterPlace` keeps the placement it was given -/
theorem afterPlace_placement {pb : Problem} {p : Rig.C02.Placement} {radius : Nat} {orc : List NetOracle}
    {mini : Option (List Rig.C04.Method × (Chip → Option Nat))} {out : Out}
    (h : afterPlace pb p radius orc mini = .ok out) : out.placement = p := by
  unfold afterPlace at h
  split at h
  · cases h
  · split at h
    · cases h
    · split at h
      · cases h
      · split at h
        · cases h; rfl
        · split at h
          · cases h
          · cases h; rfl

/-- **The stages after placement deliver** - for ANY placement that is `Feasible` (so every placer theorem of C02
plugs in).  Domain `dom`; every oracle input, radius, method list and target.  If allocation, routing of every net,
table generation and (optional) minimisation all return, then for every net of the problem (in order: `Forall₂`)
the pipeline routed it from the chip of its source to its sinks as placed / allocated / endpoint-constrained
(`NetOf`), and every packet whose key matches the net's key/mask is `Delivered` on the final tables. -/
theorem afterPlace_delivers (pb : Problem) (p : Rig.C02.Placement) (radius : Nat) (orc : List NetOracle)
    (mini : Option (List Rig.C04.Method × (Chip → Option Nat))) (out : Out)
    (dom : Domain pb) (hf : Rig.C02.Feasible (vr02 pb) (cs02 pb) pb.m2 p)
    (h : afterPlace pb p radius orc mini = .ok out) :
    List.Forall₂ (fun (n : ANet) (q : PNet) =>
        NetOf pb p out.alloc n q ∧
        ∀ k : W, k &&& n.mask = n.key →
          Delivered (deliver (machine3 pb) (devLinks pb p) (tableAt out.final) k q.src)
            (sinkCores q.sinks) (sinkExits q.sinks))
      pb.nets out.nets := by
  unfold afterPlace at h
  split at h
  · cases h
  · rename_i a ha
    split at h
    · cases h
    · rename_i pn hpn
      split at h
      · cases h
      · rename_i T10 hT10
        have hall := L.routeAll_spec dom hf ha hpn
        have hkeys := L.forall₂_keys (fun n q hr => ⟨hr.1.1, hr.1.2.1⟩) hall dom.keysDisjoint
        have hmem : ∀ q ∈ pn, chipOk (machine3 pb) q.src = true ∧
            Rig.C03.ValidTree (machine3 pb) q.src q.sinks q.tree ∧
            ∀ s ∈ q.sinks, ∃ v, sinkOf pb p (Rig.C05.strip a) v = some s := by
          intro q hq
          obtain ⟨n, _, h'⟩ := L.forall₂_right hall q hq
          refine ⟨h'.2.1, h'.2.2, fun s hs => ?_⟩
          obtain ⟨v, _, hv⟩ := L.sinksOf_mem h'.1.2.2.2 s hs
          exact ⟨v, hv⟩
        -- the conclusion for any final tables that are per chip RouteEquiv to the unminimised ones
        have core : ∀ final : Tables,
            (∀ c, Rig.C04.RouteEquiv (tableAt (tables04 T10) c) (tableAt final c)) →
            List.Forall₂ (fun (n : ANet) (q : PNet) =>
              NetOf pb p (Rig.C05.strip a) n q ∧
              ∀ k : W, k &&& n.mask = n.key →
                Delivered (deliver (machine3 pb) (devLinks pb p) (tableAt final) k q.src)
                  (sinkCores q.sinks) (sinkExits q.sinks)) pb.nets pn := by
          intro final hmin
          have hpd := pipeline_delivery (machine3 pb) (devLinks pb p) pn T10 (tableAt final)
            (fun q hq => (hmem q hq).1)
            (fun q hq s hs => by
              obtain ⟨v, hv⟩ := (hmem q hq).2.2 s hs
              have := L.sink_facts dom hf ha hv
              exact ⟨this.2.1, this.2.2⟩)
            (L.devLinks_dead dom hf)
            (fun q hq => (hmem q hq).2.1)
            hkeys hT10 hmin
          refine L.forall₂_imp_mem hall (fun n q hq h' => ⟨h'.1, fun k hk => ?_⟩)
          apply hpd q hq k
          rw [h'.1.1, h'.1.2.1]; exact hk
        split at h
        · cases h
          exact core _ (fun c => Rig.C04.routeEquiv_refl _)
        · rename_i methods targets
          split at h
          · cases h
          · rename_i mo hmo
            cases h
            have hwf : ∀ x ∈ pn.map PNet.net10, x.tree.WF := by
              intro x hx
              obtain ⟨q, hq, rfl⟩ := List.mem_map.1 hx
              exact Rig.C01.L.toC10_wf _ (fun e he => by
                obtain ⟨c, l, c'⟩ := e
                exact ((hmem q hq).2.1.hops c l c' he).1)
            have hex := (Rig.C10.tables_exact _ hwf T10 hT10).1
            obtain ⟨hn, hg⟩ := L.tables04_good hex hkeys
            exact core _ (fun c => L.final_equiv hn hg hmo c)

/-! ## with the placers of C02 -/

/-- the documented domain of the chosen placer: the hypotheses of C02's soundness theorems that do not already
follow from `Domain` (C02's `WF` does, given non-negative chip resources: `L.wf02`) -/
structure PlacerDomain (pb : Problem) (pl : Placer) : Prop where
  /-- chip resources are non-negative -/
  nonnegCap : Rig.C02.NonNegCap pb.m2
  /-- a same-chip group is never pinned to two different chips -/
  consistent : Rig.C02.Consistent (vr02 pb) (cs02 pb)
  /-- with no vertex at all the placers return `{}` without looking at the constraints: then the reservations must
  fit and nothing may be pinned -/
  emptyOK : Rig.C02.EmptyOK (vr02 pb) (cs02 pb) pb.m2
  /-- the oracle inputs are possible: a custom vertex order lists every vertex; the annealer's shuffled vertex list
  lists every movable vertex -/
  oracle : match pl with
    | .seq vo _ => ∀ o, vo = some o → ∀ v ∈ Rig.C02.keys (vr02 pb), v ∈ o
    | .rand _ => True
    | .sa _ vs _ => ∀ vr' cs' subs m' fixed, Rig.C02.applySame (vr02 pb) (cs02 pb) = .ok (vr', cs', subs) →
        Rig.C02.prepareLoop vr' cs' pb.m2 [] = .ok (m', fixed) → ∀ v ∈ Rig.C02.keys vr', v ∈ vs ∨ v ∈ Rig.C02.keys fixed

/-- C02: whatever the chosen placer returns is feasible -/
theorem runPlacer_feasible (pb : Problem) (pl : Placer) (p : Rig.C02.Placement) (dom : Domain pb)
    (hd : PlacerDomain pb pl)
    (h : runPlacer pb pl = .ok p) : Rig.C02.Feasible (vr02 pb) (cs02 pb) pb.m2 p := by
  have hwf := L.wf02 dom hd.nonnegCap
  cases pl with
  | seq vo co => exact Rig.C02.seqPlace_sound _ _ _ vo co p hwf hd.consistent hd.emptyOK hd.oracle h
  | rand picks => exact Rig.C02.randPlace_sound _ _ _ picks p hwf hd.consistent h
  | sa locs vs steps =>
    simp only [runPlacer] at h
    split at h
    · rename_i r hr
      cases h
      exact Rig.C02.saPlace_sound _ _ _ locs vs steps r.1 r.2 hwf hd.consistent hd.emptyOK hd.oracle hr
    · cases h

/-- **model_pipeline_delivers** - the capstone of C01 for the composed model pipeline.

For every problem in the documented domain, every placer of C02 with every oracle input (vertex / chip orders, random
picks, shuffles and annealing proposals), every radius, every per-net oracle (destination order, tape, broken-link
order), every minimisation method list and target (or no minimisation): IF every stage of `modelPipeline` returns
`ok` THEN for every net of the problem (in order) the net was routed from the chip its source was placed on to its
sinks as placed, allocated and endpoint-constrained, and for every key that matches the net's key/mask

    Delivered (deliver machine devLinks finalTables key sourceChip) (sinkCores sinks) (sinkExits sinks)

holds: the packet is delivered exactly once to every allocated core of every sink (or leaves exactly once on the
link named by a sink's route-endpoint constraint), reaches nothing else, is never dropped, crosses only working links
between working chips and never circulates (`delivered_no_flag`).  Every stage conclusion is discharged by the stage's
theorem; the hypotheses are the domain restrictions `Domain pb` and `PlacerDomain pb placer` only. -/
theorem model_pipeline_delivers (pb : Problem) (placer : Placer) (radius : Nat) (orc : List NetOracle)
    (mini : Option (List Rig.C04.Method × (Chip → Option Nat))) (out : Out)
    (dom : Domain pb) (hpl : PlacerDomain pb placer)
    (h : modelPipeline pb placer radius orc mini = .ok out) :
    runPlacer pb placer = .ok out.placement ∧
    Rig.C02.Feasible (vr02 pb) (cs02 pb) pb.m2 out.placement ∧
    List.Forall₂ (fun (n : ANet) (q : PNet) =>
        NetOf pb out.placement out.alloc n q ∧
        ∀ k : W, k &&& n.mask = n.key →
          Delivered (deliver (machine3 pb) (devLinks pb out.placement) (tableAt out.final) k q.src)
            (sinkCores q.sinks) (sinkExits q.sinks))
      pb.nets out.nets := by
  unfold modelPipeline at h
  split at h
  · cases h
  · rename_i p hp
    have hf := runPlacer_feasible pb placer p dom hpl hp
    have hpe := afterPlace_placement h
    rw [hpe]
    exact ⟨hp, hf, afterPlace_delivers pb p radius orc mini out dom hf h⟩

/-- ... in particular no packet of any net raises a flag -/
theorem model_pipeline_no_flag (pb : Problem) (placer : Placer) (radius : Nat) (orc : List NetOracle)
    (mini : Option (List Rig.C04.Method × (Chip → Option Nat))) (out : Out)
    (dom : Domain pb) (hpl : PlacerDomain pb placer)
    (h : modelPipeline pb placer radius orc mini = .ok out) :
    ∀ q ∈ out.nets, ∀ k : W, k &&& q.mask = q.key →
      flags (deliver (machine3 pb) (devLinks pb out.placement) (tableAt out.final) k q.src) = [] := by
  intro q hq k hk
  obtain ⟨n, _, hn, hd⟩ := L.forall₂_right (model_pipeline_delivers pb placer radius orc mini out dom hpl h).2.2 q hq
  exact delivered_no_flag (hd k (by rw [← hn.1, ← hn.2.1]; exact hk))

/-! ## the failures of the composed pipeline -/

theorem c10_sameSet_refl (a : List Nat) : Rig.C10.sameSet a a = true := by
  simp [Rig.C10.sameSet, Rig.C10.subset, List.all_eq_true]

/-- **`routing_tree_to_tables` cannot fail inside the pipeline.**  For valid routing trees rooted at working chips
and pairwise non-intersecting key/masks (what the earlier stages deliver in the domain) the conversion raises neither
`MultisourceRouteError` nor an assertion: two tree nodes on one chip under one key and mask are the same node. -/
theorem tables_total_of_valid (m : Machine) (nets : List PNet)
    (hplace : ∀ n ∈ nets, chipOk m n.src = true)
    (htree : ∀ n ∈ nets, Rig.C03.ValidTree m n.src n.sinks n.tree)
    (hkeys : nets.Pairwise (fun a b => Rig.C04.intersect a.key a.mask b.key b.mask = false)) :
    ∃ T10, Rig.C10.treeTables (nets.map PNet.net10) = .ok T10 := by
  have hhops : ∀ n' ∈ nets, ∀ e ∈ n'.tree.edges, Rig.C03.HopOk m e := by
    intro n' hn' e he
    obtain ⟨c, l, c'⟩ := e
    exact (htree n' hn').hops c l c' he
  have hpos : ∀ n' ∈ nets, ∀ x ∈ n'.tree.chips, 0 ≤ x.1 ∧ 0 ≤ x.2 := by
    intro n' hn' x hx
    have hok := Rig.C01.L.chips_ok n'.tree (hhops n' hn') (by rw [(htree n' hn').rooted]; exact hplace n' hn') x hx
    have := Rig.C01.L.chipOk_bounds hok
    exact ⟨this.1, this.2.2.1⟩
  have hwf : ∀ x ∈ nets.map PNet.net10, x.tree.WF := by
    intro x hx
    obtain ⟨n', hn', rfl⟩ := List.mem_map.1 hx
    exact Rig.C01.L.toC10_wf _ (fun e he => (hhops n' hn' e he).1)
  cases h : Rig.C10.treeTables (nets.map PNet.net10) with
  | ok T => exact ⟨T, rfl⟩
  | error e =>
    exfalso
    obtain ⟨k, mk, c, _, a, ha, b, hb, hata, hatb, hne⟩ := Rig.C10.tables_total _ hwf e h
    obtain ⟨n1, hn1, v1, hv1, rfl⟩ := Rig.C01.L.mem_allOccs.1 ha
    obtain ⟨n2, hn2, v2, hv2, rfl⟩ := Rig.C01.L.mem_allOccs.1 hb
    simp only [Rig.C10.Occ.at] at hata hatb
    have hk : n1.key = n2.key := by
      have := hata.2.1.trans hatb.2.1.symm
      exact BitVec.eq_of_toNat_eq this
    have hm : n1.mask = n2.mask := by
      have := hata.2.2.trans hatb.2.2.symm
      exact BitVec.eq_of_toNat_eq this
    have hi : Rig.C04.intersect n1.key n1.mask n2.key n2.mask = true := by
      rw [hk, hm]; simp [Rig.C04.intersect]
    have := Rig.C01.L.net_unique hkeys hn1 hn2 hi
    subst this
    have := Rig.C01.L.occs_unique n1.tree none (htree n1 hn1).distinct (hpos n1 hn1) hv1 hv2 (hata.1.trans hatb.1.symm)
    subst this
    simp only at hne
    rw [c10_sameSet_refl] at hne
    cases hne

/-- the failures the stages after placement can end in -/
def DocumentedFailure (pb : Problem) : PErr → Prop
  | .alloc _ => True                       -- the failure clause of C05 (`alloc_only_failure`)
  | .keyError => True                      -- a net names a vertex that was not placed (outside the documented domain)
  | .badOracle => True                     -- impossible oracle input (not a recording of a run)
  | .route e => (e = .tape ∨ e = .badDraw ∨ e = .badOracle ∨ e = .disconnected) ∧
      (e = .disconnected → Rig.C03.stronglyConnected (machine3 pb) = false)
  | .minimise _ e => ∃ t best, e = .minFailed t best
  | _ => False                             -- never: place (not a stage here), unfold, tables

theorem sameSet_mem' {a b : List Chip} (h : sameSet a b = true) {x : Chip} (hx : x ∈ b) : x ∈ a := by
  simp only [sameSet, Bool.and_eq_true, List.all_eq_true, List.contains_iff_mem] at h
  exact h.2 x hx

theorem routeOne_failure {pb : Problem} (dom : Domain pb) {p : Rig.C02.Placement}
    {a : List (Rig.C05.Vertex × List Rig.C05.Entry)}
    (hf : Rig.C02.Feasible (vr02 pb) (cs02 pb) pb.m2 p)
    (ha : Rig.C05.allocate (input05 pb p) = .ok a) {radius : Nat} {n : ANet} {o : NetOracle} {e : PErr}
    (h : routeOne pb p (Rig.C05.strip a) radius n o = .error e) : DocumentedFailure pb e := by
  unfold routeOne at h
  split at h
  · rename_i src sinks hsrc hsinks
    split at h
    · cases h; trivial
    · rename_i hss
      have hss' : sameSet o.dests (sinks.map (·.chip)) = true := by
        cases hx : sameSet o.dests (sinks.map (·.chip)) with
        | true => rfl
        | false => simp [hx] at hss
      have hsrcok := L.chipOf_ok hf hsrc
      have hsk : ∀ s ∈ sinks, chipOk (machine3 pb) s.chip = true := by
        intro s hs
        obtain ⟨v, _, hv⟩ := L.sinksOf_mem hsinks s hs
        exact (L.sink_facts dom hf ha hv).1
      have hd : ∀ d, d ∈ o.dests → chipOk (machine3 pb) d = true := by
        intro d hd
        obtain ⟨s, hs, rfl⟩ := List.mem_map.1 (L.sameSet_mem hss' hd)
        exact hsk s hs
      split at h
      · rename_i e3 he3
        cases h
        exact Rig.C03.route_only_failure _ _ _ _ _ _ _ hsrcok
          (fun d hd' => Rig.C01.L.chipOk_bounds (hd d hd'))
          (fun s hs => ⟨Or.inr (sameSet_mem' hss' (List.mem_map_of_mem hs)), hsk s hs⟩) e3 he3
      · rename_i r hr
        split at h
        · rename_i hnone
          obtain ⟨_, tr, htr, _⟩ := Rig.C03.routeNet_valid _ _ _ _ _ _ _ _ hsrcok hd hr
          rw [hnone] at htr; cases htr
        · cases h
  · cases h; trivial

theorem routeAll_failure {pb : Problem} (dom : Domain pb) {p : Rig.C02.Placement}
    {a : List (Rig.C05.Vertex × List Rig.C05.Entry)}
    (hf : Rig.C02.Feasible (vr02 pb) (cs02 pb) pb.m2 p)
    (ha : Rig.C05.allocate (input05 pb p) = .ok a) {radius : Nat} :
    ∀ {nets : List ANet} {orc : List NetOracle} {e : PErr},
      routeAll pb p (Rig.C05.strip a) radius nets orc = .error e → DocumentedFailure pb e
  | [], _, e, h => by simp [routeAll] at h
  | n :: ns, [], e, h => by simp only [routeAll] at h; cases h; trivial
  | n :: ns, o :: os, e, h => by
    simp only [routeAll] at h
    split at h
    · rename_i e' he'
      cases h
      exact routeOne_failure dom hf ha he'
    · split at h
      · rename_i e' he'
        cases h
        exact routeAll_failure dom hf ha he'
      · cases h


/-- **The stages after placement fail only as documented.**  In the domain and for a feasible placement, an error of
`afterPlace` is: the allocator's error (C05: `InsufficientResourceError` in its domain), a net naming an unplaced
vertex, an impossible oracle input, the router's `MachineHasDisconnectedSubregion` - and that only on a machine that
is not strongly connected (C03 `route_only_failure`) -, or `MinimisationFailedError` (C04).  In particular
`routing_tree_to_tables` never raises `MultisourceRouteError` and no routed forest fails to unfold. -/
theorem afterPlace_only_failure (pb : Problem) (p : Rig.C02.Placement) (radius : Nat) (orc : List NetOracle)
    (mini : Option (List Rig.C04.Method × (Chip → Option Nat))) (e : PErr)
    (dom : Domain pb) (hf : Rig.C02.Feasible (vr02 pb) (cs02 pb) pb.m2 p)
    (h : afterPlace pb p radius orc mini = .error e) : DocumentedFailure pb e := by
  unfold afterPlace at h
  split at h
  · cases h; trivial
  · rename_i a ha
    split at h
    · rename_i e' he'
      cases h
      exact routeAll_failure dom hf ha he'
    · rename_i pn hpn
      have hall := L.routeAll_spec dom hf ha hpn
      have hkeys := L.forall₂_keys (fun n q hr => ⟨hr.1.1, hr.1.2.1⟩) hall dom.keysDisjoint
      obtain ⟨T10, hT⟩ := tables_total_of_valid (machine3 pb) pn
        (fun q hq => by obtain ⟨n, _, h'⟩ := L.forall₂_right hall q hq; exact h'.2.1)
        (fun q hq => by obtain ⟨n, _, h'⟩ := L.forall₂_right hall q hq; exact h'.2.2) hkeys
      rw [hT] at h
      simp only at h
      split at h
      · cases h
      · split at h
        · rename_i e' he'
          cases h
          obtain ⟨x, _, _, _, t, best, _, hb⟩ := Rig.C04.minimiseTables_failure _ _ e'.1 e'.2 he'
          exact ⟨t, best, hb⟩
        · cases h

/-! ## what is expected, in the vocabulary of the problem

`model_pipeline_delivers` states the deliveries through `sinkCores` / `sinkExits` of the sinks the router was given
(`NetOf`: `sinksOf pb placement alloc net.sinks`).  Spelled out over placement, allocation and constraints: -/

theorem sinksOf_complete {pb : Problem} {p : Rig.C02.Placement} {A : Rig.C05.Alloc} :
    ∀ {vs : List Nat} {ss : List Sink}, sinksOf pb p A vs = some ss → ∀ v ∈ vs, ∃ s ∈ ss, sinkOf pb p A v = some s
  | [], ss, h, v, hv => by simp at hv
  | w :: r, ss, h, v, hv => by
    simp only [sinksOf] at h
    split at h
    · rename_i s0 ss0 h1 h2
      cases h
      rcases List.mem_cons.1 hv with rfl | hv
      · exact ⟨s0, by simp, h1⟩
      · obtain ⟨s, hs, h'⟩ := sinksOf_complete h2 v hv
        exact ⟨s, List.mem_cons_of_mem _ hs, h'⟩
    · cases h

/-- **The expected core deliveries, in the vocabulary of the problem**: `(c, i)` is expected for a net with sink
vertices `vs` iff some sink vertex without RouteEndpointConstraint is placed on chip `c` and was allocated a range of
the core resource that contains `i`. -/
theorem expected_cores {pb : Problem} {p : Rig.C02.Placement} {A : Rig.C05.Alloc} {vs : List Nat} {ss : List Sink}
    (h : sinksOf pb p A vs = some ss) (c : Chip) (i : Nat) :
    (c, i) ∈ sinkCores ss ↔ ∃ v ∈ vs, chipOf p v = some c ∧ endpointOf pb.cs v = none ∧
      ∃ sl, coresOf A pb.coreRes v = some sl ∧ sl.start.toNat ≤ i ∧ i < sl.stop.toNat := by
  simp only [sinkCores, List.mem_flatMap]
  constructor
  · rintro ⟨s, hs, hm⟩
    obtain ⟨v, hv, hsv⟩ := L.sinksOf_mem h s hs
    obtain ⟨_, hc, _, h1, _⟩ := L.sinkOf_spec hsv
    by_cases hk : s.kind = 1
    · simp only [hk, if_true, List.mem_map, List.mem_range, Prod.mk.injEq] at hm
      obtain ⟨j, hj, rfl, rfl⟩ := hm
      obtain ⟨he, sl, hsl, ha, hb⟩ := h1 hk
      exact ⟨v, hv, hc, he, sl, hsl, by omega, by omega⟩
    · simp [hk] at hm
  · rintro ⟨v, hv, hc, he, sl, hsl, h1, h2⟩
    obtain ⟨s, hs, hsv⟩ := sinksOf_complete h v hv
    refine ⟨s, hs, ?_⟩
    unfold sinkOf at hsv
    simp only [hc, he, hsl] at hsv
    cases hsv
    simp only [if_true, List.mem_map, List.mem_range, Prod.mk.injEq]
    exact ⟨i - sl.start.toNat, by omega, trivial, by omega⟩

/-- **The expected exits**: `(c, l)` is expected iff some sink vertex with an (effective) RouteEndpointConstraint to
route `l` is placed on chip `c`. -/
theorem expected_exits {pb : Problem} {p : Rig.C02.Placement} {A : Rig.C05.Alloc} {vs : List Nat} {ss : List Sink}
    (h : sinksOf pb p A vs = some ss) (c : Chip) (l : Nat) :
    (c, l) ∈ sinkExits ss ↔ ∃ v ∈ vs, chipOf p v = some c ∧ endpointOf pb.cs v = some l := by
  simp only [sinkExits, List.mem_filterMap]
  constructor
  · rintro ⟨s, hs, hm⟩
    obtain ⟨v, hv, hsv⟩ := L.sinksOf_mem h s hs
    obtain ⟨_, hc, h2, _, _⟩ := L.sinkOf_spec hsv
    by_cases hk : s.kind = 2
    · simp only [hk, if_true, Option.some.injEq, Prod.mk.injEq] at hm
      obtain ⟨rfl, rfl⟩ := hm
      exact ⟨v, hv, hc, h2 hk⟩
    · simp [hk] at hm
  · rintro ⟨v, hv, hc, he⟩
    obtain ⟨s, hs, hsv⟩ := sinksOf_complete h v hv
    refine ⟨s, hs, ?_⟩
    unfold sinkOf at hsv
    simp only [hc, he] at hsv
    cases hsv
    simp

/-! ## non-vacuity: a concrete problem in the domain, run through `modelPipeline`

5x1 machine, 3 cores per chip of which core 0 is reserved (monitor), a device on the east link of chip (4,0)
(a dead link of the machine model).  Vertices 0, 1 (2 cores each), 3 (1 core) and the device vertex 2 (no resources,
pinned to (4,0), RouteEndpointConstraint east).  Net A (key 4, mask 6: bit 0 don't-care) from vertex 0 to vertex 3
twice; net B (key 2, mask 6) from vertex 1 to vertices 0, 1 (self loop) and the device.  Sequential placer, default
orders; radius 1; default minimisation methods without target.  Net A passes straight through chip (1,0): its
entry there is removed by the minimiser (default routing) - the final tables differ from the unminimised ones. -/

def exPb : Problem :=
  { vr := [(0, [(0, 2), (1, 10)]), (1, [(0, 2)]), (2, []), (3, [(0, 1)])],
    nres := 2,
    m2 := { w := 5, h := 1, res := [3, 100], exc := [], dead := [] },
    deadLinks := [((4, 0), 0)],
    cs := [.reserve 0 ⟨0, 1⟩ none, .loc 2 (4, 0), .endpoint 2 0],
    nets := [{ src := 0, sinks := [3, 3], key := 4#32, mask := 6#32 },
             { src := 1, sinks := [0, 1, 2], key := 2#32, mask := 6#32 }],
    coreRes := 0 }

def exOrc : List NetOracle :=
  [{ dests := [(2, 0)], tape := List.replicate 30 0, order := [] },
   { dests := [(4, 0), (1, 0), (0, 0)], tape := List.replicate 30 0, order := [] }]

def exRun : Except PErr Out := modelPipeline exPb (.seq none none) 1 exOrc (some ([.rd, .oc], fun _ => none))

/-- the final tables of the example -/
def exFinal : Tables :=
  [((0, 0), [{ route := 1, key := 4#32, mask := 6#32, sources := 2 ^ 24 },
             { route := 392, key := 2#32, mask := 6#32, sources := 1 }]),
   ((1, 0), [{ route := 392, key := 2#32, mask := 6#32, sources := 2 ^ 24 }]),
   ((2, 0), [{ route := 128, key := 4#32, mask := 6#32, sources := 8 }]),
   ((4, 0), [{ route := 1, key := 2#32, mask := 6#32, sources := 1 }])]

/-- the model pipeline returns on the example: placement, allocation, and final tables by evaluation -/
def exCheck (out : Out) : Bool :=
  decide (out.placement = [(.o 2, (4, 0)), (.o 0, (0, 0)), (.o 1, (1, 0)), (.o 3, (2, 0))]) &&
  decide (out.alloc = [(2, []), (0, [(0, ⟨1, 3⟩), (1, ⟨0, 10⟩)]), (1, [(0, ⟨1, 3⟩)]), (3, [(0, ⟨1, 2⟩)])]) &&
  decide (out.final = exFinal) && decide (out.final ≠ tables04 out.T10) &&
  decide (out.nets.map (fun q => (q.src, sinkCores q.sinks, sinkExits q.sinks)) =
      [((0, 0), [((2, 0), 1), ((2, 0), 1)], []),
       ((1, 0), [((0, 0), 1), ((0, 0), 2), ((1, 0), 1), ((1, 0), 2)], [((4, 0), 0)])])

/-- the model pipeline returns on the example: placement, allocation, final tables (which differ from the
unminimised ones), source chips and expected deliveries - by evaluation in the kernel -/
theorem ex_runs : ∃ out, exRun = .ok out ∧ exCheck out = true := by
  have h : (match exRun with
      | .ok out => exCheck out
      | .error _ => false) = true := by decide +kernel
  cases hr : exRun with
  | error e => rw [hr] at h; cases h
  | ok out => rw [hr] at h; exact ⟨out, rfl, h⟩

theorem ex_domain : Domain exPb where
  vrNodup := by decide
  resNodup := by decide
  demandNonneg := by decide
  alignPos := by intro r a h; simp [exPb] at h
  cores18 := by
    intro xy c h
    unfold Rig.C05.capacity Rig.C05.Machine.get at h
    cases hc : (m5 exPb).contains xy with
    | false => simp [hc] at h
    | true =>
      simp only [hc, if_true] at h
      have e : ((m5 exPb).exceptions.lookup xy).getD (m5 exPb).chipResources = [(0, 3), (1, 100)] := rfl
      rw [e] at h
      have e2 : List.lookup exPb.coreRes [((0 : Nat), (3 : Int)), (1, 100)] = some 3 := rfl
      simp only [Option.bind_some] at h
      rw [e2] at h
      cases h; decide
  endpointIsLink := by
    intro v r h
    simp [exPb] at h
    omega
  endpointDead := by
    intro v r h
    simp [exPb] at h
    obtain ⟨rfl, rfl⟩ := h
    exact ⟨(4, 0), by simp [exPb], by decide⟩
  keysDisjoint := by decide

theorem ex_placerDomain : PlacerDomain exPb (.seq none none) where
  nonnegCap := by
    intro c _ i
    have : Rig.C02.cap exPb.m2 c = [3, 100] := rfl
    rw [this]
    match i with
    | 0 => decide
    | 1 => decide
    | i + 2 => simp [Rig.C02.dem]
  consistent := by
    intro vr' cs' subs h
    have e : Rig.C02.applySame (vr02 exPb) (cs02 exPb) = .ok (vr02 exPb, cs02 exPb, []) := by rfl
    rw [e] at h; injection h with h; injection h with h1 h2; injection h2 with h2 h3
    subst h2
    intro v c c' hc hc'
    simp [cs02, exPb, PC.to02] at hc hc'
    rw [hc.2, hc'.2]
  emptyOK := by intro h; simp [vr02, exPb] at h
  oracle := by intro o h; cases h

/-- the conclusion of `model_pipeline_delivers` for the example, through the theorem -/
example : ∃ out, exRun = .ok out ∧
    List.Forall₂ (fun (n : ANet) (q : PNet) =>
        NetOf exPb out.placement out.alloc n q ∧
        ∀ k : W, k &&& n.mask = n.key →
          Delivered (deliver (machine3 exPb) (devLinks exPb out.placement) (tableAt out.final) k q.src)
            (sinkCores q.sinks) (sinkExits q.sinks))
      exPb.nets out.nets := by
  obtain ⟨out, h, _⟩ := ex_runs
  exact ⟨out, h, (model_pipeline_delivers exPb _ _ _ _ out ex_domain ex_placerDomain h).2.2⟩

/-- and directly, by evaluation: key 5 (net A, don't-care bit set) injected at (0,0) crosses the default-routed chip
(1,0) and reaches core 1 of chip (2,0) once; key 2 (net B) injected at (1,0) reaches its four cores and the device -/
example : deliver (machine3 exPb) [((4, 0), 0)] (tableAt exFinal) 5#32 (0, 0) = [.core (2, 0) 1] ∧
    deliver (machine3 exPb) [((4, 0), 0)] (tableAt exFinal) 2#32 (1, 0) =
      [.core (1, 0) 1, .core (1, 0) 2, .core (0, 0) 1, .core (0, 0) 2, .exit (4, 0) 0] := by decide +kernel

end Rig.C01Pipe
