/-
C10 (companion) - `load_routing_tables` against a machine of several chips, the end-to-end
corollary trees -> tables -> routers -> read-back, and the retransmitted `alloc_rtr`.
-/
import RigModel.Model.C10
import RigModel.Lemmas.C10Machine
import RigModel.Props.C10
set_option linter.unusedSimpArgs false
set_option linter.unusedVariables false

namespace Rig.C10
open Rig.Gen.Router Rig.Gen.Scp

/-! ## `load_routing_tables` on a machine

`m : Machine` maps every chip coordinate to a chip state, `pol c` is the allocation policy of chip
`c` (any valid one), `tables` is the dict in its iteration order (an input: Python iterates the
caller's dict), so its chips are pairwise distinct.  `buf c` is the staging buffer address held in
chip `c`'s `sv.sdram_sys`.  `baseOf pol m app ct` is what chip `ct.1` answers to the allocation of
`ct.2.length` rows from its initial state. -/

/-- **All chips loaded.** If every chip of `tables` answers its `alloc_rtr` with a base ≠ 0, then
`load_routing_tables` returns normally; the commands sent are, chip after chip in dict order, the
allocation, the read of `sv.sdram_sys`, the writes of the packed table and one router load;
afterwards every chip of `tables` holds exactly its entries (`LoadSpec`: rows `base..base+n-1` in
order, owned by the application, all other rows unchanged) and every chip not in `tables` is
unchanged (router and memory). -/
theorem load_tables_exact (pol : ChipXY → Pol) (m : Machine) (scpLen app : Nat) (buf : ChipXY → Nat)
    (tables : Tables) (hnd : (tables.map (·.1)).Nodup) (hpol : ∀ c, PolValid (pol c)) (hb : 0 < scpLen)
    (ha : app < 256) (hrdy : ∀ ct ∈ tables, ChipReady (m ct.1) ct.2 (buf ct.1))
    (hbase : ∀ ct ∈ tables, baseOf pol m app ct ≠ 0) :
    (runM pol (loadTables scpLen app tables) m).2.1 = .ok () ∧
    (runM pol (loadTables scpLen app tables) m).2.2 = tables.flatMap (tableCmds pol m scpLen app buf) ∧
    (∀ ct ∈ tables,
      (runM pol (loadTables scpLen app tables) m).1 ct.1 =
        loadedChip (m ct.1) (buf ct.1) (baseOf pol m app ct) app ct.2 ∧
      LoadSpec (m ct.1).rows ((runM pol (loadTables scpLen app tables) m).1 ct.1).rows ct.2 app
        (baseOf pol m app ct) false true) ∧
    (∀ c, c ∉ tables.map (·.1) → (runM pol (loadTables scpLen app tables) m).1 c = m c) := by
  obtain ⟨m1, hrun, hin, hout⟩ := loadTables_prefix pol scpLen app buf hpol hb ha [] tables m
    (by simpa using hnd) hrdy hbase
  simp only [List.append_nil, loadTables, runM] at hrun
  rw [hrun]
  refine ⟨rfl, by simp, ?_, hout⟩
  intro ct hct
  refine ⟨hin ct hct, ?_⟩
  simp only [hin ct hct]
  exact loadedChip_spec _ _ _ _ _ (hbase ct hct)

/-- **First failing chip.** If the chips before `ct` (in dict order) answer a base ≠ 0 and `ct`
answers 0, `load_routing_tables` raises `SpiNNakerRouterError(len(ct's table), x, y)` naming that
chip; the commands sent are the complete loads of the earlier chips followed by the one refused
allocation request; the earlier chips hold exactly their entries (they are *not* rolled back); the
failing chip, every later chip of `tables` and every other chip are unchanged. -/
theorem load_tables_failure (pol : ChipXY → Pol) (m : Machine) (scpLen app : Nat) (buf : ChipXY → Nat)
    (pre post : Tables) (ct : ChipXY × List Entry)
    (hnd : ((pre ++ ct :: post).map (·.1)).Nodup) (hpol : ∀ c, PolValid (pol c)) (hb : 0 < scpLen)
    (ha : app < 256) (hrdy : ∀ p ∈ pre, ChipReady (m p.1) p.2 (buf p.1))
    (hbase : ∀ p ∈ pre, baseOf pol m app p ≠ 0) (h0 : baseOf pol m app ct = 0) :
    (runM pol (loadTables scpLen app (pre ++ ct :: post)) m).2.1 =
      .error (.routerError ct.2.length ct.1.1 ct.1.2) ∧
    (runM pol (loadTables scpLen app (pre ++ ct :: post)) m).2.2 =
      pre.flatMap (tableCmds pol m scpLen app buf) ++ [allocReq ct.1.1 ct.1.2 app ct.2.length] ∧
    (∀ p ∈ pre,
      (runM pol (loadTables scpLen app (pre ++ ct :: post)) m).1 p.1 =
        loadedChip (m p.1) (buf p.1) (baseOf pol m app p) app p.2 ∧
      LoadSpec (m p.1).rows ((runM pol (loadTables scpLen app (pre ++ ct :: post)) m).1 p.1).rows p.2 app
        (baseOf pol m app p) false true) ∧
    (∀ c, c ∉ pre.map (·.1) → (runM pol (loadTables scpLen app (pre ++ ct :: post)) m).1 c = m c) ∧
    (∀ q ∈ ct :: post, (runM pol (loadTables scpLen app (pre ++ ct :: post)) m).1 q.1 = m q.1) := by
  obtain ⟨m1, hrun, hin, hout⟩ := loadTables_prefix pol scpLen app buf hpol hb ha (ct :: post) pre m hnd hrdy hbase
  have hct : ct.1 ∉ pre.map (·.1) := by
    intro h
    rw [List.map_append, List.nodup_append] at hnd
    exact hnd.2.2 _ h _ (by simp) rfl
  have h0' : pol ct.1 (m1 ct.1).rows app ct.2.length = 0 := by rw [hout _ hct]; exact h0
  have hfail := runM_loadEntries_fail pol m1 scpLen app ct.1 ct.2 (loadTables scpLen app post) ha h0'
  have hlt : loadTables scpLen app (ct :: post) =
      loadEntries scpLen ct.2 ct.1.1 ct.1.2 app (loadTables scpLen app post) := by
    cases ct; rfl
  rw [hlt, hfail] at hrun
  rw [hrun]
  refine ⟨rfl, rfl, ?_, hout, ?_⟩
  · intro p hp
    refine ⟨hin p hp, ?_⟩
    simp only [hin p hp]
    exact loadedChip_spec _ _ _ _ _ (hbase p hp)
  · intro q hq
    apply hout
    intro h
    rw [List.map_append, List.nodup_append] at hnd
    exact hnd.2.2 _ h _ (List.mem_map.2 ⟨q, hq, rfl⟩) rfl

/-- every table answers a base ≠ 0, or there is a first one that answers 0 -/
theorem first_failure (P : ChipXY × List Entry → Prop) [DecidablePred P] :
    ∀ tables : Tables, (∀ ct ∈ tables, P ct) ∨
      ∃ pre ct post, tables = pre ++ ct :: post ∧ (∀ p ∈ pre, P p) ∧ ¬ P ct
  | [] => Or.inl (by simp)
  | ct :: rest => by
    by_cases h : P ct
    · rcases first_failure P rest with hall | ⟨pre, c, post, he, hp, hc⟩
      · exact Or.inl (by intro x hx; simp only [List.mem_cons] at hx; rcases hx with rfl | hx; exact h; exact hall x hx)
      · refine Or.inr ⟨ct :: pre, c, post, by simp [he], ?_, hc⟩
        intro x hx; simp only [List.mem_cons] at hx; rcases hx with rfl | hx; exact h; exact hp x hx
    · exact Or.inr ⟨[], ct, rest, rfl, by simp, h⟩

/-- **Returns normally iff every allocation succeeds.** -/
theorem load_tables_ok_iff (pol : ChipXY → Pol) (m : Machine) (scpLen app : Nat) (buf : ChipXY → Nat)
    (tables : Tables) (hnd : (tables.map (·.1)).Nodup) (hpol : ∀ c, PolValid (pol c)) (hb : 0 < scpLen)
    (ha : app < 256) (hrdy : ∀ ct ∈ tables, ChipReady (m ct.1) ct.2 (buf ct.1)) :
    (runM pol (loadTables scpLen app tables) m).2.1 = .ok () ↔ ∀ ct ∈ tables, baseOf pol m app ct ≠ 0 := by
  constructor
  · intro hok
    rcases first_failure (fun ct => baseOf pol m app ct ≠ 0) tables with hall | ⟨pre, ct, post, he, hp, hc⟩
    · exact hall
    · subst he
      have := (load_tables_failure pol m scpLen app buf pre post ct hnd hpol hb ha
        (fun p hp' => hrdy p (by simp [hp'])) hp (by simpa using hc)).1
      rw [this] at hok; cases hok
  · intro hall
    exact (load_tables_exact pol m scpLen app buf tables hnd hpol hb ha hrdy hall).1

theorem tls_of_prefix (rows0 rowsF : ChipXY → Nat → Row) (app : Nat) (base : ChipXY → Nat)
    (res : Option MErr) (post : Tables) :
    ∀ pre : Tables,
      (∀ p ∈ pre, base p.1 ≠ 0 ∧ LoadSpec (rows0 p.1) (rowsF p.1) p.2 app (base p.1) false true) →
      TablesLoadSpec rows0 rowsF app base res post → TablesLoadSpec rows0 rowsF app base res (pre ++ post)
  | [], _, h => h
  | (c, es) :: pre, hp, h => by
    have := hp (c, es) (by simp)
    simp only [List.cons_append, TablesLoadSpec, this.1, if_false]
    exact ⟨this.2, tls_of_prefix rows0 rowsF app base res post pre (fun p hp' => hp p (by simp [hp'])) h⟩

/-- **The predicate the harness evaluates on the real controller's runs holds of the model**: for
every machine, valid policies and dict order, with `base` = the chips' allocation answers, the
outcome and the routers before/after satisfy `TablesLoadSpec` (exact partial progress: chips before
the first refused allocation loaded, that chip and all later ones untouched, error names that chip);
and every chip outside `tables` is unchanged. -/
theorem load_tables_spec (pol : ChipXY → Pol) (m : Machine) (scpLen app : Nat) (buf : ChipXY → Nat)
    (tables : Tables) (base : ChipXY → Nat) (hnd : (tables.map (·.1)).Nodup) (hpol : ∀ c, PolValid (pol c))
    (hb : 0 < scpLen) (ha : app < 256) (hrdy : ∀ ct ∈ tables, ChipReady (m ct.1) ct.2 (buf ct.1))
    (hbs : ∀ ct ∈ tables, base ct.1 = baseOf pol m app ct) :
    TablesLoadSpec (fun c => (m c).rows) (fun c => ((runM pol (loadTables scpLen app tables) m).1 c).rows)
      app base (errOf (runM pol (loadTables scpLen app tables) m).2.1) tables ∧
    (∀ c, c ∉ tables.map (·.1) → (runM pol (loadTables scpLen app tables) m).1 c = m c) := by
  rcases first_failure (fun ct => baseOf pol m app ct ≠ 0) tables with hall | ⟨pre, ct, post, he, hp, hc⟩
  · obtain ⟨hok, _, hin, hout⟩ := load_tables_exact pol m scpLen app buf tables hnd hpol hb ha hrdy hall
    refine ⟨?_, hout⟩
    have := tls_of_prefix (fun c => (m c).rows) (fun c => ((runM pol (loadTables scpLen app tables) m).1 c).rows)
      app base (errOf (runM pol (loadTables scpLen app tables) m).2.1) [] tables
      (fun p hp => ⟨by rw [hbs p hp]; exact hall p hp, by rw [hbs p hp]; exact (hin p hp).2⟩)
      (by simp [TablesLoadSpec, hok, errOf])
    simpa using this
  · subst he
    have hc0 : baseOf pol m app ct = 0 := by simpa using hc
    obtain ⟨herr, _, hin, hout, hpost⟩ := load_tables_failure pol m scpLen app buf pre post ct hnd hpol hb ha
      (fun p hp' => hrdy p (by simp [hp'])) hp hc0
    refine ⟨?_, ?_⟩
    · apply tls_of_prefix
      · intro p hp'
        have hm : p ∈ pre ++ ct :: post := by simp [hp']
        exact ⟨by rw [hbs p hm]; exact hp p hp', by rw [hbs p hm]; exact (hin p hp').2⟩
      · obtain ⟨c, es⟩ := ct
        have hb0 : base c = 0 := by rw [hbs (c, es) (by simp)]; exact hc0
        simp only [TablesLoadSpec, hb0, if_true, herr, errOf, true_and]
        intro q hq j _
        rw [hpost q hq]
    · intro c hcn
      apply hout
      intro h
      exact hcn (by simp only [List.map_append, List.mem_append]; exact Or.inl h)

/-- a function giving each chip of a dict its allocation answer exists (non-vacuity of `hbs`) -/
def baseFn (pol : ChipXY → Pol) (m : Machine) (app : Nat) (tables : Tables) (c : ChipXY) : Nat :=
  match tables.find? (fun ct => ct.1 == c) with
  | some ct => baseOf pol m app ct
  | none => 0

theorem baseFn_spec (pol : ChipXY → Pol) (m : Machine) (app : Nat) :
    ∀ tables : Tables, (tables.map (·.1)).Nodup → ∀ ct ∈ tables, baseFn pol m app tables ct.1 = baseOf pol m app ct
  | [], _, ct, h => by simp at h
  | t :: rest, hnd, ct, h => by
    simp only [List.map_cons, List.nodup_cons] at hnd
    simp only [List.mem_cons] at h
    rcases h with rfl | h
    · simp [baseFn]
    · have hne : t.1 ≠ ct.1 := fun e => hnd.1 (by rw [e]; exact List.mem_map.2 ⟨ct, h, rfl⟩)
      have := baseFn_spec pol m app rest hnd.2 ct h
      simp only [baseFn] at this ⊢
      simp only [List.find?_cons, beq_iff_eq, hne, if_false]
      have hb : (t.1 == ct.1) = false := by simp [hne]
      simp only [hb]
      exact this

/-! ## end to end: trees -> tables -> routers -> read-back -/

/-- the entries of a table set computed from trees are loadable when the trees' keys, masks and
routes are in the documented range -/
theorem tables_inRange (os : List Occ) (T : Tables) (hT : TablesExact os T)
    (hdom : ∀ o ∈ os, o.key < 4294967296 ∧ o.mask < 4294967296 ∧ ∀ r ∈ o.v.outs, r < 24) :
    ∀ ct ∈ T, ∀ e ∈ ct.2, e.InRange := by
  intro ct hct e he
  obtain ⟨⟨o, ho, hat⟩, hroute, _, _, _⟩ := (hT.2.2 ct hct).2.2.1 e he
  refine ⟨?_, ?_, ?_⟩
  · intro r hr
    obtain ⟨o', ho', _, hr'⟩ := hroute r hr
    exact (hdom o' ho').2.2 r hr'
  · rw [← hat.2.1]; exact (hdom o ho).1
  · rw [← hat.2.2]; exact (hdom o ho).2.1

/-- **Trees to routers.** For well-formed trees (keys/masks 32-bit, routes below 24) whose
conversion returns tables `T` (by `multisource_iff`: exactly when no two nodes on a chip under one
key and mask fork differently), on any machine whose chips of `T` all grant their allocation:
`load_routing_tables(T, app)` returns normally, and `get_routing_table_entries` of every chip of `T`
afterwards returns 1024 items of which those at `base + i` are, in table order, entries with the
key and mask of a (key, mask) the trees use on that chip, the application's id, and a route set that
is exactly the set of directions by which the tree nodes on that chip under that key and mask leave
it; the table's `sources` (not stored by the hardware) are exactly the links they arrive by; every
tree node on the chip is covered by one of these entries; every other item is what the router held
before; reading back changes nothing; every chip the trees visit is in `T`. -/
theorem trees_to_router (nets : List Net) (hwf : ∀ n ∈ nets, n.tree.WF)
    (hdom : ∀ o ∈ allOccs nets, o.key < 4294967296 ∧ o.mask < 4294967296 ∧ ∀ r ∈ o.v.outs, r < 24)
    (T : Tables) (hT : treeTables nets = .ok T)
    (pol : ChipXY → Pol) (m : Machine) (scpLen app : Nat) (buf : ChipXY → Nat)
    (hpol : ∀ c, PolValid (pol c)) (hb : 0 < scpLen) (ha : app < 256)
    (hsv : ∀ ct ∈ T, SvWord (m ct.1) svSdramSys (buf ct.1))
    (hdis : ∀ ct ∈ T, buf ct.1 + 16 * ct.2.length ≤ (m ct.1).copyBase ∨
                      (m ct.1).copyBase + 16 * rtrEntries ≤ buf ct.1)
    (hsv2 : ∀ ct ∈ T, SvWord (m ct.1) svRtrCopy (m ct.1).copyBase)
    (hdis2 : ∀ ct ∈ T, buf ct.1 + 16 * ct.2.length ≤ svBase + svRtrCopy ∨ svBase + svRtrCopy + 4 ≤ buf ct.1)
    (hrows : ∀ ct ∈ T, ∀ j, j < rtrEntries → ((m ct.1).rows j).Ok)
    (hbase : ∀ ct ∈ T, baseOf pol m app ct ≠ 0) :
    (runM pol (loadTables scpLen app T) m).2.1 = .ok () ∧
    (∀ o ∈ allOccs nets, ∃ ct ∈ T, ct.1 = o.v.chip) ∧
    ∀ ct ∈ T, ∃ t,
      runM pol (getEntries scpLen ct.1.1 ct.1.2) (runM pol (loadTables scpLen app T) m).1 =
        ((runM pol (loadTables scpLen app T) m).1, .ok t,
         (Rig.C07.read scpLen (svBase + svRtrCopy) 4).map (readReq ct.1.1 ct.1.2 0) ++
           (Rig.C07.read scpLen (m ct.1).copyBase (rtrEntries * 16)).map (readReq ct.1.1 ct.1.2 0)) ∧
      t.length = rtrEntries ∧
      (∀ i, i < ct.2.length → ∃ e d, ct.2[i]? = some e ∧ t[baseOf pol m app ct + i]? = some (some d) ∧
        d.key = e.key ∧ d.mask = e.mask ∧ d.app = app ∧ d.core = 0 ∧
        (∃ o ∈ allOccs nets, o.at ct.1 e.key e.mask) ∧
        (∀ r, r ∈ d.routes ↔ ∃ o ∈ allOccs nets, o.at ct.1 e.key e.mask ∧ r ∈ o.v.outs) ∧
        (∀ s, s ∈ e.sources ↔ ∃ o ∈ allOccs nets, o.at ct.1 e.key e.mask ∧ srcOf o.v.dir = s)) ∧
      (∀ o ∈ allOccs nets, o.v.chip = ct.1 → ∃ (i : Nat) (e : Entry), ct.2[i]? = some e ∧ e.key = o.key ∧ e.mask = o.mask) ∧
      (∀ j, j < rtrEntries → ¬ (baseOf pol m app ct ≤ j ∧ j < baseOf pol m app ct + ct.2.length) →
        t[j]? = some (decRow ((m ct.1).rows j))) := by
  have hex := (tables_exact nets hwf T hT).1
  have hir := tables_inRange (allOccs nets) T hex hdom
  have hrdy : ∀ ct ∈ T, ChipReady (m ct.1) ct.2 (buf ct.1) := fun ct hct => ⟨hir ct hct, hsv ct hct, hdis ct hct⟩
  obtain ⟨hok, _, hin, _⟩ := load_tables_exact pol m scpLen app buf T hex.1 hpol hb ha hrdy hbase
  refine ⟨hok, hex.2.1, ?_⟩
  intro ct hct
  have hF := (hin ct hct).1
  have hfree := blockFree_of_pol (hpol ct.1) (m ct.1).rows app ct.2.length (hbase ct hct)
  have hget := runM_getEntries pol (runM pol (loadTables scpLen app T) m).1 scpLen ct.1 hb
    (by rw [hF]; exact loadedChip_svRtrCopy _ _ _ _ _ (hsv2 ct hct) (hdis2 ct hct))
    (by rw [hF]; exact loadedChip_rows_ok _ _ _ _ _ ha (hir ct hct) (hrows ct hct))
  rw [hF] at hget
  refine ⟨_, hget, by simp, ?_, ?_, ?_⟩
  · intro i hi
    obtain ⟨e, d, he, hd, h1, h2, h3, h4, h5⟩ := readback_loaded_in (m ct.1) (buf ct.1) (baseOf pol m app ct) app ct.2 i hi
      (by have := hfree.2.1; simp only [baseOf] at *; omega) (hir ct hct)
    have hmem : e ∈ ct.2 := List.mem_of_getElem? he
    obtain ⟨hocc, hr1, hr2, hs1, hs2⟩ := (hex.2.2 ct hct).2.2.1 e hmem
    refine ⟨e, d, he, hd, h1, h2, h3, h4, hocc, ?_, ?_⟩
    · intro r
      rw [h5 r]
      exact ⟨fun h => hr1 r h, fun ⟨o, ho, hat, hr⟩ => hr2 o ho hat r hr⟩
    · intro s
      exact ⟨fun h => hs1 s h, fun ⟨o, ho, hat, hs⟩ => hs ▸ hs2 o ho hat⟩
  · intro o ho hc
    obtain ⟨e, he, hk, hm⟩ := (hex.2.2 ct hct).2.2.2 o ho hc
    obtain ⟨i, hi, hget'⟩ := List.getElem_of_mem he
    have hsome : ct.2[i]? = some e := by rw [List.getElem?_eq_getElem hi, hget']
    exact ⟨i, e, hsome, hk, hm⟩
  · intro j hj hjb
    exact readback_loaded_out (m ct.1) (buf ct.1) (baseOf pol m app ct) app ct.2 j hj hjb

/-! ## a retransmitted `alloc_rtr` (first reply lost)

`alloc_rtr` is not idempotent.  SCP retransmits a request whose reply did not arrive (C06); if it was
the reply that was lost, the chip executes the allocation twice and the controller only ever learns the
second base.  On the router specification: -/

theorem afterLostAlloc_eq (pol : Pol) (s : Chip) (x y app n : Nat) (ha : app < 256)
    (h : pol s.rows app n ≠ 0) :
    afterLostAlloc pol s x y app n = { s with rows := claim s.rows (pol s.rows app n) n app } := by
  simp [afterLostAlloc, step_alloc pol s x y app n ha, h]

/-- **Retransmitted allocation leaks a block, the load is still exact.**  Let the chip execute the
allocation of `n > 0` rows (answer `b1 ≠ 0`, reply lost) and then `load_routing_table_entries` run
with its (retransmitted) allocation answered `b2 ≠ 0`.  Then: the two blocks are disjoint; the call
returns normally and satisfies `LoadSpec` for the block `b2` it was told about, relative to the
router as it was when that request was executed (rows `b2..b2+n-1` hold exactly the entries, every
other row - including the leaked block - is as the first allocation left it); the rows `b1..b1+n-1`
were free before, now belong to the application, carry no entry of the table, and no command ever
refers to them - a leaked block; rows outside both blocks are as before the first request; and
relative to the router *before* the lost request `LoadSpec` does not hold (the leak is visible as
changed owner fields).  The clauses of the property (entries exact, block allocated for the
application, read-back) hold; the leak is a resource observation. -/
theorem alloc_retransmit_leak (pol : Pol) (s : Chip) (scpLen x y app buf : Nat) (entries : List Entry)
    (hpol : PolValid pol) (hb : 0 < scpLen) (ha : app < 256) (hn : 0 < entries.length)
    (hr : ∀ e ∈ entries, e.InRange) (hsv : SvWord s svSdramSys buf)
    (hdis : buf + 16 * entries.length ≤ s.copyBase ∨ s.copyBase + 16 * rtrEntries ≤ buf)
    (hb1 : pol s.rows app entries.length ≠ 0)
    (hb2 : pol (afterLostAlloc pol s x y app entries.length).rows app entries.length ≠ 0) :
    let n := entries.length
    let b1 := pol s.rows app n
    let s1 := afterLostAlloc pol s x y app n
    let b2 := pol s1.rows app n
    let out := run pol (loadEntries scpLen entries x y app (.ret ())) s1
    (b1 + n ≤ b2 ∨ b2 + n ≤ b1) ∧
    out.2.1 = .ok () ∧
    out.2.2 = loadCmds scpLen x y app buf b2 entries ∧
    LoadSpec s1.rows out.1.rows entries app b2 false true ∧
    (∀ i, i < n → (s.rows (b1 + i)).owner = none ∧
        out.1.rows (b1 + i) = { s.rows (b1 + i) with owner := some app }) ∧
    (∀ j, ¬ (b1 ≤ j ∧ j < b1 + n) → ¬ (b2 ≤ j ∧ j < b2 + n) → out.1.rows j = s.rows j) ∧
    ¬ LoadSpec s.rows out.1.rows entries app b2 false true := by
  intro n b1 s1 b2 out
  have hs1 : s1 = { s with rows := claim s.rows b1 n app } := afterLostAlloc_eq pol s x y app n ha hb1
  have hfree1 : BlockFree s.rows b1 n := blockFree_of_pol hpol _ _ _ hb1
  have hfree2 : BlockFree s1.rows b2 n := blockFree_of_pol hpol _ _ _ hb2
  have hdisj : b1 + n ≤ b2 ∨ b2 + n ≤ b1 := by
    by_cases h : b1 + n ≤ b2 ∨ b2 + n ≤ b1
    · exact h
    · exfalso
      have hlt : b2 < b1 + n ∧ b1 < b2 + n := by omega
      have hown := hfree2.2.2 (max b1 b2 - b2) (by omega)
      have e : b2 + (max b1 b2 - b2) = max b1 b2 := by omega
      rw [e, hs1] at hown
      have hin : b1 ≤ max b1 b2 ∧ max b1 b2 < b1 + n := by omega
      simp [claim, hin] at hown
  have hlen : n < 65536 := by
    have := hfree2.2.1; simp only [rtrEntries] at this; omega
  have hsv1 : SvWord s1 svSdramSys buf := by rw [hs1]; exact hsv
  have hdis1 : buf + 16 * n ≤ s1.copyBase ∨ s1.copyBase + 16 * rtrEntries ≤ buf := by rw [hs1]; exact hdis
  have hrun : out = _ := load_run pol s1 scpLen x y app buf entries (.ret ()) hb ha hb2 hlen hr hsv1 hdis1
  have hrows : out.1.rows = (loadedChip s1 buf b2 app entries).rows := by rw [hrun]; rfl
  have hleak : ∀ i, i < n → out.1.rows (b1 + i) = { s.rows (b1 + i) with owner := some app } := by
    intro i hi
    rw [hrows, loaded_rows_out s1 buf b2 app entries (b1 + i) (by omega), hs1]
    have hin : b1 ≤ b1 + i ∧ b1 + i < b1 + n := by omega
    simp [claim, hin]
  refine ⟨hdisj, by rw [hrun]; rfl, by rw [hrun]; rfl, ?_, ?_, ?_, ?_⟩
  · rw [hrows]; exact loadedChip_spec s1 buf b2 app entries hb2
  · intro i hi
    exact ⟨hfree1.2.2 i hi, hleak i hi⟩
  · intro j h1 h2
    rw [hrows, loaded_rows_out s1 buf b2 app entries j h2, hs1]
    simp [claim, h1]
  · intro hspec
    have hb2' : b2 ≠ 0 := hb2
    unfold LoadSpec at hspec
    rw [if_neg hb2'] at hspec
    have hb1r : b1 + 0 < rtrEntries := by have := hfree1.2.1; omega
    have h := hspec.2.2 (b1 + 0) hb1r (by omega)
    rw [hleak 0 hn] at h
    have ho := hfree1.2.2 0 hn
    have : (some app : Option Nat) = (s.rows (b1 + 0)).owner := by rw [← h]
    rw [ho] at this
    cases this

/-- **Retransmitted allocation, second answer 0.**  If the second execution is refused (e.g. the
first one took the last free block), the call raises the router error and sends nothing else - the
clause "raises and installs nothing" holds - yet the block of the lost first answer stays owned by
the application with no entries: leaked until the application's rows are freed. -/
theorem alloc_retransmit_refused (pol : Pol) (s : Chip) (scpLen x y app : Nat) (entries : List Entry)
    (hpol : PolValid pol) (ha : app < 256) (hb1 : pol s.rows app entries.length ≠ 0)
    (hb2 : pol (afterLostAlloc pol s x y app entries.length).rows app entries.length = 0) :
    let n := entries.length
    let b1 := pol s.rows app n
    let s1 := afterLostAlloc pol s x y app n
    let out := run pol (loadEntries scpLen entries x y app (.ret ())) s1
    out = (s1, .error (.routerError n x y), [allocReq x y app n]) ∧
    LoadSpec s1.rows out.1.rows entries app 0 true false ∧
    (∀ i, i < n → (s.rows (b1 + i)).owner = none ∧
        out.1.rows (b1 + i) = { s.rows (b1 + i) with owner := some app }) := by
  intro n b1 s1 out
  have hs1 : s1 = { s with rows := claim s.rows b1 n app } := afterLostAlloc_eq pol s x y app n ha hb1
  have hfree1 : BlockFree s.rows b1 n := blockFree_of_pol hpol _ _ _ hb1
  have hf := load_alloc_failure pol s1 scpLen x y app entries (.ret ()) ha hb2
  have hout : out = _ := hf.1
  refine ⟨hout, by rw [hout]; exact hf.2, ?_⟩
  intro i hi
  refine ⟨hfree1.2.2 i hi, ?_⟩
  rw [hout]
  show s1.rows (b1 + i) = _
  rw [hs1]
  have hin : b1 ≤ b1 + i ∧ b1 + i < b1 + n := by omega
  simp [claim, hin]

/-- **The leak ends with the application.**  `clear_routing_table_entries` (and SC&MP's own clean-up
when the application is stopped: `free_rtr_by_app`) frees every row owned by the application -
including a leaked block. -/
theorem leak_recovered_by_clear (pol : Pol) (s : Chip) (x y app : Nat) (ha : app < 256) (j : Nat)
    (hown : (s.rows j).owner = some app) :
    ((run pol (clearEntries x y app) s).1.rows j).owner = none ∧
    ((run pol (clearEntries x y app) s).1.rows j).ent = none :=
  ((clear_exact pol s x y app ha).2 j).1 hown

/-- non-vacuity: a machine of empty routers with `sv` set up, two chips to load, first-fit
everywhere (all succeed) or chip (1,0) refusing (first failing chip is the second of the dict) -/
def exMachine : Machine := fun _ => exChip
def exTables : Tables :=
  [((0, 0), [{ route := [0, 8], key := 5, mask := 7, sources := [none] },
             { route := [23], key := 4294967295, mask := 4294967295, sources := [some 3] }]),
   ((1, 0), [{ route := [], key := 0, mask := 0, sources := [] }])]
def refuseAt (c : ChipXY) : ChipXY → Pol := fun c' => if c' = c then (fun _ _ _ => 0) else firstFit
theorem firstFit_valid : PolValid firstFit := by
  intro rows app n
  unfold firstFit
  cases h : (List.range rtrEntries).find? (fun b => decide (BlockFree rows b n)) with
  | none => exact Or.inl rfl
  | some b => exact Or.inr (by simpa using List.find?_some h)
example : (exTables.map (·.1)).Nodup ∧ (∀ c : ChipXY, PolValid ((fun _ => firstFit : ChipXY → Pol) c)) ∧
    (∀ ct ∈ exTables, ChipReady (exMachine ct.1) ct.2 0x60001000) ∧
    (∀ ct ∈ exTables, baseOf (fun _ => firstFit) exMachine 7 ct ≠ 0) := by
  refine ⟨by decide, fun _ => firstFit_valid, ?_, ?_⟩
  · intro ct hct
    have hsv : SvWord exChip svSdramSys 0x60001000 := ⟨by decide, by decide +kernel, by decide +kernel⟩
    refine ⟨?_, hsv, ?_⟩
    · simp only [exTables, List.mem_cons, List.not_mem_nil, or_false] at hct
      rcases hct with rfl | rfl <;> simp [Entry.InRange]
    · simp only [exTables, List.mem_cons, List.not_mem_nil, or_false] at hct
      rcases hct with rfl | rfl <;> simp [exMachine, exChip, rtrEntries]
  · intro ct hct
    simp only [exTables, List.mem_cons, List.not_mem_nil, or_false] at hct
    rcases hct with rfl | rfl <;> (simp only [baseOf, exMachine]; decide +kernel)
example : (∀ c, PolValid (refuseAt (1, 0) c)) ∧
    baseOf (refuseAt (1, 0)) exMachine 7 ((0, 0), [dfltEntry]) ≠ 0 ∧
    baseOf (refuseAt (1, 0)) exMachine 7 ((1, 0), [dfltEntry]) = 0 := by
  refine ⟨?_, by simp only [baseOf, exMachine]; decide +kernel, by simp [baseOf, refuseAt]⟩
  intro c
  unfold refuseAt
  split
  · intro _ _ _; exact Or.inl rfl
  · exact firstFit_valid

/-- non-vacuity of the retransmission theorems: first fit on an empty router answers 1, then 4 for
three rows; a policy that grants only while row 1 is free answers 1, then 0 -/
example : firstFit exChip.rows 7 3 = 1 ∧ firstFit (afterLostAlloc firstFit exChip 0 0 7 3).rows 7 3 = 4 := by
  refine ⟨by decide +kernel, ?_⟩
  rw [afterLostAlloc_eq firstFit exChip 0 0 7 3 (by decide) (by decide +kernel)]
  decide +kernel
def onceOnly : Pol := fun rows app n => if (rows 1).owner = none then firstFit rows app n else 0
example : PolValid onceOnly ∧ onceOnly exChip.rows 7 3 = 1 ∧
    onceOnly (afterLostAlloc onceOnly exChip 0 0 7 3).rows 7 3 = 0 := by
  refine ⟨?_, by decide +kernel, ?_⟩
  · intro rows app n
    unfold onceOnly
    split
    · exact firstFit_valid rows app n
    · exact Or.inl rfl
  · rw [afterLostAlloc_eq onceOnly exChip 0 0 7 3 (by decide) (by decide +kernel)]
    decide +kernel

/-- non-vacuity of `trees_to_router`: the example forest of Props/C10 is in range, converts, and the
example machine grants every allocation -/
example : (∀ o ∈ allOccs exNets, o.key < 4294967296 ∧ o.mask < 4294967296 ∧ ∀ r ∈ o.v.outs, r < 24) ∧
    (∃ T, treeTables exNets = .ok T ∧ ∀ ct ∈ T, baseOf (fun _ => firstFit) exMachine 7 ct ≠ 0) := by
  refine ⟨by decide,
    [((0, 0), [{ route := [0], key := 5, mask := 7, sources := [none] }]),
     ((1, 0), [{ route := [8], key := 5, mask := 7, sources := [some 3, none] }])], by rfl, ?_⟩
  intro ct hct
  simp only [List.mem_cons, List.not_mem_nil, or_false] at hct
  rcases hct with rfl | rfl <;> (simp only [baseOf, exMachine]; decide +kernel)

end Rig.C10
