/-
C10 (companion) - cross-model: C10's routing table entries (keys/masks as naturals, route and
sources as lists) and C04's (`BitVec 32` key/mask, route and sources as bit sets; bit 24 of
`sources` = `None`).  The conversions preserve `matches` and first-match `lookup`, so tables
produced by `treeTables` can be fed to C04's theorems (`RouteEquiv`, minimisation) - needed by
the end-to-end property C01.
-/
import RigModel.Model.C04
import RigModel.Model.C10
import RigModel.Lemmas.C10Bits
import RigModel.Lemmas.C10Load
import RigModel.Props.C10
set_option linter.unusedSimpArgs false
set_option linter.unusedVariables false

namespace Rig.C10
open Rig.Gen.Router

/-! the conversions `toC04` / `ofC04` are defined in Model/C10.lean (the driver evaluates them) -/

/-- sources as the tree conversion produces them: `None` or one of the 24 routes -/
def SrcOk (s : Option Nat) : Prop := ∀ l, s = some l → l < 24

theorem ofNat32_beq (a b : Nat) (ha : a < 2 ^ 32) (hb : b < 2 ^ 32) :
    (BitVec.ofNat 32 a == BitVec.ofNat 32 b) = (a == b) := by
  rw [Bool.eq_iff_iff]
  simp only [beq_iff_eq]
  constructor
  · intro h
    have := congrArg BitVec.toNat h
    simp only [BitVec.toNat_ofNat] at this
    omega
  · intro h; rw [h]

/-- **`matches` is preserved** (32-bit key, mask and packet key) -/
theorem toC04_matches (e : Entry) (k : Nat) (hk : e.key < 4294967296) (hm : e.mask < 4294967296)
    (hkk : k < 4294967296) : (toC04 e).matches (BitVec.ofNat 32 k) = e.matches k := by
  simp only [Rig.C04.Entry.matches, Entry.matches, toC04, ← BitVec.ofNat_and]
  exact ofNat32_beq _ _ (Nat.and_lt_two_pow k (by simpa using hm)) (by simpa using hk)

/-- **First-match lookup is preserved.**  For a table of entries with 32-bit keys and masks and every
32-bit packet key, C04's `lookup` on the converted table finds the conversion of what C10's `lookup`
finds (same position, `none` iff `none`). -/
theorem toC04_lookup (T : List Entry) (k : Nat) (hT : ∀ e ∈ T, e.key < 4294967296 ∧ e.mask < 4294967296)
    (hk : k < 4294967296) :
    Rig.C04.lookup (T.map toC04) (BitVec.ofNat 32 k) = (lookup T k).map toC04 := by
  induction T with
  | nil => rfl
  | cons e T ih =>
    have he := hT e (by simp)
    have ih' := ih (fun e' h' => hT e' (by simp [h']))
    simp only [Rig.C04.lookup, lookup, List.map_cons, List.find?_cons] at ih' ⊢
    rw [toC04_matches e k he.1 he.2 hk]
    cases e.matches k with
    | true => rfl
    | false => exact ih'

theorem ofC04_matches (e : Rig.C04.Entry) (k : Rig.C04.W) : (ofC04 e).matches k.toNat = e.matches k := by
  simp only [Rig.C04.Entry.matches, Entry.matches, ofC04, ← BitVec.toNat_and]
  rw [Bool.eq_iff_iff]
  simp only [beq_iff_eq]
  exact ⟨fun h => BitVec.eq_of_toNat_eq h, fun h => by rw [h]⟩

/-- the other direction: C10's `lookup` on a C04 table read as C10 entries -/
theorem ofC04_lookup (T : List Rig.C04.Entry) (k : Rig.C04.W) :
    lookup (T.map ofC04) k.toNat = (Rig.C04.lookup T k).map ofC04 := by
  induction T with
  | nil => rfl
  | cons e T ih =>
    simp only [Rig.C04.lookup, lookup, List.map_cons, List.find?_cons] at ih ⊢
    rw [ofC04_matches e k]
    cases e.matches k with
    | true => rfl
    | false => exact ih

/-- **The converted route word has exactly the entry's route bits** (any bit) -/
theorem toC04_route_bits (e : Entry) (b : Nat) : (toC04 e).route.testBit b = true ↔ b ∈ e.route :=
  routeWord_testBit e.route b

/-- **The converted sources word**: bit 24 is set iff `None` is a source, bit `l ≠ 24` iff link/route
`l` is -/
theorem toC04_sources_bits (e : Entry) (hs : ∀ s ∈ e.sources, SrcOk s) :
    ((toC04 e).sources.testBit 24 = true ↔ none ∈ e.sources) ∧
    (∀ l, l ≠ 24 → ((toC04 e).sources.testBit l = true ↔ some l ∈ e.sources)) := by
  simp only [toC04, srcWord, routeWord_testBit, List.mem_map]
  constructor
  · constructor
    · rintro ⟨s, hs', hb⟩
      cases s with
      | none => exact hs'
      | some l =>
        simp only [srcBit] at hb
        have := hs _ hs' l rfl
        omega
    · intro h; exact ⟨none, h, rfl⟩
  · intro l hl
    constructor
    · rintro ⟨s, hs', hb⟩
      cases s with
      | none => simp only [srcBit] at hb; omega
      | some l' => simp only [srcBit] at hb; rw [← hb]; exact hs'
    · intro h; exact ⟨some l, h, rfl⟩

theorem mem_bitsOf (w n b : Nat) : b ∈ bitsOf w n ↔ b < n ∧ w.testBit b = true := by
  simp [bitsOf, List.mem_filter]

theorem routeWord_bitsOf (w n : Nat) (h : w < 2 ^ n) : routeWord (bitsOf w n) = w := by
  apply Nat.eq_of_testBit_eq
  intro i
  rw [Bool.eq_iff_iff, routeWord_testBit, mem_bitsOf]
  constructor
  · exact fun h' => h'.2
  · intro hi
    refine ⟨?_, hi⟩
    by_cases hlt : i < n
    · exact hlt
    · have : w.testBit i = false :=
        Nat.testBit_lt_two_pow (Nat.lt_of_lt_of_le h (Nat.pow_le_pow_right (by decide) (by omega)))
      rw [this] at hi; cases hi

theorem srcBit_srcOfBit (b : Nat) : srcBit (srcOfBit b) = b := by
  unfold srcOfBit
  split
  · next h => simp [srcBit, h]
  · rfl

/-- **Round trip on the C04 side**: a C04 entry with a 24-bit route word and 25-bit sources word is
recovered exactly -/
theorem toC04_ofC04 (e : Rig.C04.Entry) (hr : e.route < 2 ^ 24) (hs : e.sources < 2 ^ 25) :
    toC04 (ofC04 e) = e := by
  have h1 : routeWord (bitsOf e.route 24) = e.route := routeWord_bitsOf _ _ hr
  have h2 : srcWord ((bitsOf e.sources 25).map srcOfBit) = e.sources := by
    unfold srcWord
    rw [List.map_map]
    have : (srcBit ∘ srcOfBit) = id := by funext b; exact srcBit_srcOfBit b
    rw [this, List.map_id]
    exact routeWord_bitsOf _ _ hs
  cases e
  simp only [toC04, ofC04, BitVec.ofNat_toNat, BitVec.setWidth_eq] at h1 h2 ⊢
  simp only [h1, h2]

/-- **Round trip on the C10 side**: same key and mask, same route set, same source set (lists are
compared as sets, which is all either model observes) -/
theorem ofC04_toC04 (e : Entry) (hk : e.key < 4294967296) (hm : e.mask < 4294967296)
    (hr : ∀ r ∈ e.route, r < 24) (hs : ∀ s ∈ e.sources, SrcOk s) :
    (ofC04 (toC04 e)).key = e.key ∧ (ofC04 (toC04 e)).mask = e.mask ∧
    (∀ r, r ∈ (ofC04 (toC04 e)).route ↔ r ∈ e.route) ∧
    (∀ s, s ∈ (ofC04 (toC04 e)).sources ↔ s ∈ e.sources) := by
  refine ⟨?_, ?_, ?_, ?_⟩
  · simp only [ofC04, toC04, BitVec.toNat_ofNat]; omega
  · simp only [ofC04, toC04, BitVec.toNat_ofNat]; omega
  · intro r
    simp only [ofC04, toC04, mem_bitsOf, routeWord_testBit]
    exact ⟨fun h => h.2, fun h => ⟨hr r h, h⟩⟩
  · intro s
    have hb := toC04_sources_bits e hs
    simp only [ofC04, List.mem_map, mem_bitsOf]
    constructor
    · rintro ⟨b, ⟨hb25, hbit⟩, rfl⟩
      unfold srcOfBit
      split
      · next h => subst h; exact hb.1.1 hbit
      · next h => exact (hb.2 b h).1 hbit
    · intro hmem
      cases s with
      | none => exact ⟨24, ⟨by omega, hb.1.2 hmem⟩, by simp [srcOfBit]⟩
      | some l =>
        have hl := hs _ hmem l rfl
        exact ⟨l, ⟨by omega, (hb.2 l (by omega)).2 hmem⟩, by simp [srcOfBit]; omega⟩

/-! ### tables from trees, read by C04 -/

/-- **What C04's lookup finds in a table computed from trees.**  For well-formed trees in the
documented range whose conversion returns `T`, any chip `ct` of `T` and any 32-bit packet key `k`: if
C04's first-match `lookup` on the converted table finds `e4`, then `e4` is the conversion of an entry
`e` of that chip that matches `k`, is the first such in table order, and its route word has exactly
the bits of the directions by which the tree nodes on that chip under `(e.key, e.mask)` leave it and
its sources word exactly the links they arrive by (bit 24 for roots). -/
theorem treeTables_c04_lookup (nets : List Net) (hwf : ∀ n ∈ nets, n.tree.WF)
    (hdom : ∀ o ∈ allOccs nets, o.key < 4294967296 ∧ o.mask < 4294967296 ∧ ∀ r ∈ o.v.outs, r < 24)
    (T : Tables) (hT : treeTables nets = .ok T) (ct : ChipXY × List Entry) (hct : ct ∈ T)
    (k : Nat) (hk : k < 4294967296) (e4 : Rig.C04.Entry)
    (h : Rig.C04.lookup (ct.2.map toC04) (BitVec.ofNat 32 k) = some e4) :
    ∃ e, lookup ct.2 k = some e ∧ e ∈ ct.2 ∧ e4 = toC04 e ∧ e.matches k = true ∧
      (∀ b, e4.route.testBit b = true ↔ ∃ o ∈ allOccs nets, o.at ct.1 e.key e.mask ∧ b ∈ o.v.outs) ∧
      (e4.sources.testBit 24 = true ↔ ∃ o ∈ allOccs nets, o.at ct.1 e.key e.mask ∧ o.v.dir = none) ∧
      (∀ l, l < 6 → (e4.sources.testBit l = true ↔
          ∃ o ∈ allOccs nets, o.at ct.1 e.key e.mask ∧ srcOf o.v.dir = some l)) := by
  have hex := (tables_exact nets hwf T hT).1
  have hkm : ∀ e ∈ ct.2, e.key < 4294967296 ∧ e.mask < 4294967296 := by
    intro e he
    obtain ⟨⟨o, ho, hat⟩, _⟩ := (hex.2.2 ct hct).2.2.1 e he
    exact ⟨by rw [← hat.2.1]; exact (hdom o ho).1, by rw [← hat.2.2]; exact (hdom o ho).2.1⟩
  rw [toC04_lookup ct.2 k hkm hk] at h
  cases hl : lookup ct.2 k with
  | none => rw [hl] at h; cases h
  | some e =>
    rw [hl] at h
    simp only [Option.map_some, Option.some.injEq] at h
    have hfound := List.find?_some hl
    have hmem : e ∈ ct.2 := List.mem_of_find?_eq_some hl
    obtain ⟨_, hr1, hr2, hs1, hs2⟩ := (hex.2.2 ct hct).2.2.1 e hmem
    have hsok : ∀ s ∈ e.sources, SrcOk s := by
      intro s hs l hsl
      obtain ⟨o, _, _, ho⟩ := hs1 s hs
      rw [hsl] at ho
      cases hd : o.v.dir with
      | none => rw [hd] at ho; cases ho
      | some r =>
        rw [hd] at ho
        simp only [srcOf, Option.map_some, Option.some.injEq] at ho
        omega
    have hb := toC04_sources_bits e hsok
    refine ⟨e, rfl, hmem, h.symm, hfound, ?_, ?_, ?_⟩
    · intro b
      rw [← h, toC04_route_bits]
      exact ⟨fun hb' => hr1 b hb', fun ⟨o, ho, hat, hb'⟩ => hr2 o ho hat b hb'⟩
    · rw [← h, hb.1]
      constructor
      · intro hn
        obtain ⟨o, ho, hat, hsrc⟩ := hs1 none hn
        refine ⟨o, ho, hat, ?_⟩
        cases hd : o.v.dir with
        | none => rfl
        | some r => rw [hd] at hsrc; cases hsrc
      · rintro ⟨o, ho, hat, hd⟩
        have := hs2 o ho hat
        rw [hd] at this
        exact this
    · intro l hl6
      rw [← h, hb.2 l (by omega)]
      exact ⟨fun hn => hs1 _ hn, fun ⟨o, ho, hat, hsrc⟩ => hsrc ▸ hs2 o ho hat⟩

/-! ### what the router does with a loaded table -/

theorem findSome_none {α β : Type} (f : α → Option β) : ∀ l : List α, (∀ a ∈ l, f a = none) → l.findSome? f = none
  | [], _ => rfl
  | a :: l, h => by
    simp only [List.findSome?_cons, h a (by simp)]
    exact findSome_none f l (fun b hb => h b (by simp [hb]))

theorem findSome_block (f : Nat → Option Ent) (g : Entry → Option Ent) :
    ∀ (entries : List Entry) (b : Nat), (∀ i, i < entries.length → f (b + i) = g (entries.getD i dfltEntry)) →
      (List.range' b entries.length).findSome? f = entries.findSome? g
  | [], _, _ => rfl
  | e :: es, b, h => by
    simp only [List.length_cons, List.range'_succ, List.findSome?_cons]
    have h0 := h 0 (by simp)
    simp only [Nat.add_zero, List.getD_cons_zero] at h0
    rw [h0]
    have ih := findSome_block f g es (b + 1) (by
      intro i hi
      have := h (i + 1) (by simp; omega)
      simp only [List.getD_cons_succ] at this
      rw [← this]; congr 1; omega)
    rw [ih]

theorem lookup_findSome (entries : List Entry) (k app : Nat) :
    entries.findSome? (fun e => if e.matches k then some (entOf app e) else none) =
      (lookup entries k).map (entOf app) := by
  induction entries with
  | nil => rfl
  | cons e es ih =>
    simp only [List.findSome?_cons, lookup, List.find?_cons] at ih ⊢
    cases e.matches k with
    | true => rfl
    | false => exact ih

/-- **What the router does after a load.**  If no used row outside the loaded block matches key `k`,
the router's first-match decision for `k` is the table's first-match `lookup`, as the row the entry
became (same key, mask, route word; the application's id). -/
theorem loaded_router_lookup (s : Chip) (buf b app : Nat) (entries : List Entry) (k : Nat)
    (hb : b + entries.length ≤ rtrEntries)
    (hother : ∀ j, j < rtrEntries → ¬ (b ≤ j ∧ j < b + entries.length) → rowHit s.rows k j = none) :
    routerLookup (loadedChip s buf b app entries).rows k = (lookup entries k).map (entOf app) := by
  have hsplit : List.range rtrEntries =
      List.range' 0 b ++ (List.range' b entries.length ++ List.range' (b + entries.length) (rtrEntries - (b + entries.length))) := by
    rw [List.range_eq_range', List.range'_append_1]
    have := @List.range'_append_1 0 b (entries.length + (rtrEntries - (b + entries.length)))
    rw [Nat.zero_add] at this
    rw [this]; congr 1; omega
  unfold routerLookup
  rw [hsplit, List.findSome?_append, List.findSome?_append]
  have hpre : (List.range' 0 b).findSome? (rowHit (loadedChip s buf b app entries).rows k) = none := by
    apply findSome_none
    intro j hj
    have hj' : j < b := by simpa [List.mem_range'_1] using hj
    have hout : ¬ (b ≤ j ∧ j < b + entries.length) := by omega
    simp only [rowHit, loaded_rows_out s buf b app entries j hout]
    exact hother j (by omega) hout
  have hpost : (List.range' (b + entries.length) (rtrEntries - (b + entries.length))).findSome?
      (rowHit (loadedChip s buf b app entries).rows k) = none := by
    apply findSome_none
    intro j hj
    have hj' : b + entries.length ≤ j ∧ j < rtrEntries := by
      simp only [List.mem_range'_1] at hj; omega
    have hout : ¬ (b ≤ j ∧ j < b + entries.length) := by omega
    simp only [rowHit, loaded_rows_out s buf b app entries j hout]
    exact hother j hj'.2 hout
  rw [hpre, hpost]
  simp only [Option.none_or, Option.or_none]
  rw [findSome_block (rowHit (loadedChip s buf b app entries).rows k)
    (fun e => if e.matches k then some (entOf app e) else none) entries b (by
      intro i hi
      simp only [rowHit, loaded_rows_in s buf b app entries i hi]
      rfl)]
  exact lookup_findSome entries k app

/-- **... and that is what C04's model computes**: the route word the router applies to a 32-bit key `k`
after the load is the route of C04's first-match `lookup` on the converted table (none iff none) - the
link between the router contents proved by `load_exact` and the tables C04's theorems speak about. -/
theorem loaded_router_lookup_c04 (s : Chip) (buf b app : Nat) (entries : List Entry) (k : Nat)
    (hb : b + entries.length ≤ rtrEntries)
    (hT : ∀ e ∈ entries, e.key < 4294967296 ∧ e.mask < 4294967296) (hk : k < 4294967296)
    (hother : ∀ j, j < rtrEntries → ¬ (b ≤ j ∧ j < b + entries.length) → rowHit s.rows k j = none) :
    (routerLookup (loadedChip s buf b app entries).rows k).map (·.route) =
      (Rig.C04.lookup (entries.map toC04) (BitVec.ofNat 32 k)).map (·.route) := by
  rw [loaded_router_lookup s buf b app entries k hb hother, toC04_lookup entries k hT hk]
  cases lookup entries k <;> rfl

/-- non-vacuity of `hother`: on a router without used rows no row matches anything; and the router
decision after loading two entries at rows 1, 2 for key 12 is the second entry -/
example : ∀ k j, rowHit exChip.rows k j = none := fun _ _ => rfl
example : routerLookup (loadedChip exChip 0x60001000 1 7
      [{ route := [0], key := 5, mask := 7, sources := [none] },
       { route := [8], key := 4, mask := 6, sources := [some 3, none] }]).rows 12 =
    some { route := 256, key := 4, mask := 6, app := 7, core := 0 } := by decide +kernel

/-- non-vacuity: an entry with all kinds of sources converts to the expected words and back -/
example : toC04 { route := [0, 8, 23], key := 5, mask := 4294967295, sources := [some 3, none] } =
    { route := 8388865, key := 5#32, mask := 4294967295#32, sources := 16777224 } := by decide
example : ofC04 { route := 8388865, key := 5#32, mask := 4294967295#32, sources := 16777224 } =
    { route := [0, 8, 23], key := 5, mask := 4294967295, sources := [some 3, none] } := by decide
example : ∃ e4, Rig.C04.lookup (([{ route := [0], key := 5, mask := 7, sources := [none] },
      { route := [8], key := 4, mask := 6, sources := [some 3, none] }] : List Entry).map toC04) (BitVec.ofNat 32 12)
      = some e4 ∧ e4.route = 256 :=
  ⟨toC04 { route := [8], key := 4, mask := 6, sources := [some 3, none] }, by decide, by decide⟩

end Rig.C10
