/-
C02 (companion) - the control skeleton of the annealing temperature schedule (Model/C02Sched.lean):
what CAN be proved about termination of `sa.place` when temperatures and costs are floats.

* every pass through the loop performs exactly `num_steps` kernel steps (`schedLoop_steps`);
* if the float test of the loop head eventually reports `cooled` (pass `N`), the loop ends within
  `N` passes and `sa.place` has made at most `len(movable) + N * num_steps` kernel steps
  (`schedLoop_terminates_under_cooling`, `saPlace_terminates_under_cooling`);
* without that hypothesis the loop need not end: there is a problem and a kernel state on which,
  with an oracle that never reports `cooled`, `zero cost` or a callback stop, the loop runs out of
  EVERY fuel (`schedLoop_diverges_without_cooling`, kernel-checked) - and in general no run whose
  oracle never reports one of the three ever returns (`schedLoop_needs_a_stop`).  So "the
  temperature test eventually fails" is a necessary hypothesis; it is a property of IEEE double
  arithmetic (a positive double multiplied by a factor <= 0.95 per pass reaches 0.0 after at most
  about 28400 passes, and `0.0 > x` is false for every x >= 0; NaN compares false at once), listed
  in the trusted base;
* the scheduled run is a run of `Rig.C02.saPlace` on the concatenated proposals
  (`saPlaceSched_refines_saPlace`), so `saPlace_sound` / `saPlace_documented` apply to it:
  `saPlaceSched_sound`.
-/
import RigModel.Model.C02Sched
import RigModel.Props.C02
set_option linter.unusedSimpArgs false
set_option linter.unusedVariables false
set_option linter.unusedSectionVars false

namespace Rig.C02Sched
open Rig.C02

/-! ### kernel runs -/

theorem saRun_append (vr : VR) (fixed : List Vtx) :
    ∀ (a b : List Step) (s : SA) (fl : List Bool),
      saRun vr fixed (a ++ b) s fl =
        match saRun vr fixed a s fl with
        | .error e => .error e
        | .ok (s', fl') => saRun vr fixed b s' fl' := by
  intro a
  induction a with
  | nil => intro b s fl; simp [saRun]
  | cons st rest ih =>
    intro b s fl
    simp only [List.cons_append, saRun, bind, Except.bind]
    cases hs : saStep vr fixed s st.src st.dst st.accept with
    | error e => simp
    | ok r =>
      obtain ⟨s', f⟩ := r
      simp only
      exact ih b s' (fl ++ [f])

theorem saRun_flags (vr : VR) (fixed : List Vtx) :
    ∀ (a : List Step) (s s' : SA) (fl fl' : List Bool), saRun vr fixed a s fl = .ok (s', fl') →
      fl'.length = fl.length + a.length := by
  intro a
  induction a with
  | nil => intro s s' fl fl' h; simp only [saRun] at h; injection h with h; injection h with h1 h2; subst h2; simp
  | cons st rest ih =>
    intro s s' fl fl' h
    simp only [saRun, bind, Except.bind] at h
    cases hs : saStep vr fixed s st.src st.dst st.accept with
    | error e => simp [hs] at h
    | ok r =>
      obtain ⟨s1, f⟩ := r
      simp only [hs] at h
      have := ih _ _ _ _ h
      simp only [List.length_append, List.length_cons, List.length_nil] at this ⊢
      omega

/-! ### the loop -/

/-- **Every pass performs exactly `num_steps` kernel steps**: when the loop returns after passes
`i .. out.iterations - 1`, it has made `(out.iterations - i) * num_steps` calls of `_step`, one
`swapped` flag each, and it has not used more passes than its fuel. -/
theorem schedLoop_steps (vr : VR) (fixed : List Vtx) (numSteps : Nat) (o : Nat → Tick) :
    ∀ (fuel i : Nat) (s : SA) (fl : List Bool) (ks : Nat) (out : Out),
      schedLoop vr fixed numSteps o fuel i s fl ks = .ok out →
      i ≤ out.iterations ∧ out.iterations ≤ i + fuel ∧
      out.kernelSteps = ks + (out.iterations - i) * numSteps ∧
      out.flags.length = fl.length + (out.iterations - i) * numSteps := by
  intro fuel
  induction fuel with
  | zero =>
    intro i s fl ks out h
    simp only [schedLoop] at h
    split at h
    · simp at h
    · injection h with h; subst h; simp
  | succ n ih =>
    intro i s fl ks out h
    simp only [schedLoop] at h
    split at h
    · split at h
      · rename_i hlen
        cases hr : saRun vr fixed (o i).steps s fl with
        | error e => simp [hr] at h
        | ok r =>
          obtain ⟨s', fl'⟩ := r
          simp only [hr] at h
          have hfl := saRun_flags vr fixed _ _ _ _ _ hr
          rw [hlen] at hfl
          split at h
          · injection h with h; subst h
            refine ⟨?_, ?_, ?_, ?_⟩ <;> simp only [Nat.add_sub_cancel_left, Nat.one_mul] <;> omega
          · split at h
            · injection h with h; subst h
              refine ⟨?_, ?_, ?_, ?_⟩ <;> simp only [Nat.add_sub_cancel_left, Nat.one_mul] <;> omega
            · obtain ⟨a, b, c, d⟩ := ih _ _ _ _ _ h
              have e : out.iterations - i = (out.iterations - (i + 1)) + 1 := by omega
              rw [e, Nat.add_mul, Nat.one_mul]
              omega
      · simp at h
    · injection h with h; subst h; simp

/-- **Termination under cooling**: if the loop test is false at pass `i + N`, then `N` passes of
fuel suffice - the loop does not report `fuel`. -/
theorem schedLoop_terminates_under_cooling (vr : VR) (fixed : List Vtx) (numSteps : Nat) (o : Nat → Tick) :
    ∀ (fuel N i : Nat) (s : SA) (fl : List Bool) (ks : Nat), (o (i + N)).hot = false → N ≤ fuel →
      schedLoop vr fixed numSteps o fuel i s fl ks ≠ .error .fuel := by
  intro fuel
  induction fuel with
  | zero =>
    intro N i s fl ks hc hN
    have : N = 0 := by omega
    subst this
    simp only [Nat.add_zero] at hc
    simp [schedLoop, hc]
  | succ n ih =>
    intro N i s fl ks hc hN
    simp only [schedLoop]
    split
    · rename_i hhot
      have hN0 : N ≠ 0 := by
        intro e; subst e; simp only [Nat.add_zero] at hc; rw [hc] at hhot; simp at hhot
      split
      · cases hr : saRun vr fixed (o i).steps s fl with
        | error e => simp
        | ok r =>
          obtain ⟨s', fl'⟩ := r
          simp only
          split
          · simp
          · split
            · simp
            · apply ih (N - 1)
              · rw [show i + 1 + (N - 1) = i + N by omega]; exact hc
              · omega
      · simp
    · simp

/-- the loop does not pass a pass whose loop test is false -/
theorem schedLoop_stops_at_cooled (vr : VR) (fixed : List Vtx) (numSteps : Nat) (o : Nat → Tick) :
    ∀ (fuel i : Nat) (s : SA) (fl : List Bool) (ks : Nat) (out : Out) (N : Nat),
      schedLoop vr fixed numSteps o fuel i s fl ks = .ok out → i ≤ N → (o N).hot = false →
      out.iterations ≤ N := by
  intro fuel
  induction fuel with
  | zero =>
    intro i s fl ks out N h hiN hc
    simp only [schedLoop] at h
    split at h
    · simp at h
    · injection h with h; subst h; exact hiN
  | succ n ih =>
    intro i s fl ks out N h hiN hc
    simp only [schedLoop] at h
    split at h
    · rename_i hhot
      have hne : i ≠ N := by intro e; subst e; rw [hc] at hhot; simp at hhot
      split at h
      · cases hr : saRun vr fixed (o i).steps s fl with
        | error e => simp [hr] at h
        | ok r =>
          obtain ⟨s', fl'⟩ := r
          simp only [hr] at h
          split at h
          · injection h with h; subst h; simp only; omega
          · split at h
            · injection h with h; subst h; simp only; omega
            · exact ih _ _ _ _ _ N h (by omega) hc
      · simp at h
    · injection h with h; subst h; exact hiN

/-- without a reported stop the loop never returns: if no pass reports `cooled`, `zero cost` or a
callback stop, the result is an error for every fuel (`fuel`, or an earlier kernel error) -/
theorem schedLoop_needs_a_stop (vr : VR) (fixed : List Vtx) (numSteps : Nat) (o : Nat → Tick)
    (hgo : ∀ j, (o j).hot = true ∧ (o j).zeroCost = false ∧ (o j).cbStop = false) :
    ∀ (fuel i : Nat) (s : SA) (fl : List Bool) (ks : Nat) (out : Out),
      schedLoop vr fixed numSteps o fuel i s fl ks ≠ .ok out := by
  intro fuel
  induction fuel with
  | zero => intro i s fl ks out; simp [schedLoop, (hgo i).1]
  | succ n ih =>
    intro i s fl ks out
    obtain ⟨h1, h2, h3⟩ := hgo i
    simp only [schedLoop, h1, h2, h3, if_true]
    split
    · cases hr : saRun vr fixed (o i).steps s fl with
      | error e => simp
      | ok r =>
        obtain ⟨s', fl'⟩ := r
        simp only [Bool.false_eq_true, if_false]
        exact ih _ _ _ _ out
    · simp

/-! ### the counterexample: the cooling hypothesis is necessary -/

/-- two vertices needing one core each on a 2 x 1 machine with one core per chip -/
def exVr : VR := [(.o 0, [1]), (.o 1, [1])]
def exM : Machine := { w := 2, h := 1, res := [0], exc := [], dead := [] }
/-- the kernel state: vertex 0 on chip (0,0), vertex 1 on chip (1,0), nothing free -/
def exS : SA := { m := exM, p := [(.o 0, (0, 0)), (.o 1, (1, 0))],
                  l2v := [((0, 0), [.o 0]), ((1, 0), [.o 1])] }
/-- a pass whose single proposal draws a destination outside the machine (`_step` returns
`(False, 0.0)`: nothing is swapped), after which the temperature test is still true, the cost is
not 0 and no callback stops the run -/
def exTick : Tick := { hot := true, steps := [⟨.o 0, (5, 5), false⟩], zeroCost := false, cbStop := false }

theorem exStep : saStep exVr [] exS (.o 0) (5, 5) false = .ok (exS, false) := rfl

/-- **The cooling hypothesis is necessary** (kernel-checked counterexample): on the state above, with
`num_steps = 1` and an oracle that never reports `cooled`, the loop runs out of EVERY fuel. -/
theorem schedLoop_diverges_without_cooling :
    ∀ (fuel i : Nat) (fl : List Bool) (ks : Nat),
      schedLoop exVr [] 1 (fun _ => exTick) fuel i exS fl ks = .error .fuel := by
  intro fuel
  induction fuel with
  | zero => intro i fl ks; simp [schedLoop, exTick]
  | succ n ih =>
    intro i fl ks
    have hr : ∀ fl, saRun exVr [] exTick.steps exS fl = .ok (exS, fl ++ [false]) := by
      intro fl
      simp only [exTick, saRun, bind, Except.bind, exStep]
    simp only [schedLoop]
    rw [hr]
    simp only [exTick, List.length_singleton, if_true, Bool.false_eq_true, if_false]
    exact ih _ _ _

/-! ### the whole of `sa.place` -/

/-- **`sa.place` terminates under cooling**: if the oracle reports `cooled` at pass `N`, then with
`N` passes of fuel the model of `sa.place` never reports `fuel`; and when it returns it has made at
most `len(warm) + N * num_steps` kernel steps. -/
theorem saPlace_terminates_under_cooling (vr : VR) (cs : List Constraint) (m : Machine) (locs : List Chip)
    (vs : List Vtx) (warm : List Step) (numSteps : Nat) (o : Nat → Tick) (fuel N : Nat)
    (hcool : (o N).hot = false) (hfuel : N ≤ fuel) :
    saPlaceSched vr cs m locs vs warm numSteps o fuel ≠ .error .fuel ∧
    ∀ p out, saPlaceSched vr cs m locs vs warm numSteps o fuel = .ok (p, out) →
      out.iterations ≤ N ∧ out.kernelSteps ≤ warm.length + N * numSteps := by
  unfold saPlaceSched
  cases hA : applySame vr cs with
  | error e => simp
  | ok r =>
    obtain ⟨vr', cs', subs⟩ := r
    simp only
    cases hP : prepareLoop vr' cs' m [] with
    | error e => simp
    | ok r2 =>
      obtain ⟨m', fixed⟩ := r2
      simp only
      cases hI : initialPlacement vr' m' locs vs with
      | error e => simp
      | ok r3 =>
        obtain ⟨m'', init⟩ := r3
        simp only
        cases hL : mkL2v m'' (List.foldl (fun q (vc : Vtx × Chip) => aset q vc.1 vc.2) init fixed) with
        | error e => simp
        | ok l2v =>
          simp only
          cases hW : saRun vr' (keys fixed) warm
              { m := m'', p := List.foldl (fun q (vc : Vtx × Chip) => aset q vc.1 vc.2) init fixed, l2v := l2v } [] with
          | error e => simp
          | ok r4 =>
            obtain ⟨s1, fl1⟩ := r4
            simp only
            have hT := schedLoop_terminates_under_cooling vr' (keys fixed) numSteps o fuel N 0 s1 fl1 warm.length
              (by simpa using hcool) hfuel
            cases hS : schedLoop vr' (keys fixed) numSteps o fuel 0 s1 fl1 warm.length with
            | error e =>
              have : e ≠ .fuel := fun he => hT (by rw [hS, he])
              simp [this]
            | ok out =>
              simp only
              obtain ⟨a, b, c, d⟩ := schedLoop_steps vr' (keys fixed) numSteps o fuel 0 s1 fl1 warm.length out hS
              -- the loop cannot pass the first pass that reports `cooled`
              have hit : out.iterations ≤ N :=
                schedLoop_stops_at_cooled vr' (keys fixed) numSteps o fuel 0 s1 fl1 warm.length out N hS
                  (Nat.zero_le _) hcool
              cases hF : finalise subs out.sa.p with
              | error e => simp
              | ok p =>
                simp only
                refine ⟨by simp, ?_⟩
                intro p' out' h
                injection h with h; injection h with h1 h2; subst h2
                refine ⟨hit, ?_⟩
                rw [c]
                have : (out.iterations - 0) * numSteps ≤ N * numSteps := Nat.mul_le_mul_right _ (by omega)
                omega

/-! ### the scheduled run is a run of `saPlace` -/

/-- the loop is the kernel run over the concatenated proposals of its passes -/
theorem schedLoop_flat (vr : VR) (fixed : List Vtx) (numSteps : Nat) (o : Nat → Tick) :
    ∀ (fuel i : Nat) (s : SA) (fl : List Bool) (ks : Nat) (out : Out),
      schedLoop vr fixed numSteps o fuel i s fl ks = .ok out →
      saRun vr fixed (flatSteps o i (out.iterations - i)) s fl = .ok (out.sa, out.flags) := by
  intro fuel
  induction fuel with
  | zero =>
    intro i s fl ks out h
    simp only [schedLoop] at h
    split at h
    · simp at h
    · injection h with h; subst h; simp [flatSteps, saRun]
  | succ n ih =>
    intro i s fl ks out h
    have hst := schedLoop_steps vr fixed numSteps o (n + 1) i s fl ks out h
    simp only [schedLoop] at h
    split at h
    · split at h
      · cases hr : saRun vr fixed (o i).steps s fl with
        | error e => simp [hr] at h
        | ok r =>
          obtain ⟨s', fl'⟩ := r
          simp only [hr] at h
          split at h
          · injection h with h; subst h
            simp only [Nat.add_sub_cancel_left, flatSteps, List.append_nil, hr]
          · split at h
            · injection h with h; subst h
              simp only [Nat.add_sub_cancel_left, flatSteps, List.append_nil, hr]
            · have hst' := schedLoop_steps vr fixed numSteps o n (i + 1) s' fl' _ out h
              have e : out.iterations - i = (out.iterations - (i + 1)) + 1 := by omega
              rw [e]
              simp only [flatSteps]
              rw [saRun_append, hr]
              exact ih _ _ _ _ _ h
      · simp at h
    · injection h with h; subst h; simp [flatSteps, saRun]

/-- **The scheduled model refines `saPlace`**: whatever the schedule does, the placement it returns
is the one `Rig.C02.saPlace` returns for the concatenation of all proposals (the initial
`run_steps` and every pass of the loop) - so every theorem about `saPlace` (feasibility, only
documented errors, completeness) is a theorem about the scheduled run. -/
theorem saPlaceSched_refines_saPlace (vr : VR) (cs : List Constraint) (m : Machine) (locs : List Chip)
    (vs : List Vtx) (warm : List Step) (numSteps : Nat) (o : Nat → Tick) (fuel : Nat) (p : Placement) (out : Out)
    (hne : vr.length ≠ 0)
    (h : saPlaceSched vr cs m locs vs warm numSteps o fuel = .ok (p, out)) :
    saPlace vr cs m locs vs (some (warm ++ flatSteps o 0 out.iterations)) = .ok (p, out.flags) := by
  unfold saPlaceSched at h
  unfold saPlace
  rw [if_neg hne]
  cases hA : applySame vr cs with
  | error e => simp [hA] at h
  | ok r =>
    obtain ⟨vr', cs', subs⟩ := r
    simp only [hA] at h
    cases hP : prepareLoop vr' cs' m [] with
    | error e => simp [hP] at h
    | ok r2 =>
      obtain ⟨m', fixed⟩ := r2
      simp only [hP] at h
      cases hI : initialPlacement vr' m' locs vs with
      | error e => simp [hI] at h
      | ok r3 =>
        obtain ⟨m'', init⟩ := r3
        simp only [hI] at h
        cases hL : mkL2v m'' (List.foldl (fun q (vc : Vtx × Chip) => aset q vc.1 vc.2) init fixed) with
        | error e => simp [hL] at h
        | ok l2v =>
          simp only [hL] at h
          cases hW : saRun vr' (keys fixed) warm
              { m := m'', p := List.foldl (fun q (vc : Vtx × Chip) => aset q vc.1 vc.2) init fixed, l2v := l2v } [] with
          | error e => simp [hW] at h
          | ok r4 =>
            obtain ⟨s1, fl1⟩ := r4
            simp only [hW] at h
            cases hS : schedLoop vr' (keys fixed) numSteps o fuel 0 s1 fl1 warm.length with
            | error e => simp [hS] at h
            | ok out' =>
              simp only [hS] at h
              cases hF : finalise subs out'.sa.p with
              | error e => simp [hF] at h
              | ok p' =>
                simp only [hF] at h
                injection h with h; injection h with h1 h2; subst h1; subst h2
                have hfl := schedLoop_flat vr' (keys fixed) numSteps o fuel 0 s1 fl1 warm.length out' hS
                simp only [Nat.sub_zero] at hfl
                simp only [bind, Except.bind, pure, Except.pure, hA, hP, hI, hL, saRun_append, hW, hfl, hF]

/-- **Feasibility of the scheduled run**: for every outcome of the shuffles, every proposal, every
accept bit and every outcome of the float tests of the schedule, what `sa.place` returns is
feasible. -/
theorem saPlaceSched_sound (vr : VR) (cs : List Constraint) (m : Machine) (locs : List Chip)
    (vs : List Vtx) (warm : List Step) (numSteps : Nat) (o : Nat → Tick) (fuel : Nat) (p : Placement) (out : Out)
    (hne : vr.length ≠ 0)
    (wf : WF vr cs m) (hcons : Consistent vr cs) (hempty : EmptyOK vr cs m)
    (hvs : ∀ vr' cs' subs m' fixed, applySame vr cs = .ok (vr', cs', subs) →
      prepareLoop vr' cs' m [] = .ok (m', fixed) → ∀ v ∈ keys vr', v ∈ vs ∨ v ∈ keys fixed)
    (h : saPlaceSched vr cs m locs vs warm numSteps o fuel = .ok (p, out)) : Feasible vr cs m p :=
  saPlace_sound vr cs m locs vs _ p out.flags wf hcons hempty hvs
    (saPlaceSched_refines_saPlace vr cs m locs vs warm numSteps o fuel p out hne h)

/-! ### non-vacuity -/

/-- a run that ends because the oracle reports `cooled` at pass 2: two passes of one kernel step
each, the second of which swaps the two vertices -/
example :
    (match saPlaceSched exVr [] { w := 2, h := 1, res := [1], exc := [], dead := [] } [(0, 0), (1, 0)] [.o 0, .o 1] [] 1
        (streamOf [exTick, { exTick with steps := [⟨.o 0, (1, 0), true⟩] }]) 2 with
      | .ok (p, out) => some (p, out.iterations, out.kernelSteps, out.flags, out.why)
      | .error _ => none) =
    some ([(.o 0, (1, 0)), (.o 1, (0, 0))], 2, 2, [false, true], .cooled) := rfl

/-- the hypothesis of `saPlace_terminates_under_cooling` holds for every finite recording continued by
`streamOf` -/
example (ts : List Tick) : (streamOf ts ts.length).hot = false := by simp [streamOf]

end Rig.C02Sched
