/-
C11 - translator tie: the bodies of the pure integer functions of rig/geometry.py are regenerated
from the source into `Gen/PyFun.lean` on every run; here they are proved EQUAL to the hand-written
model functions the C11 theorems are about.  For these functions the tie to the code is a
kernel-checked obligation, not a sample.  Likewise `Links.opposite` and `Links.from_vector` (rig/links.py).
-/
import RigModel.Model.C11
import RigModel.Gen.PyFun
import Mathlib.Tactic.SplitIfs
set_option linter.unusedSimpArgs false
set_option linter.unusedVariables false
set_option linter.unusedTactic false
set_option linter.unreachableTactic false

namespace Rig.C11
open Rig.Gen

def t3 (v : V3) : Int × Int × Int := (v.x, v.y, v.z)

/-- `to_xyz` as written in the source = the model -/
theorem gen_to_xyz (p : P2) : PyFun.to_xyz p = t3 (toXyz p) := by
  obtain ⟨x, y⟩ := p; rfl

/-- `minimise_xyz` as written in the source = the model -/
theorem gen_minimise_xyz (v : V3) : PyFun.minimise_xyz (t3 v) = t3 (minimiseXyz v) := by
  obtain ⟨x, y, z⟩ := v; rfl

/-- `shortest_mesh_path_length` as written in the source = the model -/
theorem gen_mesh_len (s d : V3) : PyFun.shortest_mesh_path_length (t3 s) (t3 d) = meshLen s d := by
  obtain ⟨sx, sy, sz⟩ := s; obtain ⟨dx, dy, dz⟩ := d
  first
  | rfl
  | (simp only [PyFun.shortest_mesh_path_length, meshLen, t3]
     repeat' split
     all_goals omega)

/-- `shortest_torus_path_length` as written in the source = the model's `torusLenCore`
(for every w, h; Python itself raises ZeroDivisionError when one of them is 0) -/
theorem gen_torus_len_is_model (s d : V3) (w h : Int) :
    PyFun.shortest_torus_path_length (t3 s) (t3 d) w h = torusLenCore s d w h := by
  obtain ⟨sx, sy, sz⟩ := s; obtain ⟨dx, dy, dz⟩ := d
  first
  | rfl
  | -- a rewrite of the source that is not syntactically the model: decide it semantically
    (simp only [PyFun.shortest_torus_path_length, torusLenCore, pyMod, t3]
     repeat' split
     all_goals omega)

/-- the model's `shortest_torus_path_length`, with its ZeroDivisionError, in terms of the generated code -/
theorem gen_torus_len (s d : V3) (w h : Int) (hw : w ≠ 0) (hh : h ≠ 0) :
    torusLen s d w h = .ok (PyFun.shortest_torus_path_length (t3 s) (t3 d) w h) := by
  have : ¬ (w = 0 ∨ h = 0) := by simp [hw, hh]
  simp only [torusLen, this, if_false, gen_torus_len_is_model]

/-! ### rig/links.py -/

/-- `Links.opposite` as written in the source (`Links((self + 3) % 6)`, the enum lookup never fails)
= the model -/
theorem gen_links_opposite (l : Nat) : PyFun.Links_opposite l = .ok ((opposite l : Nat) : Int) := by
  simp only [PyFun.Links_opposite, opposite, Int.fmod_eq_emod_of_nonneg _ (by decide : (0 : Int) ≤ 6)]
  split
  · first | rfl | (refine congrArg Except.ok ?_; omega)
  · rename_i h
    simp only [List.contains_eq_mem, List.mem_cons, List.mem_nil_iff, or_false, decide_eq_true_eq] at h
    omega

/-- the model's result as the Python value: member value / KeyError -/
def optExc : Option Nat → Except String Int
  | some l => .ok (l : Int)
  | none => .error "KeyError"

/-- `Links.from_vector` as written in the source = the model -/
theorem gen_links_from_vector (x y : Int) : PyFun.Links_from_vector (x, y) = optExc (fromVector x y) := by
  have hx : x ≤ -2 ∨ x = -1 ∨ x = 0 ∨ x = 1 ∨ 2 ≤ x := by omega
  have hy : y ≤ -2 ∨ y = -1 ∨ y = 0 ∨ y = 1 ∨ 2 ≤ y := by omega
  simp only [PyFun.Links_from_vector, fromVector, lookupDir]
  rcases hx with hx | rfl | rfl | rfl | hx <;> rcases hy with hy | rfl | rfl | rfl | hy <;>
    (try simp (config := {decide := true}) only []) <;> (try split_ifs) <;>
    first | omega | rfl | decide

end Rig.C11
