/-
C11 - translator tie: the bodies of the pure integer functions of rig/geometry.py are regenerated
from the source into `Gen/PyFun.lean` on every run; here they are proved EQUAL to the hand-written
model functions the C11 theorems are about.  For these functions the tie to the code is a
kernel-checked obligation, not a sample.  Likewise `Links.opposite`, `Links.from_vector` and `Links.to_vector`
(rig/links.py), `shortest_mesh_path` and the generator `concentric_hexagons` (three nested `for` loops; the
generated loop bodies `concentric_hexagons_loop1..3` are proved to do what the model's `rings` / `walkRing` /
`walkSide` do, by induction over the iterated lists).
-/
import RigModel.Model.C11
import RigModel.Gen.PyFun
import RigModel.Lemmas.PyLoops
import Mathlib.Tactic.SplitIfs
import Mathlib.Tactic.Ring
set_option linter.unusedSimpArgs false
set_option linter.unusedVariables false
set_option linter.unusedTactic false
set_option linter.unreachableTactic false

namespace Rig.C11
open Rig.Gen Rig.PyLoops

def t3 (v : V3) : Int × Int × Int := (v.x, v.y, v.z)

/-- `to_xyz` as written in the source = the model -/
theorem gen_to_xyz (p : P2) : PyFun.to_xyz p = t3 (toXyz p) := by
  obtain ⟨x, y⟩ := p; rfl

/-- `minimise_xyz` as written in the source = the model -/
theorem gen_minimise_xyz (v : V3) : PyFun.minimise_xyz (t3 v) = t3 (minimiseXyz v) := by
  obtain ⟨x, y, z⟩ := v; rfl

/-- `shortest_mesh_path_length` as written in the source = the model -/
theorem gen_mesh_len (s d : V3) : PyFun.shortest_mesh_path_length (t3 s) (t3 d) = meshLen s d := by
  obtain ⟨sx, sy, sz⟩ := s; obtain ⟨dx, dy, dz⟩ := d
  first
  | rfl
  | (simp only [PyFun.shortest_mesh_path_length, meshLen, t3]
     repeat' split
     all_goals omega)

/-- `shortest_torus_path_length` as written in the source = the model's `torusLenCore`
(for every w, h; Python itself raises ZeroDivisionError when one of them is 0) -/
theorem gen_torus_len_is_model (s d : V3) (w h : Int) :
    PyFun.shortest_torus_path_length (t3 s) (t3 d) w h = torusLenCore s d w h := by
  obtain ⟨sx, sy, sz⟩ := s; obtain ⟨dx, dy, dz⟩ := d
  first
  | rfl
  | -- a rewrite of the source that is not syntactically the model: decide it semantically
    (simp only [PyFun.shortest_torus_path_length, torusLenCore, pyMod, t3]
     repeat' split
     all_goals omega)

/-- the model's `shortest_torus_path_length`, with its ZeroDivisionError, in terms of the generated code -/
theorem gen_torus_len (s d : V3) (w h : Int) (hw : w ≠ 0) (hh : h ≠ 0) :
    torusLen s d w h = .ok (PyFun.shortest_torus_path_length (t3 s) (t3 d) w h) := by
  have : ¬ (w = 0 ∨ h = 0) := by simp [hw, hh]
  simp only [torusLen, this, if_false, gen_torus_len_is_model]

/-! ### rig/links.py -/

/-- `Links.opposite` as written in the source (`Links((self + 3) % 6)`, the enum lookup never fails)
= the model -/
theorem gen_links_opposite (l : Nat) : PyFun.Links_opposite l = .ok ((opposite l : Nat) : Int) := by
  simp only [PyFun.Links_opposite, opposite, Int.fmod_eq_emod_of_nonneg _ (by decide : (0 : Int) ≤ 6)]
  split
  · first | rfl | (refine congrArg Except.ok ?_; omega)
  · rename_i h
    simp only [List.contains_eq_mem, List.mem_cons, List.mem_nil_iff, or_false, decide_eq_true_eq] at h
    omega

/-- the model's result as the Python value: member value / KeyError -/
def optExc : Option Nat → Except String Int
  | some l => .ok (l : Int)
  | none => .error "KeyError"

/-- `Links.from_vector` as written in the source = the model -/
theorem gen_links_from_vector (x y : Int) : PyFun.Links_from_vector (x, y) = optExc (fromVector x y) := by
  have hx : x ≤ -2 ∨ x = -1 ∨ x = 0 ∨ x = 1 ∨ 2 ≤ x := by omega
  have hy : y ≤ -2 ∨ y = -1 ∨ y = 0 ∨ y = 1 ∨ 2 ≤ y := by omega
  simp only [PyFun.Links_from_vector, fromVector, lookupDir]
  rcases hx with hx | rfl | rfl | rfl | hx <;> rcases hy with hy | rfl | rfl | rfl | hy <;>
    (try simp (config := {decide := true}) only []) <;> (try split_ifs) <;>
    first | omega | rfl | decide

/-- the model's result as the Python value: vector / KeyError -/
def optExcP2 : Option P2 → Except String (Int × Int)
  | some v => .ok v
  | none => .error "KeyError"

theorem gen_links_to_vector (l : Nat) : PyFun.Links_to_vector l = optExcP2 (toVector l) := by
  simp only [PyFun.Links_to_vector, toVector, Int.toNat_natCast, lookup_eq_find?]
  have : ¬ ((l : Int) < 0) := by omega
  simp only [this, if_false]
  cases (List.find? (fun e => e.1 == l) Rig.Gen.Links.directionLinkLookup) <;> rfl

theorem gen_links_to_vector_neg (l : Int) (h : l < 0) : PyFun.Links_to_vector l = .error "KeyError" := by
  simp only [PyFun.Links_to_vector, h, if_true]

theorem gen_mesh_path (s d : V3) : PyFun.shortest_mesh_path (t3 s) (t3 d) = t3 (meshPath s d) := by
  obtain ⟨sx, sy, sz⟩ := s; obtain ⟨dx, dy, dz⟩ := d
  first
  | rfl
  | (simp only [PyFun.shortest_mesh_path, PyFun.minimise_xyz, meshPath, minimiseXyz, t3, Prod.mk.injEq]
     refine ⟨?_, ?_, ?_⟩ <;> omega)

/-! ### the generator `concentric_hexagons` -/

/-- one side: `for _ in range(r): yield (x, y); x += dx; y += dy` for ANY step function that does this -/
theorem side_fold {f : List P2 × Int × Int → Int → List P2 × Int × Int} {dx dy : Int}
    (hf : ∀ o x y i, f (o, x, y) i = (o ++ [(x, y)], x + dx, y + dy)) :
    ∀ (l : List Int) (o : List P2) (x y : Int), l.foldl f (o, x, y)
      = (o ++ walkSide (dx, dy) l.length (x, y), (sideEnd (dx, dy) l.length (x, y)).1, (sideEnd (dx, dy) l.length (x, y)).2)
  | [], o, x, y => by simp [walkSide, sideEnd]
  | a :: t, o, x, y => by
    rw [List.foldl_cons, hf, side_fold hf t]
    simp only [walkSide, sideEnd, List.length_cons, List.append_assoc, List.singleton_append, Prod.mk.injEq, true_and]
    constructor <;> (push_cast; ring)

/-- one ring: `for dx, dy in dirs: <side>` -/
theorem ring_fold {g : List P2 × Int × Int → P2 → List P2 × Int × Int} {n : Nat}
    (hg : ∀ o x y d, g (o, x, y) d
      = (o ++ walkSide d n (x, y), (sideEnd d n (x, y)).1, (sideEnd d n (x, y)).2)) :
    ∀ (ds : List P2) (o : List P2) (x y : Int), ds.foldl g (o, x, y)
      = (o ++ walkRing n ds (x, y), (ringEnd n ds (x, y)).1, (ringEnd n ds (x, y)).2)
  | [], o, x, y => by simp [walkRing, ringEnd]
  | d :: t, o, x, y => by
    rw [List.foldl_cons, hg, ring_fold hg t]
    simp only [walkRing, ringEnd, List.append_assoc]

/-- all rings: `for r in range(r0, r0 + n): y -= 1; <ring r>` (state order of the generated code: y, out, x) -/
theorem rings_fold {h : Int × List P2 × Int → Int → Int × List P2 × Int}
    (hh : ∀ y o x (r : Nat), h (y, o, x) (r : Int)
      = ((ringEnd r hexDirs (x, y - 1)).2, o ++ walkRing r hexDirs (x, y - 1), (ringEnd r hexDirs (x, y - 1)).1)) :
    ∀ (n r0 : Nat) (y : Int) (o : List P2) (x : Int), ∃ y' x',
      ((List.range n).map (fun (k : Nat) => ((r0 : Nat) : Int) + (k : Int))).foldl h (y, o, x)
        = (y', o ++ rings n r0 (x, y), x')
  | 0, r0, y, o, x => ⟨y, x, by simp [rings]⟩
  | n + 1, r0, y, o, x => by
    rw [List.range_succ_eq_map, List.map_cons, List.foldl_cons, List.map_map]
    have e : ((r0 : Nat) : Int) + ((0 : Nat) : Int) = ((r0 : Nat) : Int) := by simp
    rw [e, hh]
    have e2 : ((fun (k : Nat) => ((r0 : Nat) : Int) + (k : Int)) ∘ Nat.succ)
        = (fun (k : Nat) => (((r0 + 1 : Nat)) : Int) + (k : Int)) := by
      funext k; simp only [Function.comp, Nat.succ_eq_add_one]; push_cast; ring
    rw [e2]
    obtain ⟨y', x', e3⟩ := rings_fold hh n (r0 + 1) (ringEnd r0 hexDirs (x, y - 1)).2
      (o ++ walkRing r0 hexDirs (x, y - 1)) (ringEnd r0 hexDirs (x, y - 1)).1
    exact ⟨y', x', by rw [e3]; simp only [rings, List.append_assoc]⟩

/-- the tactic that compares a generated loop body with its description: syntactically, else by arithmetic -/
macro "step_eq" : tactic => `(tactic|
  first | rfl | (simp only [Prod.mk.injEq, List.append_cancel_left_eq, List.cons.injEq, and_true, true_and]
                 try (repeat' apply And.intro)
                 all_goals first | trivial | rfl | omega))

theorem hex_loop3 (dx dy : Int) (o : List P2) (x y i : Int) :
    PyFun.concentric_hexagons_loop3 dx dy (o, x, y) i = (o ++ [(x, y)], x + dx, y + dy) := by
  unfold PyFun.concentric_hexagons_loop3
  step_eq

theorem hex_loop2 (r : Nat) (o : List P2) (x y : Int) (d : P2) :
    PyFun.concentric_hexagons_loop2 r (o, x, y) d
      = (o ++ walkSide d r (x, y), (sideEnd d r (x, y)).1, (sideEnd d r (x, y)).2) := by
  unfold PyFun.concentric_hexagons_loop2
  dsimp only
  rw [side_fold (dx := d.1) (dy := d.2) (hex_loop3 d.1 d.2)]
  simp only [length_pyRange1, Int.sub_zero, Int.toNat_natCast]

theorem hex_loop1 (y : Int) (o : List P2) (x : Int) (r : Nat) :
    PyFun.concentric_hexagons_loop1 (y, o, x) (r : Int)
      = ((ringEnd r hexDirs (x, y - 1)).2, o ++ walkRing r hexDirs (x, y - 1), (ringEnd r hexDirs (x, y - 1)).1) := by
  unfold PyFun.concentric_hexagons_loop1
  dsimp only
  rw [ring_fold (n := r) (hex_loop2 r)]
  first | rfl | (simp only [hexDirs]; rfl)

/-- `concentric_hexagons` as written in the source = the model (the list of yielded points, in order) -/
theorem gen_concentric_hexagons (radius : Int) (start : P2) :
    PyFun.concentric_hexagons radius start = concentricHexagons radius start := by
  obtain ⟨x, y⟩ := start
  unfold PyFun.concentric_hexagons concentricHexagons
  have hn : (radius + 1 - 1).toNat = radius.toNat := by congr 1; omega
  obtain ⟨y', x', e⟩ := rings_fold hex_loop1 radius.toNat 1 y [(x, y)] x
  simp only [Nat.cast_one] at e
  dsimp only [List.nil_append]
  rw [pyRange1_eq, hn, e]
  rfl
/-! ### `Machine.__contains__` (rig/place_and_route/machine.py), for a chip and for a link -/

/-- the dead links of the model as the Python set of `(x, y, link)` triples -/
def deadLinksPy (m : Mach) : List (Int × Int × Int) := m.deadLinks.map (fun e => (e.1.1, e.1.2, (e.2 : Int)))

/-- `(x, y) in machine` as written in the source = the model's `hasChip` -/
theorem gen_machine_contains_chip (m : Mach) (p : P2) :
    (PyFun.Machine_contains_chip m.w m.h m.deadChips (deadLinksPy m) p).1 = m.hasChip p := by
  obtain ⟨x, y⟩ := p
  unfold PyFun.Machine_contains_chip Mach.hasChip
  first
    | (simp only [Bool.decide_and, Bool.and_assoc, decide_not, Bool.decide_eq_true]; done)
    | (rw [Bool.eq_iff_iff]
       simp only [decide_eq_true_eq, Bool.and_eq_true, Bool.not_eq_true', Bool.not_eq_true, decide_not,
         Bool.decide_eq_true, Bool.decide_and]
       cases m.deadChips.contains (x, y) <;> simp <;> omega)

/-- `(x, y, link) in machine` as written in the source = the model's `hasLink` -/
theorem gen_machine_contains_link (m : Mach) (p : P2) (l : Nat) :
    (PyFun.Machine_contains_link m.w m.h m.deadChips (deadLinksPy m) (p.1, p.2, (l : Int))).1 = m.hasLink p l := by
  obtain ⟨x, y⟩ := p
  unfold PyFun.Machine_contains_link Mach.hasLink
  simp only [gen_machine_contains_chip]
  have hc : (deadLinksPy m).contains (x, y, (l : Int)) = m.deadLinks.contains ((x, y), l) := by
    have := contains_map_inj (fun (e : P2 × Nat) => (e.1.1, e.1.2, (e.2 : Int)))
      (by intro a b h; obtain ⟨⟨a1, a2⟩, a3⟩ := a; obtain ⟨⟨b1, b2⟩, b3⟩ := b; simp at h ⊢; omega) m.deadLinks ((x, y), l)
    exact this
  simp only [hc, Bool.decide_and, decide_not, Bool.decide_eq_true]

end Rig.C11
