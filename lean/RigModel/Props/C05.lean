/-
C05 - allocated resource ranges are exact, in range, disjoint and unreserved.
-/
import RigModel.Model.C05
import RigModel.Lemmas.C05
set_option linter.unusedSimpArgs false
set_option linter.unusedVariables false

namespace Rig.C05

/-- `Overlaps` (and the code's `slices_overlap`) means: the two ranges share an index;
in particular an empty range overlaps nothing -/
theorem overlaps_iff_common (a b : Slice) :
    Overlaps a b ↔ ∃ i : Int, a.start ≤ i ∧ i < a.stop ∧ b.start ≤ i ∧ i < b.stop := by
  unfold Overlaps
  constructor
  · intro h
    refine ⟨max a.start b.start, ?_, ?_, ?_, ?_⟩ <;> omega
  · intro ⟨i, h1, h2, h3, h4⟩
    omega

/-- **Soundness.** Whatever the machine, placement, vertex order, requests, alignments
and reservation lists: an allocation returned by the allocator satisfies the property
(`Valid`): exactly the placed vertices; every request answered by one range of the exact
size, inside `[0, capacity of the chip]`, on the alignment, overlapping no global or
local reservation; ranges of different vertices on one chip disjoint. -/
theorem alloc_sound (inp : Input) (out : List (Vertex × List Entry)) (wf : WellFormed inp)
    (h : allocate inp = .ok out) : Valid inp (strip out) :=
  valid_of_chipsOk wf
    (allocChips_ok (alignment_pos wf.alignPos) wf.demandNonneg _ _ (nodup_dedup _) h)

/-- the four clauses of `Valid`, spelled out for one answered request -/
theorem alloc_sound_range (inp : Input) (out : List (Vertex × List Entry)) (wf : WellFormed inp)
    (h : allocate inp = .ok out) (v : Vertex) (xy : Chip) (rs : List (Res × Int)) (res : Res) (d : Int)
    (hp : (v, xy) ∈ inp.placements) (hq : (v, rs) ∈ inp.vr) (hrd : (res, d) ∈ rs) :
    ∃ s, (v, res, s) ∈ flat (strip out) ∧ s.stop - s.start = d ∧ 0 ≤ s.start ∧
      (∃ c, capacity inp.machine xy res = some c ∧ s.stop ≤ c) ∧
      s.start % alignment inp.constraints res = 0 ∧
      ∀ r ∈ reserved inp.constraints xy res, ¬ ∃ i : Int, s.start ≤ i ∧ i < s.stop ∧ r.start ≤ i ∧ i < r.stop := by
  obtain ⟨t, ht, h1, h2, hg⟩ := (alloc_sound inp out wf h).2.1 (v, xy) hp (v, rs) hq rfl (res, d) hrd
  obtain ⟨tv, tr, ts⟩ := t
  simp only at h1 h2 hg
  subst h1; subst h2
  refine ⟨ts, ht, hg.1, hg.2.1, hg.2.2.1, hg.2.2.2.1, ?_⟩
  intro r hr hex
  exact hg.2.2.2.2 r hr ((overlaps_iff_common _ _).2 hex)

/-- **Only failure.** On a well-formed input of the documented domain the allocator
returns an allocation or raises `InsufficientResourceError` for a resource on a chip that
holds a vertex - never another exception, and the proposal loop never runs out of fuel
(i.e. the `while` loop terminates). -/
theorem alloc_only_failure (inp : Input) (wf : WellFormed inp) (dom : InDomain inp) :
    (∃ out, allocate inp = .ok out) ∨
    ∃ res, ∃ p ∈ inp.placements, allocate inp = .error (.insufficient res p.2) := by
  rcases allocChips_total (alignment_pos wf.alignPos) (chipOrder inp) (reqOk_of_domain wf dom) with
    h | ⟨res, xy, hxy, h⟩
  · exact Or.inl h
  · right
    obtain ⟨p, hp, rfl⟩ := List.mem_map.1 ((mem_dedup _ _).1 hxy)
    exact ⟨res, p, hp, h⟩

/-- **Completeness, general form.** No alignment on the requested resources and, per chip
and resource, the total demand fits into the window between the reservations that touch
index 0 and the first reservation that starts above 0 (all non-empty reservations lie
outside that window; they may overlap each other, be empty or stick out of the range):
the allocator succeeds, and what it returns satisfies the property. -/
theorem alloc_complete_window (inp : Input) (wf : WellFormed inp) (dom : InDomain inp)
    (fit : ∀ p ∈ inp.placements, ∀ q ∈ inp.vr, q.1 = p.1 → ∀ rd ∈ q.2, FitsAt inp p.2 rd.1) :
    ∃ out, allocate inp = .ok out ∧ Valid inp (strip out) := by
  have hreq := reqOk_of_domain wf dom
  obtain ⟨out, h⟩ := allocChips_complete wf.demandNonneg (chipOrder inp) (by
    intro xy hxy v hv
    obtain ⟨rs, hl, hr⟩ := hreq xy hxy v hv
    refine ⟨rs, hl, fun rd hrd => ⟨hr rd hrd, ?_⟩⟩
    exact fit (v, xy) ((mem_chipVertices _ _ _).1 hv) (v, rs) (mem_of_lookup hl) rfl rd hrd)
  exact ⟨out, h, alloc_sound inp out wf h⟩

/-- **Completeness (the clause of the property).** Without alignment constraints and with
reservations only at the two ends of each range, a feasible placement (the demand on
every chip fits between the reserved ends) is always allocated - no
`InsufficientResourceError` - and the result satisfies the property. -/
theorem alloc_complete (inp : Input) (wf : WellFormed inp) (dom : InDomain inp)
    (feas : Feasible inp) : ∃ out, allocate inp = .ok out ∧ Valid inp (strip out) :=
  alloc_complete_window inp wf dom
    (fun p hp q hq e rd hrd => (feas p hp q hq e rd hrd).fits)

/-- hypothesis of the completeness clause in the placers' own terms
(`place/utils.py: resources_after_reservation` subtracts the *magnitude* of every
reservation from the chip's resource): no alignment, every reservation inside the range
and at one of its ends, and the demand is at most capacity minus the reserved magnitudes -/
def PlacerFeasibleAt (inp : Input) (xy : Chip) (res : Res) : Prop :=
  alignment inp.constraints res = 1 ∧
  ∃ cap, capacity inp.machine xy res = some cap ∧
    (∀ r ∈ reserved inp.constraints xy res, Inside cap r ∧ AtEnd cap r) ∧
    demand inp xy res ≤ cap - reservedSize (reserved inp.constraints xy res)

/-- **Completeness in the placers' terms.** A placement that is feasible by the
placers' accounting is always allocated when there is no alignment constraint and the
reservations sit at the ends of the ranges. -/
theorem alloc_complete_placer_budget (inp : Input) (wf : WellFormed inp) (dom : InDomain inp)
    (feas : ∀ p ∈ inp.placements, ∀ q ∈ inp.vr, q.1 = p.1 → ∀ rd ∈ q.2,
      PlacerFeasibleAt inp p.2 rd.1) :
    ∃ out, allocate inp = .ok out ∧ Valid inp (strip out) := by
  apply alloc_complete_window inp wf dom
  intro p hp q hq e rd hrd
  obtain ⟨h1, cap, h2, h3, h4⟩ := feas p hp q hq e rd hrd
  have := window_ge_budget' cap _ h3
  exact ⟨h1, cap, h2, by omega⟩

/-- **One range each.** In a returned allocation no (vertex, resource) pair has two ranges
(so `Served` gives *the* range of every request). -/
theorem alloc_unique (inp : Input) (out : List (Vertex × List Entry)) (wf : WellFormed inp)
    (h : allocate inp = .ok out) : ((flat (strip out)).map fun t => (t.1, t.2.1)).Nodup :=
  unique_of_chipsOk wf
    (allocChips_ok (alignment_pos wf.alignPos) wf.demandNonneg _ _ (nodup_dedup _) h)
    (allocChips_keys (alignment_pos wf.alignPos) wf.demandNonneg _ _ h)

/-! ### non-vacuity: the hypotheses hold for non-trivial instances -/

/-- 2x1 machine, chip (1,0) has fewer cores; resource 0 reserved at both ends globally,
a local reservation on (0,0); three vertices on (0,0) (one zero-size), one on (1,0) -/
def exEnds : Input :=
  { vr := [(0, [(0, 3), (1, 10)]), (1, [(0, 0)]), (2, [(0, 2)]), (3, [(0, 4)])],
    machine := { width := 2, height := 1, chipResources := [(0, 10), (1, 100)],
                 exceptions := [((1, 0), [(0, 8), (1, 50)])], dead := [] },
    constraints := [.reserve 0 ⟨0, 1⟩ none, .reserve 0 ⟨0, 2⟩ (some (0, 0)), .other,
                    .reserve 0 ⟨7, 10⟩ none, .align 1 1],
    placements := [(0, (0, 0)), (3, (1, 0)), (2, (0, 0)), (1, (0, 0))] }

example : WellFormed exEnds ∧ InDomain exEnds ∧ Feasible exEnds := by decide

/-- the placers' accounting holds for `exEnds` without the overlapping local reservation -/
def exPlacer : Input :=
  { exEnds with constraints := [.reserve 0 ⟨0, 1⟩ none, .other, .reserve 0 ⟨7, 10⟩ (some (0, 0)),
                                .reserve 0 ⟨8, 8⟩ none] }

example : PlacerFeasibleAt exPlacer (0, 0) 0 :=
  ⟨by decide, 10, by decide, by decide, by decide⟩

example : (allocate exEnds).map strip = .ok
    [(0, [(0, ⟨2, 5⟩), (1, ⟨0, 10⟩)]), (2, [(0, ⟨5, 7⟩)]), (1, [(0, ⟨7, 7⟩)]), (3, [(0, ⟨1, 5⟩)])] := by
  rfl

/-- alignment 4 and an interior reservation: well-formed and in the domain (soundness and
only-failure apply), not `Feasible` -/
def exAlign : Input :=
  { exEnds with constraints := [.reserve 0 ⟨3, 5⟩ none, .align 0 4, .reserve 0 ⟨4, 6⟩ (some (0, 0))] }

example : WellFormed exAlign ∧ InDomain exAlign ∧ ¬ Feasible exAlign := by decide

example : allocate exAlign = .error (.insufficient 0 (0, 0)) := by rfl

end Rig.C05
