/-
C05 - allocated resource ranges are exact, in range, disjoint and unreserved.
-/
import RigModel.Model.C05
set_option linter.unusedSimpArgs false
set_option linter.unusedVariables false

namespace Rig.C05

/-- `Overlaps` (and the code's `slices_overlap`) means: the two ranges share an index;
in particular an empty range overlaps nothing -/
theorem overlaps_iff_common (a b : Slice) :
    Overlaps a b ↔ ∃ i : Int, a.start ≤ i ∧ i < a.stop ∧ b.start ≤ i ∧ i < b.stop := by
  unfold Overlaps
  constructor
  · intro h
    refine ⟨max a.start b.start, ?_, ?_, ?_, ?_⟩ <;> omega
  · intro ⟨i, h1, h2, h3, h4⟩
    omega

end Rig.C05
