/-
C10 - translator tie: the body of `Routes.opposite` (rig/routing_table/entries.py) is regenerated from the
source into `Gen/PyFun.lean`; the model's `inDir` (`direction.opposite` of an optional route, used by
`routing_tree_to_tables`) is proved equal to it.
-/
import RigModel.Model.C10
import RigModel.Gen.PyFun
import Mathlib.Tactic.SplitIfs
import RigModel.Lemmas.IntBits
set_option linter.unusedSimpArgs false
set_option linter.unusedVariables false
set_option linter.unusedTactic false
set_option linter.unreachableTactic false

namespace Rig.C10
open Rig.Gen Rig.Gen.Router Rig.IntBits

/-- the Python outcome of `Routes.opposite` in the model's vocabulary -/
def ofPy : Except String Int → Except Err (Option Nat)
  | .ok v => .ok (some v.toNat)
  | .error _ => .error .valueError

/-- `direction.opposite` of the model = `Routes.opposite` as written in the source -/
theorem gen_inDir (r : Nat) : inDir (some r) = ofPy (PyFun.Routes_opposite r) := by
  simp only [inDir, PyFun.Routes_opposite, PyFun.Routes_is_link, apply_ite ofPy, ofPy,
    Int.fmod_eq_emod_of_nonneg _ (by decide : (0 : Int) ≤ 6), List.contains_eq_mem, List.mem_cons,
    List.mem_nil_iff, or_false, decide_eq_true_eq, Bool.not_eq_true', decide_eq_false_iff_not, Bool.not_eq_true]
  try split_ifs
  all_goals first
    | rfl
    | omega
    | (refine congrArg Except.ok (congrArg some ?_); omega)

/-- `None` has no direction to reverse -/
example : inDir none = .ok none := rfl

/-! ### `unpack_routing_table_entry` (third round: `struct.unpack(consts.RTE_PACK_STRING, packed)`, a set
comprehension over `Routes`, an optional result) -/

def bytesInt (d : List Nat) : List Int := d.map (fun (n : Nat) => (n : Int))

/-- the model's outcome as the Python outcome: `struct.error` / `None` / `(RoutingTableEntry(routes, key, mask),
app_id, core)` (the entry as the triple of its constructor arguments, the route set as the list of its members
in the order of the enumeration) -/
def unpackPy : Option (Option Dec) → Except String (Option ((List Int × Int × Int) × Int × Int))
  | none => .error "struct.error"
  | some none => .ok none
  | some (some d) => .ok (some ((d.routes.map (fun (r : Nat) => (r : Int)), (d.key : Int), (d.mask : Int)),
                                 (d.app : Int), (d.core : Int)))

theorem unpackEntry_len (bs : List Nat) (h : bs.length ≠ 16) : unpackEntry bs = none := by
  unfold unpackEntry
  split
  · simp at h
  · rfl

/-- the route filter: bit `r` of the route word, tested the Python way, over the member values of `Routes` -/
theorem routes_filter (route : Nat) (l : List Nat) :
    (l.map (fun (r : Nat) => (r : Int))).filter (fun (r : Int) => decide (Int.land ((route : Int) >>> r.toNat) 1 ≠ 0))
      = (l.filter (fun r => (route >>> r) &&& 1 = 1)).map (fun (r : Nat) => (r : Int)) := by
  induction l with
  | nil => rfl
  | cons a t ih =>
    have e : (Int.land ((route : Int) >>> ((a : Int)).toNat) 1 ≠ 0) ↔ ((route >>> a) &&& 1 = 1) := by
      rw [Int.toNat_natCast, shr_natCast, one_natCast, land_natCast, Nat.and_one_is_mod]
      omega
    rw [List.map_cons, List.filter_cons, List.filter_cons, ih]
    by_cases h : (route >>> a) &&& 1 = 1
    · have h' := e.mpr h
      rw [if_pos (decide_eq_true h'), if_pos (decide_eq_true h), List.map_cons]
    · have h' : ¬ (Int.land ((route : Int) >>> ((a : Int)).toNat) 1 ≠ 0) := fun x => h (e.mp x)
      rw [if_neg (fun x => h' (of_decide_eq_true x)), if_neg (fun x => h (of_decide_eq_true x))]

/-- `unpack_routing_table_entry` as written in the source = the model's `unpackEntry`, for every byte string -/
theorem gen_unpack_routing_table_entry (bs : List Nat) :
    PyFun.unpack_routing_table_entry (bytesInt bs) = unpackPy (unpackEntry bs) := by
  unfold PyFun.unpack_routing_table_entry PyFun.pyStructUnpack
  have hsz : PyFun.pyStructSize [PyFun.PyFmt.H, PyFun.PyFmt.H, PyFun.PyFmt.I, PyFun.PyFmt.I, PyFun.PyFmt.I] = 16 := rfl
  have hlen : (bytesInt bs).length = bs.length := by simp [bytesInt]
  rw [hsz, hlen]
  by_cases h : bs.length = 16
  swap
  · simp only [h, if_false, unpackEntry_len bs h, unpackPy]
  simp only [h, if_true]
  match bs, h with
  | [x0, x1, f0, f1, r0, r1, r2, r3, k0, k1, k2, k3, m0, m1, m2, m3], _ =>
    have hv : PyFun.pyStructValues false [PyFun.PyFmt.H, PyFun.PyFmt.H, PyFun.PyFmt.I, PyFun.PyFmt.I, PyFun.PyFmt.I]
        (bytesInt [x0, x1, f0, f1, r0, r1, r2, r3, k0, k1, k2, k3, m0, m1, m2, m3])
        = [((x0 + 256 * x1 : Nat) : Int), ((f0 + 256 * f1 : Nat) : Int), ((word32 r0 r1 r2 r3 : Nat) : Int),
           ((word32 k0 k1 k2 k3 : Nat) : Int), ((word32 m0 m1 m2 m3 : Nat) : Int)] := by
      simp [bytesInt, PyFun.pyStructValues, PyFun.PyFmt.size, PyFun.pyLeValue, word32]
      refine ⟨?_, ?_, ?_⟩ <;> omega
    rw [hv]
    simp only [List.getD_cons_zero, List.getD_cons_succ, unpackEntry]
    have hlit : ([0, 1, 2, 3, 4, 5, 6, 7, 8, 9, 10, 11, 12, 13, 14, 15, 16, 17, 18, 19, 20, 21, 22, 23] : List Int)
        = routesValues.map (fun (r : Nat) => (r : Int)) := by decide
    rw [hlit, routes_filter]
    have e1 : (Int.land ((word32 r0 r1 r2 r3 : Nat) : Int) 4278190080 = 4278190080)
        ↔ (word32 r0 r1 r2 r3 &&& 0xff000000 = 0xff000000) := by
      rw [show (4278190080 : Int) = ((4278190080 : Nat) : Int) from rfl, land_natCast]; omega
    have e1' : ((4278190080 : Int) = Int.land ((word32 r0 r1 r2 r3 : Nat) : Int) 4278190080)
        ↔ (word32 r0 r1 r2 r3 &&& 0xff000000 = 0xff000000) := by
      rw [show (4278190080 : Int) = ((4278190080 : Nat) : Int) from rfl, land_natCast]; omega
    by_cases hr : word32 r0 r1 r2 r3 &&& 0xff000000 = 0xff000000
    · simp only [e1, e1', hr, if_true, unpackPy]
    · simp only [e1, e1', hr, if_false, unpackPy]
      simp (disch := decide) only [lit_natCast, land_natCast, shr_natCast, Int.toNat_natCast]

end Rig.C10
