/-
C10 - translator tie: the body of `Routes.opposite` (rig/routing_table/entries.py) is regenerated from the
source into `Gen/PyFun.lean`; the model's `inDir` (`direction.opposite` of an optional route, used by
`routing_tree_to_tables`) is proved equal to it.
-/
import RigModel.Model.C10
import RigModel.Gen.PyFun
import Mathlib.Tactic.SplitIfs
set_option linter.unusedSimpArgs false
set_option linter.unusedVariables false
set_option linter.unusedTactic false
set_option linter.unreachableTactic false

namespace Rig.C10
open Rig.Gen

/-- the Python outcome of `Routes.opposite` in the model's vocabulary -/
def ofPy : Except String Int → Except Err (Option Nat)
  | .ok v => .ok (some v.toNat)
  | .error _ => .error .valueError

/-- `direction.opposite` of the model = `Routes.opposite` as written in the source -/
theorem gen_inDir (r : Nat) : inDir (some r) = ofPy (PyFun.Routes_opposite r) := by
  simp only [inDir, PyFun.Routes_opposite, PyFun.Routes_is_link, apply_ite ofPy, ofPy,
    Int.fmod_eq_emod_of_nonneg _ (by decide : (0 : Int) ≤ 6), List.contains_eq_mem, List.mem_cons,
    List.mem_nil_iff, or_false, decide_eq_true_eq, Bool.not_eq_true', decide_eq_false_iff_not, Bool.not_eq_true]
  try split_ifs
  all_goals first
    | rfl
    | omega
    | (refine congrArg Except.ok (congrArg some ?_); omega)

/-- `None` has no direction to reverse -/
example : inDir none = .ok none := rfl

end Rig.C10
