/-
C10 - translator tie: the body of `Routes.opposite` (rig/routing_table/entries.py) is regenerated from the
source into `Gen/PyFun.lean`; the model's `inDir` (`direction.opposite` of an optional route, used by
`routing_tree_to_tables`) is proved equal to it.
-/
import RigModel.Model.C10
import RigModel.Gen.PyFun
import Mathlib.Tactic.SplitIfs
import RigModel.Lemmas.IntBits
import RigModel.Lemmas.C10Dict
import RigModel.Props.C10
set_option linter.unusedSimpArgs false
set_option linter.unusedVariables false
set_option linter.unusedTactic false
set_option linter.unreachableTactic false

namespace Rig.C10
open Rig.Gen Rig.Gen.Router Rig.IntBits Rig.Gen.PyFun Rig.PyDict

/-- the Python outcome of `Routes.opposite` in the model's vocabulary -/
def ofPy : Except String Int → Except Err (Option Nat)
  | .ok v => .ok (some v.toNat)
  | .error _ => .error .valueError

/-- `direction.opposite` of the model = `Routes.opposite` as written in the source -/
theorem gen_inDir (r : Nat) : inDir (some r) = ofPy (PyFun.Routes_opposite r) := by
  simp only [inDir, PyFun.Routes_opposite, PyFun.Routes_is_link, apply_ite ofPy, ofPy,
    Int.fmod_eq_emod_of_nonneg _ (by decide : (0 : Int) ≤ 6), List.contains_eq_mem, List.mem_cons,
    List.mem_nil_iff, or_false, decide_eq_true_eq, Bool.not_eq_true', decide_eq_false_iff_not, Bool.not_eq_true]
  try split_ifs
  all_goals first
    | rfl
    | omega
    | (refine congrArg Except.ok (congrArg some ?_); omega)

/-- `None` has no direction to reverse -/
example : inDir none = .ok none := rfl

/-! ### `unpack_routing_table_entry` (third round: `struct.unpack(consts.RTE_PACK_STRING, packed)`, a set
comprehension over `Routes`, an optional result) -/

def bytesInt (d : List Nat) : List Int := d.map (fun (n : Nat) => (n : Int))

/-- the model's outcome as the Python outcome: `struct.error` / `None` / `(RoutingTableEntry(routes, key, mask),
app_id, core)` (the entry as the triple of its constructor arguments, the route set as the list of its members
in the order of the enumeration) -/
def unpackPy : Option (Option Dec) → Except String (Option ((List Int × Int × Int) × Int × Int))
  | none => .error "struct.error"
  | some none => .ok none
  | some (some d) => .ok (some ((d.routes.map (fun (r : Nat) => (r : Int)), (d.key : Int), (d.mask : Int)),
                                 (d.app : Int), (d.core : Int)))

theorem unpackEntry_len (bs : List Nat) (h : bs.length ≠ 16) : unpackEntry bs = none := by
  unfold unpackEntry
  split
  · simp at h
  · rfl

/-- the route filter: bit `r` of the route word, tested the Python way, over the member values of `Routes` -/
theorem routes_filter (route : Nat) (l : List Nat) :
    (l.map (fun (r : Nat) => (r : Int))).filter (fun (r : Int) => decide (Int.land ((route : Int) >>> r.toNat) 1 ≠ 0))
      = (l.filter (fun r => (route >>> r) &&& 1 = 1)).map (fun (r : Nat) => (r : Int)) := by
  induction l with
  | nil => rfl
  | cons a t ih =>
    have e : (Int.land ((route : Int) >>> ((a : Int)).toNat) 1 ≠ 0) ↔ ((route >>> a) &&& 1 = 1) := by
      rw [Int.toNat_natCast, shr_natCast, one_natCast, land_natCast, Nat.and_one_is_mod]
      omega
    rw [List.map_cons, List.filter_cons, List.filter_cons, ih]
    by_cases h : (route >>> a) &&& 1 = 1
    · have h' := e.mpr h
      rw [if_pos (decide_eq_true h'), if_pos (decide_eq_true h), List.map_cons]
    · have h' : ¬ (Int.land ((route : Int) >>> ((a : Int)).toNat) 1 ≠ 0) := fun x => h (e.mp x)
      rw [if_neg (fun x => h' (of_decide_eq_true x)), if_neg (fun x => h (of_decide_eq_true x))]

/-- `unpack_routing_table_entry` as written in the source = the model's `unpackEntry`, for every byte string -/
theorem gen_unpack_routing_table_entry (bs : List Nat) :
    PyFun.unpack_routing_table_entry (bytesInt bs) = unpackPy (unpackEntry bs) := by
  unfold PyFun.unpack_routing_table_entry PyFun.pyStructUnpack
  have hsz : PyFun.pyStructSize [PyFun.PyFmt.H, PyFun.PyFmt.H, PyFun.PyFmt.I, PyFun.PyFmt.I, PyFun.PyFmt.I] = 16 := rfl
  have hlen : (bytesInt bs).length = bs.length := by simp [bytesInt]
  rw [hsz, hlen]
  by_cases h : bs.length = 16
  swap
  · simp only [h, if_false, unpackEntry_len bs h, unpackPy]
  simp only [h, if_true]
  match bs, h with
  | [x0, x1, f0, f1, r0, r1, r2, r3, k0, k1, k2, k3, m0, m1, m2, m3], _ =>
    have hv : PyFun.pyStructValues false [PyFun.PyFmt.H, PyFun.PyFmt.H, PyFun.PyFmt.I, PyFun.PyFmt.I, PyFun.PyFmt.I]
        (bytesInt [x0, x1, f0, f1, r0, r1, r2, r3, k0, k1, k2, k3, m0, m1, m2, m3])
        = [((x0 + 256 * x1 : Nat) : Int), ((f0 + 256 * f1 : Nat) : Int), ((word32 r0 r1 r2 r3 : Nat) : Int),
           ((word32 k0 k1 k2 k3 : Nat) : Int), ((word32 m0 m1 m2 m3 : Nat) : Int)] := by
      simp [bytesInt, PyFun.pyStructValues, PyFun.PyFmt.size, PyFun.pyLeValue, word32]
      refine ⟨?_, ?_, ?_⟩ <;> omega
    rw [hv]
    simp only [List.getD_cons_zero, List.getD_cons_succ, unpackEntry]
    have hlit : ([0, 1, 2, 3, 4, 5, 6, 7, 8, 9, 10, 11, 12, 13, 14, 15, 16, 17, 18, 19, 20, 21, 22, 23] : List Int)
        = routesValues.map (fun (r : Nat) => (r : Int)) := by decide
    rw [hlit, routes_filter]
    have e1 : (Int.land ((word32 r0 r1 r2 r3 : Nat) : Int) 4278190080 = 4278190080)
        ↔ (word32 r0 r1 r2 r3 &&& 0xff000000 = 0xff000000) := by
      rw [show (4278190080 : Int) = ((4278190080 : Nat) : Int) from rfl, land_natCast]; omega
    have e1' : ((4278190080 : Int) = Int.land ((word32 r0 r1 r2 r3 : Nat) : Int) 4278190080)
        ↔ (word32 r0 r1 r2 r3 &&& 0xff000000 = 0xff000000) := by
      rw [show (4278190080 : Int) = ((4278190080 : Nat) : Int) from rfl, land_natCast]; omega
    by_cases hr : word32 r0 r1 r2 r3 &&& 0xff000000 = 0xff000000
    · simp only [e1, e1', hr, if_true, unpackPy]
    · simp only [e1, e1', hr, if_false, unpackPy]
      simp (disch := decide) only [lit_natCast, land_natCast, shr_natCast, Int.toNat_natCast]

/-! ### `routing_tree_to_tables` (sixth translator round: `Gen/PyFunTables.lean`, the `do`-subset of
harness/gen/pydo.py - a defaultdict of OrderedDicts of named tuples of sets, the merge rule,
`MultisourceRouteError(key, mask, (x, y))`, the conversion to `RoutingTableEntry` lists).

The body of the function is regenerated from the source on every run; `tree.traverse()` (a generator over an
object graph) stays the hand model `traverse` (`traverse_exact`) and its result is the input.  Python's
`route_sets` is `nestOf` of the model's flat slot list (Lemmas/C10Dict.lean).  The proofs are semantic: the
generated loop body is normalised by the dict lemmas (`getD_touch`, `pyDictMod_touch`, `lookup_itemsOf`, ...) and
then split on the outcome of the lookup, so rewrites that keep the meaning keep the proof. -/

/-- the model's errors as Python exceptions (class name, integer arguments) -/
def errPy : Err → PyExc
  | .multisource k m c => ("MultisourceRouteError", [k, m, c.1, c.2])
  | .assertion => ("AssertionError", [])
  | .valueError => ("ValueError", [])

def resPy {α β : Type} (f : α → β) : Except Err α → Except PyExc β
  | .ok a => .ok (f a)
  | .error e => .error (errPy e)

def Visit.py (v : Visit) : Option Nat × (Nat × Nat) × List Nat := (v.dir, v.chip, v.outs)

theorem pySetEq_eq (a b : List Nat) : pySetEq a b = sameSet a b := rfl
theorem pySetAdd_eq (s : List (Option Nat)) (d : Option Nat) : pySetAdd s d = addIn d s := rfl

/-- `direction.opposite` as generated, through the `do`-subset's wrapper -/
theorem natProp_opposite (r : Nat) :
    pyNatProp Routes_opposite r = if r < 6 then .ok ((r + 3) % 6) else .error ("ValueError", []) := by
  simp only [pyNatProp, PyFun.Routes_opposite, PyFun.Routes_is_link,
    Int.fmod_eq_emod_of_nonneg _ (by decide : (0 : Int) ≤ 6), List.contains_eq_mem, List.mem_cons,
    List.mem_nil_iff, or_false, decide_eq_true_eq, Bool.not_eq_true', decide_eq_false_iff_not, Bool.not_eq_true]
  split_ifs
  all_goals first
    | rfl
    | omega
    | (simp only []; refine congrArg Except.ok ?_; omega)

/-- everything after `in_direction` is known: the lookup, the multi-source test, the merge / the new route set -/
theorem gen_step_core (key mask : Nat) (st : List Slot) (c : ChipXY) (outs : List Nat) (d : Option Nat)
    (R : Except PyExc (List (ChipXY × List ((Nat × Nat) × (List (Option Nat) × List Nat)))))
    (hsome : ∀ s, st.find? (fun s => s.at c key mask) = some s →
      R = if sameSet s.outs outs then
            .ok (pyDictMod (nestOf st) c [] (fun d' => pyDictAdj d' (key, mask) (fun v => (addIn d v.1, v.2))))
          else .error ("MultisourceRouteError", [key, mask, c.1, c.2]))
    (hnone : st.find? (fun s => s.at c key mask) = none →
      R = .ok (pyDictMod (nestOf st) c [] (fun d' => pyDictSet d' (key, mask) ([d], outs)))) :
    R = resPy nestOf (match st.find? (fun s => s.at c key mask) with
      | some s =>
        if sameSet s.outs outs then
          .ok (st.map (fun s' => if s'.at c key mask then { s' with ins := addIn d s'.ins } else s'))
        else .error (.multisource key mask c)
      | none => .ok (st ++ [{ chip := c, key := key, mask := mask, ins := [d], outs := outs }])) := by
  cases hf : st.find? (fun s => s.at c key mask) with
  | none =>
    rw [hnone hf, insert_nestOf st c key mask [d] outs hf]
    rfl
  | some s =>
    rw [hsome s hf]
    have hc : c ∈ chipsOf st := by
      have h1 := List.mem_of_find?_eq_some hf
      have h2 := List.find?_some hf
      exact (mem_chipsOf st c).2 ⟨s, h1, ((Slot.at_iff s c key mask).1 h2).1⟩
    rw [merge_nestOf st c key mask (addIn d) hc]
    simp only []
    split <;> rfl

theorem sameSet_comm (a b : List Nat) : sameSet a b = sameSet b a := by
  unfold sameSet; exact Bool.and_comm _ _

/-- closes the two side goals of `gen_step_core` once the direction is known; independent of the order of the
operands of the set comparison and of how the tests on `None` are written -/
macro "gen_step_close" : tactic => `(tactic| (
  apply gen_step_core
  · intro s hs
    have hcomm := sameSet_comm s.outs ‹List Nat›
    cases hss : sameSet s.outs ‹List Nat› <;> rw [hss] at hcomm <;>
      simp [hs, hss, ← hcomm]
  · intro hn
    simp [hn]
    try rfl))

theorem gen_step (key mask : Nat) (st : List Slot) (v : Visit) :
    routing_tree_to_tables_loop2 key mask (nestOf st) v.py = resPy nestOf (step key mask st v) := by
  obtain ⟨dir, ⟨x, y⟩, outs⟩ := v
  unfold routing_tree_to_tables_loop2 Visit.py step
  simp only [bind, Except.bind, pure, Except.pure, throw, throwThe, MonadExceptOf.throw,
    touch_touch, getD_touch, pyDictMod_touch, getD_nestOf, pyDictHas, pyDictGet, lookup_itemsOf,
    pySetEq_eq, pySetAdd_eq, pyLift]
  cases dir with
  | none =>
    simp only [inDir, pyOptAttr, beq_iff_eq, bne_iff_ne, ne_eq, reduceCtorEq, not_true_eq_false, not_false_eq_true,
      if_true, if_false, Bool.false_eq_true, bne_self_eq_false, beq_self_eq_true]
    gen_step_close
  | some r =>
    simp only [inDir, pyOptAttr, natProp_opposite, beq_iff_eq, bne_iff_ne, ne_eq, reduceCtorEq, not_true_eq_false,
      not_false_eq_true, if_true, if_false, Bool.false_eq_true]
    by_cases hr : r < 6
    · simp only [hr, if_true]
      gen_step_close
    · simp only [hr, if_false]
      try rfl

theorem gen_stepAll (key mask : Nat) : ∀ (vs : List Visit) (st : List Slot),
    List.foldlM (routing_tree_to_tables_loop2 key mask) (nestOf st) (vs.map Visit.py)
      = resPy nestOf (stepAll key mask st vs)
  | [], st => rfl
  | v :: vs, st => by
    rw [List.map_cons, List.foldlM_cons, gen_step, stepAll]
    cases h : step key mask st v with
    | error e => rfl
    | ok st' => exact gen_stepAll key mask vs st'

/-- what `tree.traverse()` hands to the loop: the items yielded by the hand-modelled traversal -/
def travPy (n : Net) : List (Option Nat × (Nat × Nat) × List Nat) := (traverse n.tree).1.map Visit.py

/-- one net: `key, mask = net_keys[net]` and the loop over the traversal -/
theorem gen_processNet (net_keys : List (Nat × (Nat × Nat))) (st : List Slot) (i : Nat) (n : Net)
    (hk : net_keys.lookup i = some (n.key, n.mask)) (ht : (traverse n.tree).2 = false) :
    routing_tree_to_tables_loop1 net_keys (nestOf st) (i, travPy n) = resPy nestOf (processNet st n) := by
  unfold routing_tree_to_tables_loop1 processNet travPy
  simp only [bind, Except.bind, pure, Except.pure, pyLift, pyDictGet, hk, gen_stepAll, ht]
  cases stepAll n.key n.mask st (traverse n.tree).1 <;> rfl

theorem gen_processNets (net_keys : List (Nat × (Nat × Nat))) : ∀ (L : List (Nat × Net)) (st : List Slot),
    (∀ p ∈ L, net_keys.lookup p.1 = some (p.2.key, p.2.mask)) → (∀ p ∈ L, (traverse p.2.tree).2 = false) →
    List.foldlM (routing_tree_to_tables_loop1 net_keys) (nestOf st) (L.map (fun p => (p.1, travPy p.2)))
      = resPy nestOf (processNets st (L.map (·.2)))
  | [], st, _, _ => rfl
  | p :: L, st, hk, ht => by
    rw [List.map_cons, List.foldlM_cons, gen_processNet net_keys st p.1 p.2 (hk p (by simp)) (ht p (by simp)),
      List.map_cons, processNets]
    cases h : processNet st p.2 with
    | error e => rfl
    | ok st' =>
      exact gen_processNets net_keys L st' (fun q hq => hk q (by simp [hq])) (fun q hq => ht q (by simp [hq]))

/-! ### the second phase: route sets to `RoutingTableEntry` lists -/

/-- `RoutingTableEntry(route, key, mask, sources)` as the tuple of its fields -/
def Entry.py (e : Entry) : List Nat × Nat × Nat × List (Option Nat) := (e.route, e.key, e.mask, e.sources)
def tablesPy (T : Tables) : List (ChipXY × List (List Nat × Nat × Nat × List (Option Nat))) :=
  T.map (fun ct => (ct.1, ct.2.map Entry.py))

abbrev PyItem := (Nat × Nat) × (List (Option Nat) × List Nat)
def convItem (i : PyItem) : List Nat × Nat × Nat × List (Option Nat) := (i.2.2, i.1.1, i.1.2, i.2.1)

theorem gen_loop4 (x y : Nat) (acc) (i : PyItem) :
    routing_tree_to_tables_loop4 x y acc i = .ok (pyDictMod acc (x, y) [] (fun l => l ++ [convItem i])) := by
  obtain ⟨⟨k, m⟩, r⟩ := i
  rfl

theorem mod_append_last {β : Type} (acc : List (ChipXY × List β)) (c : ChipXY) (l : List β) (e : β)
    (h : acc.lookup c = none) :
    pyDictMod (acc ++ [(c, l)]) c [] (fun l => l ++ [e]) = acc ++ [(c, l ++ [e])] := by
  unfold pyDictMod pyDictGetD
  rw [pyDictSet_append_of_none _ _ _ _ h, List.lookup_append, h]
  simp [pyDictSet, List.lookup]

theorem gen_loop4_all (x y : Nat) (acc) (h : acc.lookup (x, y) = none) : ∀ (d : List PyItem) (l),
    List.foldlM (routing_tree_to_tables_loop4 x y) (acc ++ [((x, y), l)]) d
      = .ok (acc ++ [((x, y), l ++ d.map convItem)])
  | [], l => by simp [pure, Except.pure]
  | i :: d, l => by
    rw [List.foldlM_cons, gen_loop4, mod_append_last _ _ _ _ h]
    simp only [bind, Except.bind]
    rw [gen_loop4_all x y acc h d]
    simp

theorem gen_loop3 (acc) (c : ChipXY) (d : List PyItem) (h : acc.lookup c = none) (hd : d ≠ []) :
    routing_tree_to_tables_loop3 acc (c, d) = .ok (acc ++ [(c, d.map convItem)]) := by
  obtain ⟨x, y⟩ := c
  unfold routing_tree_to_tables_loop3
  simp only [bind, Except.bind, pure, Except.pure]
  match d, hd with
  | i :: d, _ =>
    rw [List.foldlM_cons, gen_loop4]
    simp only [bind, Except.bind]
    have : pyDictMod acc (x, y) [] (fun l => l ++ [convItem i]) = acc ++ [((x, y), [convItem i])] := by
      unfold pyDictMod pyDictGetD
      rw [h, pyDictSet_of_lookup_none _ _ _ h]
      rfl
    rw [this, gen_loop4_all x y acc h d]
    simp

theorem gen_loop3_all : ∀ (N : List (ChipXY × List PyItem)) (acc),
    (N.map (·.1)).Nodup → (∀ p ∈ N, acc.lookup p.1 = none) → (∀ p ∈ N, p.2 ≠ []) →
    List.foldlM routing_tree_to_tables_loop3 acc N = .ok (acc ++ N.map (fun p => (p.1, p.2.map convItem)))
  | [], acc, _, _, _ => by simp [pure, Except.pure]
  | p :: N, acc, hn, ha, hd => by
    obtain ⟨c, d⟩ := p
    rw [List.foldlM_cons, gen_loop3 acc c d (ha (c, d) (by simp)) (hd (c, d) (by simp))]
    simp only [bind, Except.bind]
    simp only [List.map_cons, List.nodup_cons] at hn
    rw [gen_loop3_all N _ hn.2 _ (fun q hq => hd q (by simp [hq]))]
    · simp
    · intro q hq
      rw [List.lookup_append, ha q (by simp [hq])]
      have : q.1 ≠ c := fun e => hn.1 (e ▸ List.mem_map_of_mem hq)
      have : (q.1 == c) = false := by simpa using this
      simp [List.lookup, this]

theorem itemsOf_ne_nil (st : List Slot) (c : ChipXY) (h : c ∈ chipsOf st) : itemsOf st c ≠ [] := by
  obtain ⟨s, hs, hc⟩ := (mem_chipsOf st c).1 h
  unfold itemsOf
  intro e
  rw [List.map_eq_nil_iff, List.filter_eq_nil_iff] at e
  exact e s hs (by simp [hc])

theorem gen_tables_of (st : List Slot) :
    List.foldlM routing_tree_to_tables_loop3 [] (nestOf st) = .ok (tablesPy (tablesOf st)) := by
  rw [gen_loop3_all (nestOf st) [] (nodup_keys_nestOf st) (fun _ _ => rfl)]
  · simp only [List.nil_append, nestOf, tablesPy, tablesOf, List.map_map]
    congr 1
    apply List.map_congr_left
    intro c _
    simp only [Function.comp, itemsOf, List.map_map]
    rfl
  · intro p hp
    simp only [nestOf, List.mem_map] at hp
    obtain ⟨c, hc, rfl⟩ := hp
    exact itemsOf_ne_nil st c hc

/-- **`routing_tree_to_tables` as written in the source = the model's `treeTables`**, for every dict of nets
(`L`: the items of `routes` in iteration order, each net id with its tree), every `net_keys` that has the
nets' keys, and the traversal results the hand-modelled `traverse` yields (no assertion: `traverse_exact`). -/
theorem gen_tree_tables (L : List (Nat × Net)) (net_keys : List (Nat × (Nat × Nat)))
    (hk : ∀ p ∈ L, net_keys.lookup p.1 = some (p.2.key, p.2.mask)) (hwf : ∀ p ∈ L, p.2.tree.WF) :
    routing_tree_to_tables (L.map (fun p => (p.1, travPy p.2))) net_keys
      = resPy tablesPy (treeTables (L.map (·.2))) := by
  unfold routing_tree_to_tables treeTables
  simp only [bind, Except.bind, pure, Except.pure]
  have h0 : ([] : List (ChipXY × List PyItem)) = nestOf [] := rfl
  rw [h0, gen_processNets net_keys L [] hk (fun p hp => (traverse_spec p.2.tree (hwf p hp)).1)]
  cases processNets [] (L.map (·.2)) with
  | error e => rfl
  | ok st => simp only [resPy, gen_tables_of]


/-- nothing is lost in the comparison: the model's outcome can be read back from the Python outcome -/
theorem errPy_injective : Function.Injective errPy := by
  intro a b h
  cases a <;> cases b <;> simp [errPy] at h ⊢
  obtain ⟨h1, h2, h3, h4⟩ := h
  exact ⟨h1, h2, Prod.ext h3 h4⟩

theorem map_injective' {α β : Type} (f : α → β) (hf : Function.Injective f) : Function.Injective (List.map f) := by
  intro a
  induction a with
  | nil => intro b h; cases b <;> simp_all
  | cons x xs ih =>
    intro b h
    cases b with
    | nil => simp at h
    | cons y ys =>
      simp only [List.map_cons, List.cons.injEq] at h
      rw [hf h.1, ih h.2]

theorem tablesPy_injective : Function.Injective tablesPy := by
  unfold tablesPy
  apply map_injective'
  rintro ⟨c1, es1⟩ ⟨c2, es2⟩ h
  simp only [Prod.mk.injEq] at h ⊢
  refine ⟨h.1, map_injective' _ ?_ h.2⟩
  rintro ⟨r1, k1, m1, s1⟩ ⟨r2, k2, m2, s2⟩ he
  simp only [Entry.py, Prod.mk.injEq] at he
  simp [he.1, he.2.1, he.2.2.1, he.2.2.2]

theorem resPy_injective {α β : Type} (f : α → β) (hf : Function.Injective f) : Function.Injective (resPy f) := by
  intro a b h
  cases a <;> cases b <;> simp only [resPy, Except.ok.injEq, Except.error.injEq, reduceCtorEq] at h
  · exact congrArg _ (errPy_injective h)
  · exact congrArg _ (hf h)

/-- **The first clause of C10, about the code as written**: what the generated `routing_tree_to_tables` returns
or raises is the Python form of a result that satisfies `TablesSpec` (tables exact and no conflict, or the
multi-source error at a real conflict - `tables_exact`, `multisource_iff`), and that result is unique. -/
theorem gen_tables_spec (L : List (Nat × Net)) (net_keys : List (Nat × (Nat × Nat)))
    (hk : ∀ p ∈ L, net_keys.lookup p.1 = some (p.2.key, p.2.mask)) (hwf : ∀ p ∈ L, p.2.tree.WF) :
    ∃ r, routing_tree_to_tables (L.map (fun p => (p.1, travPy p.2))) net_keys = resPy tablesPy r ∧
      TablesSpec (L.map (·.2)) r ∧
      ∀ r', routing_tree_to_tables (L.map (fun p => (p.1, travPy p.2))) net_keys = resPy tablesPy r' → r' = r := by
  refine ⟨treeTables (L.map (·.2)), gen_tree_tables L net_keys hk hwf, ?_, ?_⟩
  · apply tables_spec
    intro n hn
    obtain ⟨p, hp, rfl⟩ := List.mem_map.1 hn
    exact hwf p hp
  · intro r' h
    rw [gen_tree_tables L net_keys hk hwf] at h
    exact (resPy_injective tablesPy tablesPy_injective h).symm


/-- the hypotheses are satisfiable on a non-trivial instance (two nets sharing a key on a two-chip tree), and
there the generated function returns the two tables -/
example :
    let t : Tree := .node (0, 0) (.sub (some 0) (.node (1, 0) (.leaf (some 7) .nil)) .nil)
    let L : List (Nat × Net) := [(5, ⟨3, 15, t⟩), (9, ⟨3, 15, t⟩)]
    routing_tree_to_tables (L.map (fun p => (p.1, travPy p.2))) [(9, (3, 15)), (5, (3, 15))]
      = .ok [((0, 0), [([0], 3, 15, [none])]), ((1, 0), [([7], 3, 15, [some 3])])] := by
  intro t L
  have hwf : ∀ p ∈ L, p.2.tree.WF := by
    intro p hp
    simp only [L, List.mem_cons, List.mem_nil_iff, or_false] at hp
    rcases hp with rfl | rfl <;> exact ⟨⟨0, rfl, by decide⟩, trivial, trivial⟩
  rw [gen_tree_tables L _ (by decide) hwf]
  rfl

end Rig.C10
