/-
C18 - translator tie: the connection used for a chip (`MachineController._get_connection`, Model/C18 `getConnection`)
is chosen by `rig.geometry.spinn5_local_eth_coord`, whose body is regenerated from the source into `Gen/PyFun.lean`
(and proved equal to the C19 model in Props/C19Gen.lean).  Here the C18 model's own transcription `localEth` is
proved equal to the generated definition, for all coordinates, dimensions and root chips - so C18's connection rule
speaks about the geometry function as it is written now.
-/
import RigModel.Model.C18
import RigModel.Gen.PyFun
set_option linter.unusedSimpArgs false
set_option linter.unusedVariables false

namespace Rig.C18
open Rig.Gen

theorem fmod12_emod (a : Int) : Int.fmod a 12 = a % 12 := Int.fmod_eq_emod_of_nonneg a (by decide)

theorem fmod_nat (a : Int) (n : Nat) : Int.fmod a (n : Int) = a % (n : Int) :=
  Int.fmod_eq_emod_of_nonneg a (by omega)

/-- the model's `localEth` = `spinn5_local_eth_coord` as written in the source -/
theorem gen_localEth (x y : Int) (w h : Nat) (rx ry : Int) :
    localEth x y w h rx ry = PyFun.spinn5_local_eth_coord x y (w : Int) (h : Int) rx ry := by
  unfold localEth PyFun.spinn5_local_eth_coord ethOffsetAt
  simp only [fmod12_emod, fmod_nat]
  rfl

/-- hence the model's `getConnection` in terms of the generated geometry function -/
theorem gen_getConnection (c : McCfg) (x y : Int) :
    getConnection c x y =
      match c.dims, c.root with
      | some (w, h), some (rx, ry) =>
        if c.conns.contains (PyFun.spinn5_local_eth_coord x y (w : Int) (h : Int) rx ry)
        then some (PyFun.spinn5_local_eth_coord x y (w : Int) (h : Int) rx ry) else none
      | _, _ => none := by
  unfold getConnection
  cases c.dims with
  | none => rfl
  | some wh =>
    cases c.root with
    | none => rfl
    | some r => simp only [gen_localEth]

end Rig.C18
