/-
C01 (capstone, wrappers) - `place_and_route_wrapper` delivers, starting from the SystemInfo.

`model_pipeline_delivers` (Props/C01Pipe.lean) starts from a Machine and constraints GIVEN by the caller.  Here the
gap to `place_and_route_wrapper` is closed: `wrapperPipeline` (Model/C01Wrap.lean) COMPOSES C14's `buildMachine`,
`coreConstraints` and `targetLengths` with `modelPipeline` through an explicit type bridge, and

`wrapper_pipeline_delivers`: for every SystemInfo in the documented domain (`SIDomain`: distinct keys inside the
extent, at most 18 cores per chip, one state per core) and every application in the documented domain (`WDomain`,
`WPlacerDomain`), every placer of C02 with every oracle input, every radius, every per-net oracle and every method
list: IF `wrapperPipeline` returns THEN
  (1) the placement is feasible on the machine C14 derives from the SystemInfo,
  (2) every net was routed from the chip of its source to its sinks as placed / allocated, and every packet whose key
      matches the net's key/mask is `Delivered` on the FINAL tables (exactly one copy to every allocated core of every
      sink, one exit per endpoint link, nothing else, no flag) - on the machine whose chips and links are exactly the
      chips and working links the SystemInfo reports (`machine_is_sysinfo`),
  (3) `AllocIdle`: every allocated core is a core the SystemInfo has on that chip and reports idle: cores reserved by
      `build_core_constraints` are never allocated (C14 `reservations_partition` + C05 `alloc_sound` + C14
      `build_machine_exact`).

`deprecated_pipeline_delivers`: the same delivery statement for the deprecated `wrapper()` (reserve_monitor /
align_sdram in every combination).
-/
import RigModel.Lemmas.C01Wrap
import RigModel.Props.C01Pipe
import RigModel.Props.C14
set_option linter.unusedSimpArgs false
set_option linter.unusedVariables false

namespace Rig.C01Wrap
open Rig.C01 Rig.C01Pipe
open Rig.C03 (Chip chipOk linkOk Sink)
open Rig.C14 (SysInfo ChipInfo PMachine Reservation buildMachine coreConstraints busy coverCount)
open Rig.Gen.C14 (APPSTATE_IDLE)

/-! ## the documented domain -/

/-- the SystemInfo is a dictionary of chips inside its extent (what `get_system_info` returns: C14
`get_system_info_exact`), a SpiNNaker chip has at most 18 cores, and every record has one state per core (what
`get_chip_info` returns: `core_states[:num_cores]`) -/
structure SIDomain (si : SysInfo) : Prop where
  wf : si.WF
  cores18 : ∀ xy ci, (xy, ci) ∈ si.chips → ci.numCores ≤ 18
  states : ∀ xy ci, (xy, ci) ∈ si.chips → ci.coreStates.length = ci.numCores

/-- the caller's arguments: `Rig.C01Pipe.Domain` in the caller's own vocabulary - a device link is a link the
SystemInfo does not report working (`(x, y, link) in system_info` is false) -/
structure WDomain (si : SysInfo) (wp : WProblem) : Prop where
  vrNodup : (wp.vr.map (·.1)).Nodup
  resNodup : ∀ q ∈ wp.vr, (q.2.map (·.1)).Nodup
  demandNonneg : ∀ q ∈ wp.vr, ∀ rd ∈ q.2, 0 ≤ rd.2
  alignPos : ∀ r a, PC.align r a ∈ wp.cs → 1 ≤ a
  endpointIsLink : ∀ v r, PC.endpoint v r ∈ wp.cs → r < 6
  endpointDead : ∀ v r, PC.endpoint v r ∈ wp.cs → ∃ c, PC.loc v c ∈ wp.cs ∧ si.hasLink c.1 c.2 r = false
  keysDisjoint : wp.nets.Pairwise (fun a b => Rig.C04.intersect a.key a.mask b.key b.mask = false)

/-- the placer's domain (`PlacerDomain` without the non-negativity of the chip resources, which holds for every
machine derived from a SystemInfo: `L.nonnegCap`) -/
structure WPlacerDomain (si : SysInfo) (wp : WProblem) (pl : Placer) : Prop where
  consistent : Rig.C02.Consistent (vr02 (problemOf si wp)) (cs02 (problemOf si wp))
  emptyOK : Rig.C02.EmptyOK (vr02 (problemOf si wp)) (cs02 (problemOf si wp)) (problemOf si wp).m2
  oracle : match pl with
    | .seq vo _ => ∀ o, vo = some o → ∀ v ∈ Rig.C02.keys (vr02 (problemOf si wp)), v ∈ o
    | .rand _ => True
    | .sa _ vs _ => ∀ vr' cs' subs m' fixed,
        Rig.C02.applySame (vr02 (problemOf si wp)) (cs02 (problemOf si wp)) = .ok (vr', cs', subs) →
        Rig.C02.prepareLoop vr' cs' (problemOf si wp).m2 [] = .ok (m', fixed) →
        ∀ v ∈ Rig.C02.keys vr', v ∈ vs ∨ v ∈ Rig.C02.keys fixed

/-- **the derived problem is in the domain of the model pipeline** -/
theorem domain_of_sysinfo {si : SysInfo} {wp : WProblem} (hsi : SIDomain si) (dom : WDomain si wp) :
    Domain (problemOf si wp) where
  vrNodup := dom.vrNodup
  resNodup := dom.resNodup
  demandNonneg := dom.demandNonneg
  alignPos := by
    intro r a h
    rcases L.mem_constraintsOf h with ⟨r', _, h'⟩ | h'
    · simp [Reservation.toPC] at h'
    · exact dom.alignPos r a h'
  cores18 := by
    intro xy c h
    obtain ⟨c', ci, _, hci, rfl⟩ := L.capacity_described hsi.wf wp h
    have := hsi.cores18 _ _ hci
    omega
  endpointIsLink := by
    intro v r h
    rcases L.mem_constraintsOf h with ⟨r', _, h'⟩ | h'
    · simp [Reservation.toPC] at h'
    · exact dom.endpointIsLink v r h'
  endpointDead := by
    intro v r h
    rcases L.mem_constraintsOf h with ⟨r', _, h'⟩ | h'
    · simp [Reservation.toPC] at h'
    · obtain ⟨c, hloc, hdead⟩ := dom.endpointDead v r h'
      exact ⟨c, List.mem_append_right _ hloc,
        L.link_dead_of_not_reported hsi.wf wp (dom.endpointIsLink v r h') hdead⟩
  keysDisjoint := dom.keysDisjoint

theorem placerDomain_of_sysinfo {si : SysInfo} {wp : WProblem} {pl : Placer} (hpl : WPlacerDomain si wp pl) :
    PlacerDomain (problemOf si wp) pl where
  nonnegCap := L.nonnegCap si wp
  consistent := hpl.consistent
  emptyOK := hpl.emptyOK
  oracle := hpl.oracle

/-- with at least one vertex the `EmptyOK` hypothesis of the placers is vacuous -/
theorem emptyOK_of_vertices (si : SysInfo) (wp : WProblem) (h : wp.vr ≠ []) :
    Rig.C02.EmptyOK (vr02 (problemOf si wp)) (cs02 (problemOf si wp)) (problemOf si wp).m2 := by
  intro he
  exfalso
  apply h
  simpa [vr02, problemOf] using he

/-! ## the machine the packets travel on is the machine the SystemInfo describes -/

/-- **`machine_is_sysinfo`** - the bridge, stated on the machine of the delivery statement: for a well-formed
SystemInfo, a chip is a working chip of `machine3 (problemOf si wp)` iff it has natural coordinates and a record in
the SystemInfo, and link `l < 6` of it is a working link iff that record lists `l` among the working links. -/
theorem machine_is_sysinfo (si : SysInfo) (wp : WProblem) (hwf : si.WF) :
    (∀ xy : Chip, chipOk (machine3 (problemOf si wp)) xy = true ↔ ∃ c ci, xy = chipZ c ∧ (c, ci) ∈ si.chips) ∧
    (∀ (c : Nat × Nat) (l : Nat), l < 6 →
      (linkOk (machine3 (problemOf si wp)) (chipZ c) l = true ↔ ∃ ci, (c, ci) ∈ si.chips ∧ l ∈ ci.links)) := by
  constructor
  · intro xy
    constructor
    · intro h
      obtain ⟨c, rfl, hok⟩ := L.chipOk_nat h
      obtain ⟨ci, hci⟩ := (Rig.C14.buildMachine_chip si hwf c.1 c.2).1 hok
      exact ⟨c, ci, rfl, hci⟩
    · rintro ⟨c, ci, rfl, hci⟩
      rw [L.chipOk_bridge]
      exact (Rig.C14.buildMachine_chip si hwf c.1 c.2).2 ⟨ci, hci⟩
  · intro c l hl
    rw [L.linkOk_bridge]
    exact Rig.C14.buildMachine_link si hwf c.1 c.2 l hl

/-! ## allocated cores are idle cores -/

theorem afterPlace_alloc {pb : Problem} {p : Rig.C02.Placement} {radius : Nat} {orc : List NetOracle}
    {mini : Option (List Rig.C04.Method × (Chip → Option Nat))} {out : Out}
    (h : afterPlace pb p radius orc mini = .ok out) :
    ∃ a, Rig.C05.allocate (input05 pb p) = .ok a ∧ out.alloc = Rig.C05.strip a := by
  unfold afterPlace at h
  split at h
  · cases h
  · rename_i a ha
    refine ⟨a, ha, ?_⟩
    split at h
    · cases h
    · split at h
      · cases h
      · split at h
        · cases h; rfl
        · split at h
          · cases h
          · cases h; rfl

theorem mem_pl05 {p : Rig.C02.Placement} {q : Nat × Rig.C05.Chip} (h : q ∈ pl05 p) :
    ∃ c, (Rig.C02.Vtx.o q.1, c) ∈ p ∧ q.2 = chipZ c := by
  simp only [pl05, List.mem_filterMap] at h
  obtain ⟨vc, hvc, hq⟩ := h
  obtain ⟨v, c⟩ := vc
  cases v with
  | m k => simp at hq
  | o n =>
    simp only [Option.some.injEq] at hq
    subst hq
    exact ⟨c, hvc, rfl⟩

theorem aget_of_mem_nodup {α β : Type} [DecidableEq α] :
    ∀ {l : List (α × β)} {a : α} {x : β}, (Rig.C02.keys l).Nodup → (a, x) ∈ l → Rig.C02.aget l a = some x
  | [], _, _, _, h => by cases h
  | (k, v) :: t, a, x, hn, h => by
    simp only [Rig.C02.keys, List.map_cons, List.nodup_cons] at hn
    simp only [Rig.C02.aget]
    rcases List.mem_cons.1 h with h | h
    · cases h; simp
    · have hne : k ≠ a := by
        intro e; subst e
        exact hn.1 (List.mem_map.2 ⟨_, h, rfl⟩)
      rw [if_neg hne]
      exact aget_of_mem_nodup hn.2 h

/-- **C14 `reservations_partition` + C05 `alloc_sound`**: on the machine and constraints derived from the SystemInfo,
whatever the allocator returns for a feasible placement hands out only cores the SystemInfo has and reports idle -/
theorem alloc_idle {si : SysInfo} {wp : WProblem} (hsi : SIDomain si) (dom : WDomain si wp)
    {p : Rig.C02.Placement} (hn : (Rig.C02.keys p).Nodup)
    {a : List (Rig.C05.Vertex × List Rig.C05.Entry)}
    (ha : Rig.C05.allocate (input05 (problemOf si wp) p) = .ok a) :
    AllocIdle si p (Rig.C05.strip a) := by
  intro v c sl hp hsl i hi1 hi2
  have hd := domain_of_sysinfo hsi dom
  have hv := Rig.C05.alloc_sound _ _ (Rig.C01Pipe.L.wellFormed05 hd hn) ha
  obtain ⟨p', hp', hpv, q, _, _, rd, _, hrd, hg⟩ := hv.2.2.1 _ (Rig.C01Pipe.L.coresOf_flat hsl)
  simp only at hpv hrd
  obtain ⟨c', hc', hpc⟩ := mem_pl05 hp'
  rw [hpv] at hc'
  have := aget_of_mem_nodup hn hc'
  rw [hp] at this
  cases this
  obtain ⟨_, h0, ⟨k, hk, hle⟩, _, hres⟩ := hg
  simp only at h0 hle hres
  rw [hrd, hpc] at hk hres
  obtain ⟨c2, ci, hc2, hci, rfl⟩ := L.capacity_described hsi.wf wp hk
  have := L.chipZ_inj' hc2
  subst this
  have hlt : i < ci.numCores := by omega
  refine ⟨ci, hci, hlt, ?_⟩
  -- busy cores are covered by a reservation, which the allocator keeps clear of
  have h18 : ∀ xy ci, (xy, ci) ∈ si.chips → ci.coreStates.length ≤ 18 := by
    intro xy ci' h'
    rw [hsi.states _ _ h']; exact hsi.cores18 _ _ h'
  have hpart := Rig.C14.reservations_partition si hsi.wf.1 h18 c ci hci i
  have hnb : busy ci i = false := by
    cases hb : busy ci i with
    | false => rfl
    | true =>
      exfalso
      rw [hb] at hpart
      simp only [if_true] at hpart
      unfold coverCount at hpart
      have : ∃ r, r ∈ (coreConstraints si).filter fun r => r.appliesTo c && decide (r.start ≤ i) && decide (i < r.stop) := by
        apply List.exists_mem_of_length_pos
        omega
      obtain ⟨r, hr⟩ := this
      rw [List.mem_filter] at hr
      obtain ⟨hr, hcond⟩ := hr
      simp only [Bool.and_eq_true, decide_eq_true_eq] at hcond
      have hmem := L.reservation_reserved (cs := wp.cs) hr hcond.1.1
      apply hres _ hmem
      unfold Rig.C05.Overlaps
      simp only
      omega
  unfold busy at hnb
  have hlen : i < ci.coreStates.length := by rw [hsi.states _ _ hci]; exact hlt
  rw [List.getElem?_eq_getElem hlen] at hnb ⊢
  simp only [bne_eq_false_iff_eq] at hnb
  rw [hnb]

/-! ## the oracle decides the specification -/

theorem lookup_some_mem {α β : Type} [BEq α] [LawfulBEq α] : ∀ {l : List (α × β)} {a : α} {b : β},
    l.lookup a = some b → (a, b) ∈ l
  | [], _, _, h => by cases h
  | (k, v) :: t, a, b, h => by
    simp only [List.lookup_cons] at h
    split at h
    · rename_i he
      cases h
      have : a = k := by simpa using he
      subst this; simp
    · exact List.mem_cons_of_mem _ (lookup_some_mem h)

theorem lookup_of_mem_nodup {α β : Type} [BEq α] [LawfulBEq α] : ∀ {l : List (α × β)} {a : α} {b : β},
    (l.map (·.1)).Nodup → (a, b) ∈ l → l.lookup a = some b
  | [], _, _, _, h => by cases h
  | (k, v) :: t, a, b, hn, h => by
    simp only [List.map_cons, List.nodup_cons] at hn
    simp only [List.lookup_cons]
    rcases List.mem_cons.1 h with h1 | h2
    · cases h1; simp
    · have hne : (a == k) = false := by
        simp only [beq_eq_false_iff_ne, ne_eq]
        intro e; subst e
        exact hn.1 (List.mem_map.2 ⟨(a, b), h2, rfl⟩)
      rw [hne]
      exact lookup_of_mem_nodup hn.2 h2

/-- one (vertex, chip, range): the cores of the range that are absent or not idle -/
theorem badCores_nil_iff (si : SysInfo) (hnd : (si.chips.map (·.1)).Nodup) (v : Nat) (c : Nat × Nat) (sl : Rig.C05.Slice) :
    (((List.range (sl.stop.toNat - sl.start.toNat)).map (· + sl.start.toNat)).filterMap fun i =>
        match si.chips.lookup c with
        | some ci => if i < ci.numCores && ci.coreStates[i]? == some APPSTATE_IDLE then none else some (v, c, i)
        | none => some (v, c, i)) = [] ↔
    ∀ i : Nat, sl.start ≤ (i : Int) → (i : Int) < sl.stop →
      ∃ ci, (c, ci) ∈ si.chips ∧ i < ci.numCores ∧ ci.coreStates[i]? = some APPSTATE_IDLE := by
  rw [List.filterMap_eq_nil_iff]
  constructor
  · intro h i h1 h2
    have hm : i ∈ (List.range (sl.stop.toNat - sl.start.toNat)).map (· + sl.start.toNat) := by
      simp only [List.mem_map, List.mem_range]
      exact ⟨i - sl.start.toNat, by omega, by omega⟩
    have := h i hm
    split at this
    · rename_i ci hl
      split at this
      · rename_i hc
        simp only [Bool.and_eq_true, decide_eq_true_eq, beq_iff_eq] at hc
        exact ⟨ci, lookup_some_mem hl, hc.1, hc.2⟩
      · cases this
    · cases this
  · intro h i hm
    simp only [List.mem_map, List.mem_range] at hm
    obtain ⟨j, hj, rfl⟩ := hm
    obtain ⟨ci, hci, h1, h2⟩ := h (j + sl.start.toNat) (by omega) (by omega)
    rw [lookup_of_mem_nodup hnd hci]
    simp [h1, h2]

/-- **oracle = specification**: the decided `allocIdleB` (what the harness evaluates on the placements and
allocations the implementation returned) is `AllocIdle` (what `wrapper_pipeline_delivers` proves), for every
SystemInfo with distinct keys -/
theorem allocIdleB_iff (si : SysInfo) (hnd : (si.chips.map (·.1)).Nodup) (p : Rig.C02.Placement) (A : Rig.C05.Alloc) :
    allocIdleB si p A = true ↔ AllocIdle si p A := by
  unfold allocIdleB allocBad AllocIdle
  rw [List.isEmpty_iff, List.flatMap_eq_nil_iff]
  constructor
  · intro h v c sl hp hsl
    have hm := Rig.C02.aget_some_mem hp
    have := h _ hm
    simp only [hp, hsl] at this
    exact (badCores_nil_iff si hnd v c sl).1 this
  · intro h vc hvc
    obtain ⟨vt, c0⟩ := vc
    cases vt with
    | m k => rfl
    | o v =>
      simp only
      split
      · rename_i c sl hp hsl
        exact (badCores_nil_iff si hnd v c sl).2 (h v c sl hp hsl)
      · rfl

/-! ## the capstone for `place_and_route_wrapper` -/

/-- **wrapper_pipeline_delivers** - C01 for `place_and_route_wrapper`, starting from the SystemInfo.

For every SystemInfo in the documented domain, every application in the documented domain, every placer of C02 with
every oracle input, every radius, every per-net oracle, every list of minimisation methods (the targets are the
SystemInfo's free router entries): IF `wrapperPipeline si wp ...` returns `out` THEN, with
`pb = problemOf si wp` (machine = `build_machine(si)`, constraints = `build_core_constraints(si) + constraints`):

* the placement is what the placer returned on `pb` and is `Feasible` there;
* for every net (in order) the net was routed from the chip of its source to its sinks as placed, allocated and
  endpoint-constrained, and for every key matching its key/mask the packet injected at the source chip is
  `Delivered` on the final tables: exactly one copy to every allocated core of every sink, exactly one exit on every
  endpoint link, nothing else, never dropped, only working links between working chips, never circulating - where
  working chips and links of `machine3 pb` are exactly those the SystemInfo reports (`machine_is_sysinfo`);
* `AllocIdle`: every core in the core range allocated to any placed vertex exists on its chip and is reported idle by
  the SystemInfo (never the monitor, never a core running an application, never a core beyond `num_cores`). -/
theorem wrapper_pipeline_delivers (si : SysInfo) (wp : WProblem) (placer : Placer) (radius : Nat)
    (orc : List NetOracle) (methods : List Rig.C04.Method) (out : Out)
    (hsi : SIDomain si) (dom : WDomain si wp) (hpl : WPlacerDomain si wp placer)
    (h : wrapperPipeline si wp placer radius orc methods = .ok out) :
    runPlacer (problemOf si wp) placer = .ok out.placement ∧
    Rig.C02.Feasible (vr02 (problemOf si wp)) (cs02 (problemOf si wp)) (problemOf si wp).m2 out.placement ∧
    List.Forall₂ (fun (n : ANet) (q : PNet) =>
        NetOf (problemOf si wp) out.placement out.alloc n q ∧
        ∀ k : W, k &&& n.mask = n.key →
          Delivered (deliver (machine3 (problemOf si wp)) (devLinks (problemOf si wp) out.placement)
              (tableAt out.final) k q.src)
            (sinkCores q.sinks) (sinkExits q.sinks))
      wp.nets out.nets ∧
    AllocIdle si out.placement out.alloc := by
  have hd := domain_of_sysinfo hsi dom
  have hp := placerDomain_of_sysinfo hpl
  unfold wrapperPipeline at h
  obtain ⟨h1, h2, h3⟩ := model_pipeline_delivers _ placer radius orc _ out hd hp h
  refine ⟨h1, h2, h3, ?_⟩
  unfold modelPipeline at h
  rw [h1] at h
  simp only at h
  obtain ⟨a, ha, hs⟩ := afterPlace_alloc h
  rw [hs]
  exact alloc_idle hsi dom h2.keysNodup ha

/-- ... in particular no packet of any net raises a flag on the machine the SystemInfo describes -/
theorem wrapper_pipeline_no_flag (si : SysInfo) (wp : WProblem) (placer : Placer) (radius : Nat)
    (orc : List NetOracle) (methods : List Rig.C04.Method) (out : Out)
    (hsi : SIDomain si) (dom : WDomain si wp) (hpl : WPlacerDomain si wp placer)
    (h : wrapperPipeline si wp placer radius orc methods = .ok out) :
    ∀ q ∈ out.nets, ∀ k : W, k &&& q.mask = q.key →
      flags (deliver (machine3 (problemOf si wp)) (devLinks (problemOf si wp) out.placement)
        (tableAt out.final) k q.src) = [] :=
  model_pipeline_no_flag _ placer radius orc _ out (domain_of_sysinfo hsi dom) (placerDomain_of_sysinfo hpl) h

/-- **the wrapper model fails only as documented**: the placer's own error (C02: `seqPlace/randPlace/saPlace_documented`),
or after a feasible placement one of the failures of `afterPlace_only_failure` - the allocator's error,
`MachineHasDisconnectedSubregion` and that only when the machine the SystemInfo describes is not strongly connected,
`MinimisationFailedError` (a table does not fit the chip's free router entries), an impossible oracle.  In particular
`routing_tree_to_tables` never raises `MultisourceRouteError` inside the wrapper. -/
theorem wrapper_only_failure (si : SysInfo) (wp : WProblem) (placer : Placer) (radius : Nat)
    (orc : List NetOracle) (methods : List Rig.C04.Method) (e : PErr)
    (hsi : SIDomain si) (dom : WDomain si wp) (hpl : WPlacerDomain si wp placer)
    (h : wrapperPipeline si wp placer radius orc methods = .error e) :
    (∃ e', runPlacer (problemOf si wp) placer = .error e' ∧ e = .place e') ∨
      DocumentedFailure (problemOf si wp) e := by
  have hd := domain_of_sysinfo hsi dom
  unfold wrapperPipeline modelPipeline at h
  split at h
  · rename_i e' he'
    cases h
    exact Or.inl ⟨e', he', rfl⟩
  · rename_i p hp
    right
    have hf := runPlacer_feasible _ placer p hd (placerDomain_of_sysinfo hpl) hp
    exact afterPlace_only_failure _ p radius orc _ e hd hf h

/-! ## the deprecated `wrapper()` -/

theorem mem_deprecatedConstraints {cs : List PC} {coreRes sdramRes : Nat} {rm al : Bool} {pc : PC}
    (h : pc ∈ deprecatedConstraints cs coreRes sdramRes rm al) :
    pc ∈ cs ∨ pc = PC.reserve coreRes ⟨0, 1⟩ none ∨ pc = PC.align sdramRes 4 := by
  simp only [deprecatedConstraints, List.mem_append] at h
  rcases h with (h | h) | h
  · exact Or.inl h
  · cases rm <;> simp at h
    exact Or.inr (Or.inl h)
  · cases al <;> simp at h
    exact Or.inr (Or.inr h)

/-- the constraints the deprecated wrapper appends keep the problem in the domain -/
theorem domain_deprecated {pb : Problem} (dom : Domain pb) (sdramRes : Nat) (rm al : Bool) :
    Domain { pb with cs := deprecatedConstraints pb.cs pb.coreRes sdramRes rm al } where
  vrNodup := dom.vrNodup
  resNodup := dom.resNodup
  demandNonneg := dom.demandNonneg
  alignPos := by
    intro r a h
    rcases mem_deprecatedConstraints h with h | h | h
    · exact dom.alignPos r a h
    · cases h
    · cases h; decide
  cores18 := dom.cores18
  endpointIsLink := by
    intro v r h
    rcases mem_deprecatedConstraints h with h | h | h
    · exact dom.endpointIsLink v r h
    · cases h
    · cases h
  endpointDead := by
    intro v r h
    rcases mem_deprecatedConstraints h with h | h | h
    · obtain ⟨c, hc, hd⟩ := dom.endpointDead v r h
      refine ⟨c, ?_, hd⟩
      simp only [deprecatedConstraints, List.mem_append]
      exact Or.inl (Or.inl hc)
    · cases h
    · cases h
  keysDisjoint := dom.keysDisjoint

/-- **deprecated_pipeline_delivers** - C01 for the deprecated `wrapper()`: Machine and constraints are the caller's,
core 0 is reserved when `reserve_monitor`, SDRAM is aligned to 4 when `align_sdram`, tables are built by
`build_routing_tables` (default routes removed).  For every problem in the documented domain (the placer's domain
stated on the augmented constraint list) IF the pipeline returns THEN every packet of every net is `Delivered` on
the returned tables. -/
theorem deprecated_pipeline_delivers (pb : Problem) (sdramRes : Nat) (rm al : Bool) (placer : Placer)
    (radius : Nat) (orc : List NetOracle) (out : Out) (dom : Domain pb)
    (hpl : PlacerDomain { pb with cs := deprecatedConstraints pb.cs pb.coreRes sdramRes rm al } placer)
    (h : deprecatedPipeline pb sdramRes rm al placer radius orc = .ok out) :
    List.Forall₂ (fun (n : ANet) (q : PNet) =>
        NetOf { pb with cs := deprecatedConstraints pb.cs pb.coreRes sdramRes rm al } out.placement out.alloc n q ∧
        ∀ k : W, k &&& n.mask = n.key →
          Delivered (deliver (machine3 pb)
              (devLinks { pb with cs := deprecatedConstraints pb.cs pb.coreRes sdramRes rm al } out.placement)
              (tableAt out.final) k q.src)
            (sinkCores q.sinks) (sinkExits q.sinks))
      pb.nets out.nets :=
  (model_pipeline_delivers _ placer radius orc _ out (domain_deprecated dom sdramRes rm al) hpl h).2.2

/-! ## from the machine: C14's probe theorem plugged in -/

open Rig.C14 (MachineState Rd getSystemInfo chipView) in
/-- **every probed machine is in the domain**: what `get_system_info` returns on a machine state served as the machine
specification says (C14 `get_system_info_exact`) satisfies `SIDomain` -/
theorem sidomain_of_probe (m : MachineState) (rd : Rd) (hs : m.Serves rd) (hl : ∃ xy, m.listed xy = true) :
    getSystemInfo rd m.probe = .ok m.sysInfo ∧ SIDomain m.sysInfo := by
  obtain ⟨h1, hwf, hmem⟩ := Rig.C14.get_system_info_exact m rd hs hl
  refine ⟨h1, hwf, ?_, ?_⟩
  · intro xy ci h
    obtain ⟨st, _, hst, rfl⟩ := (hmem xy ci).1 h
    exact (hs.chipsWF xy st hst).1
  · intro xy ci h
    obtain ⟨st, _, hst, rfl⟩ := (hmem xy ci).1 h
    have hw := hs.chipsWF xy st hst
    simp only [chipView, List.length_take]
    have := hw.1
    have := hw.2.1
    omega

open Rig.C14 (MachineState Rd getSystemInfo chipView) in
/-- **from the machine to the delivered packets**: probe a machine (`get_system_info`), hand the description to
`place_and_route_wrapper`: if the wrapper model returns, every packet is delivered on the final tables and every
allocated core is idle in the description, which is the machine's state (C14 `probe_views_exact`) -/
theorem probed_wrapper_delivers (m : MachineState) (rd : Rd) (hs : m.Serves rd) (hl : ∃ xy, m.listed xy = true)
    (wp : WProblem) (placer : Placer) (radius : Nat) (orc : List NetOracle) (methods : List Rig.C04.Method) (out : Out) :
    ∃ si, getSystemInfo rd m.probe = .ok si ∧
      (WDomain si wp → WPlacerDomain si wp placer →
        wrapperPipeline si wp placer radius orc methods = .ok out →
        List.Forall₂ (fun (n : ANet) (q : PNet) =>
            NetOf (problemOf si wp) out.placement out.alloc n q ∧
            ∀ k : W, k &&& n.mask = n.key →
              Delivered (deliver (machine3 (problemOf si wp)) (devLinks (problemOf si wp) out.placement)
                  (tableAt out.final) k q.src)
                (sinkCores q.sinks) (sinkExits q.sinks))
          wp.nets out.nets ∧
        AllocIdle si out.placement out.alloc) := by
  obtain ⟨h1, hd⟩ := sidomain_of_probe m rd hs hl
  exact ⟨m.sysInfo, h1, fun dom hpl h => (wrapper_pipeline_delivers _ wp placer radius orc methods out hd dom hpl h).2.2⟩


open Rig.C14 (MachineState Rd getSystemInfo chipView) in
/-- ... and in the vocabulary of the machine state: a core that `AllocIdle` admits on the probed description is a
working core of the machine's chip that is not busy (`ChipState.busyCore`, the predicate of C14's
`probe_to_machine_exact`) -/
theorem allocIdle_machine_state (m : MachineState) (p : Rig.C02.Placement) (A : Rig.C05.Alloc)
    (h : AllocIdle m.sysInfo p A) :
    ∀ v c sl, Rig.C02.aget p (.o v) = some c → Rig.C01Pipe.coresOf A 0 v = some sl →
      ∀ i : Nat, sl.start ≤ (i : Int) → (i : Int) < sl.stop →
        ∃ st, m.listed c = true ∧ m.chips.lookup c = some st ∧ i < st.cores ∧ st.busyCore i = false := by
  intro v c sl hp hsl i h1 h2
  obtain ⟨ci, hci, hlt, hidle⟩ := h v c sl hp hsl i h1 h2
  obtain ⟨st, hl, hst, rfl⟩ := (Rig.C14.mem_sysInfo m c ci).1 hci
  refine ⟨st, hl, hst, hlt, ?_⟩
  simp only [chipView] at hlt hidle
  unfold Rig.C14.ChipState.busyCore
  rw [List.getElem?_take] at hidle
  simp only [hlt, if_true] at hidle
  simp [hidle, hlt]

/-! ## non-vacuity: a concrete SystemInfo and application in the domain, run through `wrapperPipeline`

The example of Props/C01Pipe.lean, starting from a SystemInfo: 5x1 chips, 3 cores per chip except (2,0) with 4; core 0
(monitor) runs on every chip - a GLOBAL reservation -, core 2 of (2,0) runs an application - a reservation for that chip
only -; link east of (4,0) is not reported working (a device hangs there); chip (1,0) has one free router entry, so its
table must shrink (default-route removal).  Same vertices, nets and oracle inputs as `exPb`. -/

def exCI (n : Nat) (st links : List Nat) (rtr : Nat) : ChipInfo :=
  { numCores := n, coreStates := st, links := links, sdram := 100, sram := 0, rtr := rtr, ethUp := false,
    ip := [0, 0, 0, 0], ethChip := (0, 0) }

def exSI : SysInfo :=
  { width := 5, height := 1,
    chips := [((0, 0), exCI 3 [7, 15, 15] [0, 1, 2, 3, 4, 5] 1023), ((1, 0), exCI 3 [7, 15, 15] [0, 1, 2, 3, 4, 5] 1),
              ((2, 0), exCI 4 [7, 15, 7, 15] [0, 1, 2, 3, 4, 5] 1023), ((3, 0), exCI 3 [7, 15, 15] [0, 1, 2, 3, 4, 5] 1023),
              ((4, 0), exCI 3 [7, 15, 15] [1, 2, 3, 4, 5] 1023)] }

def exWP : WProblem :=
  { vr := [(0, [(0, 2), (1, 10)]), (1, [(0, 2)]), (2, []), (3, [(0, 1)])],
    cs := [.loc 2 (4, 0), .endpoint 2 0],
    nets := [{ src := 0, sinks := [3, 3], key := 4#32, mask := 6#32 },
             { src := 1, sinks := [0, 1, 2], key := 2#32, mask := 6#32 }] }

def exWRun : Except PErr Out := wrapperPipeline exSI exWP (.seq none none) 1 exOrc [.rd, .oc]

/-- the wrapper derives one global and one chip-specific reservation, four resource exceptions and the dead link -/
example : constraintsOf exSI exWP.cs =
      [.reserve 0 ⟨0, 1⟩ none, .reserve 0 ⟨2, 3⟩ (some (2, 0)), .loc 2 (4, 0), .endpoint 2 0] ∧
    buildMachine exSI = PMachine.mk 5 1 4 100 0
      [((0, 0), 3, 100, 0), ((1, 0), 3, 100, 0), ((3, 0), 3, 100, 0), ((4, 0), 3, 100, 0)] [] [(4, 0, 0)] := by
  decide +kernel

def exWCheck (out : Out) : Bool :=
  decide (out.placement = [(.o 2, (4, 0)), (.o 0, (0, 0)), (.o 1, (1, 0)), (.o 3, (2, 0))]) &&
  decide (out.alloc = [(2, []), (0, [(0, ⟨1, 3⟩), (1, ⟨0, 10⟩)]), (1, [(0, ⟨1, 3⟩)]), (3, [(0, ⟨1, 2⟩)])]) &&
  decide (out.final = exFinal) && decide (out.final ≠ tables04 out.T10) &&
  allocIdleB exSI out.placement out.alloc

/-- the wrapper model returns on the example: placement, allocation, final tables (the table of chip (1,0) shrank to its
one free entry) and the decided `AllocIdle` - by evaluation in the kernel -/
theorem exw_runs : ∃ out, exWRun = .ok out ∧ exWCheck out = true := by
  have h : (match exWRun with
      | .ok out => exWCheck out
      | .error _ => false) = true := by decide +kernel
  cases hr : exWRun with
  | error e => rw [hr] at h; cases h
  | ok out => rw [hr] at h; exact ⟨out, rfl, h⟩

theorem exw_sidomain : SIDomain exSI where
  wf := ⟨by decide, fun xy ci h =>
    (by decide : ∀ e ∈ exSI.chips, e.1.1 < exSI.width ∧ e.1.2 < exSI.height) (xy, ci) h⟩
  cores18 := fun xy ci h => (by decide : ∀ e ∈ exSI.chips, e.2.numCores ≤ 18) (xy, ci) h
  states := fun xy ci h => (by decide : ∀ e ∈ exSI.chips, e.2.coreStates.length = e.2.numCores) (xy, ci) h

theorem exw_domain : WDomain exSI exWP where
  vrNodup := by decide
  resNodup := by decide
  demandNonneg := by decide
  alignPos := by intro r a h; simp [exWP] at h
  endpointIsLink := by
    intro v r h
    simp [exWP] at h
    omega
  endpointDead := by
    intro v r h
    simp [exWP] at h
    obtain ⟨rfl, rfl⟩ := h
    exact ⟨(4, 0), by simp [exWP], by decide⟩
  keysDisjoint := by decide

theorem exw_placerDomain : WPlacerDomain exSI exWP (.seq none none) where
  consistent := by
    intro vr' cs' subs h
    have e : Rig.C02.applySame (vr02 (problemOf exSI exWP)) (cs02 (problemOf exSI exWP)) =
        .ok (vr02 (problemOf exSI exWP), cs02 (problemOf exSI exWP), []) := by rfl
    rw [e] at h; injection h with h; injection h with h1 h2; injection h2 with h2 h3
    subst h2
    intro v c c' hc hc'
    have e2 : cs02 (problemOf exSI exWP) =
        [.reserve 0 1 none, .reserve 0 1 (some (2, 0)), .loc (.o 2) (4, 0), .endpoint (.o 2)] := by decide +kernel
    rw [e2] at hc hc'
    simp at hc hc'
    rw [hc.2, hc'.2]
  emptyOK := by intro h; simp [vr02, problemOf, exWP] at h
  oracle := by intro o h; cases h

/-- the conclusion of `wrapper_pipeline_delivers` for the example, through the theorem -/
example : ∃ out, exWRun = .ok out ∧
    List.Forall₂ (fun (n : ANet) (q : PNet) =>
        NetOf (problemOf exSI exWP) out.placement out.alloc n q ∧
        ∀ k : W, k &&& n.mask = n.key →
          Delivered (deliver (machine3 (problemOf exSI exWP)) (devLinks (problemOf exSI exWP) out.placement)
              (tableAt out.final) k q.src)
            (sinkCores q.sinks) (sinkExits q.sinks))
      exWP.nets out.nets ∧
    AllocIdle exSI out.placement out.alloc := by
  obtain ⟨out, h, _⟩ := exw_runs
  exact ⟨out, h, (wrapper_pipeline_delivers exSI exWP _ _ _ _ out exw_sidomain exw_domain exw_placerDomain h).2.2⟩


end Rig.C01Wrap
