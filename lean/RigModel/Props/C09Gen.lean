/-
C09 - translator tie: the body of `MachineController._get_next_nn_id`
(rig/machine_control/machine_controller.py) is regenerated from the source into `Gen/PyFun.lean`
(state passing: the attribute `self._nn_id` is a parameter, the result is the returned id and the final
`_nn_id`); it is proved equal to the model's `nextNn` (new `_nn_id`; the id sent is twice it).
-/
import RigModel.Model.C09
import RigModel.Gen.PyFun
import Mathlib.Tactic.SplitIfs
set_option linter.unusedSimpArgs false
set_option linter.unusedVariables false
set_option linter.unusedTactic false
set_option linter.unreachableTactic false

namespace Rig.C09
open Rig.Gen

/-- `_get_next_nn_id` as written in the source = the model: returns `2 * nextNn n` and leaves
`self._nn_id = nextNn n` -/
theorem gen_get_next_nn_id (n : Nat) :
    PyFun.MachineController_get_next_nn_id n = (((2 * nextNn n : Nat) : Int), ((nextNn n : Nat) : Int)) := by
  simp only [PyFun.MachineController_get_next_nn_id, nextNn, Prod.mk.injEq]
  constructor <;> (try split_ifs) <;> omega

end Rig.C09
