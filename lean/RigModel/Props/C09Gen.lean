/-
C09 - translator tie: the body of `MachineController._get_next_nn_id`
(rig/machine_control/machine_controller.py) is regenerated from the source into `Gen/PyFun.lean`
(state passing: the attribute `self._nn_id` is a parameter, the result is the returned id and the final
`_nn_id`); it is proved equal to the model's `nextNn` (new `_nn_id`; the id sent is twice it).
Second round: `_send_ffs`, `_send_ffcs`, `_send_ffe` - methods whose whole behaviour is one `self._send_scp(...)`
call; the generated definition is the list of the calls' integer arguments (the `NNCommands` / `SCPCommands`
members read from consts.py), proved equal to the model's `ffsReq` / `ffcsReq` / `ffeReq`; and `_send_ffd` (a
`while` loop over the image: slicing of the byte string, one `_send_scp` call per block) = the model's `ffdReqs`,
for every fuel of at least the image length.  Third round: `send_signal` and `count_cores_in_state` called with a
numeric signal / state (the `isinstance(.., str)` branches are dead by the declared type): membership test in the
enumeration, `consts.signal_types` / `consts.diagnostic_signal_types` lookup and argument packing = the model's
`sendSignalReq` / `resolve` + `countReq` (Model/C09Sig.lean).
-/
import RigModel.Model.C09
import RigModel.Gen.PyFun
import RigModel.Lemmas.IntBits
import RigModel.Lemmas.PyLoops
import RigModel.Model.C09Sig
import Mathlib.Tactic.IntervalCases
import Mathlib.Tactic.SplitIfs
set_option linter.unusedSimpArgs false
set_option linter.unusedVariables false
set_option linter.unusedTactic false
set_option linter.unreachableTactic false

namespace Rig.C09
open Rig.Gen Rig.IntBits Rig.Gen.Load Rig.Gen.Scp Rig.PyLoops Rig.Gen.LoadSig Rig.C09Sig

/-- `_get_next_nn_id` as written in the source = the model: returns `2 * nextNn n` and leaves
`self._nn_id = nextNn n` -/
theorem gen_get_next_nn_id (n : Nat) :
    PyFun.MachineController_get_next_nn_id n = (((2 * nextNn n : Nat) : Int), ((nextNn n : Nat) : Int)) := by
  simp only [PyFun.MachineController_get_next_nn_id, nextNn, Prod.mk.injEq]
  constructor <;> (try split_ifs) <;> omega

/-! ### the flood-fill packets: `_send_ffs`, `_send_ffcs`, `_send_ffe` -/

/-- the integer arguments of the `_send_scp(x, y, p, cmd, arg1, arg2, arg3)` call a request stands for -/
def reqInts (r : Req) : Int × Int × Int × Int × Int × Int × Int :=
  ((r.x : Int), (r.y : Int), (r.p : Int), (r.cmd : Int), (r.arg1 : Int), (r.arg2 : Int), (r.arg3 : Int))

/-- comparison of two naturals built from `|||` and `<<<` -/
macro "nat_bits" : tactic => `(tactic|
  first
    | rfl
    | (simp only [nnFfs, nnFfcs, nnFfe, nnForward, nnRetry, cmdNnp, cmdFfd, fr, Nat.lor_comm, Nat.lor_left_comm,
         Nat.lor_assoc]; done)
    | ((try simp only [nnFfs, nnFfcs, nnFfe, nnForward, nnRetry, cmdNnp, cmdFfd, fr])
       apply Nat.eq_of_testBit_eq; intro i; simp only [Nat.testBit_or, Nat.testBit_shiftLeft]; grind))

/-- cast-free form of a generated packet expression, then comparison of the naturals -/
macro "ff_eq" : tactic => `(tactic|
  (simp (disch := decide) only [reqInts, nnReq, lit_natCast, zero_natCast, one_natCast, shl_natCast, shr_natCast,
     land_natCast, lor_natCast, xor_natCast, add_natCast, mul_natCast, Int.toNat_natCast, List.nil_append,
     List.cons.injEq, Prod.mk.injEq, Nat.cast_inj, and_true]
   try (repeat' apply And.intro)
   all_goals (first | trivial | nat_bits)))

/-- `_send_ffs` as written in the source: one `_send_scp` call with the arguments of the model's `ffsReq`
(`fr` being what `flood_fill_aplx` passes) -/
theorem gen_send_ffs (pid nBlocks : Nat) :
    PyFun.MachineController_send_ffs pid nBlocks (fr : Nat) = [reqInts (ffsReq pid nBlocks)] := by
  unfold PyFun.MachineController_send_ffs ffsReq
  ff_eq

theorem gen_send_ffcs (region coreMask : Nat) :
    PyFun.MachineController_send_ffcs region coreMask (fr : Nat) = [reqInts (ffcsReq (region, coreMask))] := by
  unfold PyFun.MachineController_send_ffcs ffcsReq
  ff_eq

theorem gen_send_ffe (pid appId flags : Nat) :
    PyFun.MachineController_send_ffe pid appId flags (fr : Nat) = [reqInts (ffeReq pid appId flags)] := by
  unfold PyFun.MachineController_send_ffe ffeReq
  ff_eq

/-! ### `_send_ffd`: the flood-fill data packets (a `while` loop over the image, one `_send_scp` per block) -/

/-- a byte string of the model as the Python `bytes` value -/
def bytesInt (d : List Nat) : List Int := d.map (fun (n : Nat) => (n : Int))

/-- the arguments of the `_send_scp(x, y, p, cmd, arg1, arg2, arg3, data)` call a request stands for -/
def reqInts8 (r : Req) : Int × Int × Int × Int × Int × Int × Int × List Int :=
  ((r.x : Int), (r.y : Int), (r.p : Int), (r.cmd : Int), (r.arg1 : Int), (r.arg2 : Int), (r.arg3 : Int), bytesInt r.data)

/-- `aplx_data[pos:pos + n]` inside the image -/
theorem pySlice_bytes (d : List Nat) (pos n : Nat) (hp : pos ≤ d.length) :
    PyFun.pySlice (bytesInt d) (pos : Int) ((pos : Int) + (n : Int)) = bytesInt ((d.drop pos).take n) := by
  unfold PyFun.pySlice bytesInt
  have h1 : ¬ ((pos : Int) < 0) := by omega
  have h2 : ¬ ((pos : Int) + (n : Int) < 0) := by omega
  simp only [h1, h2, if_false, List.length_map]
  have e1 : (min (pos : Int) (d.length : Int)).toNat = pos := by omega
  have e2 : (min ((pos : Int) + (n : Int)) (d.length : Int) - min (pos : Int) (d.length : Int)).toNat
      = min n (d.length - pos) := by omega
  rw [e1, e2, ← List.map_drop, ← List.map_take]
  congr 1
  rw [List.take_eq_take_iff]
  simp only [List.length_drop]
  omega

theorem ffd_cond (len : Nat) (o : List (Int × Int × Int × Int × Int × Int × Int × List Int)) (b a p : Nat) :
    PyFun.MachineController_send_ffd_loop1_cond (len : Int) (o, (b : Int), (a : Int), (p : Int)) = decide (p < len) := by
  unfold PyFun.MachineController_send_ffd_loop1_cond
  rw [Bool.eq_iff_iff]; simp only [decide_eq_true_eq]; omega

/-- one block: the generated loop body appends the call of the model's request and advances like `ffdReqs` -/
theorem ffd_body (pid buf : Nat) (d : List Nat) (o : List (Int × Int × Int × Int × Int × Int × Int × List Int))
    (b a p : Nat) (hp : p ≤ d.length) (h4 : 4 ≤ ((d.drop p).take buf).length) :
    PyFun.MachineController_send_ffd_loop1 (buf : Int) (pid : Int) (bytesInt d) (o, (b : Int), (a : Int), (p : Int))
      = (o ++ [reqInts8 { x := 255, y := 255, p := 0, cmd := cmdFfd,
                          arg1 := (nnForward <<< 24) ||| (nnRetry <<< 16) ||| pid,
                          arg2 := (b <<< 16) ||| ((((d.drop p).take buf).length / 4 - 1) <<< 8), arg3 := a,
                          data := (d.drop p).take buf }],
         ((b + 1 : Nat) : Int), ((a + ((d.drop p).take buf).length : Nat) : Int),
         ((p + ((d.drop p).take buf).length : Nat) : Int)) := by
  unfold PyFun.MachineController_send_ffd_loop1
  dsimp only
  rw [pySlice_bytes d p buf hp]
  generalize hblk : (d.drop p).take buf = blk at *
  have hl : ((bytesInt blk).length : Int) = ((blk.length : Nat) : Int) := by simp [bytesInt]
  have hs : Int.fdiv ((blk.length : Nat) : Int) 4 - 1 = ((blk.length / 4 - 1 : Nat) : Int) := by
    rw [Int.fdiv_eq_ediv_of_nonneg _ (by decide)]; omega
  rw [hl, hs]
  simp (disch := decide) only [reqInts8, lit_natCast, zero_natCast, one_natCast, shl_natCast, lor_natCast,
    add_natCast, Int.toNat_natCast, Prod.mk.injEq, List.append_cancel_left_eq, List.cons.injEq, Nat.cast_inj,
    and_true, true_and]
  try (repeat' apply And.intro)
  all_goals (first | trivial | nat_bits)

/-- the whole loop against the model's `ffdReqs` (its own fuel `mf`), by induction on the bytes left -/
theorem ffd_loop (pid buf : Nat) (d : List Nat) (hb : 4 ≤ buf) (hb4 : buf % 4 = 0) :
    ∀ (n p b a : Nat) (o : List (Int × Int × Int × Int × Int × Int × Int × List Int)),
      p ≤ d.length → d.length - p ≤ n → (d.length - p) % 4 = 0 → ∀ fuel mf, n ≤ fuel → n ≤ mf →
      ∃ b' a' p' : Nat,
        PyFun.pyWhile (PyFun.MachineController_send_ffd_loop1_cond (d.length : Int))
          (PyFun.MachineController_send_ffd_loop1 (buf : Int) (pid : Int) (bytesInt d)) fuel
          (o, (b : Int), (a : Int), (p : Int))
          = some (o ++ (ffdReqs pid buf mf b a (d.drop p)).map reqInts8, (b' : Int), (a' : Int), (p' : Int)) := by
  intro n
  induction n with
  | zero =>
    intro p b a o hp hn _ fuel mf _ _
    have hpl : p = d.length := by omega
    have hd : d.drop p = [] := by rw [hpl]; exact List.drop_length
    refine ⟨b, a, p, ?_⟩
    have hc : PyFun.MachineController_send_ffd_loop1_cond (d.length : Int) (o, (b : Int), (a : Int), (p : Int)) = false := by
      rw [ffd_cond]; simp; omega
    have hm : ffdReqs pid buf mf b a (d.drop p) = [] := by
      rw [hd]; cases mf <;> simp [ffdReqs]
    rw [hm]
    cases fuel <;> simp [PyFun.pyWhile, hc]
  | succ n ih =>
    intro p b a o hp hn h4 fuel mf hf hmf
    by_cases hpl : p = d.length
    · have hd : d.drop p = [] := by rw [hpl]; exact List.drop_length
      refine ⟨b, a, p, ?_⟩
      have hc : PyFun.MachineController_send_ffd_loop1_cond (d.length : Int) (o, (b : Int), (a : Int), (p : Int)) = false := by
        rw [ffd_cond]; simp; omega
      have hm : ffdReqs pid buf mf b a (d.drop p) = [] := by
        rw [hd]; cases mf <;> simp [ffdReqs]
      rw [hm]
      cases fuel <;> simp [PyFun.pyWhile, hc]
    · obtain ⟨fuel, rfl⟩ : ∃ k, fuel = k + 1 := ⟨fuel - 1, by omega⟩
      obtain ⟨mf, rfl⟩ : ∃ k, mf = k + 1 := ⟨mf - 1, by omega⟩
      have hrem : (d.drop p).length = d.length - p := List.length_drop
      have hbl : ((d.drop p).take buf).length = min buf (d.length - p) := by rw [List.length_take, hrem]
      have hbl4 : 4 ≤ ((d.drop p).take buf).length := by rw [hbl]; omega
      have hc : PyFun.MachineController_send_ffd_loop1_cond (d.length : Int) (o, (b : Int), (a : Int), (p : Int)) = true := by
        rw [ffd_cond]; simp; omega
      rw [PyFun.pyWhile, if_pos hc, ffd_body pid buf d o b a p hp hbl4]
      have hpos : 0 < (d.drop p).length := by omega
      rw [ffdReqs, if_pos (by omega)]
      obtain ⟨b', a', p', e⟩ := ih (p + ((d.drop p).take buf).length) (b + 1) (a + ((d.drop p).take buf).length)
        (o ++ [reqInts8 { x := 255, y := 255, p := 0, cmd := cmdFfd,
                          arg1 := (nnForward <<< 24) ||| (nnRetry <<< 16) ||| pid,
                          arg2 := (b <<< 16) ||| ((((d.drop p).take buf).length / 4 - 1) <<< 8), arg3 := a,
                          data := (d.drop p).take buf }])
        (by rw [hbl]; omega) (by rw [hbl]; omega) (by rw [hbl]; omega) fuel mf (by omega) (by omega)
      refine ⟨b', a', p', ?_⟩
      rw [e]
      simp only [List.map_cons, List.append_assoc, List.singleton_append, List.drop_drop, Nat.add_comm]

/-- `_send_ffd` as written in the source: the `_send_scp` calls are the model's `ffdReqs`, for a buffer size that
is a positive multiple of 4 and an image that is a whole number of words (every block then has at least one word;
`size = data_size // 4 - 1` is negative otherwise), with fuel at least the image length -/
theorem gen_send_ffd (pid buf : Nat) (d : List Nat) (addr fuel : Nat) (hb : 4 ≤ buf) (hb4 : buf % 4 = 0)
    (hd4 : d.length % 4 = 0) (hf : d.length ≤ fuel) :
    PyFun.MachineController_send_ffd (buf : Int) (pid : Int) (bytesInt d) (addr : Int) fuel
      = .ok ((ffdReqs pid buf d.length 0 addr d).map reqInts8) := by
  unfold PyFun.MachineController_send_ffd
  obtain ⟨b', a', p', e⟩ := ffd_loop pid buf d hb hb4 d.length 0 0 addr [] (by omega) (by omega) (by omega)
    fuel d.length hf (le_refl _)
  have hl : ((bytesInt d).length : Int) = (d.length : Int) := by simp [bytesInt]
  dsimp only
  rw [hl]
  simp only [Nat.cast_zero, List.drop_zero, List.nil_append] at e
  rw [e]

/-- the hypotheses are satisfiable: an 8-byte image, 4-byte buffer: two blocks -/
example : (ffdReqs 2 4 8 0 100 [1, 2, 3, 4, 5, 6, 7, 8]).length = 2 := by decide

/-! ### `send_signal` / `count_cores_in_state` with a numeric argument: membership test, table lookup, packing -/

/-- the model's outcome as the Python outcome: the list of `_send_scp` calls / the name of the exception -/
def sigExc : Except C09Sig.Err Req → Except String (List (Int × Int × Int × Int × Int × Int × Int))
  | .ok r => .ok [reqInts r]
  | .error .valueError => .error "ValueError"
  | .error .keyError => .error "KeyError"
  | .error .unmodelled => .error "unmodelled"

theorem pyKeyGet_nat (t : List (Nat × Nat)) (k : Nat) :
    PyFun.pyKeyGet t (k : Int) = match t.lookup k with | some v => .ok (v : Int) | none => .error "KeyError" := by
  unfold PyFun.pyKeyGet
  have : ¬ ((k : Int) < 0) := by omega
  simp only [this, if_false, Int.toNat_natCast]
  cases t.lookup k <;> rfl

/-- membership in an IntEnum as the generated code tests it (literal list of the member values) = the model's
test on the regenerated enumeration, for every enumeration with values below 32 -/
theorem enum_mem (vals : List Int) (enum : List (String × Nat))
    (h : ∀ n : Nat, n < 32 → vals.contains (n : Int) = enum.any (fun e => e.2 == n))
    (hv : ∀ v ∈ vals, 0 ≤ v ∧ v < 32) (he : ∀ e ∈ enum, e.2 < 32) (n : Nat) :
    vals.contains (n : Int) = enum.any (fun e => e.2 == n) := by
  by_cases hn : n < 32
  · exact h n hn
  · have l : vals.contains (n : Int) = false := by
      rw [Bool.eq_false_iff]; intro hc
      have := hv _ (List.elem_iff.mp hc)   -- membership
      omega
    have r : enum.any (fun e => e.2 == n) = false := by
      rw [Bool.eq_false_iff]; intro hc
      obtain ⟨e, he1, he2⟩ := List.any_eq_true.mp hc
      have := he e he1
      have : e.2 = n := by simpa using he2
      omega
    rw [l, r]

/-- `send_signal(signal, app_id)` with a numeric signal as written in the source (`isinstance(signal, str)` is
False): the membership test, the `signal_types` lookup and the packed arguments are the model's `sendSignalReq` -/
theorem gen_send_signal (sig appId : Nat) :
    PyFun.MachineController_send_signal sig appId = sigExc (sendSignalReq (.val sig) appId) := by
  unfold PyFun.MachineController_send_signal sendSignalReq resolve
  rw [enum_mem _ appSignals (by decide) (by decide) (by decide) sig, pyKeyGet_nat]
  by_cases hm : appSignals.any (fun e => e.2 == sig) = true
  · simp only [hm, not_true_eq_false, if_false, if_true]
    cases hl : signalTypes.lookup sig with
    | none => rfl
    | some ty =>
      simp only [sigExc, signalReq]
      refine congrArg Except.ok ?_
      ff_eq
  · simp only [hm, not_false_eq_true, if_true, if_false, Bool.false_eq_true]
    rfl

/-- `count_cores_in_state(state, app_id)` with one numeric state: membership test and the count request of the
model (`countOne` sends `countReq`); what the machine answers is not part of the generated definition -/
theorem gen_count_cores_in_state (st appId : Nat) :
    PyFun.MachineController_count_cores_in_state st appId =
      sigExc ((resolve appStates (.val st)).map (fun s => countReq s appId)) := by
  unfold PyFun.MachineController_count_cores_in_state resolve
  have hk : PyFun.pyKeyGet diagSignalTypes 2 = .ok ((diagCountType : Nat) : Int) := by rfl
  rw [enum_mem _ appStates (by decide) (by decide) (by decide) st, hk]
  by_cases hm : appStates.any (fun e => e.2 == st) = true
  · simp only [hm, not_true_eq_false, if_false, if_true, Except.map, sigExc, countReq]
    refine congrArg Except.ok ?_
    simp (disch := decide) only [reqInts, lit_natCast, zero_natCast, one_natCast, shl_natCast, shr_natCast,
      land_natCast, lor_natCast, Int.toNat_natCast, List.nil_append, List.cons.injEq, Prod.mk.injEq, Nat.cast_inj,
      and_true]
    simp [diagCount, diagCountType, cmdSignal]
  · simp only [hm, not_false_eq_true, if_true, if_false, Bool.false_eq_true, Except.map]
    rfl

end Rig.C09
