/-
C09 - translator tie: the body of `MachineController._get_next_nn_id`
(rig/machine_control/machine_controller.py) is regenerated from the source into `Gen/PyFun.lean`
(state passing: the attribute `self._nn_id` is a parameter, the result is the returned id and the final
`_nn_id`); it is proved equal to the model's `nextNn` (new `_nn_id`; the id sent is twice it).
Second round: `_send_ffs`, `_send_ffcs`, `_send_ffe` - methods whose whole behaviour is one `self._send_scp(...)`
call; the generated definition is the list of the calls' integer arguments (the `NNCommands` / `SCPCommands`
members read from consts.py), proved equal to the model's `ffsReq` / `ffcsReq` / `ffeReq`.
-/
import RigModel.Model.C09
import RigModel.Gen.PyFun
import RigModel.Lemmas.IntBits
import Mathlib.Tactic.SplitIfs
set_option linter.unusedSimpArgs false
set_option linter.unusedVariables false
set_option linter.unusedTactic false
set_option linter.unreachableTactic false

namespace Rig.C09
open Rig.Gen Rig.IntBits Rig.Gen.Load Rig.Gen.Scp

/-- `_get_next_nn_id` as written in the source = the model: returns `2 * nextNn n` and leaves
`self._nn_id = nextNn n` -/
theorem gen_get_next_nn_id (n : Nat) :
    PyFun.MachineController_get_next_nn_id n = (((2 * nextNn n : Nat) : Int), ((nextNn n : Nat) : Int)) := by
  simp only [PyFun.MachineController_get_next_nn_id, nextNn, Prod.mk.injEq]
  constructor <;> (try split_ifs) <;> omega

/-! ### the flood-fill packets: `_send_ffs`, `_send_ffcs`, `_send_ffe` -/

/-- the integer arguments of the `_send_scp(x, y, p, cmd, arg1, arg2, arg3)` call a request stands for -/
def reqInts (r : Req) : Int × Int × Int × Int × Int × Int × Int :=
  ((r.x : Int), (r.y : Int), (r.p : Int), (r.cmd : Int), (r.arg1 : Int), (r.arg2 : Int), (r.arg3 : Int))

/-- comparison of two naturals built from `|||` and `<<<` -/
macro "nat_bits" : tactic => `(tactic|
  first
    | rfl
    | (simp only [nnFfs, nnFfcs, nnFfe, nnForward, nnRetry, cmdNnp, cmdFfd, fr, Nat.lor_comm, Nat.lor_left_comm,
         Nat.lor_assoc]; done)
    | (simp only [nnFfs, nnFfcs, nnFfe, nnForward, nnRetry, cmdNnp, cmdFfd, fr]
       apply Nat.eq_of_testBit_eq; intro i; simp only [Nat.testBit_or, Nat.testBit_shiftLeft]; grind))

/-- cast-free form of a generated packet expression, then comparison of the naturals -/
macro "ff_eq" : tactic => `(tactic|
  (simp (disch := decide) only [reqInts, nnReq, lit_natCast, zero_natCast, one_natCast, shl_natCast, shr_natCast,
     land_natCast, lor_natCast, xor_natCast, add_natCast, mul_natCast, Int.toNat_natCast, List.nil_append,
     List.cons.injEq, Prod.mk.injEq, Nat.cast_inj, and_true]
   try (repeat' apply And.intro)
   all_goals (first | trivial | nat_bits)))

/-- `_send_ffs` as written in the source: one `_send_scp` call with the arguments of the model's `ffsReq`
(`fr` being what `flood_fill_aplx` passes) -/
theorem gen_send_ffs (pid nBlocks : Nat) :
    PyFun.MachineController_send_ffs pid nBlocks (fr : Nat) = [reqInts (ffsReq pid nBlocks)] := by
  unfold PyFun.MachineController_send_ffs ffsReq
  ff_eq

theorem gen_send_ffcs (region coreMask : Nat) :
    PyFun.MachineController_send_ffcs region coreMask (fr : Nat) = [reqInts (ffcsReq (region, coreMask))] := by
  unfold PyFun.MachineController_send_ffcs ffcsReq
  ff_eq

theorem gen_send_ffe (pid appId flags : Nat) :
    PyFun.MachineController_send_ffe pid appId flags (fr : Nat) = [reqInts (ffeReq pid appId flags)] := by
  unfold PyFun.MachineController_send_ffe ffeReq
  ff_eq

end Rig.C09
