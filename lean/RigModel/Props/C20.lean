/-
C20 - boot sends the complete image carrying this call's options only.
Property theorems; helper lemmas are in RigModel/Lemmas/C20.lean.
-/
import RigModel.Lemmas.C20
import RigModel.Lemmas.C20Spec
set_option linter.unusedSimpArgs false
set_option linter.unusedVariables false

namespace Rig.C20
open Rig.Gen.C20Boot

/-- the generated constants are the documented ones -/
theorem consts_documented :
    BOOT_BYTE_SIZE = 1024 ∧ BOOT_WORD_SIZE = 256 ∧ BOOT_DATA_OFFSET = 384 ∧ BOOT_DATA_LENGTH = 128 ∧
    DTCM_SIZE = 32768 ∧ BOOT_MAX_BLOCKS = 32 ∧ PROTOCOL_VERSION = 1 ∧
    CMD_START = 1 ∧ CMD_SEND_BLOCK = 3 ∧ CMD_END = 5 := by decide

/-- the `sv` struct regenerated from sark.struct is well formed (integer fields, inside the struct,
pairwise disjoint, distinct names), is at least as long as the configuration area, has the three
clock fields, and every board preset names a field of it with a value that fits. -/
theorem sv_table_ok :
    tableOK genSv.size genSv.fields = true ∧ 128 ≤ genSv.size ∧
    (timeOpts 0 0).all (fun p => genSv.fields.any (fun f => f.name = p.1)) = true ∧
    spinOptions.all (fun p => p.2.all (fun kv =>
      genSv.fields.any (fun f => f.name = kv.1 && valueFits f.pack kv.2))) = true ∧
    scampBootLength % 4 = 0 ∧ 512 ≤ scampBootLength ∧ scampBootLength < 32768 := by
  decide +kernel

/-- **Datagram sequence.**  A boot that returns sends: start announcing `n - 1`, then exactly `n`
blocks numbered `0 … n-1` (command 3, arg1 = `(255 << 8) | i`) whose payloads are the consecutive
1 KiB slices of the buffer with every word byte-swapped, then end(1); `1 ≤ n ≤ 32`, every payload is
at most 1024 bytes; the first event is the connect to the host and port of this call. -/
theorem boot_sequence (c : Call) (opts : Dict) (fs : List Field) (hd : c.ImageDomain)
    (h : (bootCore c opts).result = .ok fs) :
    ∃ packed, structPack c.svSize fs = .ok packed ∧ 128 ≤ packed.length ∧
      let buf := bootImage c.image packed
      let n := (buf.length + 1023) / 1024
      1 ≤ n ∧ n ≤ 32 ∧
      sends (bootCore c opts).events =
        headerV 1 1 0 0 (n - 1) :: ((List.range n).map (blockDg buf 0) ++ [headerV 1 5 1 0 0]) ∧
      (∀ i, (payload buf i).length ≤ 1024) ∧
      shapeOK (sends (bootCore c opts).events) = true ∧
      (bootCore c opts).events.head? = some (.connect c.host c.port) := by
  obtain ⟨hf, packed, hp, hl⟩ := bootCore_result_ok c opts fs h
  obtain ⟨_, hs, hc⟩ := bootCore_ok c opts hd fs packed hf hp hl
  have hlen := bootImage_length c.image packed hd.2.1 hl
  obtain ⟨h4, h512, hlt⟩ := hd
  refine ⟨packed, hp, hl, by omega, by omega, hs, payload_length _, ?_, hc⟩
  rw [hs]
  exact shapeOK_bootDatagrams _ (by omega) (by omega)

/-- **Byte swap inverse + concatenation.**  Undoing the per-word swap of every block payload and
concatenating gives exactly the buffer `boot` built: the image with the configuration spliced in. -/
theorem unswap_concat (c : Call) (opts : Dict) (fs : List Field) (hd : c.ImageDomain)
    (h : (bootCore c opts).result = .ok fs) :
    ∃ packed, structPack c.svSize fs = .ok packed ∧
      reassemble (sends (bootCore c opts).events) = bootImage c.image packed := by
  obtain ⟨hf, packed, hp, hl⟩ := bootCore_result_ok c opts fs h
  obtain ⟨_, hs, _⟩ := bootCore_ok c opts hd fs packed hf hp hl
  exact ⟨packed, hp, by rw [hs, reassemble_bootDatagrams]⟩

/-- **Configuration area.**  The reassembled image has the length of the boot image, equals it
outside bytes 384…511, and bytes 384…511 are the first 128 bytes of the packed struct that is
returned (`fs` are the returned `sv` fields). -/
theorem config_area (c : Call) (opts : Dict) (fs : List Field) (hd : c.ImageDomain)
    (h : (bootCore c opts).result = .ok fs) :
    ∃ packed, structPack c.svSize fs = .ok packed ∧
      let img := reassemble (sends (bootCore c opts).events)
      img.length = c.image.length ∧ img.take 384 = c.image.take 384 ∧ img.drop 512 = c.image.drop 512 ∧
      (img.drop 384).take 128 = packed.take 128 ∧ imageOK c img = true := by
  obtain ⟨hf, packed, hp, hl⟩ := bootCore_result_ok c opts fs h
  obtain ⟨_, hs, _⟩ := bootCore_ok c opts hd fs packed hf hp hl
  obtain ⟨h4, h512, hlt⟩ := hd
  refine ⟨packed, hp, ?_⟩
  simp only [hs, reassemble_bootDatagrams]
  have a := bootImage_length c.image packed h512 hl
  have b := bootImage_take c.image packed h512
  have d := bootImage_drop c.image packed h512 hl
  exact ⟨a, b, d, bootImage_config c.image packed h512 hl, by simp [imageOK, a, b, d]⟩

/-- **Struct packing.**  For a well-formed table (integer fields inside the struct, pairwise
disjoint) whose defaults fit their fields, `Struct.pack` succeeds, returns `size` bytes, every
field's bytes are the little-endian (two's complement) encoding of its default and every byte
not occupied by a field is zero. -/
theorem struct_pack_spec (size : Nat) (fs : List Field) (ht : tableOK size fs = true)
    (hv : ∀ f ∈ fs, valueFits f.pack f.default = true) :
    ∃ packed, structPack size fs = .ok packed ∧ packed.length = size ∧
      (∀ f ∈ fs, ∀ j, j < packWidth f.pack → packed[f.offset + j]? = some (leByte f.default j)) ∧
      (∀ i, i < size → (∀ f ∈ fs, ¬ covers f i) → packed[i]? = some 0) := by
  obtain ⟨hin, hd, _⟩ := tableOK_parts size fs ht
  exact structPack_spec size fs (fun f hf => (hin f hf).2) hd hv

/-- **Returned struct / options of this call.**  With distinct field names and options (and the
three clock fields) naming fields, the two `update_default_values` calls produce the file's fields
in file order where every default is: the clock value for `unix_time`/`boot_sig`/`root_chip`, else
the value this call's options give, else the file's default. -/
theorem returned_defaults (c : Call) (opts : Dict) (ht : tableOK c.svSize c.svFields = true)
    (hv : optsValid c opts = true) :
    finalFields c opts = .ok (c.svFields.map (fun f => { f with default := expectedDefault c opts f })) := by
  obtain ⟨_, _, hn⟩ := tableOK_parts _ _ ht
  obtain ⟨h1, h2, _⟩ := optsValid_parts c opts hv
  exact finalFields_spec c opts hn h1 h2

/-- **The property for one call.**  Inside the domain, with options that name fields and fit
them, `boot` returns, and its datagrams and returned struct satisfy the executable specification
`specOK` (the oracle the check evaluates on the implementation's output): sequence shape, image
identical outside bytes 384…511, configuration area = expected values field by field and zero
elsewhere, returned struct = expected values. -/
theorem boot_meets_spec (c : Call) (opts : Dict) (hd : c.InDomain) (hv : optsValid c opts = true) :
    ∃ fs, (bootCore c opts).result = .ok fs ∧
      fs = c.svFields.map (fun f => { f with default := expectedDefault c opts f }) ∧
      specOK c opts (sends (bootCore c opts).events) fs = true := by
  obtain ⟨h1, h2⟩ := boot_meets_spec_aux c opts hd hv
  exact ⟨_, h1, rfl, h2⟩

/-- the repaired `boot` leaves the process state (default dictionary, caller dictionaries) alone -/
theorem state_unchanged (s : State) (c : Call) : (bootStep false s c).1 = s := rfl

/-- **History independence (repaired code).**  In any history of boots the outcome of every call
(events, returned struct or exception) is `bootCore` of that call's own arguments: the caller's
dictionary as the caller built it, updated with that call's keyword arguments. -/
theorem history_independent (s : State) (cs : List Call) :
    runHistory false s cs = cs.map (fun c => bootCore c (dictUpdate (s.lookup c.sv) c.kwargs)) := by
  induction cs with
  | nil => rfl
  | cons c cs ih => simp [runHistory, bootStep, ih]

/-- **Every boot of every history meets the specification for its own options (repaired code).** -/
theorem history_meets_spec (s : State) (cs : List Call) (k : Nat) (c : Call) (hk : cs[k]? = some c)
    (hd : c.InDomain) (hv : optsValid c (dictUpdate (s.lookup c.sv) c.kwargs) = true) :
    ∃ o fs, (runHistory false s cs)[k]? = some o ∧ o.result = .ok fs ∧
      specOK c (dictUpdate (s.lookup c.sv) c.kwargs) (sends o.events) fs = true := by
  obtain ⟨h1, h2⟩ := boot_meets_spec_aux c _ hd hv
  exact ⟨_, _, by rw [history_independent, List.getElem?_map, hk]; rfl, h1, h2⟩

/-- in a fresh process a call without `sv_overrides` uses exactly its keyword arguments,
whatever was booted before -/
theorem fresh_process_default (store : List Dict) (before : List Call) (c : Call) (hc : c.sv = none) :
    (runHistory false (State.init store) (before ++ [c])).getLast? = some (bootCore c (dictUpdate [] c.kwargs)) := by
  rw [history_independent]
  simp [State.lookup, State.init, hc]

/-! ### the code as written leaks (kernel-evaluated witness) -/

def wTable : List Field :=
  [⟨"hw_ver", "B", 0, "%d", 0, 1⟩, ⟨"unix_time", "I", 4, "%d", 0, 1⟩,
   ⟨"boot_sig", "I", 8, "%d", 0, 1⟩, ⟨"root_chip", "B", 12, "%d", 0, 1⟩]

def wCall (host : String) (kw : Dict) : Call :=
  { host := host, port := 54321, image := List.replicate 512 7, svSize := 128, svFields := wTable,
    sv := none, kwargs := kw, t1 := 5, t2 := 6 }

def observe (o : Outcome) : List (List Nat) × Option (List Field) := (sends o.events, o.result.toOption)

def leakHistory : List Call := [wCall "a" [("hw_ver", 3)], wCall "b" []]

/-- the specification evaluated on the second boot of `leakHistory` (which asked for no options) -/
def secondMeetsSpec (leaky : Bool) : Bool :=
  match (runHistory leaky (State.init []) leakHistory)[1]? with
  | some o => specOK (wCall "b" []) [] (sends o.events) (o.result.toOption.getD [])
  | none => false

/-- **Leak witness.**  `boot("a", hw_ver=3); boot("b")` on the model of the code as written
(in-place update of the default dictionary): the second boot, which asked for nothing, fails the
specification (its configuration carries `hw_ver = 3`), while on the repaired model it meets it. -/
theorem leak_witness :
    (runHistory true (State.init []) leakHistory).map observe ≠
      (runHistory false (State.init []) leakHistory).map observe ∧
    secondMeetsSpec true = false ∧ secondMeetsSpec false = true := by
  decide +kernel

/-- non-vacuity: the witness call is in the domain and returns -/
example : (wCall "b" []).ImageDomain ∧ ((bootCore (wCall "b" []) []).result.toOption.isSome = true) := by
  refine ⟨?_, by decide +kernel⟩
  unfold Call.ImageDomain
  simp only [wCall, List.length_replicate]
  decide

/-- non-vacuity of `boot_meets_spec`: the bundled `sv` table, a SpiNN-3 preset and a 1 KiB image -/
def exCall : Call :=
  { host := "board", port := BOOT_PORT, image := List.replicate 1024 0, svSize := genSv.size,
    svFields := genSv.fields, sv := none, kwargs := [("hw_ver", 3), ("led0", 0x502)],
    t1 := 1443571200, t2 := 1443571201 }

example : tableOK exCall.svSize exCall.svFields = true ∧ 128 ≤ exCall.svSize ∧
    optsValid exCall (dictUpdate [] exCall.kwargs) = true := by decide +kernel

end Rig.C20
