/-
C20 - boot sends the complete image carrying this call's options only.
-/
import RigModel.Model.C20
set_option linter.unusedSimpArgs false
set_option linter.unusedVariables false

namespace Rig.C20
open Rig.Gen.C20Boot

/-- the generated constants are the documented ones -/
theorem consts_documented :
    BOOT_BYTE_SIZE = 1024 ∧ BOOT_WORD_SIZE = 256 ∧ BOOT_DATA_OFFSET = 384 ∧ BOOT_DATA_LENGTH = 128 ∧
    DTCM_SIZE = 32768 ∧ BOOT_MAX_BLOCKS = 32 ∧ PROTOCOL_VERSION = 1 ∧
    CMD_START = 1 ∧ CMD_SEND_BLOCK = 3 ∧ CMD_END = 5 := by decide

end Rig.C20
