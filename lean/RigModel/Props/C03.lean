/-
C03 - routing trees are loop-free, connected, use only live hardware.
Property theorems only; the proofs are in RigModel/Lemmas/C03*.lean.

What is proved here is about the model RigModel/Model/C03.lean (tied to the code by the
correspondence harness):  the decision procedure that is run as oracle on every tree the real
router returns is exactly the declarative property; a valid tree physically connects the source to
every sink; A* paths; liveness of the disconnecting copy; hop geometry of the LDF walk.
Round 2: the geometry functions duplicated in this model are proved equal to the C11 model's
(Props/Cross03_11.lean), C11's distance theorems are transferred, and with them `nerNet_valid` is proved in
full on the fault-free machine (mesh or torus, every size, radius, tape), together with the absence of every
non-oracle error of `ner_net` / of `route()` on the fault-free machine.
`aStar_complete` and `aStar_only_disconnected` are proved for every machine.
Round 3 (the repair loop, fixed code `legacy = false`): the forest invariant of `avoid_dead_links` (`L.RInv`:
one entry per chip, one parent per node, no cycle, component roots = tree root + heads of the broken links not
yet reconnected, every entry below one of them) is established by the disconnecting copy and preserved by the
reconnection of one broken link for every A* outcome (detours through the orphaned subtree included) and every
processing order; `avoidDeadLinks_valid`: whenever `routeNet` returns after a repair the forest unfolds to a tree
satisfying ALL clauses of `ValidTree`; `route_only_failure` for every machine: the only non-oracle error is
`Disconnected`, and none on a strongly connected machine; `stronglyConnected` is proved complete as well as
sound; `legacy_two_parents_witness`: the unfixed loop really yields a node with two parent links.
`routeNet_valid`: with the source and the destinations on working chips, EVERY successful run of the model of
`route()` (repair entered or not, any machine) returns a valid routing tree (for the unrepaired case on a machine
with faults this needs `nerNet_leaves_are_dests`: childless nodes of the `ner_net` forest are destinations).
Nothing about the model of the fixed code is left unproved; what is validated (not proved) is the correspondence
of the model with the Python code (stage-wise differential testing with recorded tapes and set orders, for single
nets and net by net for calls with several nets).
Round 4: `routeNets` (the `for net in nets` loop; only the oracle tape is threaded) with `routeNets_independent`,
`routeNets_valid`, `routeNets_only_failure`: the multi-net clause is a theorem about the model plus correspondence.
-/
import RigModel.Model.C03
import RigModel.Lemmas.C03Tree
import RigModel.Lemmas.C03AStar
import RigModel.Lemmas.C03Copy
import RigModel.Lemmas.C03Ner
import RigModel.Lemmas.C03Repair
import RigModel.Lemmas.C03Forest
import RigModel.Lemmas.C03NerValid
import RigModel.Lemmas.C03AStarComplete
import RigModel.Lemmas.C03AStarTotal
import RigModel.Lemmas.C03Strong
import RigModel.Lemmas.C03Surgery
import RigModel.Lemmas.C03RepairInv
import RigModel.Lemmas.C03RepairValid
import RigModel.Lemmas.C03RepairTotal
import RigModel.Lemmas.C03CopyTotal
import RigModel.Lemmas.C03RouteTotal
import RigModel.Lemmas.C03StrongComplete
import RigModel.Lemmas.C03NerLeaf
import RigModel.Lemmas.C03Nets
import RigModel.Props.Cross03_11
set_option linter.unusedSimpArgs false
set_option linter.unusedVariables false

namespace Rig.C03
open Rig.Gen.C03Links

/-- the generated link tables are the documented hexagonal link geometry -/
theorem link_tables :
    linkOrder = [0, 1, 2, 3, 4, 5] ∧ linkVecKeys = [0, 1, 2, 3, 4, 5] ∧ linkRoutes = linkOrder ∧
    (∀ l, l < 6 → fromVec (vec l) = some l) ∧
    (∀ l, l < 6 → opp l = (l + 3) % 6) ∧
    (∀ l, l < 6 → vec (opp l) = (-(vec l).1, -(vec l).2)) ∧
    coreRouteBase = 6 := by
  decide

/-- **Decision procedure = property.**  The executable `validTree` (the oracle applied to every tree
returned by the real `route()`) holds exactly when the declarative `ValidTree` does. -/
theorem validTree_iff (m : Machine) (src : Chip) (sinks : List Sink) (t : Tree) :
    validTree m src sinks t = true ↔ ValidTree m src sinks t :=
  L.validTree_iff m src sinks t

/-- **Connected.**  In a valid tree every sink's chip is physically reachable from the source chip
over working links between working chips. -/
theorem validTree_connects (m : Machine) (src : Chip) (sinks : List Sink) (t : Tree)
    (h : ValidTree m src sinks t) :
    ∀ s, s ∈ sinks → s.routes ≠ [] → Reach m src s.chip :=
  L.validTree_connects m src sinks t h

example : ValidTree ⟨2, 2, [], []⟩ (0, 0) [⟨1, (1, 0), 1, 3, 5⟩]
    (.node (0, 0) [(0, .node (1, 0) [] [(some 9, 1), (some 10, 1)])] []) :=
  (validTree_iff _ _ _ _).1 (by decide)

/-- **A\* path.**  Whatever `a_star` returns is a chain of working links that starts at a chip of
`sources`, passes through no other chip of `sources`, and whose last link arrives at `sink`. -/
theorem aStar_path (m : Machine) (sink hsrc : Chip) (sources : List Chip) (wrap : Bool)
    (path : List (Nat × Chip)) (hsink : InRange m sink)
    (h : aStar sink hsrc sources m wrap = .ok path) : pathOk m sources sink path = true :=
  L.aStar_path m sink hsrc sources wrap path hsink h

/-- a detour around the dead chip (1,0) on a 3x3 machine whose right-hand wrap links are dead -/
example : (aStar (0, 0) (2, 0) [(2, 0), (2, 1)]
      ⟨3, 3, [(1, 0)], [((2, 0), 0), ((2, 0), 1), ((2, 1), 0), ((2, 2), 1), ((2, 1), 1)]⟩ false).toOption
      = some [(3, (2, 1)), (4, (1, 1))]
    ∧ InRange ⟨3, 3, [(1, 0)], [((2, 0), 0), ((2, 0), 1), ((2, 1), 0), ((2, 2), 1), ((2, 1), 1)]⟩ (0, 0) := by
  refine ⟨by decide, ?_⟩
  unfold InRange
  decide

/-- **Copy keeps only live hardware.**  Every node of the forest built by `copy_and_disconnect_tree`
is a working chip and every edge it keeps is a working link to the adjacent working chip. -/
theorem copyAndDisconnect_live (old : Forest) (root : Chip) (m : Machine) (cs : CopyState)
    (h : copyAndDisconnect old root m = .ok cs) : ForestLive m cs.lookup :=
  L.copyAndDisconnect_live old root m cs h

/-- **LDF walk.**  `n` steps in a unit direction are `n` consecutive hops over the link named by the
direction (coordinates reduced modulo the machine size after every step). -/
theorem walk_hops (m : Machine) (dir : Nat) (dx dy : Int) (hdir : dir < 6) (hv : vec dir = (dx, dy))
    (n : Nat) (pos : Chip) : hopsFrom m pos (walk m.w m.h dir dx dy n pos) = true :=
  L.walk_hops m dir dx dy hdir hv n pos

/-- the whole longest-dimension-first route, for every vector and every random tie-break, is a chain of
hops that starts at `start` -/
theorem ldf_hops (m : Machine) (v : V3) (start : Chip) (t t' : Tape) (p : List (Nat × Chip))
    (h : ldf v start m.w m.h t = .ok (p, t')) : hopsFrom m start p = true :=
  L.ldf_hops m v start t t' p h

example : (ldf (2, 0, -1) (0, 0) 3 3 [5, 5, 5]).toOption = some ([(0, (1, 0)), (0, (2, 0)), (1, (0, 1))], []) := by
  decide

/- `nerNet_valid` is proved in full below (round 2); this earlier part is kept. -/
/-- **NER edges (part of `nerNet_valid`).**  Every edge `(parent, l, child)` of the forest `ner_net` builds
satisfies `l < 6` and `child = parent + vec l (mod w, h)`. -/
theorem nerNet_edges_partial (m : Machine) (src : Chip) (dests : List Chip) (wrap : Bool) (radius : Nat)
    (t t' : Tape) (f : Forest) (h : nerNet src dests m.w m.h wrap radius t = .ok (f, t')) : ForestHops m f :=
  L.nerNet_hops m src dests wrap radius t t' f h

/-- **Repair uses only live hardware.**  Whenever the dead-link repair ran (copy + A* reconnection of every
broken link, in ANY processing order, with or without fixes/c03-avoid-dead-links-parent.diff), every node of
the resulting forest is a working chip and every edge a working link to the adjacent working chip. -/
theorem routeNet_repaired_live (m : Machine) (src : Chip) (dests : List Chip) (radius : Nat) (t : Tape)
    (order : List (Chip × Chip)) (sinks : List Sink) (legacy : Bool) (r : Result)
    (h : routeNet m src dests radius t order sinks legacy = .ok r) (hr : r.repaired = true) :
    ForestLive m r.forest :=
  L.routeNet_repaired_live m src dests radius t order sinks legacy r h hr

/- Full statement aimed at (DESIGN 3/C03) - proved in round 3 as `routeNet_valid` / `avoidDeadLinks_valid` below
   (it is false for `legacy = true`, defect F3: `legacy_two_parents_witness`); at the time of this theorem:
   theorem routeNet_valid : routeNet m src dests radius t order sinks false = .ok r →
     (placements on working chips, dests = chips of the sinks) →
     toTree r.forest r.leaves n r.root = some t → ValidTree m src sinks t
   Proved part below: the clauses `hops` (the target chip being a working chip only when the repair ran) and
   `leaves_sound` of `ValidTree`, for every machine, net, radius, tape and order.
   Missing: `distinct` (the forest invariant of the repair loop, one parent per node / no cycle), `rooted`
   and `leaves_complete` (every sink chip is reachable from the root in the forest). -/
/-- **Every hop of every tree the model of `route()` returns follows a working link of a working chip to the
adjacent chip, and every leaf is an expected leaf.** -/
theorem routeNet_tree_partial (m : Machine) (src : Chip) (dests : List Chip) (radius : Nat) (t : Tape)
    (order : List (Chip × Chip)) (sinks : List Sink) (legacy : Bool) (r : Result)
    (h : routeNet m src dests radius t order sinks legacy = .ok r)
    (fuel : Nat) (tr : Tree) (ht : toTree r.forest r.leaves fuel r.root = some tr) :
    (∀ c l c', (c, l, c') ∈ tr.edges →
        l < 6 ∧ linkOk m c l = true ∧ c' = step m c l ∧ (r.repaired = true → chipOk m c' = true)) ∧
    (∀ lf, lf ∈ tr.leafList → lf ∈ expectedLeaves sinks) := by
  constructor
  · intro c l c' he
    obtain ⟨n, hn, hn1, hn2⟩ := L.toTree_edges fuel r.root tr ht _ he
    simp only at hn1 hn2
    have h1 := L.routeNet_links m src dests radius t order sinks legacy r h n hn _ hn2
    rw [hn1] at h1
    refine ⟨h1.1, h1.2.1, h1.2.2, ?_⟩
    intro hr
    have h2 := ((L.routeNet_repaired_live m src dests radius t order sinks legacy r h hr) n hn).2 _ hn2
    exact h2.2.2.1
  · intro lf hlf
    rw [← L.routeNet_leaves m src dests radius t order sinks legacy r h]
    exact L.toTree_leaves fuel r.root tr ht lf hlf

/-- non-vacuity: a repaired net on a 3x3 machine with a dead link on the direct route -/
example : (match routeNet ⟨3, 3, [], [((0, 0), 0)]⟩ (0, 0) [(1, 0)] 1 [0, 0, 0, 0, 0, 0, 0] [((0, 0), (1, 0))]
      [⟨1, (1, 0), 1, 2, 4⟩] false with
    | .ok r => r.repaired && (toTree r.forest r.leaves 10 r.root).isSome
    | .error _ => false) = true := by decide +kernel

/-! ## Round 2: cross-model consistency with C11 (rig/geometry.py modelled twice) -/

/-- **Same link tables.**  The tables generated for this model and for C11 are the same data: the
`from_vector` table, the enumeration order, `to_vector` (= C11's specification vector), `opposite`. -/
theorem cross_link_tables :
    Gen.C03Links.fromVectorTable = Gen.Links.linkDirectionLookup ∧
    Gen.C03Links.linkOrder = C11.allLinks ∧
    (∀ l, l < 6 → C11.toVector l = some (vec l)) ∧
    (∀ l, l < 6 → C11.specVec l = some (vec l)) ∧
    (∀ l, l < 6 → opp l = C11.opposite l) ∧
    (∀ d, d ∈ C11.hexSteps → fromVec d = C11.fromVector d.1 d.2) := Cross.tables_eq

/-- **Same length functions** (`shortest_mesh_path_length`, `shortest_torus_path_length` for w, h ≥ 1) and same
`minimise_xyz` / `shortest_mesh_path`. -/
theorem cross_lengths (a b : Chip) :
    meshLen a b = C11.meshLen (C11.toXyz a) (C11.toXyz b) ∧
    (∀ w h : Nat, 1 ≤ w → 1 ≤ h → C11.torusLen (C11.toXyz a) (C11.toXyz b) w h = .ok (torusLen a b w h)) ∧
    (∀ v : V3, minimise v = Cross.t3 (C11.minimiseXyz (Cross.v3 v))) ∧
    meshPath a b = Cross.t3 (C11.meshPath (C11.toXyz a) (C11.toXyz b)) :=
  ⟨Cross.meshLen_eq a b, fun w h hw hh => Cross.torusLen_eq a b w h hw hh, Cross.minimise_eq, Cross.meshPath_eq a b⟩

/-- **Same `shortest_torus_path`**: every result of this model (draws read from the tape) is the result of C11's
model for some legal values of C11's oracle inputs. -/
theorem cross_torusPath (a b : Chip) (w h : Nat) (hw : 1 ≤ w) (hh : 1 ≤ h) (t t' : Tape) (v : V3)
    (hp : torusPath a b w h t = .ok (v, t')) :
    ∃ k0 k1 k2 k3 s : Nat, k0 < 1048576 ∧ k1 < 1048576 ∧ k2 < 1048576 ∧ k3 < 1048576 ∧
      C11.torusPath (C11.toXyz a) (C11.toXyz b) w h 1048576 k0 k1 k2 k3 s = .ok (Cross.v3 v) :=
  Cross.torusPath_eq a b w h hw hh t t' v hp

/-- **Same `longest_dimension_first`.** -/
theorem cross_ldf (v : V3) (start : Chip) (w h : Nat) (hw : 1 ≤ w) (hh : 1 ≤ h) (t t' : Tape)
    (p : List (Nat × Chip)) (hl : ldf v start w h t = .ok (p, t')) :
    ∃ j0 j1 j2 : Nat, j0 < 1048576 ∧ j1 < 1048576 ∧ j2 < 1048576 ∧
      C11.ldf (Cross.v3 v) start (some (w : Int)) (some (h : Int)) 1048576 j0 j1 j2 = .ok p :=
  Cross.ldf_eq v start w h hw hh t t' p hl

/-- **Same `concentric_hexagons`** (centre (0, 0), as memoised by ner.py). -/
theorem cross_hexagons (radius : Nat) : concentricHexagons radius = C11.concentricHexagons (radius : Int) (0, 0) :=
  Cross.concentricHexagons_eq radius

/-- **Same `links_between`**, and it is C11's specification list (C11.linksBetween_exact). -/
theorem cross_linksBetween (m : Machine) (hw : 1 ≤ m.w) (hh : 1 ≤ m.h) (a b : Chip) :
    linksBetween m a b = C11.specLinksBetween a b (Cross.mach m) ∧
    C11.linksBetween a b (Cross.mach m) = some (linksBetween m a b) :=
  Cross.linksBetween_eq m hw hh a b

/-! ### C11's theorems, transferred to the functions the router model calls -/

/-- the sort key / neighbour distance of `ner_net` on a mesh is the graph distance -/
theorem meshLen_is_distance (a b : Chip) :
    0 ≤ meshLen a b ∧ C11.IsDist none none a b (meshLen a b).toNat := by
  have := C11.meshLen_eq_dist (C11.toXyz a) (C11.toXyz b)
  rw [C11.toXyz_proj, C11.toXyz_proj, ← Cross.meshLen_eq] at this
  exact this

/-- the sort key / neighbour distance of `ner_net` on a torus is the graph distance of the `w × h` torus
(every w, h ≥ 1, including 1 and 2) -/
theorem torusLen_is_distance (a b : Chip) (w h : Nat) (hw : 1 ≤ w) (hh : 1 ≤ h) :
    0 ≤ torusLen a b w h ∧
    C11.IsDist (some (w : Int)) (some (h : Int)) (wrapC w h a) (wrapC w h b) (torusLen a b w h).toNat := by
  obtain ⟨n, e1, e2⟩ := C11.torusLen_eq_dist (C11.toXyz a) (C11.toXyz b) w h (by omega) (by omega)
  rw [Cross.torusLen_eq a b w h hw hh] at e1
  simp only [Except.ok.injEq] at e1
  have p1 : C11.projT (C11.toXyz a) w h = wrapC w h a := by simp [C11.projT, C11.toXyz, wrapC]
  have p2 : C11.projT (C11.toXyz b) w h = wrapC w h b := by simp [C11.projT, C11.toXyz, wrapC]
  rw [p1, p2] at e2
  rw [e1]
  exact ⟨by omega, by simpa using e2⟩

/-- the memoised hexagon list searched by `ner_net`: duplicate-free, exactly the offsets within hexagonal
(= graph) distance `radius`, nearest ring first, `1 + 3 r (r + 1)` of them -/
theorem hexagons_exact (radius : Nat) :
    (concentricHexagons radius).Nodup ∧
    (∀ p, p ∈ concentricHexagons radius ↔ C11.hexDist (0, 0) p ≤ radius) ∧
    (concentricHexagons radius).Pairwise (fun a b => C11.hexDist (0, 0) a ≤ C11.hexDist (0, 0) b) ∧
    (concentricHexagons radius).length = 1 + 3 * radius * (radius + 1) := by
  rw [cross_hexagons]; exact C11.hexagons_exact radius (0, 0)

/-- **The torus route of `ner_net` is a shortest walk**: `shortest_torus_path` walked by
`longest_dimension_first` from an in-range neighbour to an in-range destination, for every tape: a labelled walk
over adjacent chips that ends at the destination, has exactly `shortest_torus_path_length` hops = the graph
distance, and visits no chip twice. -/
theorem torus_route (nb dest : Chip) (w h : Nat) (hw : 1 ≤ w) (hh : 1 ≤ h)
    (hn : Cross.InBox w h nb) (hd : Cross.InBox w h dest)
    (t t1 t2 : Tape) (v : V3) (path : List (Nat × Chip))
    (hv : torusPath nb dest w h t = .ok (v, t1)) (hl : ldf v nb w h t1 = .ok (path, t2)) :
    C11.walkOk (some (w : Int)) (some (h : Int)) nb path = true ∧ C11.lastPos nb path = dest ∧
    (path.length : Int) = torusLen nb dest w h ∧
    C11.IsDist (some (w : Int)) (some (h : Int)) nb dest path.length ∧
    (nb :: path.map (·.2)).Nodup :=
  Cross.torus_route nb dest w h hw hh hn.1 hn.2.1 hn.2.2.1 hn.2.2.2 hd.1 hd.2.1 hd.2.2.1 hd.2.2.2 t t1 t2 v path hv hl

/-- **The mesh route of `ner_net` is a shortest walk that stays inside the machine** (no hop wraps around,
although the code reduces every coordinate modulo width / height). -/
theorem mesh_route (nb dest : Chip) (w h : Nat) (hw : 1 ≤ w) (hh : 1 ≤ h)
    (hn : Cross.InBox w h nb) (hd : Cross.InBox w h dest) (t t2 : Tape) (path : List (Nat × Chip))
    (hl : ldf (meshPath nb dest) nb w h t = .ok (path, t2)) :
    C11.walkOk none none nb path = true ∧ C11.lastPos nb path = dest ∧
    (path.length : Int) = meshLen nb dest ∧
    (∀ c, c ∈ path.map (·.2) → Cross.InBox w h c) ∧
    (nb :: path.map (·.2)).Nodup :=
  Cross.mesh_route nb dest w h hw hh hn hd t t2 path hl

/-- non-vacuity: on the 2 x 3 torus (1, 2) is one south-west hop from (0, 0) -/
example : (torusPath (0, 0) (1, 2) 2 3 [5, 6, 7, 8, 0, 1, 2, 3]).toOption = some ((0, 0, 1), [0, 1, 2, 3]) ∧
    (ldf (0, 0, 1) (0, 0) 2 3 [0, 1, 2, 3]).toOption = some ([(4, (1, 2))], [3]) := by decide +kernel

/-! ## Round 2: `ner_net` yields a valid routing tree on the fault-free machine -/

/-- **A well-formed forest unfolds to a tree with pairwise distinct chips.**  One entry per chip, children of
a node pairwise distinct, one parent per node, a rank decreasing along every edge: then `toTree` succeeds with
fuel above the rank of the root, the tree's chips are exactly the chips below the root, each exactly once, and
every leaf placed on one of them is on the tree.  (The general step from the `{chip: node}` dictionary the
code manipulates to the tree the property speaks about; also what a proof of `avoidDeadLinks_valid` needs.) -/
theorem forest_unfolds {f : Forest} {rank : Chip → Nat} (hw : L.WF f rank) (leaves : List Leaf)
    (fuel : Nat) (c : Chip) (hr : rank c < fuel) :
    ∃ t, toTree f leaves fuel c = some t ∧ L.Unfolds f leaves c t :=
  L.toTree_unfolds hw leaves fuel c hr

/-- **`nerNet_valid`.**  On the fault-free `w × h` machine (no dead chip; with wrap-around: no dead link;
without: only links that leave the rectangle may be dead), every w, h ≥ 1 including 1×N and 2×N, for every
radius, every iteration order of the destinations and every content of the oracle tape (all tie-breaks and
spiral counts): whenever `ner_net` returns, the forest it built unfolds to a tree that is a VALID routing tree
for every set of sinks placed on the source chip or on destination chips - rooted at the source chip, chips
pairwise distinct, every hop a working link of a working chip to the adjacent working chip, leaves exactly the
sinks. -/
theorem nerNet_valid (m : Machine) (wrap : Bool) (hff : L.FaultFree m wrap) (src : Chip) (dests : List Chip)
    (radius : Nat) (t t' : Tape) (f : Forest) (sinks : List Sink)
    (hs : InRange m src) (hd : ∀ d, d ∈ dests → InRange m d)
    (hsk : ∀ s, s ∈ sinks → s.chip = src ∨ s.chip ∈ dests)
    (hn : nerNet src dests m.w m.h wrap radius t = .ok (f, t')) :
    ∃ tr, toTree f (expectedLeaves sinks) (f.length + 1) src = some tr ∧ ValidTree m src sinks tr :=
  L.nerNet_valid m wrap hff src dests radius t t' f sinks hs hd hsk hn

/-- **`ner_net` cannot fail** on chips inside the machine: the only errors of the model are oracle errors (tape
too short, draw out of range).  In particular the code never creates a second node for a chip (`dupNode`, which
would silently overwrite a tree node), never looks up a direction that is not a link (`KeyError`). -/
theorem nerNet_only_oracle_errors (src : Chip) (dests : List Chip) (w h : Nat) (wrap : Bool) (radius : Nat)
    (t : Tape) (e : Err) (hs : Cross.InBox w h src) (hd : ∀ d, d ∈ dests → Cross.InBox w h d)
    (hn : nerNet src dests w h wrap radius t = .error e) : e = .tape ∨ e = .badDraw := by
  have hw : 1 ≤ w := by have := hs.1; have := hs.2.1; omega
  have hh : 1 ≤ h := by have := hs.2.2.1; have := hs.2.2.2; omega
  exact L.nerNet_err hw hh hs hd hn

/-- non-vacuity: a 2 x 5 torus (spiral draw), two destinations, radius 0 -/
example : (match nerNet (0, 0) [(1, 3), (0, 4)] 2 5 true 0 [1, 2, 3, 4, 0, 5, 6, 7, 1, 2, 3, 4, 0, 5, 6, 7, 1, 1, 1, 1, 1, 1, 1] with
    | .ok (f, _) => (toTree f [] (f.length + 1) (0, 0)).isSome && decide (f.length = 4)
    | .error _ => false) = true ∧ L.FaultFree ⟨2, 5, [], []⟩ true := by
  refine ⟨by decide +kernel, rfl, ?_⟩
  intro c l h; simp at h

/-- **`route()` on the fault-free machine** (`route_only_failure` and validity, fault-free case).  With no dead
chip and no dead link (or, when `has_wrap_around_links()` is false, only wrap-around links dead), for every
net whose vertices are inside the machine, every radius, tape, destination order: the dead-link repair is never
entered; the model has no error other than an oracle error (no `Disconnected`, `KeyError`, assertion, `fuel`,
`dupNode`); and the result unfolds to a valid routing tree rooted at the source chip. -/
theorem routeNet_faultfree (m : Machine) (hff : L.FaultFree m (hasWrap m)) (src : Chip) (dests : List Chip)
    (radius : Nat) (t : Tape) (order : List (Chip × Chip)) (sinks : List Sink) (legacy : Bool)
    (hs : InRange m src) (hd : ∀ d, d ∈ dests → InRange m d)
    (hsk : ∀ s, s ∈ sinks → s.chip = src ∨ s.chip ∈ dests) :
    (∀ r, routeNet m src dests radius t order sinks legacy = .ok r →
      r.repaired = false ∧ r.root = src ∧
      ∃ tr, toTree r.forest r.leaves (r.forest.length + 1) r.root = some tr ∧ ValidTree m src sinks tr) ∧
    (∀ e, routeNet m src dests radius t order sinks legacy = .error e → e = .tape ∨ e = .badDraw) :=
  L.routeNet_faultfree m hff src dests radius t order sinks legacy hs hd hsk

/-- non-vacuity: the 1 x 2 mesh (all ten wrap-around links dead) is fault-free for a net routed without
wrap-around, and `has_wrap_around_links()` is false on it -/
example : hasWrap ⟨1, 2, [], [((0, 0), 0), ((0, 0), 1), ((0, 0), 3), ((0, 0), 4), ((0, 0), 5), ((0, 1), 0),
      ((0, 1), 1), ((0, 1), 2), ((0, 1), 3), ((0, 1), 4)]⟩ = false ∧
    L.FaultFree ⟨1, 2, [], [((0, 0), 0), ((0, 0), 1), ((0, 0), 3), ((0, 0), 4), ((0, 0), 5), ((0, 1), 0),
      ((0, 1), 1), ((0, 1), 2), ((0, 1), 3), ((0, 1), 4)]⟩ false := by
  refine ⟨by decide, rfl, ?_⟩
  intro c l h
  refine ⟨rfl, ?_⟩
  simp only [List.mem_cons, Prod.mk.injEq, List.not_mem_nil, or_false] at h
  rcases h with ⟨rfl, rfl⟩ | ⟨rfl, rfl⟩ | ⟨rfl, rfl⟩ | ⟨rfl, rfl⟩ | ⟨rfl, rfl⟩ | ⟨rfl, rfl⟩ | ⟨rfl, rfl⟩ |
    ⟨rfl, rfl⟩ | ⟨rfl, rfl⟩ | ⟨rfl, rfl⟩ <;> (show ¬ Cross.InBox _ _ _; unfold Cross.InBox; decide)

/-- **`aStar_complete`.**  `a_star` reports `MachineHasDisconnectedSubregion` only if no chip of `sources`
reaches the sink over working links between working chips (the search visits every chip from which the sink
is reachable before giving up) - for every machine, dead chips and dead links included. -/
theorem aStar_complete (m : Machine) (sink hsrc : Chip) (sources : List Chip) (wrap : Bool)
    (hsink : InRange m sink) (h : aStar sink hsrc sources m wrap = .error .disconnected) :
    ∀ s, s ∈ sources → ¬ Reach m s sink :=
  L.aStar_complete m sink hsrc sources wrap hsink h

/-- non-vacuity: on a 3 x 1 machine whose chip (1, 0) is dead and whose wrap links are dead, (2, 0) is cut off -/
example : aStar (0, 0) (2, 0) [(2, 0)] ⟨3, 1, [(1, 0)], [((2, 0), 0), ((2, 0), 1), ((2, 0), 5), ((2, 0), 2),
    ((2, 0), 4)]⟩ false = .error .disconnected := by rfl

/-- **`a_star` raises nothing but the disconnected-machine error** - on every machine (any dead chips / links),
for a sink inside the machine that is not itself one of the sources (as in `avoid_dead_links`): the fuel
`w * h + 1` of the model's `while heap` loop is never exhausted (every iteration expands a different chip) and
the walk back over `visited` never meets a missing key or a `None` predecessor.  Together with `aStar_path` and
`aStar_complete`: `a_star` either returns a chain of working links from a source to the sink, or reports
`MachineHasDisconnectedSubregion`, the latter only if no source reaches the sink. -/
theorem aStar_only_disconnected (m : Machine) (sink hsrc : Chip) (sources : List Chip) (wrap : Bool)
    (hsink : InRange m sink) (hns : sources.contains sink = false) (e : Err)
    (h : aStar sink hsrc sources m wrap = .error e) : e = .disconnected :=
  L.aStar_only_disconnected m sink hsrc sources wrap hsink hns e h

/-- **The strong-connectivity oracle is sound.**  The harness decides the error clause ("if all working chips
can reach each other the router succeeds") with the executable `stronglyConnected`; whenever it evaluates to
true, every working chip does reach every working chip over working links between working chips. -/
theorem stronglyConnected_sound (m : Machine) (hs : stronglyConnected m = true) (a b : Chip)
    (ha : chipOk m a = true) (hb : chipOk m b = true) : Reach m a b :=
  L.stronglyConnected_sound m hs a b ha hb

/-- **On a strongly connected machine `a_star` succeeds** (sink a working chip that is not a source, at least
one source a working chip - what `avoid_dead_links` passes).  This is the `a_star` part of
`route_only_failure`. -/
theorem aStar_succeeds (m : Machine) (hs : stronglyConnected m = true) (sink hsrc : Chip) (sources : List Chip)
    (wrap : Bool) (hsink : chipOk m sink = true) (hns : sources.contains sink = false)
    (hsrc' : ∃ s, s ∈ sources ∧ chipOk m s = true) : ∃ path, aStar sink hsrc sources m wrap = .ok path :=
  L.aStar_succeeds m hs sink hsrc sources wrap hsink hns hsrc'

/-- non-vacuity: a 3 x 3 machine with a dead chip and dead links that is still strongly connected -/
example : stronglyConnected ⟨3, 3, [(1, 1)], [((0, 0), 0), ((2, 2), 3)]⟩ = true := by decide +kernel

/-! ## Round 3: the dead-link repair loop (`avoid_dead_links`, fixed code) yields a valid routing tree -/

/-- **An A\* path is simple**: it visits no chip twice and does not pass through the sink (the orphan being
reconnected) - for every machine. -/
theorem aStar_path_simple (m : Machine) (sink hsrc : Chip) (sources : List Chip) (wrap : Bool)
    (path : List (Nat × Chip)) (hsink : InRange m sink) (hns : sources.contains sink = false)
    (h : aStar sink hsrc sources m wrap = .ok path) :
    (path.map (·.2)).Nodup ∧ sink ∉ path.map (·.2) :=
  L.aStar_path_nodup m sink hsrc sources wrap path hsink hns h

/-- **The forest invariant of the repair loop** (`L.RInv f R`): `f` has one entry per chip, the children of a
node are pairwise distinct, every node has at most one parent, a rank decreases along every edge (no cycle),
every edge arrives at an entry; the chips of `R` are pairwise distinct parentless entries (component roots) and
every entry is below one of them.  Spelled out: -/
theorem RInv_iff (f : Forest) (R : List Chip) : L.RInv f R ↔
    ((∃ rank : Chip → Nat, f.keys.Nodup ∧ (∀ n, n ∈ f → (n.2.map (·.2)).Nodup) ∧
        (∀ n n' k k', n ∈ f → n' ∈ f → k ∈ n.2 → k' ∈ n'.2 → k.2 = k'.2 → n.1 = n'.1) ∧
        (∀ n k, n ∈ f → k ∈ n.2 → rank k.2 < rank n.1)) ∧
     (∀ n k, n ∈ f → k ∈ n.2 → k.2 ∈ f.keys) ∧ R.Nodup ∧
     (∀ r, r ∈ R → r ∈ f.keys ∧ ∀ n k, n ∈ f → k ∈ n.2 → k.2 ≠ r) ∧
     (∀ x, x ∈ f.keys → ∃ r, r ∈ R ∧ L.Below f r x)) := by
  constructor
  · rintro ⟨⟨rank, hw⟩, hc, hn, hr, hb⟩
    exact ⟨⟨rank, hw.keys, hw.kidsNodup, hw.oneParent, hw.rank⟩, fun n k hn hk => hc n.1 k ⟨n, hn, rfl, hk⟩, hn,
      fun r h => ⟨(hr r h).1, fun n k hn hk => (hr r h).2 n.1 k ⟨n, hn, rfl, hk⟩⟩, hb⟩
  · rintro ⟨⟨rank, h1, h2, h3, h4⟩, hc, hn, hr, hb⟩
    refine ⟨⟨rank, h1, h2, h3, h4⟩, ?_, hn, ?_, hb⟩
    · rintro p k ⟨n, hn, rfl, hk⟩; exact hc n k hn hk
    · intro r h
      refine ⟨(hr r h).1, ?_⟩
      rintro p k ⟨n, hn, rfl, hk⟩; exact (hr r h).2 n k hn hk

/-- **The disconnecting copy establishes the invariant.**  Whenever `copy_and_disconnect_tree` returns (for ANY
input forest): its root is the given root chip, and the lookup satisfies the forest invariant with component
roots = the root and the (pairwise distinct) heads of the broken links. -/
theorem copyAndDisconnect_forest (old : Forest) (root : Chip) (m : Machine) (cs : CopyState)
    (h : copyAndDisconnect old root m = .ok cs) :
    cs.root = some root ∧ L.RInv cs.lookup (root :: cs.broken.map (·.2)) :=
  L.copyAndDisconnect_inv old root m cs h

/-- **One broken link (the body of the repair loop) preserves the invariant** and removes the orphan from the
component roots: A* from the rest of the forest to the orphan `pc.2`, then re-parenting along the detour - new
chips get new nodes, chips of the orphaned subtree the detour runs through are cut from their parent (searched
in the whole lookup: `legacy = false`) and re-hung on the detour.  For every forest satisfying the invariant,
every orphan among its component roots, every A* outcome. -/
theorem repairOne_preserves (m : Machine) (wrap : Bool) (f f' : Forest) (pc : Chip × Chip)
    (path : List (Nat × Chip)) (R R' : List Chip) (hi : L.RInv f R) (hchild : pc.2 ∈ R)
    (hlive : chipOk m pc.2 = true) (hR'n : R'.Nodup) (hR' : ∀ r, r ∈ R' ↔ r ∈ R ∧ r ≠ pc.2)
    (h : repairOne m wrap false f pc = .ok (f', path)) : L.RInv f' R' :=
  L.repairOne_inv hi hchild hlive hR'n hR' h

/-- **`avoidDeadLinks_valid`.**  For every machine (any dead chips / links), net, radius, tape, every processing
order of the broken links and every A* outcome: whenever the model of `route()` with the FIXED repair loop
(`legacy = false`) returns after the dead-link repair ran, the final `{chip: node}` forest unfolds - with the
fuel the driver and the oracle use - to a tree that satisfies ALL clauses of `ValidTree`: rooted at the source
chip, chips pairwise distinct (no node with two parents, no cycle), every hop a working link of a working chip
to the adjacent working chip, leaves exactly the sinks; and every entry of the forest is on the tree (nothing is
left disconnected).  No hypothesis on the input is needed: a run on an ill-formed input ends in a model error. -/
theorem avoidDeadLinks_valid (m : Machine) (src : Chip) (dests : List Chip) (radius : Nat) (t : Tape)
    (order : List (Chip × Chip)) (sinks : List Sink) (r : Result)
    (h : routeNet m src dests radius t order sinks false = .ok r) (hr : r.repaired = true) :
    ∃ tr, toTree r.forest r.leaves (r.forest.length + 1) r.root = some tr ∧ ValidTree m src sinks tr ∧
      ∀ c, c ∈ r.forest.keys → c ∈ tr.chips := by
  obtain ⟨hroot, hinv, hsk⟩ := L.routeNet_repaired_inv m src dests radius t order sinks r h hr
  rw [hroot]
  obtain ⟨tr, htr, hu, hall⟩ := L.rinv_unfolds hinv r.leaves
  have hpart := routeNet_tree_partial m src dests radius t order sinks false r h (r.forest.length + 1) tr
    (by rw [hroot]; exact htr)
  refine ⟨tr, htr, ⟨hu.chip, hu.nodup, ?_, hpart.2, ?_⟩, hall⟩
  · intro c l c' he
    obtain ⟨h1, h2, h3, h4⟩ := hpart.1 c l c' he
    exact ⟨h1, h2, h4 hr, h3⟩
  · intro lf hlf
    have hl := L.routeNet_leaves m src dests radius t order sinks false r h
    rw [← hl] at hlf
    refine hu.leavesAll lf hlf (hall _ ?_)
    rw [hl] at hlf
    simp only [expectedLeaves, List.mem_flatMap, Sink.leaves, List.mem_map] at hlf
    obtain ⟨s, hs, rt, _, rfl⟩ := hlf
    exact hsk s hs

/-- the machine of corpus/C03/f3-two-parents-2x4.json (defect F3) -/
def f3Machine : Machine := ⟨2, 4, [(1, 1)],
  [((0, 0), 1), ((0, 0), 2), ((0, 1), 1), ((0, 1), 2), ((0, 1), 5), ((0, 2), 1), ((0, 2), 3), ((0, 3), 0),
   ((0, 3), 3), ((0, 3), 4), ((1, 0), 4), ((1, 0), 5), ((1, 1), 2), ((1, 1), 4), ((1, 2), 0), ((1, 2), 3),
   ((1, 3), 0), ((1, 3), 3), ((1, 3), 4)]⟩
def f3Sinks : List Sink := [⟨1, (0, 3), 1, 10, 12⟩, ⟨2, (1, 3), 0, 0, 0⟩]
/-- the recorded run of that case: destination order, tape and broken-link order as observed on the real code -/
def f3Run (legacy : Bool) : Except Err Result :=
  routeNet f3Machine (0, 1) [(0, 3), (1, 3)] 0 [812573, 156207, 14521, 1, 283507, 474291]
    [((0, 1), (0, 2)), ((0, 1), (1, 2))] f3Sinks legacy
/-- number of parent links arriving at the node of chip `c` -/
def inDegree (f : Forest) (c : Chip) : Nat := ((f.flatMap (·.2)).filter (fun e => e.2 == c)).length

/-- **The unfixed code really breaks the invariant** (defect F3, why `avoidDeadLinks_valid` is about
`legacy = false`).  On the 2x4 machine of corpus/C03/f3-two-parents-2x4.json, with the recorded tape and orders,
the repair loop that searches the parent only inside `lookup[child]` leaves the node of chip (0, 2) with TWO
parent links (the detour moved its parent (0, 3) out of the orphaned subtree, so the old link is not found and a
second one is added): the unfolded tree contains a chip twice and is not a valid routing tree.  The fixed loop on
the same input gives every node at most one parent link and a valid tree. -/
theorem legacy_two_parents_witness :
    (match f3Run true with
     | .ok r => r.repaired && decide (inDegree r.forest (0, 2) = 2) &&
        (match toTree r.forest r.leaves (r.forest.length + 1) r.root with
         | some t => !validTree f3Machine (0, 1) f3Sinks t && !nodupB t.chips
         | none => false)
     | .error _ => false) = true ∧
    (match f3Run false with
     | .ok r => r.repaired && r.forest.keys.all (fun c => decide (inDegree r.forest c ≤ 1)) &&
        (match toTree r.forest r.leaves (r.forest.length + 1) r.root with
         | some t => validTree f3Machine (0, 1) f3Sinks t
         | none => false)
     | .error _ => false) = true := by decide +kernel

/-! ## Round 3: `route_only_failure` on machines with faults -/

/-- **The disconnecting copy cannot fail on a well-formed tree** rooted at a working chip (no chip is visited
twice: never `dupNode`; the `while to_visit` loop ends within `len + 1` iterations: never `fuel`; the source
is alive: no assertion), and its lookup contains every working chip of the tree. -/
theorem copyAndDisconnect_total (old : Forest) (rank : Chip → Nat) (root : Chip) (m : Machine)
    (hw : L.WF old rank) (hkk : L.ClosedF old) (hrk : root ∈ old.keys) (hnp : L.NoParent old root)
    (hlive : chipOk m root = true) :
    ∃ cs, copyAndDisconnect old root m = .ok cs ∧
      ∀ x, L.Below old root x → chipOk m x = true → x ∈ cs.lookup.keys :=
  L.copyAndDisconnect_total hw hkk hrk hnp hlive

/-- **The body of the repair loop fails only through A\***: with the forest invariant the subtree enumeration
never runs out of fuel, the `Cycle created` assertion never fires, the path is never empty; either the body
succeeds or `a_star` (called with sources that exclude the orphan and contain every other component root)
reported `MachineHasDisconnectedSubregion`. -/
theorem repairOne_only_disconnected (m : Machine) (wrap : Bool) (f : Forest) (pc : Chip × Chip) (R : List Chip)
    (hi : L.RInv f R) (hchild : pc.2 ∈ R) (hlive : chipOk m pc.2 = true) :
    ∃ sources, sources.contains pc.2 = false ∧ (∀ r, r ∈ R → r ≠ pc.2 → r ∈ sources) ∧
      ((∃ f' path, repairOne m wrap false f pc = .ok (f', path)) ∨
       (repairOne m wrap false f pc = .error .disconnected ∧
        aStar pc.2 pc.1 sources m wrap = .error .disconnected)) :=
  L.repairOne_cases hi hchild hlive

/-- **`route_only_failure`, every machine** (fixed repair loop).  For a net whose source and sinks are placed on
working chips (destinations inside the machine, every sink on the source chip or a destination chip), for every
radius, tape and processing order: the only errors of the model of `route()` are
`MachineHasDisconnectedSubregion` and the errors of the model's oracle inputs (tape exhausted / draw out of
range / order not an ordering of the broken links - impossible for recordings of a real run); in particular
never `dupNode`, `KeyError`, `TypeError`, an assertion or exhausted fuel (non-termination).  And
`MachineHasDisconnectedSubregion` is raised only if the machine is not strongly connected. -/
theorem route_only_failure (m : Machine) (src : Chip) (dests : List Chip) (radius : Nat) (t : Tape)
    (order : List (Chip × Chip)) (sinks : List Sink)
    (hs : chipOk m src = true) (hd : ∀ d, d ∈ dests → InRange m d)
    (hsk : ∀ s, s ∈ sinks → (s.chip = src ∨ s.chip ∈ dests) ∧ chipOk m s.chip = true)
    (e : Err) (h : routeNet m src dests radius t order sinks false = .error e) :
    (e = .tape ∨ e = .badDraw ∨ e = .badOracle ∨ e = .disconnected) ∧
    (e = .disconnected → stronglyConnected m = false) :=
  L.routeNet_only_failure m src dests radius t order sinks hs hd hsk e h

/-- **On a strongly connected machine `route()` does not fail** (only an oracle error of the model is left), and
(by `avoidDeadLinks_valid` / `routeNet_tree_partial`) what it returns after a repair is a valid routing tree. -/
theorem route_succeeds_strongly_connected (m : Machine) (hsc : stronglyConnected m = true) (src : Chip)
    (dests : List Chip) (radius : Nat) (t : Tape) (order : List (Chip × Chip)) (sinks : List Sink)
    (hs : chipOk m src = true) (hd : ∀ d, d ∈ dests → InRange m d)
    (hsk : ∀ s, s ∈ sinks → (s.chip = src ∨ s.chip ∈ dests) ∧ chipOk m s.chip = true) :
    (∃ r, routeNet m src dests radius t order sinks false = .ok r) ∨
    (∃ e, routeNet m src dests radius t order sinks false = .error e ∧
      (e = .tape ∨ e = .badDraw ∨ e = .badOracle)) := by
  cases h : routeNet m src dests radius t order sinks false with
  | ok r => exact Or.inl ⟨r, rfl⟩
  | error e =>
    right
    obtain ⟨h1, h2⟩ := route_only_failure m src dests radius t order sinks hs hd hsk e h
    refine ⟨e, rfl, ?_⟩
    rcases h1 with h1 | h1 | h1 | h1
    · exact Or.inl h1
    · exact Or.inr (Or.inl h1)
    · exact Or.inr (Or.inr h1)
    · have := h2 h1; rw [hsc] at this; cases this

/-- non-vacuity: on the 3 x 1 machine with dead chip (1, 0) and dead wrap links the net (0,0) -> (2,0) satisfies
the hypotheses and `route()` reports the machine disconnected -/
example : (match routeNet ⟨3, 1, [(1, 0)], [((2, 0), 0), ((2, 0), 1), ((2, 0), 5), ((2, 0), 2), ((2, 0), 4),
      ((0, 0), 3), ((0, 0), 4), ((0, 0), 2), ((0, 0), 1), ((0, 0), 5)]⟩ (0, 0) [(2, 0)] 1 [0, 0, 0, 0, 0, 0, 0]
      [((0, 0), (2, 0))] [⟨1, (2, 0), 1, 2, 4⟩] false with
      | .error .disconnected => true
      | _ => false) = true ∧
    chipOk ⟨3, 1, [(1, 0)], [((2, 0), 0), ((2, 0), 1), ((2, 0), 5), ((2, 0), 2), ((2, 0), 4),
      ((0, 0), 3), ((0, 0), 4), ((0, 0), 2), ((0, 0), 1), ((0, 0), 5)]⟩ (2, 0) = true := by decide +kernel

/-! ## Round 3: the strong-connectivity oracle is complete -/

/-- **The strong-connectivity oracle is complete.**  If `stronglyConnected m` evaluates to false, there are two
working chips of which the first does not reach the second over working links between working chips (the
breadth-first closure with fuel `w*h + 1` always ends with an empty frontier). -/
theorem stronglyConnected_complete (m : Machine) (hs : stronglyConnected m = false) :
    ∃ a b, chipOk m a = true ∧ chipOk m b = true ∧ ¬ Reach m a b :=
  L.stronglyConnected_complete m hs

/-- the executable predicate decides "every working chip reaches every working chip" -/
theorem stronglyConnected_iff (m : Machine) :
    stronglyConnected m = true ↔ ∀ a b, chipOk m a = true → chipOk m b = true → Reach m a b := by
  constructor
  · intro hs a b ha hb; exact stronglyConnected_sound m hs a b ha hb
  · intro h
    cases hs : stronglyConnected m with
    | true => rfl
    | false =>
      obtain ⟨a, b, ha, hb, hn⟩ := stronglyConnected_complete m hs
      exact absurd (h a b ha hb) hn

/-- **The error clause of the property, for the model**: if `route()` (fixed repair loop) raises
`MachineHasDisconnectedSubregion` on a net placed on working chips, then the machine really has two working
chips of which one cannot reach the other over working links. -/
theorem route_disconnected_is_real (m : Machine) (src : Chip) (dests : List Chip) (radius : Nat) (t : Tape)
    (order : List (Chip × Chip)) (sinks : List Sink)
    (hs : chipOk m src = true) (hd : ∀ d, d ∈ dests → InRange m d)
    (hsk : ∀ s, s ∈ sinks → (s.chip = src ∨ s.chip ∈ dests) ∧ chipOk m s.chip = true)
    (h : routeNet m src dests radius t order sinks false = .error .disconnected) :
    ∃ a b, chipOk m a = true ∧ chipOk m b = true ∧ ¬ Reach m a b :=
  stronglyConnected_complete m ((route_only_failure m src dests radius t order sinks hs hd hsk _ h).2 rfl)

/-- non-vacuity: the 3 x 1 machine above is not strongly connected -/
example : stronglyConnected ⟨3, 1, [(1, 0)], [((2, 0), 0), ((2, 0), 1), ((2, 0), 5), ((2, 0), 2), ((2, 0), 4),
      ((0, 0), 3), ((0, 0), 4), ((0, 0), 2), ((0, 0), 1), ((0, 0), 5)]⟩ = false := by decide +kernel

/-! ## Round 3: every successful run returns a valid routing tree -/

/-- **Childless nodes of the `ner_net` forest are the source or destination chips** (every route hung below the
tree ends at its destination) - any w, h ≥ 1, radius, tape, destination order. -/
theorem nerNet_leaves_are_dests (src : Chip) (dests : List Chip) (w h : Nat) (wrap : Bool) (radius : Nat)
    (t t' : Tape) (f : Forest) (hs : Cross.InBox w h src) (hd : ∀ d, d ∈ dests → Cross.InBox w h d)
    (hn : nerNet src dests w h wrap radius t = .ok (f, t')) :
    ∀ n, n ∈ f → n.2 = [] → n.1 = src ∨ n.1 ∈ dests := by
  have hw : 1 ≤ w := by have := hs.1; have := hs.2.1; omega
  have hh : 1 ≤ h := by have := hs.2.2.1; have := hs.2.2.2; omega
  exact L.nerNet_leaf hw hh hs hd hn

/-- **`routeNet_valid`: every successful run of `route()` (fixed repair loop) returns a valid routing tree**, on
every machine - dead chips and links anywhere, repair entered or not - for every net whose source and
destination chips are working chips, every radius, tape, destination order and broken-link order: the result is
rooted at the source chip and unfolds (with the fuel the driver / oracle use) to a tree satisfying all five
clauses of `ValidTree`.  (That the leaves are exactly the sinks includes: every sink chip is on the tree.) -/
theorem routeNet_valid (m : Machine) (src : Chip) (dests : List Chip) (radius : Nat) (t : Tape)
    (order : List (Chip × Chip)) (sinks : List Sink) (r : Result)
    (hs : chipOk m src = true) (hd : ∀ d, d ∈ dests → chipOk m d = true)
    (h : routeNet m src dests radius t order sinks false = .ok r) :
    r.root = src ∧
    ∃ tr, toTree r.forest r.leaves (r.forest.length + 1) r.root = some tr ∧ ValidTree m src sinks tr := by
  cases hr : r.repaired with
  | true =>
    obtain ⟨tr, h1, h2, _⟩ := avoidDeadLinks_valid m src dests radius t order sinks r h hr
    exact ⟨(L.routeNet_repaired_inv m src dests radius t order sinks r h hr).1, tr, h1, h2⟩
  | false => exact L.routeNet_unrepaired_valid m src dests radius t order sinks false r hs hd h hr

/-- non-vacuity of the unrepaired case on a machine with faults: 3x3 with a dead chip and dead links off the route -/
example : (match routeNet ⟨3, 3, [(2, 2)], [((1, 1), 0), ((0, 2), 3)]⟩ (0, 0) [(1, 0)] 1 [0, 0, 0, 0, 0, 0, 0] []
      [⟨1, (1, 0), 1, 2, 4⟩] false with
    | .ok r => !r.repaired && (toTree r.forest r.leaves 10 r.root).isSome
    | .error _ => false) = true := by decide +kernel

/-! ## Round 4: all nets of one `route()` call -/

/-- **`routeNets_independent`.**  The model of the whole `for net in nets` loop succeeds with results `rs` exactly
when, net by net, the body `routeNet` run on that net's OWN inputs (source chip, destination chips, radius,
broken-link order, sink vertices) and on that net's tape (`tapes`: the tape of the call minus the draws of the
nets before it) succeeds with the corresponding result: nothing else is carried from one net to the next - no
tree, no lookup, no leaf. -/
theorem routeNets_independent (m : Machine) (legacy : Bool) (nets : List NetIn) (t : Tape) (rs : List Result) :
    routeNets m legacy nets t = .ok rs ↔
    List.Forall₂ (fun (nt : NetIn × Tape) r =>
      routeNet m nt.1.src nt.1.dests nt.1.radius nt.2 nt.1.order nt.1.sinks legacy = .ok r)
      (nets.zip (tapes m nets t)) rs :=
  L.routeNets_forall2 nets t rs

/-- the driver's trace of the loop (results before the first failing net) is the loop -/
theorem routeNetsRun_eq (m : Machine) (legacy : Bool) (nets : List NetIn) (t : Tape) :
    routeNets m legacy nets t =
      (match routeNetsRun m legacy nets t with
       | (rs, none) => .ok rs
       | (_, some e) => .error e) :=
  L.routeNetsRun_eq nets t

/-- the result `r` is a valid routing tree for net `n` (given that the net is placed on working chips) -/
def NetValid (m : Machine) (n : NetIn) (r : Result) : Prop :=
  chipOk m n.src = true → (∀ d, d ∈ n.dests → chipOk m d = true) →
    r.root = n.src ∧ ∃ tr, toTree r.forest r.leaves (r.forest.length + 1) r.root = some tr ∧
      ValidTree m n.src n.sinks tr

/-- **Every net of a successful call gets a valid routing tree for ITS OWN sinks** (fixed repair loop, any
machine): rooted at its source chip, chips distinct, live hops, leaves exactly its own sink vertices with their
cores / endpoint routes - provided its source and destination chips are working chips. -/
theorem routeNets_valid (m : Machine) (nets : List NetIn) (t : Tape) (rs : List Result)
    (h : routeNets m false nets t = .ok rs) : List.Forall₂ (NetValid m) nets rs := by
  have h1 := (routeNets_independent m false nets t rs).1 h
  have hlen : (tapes m nets t).length = nets.length := by
    clear h h1
    induction nets generalizing t with
    | nil => rfl
    | cons n rest ih => simp [tapes, ih]
  have h2 : List.Forall₂ (fun (nt : NetIn × Tape) (r : Result) => NetValid m nt.1 r)
      (nets.zip (tapes m nets t)) rs :=
    List.Forall₂.imp
      (fun nt r hr hs hd => routeNet_valid m nt.1.src nt.1.dests nt.1.radius nt.2 nt.1.order nt.1.sinks r hs hd hr)
      h1
  have h3 := (List.forall₂_map_left_iff (f := Prod.fst) (R := NetValid m)).2 h2
  rwa [List.map_fst_zip (by omega)] at h3

/-- **`route_only_failure` for a call with several nets**: the call fails only with an error one of its nets
produces, hence (nets placed on working chips) only with `MachineHasDisconnectedSubregion` or an oracle error,
and never with the former on a strongly connected machine. -/
theorem routeNets_only_failure (m : Machine) (nets : List NetIn) (t : Tape) (e : Err)
    (hn : ∀ n, n ∈ nets → chipOk m n.src = true ∧ (∀ d, d ∈ n.dests → InRange m d) ∧
      ∀ s, s ∈ n.sinks → (s.chip = n.src ∨ s.chip ∈ n.dests) ∧ chipOk m s.chip = true)
    (h : routeNets m false nets t = .error e) :
    (e = .tape ∨ e = .badDraw ∨ e = .badOracle ∨ e = .disconnected) ∧
    (e = .disconnected → stronglyConnected m = false) := by
  obtain ⟨n, t', hmem, he⟩ := L.routeNets_error nets t e h
  obtain ⟨h1, h2, h3⟩ := hn n hmem
  exact route_only_failure m n.src n.dests n.radius t' n.order n.sinks h1 h2 h3 e he

/-- non-vacuity: two nets between the same chips with different sink vertices / cores, in one call -/
example : (match routeNets ⟨3, 3, [], [((0, 0), 0)]⟩ false
      [⟨(0, 0), [(1, 0)], 1, [((0, 0), (1, 0))], [⟨1, (1, 0), 1, 2, 4⟩]⟩,
       ⟨(0, 0), [(1, 0)], 1, [((0, 0), (1, 0))], [⟨2, (1, 0), 1, 5, 6⟩]⟩]
      [0, 0, 0, 0, 0, 0, 0, 0, 0, 0, 0, 0, 0, 0] with
    | .ok rs => decide (rs.length = 2) && rs.all (fun r => r.repaired)
    | .error _ => false) = true := by decide +kernel

/-! ## Round 5: how a sink is attached (endpoint constraint before allocated cores) -/

/-- **Sink attachment.**  `route()` attaches a sink that has a RouteEndpointConstraint with exactly the constrained
route, whatever its allocation says (cores present, an empty slice, no core resource, no entry); otherwise a sink
whose allocation has the core resource gets exactly one leaf per core of the slice (none for an empty slice);
otherwise one leaf without a route. -/
theorem sinkAttach_precedence (s : SinkSpec) :
    s.resolve.routes =
      (match s.endpoint, s.cores with
       | some r, _ => [some r]
       | none, some (a, b) => (List.range (b - a)).map fun i => some (coreRouteBase + (a + i))
       | none, none => [none]) ∧
    s.resolve.v = s.v ∧ s.resolve.chip = s.chip := by
  rcases s with ⟨v, c, _ | r, _ | ⟨a, b⟩⟩ <;> simp [SinkSpec.resolve, Sink.routes]

end Rig.C03
