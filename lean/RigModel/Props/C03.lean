/-
C03 - routing trees are loop-free, connected, use only live hardware.
Property theorems only; the proofs are in RigModel/Lemmas/C03*.lean.

What is proved here is about the model RigModel/Model/C03.lean (tied to the code by the
correspondence harness):  the decision procedure that is run as oracle on every tree the real
router returns is exactly the declarative property; a valid tree physically connects the source to
every sink; A* paths; liveness of the disconnecting copy; hop geometry of the LDF walk.
NOT proved (validated per case by the oracle): chip-distinctness / connectedness after the repair
loop (`avoidDeadLinks_valid`, false on the unrepaired code: defect F3), `nerNet_valid` in full,
`aStar_complete`, absence of the non-`Disconnected` model errors.
-/
import RigModel.Model.C03
import RigModel.Lemmas.C03Tree
import RigModel.Lemmas.C03AStar
import RigModel.Lemmas.C03Copy
import RigModel.Lemmas.C03Ner
import RigModel.Lemmas.C03Repair
set_option linter.unusedSimpArgs false
set_option linter.unusedVariables false

namespace Rig.C03
open Rig.Gen.C03Links

/-- the generated link tables are the documented hexagonal link geometry -/
theorem link_tables :
    linkOrder = [0, 1, 2, 3, 4, 5] ∧ linkVecKeys = [0, 1, 2, 3, 4, 5] ∧ linkRoutes = linkOrder ∧
    (∀ l, l < 6 → fromVec (vec l) = some l) ∧
    (∀ l, l < 6 → opp l = (l + 3) % 6) ∧
    (∀ l, l < 6 → vec (opp l) = (-(vec l).1, -(vec l).2)) ∧
    coreRouteBase = 6 := by
  decide

/-- **Decision procedure = property.**  The executable `validTree` (the oracle applied to every tree
returned by the real `route()`) holds exactly when the declarative `ValidTree` does. -/
theorem validTree_iff (m : Machine) (src : Chip) (sinks : List Sink) (t : Tree) :
    validTree m src sinks t = true ↔ ValidTree m src sinks t :=
  L.validTree_iff m src sinks t

/-- **Connected.**  In a valid tree every sink's chip is physically reachable from the source chip
over working links between working chips. -/
theorem validTree_connects (m : Machine) (src : Chip) (sinks : List Sink) (t : Tree)
    (h : ValidTree m src sinks t) :
    ∀ s, s ∈ sinks → s.routes ≠ [] → Reach m src s.chip :=
  L.validTree_connects m src sinks t h

example : ValidTree ⟨2, 2, [], []⟩ (0, 0) [⟨1, (1, 0), 1, 3, 5⟩]
    (.node (0, 0) [(0, .node (1, 0) [] [(some 9, 1), (some 10, 1)])] []) :=
  (validTree_iff _ _ _ _).1 (by decide)

/-- **A\* path.**  Whatever `a_star` returns is a chain of working links that starts at a chip of
`sources`, passes through no other chip of `sources`, and whose last link arrives at `sink`. -/
theorem aStar_path (m : Machine) (sink hsrc : Chip) (sources : List Chip) (wrap : Bool)
    (path : List (Nat × Chip)) (hsink : InRange m sink)
    (h : aStar sink hsrc sources m wrap = .ok path) : pathOk m sources sink path = true :=
  L.aStar_path m sink hsrc sources wrap path hsink h

/-- a detour around the dead chip (1,0) on a 3x3 machine whose right-hand wrap links are dead -/
example : (aStar (0, 0) (2, 0) [(2, 0), (2, 1)]
      ⟨3, 3, [(1, 0)], [((2, 0), 0), ((2, 0), 1), ((2, 1), 0), ((2, 2), 1), ((2, 1), 1)]⟩ false).toOption
      = some [(3, (2, 1)), (4, (1, 1))]
    ∧ InRange ⟨3, 3, [(1, 0)], [((2, 0), 0), ((2, 0), 1), ((2, 1), 0), ((2, 2), 1), ((2, 1), 1)]⟩ (0, 0) := by
  refine ⟨by decide, ?_⟩
  unfold InRange
  decide

/-- **Copy keeps only live hardware.**  Every node of the forest built by `copy_and_disconnect_tree`
is a working chip and every edge it keeps is a working link to the adjacent working chip. -/
theorem copyAndDisconnect_live (old : Forest) (root : Chip) (m : Machine) (cs : CopyState)
    (h : copyAndDisconnect old root m = .ok cs) : ForestLive m cs.lookup :=
  L.copyAndDisconnect_live old root m cs h

/-- **LDF walk.**  `n` steps in a unit direction are `n` consecutive hops over the link named by the
direction (coordinates reduced modulo the machine size after every step). -/
theorem walk_hops (m : Machine) (dir : Nat) (dx dy : Int) (hdir : dir < 6) (hv : vec dir = (dx, dy))
    (n : Nat) (pos : Chip) : hopsFrom m pos (walk m.w m.h dir dx dy n pos) = true :=
  L.walk_hops m dir dx dy hdir hv n pos

/-- the whole longest-dimension-first route, for every vector and every random tie-break, is a chain of
hops that starts at `start` -/
theorem ldf_hops (m : Machine) (v : V3) (start : Chip) (t t' : Tape) (p : List (Nat × Chip))
    (h : ldf v start m.w m.h t = .ok (p, t')) : hopsFrom m start p = true :=
  L.ldf_hops m v start t t' p h

example : (ldf (2, 0, -1) (0, 0) 3 3 [5, 5, 5]).toOption = some ([(0, (1, 0)), (0, (2, 0)), (1, (0, 1))], []) := by
  decide

/- Full statement aimed at (DESIGN 3/C03), NOT proved:
   theorem nerNet_valid : on the fault-free w×h machine (mesh or torus, w,h ≥ 1), for all tapes, radii and
   destination orders, `nerNet src dests w h wrap radius t = .ok (f, _)` and `toTree f leaves n src = some t`
   imply `ValidTree m src sinks t`.
   Proved part: the geometry clause of `hops` for every edge, on every machine size, both topologies,
   every radius, destination order and tape.  Missing: chip-distinctness (needs "a shortest-vector walk never
   revisits a chip", i.e. C11's distance theorem), in-bounds on the mesh, connectedness of the forest. -/
/-- **NER edges (part of `nerNet_valid`).**  Every edge `(parent, l, child)` of the forest `ner_net` builds
satisfies `l < 6` and `child = parent + vec l (mod w, h)`. -/
theorem nerNet_edges_partial (m : Machine) (src : Chip) (dests : List Chip) (wrap : Bool) (radius : Nat)
    (t t' : Tape) (f : Forest) (h : nerNet src dests m.w m.h wrap radius t = .ok (f, t')) : ForestHops m f :=
  L.nerNet_hops m src dests wrap radius t t' f h

/-- **Repair uses only live hardware.**  Whenever the dead-link repair ran (copy + A* reconnection of every
broken link, in ANY processing order, with or without fixes/c03-avoid-dead-links-parent.diff), every node of
the resulting forest is a working chip and every edge a working link to the adjacent working chip. -/
theorem routeNet_repaired_live (m : Machine) (src : Chip) (dests : List Chip) (radius : Nat) (t : Tape)
    (order : List (Chip × Chip)) (sinks : List Sink) (legacy : Bool) (r : Result)
    (h : routeNet m src dests radius t order sinks legacy = .ok r) (hr : r.repaired = true) :
    ForestLive m r.forest :=
  L.routeNet_repaired_live m src dests radius t order sinks legacy r h hr

/- Full statement aimed at (DESIGN 3/C03), NOT proved (and false for `legacy = true`, defect F3):
   theorem routeNet_valid : routeNet m src dests radius t order sinks false = .ok r →
     (placements on working chips, dests = chips of the sinks) →
     toTree r.forest r.leaves n r.root = some t → ValidTree m src sinks t
   Proved part below: the clauses `hops` (the target chip being a working chip only when the repair ran) and
   `leaves_sound` of `ValidTree`, for every machine, net, radius, tape and order.
   Missing: `distinct` (the forest invariant of the repair loop, one parent per node / no cycle), `rooted`
   and `leaves_complete` (every sink chip is reachable from the root in the forest). -/
/-- **Every hop of every tree the model of `route()` returns follows a working link of a working chip to the
adjacent chip, and every leaf is an expected leaf.** -/
theorem routeNet_tree_partial (m : Machine) (src : Chip) (dests : List Chip) (radius : Nat) (t : Tape)
    (order : List (Chip × Chip)) (sinks : List Sink) (legacy : Bool) (r : Result)
    (h : routeNet m src dests radius t order sinks legacy = .ok r)
    (fuel : Nat) (tr : Tree) (ht : toTree r.forest r.leaves fuel r.root = some tr) :
    (∀ c l c', (c, l, c') ∈ tr.edges →
        l < 6 ∧ linkOk m c l = true ∧ c' = step m c l ∧ (r.repaired = true → chipOk m c' = true)) ∧
    (∀ lf, lf ∈ tr.leafList → lf ∈ expectedLeaves sinks) := by
  constructor
  · intro c l c' he
    obtain ⟨n, hn, hn1, hn2⟩ := L.toTree_edges fuel r.root tr ht _ he
    simp only at hn1 hn2
    have h1 := L.routeNet_links m src dests radius t order sinks legacy r h n hn _ hn2
    rw [hn1] at h1
    refine ⟨h1.1, h1.2.1, h1.2.2, ?_⟩
    intro hr
    have h2 := ((L.routeNet_repaired_live m src dests radius t order sinks legacy r h hr) n hn).2 _ hn2
    exact h2.2.2.1
  · intro lf hlf
    rw [← L.routeNet_leaves m src dests radius t order sinks legacy r h]
    exact L.toTree_leaves fuel r.root tr ht lf hlf

/-- non-vacuity: a repaired net on a 3x3 machine with a dead link on the direct route -/
example : (match routeNet ⟨3, 3, [], [((0, 0), 0)]⟩ (0, 0) [(1, 0)] 1 [0, 0, 0, 0, 0, 0, 0] [((0, 0), (1, 0))]
      [⟨1, (1, 0), 1, 2, 4⟩] false with
    | .ok r => r.repaired && (toTree r.forest r.leaves 10 r.root).isSome
    | .error _ => false) = true := by decide +kernel

end Rig.C03
