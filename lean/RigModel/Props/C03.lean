/-
C03 - routing trees are loop-free, connected, use only live hardware.
Property theorems only; the proofs are in RigModel/Lemmas/C03*.lean.

What is proved here is about the model RigModel/Model/C03.lean (tied to the code by the
correspondence harness):  the decision procedure that is run as oracle on every tree the real
router returns is exactly the declarative property; a valid tree physically connects the source to
every sink; A* paths; liveness of the disconnecting copy; hop geometry of the LDF walk.
NOT proved (validated per case by the oracle): chip-distinctness / connectedness after the repair
loop (`avoidDeadLinks_valid`, false on the unrepaired code: defect F3), `nerNet_valid` in full,
`aStar_complete`, absence of the non-`Disconnected` model errors.
-/
import RigModel.Model.C03
import RigModel.Lemmas.C03Tree
import RigModel.Lemmas.C03AStar
import RigModel.Lemmas.C03Copy
set_option linter.unusedSimpArgs false
set_option linter.unusedVariables false

namespace Rig.C03
open Rig.Gen.C03Links

/-- the generated link tables are the documented hexagonal link geometry -/
theorem link_tables :
    linkOrder = [0, 1, 2, 3, 4, 5] ∧ linkVecKeys = [0, 1, 2, 3, 4, 5] ∧ linkRoutes = linkOrder ∧
    (∀ l, l < 6 → fromVec (vec l) = some l) ∧
    (∀ l, l < 6 → opp l = (l + 3) % 6) ∧
    (∀ l, l < 6 → vec (opp l) = (-(vec l).1, -(vec l).2)) ∧
    coreRouteBase = 6 := by
  decide

/-- **Decision procedure = property.**  The executable `validTree` (the oracle applied to every tree
returned by the real `route()`) holds exactly when the declarative `ValidTree` does. -/
theorem validTree_iff (m : Machine) (src : Chip) (sinks : List Sink) (t : Tree) :
    validTree m src sinks t = true ↔ ValidTree m src sinks t :=
  L.validTree_iff m src sinks t

/-- **Connected.**  In a valid tree every sink's chip is physically reachable from the source chip
over working links between working chips. -/
theorem validTree_connects (m : Machine) (src : Chip) (sinks : List Sink) (t : Tree)
    (h : ValidTree m src sinks t) :
    ∀ s, s ∈ sinks → s.routes ≠ [] → Reach m src s.chip :=
  L.validTree_connects m src sinks t h

example : ValidTree ⟨2, 2, [], []⟩ (0, 0) [⟨1, (1, 0), 1, 3, 5⟩]
    (.node (0, 0) [(0, .node (1, 0) [] [(some 9, 1), (some 10, 1)])] []) :=
  (validTree_iff _ _ _ _).1 (by decide)

/-- **A\* path.**  Whatever `a_star` returns is a chain of working links that starts at a chip of
`sources`, passes through no other chip of `sources`, and whose last link arrives at `sink`. -/
theorem aStar_path (m : Machine) (sink hsrc : Chip) (sources : List Chip) (wrap : Bool)
    (path : List (Nat × Chip)) (hsink : InRange m sink)
    (h : aStar sink hsrc sources m wrap = .ok path) : pathOk m sources sink path = true :=
  L.aStar_path m sink hsrc sources wrap path hsink h

/-- a detour around the dead chip (1,0) on a 3x3 machine whose right-hand wrap links are dead -/
example : (aStar (0, 0) (2, 0) [(2, 0), (2, 1)]
      ⟨3, 3, [(1, 0)], [((2, 0), 0), ((2, 0), 1), ((2, 1), 0), ((2, 2), 1), ((2, 1), 1)]⟩ false).toOption
      = some [(3, (2, 1)), (4, (1, 1))]
    ∧ InRange ⟨3, 3, [(1, 0)], [((2, 0), 0), ((2, 0), 1), ((2, 1), 0), ((2, 2), 1), ((2, 1), 1)]⟩ (0, 0) := by
  refine ⟨by decide, ?_⟩
  unfold InRange
  decide

/-- **Copy keeps only live hardware.**  Every node of the forest built by `copy_and_disconnect_tree`
is a working chip and every edge it keeps is a working link to the adjacent working chip. -/
theorem copyAndDisconnect_live (old : Forest) (root : Chip) (m : Machine) (cs : CopyState)
    (h : copyAndDisconnect old root m = .ok cs) : ForestLive m cs.lookup :=
  L.copyAndDisconnect_live old root m cs h

end Rig.C03
