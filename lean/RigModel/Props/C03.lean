/-
C03 - routing trees are loop-free, connected, use only live hardware.
-/
import RigModel.Model.C03
set_option linter.unusedSimpArgs false
set_option linter.unusedVariables false

namespace Rig.C03
open Rig.Gen.C03Links

/-- the generated link tables are the documented hexagonal link geometry -/
theorem link_tables :
    linkOrder = [0, 1, 2, 3, 4, 5] ∧ linkVecKeys = [0, 1, 2, 3, 4, 5] ∧ linkRoutes = linkOrder ∧
    (∀ l, l < 6 → fromVec (vec l) = some l) ∧
    (∀ l, l < 6 → opp l = (l + 3) % 6) ∧
    (∀ l, l < 6 → vec (opp l) = (-(vec l).1, -(vec l).2)) ∧
    coreRouteBase = 6 := by
  decide

end Rig.C03
