/-
C15 - translator tie: the encoders and the SDP decoder of rig/machine_control/packets.py are regenerated from the
source into `Gen/PyFun.lean` (a packet object = its attributes, passed as state; `struct.pack` / `struct.unpack_from`
with literal formats = `pyStructPack` / `pyStructUnpackFrom` on byte lists, with their `struct.error`) and proved
equal to the model functions the C15 theorems are about:
  `SDPPacket.bytestring` = `encodeSDP`, `SCPPacket.packed_data` = `packedData`, `SCPPacket.bytestring` (the
  inherited method with SCPPacket's `packed_data`) = `encodeSCP`, `_unpack_sdp_into_packet` = `decodeSDP`,
for ALL attribute values (naturals; a missing argument is `none`) - including which packets are refused.
-/
import RigModel.Model.C15
import RigModel.Gen.PyFun
import RigModel.Lemmas.IntBits
import Mathlib.Tactic.SplitIfs
set_option linter.unusedSimpArgs false
set_option linter.unusedVariables false
set_option linter.unusedTactic false
set_option linter.unreachableTactic false

namespace Rig.C15
open Rig.Gen Rig.Gen.Packets Rig.IntBits

/-- a byte string of the model as the Python `bytes` value -/
def bytesInt (d : List Nat) : List Int := d.map (fun (n : Nat) => (n : Int))

/-- the model's outcome as the Python outcome -/
def excStr {α β : Type} (f : α → β) : Except Err α → Except String β
  | .ok v => .ok (f v)
  | .error .structError => .error "struct.error"

/-! ### the `struct` subset on naturals -/

theorem pack_nil (big : Bool) : PyFun.pyStructPack big [] [] = .ok [] := rfl

theorem pack_x (big : Bool) (fs : List PyFun.PyFmt) (vs : List Int) :
    PyFun.pyStructPack big (PyFun.PyFmt.x :: fs) vs = (PyFun.pyStructPack big fs vs).map (fun r => (0 : Int) :: r) := by
  cases vs <;> rfl

theorem pack_B (fs : List PyFun.PyFmt) (n : Nat) (vs : List Int) :
    PyFun.pyStructPack false (PyFun.PyFmt.B :: fs) ((n : Int) :: vs)
      = if n < 256 then (PyFun.pyStructPack false fs vs).map (fun r => (n : Int) :: r) else .error "struct.error" := by
  rw [PyFun.pyStructPack]
  swap
  · intro hx; cases hx
  by_cases h : n < 256
  · have : (0 : Int) ≤ (n : Int) ∧ (n : Int).toNat < 256 ^ PyFun.PyFmt.B.size := by
      simp only [PyFun.PyFmt.size]; omega
    rw [if_pos this, if_pos h]
    have e : PyFun.pyLeBytes PyFun.PyFmt.B.size (n : Int) = [(n : Int)] := by
      simp only [PyFun.PyFmt.size, PyFun.pyLeBytes, List.cons.injEq, and_true]; omega
    simp only [e, Bool.false_eq_true, if_false, List.singleton_append]
  · have : ¬ ((0 : Int) ≤ (n : Int) ∧ (n : Int).toNat < 256 ^ PyFun.PyFmt.B.size) := by
      simp only [PyFun.PyFmt.size]; omega
    rw [if_neg this, if_neg h]

theorem pack_H (fs : List PyFun.PyFmt) (n : Nat) (vs : List Int) :
    PyFun.pyStructPack false (PyFun.PyFmt.H :: fs) ((n : Int) :: vs)
      = if n < 65536 then (PyFun.pyStructPack false fs vs).map (fun r => bytesInt (le16 n) ++ r)
        else .error "struct.error" := by
  rw [PyFun.pyStructPack]
  swap
  · intro hx; cases hx
  by_cases h : n < 65536
  · have : (0 : Int) ≤ (n : Int) ∧ (n : Int).toNat < 256 ^ PyFun.PyFmt.H.size := by
      simp only [PyFun.PyFmt.size]; omega
    rw [if_pos this, if_pos h]
    have e : PyFun.pyLeBytes PyFun.PyFmt.H.size (n : Int) = bytesInt (le16 n) := by
      simp only [PyFun.PyFmt.size, PyFun.pyLeBytes, bytesInt, le16, List.map_cons, List.map_nil, List.cons.injEq,
        and_true]
      constructor <;> omega
    simp only [e, Bool.false_eq_true, if_false]
  · have : ¬ ((0 : Int) ≤ (n : Int) ∧ (n : Int).toNat < 256 ^ PyFun.PyFmt.H.size) := by
      simp only [PyFun.PyFmt.size]; omega
    rw [if_neg this, if_neg h]

theorem pack_I (fs : List PyFun.PyFmt) (n : Nat) (vs : List Int) :
    PyFun.pyStructPack false (PyFun.PyFmt.I :: fs) ((n : Int) :: vs)
      = if n < 4294967296 then (PyFun.pyStructPack false fs vs).map (fun r => bytesInt (le32 n) ++ r)
        else .error "struct.error" := by
  rw [PyFun.pyStructPack]
  swap
  · intro hx; cases hx
  by_cases h : n < 4294967296
  · have : (0 : Int) ≤ (n : Int) ∧ (n : Int).toNat < 256 ^ PyFun.PyFmt.I.size := by
      simp only [PyFun.PyFmt.size]; omega
    rw [if_pos this, if_pos h]
    have e : PyFun.pyLeBytes PyFun.PyFmt.I.size (n : Int) = bytesInt (le32 n) := by
      simp only [PyFun.PyFmt.size, PyFun.pyLeBytes, bytesInt, le32, List.map_cons, List.map_nil, List.cons.injEq,
        and_true]
      refine ⟨?_, ?_, ?_, ?_⟩ <;> omega
    simp only [e, Bool.false_eq_true, if_false]
  · have : ¬ ((0 : Int) ≤ (n : Int) ∧ (n : Int).toNat < 256 ^ PyFun.PyFmt.I.size) := by
      simp only [PyFun.PyFmt.size]; omega
    rw [if_neg this, if_neg h]

/-- `(port & 0x7) << 5 | (cpu & 0x1f)` on the Python ints of naturals -/
theorem portCpu_int (port cpu : Nat) :
    Int.lor ((Int.land (port : Int) 7) <<< ((5 : Int)).toNat) (Int.land (cpu : Int) 31) = ((portCpu port cpu : Nat) : Int) := by
  simp (disch := decide) only [portCpu, lit_natCast, land_natCast, lor_natCast, shl_natCast, Int.toNat_natCast]

theorem portCpu_def' (port cpu : Nat) : (cpu &&& 31) ||| ((port &&& 7) <<< 5) = portCpu port cpu := by
  rw [Nat.lor_comm]; rfl

theorem portCpu_def (port cpu : Nat) : ((port &&& 7) <<< 5) ||| (cpu &&& 31) = portCpu port cpu := rfl

/-- the port/cpu byte, however its two halves are ordered in the source, as the cast of the model's `portCpu` -/
macro "port_cpu" : tactic => `(tactic|
  simp (disch := decide) only [lit_natCast, land_natCast, lor_natCast, shl_natCast, Int.toNat_natCast, portCpu_def,
    portCpu_def'])

theorem portCpu_lt (port cpu : Nat) : portCpu port cpu < 256 := by
  unfold portCpu
  have h1 : port &&& 7 ≤ 7 := Nat.and_le_right
  have h2 : cpu &&& 31 ≤ 31 := Nat.and_le_right
  have h3 : (port &&& 7) <<< 5 < 2 ^ 8 := by rw [Nat.shiftLeft_eq]; omega
  have h4 : cpu &&& 31 < 2 ^ 8 := by omega
  exact Nat.or_lt_two_pow h3 h4

/-! ### encoders -/

/-- the attributes of an SDP packet as the generated definitions return them (unchanged) -/
def sdpState (p : SDP) : Bool × Int × Int × Int × Int × Int × Int × Int × Int × Int × List Int :=
  (p.reply, (p.tag : Int), (p.destPort : Int), (p.destCpu : Int), (p.srcPort : Int), (p.srcCpu : Int),
   (p.destX : Int), (p.destY : Int), (p.srcX : Int), (p.srcY : Int), bytesInt p.data)

theorem bytesInt_append (a b : List Nat) : bytesInt (a ++ b) = bytesInt a ++ bytesInt b := by simp [bytesInt]

/-- `SDPPacket.packed_data` as written in the source is the data -/
theorem gen_sdp_packed_data (p : SDP) :
    PyFun.SDPPacket_packed_data p.reply p.tag p.destPort p.destCpu p.srcPort p.srcCpu p.destX p.destY p.srcX p.srcY
        (bytesInt p.data) = (bytesInt p.data, sdpState p) := rfl

/-- the 10 header bytes: generated `struct.pack('<2x8B', ...)` = the model's chain of `packB` -/
theorem header_pack (p : SDP) (rest : List Nat) :
    (PyFun.pyStructPack false
      [PyFun.PyFmt.x, PyFun.PyFmt.x, PyFun.PyFmt.B, PyFun.PyFmt.B, PyFun.PyFmt.B, PyFun.PyFmt.B, PyFun.PyFmt.B,
       PyFun.PyFmt.B, PyFun.PyFmt.B, PyFun.PyFmt.B]
      [(((if p.reply then FLAG_REPLY else FLAG_NO_REPLY : Nat)) : Int), (p.tag : Int),
       ((portCpu p.destPort p.destCpu : Nat) : Int), ((portCpu p.srcPort p.srcCpu : Nat) : Int),
       (p.destY : Int), (p.destX : Int), (p.srcY : Int), (p.srcX : Int)]).map (fun h => h ++ bytesInt rest)
      = excStr bytesInt (encodeHeader p rest) := by
  simp only [pack_x, pack_B, pack_nil, encodeHeader, packB, bind, Except.bind, pure, Except.pure]
  have hfl : (if p.reply then FLAG_REPLY else FLAG_NO_REPLY) < 256 := by cases p.reply <;> decide
  have hd := portCpu_lt p.destPort p.destCpu
  have hs := portCpu_lt p.srcPort p.srcCpu
  simp only [hfl, hd, hs, if_true]
  by_cases h1 : p.tag < 256
  swap
  · simp only [h1, if_false, Except.map, excStr]
  by_cases h2 : p.destY < 256
  swap
  · simp only [h1, h2, if_true, if_false, Except.map, excStr]
  by_cases h3 : p.destX < 256
  swap
  · simp only [h1, h2, h3, if_true, if_false, Except.map, excStr]
  by_cases h4 : p.srcY < 256
  swap
  · simp only [h1, h2, h3, h4, if_true, if_false, Except.map, excStr]
  by_cases h5 : p.srcX < 256
  swap
  · simp only [h1, h2, h3, h4, h5, if_true, if_false, Except.map, excStr]
  simp only [h1, h2, h3, h4, h5, if_true, Except.map, excStr]
  simp [bytesInt]

/-- `SDPPacket.bytestring` as written in the source = the model's `encodeSDP`, for all attribute values -/
theorem gen_sdp_bytestring (p : SDP) :
    PyFun.SDPPacket_bytestring p.reply p.tag p.destPort p.destCpu p.srcPort p.srcCpu p.destX p.destY p.srcX p.srcY
        (bytesInt p.data)
      = excStr (fun b => (bytesInt b, sdpState p)) (encodeSDP p) := by
  unfold PyFun.SDPPacket_bytestring PyFun.SDPPacket_packed_data encodeSDP
  have hf : (if p.reply = true then (135 : Int) else 7) = (((if p.reply then FLAG_REPLY else FLAG_NO_REPLY : Nat)) : Int) := by
    cases p.reply <;> rfl
  rw [hf]
  port_cpu
  have := header_pack p p.data
  revert this
  generalize PyFun.pyStructPack false _ _ = r
  intro this
  cases r with
  | error e =>
    cases h : encodeHeader p p.data with
    | error e' =>
      cases e'; rw [h] at this; simp only [Except.map, excStr, Except.error.injEq] at this ⊢; exact this
    | ok v => rw [h] at this; simp [Except.map, excStr] at this
  | ok hd =>
    cases h : encodeHeader p p.data with
    | error e' => rw [h] at this; cases e'; simp [Except.map, excStr] at this
    | ok v =>
      rw [h] at this
      simp only [Except.map, excStr, Except.ok.injEq] at this ⊢
      rw [this]; rfl

/-- an optional argument as the Python value (`None` / int) -/
def optI : Option Nat → Option Int
  | none => none
  | some a => some (a : Int)

def scpState (p : SCP) :
    Bool × Int × Int × Int × Int × Int × Int × Int × Int × Int × List Int × Int × Int × Option Int × Option Int × Option Int :=
  (p.hdr.reply, (p.hdr.tag : Int), (p.hdr.destPort : Int), (p.hdr.destCpu : Int), (p.hdr.srcPort : Int),
   (p.hdr.srcCpu : Int), (p.hdr.destX : Int), (p.hdr.destY : Int), (p.hdr.srcX : Int), (p.hdr.srcY : Int),
   bytesInt p.hdr.data, (p.cmd : Int), (p.seq : Int), optI p.arg1, optI p.arg2, optI p.arg3)

/-- (the command and sequence number enter as integer variables equal to the casts: unfolding the generated
definition at a cast literal sends the kernel into a deep recursion) -/
theorem scp_packed_data_aux (hdr : SDP) (cmd seq : Nat) (a1 a2 a3 : Option Nat) (ci si : Int)
    (hc : ci = (cmd : Int)) (hs : si = (seq : Int)) :
    PyFun.SCPPacket_packed_data hdr.reply hdr.tag hdr.destPort hdr.destCpu hdr.srcPort hdr.srcCpu
        hdr.destX hdr.destY hdr.srcX hdr.srcY (bytesInt hdr.data) ci si (optI a1) (optI a2) (optI a3)
      = excStr (fun b => (bytesInt b, scpState ⟨hdr, cmd, seq, a1, a2, a3⟩)) (packedData ⟨hdr, cmd, seq, a1, a2, a3⟩) := by
  unfold PyFun.SCPPacket_packed_data packedData
  subst hc hs
  simp only [pack_H, pack_nil, packH, bind, Except.bind, pure, Except.pure, Except.map]
  by_cases h1 : cmd < 65536
  swap
  · simp only [h1, if_false, excStr]
  by_cases h2 : seq < 65536
  swap
  · simp only [h1, h2, if_true, if_false, excStr]
  simp only [h1, h2, if_true]
  rcases a1 with _ | v1 <;> rcases a2 with _ | v2 <;> rcases a3 with _ | v3 <;>
    simp only [optI, packArg, packI, pack_I, pack_nil, Except.map] <;>
    (try split_ifs) <;>
    simp [excStr, scpState, bytesInt, optI]

/-- `SCPPacket.packed_data` as written in the source = the model's `packedData`, for all attribute values -/
theorem gen_scp_packed_data (p : SCP) :
    PyFun.SCPPacket_packed_data p.hdr.reply p.hdr.tag p.hdr.destPort p.hdr.destCpu p.hdr.srcPort p.hdr.srcCpu
        p.hdr.destX p.hdr.destY p.hdr.srcX p.hdr.srcY (bytesInt p.hdr.data) p.cmd p.seq (optI p.arg1) (optI p.arg2)
        (optI p.arg3)
      = excStr (fun b => (bytesInt b, scpState p)) (packedData p) := by
  obtain ⟨hdr, cmd, seq, a1, a2, a3⟩ := p
  exact scp_packed_data_aux hdr cmd seq a1 a2 a3 _ _ rfl rfl

/-- `SCPPacket.bytestring` (the method inherited from `SDPPacket`, with SCPPacket's `packed_data`) as written in
the source = the model's `encodeSCP`, for all attribute values (Python packs the header first and the payload
second, the model the other way round: the outcome is the same, both failures are `struct.error`) -/
theorem gen_scp_bytestring (p : SCP) :
    PyFun.SCPPacket_bytestring p.hdr.reply p.hdr.tag p.hdr.destPort p.hdr.destCpu p.hdr.srcPort p.hdr.srcCpu
        p.hdr.destX p.hdr.destY p.hdr.srcX p.hdr.srcY (bytesInt p.hdr.data) p.cmd p.seq (optI p.arg1) (optI p.arg2)
        (optI p.arg3)
      = excStr (fun b => (bytesInt b, scpState p)) (encodeSCP p) := by
  unfold PyFun.SCPPacket_bytestring encodeSCP
  have hf : (if p.hdr.reply = true then (135 : Int) else 7)
      = (((if p.hdr.reply then FLAG_REPLY else FLAG_NO_REPLY : Nat)) : Int) := by
    cases p.hdr.reply <;> rfl
  rw [hf]
  port_cpu
  rw [gen_scp_packed_data]
  simp only [bind, Except.bind]
  cases hd : packedData p with
  | error e =>
    cases e
    simp only [excStr]
    have := header_pack p.hdr []
    revert this
    generalize PyFun.pyStructPack false _ _ = r
    intro this
    cases r with
    | ok v => rfl
    | error a =>
      cases h : encodeHeader p.hdr [] with
      | error e' => cases e'; rw [h] at this; simp only [Except.map, excStr, Except.error.injEq] at this; rw [this]
      | ok v => rw [h] at this; simp [Except.map, excStr] at this
  | ok d =>
    simp only [excStr]
    have := header_pack p.hdr d
    revert this
    generalize PyFun.pyStructPack false _ _ = r
    intro this
    cases r with
    | error e =>
      cases h : encodeHeader p.hdr d with
      | error e' =>
        cases e'; rw [h] at this; simp only [Except.map, excStr, Except.error.injEq] at this ⊢; exact this
      | ok v => rw [h] at this; simp [Except.map, excStr] at this
    | ok hd' =>
      cases h : encodeHeader p.hdr d with
      | error e' => rw [h] at this; cases e'; simp [Except.map, excStr] at this
      | ok v =>
        rw [h] at this
        simp only [Except.map, excStr, Except.ok.injEq] at this ⊢
        rw [this]
        rfl

/-! ### the SDP decoder -/

/-- `b[n:]` -/
theorem pySlice_from (l : List Int) (z : Int) (hz : 0 ≤ z) (h : z ≤ (l.length : Int)) :
    PyFun.pySlice l z (l.length : Int) = l.drop z.toNat := by
  unfold PyFun.pySlice
  have h1 : ¬ (z < 0) := by omega
  have h2 : ¬ ((l.length : Int) < 0) := by omega
  simp only [h1, h2, if_false]
  have e1 : (min z (l.length : Int)).toNat = z.toNat := by omega
  have e2 : (min (l.length : Int) (l.length : Int) - min z (l.length : Int)).toNat = l.length - z.toNat := by omega
  rw [e1, e2]
  apply List.take_of_length_le
  simp

/-- `_unpack_sdp_into_packet` as written in the source = the model's `decodeSDP` (the attributes the packet had
before are irrelevant; byte strings shorter than the 10-byte header are refused with `struct.error`) -/
theorem gen_unpack_sdp (q : SDP) (bs : List Nat) :
    PyFun.unpack_sdp_into_packet q.reply q.tag q.destPort q.destCpu q.srcPort q.srcCpu q.destX q.destY q.srcX q.srcY
        (bytesInt q.data) (bytesInt bs)
      = excStr sdpState (decodeSDP bs) := by
  unfold PyFun.unpack_sdp_into_packet decodeSDP PyFun.pyStructUnpackFrom
  match bs with
  | a0 :: a1 :: f :: t :: d :: s :: dy :: dx :: sy :: sx :: rest =>
    rw [pySlice_from _ 10 (by decide) (by simp [bytesInt]; omega)]
    have hsz : PyFun.pyStructSize [PyFun.PyFmt.x, PyFun.PyFmt.x, PyFun.PyFmt.B, PyFun.PyFmt.B, PyFun.PyFmt.B,
        PyFun.PyFmt.B, PyFun.PyFmt.B, PyFun.PyFmt.B, PyFun.PyFmt.B, PyFun.PyFmt.B] = 10 := rfl
    have hl : ¬ ((0 : Int) < 0 ∨
        (((bytesInt (a0 :: a1 :: f :: t :: d :: s :: dy :: dx :: sy :: sx :: rest)).length : Nat) : Int) - 0 < ((10 : Nat) : Int)) := by
      simp [bytesInt]; omega
    simp only [hsz, Int.lt_irrefl, if_false, hl]
    simp [bytesInt, PyFun.pyStructValues, PyFun.PyFmt.size, PyFun.pyLeValue, excStr, sdpState, FLAG_REPLY]
    rw [if_neg (by omega)]
    simp
    refine ⟨?_, rfl, rfl⟩
    rw [Bool.eq_iff_iff]; simp only [decide_eq_true_eq, beq_iff_eq]; omega
  | [] | [_] | [_, _] | [_, _, _] | [_, _, _, _] | [_, _, _, _, _] | [_, _, _, _, _, _] | [_, _, _, _, _, _, _]
  | [_, _, _, _, _, _, _, _] | [_, _, _, _, _, _, _, _, _] =>
    simp [bytesInt, PyFun.pyStructSize, PyFun.PyFmt.size, excStr]

/-- `SDPPacket.from_bytestring` as written in the source (`packet = cls()`, the attributes the constructor leaves
are irrelevant) = the model's `decodeSDP` -/
theorem gen_sdp_from_bytestring (q : SDP) (bs : List Nat) :
    PyFun.SDPPacket_from_bytestring q.reply q.tag q.destPort q.destCpu q.srcPort q.srcCpu q.destX q.destY q.srcX q.srcY
        (bytesInt q.data) (bytesInt bs)
      = excStr sdpState (decodeSDP bs) := by
  unfold PyFun.SDPPacket_from_bytestring
  rw [gen_unpack_sdp]
  cases decodeSDP bs with
  | error e => cases e; rfl
  | ok p => rfl

/-- one 32-bit argument read at a byte offset inside the data -/
theorem unpack_I (data : List Nat) (k : Nat) (h : k + 4 ≤ data.length) :
    PyFun.pyStructUnpackFrom false [PyFun.PyFmt.I] (bytesInt data) (k : Int)
      = .ok [((word32 ((data.drop k).take 4) : Nat) : Int)] := by
  unfold PyFun.pyStructUnpackFrom
  have h1 : ¬ ((k : Int) < 0) := by omega
  have hsz : PyFun.pyStructSize [PyFun.PyFmt.I] = 4 := rfl
  have h2 : ¬ ((k : Int) < 0 ∨ (((bytesInt data).length : Nat) : Int) - (k : Int) < ((4 : Nat) : Int)) := by
    simp only [bytesInt, List.length_map]; omega
  simp only [h1, if_false, hsz, h2, Int.toNat_natCast]
  have hl : 4 ≤ (data.drop k).length := by rw [List.length_drop]; omega
  have hd : (bytesInt data).drop k = bytesInt (data.drop k) := by simp [bytesInt]
  rw [hd]
  match hm : data.drop k, hl with
  | a :: b :: c :: d :: rest, _ =>
    simp [bytesInt, PyFun.pyStructValues, PyFun.PyFmt.size, PyFun.pyLeValue, word32]
    rw [if_neg (by omega)]
    refine congrArg Except.ok (congrArg (fun x => [x]) ?_)
    omega

theorem unpack_HH (c0 c1 s0 s1 : Nat) (rest : List Nat) :
    PyFun.pyStructUnpackFrom false [PyFun.PyFmt.H, PyFun.PyFmt.H] (bytesInt (c0 :: c1 :: s0 :: s1 :: rest)) 0
      = .ok [((c0 + 256 * c1 : Nat) : Int), ((s0 + 256 * s1 : Nat) : Int)] := by
  unfold PyFun.pyStructUnpackFrom
  have hsz : PyFun.pyStructSize [PyFun.PyFmt.H, PyFun.PyFmt.H] = 4 := rfl
  have h2 : ¬ ((0 : Int) < 0 ∨ (((bytesInt (c0 :: c1 :: s0 :: s1 :: rest)).length : Nat) : Int) - 0 < ((4 : Nat) : Int)) := by
    simp only [bytesInt, List.length_map, List.length_cons]; omega
  simp only [Int.lt_irrefl, if_false, hsz, h2]
  simp [bytesInt, PyFun.pyStructValues, PyFun.PyFmt.size, PyFun.pyLeValue]
  try omega

/-- `data[off:]` for an offset inside the data -/
theorem pySlice_drop (data : List Nat) (k : Nat) (h : k ≤ data.length) :
    PyFun.pySlice (bytesInt data) (k : Int) (((bytesInt data).length : Nat) : Int) = bytesInt (data.drop k) := by
  rw [pySlice_from _ _ (by omega) (by simp [bytesInt]; omega)]
  simp [bytesInt]

/-- `SCPPacket.from_bytestring` as written in the source (the fresh packet has no arguments; its other attributes
are irrelevant) = the model's `decodeSCP`: which byte strings are refused, command and sequence number, how many
arguments are decoded for the given `n_args` and length, and what remains as data -/
theorem gen_scp_from_bytestring (q : SDP) (c0 s0 : Int) (bs : List Nat) (nArgs : Nat) :
    PyFun.SCPPacket_from_bytestring q.reply q.tag q.destPort q.destCpu q.srcPort q.srcCpu q.destX q.destY q.srcX q.srcY
        (bytesInt q.data) c0 s0 none none none (bytesInt bs) (nArgs : Int)
      = excStr scpState (decodeSCP bs nArgs) := by
  unfold PyFun.SCPPacket_from_bytestring decodeSCP
  rw [gen_unpack_sdp]
  cases hp : decodeSDP bs with
  | error e => cases e; rfl
  | ok p =>
    simp only [excStr, sdpState, bind, Except.bind, pure, Except.pure]
    match hd : p.data with
    | [] | [_] | [_, _] | [_, _, _] =>
      simp [PyFun.pyStructUnpackFrom, PyFun.pyStructSize, PyFun.PyFmt.size, bytesInt, excStr]
    | a0 :: a1 :: b0 :: b1 :: data =>
      rw [unpack_HH]
      have hs4 : PyFun.pySlice (bytesInt (a0 :: a1 :: b0 :: b1 :: data)) 4
          (((bytesInt (a0 :: a1 :: b0 :: b1 :: data)).length : Nat) : Int) = bytesInt data := by
        have := pySlice_drop (a0 :: a1 :: b0 :: b1 :: data) 4 (by simp)
        simpa using this
      simp only [hs4, List.getD_cons_zero, List.getD_cons_succ]
      have hlen : ((bytesInt data).length : Int) = (data.length : Int) := by simp [bytesInt]
      rw [hlen]
      have c1 : ((nArgs : Int) ≥ 1 ∧ (data.length : Int) ≥ 4) ↔ (nArgs ≥ 1 ∧ data.length ≥ 4) := by omega
      have c1' : ((data.length : Int) ≥ 4 ∧ (nArgs : Int) ≥ 1) ↔ (nArgs ≥ 1 ∧ data.length ≥ 4) := by omega
      have c2 : ((nArgs : Int) ≥ 2 ∧ (data.length : Int) ≥ 8) ↔ (nArgs ≥ 2 ∧ data.length ≥ 8) := by omega
      have c2' : ((data.length : Int) ≥ 8 ∧ (nArgs : Int) ≥ 2) ↔ (nArgs ≥ 2 ∧ data.length ≥ 8) := by omega
      have c3 : ((nArgs : Int) ≥ 3 ∧ (data.length : Int) ≥ 12) ↔ (nArgs ≥ 3 ∧ data.length ≥ 12) := by omega
      have c3' : ((data.length : Int) ≥ 12 ∧ (nArgs : Int) ≥ 3) ↔ (nArgs ≥ 3 ∧ data.length ≥ 12) := by omega
      simp only [c1, c1', c2, c2', c3, c3']
      by_cases h1 : nArgs ≥ 1 ∧ data.length ≥ 4
      · skip
        have u1 := unpack_I data 0 (by omega)
        simp only [Nat.cast_zero] at u1
        simp only [h1, and_self, if_true, u1, List.getD_cons_zero]
        by_cases h2 : nArgs ≥ 2 ∧ data.length ≥ 8
        · skip
          have u2 := unpack_I data 4 (by omega)
          have e4 : (0 : Int) + 4 = ((4 : Nat) : Int) := rfl
          simp only [h2, and_self, if_true, e4, u2, List.getD_cons_zero]
          by_cases h3 : nArgs ≥ 3 ∧ data.length ≥ 12
          · skip
            have u3 := unpack_I data 8 (by omega)
            have e8 : ((4 : Nat) : Int) + 4 = ((8 : Nat) : Int) := rfl
            have e12 : ((8 : Nat) : Int) + 4 = ((12 : Nat) : Int) := rfl
            simp only [h3, and_self, if_true, e8, e12, u3, List.getD_cons_zero]
            rw [← hlen, pySlice_drop data 12 (by omega)]
            simp [excStr, scpState, optI, bytesInt, hd]
          · skip
            have e8 : ((4 : Nat) : Int) + 4 = ((8 : Nat) : Int) := rfl
            simp only [h3, if_false, e8]
            rw [← hlen, pySlice_drop data 8 (by omega)]
            simp [excStr, scpState, optI, bytesInt, hd]
        · skip
          have e4 : (0 : Int) + 4 = ((4 : Nat) : Int) := rfl
          simp only [h2, if_false, e4]
          rw [← hlen, pySlice_drop data 4 (by omega)]
          simp [excStr, scpState, optI, bytesInt, hd]
      · skip
        simp only [h1, if_false]
        have e0 : (0 : Int) = ((0 : Nat) : Int) := rfl
        rw [← hlen, e0, pySlice_drop data 0 (by omega)]
        simp [excStr, scpState, optI, bytesInt, hd]

end Rig.C15
