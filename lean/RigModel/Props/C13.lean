/-
C13 - file-like memory views behave as bounded files and stay in their region.
-/
import RigModel.Model.C13
set_option linter.unusedSimpArgs false
set_option linter.unusedVariables false

namespace Rig.C13

end Rig.C13
