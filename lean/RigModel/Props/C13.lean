/-
C13 - file-like memory views behave as bounded files and stay in their region.
Property theorems (helper lemmas and the long case analyses are in RigModel/Lemmas/C13.lean).

The model is the code WITH fixes/c13-memoryio-confinement.diff applied; the witnesses
`orig_read_escapes_below` / `orig_write_escapes_above` show that the code before that patch
violates confinement, `fix_conservative` that the patch changes nothing while the position is
inside the view, `seek_end_sign` states the known finding about `seek(n, 2)`.

All theorems quantify over every world (any number of views, any memory, any flags), so
"for every history" statements follow for the worlds reachable from a fresh `MemoryIO`
(`mkRoot`, `allocAsFilelike`, `allocForVertex`) through `step_WF`.
-/
import RigModel.Lemmas.C13
set_option linter.unusedSimpArgs false
set_option linter.unusedVariables false

namespace Rig.C13

/-! ## Confinement -/

/-- **Confinement, one call.** Whatever the state of the world (positions anywhere, any
nesting of slices), a controller access issued by a call on view `op.target` is a non-empty
range inside that view's `[start, stop)`, on the allocation's chip, through core 0; the only
`sdram_free` is issued by the owner (view 0) for its own start address. -/
theorem step_confined (w : World) (op : Op) (a : Access) (h : (step w op).2.access = some a) :
    ∃ v, w.views[op.target]? = some v ∧ Confined w.x w.y v a ∧
      (∀ addr x y, a = .free addr x y → op.target = 0) :=
  step_confined_lem w op a h

/-- a fresh `MemoryIO(start, stop)` satisfies the invariant for `[start, max start stop)` -/
theorem mkRoot_WF (x y : Nat) (start stop : Int) (m : Mem) :
    WF start (max start stop) (mkRoot x y start stop m) := by
  refine ⟨⟨mkView start stop, rfl, rfl, rfl⟩, ?_⟩
  intro v hv
  simp only [mkRoot, List.mem_singleton] at hv
  subst hv
  simp only [Within, mkView]; omega

/-- **Slices of slices stay inside the allocation**: the invariant "view 0 spans `[lo, hi)` and
every view (to any slicing depth) is a well-formed range inside it" is preserved by every call. -/
theorem step_WF (lo hi : Int) (w : World) (op : Op) (h : WF lo hi w) : WF lo hi (step w op).1 :=
  step_WF_lem lo hi w op h

theorem step_in_alloc (lo hi : Int) (w : World) (op : Op) (hwf : WF lo hi w) (a : Access)
    (h : (step w op).2.access = some a) : Confined w.x w.y ⟨lo, hi, 0, false⟩ a := by
  obtain ⟨v, hv, hc, hfree⟩ := step_confined w op a h
  obtain ⟨⟨r, hr, hrs, hre⟩, hall⟩ := hwf
  refine Confined_mono _ _ lo hi v a (hall v (List.mem_of_getElem? hv)) ?_ hc
  intro ad x' y' e
  have h0 := hfree ad x' y' e
  rw [h0, hr] at hv
  cases hv
  exact hrs

theorem run_in_alloc (lo hi : Int) (ops : List Op) : ∀ (w : World), WF lo hi w →
    ∀ o ∈ (run w ops).1, ∀ a, o.access = some a → Confined w.x w.y ⟨lo, hi, 0, false⟩ a := by
  induction ops with
  | nil => intro w _ o ho; simp [run] at ho
  | cons op ops ih =>
    intro w hwf o ho a ha
    simp only [run, List.mem_cons] at ho
    rcases ho with ho | ho
    · subst ho; exact step_in_alloc lo hi w op hwf a ha
    · have := ih (step w op).1 (step_WF lo hi w op hwf) o ho a ha
      rw [(step_xy w op).1, (step_xy w op).2] at this
      exact this

/-- **Confinement, all histories.** -/
theorem run_confined (x y : Nat) (start stop : Int) (m : Mem) (ops : List Op) :
    ∀ o ∈ (run (mkRoot x y start stop m) ops).1, ∀ a, o.access = some a →
      Confined x y ⟨start, max start stop, 0, false⟩ a :=
  run_in_alloc start (max start stop) ops _ (mkRoot_WF x y start stop m)

/-- the same for views obtained from `sdram_alloc_as_filelike(size)` / `sdram_alloc_for_vertices`
(allocation at `base`): every access lies in `[base, base + size)` -/
theorem run_confined_alloc (x y : Nat) (base size : Int) (hs : 0 ≤ size) (m : Mem) (ops : List Op) :
    ∀ o ∈ (run (allocAsFilelike x y base size m) ops).1, ∀ a, o.access = some a →
      Confined x y ⟨base, base + size, 0, false⟩ a := by
  have h := run_confined x y base (base + size) m ops
  have hm : max base (base + size) = base + size := by omega
  rw [hm] at h
  exact h

/-! ## Slices -/

/-- **A slice covers exactly the clipped sub-range it names**: `view[a:b]` (step `None` or 1)
creates, without touching memory or any existing view, a new open view at position 0 whose range
is `view.start + [lo, lo + max 0 (hi - lo))` where `(lo, hi, 1) = slice(a, b).indices(len(view))`
as CPython computes them (on a live view; on a closed view / freed allocation slicing raises
OSError: `dead_after_close`, `no_access_after_free`). -/
theorem slice_exact (w : World) (i : Nat) (v : View) (a b st : Option Int)
    (hv : w.views[i]? = some v) (hlive : dead w v = false) (hwf : v.start ≤ v.stop)
    (hst : st = none ∨ st = some 1) :
    step w (.slice i a b st) =
      ({ w with views := w.views ++ [specSlice v a b] }, ⟨.view w.views.length, false, none⟩) := by
  unfold step
  simp only [Op.target, hv, stepView, doSlice, doSliceOrig, hlive, Bool.false_eq_true, if_false, hst, if_true]
  rw [slice_bounds_exact v hwf a b]

/-- the named sub-range lies inside the parent view (also for negative, reversed and
out-of-range bounds) -/
theorem slice_within_parent (v : View) (h : v.start ≤ v.stop) (a b : Option Int) :
    Within v.start v.stop (specSlice v a b) := by
  rw [← slice_bounds_exact v h a b]
  exact slice_within_parent_lem v h a b

/-- any other step is rejected -/
theorem slice_step_rejected (w : World) (i : Nat) (v : View) (a b : Option Int) (s : Int)
    (hv : w.views[i]? = some v) (hlive : dead w v = false) (hs : s ≠ 1) :
    step w (.slice i a b (some s)) = (w, ⟨.err .valueError, false, none⟩) := by
  unfold step
  simp [Op.target, hv, stepView, doSlice, doSliceOrig, hlive, hs, fail]

/-! ## Bounded file -/

/-- **Bounded file.** Every read / write / seek / tell / flush / address on a live view
(except `seek(n, 2)` with `n ≠ 0`, finding `seek-from-end-sign`) does exactly what the same
call does on a fixed-length file holding the bytes of the view's range: same return value,
truncation warning exactly when fewer bytes are transferred than requested, position advanced
by the bytes transferred, the view's bytes afterwards are the file's bytes, one controller
access of exactly the transferred bytes at the position (none when nothing is transferred),
every address outside the view's range keeps its content, no other view changes.
This includes calls whose transfer FAILS (`readFail`, `writeFail`: the controller raises): the
controller's error is raised, the position does not move, a failed read delivers nothing, a
failed write leaves in the view exactly the bytes the machine stored before the fault. -/
theorem step_refines_file (w : World) (op : Op) (v : View) (hv : w.views[op.target]? = some v)
    (hlive : dead w v = false) (hwf : v.start ≤ v.stop) (hio : op.isIO = true)
    (hk : ∀ i n, op = .seek i n 2 → n = 0) :
    ∃ s, specIO v (absFile w.mem v) op = some s ∧ Refines w op.target v s (step w op) := by
  unfold step
  rw [hv]
  cases op with
  | read i n => exact read_refines w i v n hv hlive hwf
  | write i d => exact write_refines w i v d hv hlive hwf
  | readFail i n => exact readFail_refines w i v n hv hlive hwf
  | writeFail i d j => exact writeFail_refines w i v d j hv hlive hwf
  | seek i n wh => exact seek_refines w i v n wh hv hlive hwf (fun h => hk i n (by rw [h]))
  | tell i =>
    refine ⟨_, rfl, ?_⟩
    simp only [stepView, hlive, Bool.false_eq_true, if_false, done]
    exact ⟨by simp [specAccess, absFile], (set_self _ _ _ hv).symm, rfl, fun _ _ => rfl, rfl, rfl, rfl⟩
  | address i =>
    refine ⟨_, rfl, ?_⟩
    simp only [stepView, hlive, Bool.false_eq_true, if_false, done]
    exact ⟨by simp [specAccess, absFile, View.address, Int.add_comm], (set_self _ _ _ hv).symm, rfl,
      fun _ _ => rfl, rfl, rfl, rfl⟩
  | flush i =>
    refine ⟨_, rfl, ?_⟩
    simp only [stepView, hlive, Bool.false_eq_true, if_false, done]
    exact ⟨by simp [specAccess], (set_self _ _ _ hv).symm, rfl, fun _ _ => rfl, rfl, rfl, rfl⟩
  | _ => simp [Op.isIO] at hio

/-- **Bounded file, whole histories.** Any sequence of reads, writes, seeks (from start / current,
or from the end with offset 0), tells and flushes on one live view returns, call by call, exactly
what the same sequence returns on a fixed-length file initialised with the bytes of the view's
range (values, truncation warnings; positions through `tell`). -/
theorem run_refines_file (ops : List Op) : ∀ (w : World) (i : Nat) (v : View),
    w.views[i]? = some v → dead w v = false → v.start ≤ v.stop →
    (∀ op ∈ ops, op.isIO = true ∧ op.target = i ∧ ∀ j n, op = .seek j n 2 → n = 0) →
    (run w ops).1.map (fun o => (o.ret, o.warn)) = specRun v (absFile w.mem v).data ops := by
  induction ops with
  | nil => intro w i v _ _ _ _; rfl
  | cons op ops ih =>
    intro w i v hv hlive hwf hall
    obtain ⟨hio, ht, hk⟩ := hall op (List.mem_cons_self ..)
    subst ht
    obtain ⟨s, hs, hout, hviews, hdata, _, hfreed, _, _⟩ := step_refines_file w op v hv hlive hwf hio hk
    obtain ⟨hps, hpe, hpc⟩ := specIO_post v _ op s hs
    have hlt : op.target < w.views.length := by
      rcases Nat.lt_or_ge op.target w.views.length with h | h
      · exact h
      · rw [List.getElem?_eq_none h] at hv; cases hv
    have hv' : (step w op).1.views[op.target]? = some s.post := by
      rw [hviews, List.getElem?_set]; simp [hlt]
    have hlive' : dead (step w op).1 s.post = false := by
      unfold dead at *; rw [hfreed, hpc]; exact hlive
    have := ih (step w op).1 op.target s.post hv' hlive' (by omega)
      (fun o ho => hall o (List.mem_cons_of_mem _ ho))
    have hf : absFile w.mem v = ⟨(absFile w.mem v).data, v.offset⟩ := rfl
    rw [hf] at hs
    simp only [run, List.map_cons, specRun, hs, this, hdata, hout]

/-- **A failed read moves nothing** (any world, any position, live or dead view): when the
controller's read raises, the world is exactly what it was - position, bounds, flags of every view
and memory - and the call either raised the controller's error or no transfer was needed and it is
an ordinary `read`. -/
theorem failed_read_moves_nothing (w : World) (i : Nat) (n : Int) :
    (step w (.readFail i n)).1 = w ∧
    ((step w (.readFail i n)).2.ret = .err .transferError ∨ step w (.readFail i n) = step w (.read i n)) := by
  unfold step
  simp only [Op.target]
  split
  · exact ⟨rfl, Or.inr rfl⟩
  · rename_i v hv
    simp only [stepView, doReadFail, doRead, fail]
    generalize readCount v n = rc
    obtain ⟨wn, k⟩ := rc
    simp only
    split
    · exact ⟨rfl, Or.inr rfl⟩
    · split
      · exact ⟨rfl, Or.inr rfl⟩
      · exact ⟨rfl, Or.inl rfl⟩

/-- **A failed write moves nothing**: when the controller's write raises after storing the first
`j` bytes it was handed, no view changes (position, bounds, flags), the allocation is not freed,
and memory outside the view's range is untouched (what the machine stored lies inside it). -/
theorem failed_write_moves_nothing (w : World) (i : Nat) (d : List Nat) (j : Nat) :
    (step w (.writeFail i d j)).1.views = w.views ∧ (step w (.writeFail i d j)).1.freed = w.freed ∧
    (∀ v, w.views[i]? = some v → ∀ a, a < v.start ∨ v.stop ≤ a →
      (step w (.writeFail i d j)).1.mem a = w.mem a) ∧
    ((step w (.writeFail i d j)).2.ret = .err .transferError ∨
      step w (.writeFail i d j) = step w (.write i d)) := by
  unfold step
  simp only [Op.target]
  split
  · exact ⟨rfl, rfl, fun _ _ _ _ => rfl, Or.inr rfl⟩
  · rename_i v hv
    simp only [stepView, doWriteFail, doWrite, fail]
    have hle := writeData_le v d
    generalize writeData v d = rc at hle
    obtain ⟨wn, d'⟩ := rc
    simp only at hle ⊢
    split
    · exact ⟨rfl, rfl, fun _ _ _ _ => rfl, Or.inr rfl⟩
    · split
      · exact ⟨rfl, rfl, fun _ _ _ _ => rfl, Or.inr rfl⟩
      · refine ⟨rfl, rfl, ?_, Or.inl rfl⟩
        intro u hu a ha
        rw [hv] at hu
        cases hu
        rename_i hne _
        have hpos : 0 < d'.length := by omega
        have hp := available_pos v (by omega)
        have hlj : (d'.take j).length ≤ d'.length := by simp; omega
        apply writeMem_outside
        unfold View.address at *
        omega

/-- **A failed free frees nothing**: when the controller's `sdram_free` raises, the world is
exactly what it was (the allocation is not marked freed, every view stays usable, `free()` can be
called again); the call raised the controller's error or never reached the controller. -/
theorem failed_free_moves_nothing (w : World) (i : Nat) :
    (step w (.freeFail i)).1 = w ∧
    ((step w (.freeFail i)).2.ret = .err .transferError ∨ step w (.freeFail i) = step w (.free i)) := by
  unfold step
  simp only [Op.target]
  split
  · exact ⟨rfl, Or.inr rfl⟩
  · simp only [stepView, doFreeFail, doFree, fail]
    split
    · exact ⟨rfl, Or.inr rfl⟩
    · split
      · exact ⟨rfl, Or.inr rfl⟩
      · exact ⟨rfl, Or.inl rfl⟩

/-- a read that advanced the position before the transfer would break this: the failed
`read(4)` at position 4 of a 24-byte view leaves the position at 8 although nothing was
transferred; the code (and the file specification) leave it at 4 -/
theorem early_offset_update_breaks_failed_read :
    let w : World := ⟨1, 2, false, [⟨1000, 1024, 4, false⟩], fun _ => 0⟩
    let v : View := ⟨1000, 1024, 4, false⟩
    (doReadFailEarly w 0 v 4).1.views = [⟨1000, 1024, 8, false⟩] ∧
    (step w (.readFail 0 4)).1.views = [v] ∧
    (step w (.readFail 0 4)).2 = ⟨.err .transferError, false, some (.read 1004 4 1 2 0)⟩ ∧
    (specIO v ⟨List.replicate 24 0, 4⟩ (.readFail 0 4)).map (·.post) = some v := by
  decide

/-- **Reads return the bytes last written** (through whichever view they were written):
memory holds the written bytes at the written addresses and is unchanged elsewhere. -/
theorem read_back (m : Mem) (a : Int) (d : List Nat) :
    readMem (writeMem m a d) a d.length = d ∧
    ∀ x, x < a ∨ a + (d.length : Int) ≤ x → writeMem m a d x = m x :=
  ⟨read_after_write m a d, fun x h => writeMem_outside m a d x h⟩

/-- the oracle's linear cut of the observed window is the file of the view (`absFile`) whenever the
view's range lies inside the window -/
theorem absFileWin_eq (base : Int) (before : List Nat) (v : View)
    (h : base ≤ v.start ∧ v.start ≤ v.stop ∧ v.stop ≤ base + (before.length : Int)) :
    absFileWin base before v = absFile (winMem base before) v := by
  unfold absFileWin absFile
  congr 1
  apply List.ext_getElem?
  intro i
  rw [readMem_getElem?, List.getElem?_take, List.getElem?_drop]
  unfold View.len at *
  by_cases hi : i < (v.stop - v.start).toNat
  · simp only [hi, if_true]
    have hlt : (v.start - base).toNat + i < before.length := by omega
    have hb : base ≤ v.start + (i : Int) := by omega
    have he : (v.start + (i : Int) - base).toNat = (v.start - base).toNat + i := by omega
    simp only [winMem, hb, if_true, he, List.getD, List.getElem?_eq_getElem hlt, Option.getD_some]
  · simp only [hi, if_false]

/-! ## Closed views and freed allocations -/

/-- `close()` on a live view closes it -/
theorem close_closes (w : World) (i : Nat) (v : View) (hv : w.views[i]? = some v) (hf : w.freed = false) :
    ClosedAt (step w (.close i)).1 i := by
  have hlt : i < w.views.length := by
    rcases Nat.lt_or_ge i w.views.length with h | h
    · exact h
    · rw [List.getElem?_eq_none h] at hv; cases hv
  unfold step
  simp only [Op.target, hv, stepView, doClose, dead, hf, Bool.or_false]
  by_cases hc : v.closed = true
  · simp only [hc, if_true, done]; exact ⟨v, hv, hc⟩
  · simp only [hc, if_false, done, setView]
    exact ⟨{ v with closed := true }, by simp [List.getElem?_set, hlt], rfl⟩

/-- **Closed views are dead**: once view `i` is closed, after any further history every
read / write / seek / tell / flush / address on it AND every slicing of it (`view[a:b:s]`,
`view[k]`) raises OSError, changes nothing (no new view) and issues no controller access. -/
theorem dead_after_close (w : World) (i : Nat) (h : ClosedAt w i) (ops : List Op) (op : Op)
    (hio : op.mustFail = true) (ht : op.target = i) :
    step (run w ops).2 op = ((run w ops).2, ⟨.err .osError, false, none⟩) := by
  obtain ⟨v, hv, hc⟩ := run_closedAt ops w i h
  exact step_dead _ op v (by rw [ht]; exact hv) (by simp [dead, hc]) hio

/-- `free()` on the live owner frees the allocation (one `sdram_free` of its start) -/
theorem free_frees (w : World) (r : View) (hr : w.views[0]? = some r) (hf : w.freed = false) :
    (step w (.free 0)).1.freed = true ∧
    (step w (.free 0)).2 = ⟨.none, false, some (.free r.start w.x w.y)⟩ := by
  unfold step
  simp [Op.target, hr, stepView, doFree, hf]

/-- **Freed allocations are dead**: once the owner is freed, after any further history
(i) no call on any view of the allocation ever issues a controller access again and
(ii) every read / write / seek / tell / flush / address on any view and every slicing of any
view raises OSError (and creates no view). -/
theorem no_access_after_free (w : World) (h : w.freed = true) (ops : List Op) :
    (∀ o ∈ (run w ops).1, o.access = none) ∧
    (∀ op v, (run w ops).2.views[op.target]? = some v → op.mustFail = true →
      step (run w ops).2 op = ((run w ops).2, ⟨.err .osError, false, none⟩)) := by
  constructor
  · induction ops generalizing w with
    | nil => intro o ho; simp [run] at ho
    | cons op ops ih =>
      intro o ho
      simp only [run, List.mem_cons] at ho
      rcases ho with ho | ho
      · subst ho; exact step_freed_noaccess w op h
      · exact ih _ (step_freed w op h) o ho
  · intro op v hv hio
    exact step_dead _ op v hv (by simp [dead, run_freed ops w h]) hio

/-! ## With-blocks, and calls made while TruncationWarning is an error -/

/-- **Leaving a with-block closes the view, however the block was left** (normally or through an
exception; as `io.BytesIO` and real files do): `__exit__` is `close()`. -/
theorem exit_block_is_close (w : World) (i : Nat) (raised : Bool) :
    step w (.exitBlock i raised) = step w (.close i) := by
  unfold step
  simp only [Op.target]
  split <;> rfl

/-- ... so after a with-block on a live view - left normally or by an exception - the view is dead
for the rest of any history: every read / write / seek / tell / flush / address / slicing on it
raises OSError, changes nothing and issues no controller access. -/
theorem dead_after_block (w : World) (i : Nat) (v : View) (raised : Bool) (hv : w.views[i]? = some v)
    (hf : w.freed = false) (ops : List Op) (op : Op) (hio : op.mustFail = true) (ht : op.target = i) :
    step (run (step w (.exitBlock i raised)).1 ops).2 op =
      ((run (step w (.exitBlock i raised)).1 ops).2, ⟨.err .osError, false, none⟩) := by
  rw [exit_block_is_close]
  exact dead_after_close _ i (close_closes w i v hv hf) ops op hio ht

/-- entering a block does nothing (and is not guarded by the code) -/
theorem enter_is_noop (w : World) (i : Nat) (v : View) (hv : w.views[i]? = some v) :
    step w (.enter i) = (w, ⟨.view i, false, none⟩) := by
  unfold step
  simp [Op.target, hv, stepView, done]

theorem strictFails_eq_warn (w : World) (op : Op) (v : View) (hv : w.views[op.target]? = some v) :
    strictFails w v op = (step w op).2.warn := by
  unfold step
  rw [hv]
  cases hd : dead w v <;> cases op <;>
    simp [strictFails, stepView, doRead, doWrite, doReadFail, doWriteFail, doSeek, doSlice, doSliceOrig,
      doClose, doFree, doFreeFail, fail, done, hd] <;> (repeat' split) <;> simp_all

/-- a call under "warnings are errors" is the ordinary call, or - exactly when the ordinary call
would issue a TruncationWarning - raises it and leaves the world untouched -/
theorem stepS_cases (w : World) (op : Op) (strict : Bool) :
    (stepS w op strict = step w op ∧ (strict = false ∨ (step w op).2.warn = false)) ∨
    (stepS w op strict = (w, ⟨.err .truncation, true, none⟩) ∧ strict = true ∧ (step w op).2.warn = true) := by
  unfold stepS
  split
  · left; refine ⟨rfl, ?_⟩
    cases strict
    · exact Or.inl rfl
    · right; unfold step; simp [*]
  · rename_i v hv
    have := strictFails_eq_warn w op v hv
    cases strict <;> cases hw : strictFails w v op <;> simp_all

/-- **Bounded file under "warnings are errors".** With `TruncationWarning` turned into an exception,
every file operation on a live view refines `strictSpec` of the file specification: a call that
would be truncated raises, transfers nothing and moves nothing; every other call is as in
`step_refines_file`. -/
theorem strict_refines_file (w : World) (op : Op) (v : View) (hv : w.views[op.target]? = some v)
    (hlive : dead w v = false) (hwf : v.start ≤ v.stop) (hio : op.isIO = true)
    (hk : ∀ i n, op = .seek i n 2 → n = 0) :
    ∃ s, specIO v (absFile w.mem v) op = some s ∧
      Refines w op.target v (strictSpec v (absFile w.mem v) s) (stepS w op true) := by
  obtain ⟨s, hs, hR⟩ := step_refines_file w op v hv hlive hwf hio hk
  refine ⟨s, hs, ?_⟩
  have hwarn : (step w op).2.warn = s.warn := by rw [hR.1]
  rcases stepS_cases w op true with ⟨h1, h2⟩ | ⟨h1, _, h3⟩
  · rcases h2 with h2 | h2
    · cases h2
    · have : s.warn = false := by rw [← hwarn]; exact h2
      rw [h1]; simp only [strictSpec, this]; exact hR
  · have : s.warn = true := by rw [← hwarn]; exact h3
    rw [h1]
    simp only [strictSpec, this, if_true]
    exact ⟨by simp [specAccess, this], (set_self _ _ _ hv).symm, rfl, fun _ _ => rfl, rfl, rfl, rfl⟩

/-- the invariants carry over to histories under "warnings are errors": the world stays well-formed
and every access stays confined (a strict call is the ordinary call or touches nothing) -/
theorem stepS_WF (lo hi : Int) (w : World) (op : Op) (strict : Bool) (h : WF lo hi w) :
    WF lo hi (stepS w op strict).1 := by
  rcases stepS_cases w op strict with ⟨h1, _⟩ | ⟨h1, _⟩
  · rw [h1]; exact step_WF lo hi w op h
  · rw [h1]; exact h

theorem stepS_confined (w : World) (op : Op) (strict : Bool) (a : Access)
    (h : (stepS w op strict).2.access = some a) :
    ∃ v, w.views[op.target]? = some v ∧ Confined w.x w.y v a := by
  rcases stepS_cases w op strict with ⟨h1, _⟩ | ⟨h1, _⟩
  · rw [h1] at h
    obtain ⟨v, hv, hc, _⟩ := step_confined w op a h
    exact ⟨v, hv, hc⟩
  · rw [h1] at h; cases h

/-! ## The code before the fix, the fix, and the known finding -/

/-- the code before the fix: `seek(-4); read(2)` on a 10-byte view at 1000 reads 2 bytes at 996 -/
theorem orig_read_escapes_below :
    let v : View := ⟨1000, 1010, -4, false⟩
    readCountOrig v 2 = (false, 2) ∧ v.address = 996 ∧ ¬ Confined 1 2 v (.read v.address 2 1 2 0) ∧
    -- and `read()` reads 14 bytes from 996
    readCountOrig v (-1) = (false, 14) ∧ ¬ Confined 1 2 v (.read v.address 14 1 2 0) ∧
    -- the fixed code transfers nothing (with a warning when bytes were requested)
    readCount v 2 = (true, 0) ∧ readCount v (-1) = (false, 0) := by
  decide

/-- the code before the fix: `seek(13); write(8 bytes)` on a 10-byte view writes 5 bytes at 1013;
`seek(-4); write(4 bytes)` writes them at 996 -/
theorem orig_write_escapes_above :
    let v : View := ⟨1000, 1010, 13, false⟩
    let u : View := ⟨1000, 1010, -4, false⟩
    writeDataOrig v [1, 2, 3, 4, 5, 6, 7, 8] = (true, [1, 2, 3, 4, 5]) ∧ v.address = 1013 ∧
    ¬ Confined 1 2 v (.write v.address [1, 2, 3, 4, 5] 1 2 0) ∧
    writeDataOrig u [97, 98, 99, 100] = (false, [97, 98, 99, 100]) ∧
    ¬ Confined 1 2 u (.write u.address [97, 98, 99, 100] 1 2 0) ∧
    writeData v [1, 2, 3, 4, 5, 6, 7, 8] = (true, []) ∧ writeData u [97, 98, 99, 100] = (true, []) := by
  decide

/-- the code before fixes/c13-getitem-closed.diff: slicing a CLOSED view succeeds and returns a
fresh open view (through which memory can be accessed again); the guarded code raises OSError -/
theorem orig_slice_of_closed_view_is_open :
    let w : World := ⟨1, 2, false, [⟨1000, 1010, 3, true⟩], fun _ => 0⟩
    let v : View := ⟨1000, 1010, 3, true⟩
    (doSliceOrig w v (some 2) (some 5) none).2 = ⟨.view 1, false, none⟩ ∧
    (doSliceOrig w v (some 2) (some 5) none).1.views = [v, ⟨1002, 1005, 0, false⟩] ∧
    (step w (.slice 0 (some 2) (some 5) none)).2 = ⟨.err .osError, false, none⟩ ∧
    (step w (.slice 0 (some 2) (some 5) none)).1.views = [v] := by
  decide

/-- the guard changes nothing for live views -/
theorem getitem_fix_conservative (w : World) (v : View) (a b st : Option Int) (h : dead w v = false) :
    doSlice w v a b st = doSliceOrig w v a b st := by
  simp [doSlice, h]

/-- the fix changes nothing while the position is inside the view -/
theorem fix_conservative (v : View) (h0 : 0 ≤ v.offset) (h1 : v.offset ≤ v.len) (n : Int) (d : List Nat) :
    readCount v n = readCountOrig v n ∧ writeData v d = writeDataOrig v d := by
  have ha : v.available = v.stop - v.address := by
    unfold View.available View.address View.len at *; split <;> omega
  unfold readCount readCountOrig writeData writeDataOrig
  simp only [ha]
  unfold View.address View.len at *
  constructor
  · split <;> split <;> split <;> first | rfl | omega
  · split <;> split <;> first | rfl | omega

/-- `seek(n, 2)`: the code moves to `len - n`, a file moves to `len + n`; they agree only for `n = 0`
(known finding `seek-from-end-sign`) -/
theorem seek_end_sign (w : World) (i : Nat) (v : View) (n : Int) (hd : dead w v = false)
    (hwf : v.start ≤ v.stop) :
    (doSeek w i v n 2).1 = setView w i { v with offset := v.len - n } ∧
    (File.seek (absFile w.mem v) n 2).map (·.pos) = some (v.len + n) ∧
    (v.len - n = v.len + n ↔ n = 0) := by
  refine ⟨by simp [doSeek, hd, done, View.len], ?_, by omega⟩
  simp [File.seek, absFile_len w.mem v hwf]

/-! ## Non-vacuity: the hypotheses above are satisfiable by non-trivial instances -/

/-- a live, well-formed view exists and issues real accesses (`step_refines_file`, `step_confined`) -/
example : let w := mkRoot 1 2 1000 1010 (fun _ => 7)
    w.views[(Op.read 0 4).target]? = some (mkView 1000 1010) ∧ dead w (mkView 1000 1010) = false ∧
    (mkView 1000 1010).start ≤ (mkView 1000 1010).stop ∧ (Op.read 0 4).isIO = true ∧
    (step w (.read 0 4)).2 = ⟨.bytes [7, 7, 7, 7], false, some (.read 1000 4 1 2 0)⟩ := by
  decide

/-- truncation at the end: 4 bytes written at position 8 of a 10-byte view -> 2 written, warning -/
example : let w := (step (mkRoot 1 2 1000 1010 (fun _ => 7)) (.seek 0 8 0)).1
    (step w (.write 0 [1, 2, 3, 4])).2 = ⟨.int 2, true, some (.write 1008 [1, 2] 1 2 0)⟩ := by
  decide

/-- the file specification is not degenerate: seek, truncated read, write, relative seek, truncated write -/
example : specRun (mkView 1000 1004) [1, 2, 3, 4]
      [.seek 0 2 0, .read 0 5, .write 0 [9], .seek 0 (-1) 1, .write 0 [8, 8], .seek 0 0 0, .read 0 (-1)]
    = [(.none, false), (.bytes [3, 4], true), (.int 0, true), (.none, false), (.int 1, true),
       (.none, false), (.bytes [1, 2, 3, 8], false)] := by decide

/-- histories with failing transfers: a failed read, tell, the retry, a write failing after one
byte, tell, read everything back -/
example : specRun (mkView 1000 1004) [1, 2, 3, 4]
      [.readFail 0 2, .tell 0, .read 0 2, .writeFail 0 [9, 9, 9] 1, .tell 0, .seek 0 0 0, .read 0 (-1)]
    = [(.err .transferError, false), (.int 0, false), (.bytes [1, 2], false),
       (.err .transferError, true), (.int 2, false), (.none, false), (.bytes [1, 2, 9, 4], false)] := by
  decide

/-- a nested slice with negative bounds: `f[2:9][-4:-1]` of a view at 1000 is `[1005, 1008)` -/
example : specSlice (specSlice (mkView 1000 1010) (some 2) (some 9)) (some (-4)) (some (-1))
    = ⟨1005, 1008, 0, false⟩ := by decide

/-- `ClosedAt` and `freed` are reachable (`dead_after_close`, `no_access_after_free`) -/
example : ClosedAt (step (mkRoot 1 2 1000 1010 (fun _ => 7)) (.close 0)).1 0 :=
  close_closes _ 0 (mkView 1000 1010) rfl rfl
example : (step (mkRoot 1 2 1000 1010 (fun _ => 7)) (.free 0)).1.freed = true :=
  (free_frees _ (mkView 1000 1010) rfl rfl).1

/-- slicing is among the operations that fail after close (`dead_after_close` with a slice) -/
example : step (step (mkRoot 1 2 1000 1010 (fun _ => 7)) (.close 0)).1 (.slice 0 (some 1) none none)
    = ((step (mkRoot 1 2 1000 1010 (fun _ => 7)) (.close 0)).1, ⟨.err .osError, false, none⟩) :=
  dead_after_close (step (mkRoot 1 2 1000 1010 (fun _ => 7)) (.close 0)).1 0
    (close_closes (mkRoot 1 2 1000 1010 (fun _ => 7)) 0 (mkView 1000 1010) rfl rfl) []
    (.slice 0 (some 1) none none) rfl rfl

/-- a with-block left by an exception closes the view; the next read fails -/
example : let w := mkRoot 1 2 1000 1010 (fun _ => 7)
    (run w [.enter 0, .read 0 2, .exitBlock 0 true, .read 0 2, .slice 0 none none none]).1 =
      [⟨.view 0, false, none⟩, ⟨.bytes [7, 7], false, some (.read 1000 2 1 2 0)⟩, ⟨.none, false, none⟩,
       ⟨.err .osError, false, none⟩, ⟨.err .osError, false, none⟩] := by decide

/-- warnings as errors: the truncated read raises and moves nothing, the in-range read is ordinary -/
example : let w := (step (mkRoot 1 2 1000 1010 (fun _ => 7)) (.seek 0 8 0)).1
    (runS w [(.read 0 4, true), (.tell 0, true), (.read 0 2, true)]).1 =
      [⟨.err .truncation, true, none⟩, ⟨.int 8, false, none⟩,
       ⟨.bytes [7, 7], false, some (.read 1008 2 1 2 0)⟩] := by decide

/-- `WF` holds of a world with slices (`step_WF`, `run_confined`) -/
example : WF 1000 1010 (run (mkRoot 1 2 1000 1010 (fun _ => 7))
    [.slice 0 (some 2) (some 9) none, .slice 1 (some (-4)) none none, .seek 2 (-3) 0]).2 := by
  have h := mkRoot_WF 1 2 1000 1010 (fun _ => 7)
  have hm : max (1000 : Int) 1010 = 1010 := by decide
  rw [hm] at h
  simp only [run]
  exact step_WF _ _ _ _ (step_WF _ _ _ _ (step_WF _ _ _ _ h))

end Rig.C13
