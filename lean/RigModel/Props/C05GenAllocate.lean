/-
C05 - translator tie, top level: **the function `allocate` as generated from rig/place_and_route/allocate/greedy.py
(Gen/PyFun.lean, regenerated on every run) is the model `Rig.C05.allocate`**, and the property theorems restated
about the generated function.

The generated function takes the fuel of its `while` loops as an argument (one number for every loop); the model
gives every proposal loop its own, provably sufficient, fuel.  `gen_allocate_det`: whatever the fuel, the generated
function either reports a cut-off loop (`"fuel"`) or returns exactly what the model returns; `gen_allocate`: from
some fuel on it is never cut off - every `while` loop of the run terminates - and equals the model.
Domain (`WellFormed`): the mappings are dicts (unique keys), requirements >= 0, alignments >= 1 (the translator does
not model ZeroDivisionError of `align`).
-/
import RigModel.Props.C05
import RigModel.Props.C05GenTop
import RigModel.Props.C05Group
import RigModel.Props.C05Fuel
set_option linter.unusedSimpArgs false
set_option linter.unusedVariables false

namespace Rig.C05
open Rig.Gen Rig.PyDict

/-- the call `allocate(vertices_resources, nets, machine, constraints, placements)` of the generated function on the
model's input: `machine.chip_resources`, `machine[xy]` (`Machine.__getitem__`, model `Machine.get`) as environment,
the constraint objects as typed records -/
def genAllocate (inp : Input) (fuel : Nat) : Except String OutTy :=
  PyFun.allocate inp.vr inp.machine.chipResources (mgetOf inp.machine) (inp.constraints.map encC) inp.placements fuel

/-- the caller's view `{vertex: {resource: slice}}` as the generated function returns it -/
def encA (a : Alloc) : OutTy := a.map fun o => (o.1, o.2.map fun rs => (rs.1, some (encS rs.2)))

theorem encOut_strip (out : List (Vertex × List Entry)) : encOut out = encA (strip out) := by
  simp [encOut, encA, strip, encE, List.map_map, Function.comp_def]

/-- with any positive fuel the generated `allocate` is the model run with that fuel for every `while` loop -/
theorem gen_allocateF (inp : Input) (wf : WellFormed inp) (fuel : Nat) (hf : 0 < fuel) :
    genAllocate inp fuel = encR (allocateF fuel inp) := by
  have T := gen_tables inp
  have hA : ∀ res, alignment inp.constraints res ≠ 0 := fun res => by
    have := alignment_pos wf.alignPos res; omega
  unfold genAllocate PyFun.allocate
  simp only []
  generalize List.foldl PyFun.allocate_loop1 ([], [], []) (inp.constraints.map encC) = t at T
  obtain ⟨G, L, A⟩ := t
  simp only [] at T ⊢
  rw [gen_group]
  have hnd : ((chipContents inp).flatMap (·.2)).Nodup := by
    have := nodup_allVertices wf (nodup_dedup (inp.placements.map (·.2)))
    simpa [chipContents, chipOrder, List.flatMap_map] using this
  obtain ⟨g1, g2⟩ := gen_chips T hA wf.resNodup fuel hf (chipContents inp) [] hnd (fun _ _ => rfl)
  unfold allocateF
  cases h : allocChipsL (allocOneF fuel inp) inp.vr (chipContents inp) with
  | error err =>
    obtain ⟨al', e⟩ := g2 err h
    rw [e]
    rfl
  | ok out =>
    rw [g1 out h]
    simp [encR]

/-- **generated `allocate` = model, whatever the fuel**: either a `while` loop was cut off or the result (allocation
in dict order, or exception) is the model's -/
theorem gen_allocate_det (inp : Input) (wf : WellFormed inp) (fuel : Nat) (hf : 0 < fuel) :
    genAllocate inp fuel = .error "fuel" ∨ genAllocate inp fuel = encR (allocate inp) := by
  rw [gen_allocateF inp wf fuel hf]
  rcases allocateF_det inp (alignment_pos wf.alignPos) wf.demandNonneg fuel with h | h
  · left; rw [h]; rfl
  · right; rw [h]

/-- **generated `allocate` = model**: from some fuel on no loop is cut off (every `while` loop of the run
terminates) and the generated function returns exactly what `Rig.C05.allocate` returns -/
theorem gen_allocate (inp : Input) (wf : WellFormed inp) :
    ∃ F, ∀ fuel, F ≤ fuel → genAllocate inp fuel = encR (allocate inp) := by
  obtain ⟨F, hF⟩ := allocateF_stable inp (alignment_pos wf.alignPos) wf.demandNonneg
  refine ⟨F + 1, fun fuel h => ?_⟩
  rw [gen_allocateF inp wf fuel (by omega), hF fuel (by omega)]

theorem encR_ok {r : Except Err (List (Vertex × List Entry))} {o : OutTy} (h : encR r = .ok o) :
    ∃ out, r = .ok out ∧ o = encOut out := by
  cases r with
  | error e => simp [encR] at h
  | ok out =>
    simp only [encR, Except.ok.injEq] at h
    exact ⟨out, rfl, h.symm⟩

/-- **Soundness of what greedy.py says now.**  Whatever the fuel: a dict returned by the generated `allocate` has no
`None` entry and, read as an allocation, satisfies the property `Valid` -/
theorem gen_alloc_sound (inp : Input) (wf : WellFormed inp) (fuel : Nat) (hf : 0 < fuel) (o : OutTy)
    (h : genAllocate inp fuel = .ok o) : ∃ a : Alloc, o = encA a ∧ Valid inp a := by
  rcases gen_allocate_det inp wf fuel hf with h' | h'
  · rw [h] at h'; simp at h'
  · rw [h] at h'
    obtain ⟨out, h1, h2⟩ := encR_ok h'.symm
    exact ⟨strip out, by rw [h2, encOut_strip], alloc_sound inp out wf h1⟩

/-- **One range each, for the generated function**: no (vertex, resource) pair of a returned dict has two ranges -/
theorem gen_alloc_unique (inp : Input) (wf : WellFormed inp) (fuel : Nat) (hf : 0 < fuel) (o : OutTy)
    (h : genAllocate inp fuel = .ok o) :
    ∃ a : Alloc, o = encA a ∧ ((flat a).map fun t => (t.1, t.2.1)).Nodup := by
  rcases gen_allocate_det inp wf fuel hf with h' | h'
  · rw [h] at h'; simp at h'
  · rw [h] at h'
    obtain ⟨out, h1, h2⟩ := encR_ok h'.symm
    exact ⟨strip out, by rw [h2, encOut_strip], alloc_unique inp out wf h1⟩

/-- **Only failure, for the generated function.**  On the documented domain: with any fuel the outcome is a dict,
`InsufficientResourceError` or a cut-off loop - never another exception; and from some fuel on no loop is cut off -/
theorem gen_alloc_only_failure (inp : Input) (wf : WellFormed inp) (dom : InDomain inp) :
    (∀ fuel, 0 < fuel → (∃ a : Alloc, genAllocate inp fuel = .ok (encA a) ∧ Valid inp a) ∨
      genAllocate inp fuel = .error "InsufficientResourceError" ∨ genAllocate inp fuel = .error "fuel") ∧
    ∃ F, ∀ fuel, F ≤ fuel → (∃ a : Alloc, genAllocate inp fuel = .ok (encA a) ∧ Valid inp a) ∨
      genAllocate inp fuel = .error "InsufficientResourceError" := by
  have key : (∃ a : Alloc, encR (allocate inp) = .ok (encA a) ∧ Valid inp a) ∨
      encR (allocate inp) = .error "InsufficientResourceError" := by
    rcases alloc_only_failure inp wf dom with ⟨out, h⟩ | ⟨res, p, _, h⟩
    · left
      exact ⟨strip out, by rw [h]; simp [encR, encOut_strip], alloc_sound inp out wf h⟩
    · right
      rw [h]; rfl
  refine ⟨?_, ?_⟩
  · intro fuel hf
    rcases gen_allocate_det inp wf fuel hf with h | h
    · exact Or.inr (Or.inr h)
    · rw [h]
      rcases key with k | k
      · exact Or.inl k
      · exact Or.inr (Or.inl k)
  · obtain ⟨F, hF⟩ := gen_allocate inp wf
    refine ⟨F, fun fuel h => ?_⟩
    rw [hF fuel h]
    exact key

/-- **Completeness, for the generated function.**  Without alignment constraints and with reservations only at the
two ends of each range, a feasible placement is allocated by the generated `allocate` (given enough fuel: from some
fuel on), and the returned dict satisfies the property -/
theorem gen_alloc_complete (inp : Input) (wf : WellFormed inp) (dom : InDomain inp) (feas : Feasible inp) :
    ∃ F, ∀ fuel, F ≤ fuel → ∃ a : Alloc, genAllocate inp fuel = .ok (encA a) ∧ Valid inp a := by
  obtain ⟨out, h, hv⟩ := alloc_complete inp wf dom feas
  obtain ⟨F, hF⟩ := gen_allocate inp wf
  refine ⟨F, fun fuel hf => ⟨strip out, ?_, hv⟩⟩
  rw [hF fuel hf, h]
  simp [encR, encOut_strip]

/-- non-vacuity / sanity: the generated function run on the example of Props/C05.lean -/
example : genAllocate exEnds 64 = .ok (encA
    [(0, [(0, ⟨2, 5⟩), (1, ⟨0, 10⟩)]), (2, [(0, ⟨5, 7⟩)]), (1, [(0, ⟨7, 7⟩)]), (3, [(0, ⟨1, 5⟩)])]) := by
  rfl

example : genAllocate exAlign 64 = .error "InsufficientResourceError" := by rfl

end Rig.C05
