/-
C04 - table minimisation never changes where a matched key is routed.
Property theorems (helper lemmas live in RigModel/Lemmas/C04*.lean).
-/
import RigModel.Lemmas.C04
import RigModel.Lemmas.C04Apply
set_option linter.unusedSimpArgs false
set_option linter.unusedVariables false

namespace Rig.C04

/-! ## Default-route removal (any table at all) -/

/-- **removeDefault_equiv.** For *any* table (no order, orthogonality or well-formedness
assumed) and any target, a table returned by `remove_default_routes.minimise` routes every key
matched by the input identically: by the same first-matching entry, or by default routing when
the dropped entry went straight through from a single link. -/
theorem removeDefault_equiv (T T' : List Entry) (target : Option Nat)
    (h : removeDefault T target true = .ok T') : RouteEquiv T T' := by
  intro k
  have hk := removeDefaultTable_keyOk T k
  simp only [removeDefault] at h
  split at h
  · split at h
    · cases h
    · cases h; exact hk
  · cases h; exact hk

/-- **removeDefault_length.** The result is a sub-list of the input (same entries, same order),
in particular never longer. -/
theorem removeDefault_length (T T' : List Entry) (target : Option Nat) (check : Bool)
    (h : removeDefault T target check = .ok T') : T'.Sublist T ∧ T'.length ≤ T.length := by
  have hs : (removeDefaultTable T check).Sublist T := by
    simp only [removeDefaultTable]; exact rdLoop_sublist _ T
  simp only [removeDefault] at h
  split at h
  · split at h
    · cases h
    · cases h; exact ⟨hs, hs.length_le⟩
  · cases h; exact ⟨hs, hs.length_le⟩

/-- **removeDefault_target.** With a target the result meets it, or `MinimisationFailedError`
carries the target and the size reached (which exceeds the target); no other error exists. -/
theorem removeDefault_target (T : List Entry) (t : Nat) (check : Bool) :
    (∃ T', removeDefault T (some t) check = .ok T' ∧ T'.length ≤ t) ∨
    (∃ n, removeDefault T (some t) check = .error (.minFailed t n) ∧ t < n ∧
      n = (removeDefaultTable T check).length) := by
  simp only [removeDefault]
  by_cases h : t < (removeDefaultTable T check).length
  · right; exact ⟨_, by rw [if_pos h], h, rfl⟩
  · left; exact ⟨_, by rw [if_neg h], by omega⟩

/-- non-vacuity: a straight-through entry (from west to east) is dropped, an entry for the
same keys from two links is kept. -/
example : removeDefault [⟨1, 5#32, 0xf#32, 8⟩, ⟨1, 6#32, 0xf#32, 8 + 16⟩] none true
    = .ok [⟨1, 6#32, 0xf#32, 8 + 16⟩] := by rfl

/-! ## Ordered covering: the merge-application invariant -/

/-- The invariant implies the property's conclusion (always through the first clause: the key
is still matched, by an entry with the same route that lists the original's sources). -/
theorem inv_routeEquiv (T0 T : List Entry) (A : Aliases) (h : Inv T0 T A) : RouteEquiv T0 T := by
  intro k o ho
  obtain ⟨e, h1, h2, h3, _⟩ := h k o ho
  exact Or.inl ⟨e, h1, h2, h3⟩

/-- The invariant holds initially, with the empty alias dictionary. -/
theorem inv_init (T : List Entry) : Inv T T [] := by
  intro k o ho
  refine ⟨o, ho, rfl, bitSubset_refl _, o.km, by simp [alOf, alGet], ?_⟩
  rw [kmMatches_km]; exact (lookup_some_matches ho).1

/-- **apply_equiv.** Applying a merge (`_Merge.apply`: new table and new alias dictionary,
including the dictionary corner cases where the merged key/mask equals a member's or an
existing key) preserves the ordered-covering invariant, provided the merge passes the up-check
(`UpOk`), the down-check (`DownOk`), all members share a route and the insertion index splits
the table by generality.  No sortedness or well-formedness of entries is needed. -/
theorem apply_equiv (T0 T : List Entry) (A : Aliases) (es : List Nat)
    (hinv : Inv T0 T A) (hins : (mkMerge T es).ins ≤ T.length)
    (hup : UpOk T (mkMerge T es)) (hdown : DownOk T A (mkMerge T es))
    (hio : InsOk T (mkMerge T es)) (hsr : SameRoute T es) :
    Inv T0 (applyMerge T (mkMerge T es) A).1 (applyMerge T (mkMerge T es) A).2 :=
  apply_inv T0 T A es hinv hins hup hdown hio hsr

/-- non-vacuity of `apply_equiv`: merging 0000 and 0001 (both -> E) in a three-entry table -/
example :
    let T : List Entry := [⟨1, 0#32, 0xf#32, 8⟩, ⟨1, 1#32, 0xf#32, 8⟩, ⟨2, 2#32, 0xe#32, 8⟩]
    (mkMerge T [0, 1]).ins ≤ T.length ∧ UpOk T (mkMerge T [0, 1]) ∧ DownOk T [] (mkMerge T [0, 1]) ∧
      InsOk T (mkMerge T [0, 1]) ∧ SameRoute T [0, 1] ∧
      (applyMerge T (mkMerge T [0, 1]) []).1 = [⟨1, 0#32, 0xe#32, 8⟩, ⟨2, 2#32, 0xe#32, 8⟩] := by
  refine ⟨by decide, ?_, by rfl, ⟨by decide, by decide⟩, by simp [SameRoute, members], by rfl⟩
  intro i hi e he o ho
  have h1 : (mkMerge [⟨1, 0#32, 0xf#32, 8⟩, ⟨1, 1#32, 0xf#32, 8⟩, ⟨2, 2#32, 0xe#32, 8⟩] [0, 1]).ins = 2 := by rfl
  simp only [h1] at ho
  simp only [mkMerge, List.mem_cons, List.not_mem_nil, or_false] at hi
  rcases hi with rfl | rfl
  · simp at he ho; subst he; subst ho; rfl
  · simp at ho

end Rig.C04
