/-
C04 - table minimisation never changes where a matched key is routed.
Property theorems (helper lemmas live in RigModel/Lemmas/C04*.lean).
-/
import RigModel.Lemmas.C04
set_option linter.unusedSimpArgs false
set_option linter.unusedVariables false

namespace Rig.C04

/-! ## Default-route removal (any table at all) -/

/-- **removeDefault_equiv.** For *any* table (no order, orthogonality or well-formedness
assumed) and any target, a table returned by `remove_default_routes.minimise` routes every key
matched by the input identically: by the same first-matching entry, or by default routing when
the dropped entry went straight through from a single link. -/
theorem removeDefault_equiv (T T' : List Entry) (target : Option Nat)
    (h : removeDefault T target true = .ok T') : RouteEquiv T T' := by
  intro k
  have hk := removeDefaultTable_keyOk T k
  simp only [removeDefault] at h
  split at h
  · split at h
    · cases h
    · cases h; exact hk
  · cases h; exact hk

/-- **removeDefault_length.** The result is a sub-list of the input (same entries, same order),
in particular never longer. -/
theorem removeDefault_length (T T' : List Entry) (target : Option Nat) (check : Bool)
    (h : removeDefault T target check = .ok T') : T'.Sublist T ∧ T'.length ≤ T.length := by
  have hs : (removeDefaultTable T check).Sublist T := by
    simp only [removeDefaultTable]; exact rdLoop_sublist _ T
  simp only [removeDefault] at h
  split at h
  · split at h
    · cases h
    · cases h; exact ⟨hs, hs.length_le⟩
  · cases h; exact ⟨hs, hs.length_le⟩

/-- **removeDefault_target.** With a target the result meets it, or `MinimisationFailedError`
carries the target and the size reached (which exceeds the target); no other error exists. -/
theorem removeDefault_target (T : List Entry) (t : Nat) (check : Bool) :
    (∃ T', removeDefault T (some t) check = .ok T' ∧ T'.length ≤ t) ∨
    (∃ n, removeDefault T (some t) check = .error (.minFailed t n) ∧ t < n ∧
      n = (removeDefaultTable T check).length) := by
  simp only [removeDefault]
  by_cases h : t < (removeDefaultTable T check).length
  · right; exact ⟨_, by rw [if_pos h], h, rfl⟩
  · left; exact ⟨_, by rw [if_neg h], by omega⟩

/-- non-vacuity: a straight-through entry (from west to east) is dropped, an entry for the
same keys from two links is kept. -/
example : removeDefault [⟨1, 5#32, 0xf#32, 8⟩, ⟨1, 6#32, 0xf#32, 8 + 16⟩] none true
    = .ok [⟨1, 6#32, 0xf#32, 8 + 16⟩] := by rfl

end Rig.C04
