/-
C04 - table minimisation never changes where a matched key is routed.
Property theorems (helper lemmas live in RigModel/Lemmas/C04*.lean).
-/
import RigModel.Lemmas.C04
import RigModel.Lemmas.C04Apply
import RigModel.Lemmas.C04Top
import RigModel.Lemmas.C04Brute
import RigModel.Lemmas.C04Term
import RigModel.Lemmas.C04Utils
import RigModel.Lemmas.C04Alias
import RigModel.Gen.C03Links
set_option linter.unusedSimpArgs false
set_option linter.unusedVariables false

namespace Rig.C04

/-! ## Default-route removal (any table at all) -/

/-- **removeDefault_equiv.** For *any* table (no order, orthogonality or well-formedness
assumed) and any target, a table returned by `remove_default_routes.minimise` routes every key
matched by the input identically: by the same first-matching entry, or by default routing when
the dropped entry went straight through from a single link. -/
theorem removeDefault_equiv (T T' : List Entry) (target : Option Nat)
    (h : removeDefault T target true = .ok T') : RouteEquiv T T' := by
  intro k
  have hk := removeDefaultTable_keyOk T k
  simp only [removeDefault] at h
  split at h
  · split at h
    · cases h
    · cases h; exact hk
  · cases h; exact hk

/-- **removeDefault_length.** The result is a sub-list of the input (same entries, same order),
in particular never longer. -/
theorem removeDefault_length (T T' : List Entry) (target : Option Nat) (check : Bool)
    (h : removeDefault T target check = .ok T') : T'.Sublist T ∧ T'.length ≤ T.length := by
  have hs : (removeDefaultTable T check).Sublist T := by
    simp only [removeDefaultTable]; exact rdLoop_sublist _ T
  simp only [removeDefault] at h
  split at h
  · split at h
    · cases h
    · cases h; exact ⟨hs, hs.length_le⟩
  · cases h; exact ⟨hs, hs.length_le⟩

/-- **removeDefault_target.** With a target the result meets it, or `MinimisationFailedError`
carries the target and the size reached (which exceeds the target); no other error exists. -/
theorem removeDefault_target (T : List Entry) (t : Nat) (check : Bool) :
    (∃ T', removeDefault T (some t) check = .ok T' ∧ T'.length ≤ t) ∨
    (∃ n, removeDefault T (some t) check = .error (.minFailed t n) ∧ t < n ∧
      n = (removeDefaultTable T check).length) := by
  simp only [removeDefault]
  by_cases h : t < (removeDefaultTable T check).length
  · right; exact ⟨_, by rw [if_pos h], h, rfl⟩
  · left; exact ⟨_, by rw [if_neg h], by omega⟩

/-- non-vacuity: a straight-through entry (from west to east) is dropped, an entry for the
same keys from two links is kept. -/
example : removeDefault [⟨1, 5#32, 0xf#32, 8⟩, ⟨1, 6#32, 0xf#32, 8 + 16⟩] none true
    = .ok [⟨1, 6#32, 0xf#32, 8 + 16⟩] := by rfl

/-! ## Ordered covering: the merge-application invariant -/

/-- The invariant implies the property's conclusion (always through the first clause: the key
is still matched, by an entry with the same route that lists the original's sources). -/
theorem inv_routeEquiv (T0 T : List Entry) (A : Aliases) (h : Inv T0 T A) : RouteEquiv T0 T := by
  intro k o ho
  obtain ⟨e, h1, h2, h3, _⟩ := h k o ho
  exact Or.inl ⟨e, h1, h2, h3⟩

/-- The invariant holds initially, with the empty alias dictionary. -/
theorem inv_init (T : List Entry) : Inv T T [] := by
  intro k o ho
  refine ⟨o, ho, rfl, bitSubset_refl _, o.km, by simp [alOf, alGet], ?_⟩
  rw [kmMatches_km]; exact (lookup_some_matches ho).1

/-- **apply_equiv.** Applying a merge (`_Merge.apply`: new table and new alias dictionary,
including the dictionary corner cases where the merged key/mask equals a member's or an
existing key) preserves the ordered-covering invariant, provided the merge passes the up-check
(`UpOk`), the down-check (`DownOk`), all members share a route and the insertion index splits
the table by generality.  No sortedness or well-formedness of entries is needed. -/
theorem apply_equiv (T0 T : List Entry) (A : Aliases) (es : List Nat)
    (hinv : Inv T0 T A) (hins : (mkMerge T es).ins ≤ T.length)
    (hup : UpOk T (mkMerge T es)) (hdown : DownOk T A (mkMerge T es))
    (hio : InsOk T (mkMerge T es)) (hsr : SameRoute T es) :
    Inv T0 (applyMerge T (mkMerge T es) A).1 (applyMerge T (mkMerge T es) A).2 :=
  apply_inv T0 T A es hinv hins hup hdown hio hsr

/-- non-vacuity of `apply_equiv`: merging 0000 and 0001 (both -> E) in a three-entry table -/
example :
    let T : List Entry := [⟨1, 0#32, 0xf#32, 8⟩, ⟨1, 1#32, 0xf#32, 8⟩, ⟨2, 2#32, 0xe#32, 8⟩]
    (mkMerge T [0, 1]).ins ≤ T.length ∧ UpOk T (mkMerge T [0, 1]) ∧ DownOk T [] (mkMerge T [0, 1]) ∧
      InsOk T (mkMerge T [0, 1]) ∧ SameRoute T [0, 1] ∧
      (applyMerge T (mkMerge T [0, 1]) []).1 = [⟨1, 0#32, 0xe#32, 8⟩, ⟨2, 2#32, 0xe#32, 8⟩] := by
  refine ⟨by decide, ?_, by rfl, ⟨by decide, by decide⟩, by simp [SameRoute, members], by rfl⟩
  intro i hi e he o ho
  have h1 : (mkMerge [⟨1, 0#32, 0xf#32, 8⟩, ⟨1, 1#32, 0xf#32, 8⟩, ⟨2, 2#32, 0xe#32, 8⟩] [0, 1]).ins = 2 := by rfl
  simp only [h1] at ho
  simp only [mkMerge, List.mem_cons, List.not_mem_nil, or_false] at hi
  rcases hi with rfl | rfl
  · simp at he ho; subst he; subst ho; rfl
  · simp at ho

/-! ## Ordered covering: refinement, the loop, the sort -/

/-- **insertion index.** On a generality-sorted table `_get_insertion_index` (binary search +
linear scan, with the empty-table repair) returns the first position whose generality is at
least `g`; it lies within the table. -/
theorem insertionIndex_correct (T : List Entry) (g : Nat) (hs : SortedGen T) :
    insertionIndex T g ≤ T.length ∧ (∀ e ∈ T.take (insertionIndex T g), e.gen < g) ∧
    (∀ e ∈ T.drop (insertionIndex T g), g ≤ e.gen) :=
  ⟨insertionIndex_le T g, insertionIndex_spec T g hs⟩

/-- **refine_ok.** On a generality-sorted table, whatever `_refine_merge` returns (down-check,
up-check, down-check again) is a merge of a subset of the initial members, and if its goodness
still exceeds `min_goodness` it passes the up-check and the down-check. -/
theorem refine_ok (T : List Entry) (A : Aliases) (minG : Int) (hs : SortedGen T) (h0 : 0 ≤ minG)
    (es : List Nat) (hv : ∀ i ∈ es, i < T.length) (m' : Merge)
    (h : refineMerge T A (mkMerge T es) minG = some m') :
    ∃ es', m' = mkMerge T es' ∧ (∀ i ∈ es', i ∈ es) ∧
      (m'.goodness > minG → UpOk T m' ∧ DownOk T A m') := by
  obtain ⟨es', h1, h2, h3, _⟩ := refineMerge_spec T A minG hs h0 es hv m' h
  exact ⟨es', h1, h2, h3⟩

/-- **orderedCovering_inv.** `ordered_covering` started on any table with an alias dictionary
that satisfies the invariant for the sorted table (e.g. the empty one, or the one returned by a
previous call) returns a generality-sorted table and dictionary that satisfy it again, never
longer than the input. -/
theorem orderedCovering_inv (T : List Entry) (target : Option Nat) (A : Aliases) (noRaise : Bool)
    (T' : List Entry) (A' : Aliases) (hA : Inv (sortTable T) (sortTable T) A)
    (h : orderedCovering T target A noRaise = .ok (T', A')) :
    Inv (sortTable T) T' A' ∧ SortedGen T' ∧ T'.length ≤ T.length := by
  simp only [orderedCovering] at h
  split at h
  · cases h
  · rename_i r hr
    have hr' : ocLoop (T.length + 2) (sortTable T) target A = .ok (r.1, r.2) := hr
    have hspec := ocLoop_spec (sortTable T) _ _ target A hA (sortTable_sorted T) r.1 r.2 hr'
    rw [sortTable_length] at hspec
    split at h
    · split at h
      · cases h
      · cases h; exact hspec
    · cases h; exact hspec

/-- **orderedCovering_equiv.** For a table that is orthogonal (in any order) or sorted by
generality, the table returned by `ordered_covering` (any target, `no_raise` or not) routes every
key matched by the input to the same route through a first-matching entry that lists the
original's sources; it is not longer than the input. -/
theorem orderedCovering_equiv (T : List Entry) (target : Option Nat) (noRaise : Bool)
    (T' : List Entry) (A' : Aliases) (hg : Good T)
    (h : orderedCovering T target [] noRaise = .ok (T', A')) :
    RouteEquiv T T' ∧ T'.length ≤ T.length := by
  obtain ⟨h1, _, h3⟩ := orderedCovering_inv T target [] noRaise T' A' (inv_init _) h
  refine ⟨?_, h3⟩
  intro k o ho
  rw [← lookup_sortTable hg k] at ho
  exact inv_routeEquiv _ _ _ h1 k o ho

/-- **orderedCovering_target.** Without `no_raise`, a returned table meets the target; the only
other outcomes are `MinimisationFailedError(target, n)` with `n > target` (and the model's
out-of-fuel marker, never observed). -/
theorem orderedCovering_target (T : List Entry) (t : Nat) (A : Aliases) :
    (∃ r, orderedCovering T (some t) A false = .ok r ∧ r.1.length ≤ t) ∨
    (∃ n, orderedCovering T (some t) A false = .error (.minFailed t n) ∧ t < n) ∨
    orderedCovering T (some t) A false = .error .fuel := by
  simp only [orderedCovering]
  split
  · rename_i e he
    cases e with
    | fuel => right; right; rfl
    | minFailed a b =>
      exfalso
      have : ∀ fuel T A, ocLoop fuel T (some t) A ≠ .error (.minFailed a b) := by
        intro fuel
        induction fuel with
        | zero => intro T A h; simp [ocLoop] at h
        | succ fuel ih =>
          intro T A h
          simp only [ocLoop] at h
          split at h
          · split at h
            · cases h
            · split at h
              · cases h
              · exact ih _ _ h
          · cases h
      exact this _ _ _ he
  · rename_i r hr
    simp only [Bool.not_false, Bool.true_and, decide_eq_true_eq]
    by_cases hl : r.1.length > t
    · right; left; exact ⟨r.1.length, by rw [if_pos hl], hl⟩
    · left; exact ⟨r, by rw [if_neg hl], by omega⟩

/-- **minimise_equiv.** `ordered_covering.minimise` (ordered covering, then default-route
removal): for an orthogonal or generality-sorted table whose entries all list at least one source
(`{None}` = unknown counts), the result routes every matched key identically - by a first match
with the same route listing the original's sources, or by default routing when the *original*
entry went straight through from a single link - and is not longer than the input. -/
theorem minimise_equiv (T : List Entry) (target : Option Nat) (T' : List Entry) (hg : Good T)
    (hsrc : ∀ e ∈ T, e.sources ≠ 0) (h : ocMinimise T target = .ok T') :
    RouteEquiv T T' ∧ T'.length ≤ T.length := by
  simp only [ocMinimise] at h
  split at h
  · cases h
  · rename_i r hr
    obtain ⟨h1, _, h3⟩ := orderedCovering_inv T target [] true r.1 r.2 (inv_init _) hr
    have hrd := removeDefault_equiv r.1 T' target h
    have hlen := (removeDefault_length r.1 T' target true h).2
    refine ⟨?_, by omega⟩
    apply covers_then_equiv hsrc ?_ hrd
    intro k o ho
    rw [← lookup_sortTable hg k] at ho
    obtain ⟨e, h4, h5, h6, _⟩ := h1 k o ho
    exact ⟨e, h4, h5, h6⟩

/-- every method of the chain preserves routes and does not lengthen the table -/
theorem runMethod_equiv (f : Method) (T : List Entry) (target : Option Nat) (T' : List Entry)
    (hg : Good T) (hsrc : ∀ e ∈ T, e.sources ≠ 0) (h : runMethod f T target = .ok T') :
    RouteEquiv T T' ∧ T'.length ≤ T.length := by
  cases f with
  | identity =>
    simp only [runMethod, identityMin] at h
    split at h
    · cases h; exact ⟨routeEquiv_refl _, Nat.le_refl _⟩
    · split at h
      · cases h; exact ⟨routeEquiv_refl _, Nat.le_refl _⟩
      · cases h
  | rd => exact ⟨removeDefault_equiv T T' target h, (removeDefault_length T T' target true h).2⟩
  | oc => exact minimise_equiv T target T' hg hsrc h

/-- a method that returns a table for a target meets the target -/
theorem runMethod_target (f : Method) (T : List Entry) (t : Nat) (T' : List Entry)
    (h : runMethod f T (some t) = .ok T') : T'.length ≤ t := by
  cases f with
  | identity =>
    simp only [runMethod, identityMin] at h
    split at h
    · cases h; omega
    · cases h
  | rd =>
    rcases removeDefault_target T t true with ⟨T2, h1, h2⟩ | ⟨n, h1, _⟩
    · simp only [runMethod] at h; rw [h1] at h; cases h; exact h2
    · simp only [runMethod] at h; rw [h1] at h; cases h
  | oc =>
    simp only [runMethod, ocMinimise] at h
    split at h
    · cases h
    · rename_i r _
      rcases removeDefault_target r.1 t true with ⟨T2, h1, h2⟩ | ⟨n, h1, _⟩
      · rw [h1] at h; cases h; exact h2
      · rw [h1] at h; cases h

/-- **minimiseTable_equiv.** `minimise_table` with any list of methods (the identity is always
tried first): a returned table comes from one of the methods, hence routes every matched key
identically and is not longer than the input; with a target it meets the target. -/
theorem minimiseTable_equiv (T : List Entry) (target : Option Nat) (methods : List Method)
    (T' : List Entry) (hg : Good T) (hsrc : ∀ e ∈ T, e.sources ≠ 0)
    (h : minimiseTable T target methods = .ok T') :
    RouteEquiv T T' ∧ T'.length ≤ T.length ∧ (∀ t, target = some t → T'.length ≤ t) := by
  have key : ∃ f, runMethod f T target = .ok T' := by
    simp only [minimiseTable] at h
    split at h
    · rename_i t
      generalize (Method.identity :: methods) = ms at h
      generalize T.length = best at h
      induction ms generalizing best with
      | nil => simp [tryLoop] at h
      | cons f rest ih =>
        simp only [tryLoop] at h
        split at h
        · rename_i r hr; cases h; exact ⟨f, hr⟩
        · exact ih _ h
        · cases h
    · have gen : ∀ (ms : List Method) (best : Option (List Entry)),
          (∀ b, best = some b → ∃ f, runMethod f T none = .ok b) →
          minLoop T ms best = .ok T' → (best = none → ms ≠ []) → ∃ f, runMethod f T none = .ok T' := by
        intro ms
        induction ms with
        | nil =>
          intro best hb h hne
          cases best with
          | none => exact absurd rfl (hne rfl)
          | some b => simp only [minLoop] at h; cases h; exact hb _ rfl
        | cons f rest ih =>
          intro best hb h _
          simp only [minLoop] at h
          split at h
          · cases h
          · rename_i r hr
            split at h
            · exact ih (some r) (fun b hb' => by cases hb'; exact ⟨f, hr⟩) h (by simp)
            · rename_i b
              refine ih _ ?_ h (by simp)
              intro b' hb'
              simp only [Option.some.injEq] at hb'
              split at hb'
              · subst hb'; exact ⟨f, hr⟩
              · subst hb'; exact hb _ rfl
      exact gen _ none (by simp) h (by simp)
  obtain ⟨f, hf⟩ := key
  obtain ⟨h1, h2⟩ := runMethod_equiv f T target T' hg hsrc hf
  refine ⟨h1, h2, ?_⟩
  intro t ht; subst ht
  exact runMethod_target f T t T' hf

/-- **minimiseTable_failure.** With a target, the only error of the front end is
`MinimisationFailedError` carrying that target (or the model's out-of-fuel marker). -/
theorem minimiseTable_failure (T : List Entry) (t : Nat) (methods : List Method) (e : Err)
    (h : minimiseTable T (some t) methods = .error e) : (∃ best, e = .minFailed t best) ∨ e = .fuel := by
  simp only [minimiseTable] at h
  generalize (Method.identity :: methods) = ms at h
  generalize T.length = best at h
  induction ms generalizing best with
  | nil => simp only [tryLoop] at h; cases h; exact Or.inl ⟨_, rfl⟩
  | cons f rest ih =>
    simp only [tryLoop] at h
    split at h
    · cases h
    · exact ih _ h
    · rename_i e' hne _
      cases h
      cases e with
      | fuel => exact Or.inr rfl
      | minFailed a b => exact absurd rfl (hne a b)

/-- the `for f in methods` loop: the reported size is the smallest of the start value and the
sizes reported by the methods, all of which failed -/
theorem tryLoop_best (T : List Entry) (t : Nat) (ms : List Method) (b0 best : Nat) (t0 : Nat)
    (h : tryLoop T t ms b0 = .error (.minFailed t0 best)) :
    t0 = t ∧ best ≤ b0 ∧
    (∀ f ∈ ms, ∃ t' n, runMethod f T (some t) = .error (.minFailed t' n) ∧ best ≤ n) ∧
    (best = b0 ∨ ∃ f ∈ ms, ∃ t', runMethod f T (some t) = .error (.minFailed t' best)) := by
  induction ms generalizing b0 with
  | nil => simp only [tryLoop] at h; cases h; exact ⟨rfl, Nat.le_refl _, by simp, Or.inl rfl⟩
  | cons f rest ih =>
    simp only [tryLoop] at h
    split at h
    · cases h
    · rename_i t' final hf
      obtain ⟨h0, h1, h2, h3⟩ := ih _ h
      refine ⟨h0, ?_, ?_, ?_⟩
      · split at h1 <;> omega
      · intro g hg
        rcases List.mem_cons.mp hg with rfl | hg
        · exact ⟨t', final, hf, by split at h1 <;> omega⟩
        · exact h2 g hg
      · rcases h3 with h3 | ⟨g, hg, t'', h3⟩
        · by_cases hlt : final < b0
          · rw [if_pos hlt] at h3
            right; exact ⟨f, by simp, t', by rw [h3]; exact hf⟩
          · rw [if_neg hlt] at h3; left; exact h3
        · right; exact ⟨g, by simp [hg], t'', h3⟩
    · rename_i e' hne _
      cases h
      exact absurd rfl (hne _ _)

/-- **minimiseTable_best.** When the front end fails for a target it reports the best size
reached: every method (the identity included) failed with a size at least `best`, and `best` is
the table's own length or the size one of the methods reported. -/
theorem minimiseTable_best (T : List Entry) (t t0 best : Nat) (methods : List Method)
    (h : minimiseTable T (some t) methods = .error (.minFailed t0 best)) :
    t0 = t ∧ best ≤ T.length ∧
    (∀ f ∈ Method.identity :: methods, ∃ t' n, runMethod f T (some t) = .error (.minFailed t' n) ∧ best ≤ n) ∧
    (best = T.length ∨ ∃ f ∈ Method.identity :: methods, ∃ t', runMethod f T (some t) = .error (.minFailed t' best)) :=
  tryLoop_best T t _ _ best t0 h

/-- **minimiseTables_equiv.** `minimise_tables`: every chip's table is minimised by
`minimise_table` with that chip's target; the result holds exactly the non-empty results (an
empty result means every matched key is default-routed, and the chip gets no table). -/
theorem minimiseTables_equiv (chips : List (Nat × List Entry × Option Nat)) (methods : List Method)
    (out : List (Nat × List Entry)) (h : minimiseTables chips methods = .ok out) :
    (∀ x ∈ chips, ∃ T', minimiseTable x.2.1 x.2.2 methods = .ok T' ∧ (T' = [] ∨ (x.1, T') ∈ out)) ∧
    (∀ y ∈ out, y.2 ≠ [] ∧ ∃ x ∈ chips, x.1 = y.1 ∧ minimiseTable x.2.1 x.2.2 methods = .ok y.2) := by
  induction chips generalizing out with
  | nil => simp only [minimiseTables] at h; cases h; simp
  | cons x rest ih =>
    obtain ⟨chip, T, target⟩ := x
    simp only [minimiseTables] at h
    split at h
    · cases h
    · rename_i r hr
      split at h
      · cases h
      · rename_i out' hout
        obtain ⟨ih1, ih2⟩ := ih out' hout
        cases h
        constructor
        · intro x hx
          rcases List.mem_cons.mp hx with rfl | hx
          · refine ⟨r, hr, ?_⟩
            by_cases he : r.isEmpty = true
            · left; simpa using he
            · right; simp [he]
          · obtain ⟨T', h1, h2⟩ := ih1 x hx
            refine ⟨T', h1, h2.imp id ?_⟩
            intro hm; split
            · exact hm
            · exact List.mem_cons_of_mem _ hm
        · intro y hy
          by_cases he : r.isEmpty = true
          · rw [if_pos he] at hy
            obtain ⟨h1, x, hx, h2⟩ := ih2 y hy
            exact ⟨h1, x, List.mem_cons_of_mem _ hx, h2⟩
          · rw [if_neg he] at hy
            rcases List.mem_cons.mp hy with rfl | hy
            · exact ⟨by simpa using he, (chip, T, target), by simp, rfl, hr⟩
            · obtain ⟨h1, x, hx, h2⟩ := ih2 y hy
              exact ⟨h1, x, List.mem_cons_of_mem _ hx, h2⟩

/-! ## The loops terminate: the out-of-fuel marker of the model is unreachable -/

/-- **orderedCovering_total.** `ordered_covering` never runs out of fuel (every round of the
down-check removes a member of the merge; every applied merge shortens the table), for any
table, target and alias dictionary: its only error is `MinimisationFailedError`. -/
theorem orderedCovering_total (T : List Entry) (target : Option Nat) (A : Aliases) (noRaise : Bool) :
    orderedCovering T target A noRaise ≠ .error .fuel := by
  have h := ocLoop_total (T.length + 2) (sortTable T) target A (sortTable_sorted T)
    (by rw [sortTable_length]; omega)
  simp only [orderedCovering]
  split
  · rename_i e he
    intro hc; cases hc; exact h he
  · split
    · split
      · intro hc; cases hc
      · intro hc; cases hc
    · intro hc; cases hc

theorem runMethod_total (f : Method) (T : List Entry) (target : Option Nat) :
    runMethod f T target ≠ .error .fuel := by
  cases f with
  | identity =>
    simp only [runMethod, identityMin]
    split
    · intro h; cases h
    · split <;> intro h <;> cases h
  | rd =>
    simp only [runMethod, removeDefault]
    split
    · split <;> intro h <;> cases h
    · intro h; cases h
  | oc =>
    simp only [runMethod, ocMinimise]
    split
    · rename_i e he
      intro hc; cases hc
      exact orderedCovering_total T target [] true he
    · simp only [removeDefault]
      split
      · split <;> intro h <;> cases h
      · intro h; cases h

/-- **minimiseTable_total.** The method chain's only error is `MinimisationFailedError`, and
without a target it always returns a table. -/
theorem minimiseTable_total (T : List Entry) (target : Option Nat) (methods : List Method) :
    minimiseTable T target methods ≠ .error .fuel ∧
    (target = none → ∃ T', minimiseTable T none methods = .ok T') := by
  constructor
  · intro h
    cases target with
    | some t =>
      rcases minimiseTable_failure T t methods _ h with ⟨b, hb⟩ | _
      · cases hb
      · simp only [minimiseTable] at h
        generalize (Method.identity :: methods) = ms at h
        generalize T.length = best at h
        induction ms generalizing best with
        | nil => simp only [tryLoop] at h; cases h
        | cons f rest ih =>
          simp only [tryLoop] at h
          split at h
          · cases h
          · exact ih _ h
          · rename_i e' hne hf
            cases h
            exact runMethod_total f T (some t) hf
    | none =>
      simp only [minimiseTable] at h
      generalize (Method.identity :: methods) = ms at h
      generalize (none : Option (List Entry)) = best at h
      induction ms generalizing best with
      | nil => cases best <;> simp only [minLoop] at h <;> cases h
      | cons f rest ih =>
        simp only [minLoop] at h
        split at h
        · rename_i e he
          cases h
          exact runMethod_total f T none he
        · split at h
          · exact ih _ h
          · exact ih _ h
  · intro _
    have key : ∀ (ms : List Method) (best : Option (List Entry)), ∃ T', minLoop T ms best = .ok T' := by
      intro ms
      induction ms with
      | nil => intro best; cases best <;> exact ⟨_, rfl⟩
      | cons f rest ih =>
        intro best
        simp only [minLoop]
        have hno : ∀ e, runMethod f T none ≠ .error e := by
          intro e he
          cases e with
          | fuel => exact runMethod_total f T none he
          | minFailed a b =>
            cases f with
            | identity => simp [runMethod, identityMin] at he
            | rd => simp [runMethod, removeDefault] at he
            | oc =>
              simp only [runMethod, ocMinimise] at he
              split at he
              · rename_i e' he'
                cases he
                simp only [orderedCovering] at he'
                split at he'
                · rename_i e'' hl
                  cases he'
                  -- the loop itself never produces MinimisationFailed
                  have : ∀ fuel T A, ocLoop fuel T none A ≠ .error (.minFailed a b) := by
                    intro fuel
                    induction fuel with
                    | zero => intro T A h; simp [ocLoop] at h
                    | succ fuel ih =>
                      intro T A h
                      simp only [ocLoop] at h
                      split at h
                      · split at h
                        · cases h
                        · split at h
                          · cases h
                          · exact ih _ _ h
                      · cases h
                  exact this _ _ _ hl
                · cases he'
              · simp [removeDefault] at he
        split
        · rename_i e he; exact absurd he (hno e)
        · split
          · exact ih _
          · exact ih _
    simp only [minimiseTable]
    exact key _ _

/-- **target clause, ordered covering.** With a target and without `no_raise` the call returns a
table that meets the target, or raises `MinimisationFailedError(target, n)` with `n > target` -
nothing else. -/
theorem orderedCovering_target_total (T : List Entry) (t : Nat) (A : Aliases) :
    (∃ r, orderedCovering T (some t) A false = .ok r ∧ r.1.length ≤ t) ∨
    (∃ n, orderedCovering T (some t) A false = .error (.minFailed t n) ∧ t < n) := by
  rcases orderedCovering_target T t A with h | h | h
  · exact Or.inl h
  · exact Or.inr h
  · exact absurd h (orderedCovering_total T (some t) A false)

/-- **target clause, method chain.** With a target, `minimise_table` returns a table that meets
it or raises `MinimisationFailedError(target, best)` - nothing else (see `minimiseTable_best`
for what `best` is). -/
theorem minimiseTable_target_total (T : List Entry) (t : Nat) (methods : List Method) :
    (∃ T', minimiseTable T (some t) methods = .ok T') ∨
    (∃ best, minimiseTable T (some t) methods = .error (.minFailed t best)) := by
  cases h : minimiseTable T (some t) methods with
  | ok T' => exact Or.inl ⟨T', rfl⟩
  | error e =>
    rcases minimiseTable_failure T t methods e h with ⟨b, rfl⟩ | rfl
    · exact Or.inr ⟨b, rfl⟩
    · exact absurd h (minimiseTable_total T (some t) methods).1

/-- **minimiseTables_routes.** Many chips: when `minimise_tables` returns, every chip whose table
is orthogonal or generality-sorted (entries listing at least one source) got a table that routes
every matched key identically, is not longer and meets that chip's target; a chip is absent from
the result only if its minimised table is empty (every matched key is then default-routed). -/
theorem minimiseTables_routes (chips : List (Nat × List Entry × Option Nat)) (methods : List Method)
    (out : List (Nat × List Entry)) (h : minimiseTables chips methods = .ok out)
    (x : Nat × List Entry × Option Nat) (hx : x ∈ chips) (hg : Good x.2.1)
    (hsrc : ∀ e ∈ x.2.1, e.sources ≠ 0) :
    ∃ T', (T' = [] ∨ (x.1, T') ∈ out) ∧ RouteEquiv x.2.1 T' ∧ T'.length ≤ x.2.1.length ∧
      (∀ t, x.2.2 = some t → T'.length ≤ t) := by
  obtain ⟨T', h1, h2⟩ := (minimiseTables_equiv chips methods out h).1 x hx
  obtain ⟨h3, h4, h5⟩ := minimiseTable_equiv x.2.1 x.2.2 methods T' hg hsrc h1
  exact ⟨T', h2, h3, h4, h5⟩

/-- **minimiseTables_failure.** The only error of `minimise_tables` is the
`MinimisationFailedError` of the first chip (in dictionary order) whose table cannot be brought
to its target, carrying that chip, its target and the best size reached. -/
theorem minimiseTables_failure (chips : List (Nat × List Entry × Option Nat)) (methods : List Method)
    (chip : Nat) (e : Err) (h : minimiseTables chips methods = .error (chip, e)) :
    ∃ x ∈ chips, x.1 = chip ∧ minimiseTable x.2.1 x.2.2 methods = .error e ∧
      ∃ t best, x.2.2 = some t ∧ e = .minFailed t best := by
  induction chips with
  | nil => simp [minimiseTables] at h
  | cons y rest ih =>
    obtain ⟨c, T, target⟩ := y
    simp only [minimiseTables] at h
    split at h
    · rename_i e' he
      cases h
      refine ⟨(chip, T, target), by simp, rfl, he, ?_⟩
      cases target with
      | none =>
        obtain ⟨T', hT'⟩ := (minimiseTable_total T none methods).2 rfl
        rw [hT'] at he; cases he
      | some t =>
        rcases minimiseTable_target_total T t methods with ⟨T', hT'⟩ | ⟨best, hb⟩
        · rw [hT'] at he; cases he
        · rw [hb] at he; cases he; exact ⟨t, best, rfl, rfl⟩
    · split at h
      · rename_i e' he
        cases h
        obtain ⟨x, hx, h1, h2⟩ := ih he
        exact ⟨x, List.mem_cons_of_mem _ hx, h1, h2⟩
      · cases h

/-! ## The oracle of the check is the specification -/

/-- **oracle_decides.** `routeEquivBrute` - the function the check runs on every table returned
by the implementation, enumerating only the key bits that can make a difference - returns no
failing key exactly when `RouteEquiv T T'` holds over all 2^32 keys. -/
theorem oracle_decides (T T' : List Entry) : routeEquivBrute T T' = none ↔ RouteEquiv T T' :=
  routeEquivBrute_none_iff T T'

/-- and a key it returns is a genuine counterexample -/
theorem oracle_counterexample (T T' : List Entry) (k : W) (h : routeEquivBrute T T' = some k) :
    ¬ KeyOk T T' k := by
  simp only [routeEquivBrute] at h
  have := List.find?_some h
  intro hk
  rw [(keyOkB_iff T T' k).mpr hk] at this
  cases this

/-- non-vacuity of the chain: an orthogonal table with known sources is minimised to one entry -/
example :
    let T : List Entry := [⟨4, 0#32, 0xf#32, 8⟩, ⟨4, 1#32, 0xf#32, 16⟩, ⟨4, 2#32, 0xf#32, 8⟩, ⟨4, 3#32, 0xf#32, 8⟩]
    SortedGen T ∧ (∀ e ∈ T, e.sources ≠ 0) ∧ minimiseTable T none = .ok [⟨4, 0#32, 0xc#32, 24⟩] := by
  refine ⟨by unfold SortedGen; decide, by decide, by rfl⟩


/-! ## Deepening 1: the library's own equivalence checker `utils.table_is_subset_of`

`RouteSame a b` is `RouteEquiv a b` without the clause about source directions (the function never
looks at the sources of `b`).  `WellFormed a`: no key bit outside the mask.  -/

/-- **tableIsSubsetOf_exact** (no hypotheses).  `table_is_subset_of(a, b)` answers True exactly
when every entry that survives `expand_entries(a, ignore_xs=get_common_xs(b))` has its
*representative key* (the expanded entry's own `key`) routed by the first match of `b` to the
entry's route, or unmatched by `b` with the entry default-routable. -/
theorem wellFormed_iff (T : List Entry) : WellFormed T ↔ wellFormedB T = true := by
  simp [WellFormed, wellFormedB]

deriving instance DecidableEq for Except

theorem tableIsSubsetOf_exact (a b : List Entry) :
    tableIsSubsetOf a b = true ↔ ∀ ee ∈ expandEntries a (some (commonXs b)), RepOk b ee := by
  simp only [tableIsSubsetOf, List.all_eq_true, subsetCheckOne_iff]

/-- **tableIsSubsetOf_sound.** For a well-formed orthogonal `a` (any `b`): True implies that every
key matched in `a` gets the same route from `b`'s first match, or is unmatched by `b` and
default-routed exactly as its entry of `a` routes it. -/
theorem tableIsSubsetOf_sound (a b : List Entry) (hw : WellFormed a) (ho : Orthogonal a)
    (h : tableIsSubsetOf a b = true) : RouteSame a b := subset_sound hw ho h

/-- **tableIsSubsetOf_complete.** ... and conversely: on a well-formed orthogonal `a` the function
is exact for `RouteSame`. -/
theorem tableIsSubsetOf_iff (a b : List Entry) (hw : WellFormed a) (ho : Orthogonal a) :
    tableIsSubsetOf a b = true ↔ RouteSame a b :=
  ⟨subset_sound hw ho, subset_complete hw ho⟩

/-- **tableIsSubsetOf_of_routeEquiv.** It never answers False on a pair that satisfies the
property's `RouteEquiv`, when `a` is well formed and orthogonal. -/
theorem tableIsSubsetOf_of_routeEquiv (a b : List Entry) (hw : WellFormed a) (ho : Orthogonal a)
    (h : RouteEquiv a b) : tableIsSubsetOf a b = true :=
  subset_complete hw ho (routeEquiv_routeSame h)

/-- **routeSame_oracle.** How the check decides `RouteSame` on the code's answers: it is
`RouteEquiv` against `b` with every source direction listed, hence decided by the proved oracle
`routeEquivBrute` (sources are bit sets below 2^25). -/
theorem routeSame_oracle (a b : List Entry) (h : ∀ e ∈ a, e.sources < 2 ^ 25) :
    RouteSame a b ↔ routeEquivBrute a (fullSources b) = none := by
  rw [oracle_decides]; exact routeSame_iff_fullSources a b h

/-- **repo oracle passes on the minimisers.** The assertion used by the repository's minimiser
tests, `table_is_subset_of(table, minimise(table))`, is a consequence of the proved `RouteEquiv`
for every well-formed orthogonal table with listed sources and any method list. -/
theorem minimiseTable_passes_tableIsSubsetOf (T : List Entry) (target : Option Nat) (methods : List Method)
    (T' : List Entry) (hw : WellFormed T) (ho : Orthogonal T) (hsrc : ∀ e ∈ T, e.sources ≠ 0)
    (h : minimiseTable T target methods = .ok T') : tableIsSubsetOf T T' = true :=
  tableIsSubsetOf_of_routeEquiv T T' hw ho (minimiseTable_equiv T target methods T' (Or.inl ho) hsrc h).1

theorem minimise_passes_tableIsSubsetOf (T : List Entry) (target : Option Nat)
    (T' : List Entry) (hw : WellFormed T) (ho : Orthogonal T) (hsrc : ∀ e ∈ T, e.sources ≠ 0)
    (h : ocMinimise T target = .ok T') : tableIsSubsetOf T T' = true :=
  tableIsSubsetOf_of_routeEquiv T T' hw ho (minimise_equiv T target T' (Or.inl ho) hsrc h).1

/-- **tableIsSubsetOf_false_on_equiv.** When `a` is well formed, `b` does route every key of `a`
identically and the function nevertheless answers False, the reason is always the same: a
surviving expanded entry `ee` (from entry `e` of `a`) whose representative key is first-matched
in `a` by a *different* entry `e0` with another route (or `e0` default-routable, `e` not) - so
`a` is not orthogonal, and `ee` was not dropped by the `seen_keys` filter although it is hidden
at that key. -/
theorem tableIsSubsetOf_false_on_equiv (a b : List Entry) (hw : WellFormed a) (hs : RouteSame a b)
    (h : tableIsSubsetOf a b = false) :
    ∃ ee ∈ expandEntries a (some (commonXs b)), ∃ e ∈ a, ee ∈ expandEntry (commonXs b) e ∧
      ∃ e0 ∈ a, lookup a ee.key = some e0 ∧ e0 ≠ e ∧ e.matches ee.key = true ∧
        (e0.route ≠ e.route ∨ (DefaultRouted e0 ∧ ¬ DefaultRouted e)) :=
  subset_false_shadow hw hs h

/-- **not sound on overlapping tables.**  `a = [XXX…X0 -> E, XXX…0X -> N]` (well formed, sorted by
generality), `b = [X…X -> E]`: every position is a common X of `b`, nothing is expanded, both
entries of `a` have key 0 and the second is dropped by the `seen_keys` filter although it alone
matches key 1.  The function answers True; key 1 goes N in `a` and E in `b`.  (Replayed on the
real code by the harness.) -/
theorem tableIsSubsetOf_unsound_overlapping :
    let a : List Entry := [⟨1, 0#32, 1#32, 2 ^ 24⟩, ⟨4, 0#32, 2#32, 2 ^ 24⟩]
    let b : List Entry := [⟨1, 0#32, 0#32, 2 ^ 24⟩]
    WellFormed a ∧ SortedGen a ∧ tableIsSubsetOf a b = true ∧ ¬ RouteSame a b := by
  refine ⟨(wellFormed_iff _).mpr (by decide), by unfold SortedGen; decide, by decide, ?_⟩
  intro h
  rcases h 1#32 ⟨4, 0#32, 2#32, 2 ^ 24⟩ (by decide) with ⟨e', h1, h2⟩ | ⟨h1, _⟩
  · have h3 : lookup [(⟨1, 0#32, 0#32, 2 ^ 24⟩ : Entry)] 1#32 = some ⟨1, 0#32, 0#32, 2 ^ 24⟩ := by decide
    rw [h3] at h1
    cases h1
    revert h2; decide
  · revert h1; decide

/-- **not sound on ill-formed tables.**  An entry with a key bit outside its mask matches nothing
but still claims its key in `seen_keys`: `a = [(E, key 1, mask 0), (N, key 1, mask 1)]` is
orthogonal, `b = [(E, key 1, mask 1)]`; the answer is True, key 1 goes N in `a` and E in `b`. -/
theorem tableIsSubsetOf_unsound_illformed :
    let a : List Entry := [⟨1, 1#32, 0#32, 2 ^ 24⟩, ⟨4, 1#32, 1#32, 2 ^ 24⟩]
    let b : List Entry := [⟨1, 1#32, 1#32, 2 ^ 24⟩]
    orthogonalB a = true ∧ tableIsSubsetOf a b = true ∧ ¬ RouteSame a b := by
  refine ⟨by decide, by decide, ?_⟩
  intro h
  rcases h 1#32 ⟨4, 1#32, 1#32, 2 ^ 24⟩ (by decide) with ⟨e', h1, h2⟩ | ⟨h1, _⟩
  · have h3 : lookup [(⟨1, 1#32, 1#32, 2 ^ 24⟩ : Entry)] 1#32 = some ⟨1, 1#32, 1#32, 2 ^ 24⟩ := by decide
    rw [h3] at h1
    cases h1
    revert h2; decide
  · revert h1; decide

/-- **not complete on overlapping tables.**  `a = [X0 -> E, X1 -> E, 1X -> N]` (sorted by
generality; the last entry is completely hidden), `b = [XX -> E]`: the tables route every key
identically - even `RouteEquiv a b` holds - but the function answers False, because the hidden
entry's representative key `10` was not seen before. -/
theorem tableIsSubsetOf_incomplete_overlapping :
    let a : List Entry := [⟨1, 0#32, 1#32, 2 ^ 24⟩, ⟨1, 1#32, 1#32, 2 ^ 24⟩, ⟨4, 2#32, 2#32, 2 ^ 24⟩]
    let b : List Entry := [⟨1, 0#32, 0#32, 2 ^ 24⟩]
    WellFormed a ∧ SortedGen a ∧ RouteEquiv a b ∧ tableIsSubsetOf a b = false := by
  refine ⟨(wellFormed_iff _).mpr (by decide), by unfold SortedGen; decide, (oracle_decides _ _).mp (by decide), by decide⟩

/-- the documented examples of `get_common_xs`, `expand_entries` and `table_is_subset_of`'s
default-route case, on the model (the harness replays all docstring examples on the code) -/
example : commonXs [⟨0, 4#32, 0xfffffffc#32, 0⟩, ⟨0, 2#32, 0xfffffff2#32, 0⟩] = 1#32 := by decide
example : (expandEntries [⟨0, 4#32, 0xfffffffc#32, 0⟩, ⟨0, 2#32, 0xfffffff2#32, 0⟩] none).map (fun e => (e.key, e.mask))
    = [(4#32, 0xfffffffe#32), (6#32, 0xfffffffe#32), (2#32, 0xfffffffe#32), (10#32, 0xfffffffe#32),
       (14#32, 0xfffffffe#32)] := by decide
example : tableIsSubsetOf [⟨4, 0#32, 0xf#32, 32⟩] [] = true := by decide

/-! ## Deepening 2: the hypothesis `sources ≠ ∅` of `minimise_equiv` is necessary -/

/-- **minimise_needs_sources.**  `T = [0000 -> E (sources = set()), 0001 -> E (from W)]` is
orthogonal and sorted; ordered covering merges both into `000X -> E` with sources `{W}`, which
default-route removal then drops: `minimise` returns the empty table, but the first entry never
listed the single link the packet must have come from, so the property's default-routing clause
does not hold for key 0000.  (`sources = set()` is outside the documented domain - `{None}` means
unknown; the harness replays this on the real code as an out-of-domain note.) -/
theorem minimise_needs_sources :
    let T : List Entry := [⟨1, 0#32, 0xf#32, 0⟩, ⟨1, 1#32, 0xf#32, 8⟩]
    Orthogonal T ∧ SortedGen T ∧ ocMinimise T none = .ok [] ∧ minimiseTable T none = .ok [] ∧
      ¬ RouteEquiv T [] := by
  refine ⟨?_, by unfold SortedGen; decide, by rfl, by rfl, ?_⟩
  · unfold Orthogonal
    simp only [List.pairwise_cons, List.mem_cons, List.not_mem_nil, or_false, forall_eq, false_imp_iff,
      implies_true, List.Pairwise.nil, and_true]
    intro k ⟨h1, h2⟩
    rw [matches_iff] at h1 h2
    simp only at h1 h2
    rw [h1] at h2
    revert h2; decide
  · intro h
    have := (oracle_decides _ _).mpr h
    revert this; decide

/-! ## Deepening 3: user-supplied alias dictionaries -/

/-- **userAliases_precondition.** The hypothesis of `orderedCovering_inv` on the alias dictionary is
exactly `AliasCover`: every key whose first match in the *sorted* table is `o` is matched by one
of the key/masks listed for `o` (`aliases.get(km(o), {km(o)})`). -/
theorem userAliases_precondition (S : List Entry) (A : Aliases) : Inv S S A ↔ AliasCover S A :=
  inv_self_iff S A

/-- **aliasOracle_decides.** The checker the harness runs on generated dictionaries decides that
precondition (over all 2^32 keys). -/
theorem aliasOracle_decides (S : List Entry) (A : Aliases) : aliasOkBrute S A = none ↔ Inv S S A := by
  rw [inv_self_iff]; exact aliasOkBrute_none_iff' S A

/-- a sufficient syntactic condition: every key/mask of the table that the dictionary lists is
among its own aliases -/
theorem userAliases_self (S : List Entry) (A : Aliases)
    (h : ∀ e ∈ S, ∀ v, alGet A e.km = some v → e.km ∈ v) : Inv S S A :=
  (inv_self_iff S A).mpr (aliasCover_of_self S A h)

/-- **orderedCovering_userAliases.** `ordered_covering(table, target, aliases, no_raise)` with a
user dictionary satisfying `AliasCover` on the sorted table: for an orthogonal or
generality-sorted table the returned table routes every matched key identically (first match,
same route, the original's sources listed), is sorted and not longer, and the returned dictionary
satisfies the invariant again. -/
theorem orderedCovering_userAliases (T : List Entry) (target : Option Nat) (A : Aliases) (noRaise : Bool)
    (T' : List Entry) (A' : Aliases) (hg : Good T) (hA : AliasCover (sortTable T) A)
    (h : orderedCovering T target A noRaise = .ok (T', A')) :
    RouteEquiv T T' ∧ T'.length ≤ T.length ∧ SortedGen T' ∧ Inv (sortTable T) T' A' := by
  obtain ⟨h1, h2, h3⟩ := orderedCovering_inv T target A noRaise T' A' ((inv_self_iff _ _).mpr hA) h
  refine ⟨?_, h3, h2, h1⟩
  intro k o ho
  rw [← lookup_sortTable hg k] at ho
  exact inv_routeEquiv _ _ _ h1 k o ho

/-- **userAliases_precondition_needed.**  Without `AliasCover` the conclusion can fail:
`T = [101 -> E, XX1 -> N, XX1 -> E]` (sorted by generality) with the dictionary
`{XX1: {X00}}` - the listed alias does not cover `XX1` - makes the down-check blind for the two
`XX1` entries; `ordered_covering` merges `101` with the *second* `XX1` entry and inserts the result
above the first one: key `001` went N and now goes E.  (Replayed on the real code by the harness.) -/
theorem userAliases_precondition_needed :
    let T : List Entry := [⟨1, 5#32, 7#32, 2 ^ 24⟩, ⟨4, 1#32, 1#32, 2 ^ 24⟩, ⟨1, 1#32, 1#32, 2 ^ 24⟩]
    let A : Aliases := [((1#32, 1#32), [(0#32, 3#32)])]
    let T' : List Entry := [⟨1, 1#32, 1#32, 2 ^ 24⟩, ⟨4, 1#32, 1#32, 2 ^ 24⟩]
    SortedGen T ∧ ¬ AliasCover (sortTable T) A ∧
      (∃ A', orderedCovering T none A true = .ok (T', A')) ∧ ¬ RouteEquiv T T' := by
  refine ⟨by unfold SortedGen; decide, ?_, ⟨_, by rfl⟩, ?_⟩
  · intro h
    have := (aliasOkBrute_none_iff' _ _).mpr h
    revert this; decide
  · intro h
    have := (oracle_decides _ _).mpr h
    revert this; decide

/-- non-vacuity: a dictionary that splits `000X` into its two halves is valid, one that lists only
one half is not -/
example : AliasCover [⟨1, 0#32, 0xe#32, 8⟩] [((0#32, 0xe#32), [(0#32, 0xf#32), (1#32, 0xf#32)])] :=
  (aliasOkBrute_none_iff' _ _).mp (by decide)
example : ¬ AliasCover [⟨1, 0#32, 0xe#32, 8⟩] [((0#32, 0xe#32), [(0#32, 0xf#32)])] := by
  intro h
  have := (aliasOkBrute_none_iff' _ _).mpr h
  revert this; decide

/-! ## Deepening 4: `Routes` and `RoutingTableEntry` (entries.py) -/

/-- the enumeration as the source has it (independent of the definition order and of the names of
the core routes): 24 members with distinct names whose values are exactly 0..23, the six links
carry the hardware numbers E=0, NE=1, N=2, W=3, SW=4, S=5 (so that `(l + 3) % 6` is the opposite
link), and `sources` defaults to `{None}` -/
theorem routes_members :
    Rig.Gen.C04Routes.members.length = 24 ∧
    (List.range 24).all (fun v => (List.map (·.2) Rig.Gen.C04Routes.members).contains v) = true ∧
    (List.map (·.1) Rig.Gen.C04Routes.members).Nodup ∧
    [("east", 0), ("north_east", 1), ("north", 2), ("west", 3), ("south_west", 4), ("south", 5)].all
      (fun p => Rig.Gen.C04Routes.members.contains p) = true ∧
    Rig.Gen.C04Routes.defaultSources = [24] := by
  refine ⟨by decide, by decide, by decide, by decide, by decide⟩

theorem routesOfValue_ok : ∀ v, v < 24 → routesOfValue v = .ok v := by decide

/-- **routesCore_spec.** `Routes.core(n)` is `Routes(6 + n)` for 0 ≤ n ≤ 17 and `ValueError`
otherwise. -/
theorem routesCore_spec (n : Int) (r : Nat) :
    routesCore n = .ok r ↔ (0 ≤ n ∧ n ≤ 17 ∧ (r : Int) = 6 + n) := by
  simp only [routesCore]
  by_cases h : 0 ≤ n ∧ n ≤ 17
  · have hv : (6 + n).toNat < 24 := by omega
    rw [if_neg (by simpa using h), routesOfValue_ok _ hv]
    constructor
    · intro hr; cases hr; exact ⟨h.1, h.2, by omega⟩
    · intro ⟨_, _, hr⟩; congr 1; omega
  · rw [if_pos (by simpa using h)]
    constructor
    · intro hr; cases hr
    · intro ⟨h1, h2, _⟩; exact absurd ⟨h1, h2⟩ h

theorem routesCore_error (n : Int) : routesCore n = .error .valueError ↔ ¬ (0 ≤ n ∧ n ≤ 17) := by
  simp only [routesCore]
  by_cases h : 0 ≤ n ∧ n ≤ 17
  · have hv : (6 + n).toNat < 24 := by omega
    rw [if_neg (by simpa using h), routesOfValue_ok _ hv]
    simp [h]
  · rw [if_pos (by simpa using h)]; simp [h]

/-- **core n <-> route value / route bit 6 + n**: a core route is a core, not a link, and
`core_num` gives the number back; links are the values 0..5 and have no core number. -/
theorem core_roundtrip (n : Nat) (hn : n ≤ 17) :
    routesCore n = .ok (6 + n) ∧ isCore (6 + n) = true ∧ isLink (6 + n) = false ∧
    coreNum (6 + n) = .ok n ∧ routeOpposite (6 + n) = .error .valueError := by
  refine ⟨(routesCore_spec n (6 + n)).mpr ⟨by omega, by omega, by omega⟩, ?_, ?_, ?_, ?_⟩
  · simp [isCore, isLink]
  · simp [isLink]
  · simp [coreNum, isCore, isLink]
  · simp [routeOpposite, isLink]

theorem link_spec (r : Nat) :
    (isLink r = true ↔ r < 6) ∧ (isLink r = true → coreNum r = .error .valueError) ∧
    (isLink r = true → ∃ r', routeOpposite r = .ok r' ∧ r' = (r + 3) % 6 ∧ isLink r' = true ∧
      routeOpposite r' = .ok r) := by
  refine ⟨by simp [isLink], ?_, ?_⟩
  · intro h; simp [coreNum, isCore, h]
  · intro h
    have h6 : r < 6 := by simpa [isLink] using h
    have : r = 0 ∨ r = 1 ∨ r = 2 ∨ r = 3 ∨ r = 4 ∨ r = 5 := by omega
    refine ⟨(r + 3) % 6, ?_, rfl, ?_, ?_⟩ <;>
      rcases this with rfl | rfl | rfl | rfl | rfl | rfl <;> decide

/-- `Routes.opposite` agrees with `Links.opposite` (rig/links.py, translated for C03) -/
theorem routeOpposite_links :
    (List.range 6).map routeOpposite = Rig.Gen.C03Links.oppositeTable.map Except.ok := by decide

theorem bitsOf_fold_testBit (l : List Nat) (acc i : Nat) :
    (l.foldl (fun a j => a ||| 2 ^ j) acc).testBit i = (acc.testBit i || l.contains i) := by
  induction l generalizing acc with
  | nil => simp
  | cons x r ih =>
    simp only [List.foldl_cons, ih, Nat.testBit_or, Nat.testBit_two_pow, List.contains_cons, Bool.or_assoc]
    congr 2
    by_cases h : x = i
    · subst h; simp
    · have h' : ¬ i = x := fun e => h e.symm
      simp [h, h']

/-- a set of routes as stored in an entry: bit i <-> Routes(i) is a member -/
theorem bitsOf_testBit (l : List Nat) (i : Nat) : (bitsOf l).testBit i = l.contains i := by
  simp [bitsOf, bitsOf_fold_testBit]

/-- **mkEntry_spec.** `RoutingTableEntry(route, key, mask[, sources])` validates nothing; route
and sources are stored as sets (order and duplicates do not matter); sources default to `{None}`;
`Routes.core(n)` in the route is bit 6 + n. -/
theorem mkEntry_spec (route : List Nat) (key mask : W) (sources : Option (List Nat)) :
    let e := mkEntry route key mask sources
    e.key = key ∧ e.mask = mask ∧ (∀ i, e.route.testBit i = route.contains i) ∧
    (∀ s, sources = some s → ∀ i, e.sources.testBit i = s.contains i) ∧
    (sources = none → e.sources = 2 ^ 24) := by
  refine ⟨rfl, rfl, fun i => bitsOf_testBit _ i, ?_, ?_⟩
  · intro s hs i; subst hs; exact bitsOf_testBit _ i
  · intro hs; subst hs; show bitsOf Rig.Gen.C04Routes.defaultSources = 2 ^ 24; decide

/-- the default-routing clause of the specification in terms of `Routes.opposite` -/
theorem defaultRouted_iff_opposite (e : Entry) :
    DefaultRouted e ↔ ∃ l sink, isLink l = true ∧ e.sources = bitsOf [l] ∧
      routeOpposite l = .ok sink ∧ e.route = bitsOf [sink] := by
  constructor
  · intro ⟨l, hl, hs, hr⟩
    obtain ⟨r', h1, h2, _, _⟩ := (link_spec l).2.2 (by simp [isLink, hl])
    exact ⟨l, r', by simp [isLink, hl], by simp [bitsOf, hs], h1, by simp [bitsOf, hr, h2]⟩
  · intro ⟨l, sink, hl, hs, ho, hr⟩
    obtain ⟨r', h1, h2, _, _⟩ := (link_spec l).2.2 hl
    rw [h1] at ho; cases ho
    exact ⟨l, by simpa [isLink] using hl, by simp [bitsOf] at hs; exact hs, by simp [bitsOf, h2] at hr; exact hr⟩

end Rig.C04
