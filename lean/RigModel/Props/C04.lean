/-
C04 - table minimisation never changes where a matched key is routed.
-/
import RigModel.Model.C04
set_option linter.unusedSimpArgs false
set_option linter.unusedVariables false

namespace Rig.C04

end Rig.C04
