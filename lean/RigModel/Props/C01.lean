/-
C01 - multicast packets reach exactly the cores of their net's sinks.
Property theorems; helper lemmas are in RigModel/Lemmas/C01*.lean.

`deliver m dev T k src` (Model/C01.lean) is what the machine `m` with tables `T` and device links
`dev` does with a packet with key `k` injected at chip `src`: the list of events (core deliveries,
exits over device links, and the flags dropped / deadHop / loop / fuelOut).
`Delivered evs cores exits` is the statement of C01 for one packet: `evs` is duplicate free and
consists of exactly one delivery per expected core and one exit per expected device link - hence no
flag, nothing missing, nothing extra, nothing twice.
-/
import RigModel.Model.C01
import RigModel.Lemmas.C01
import RigModel.Lemmas.C01Pipe
import RigModel.Props.C03
import RigModel.Props.C04
import RigModel.Model.C02
import RigModel.Model.C05
set_option linter.unusedSimpArgs false
set_option linter.unusedVariables false

namespace Rig.C01
open Rig.C03 (Chip Machine chipOk linkOk step opp Tree)

/-- smoke test of the semantics: chip (0,0) sends key 5 east, chip (1,0) delivers to cores 0 and 1 -/
theorem deliver_example :
    deliver { w := 2, h := 1, deadChips := [], deadLinks := [] } []
      (tableAt [((0, 0), [{ route := 1, key := 5#32, mask := 7#32, sources := 2 ^ 24 }]),
                ((1, 0), [{ route := 192, key := 5#32, mask := 7#32, sources := 8 }])]) 5#32 (0, 0)
      = [.core (1, 0) 0, .core (1, 0) 1] := by decide +kernel

theorem nodupEv_iff (l : List Ev) : nodupEv l = true ↔ l.Nodup := by
  induction l with
  | nil => simp [nodupEv]
  | cons e r ih => simp [nodupEv, ih, List.nodup_cons]

/-- **The oracle is the specification.**  The executable check the harness applies to the events
computed from the implementation's tables decides `Delivered`. -/
theorem deliveredB_iff (evs : List Ev) (ec ex : List (Chip × Nat)) :
    deliveredB evs ec ex = true ↔ Delivered evs ec ex := by
  simp only [deliveredB, Delivered, Bool.and_eq_true, nodupEv_iff, List.all_eq_true]
  constructor
  · rintro ⟨⟨⟨hn, hall⟩, hc⟩, hx⟩
    refine ⟨hn, fun ev => ⟨fun h => ?_, ?_⟩⟩
    · have := hall ev h
      cases ev with
      | core c p => exact Or.inl ⟨(c, p), by simpa [evAllowed] using this, rfl⟩
      | exit c l => exact Or.inr ⟨(c, l), by simpa [evAllowed] using this, rfl⟩
      | _ => simp [evAllowed] at this
    · rintro (⟨x, hx', rfl⟩ | ⟨x, hx', rfl⟩)
      · simpa using hc x hx'
      · simpa using hx x hx'
  · rintro ⟨hn, h⟩
    refine ⟨⟨⟨hn, ?_⟩, ?_⟩, ?_⟩
    · intro ev hev
      rcases (h ev).1 hev with ⟨x, hx, rfl⟩ | ⟨x, hx, rfl⟩ <;> simpa [evAllowed] using hx
    · intro x hx; simpa using (h _).2 (Or.inl ⟨x, hx, rfl⟩)
    · intro x hx; simpa using (h _).2 (Or.inr ⟨x, hx, rfl⟩)

/-- a delivered packet raises no flag -/
theorem delivered_no_flag {evs : List Ev} {ec ex : List (Chip × Nat)} (h : Delivered evs ec ex) :
    flags evs = [] := by
  simp only [flags, List.filter_eq_nil_iff]
  intro ev hev
  rcases (h.2 ev).1 hev with ⟨x, _, rfl⟩ | ⟨x, _, rfl⟩ <;> simp [Ev.isFlag]

/-! ## delivery along a routing tree -/

/-- **deliver_of_tree.**  If the tables agree with a routing tree for key `k` (`Agrees`: every node's
chip looks `k` up to exactly the node's out-set, hops are working links between working adjacent
chips, leaf links are device links, chips differ from the path so far), the chips of the tree are
distinct and the fuel covers the tree, then a packet arriving at the root produces exactly the
events the tree stands for (`treeEvs`: one delivery per leaf core route, one exit per leaf link
route), each exactly once, and no flag: nothing dropped, no dead hop, no circulation.
By induction on the tree (through the fuel). -/
theorem deliver_of_tree (m : Machine) (dev : List (Chip × Nat)) (T : Chip → List Entry) (k : W)
    (t : Tree) (fuel : Nat) (path : List Chip) (arr : Option Nat)
    (ha : Agrees m dev T k path t) (hn : t.chips.Nodup) (hf : t.chips.length ≤ fuel) :
    (visit m dev T k fuel path t.chip arr).Nodup ∧
    (∀ ev, ev ∈ visit m dev T k fuel path t.chip arr ↔ ev ∈ treeEvs t) ∧
    flags (visit m dev T k fuel path t.chip arr) = [] :=
  ⟨L.visit_nodup fuel t path arr ha hn hf, L.visit_mem fuel t path arr ha hf, L.visit_no_flag fuel t path arr ha hf⟩

/-- `deliver_of_tree` for a packet injected at the root chip of the tree -/
theorem deliver_of_tree_root (m : Machine) (dev : List (Chip × Nat)) (T : Chip → List Entry) (k : W) (t : Tree)
    (ha : Agrees m dev T k [] t) (hn : t.chips.Nodup) (hf : t.chips.length ≤ m.w * m.h + 1) :
    (deliver m dev T k t.chip).Nodup ∧ (∀ ev, ev ∈ deliver m dev T k t.chip ↔ ev ∈ treeEvs t) ∧
    flags (deliver m dev T k t.chip) = [] :=
  deliver_of_tree m dev T k t _ [] none ha hn hf

/-! ## invariance under table minimisation -/

/-- **deliver_congr.**  If at every chip the two tables are `RouteEquiv` in C04's sense (every key
matched by `T c` is matched in `T' c` by an entry with the same route and at least its sources, or
is matched by nothing in `T' c` and the old entry was single-source, single-route, link to opposite
link) and on `T` every state the packet reaches is matched by an entry that lists the way it
arrived (`Covered`), then the packet does exactly the same on `T'`: the same events in the same
order.  The induction carries the arrival direction, which is what makes the default route of a
chip whose entry was removed reproduce that entry. -/
theorem deliver_congr (m : Machine) (dev : List (Chip × Nat)) (T T' : Chip → List Entry) (k : W) (src : Chip)
    (heq : ∀ c, Rig.C04.RouteEquiv (T c) (T' c))
    (hcov : Covered m dev T k (m.w * m.h + 1) [] src none) :
    deliver m dev T' k src = deliver m dev T k src :=
  L.visit_congr heq _ _ _ _ hcov

/-- tables built from a tree (`Agrees`, and the sources list the arrival links: `SrcListed`) cover
every state the packet reaches: the hypothesis of `deliver_congr` holds for them -/
theorem covered_of_tree (m : Machine) (dev : List (Chip × Nat)) (T : Chip → List Entry) (k : W) (t : Tree)
    (fuel : Nat) (path : List Chip) (arr : Option Nat)
    (ha : Agrees m dev T k path t) (hs : SrcListed T k arr t) : Covered m dev T k fuel path t.chip arr :=
  L.covered_of_agrees fuel t path arr ha hs

/-- **Delivery survives minimisation.**  Tables `T` agree with the tree and list the arrival links;
`T'` is per-chip RouteEquiv to `T` (what C04 proves of `minimise_tables`): the packet injected at the
root is delivered on `T'` exactly to the leaves of the tree, each once, no flag. -/
theorem deliver_minimised (m : Machine) (dev : List (Chip × Nat)) (T T' : Chip → List Entry) (k : W) (t : Tree)
    (ha : Agrees m dev T k [] t) (hs : SrcListed T k none t)
    (hn : t.chips.Nodup) (hf : t.chips.length ≤ m.w * m.h + 1)
    (heq : ∀ c, Rig.C04.RouteEquiv (T c) (T' c)) :
    (deliver m dev T' k t.chip).Nodup ∧ (∀ ev, ev ∈ deliver m dev T' k t.chip ↔ ev ∈ treeEvs t) ∧
    flags (deliver m dev T' k t.chip) = [] := by
  rw [deliver_congr m dev T T' k t.chip heq (covered_of_tree m dev T k t _ [] none ha hs)]
  exact deliver_of_tree_root m dev T k t ha hn hf

/-! ## the composition -/

/-- **pipeline_delivery** - the statement of C01 from the stage properties.

Given, for the nets of an application on machine `m` with device links `dev`:
* (C02, feasible placement) every net's source is placed on a working chip;
* (C05, exact allocation within the chip's resources; devices) every sink with cores has its
  allocated range inside cores 0..17, every sink with a route-endpoint constraint names a link
  that carries a device, and device links are not working links of the machine model;
* (C03) every net's routing tree is a `ValidTree` for its source chip and sinks;
* nets have pairwise non-intersecting key/masks;
* (C10) `routing_tree_to_tables` (model `treeTables`) returned the tables `T10` for these trees;
* (C04) the tables finally loaded, `T'`, are per chip `RouteEquiv` to them (what `minimise_tables`
  guarantees for every method chain and target);
then for every net and every key that matches the net's key/mask, the packet injected at the
source chip is delivered exactly once to every allocated core of every sink and leaves exactly once
on every endpoint link, reaches nothing else, is never dropped, crosses only working links between
working chips and never circulates (`Delivered`, for which see `delivered_no_flag`). -/
theorem pipeline_delivery (m : Machine) (dev : List (Chip × Nat)) (nets : List PNet)
    (T10 : Rig.C10.Tables) (T' : Chip → List Entry)
    (hplace : ∀ n ∈ nets, chipOk m n.src = true)
    (halloc : ∀ n ∈ nets, ∀ s ∈ n.sinks, (s.kind = 1 → s.b ≤ 18) ∧ (s.kind = 2 → s.a < 6 ∧ (s.chip, s.a) ∈ dev))
    (hdev : ∀ d ∈ dev, linkOk m d.1 d.2 = false)
    (htree : ∀ n ∈ nets, Rig.C03.ValidTree m n.src n.sinks n.tree)
    (hkeys : nets.Pairwise (fun a b => Rig.C04.intersect a.key a.mask b.key b.mask = false))
    (htab : Rig.C10.treeTables (nets.map PNet.net10) = .ok T10)
    (hmin : ∀ c, Rig.C04.RouteEquiv (tableAt (tables04 T10) c) (T' c)) :
    ∀ n ∈ nets, ∀ k : W, k &&& n.mask = n.key →
      Delivered (deliver m dev T' k n.src) (sinkCores n.sinks) (sinkExits n.sinks) := by
  intro n hn k hk
  have hv := htree n hn
  have hhops : ∀ n' ∈ nets, ∀ e ∈ n'.tree.edges, Rig.C03.HopOk m e := by
    intro n' hn' e he
    obtain ⟨c, l, c'⟩ := e
    exact (htree n' hn').hops c l c' he
  have hok : ∀ n' ∈ nets, ∀ x ∈ n'.tree.chips, chipOk m x = true := by
    intro n' hn'
    exact L.chips_ok n'.tree (hhops n' hn') (by rw [(htree n' hn').rooted]; exact hplace n' hn')
  have hpos : ∀ n' ∈ nets, ∀ x ∈ n'.tree.chips, 0 ≤ x.1 ∧ 0 ≤ x.2 := by
    intro n' hn' x hx
    have := L.chipOk_bounds (hok n' hn' x hx)
    exact ⟨this.1, this.2.2.1⟩
  have hwf : ∀ x ∈ nets.map PNet.net10, x.tree.WF := by
    intro x hx
    obtain ⟨n', hn', rfl⟩ := List.mem_map.1 hx
    exact L.toC10_wf _ (fun e he => (hhops n' hn' e he).1)
  have hex := (Rig.C10.tables_exact _ hwf T10 htab).1
  have hocc : ∀ v ∈ (toC10 n.tree).occs none, L.OccOk (tableAt (tables04 T10)) k v :=
    fun v hv' => L.occOk_of_tables hex hkeys (fun n' hn' => (htree n' hn').distinct) hpos hn hk hv'
  have hag := L.agrees_of_valid (m := m) (dev := dev) n.tree [] none hv.distinct
    (fun x hx => ⟨by simp, hpos n hn x hx⟩)
    (fun e he => ⟨hhops n hn e he, fun hd => by
      have h1 := hdev _ hd
      have h2 := (hhops n hn e he).2.1
      simp only at h1
      rw [h1] at h2
      exact Bool.noConfusion h2⟩)
    (fun lf hlf r hr => by
      have := hv.leaves_sound lf hlf
      simp only [Rig.C03.expectedLeaves, List.mem_flatMap, Rig.C03.Sink.leaves, List.mem_map] at this
      obtain ⟨s, hs, r', hr', rfl⟩ := this
      simp only at hr
      subst hr
      have ha := halloc n hn s hs
      rcases (L.mem_sink_routes s r).1 hr' with ⟨h2, rfl⟩ | ⟨h1, i, hi, rfl⟩
      · exact ⟨by have := (ha.2 h2).1; omega, fun _ => (ha.2 h2).2⟩
      · exact ⟨by have := ha.1 h1; omega, fun h => by omega⟩)
    hocc
  have hfuel : n.tree.chips.length ≤ m.w * m.h + 1 :=
    Nat.le_succ_of_le (L.chips_length_le n.tree hv.distinct (hok n hn))
  have hd := deliver_minimised m dev (tableAt (tables04 T10)) T' k n.tree hag.1
    (by simpa [Rig.C10.srcOf] using hag.2) hv.distinct hfuel hmin
  rw [hv.rooted] at hd
  exact L.delivered_of_leaves (dev := dev) hv (fun s hs h2 => ((halloc n hn s hs).2 h2).1) hd.1 hd.2.1

/-! ## non-vacuity: a concrete pipeline satisfies every hypothesis of `pipeline_delivery`

3x1 machine, a device on the east link of chip (2,0).  Net A (key 4, mask 6: bit 0 is don't-care)
goes (0,0) -> (1,0) -> (2,0) to cores 1,2 and to the device; net B (key 2, mask 6) stays on chip
(1,0).  The minimised tables drop A's entry on (1,0) (it is default-routable) - so the example
exercises the default route, a device exit, a don't-care bit and two nets. -/

def exM : Machine := { w := 3, h := 1, deadChips := [], deadLinks := [((2, 0), 0)] }
def exDev : List (Chip × Nat) := [((2, 0), 0)]
def exA : PNet :=
  { key := 4#32, mask := 6#32, src := (0, 0),
    sinks := [{ v := 1, chip := (2, 0), kind := 1, a := 1, b := 3 }, { v := 2, chip := (2, 0), kind := 2, a := 0, b := 0 }],
    tree := .node (0, 0) [(0, .node (1, 0) [(0, .node (2, 0) [] [(some 7, 1), (some 8, 1), (some 0, 2)])] [])] [] }
def exB : PNet :=
  { key := 2#32, mask := 6#32, src := (1, 0),
    sinks := [{ v := 3, chip := (1, 0), kind := 1, a := 4, b := 5 }],
    tree := .node (1, 0) [] [(some 10, 3)] }
def exT10 : Rig.C10.Tables :=
  [((0, 0), [{ route := [0], key := 4, mask := 6, sources := [none] }]),
   ((1, 0), [{ route := [0], key := 4, mask := 6, sources := [some 3] },
             { route := [10], key := 2, mask := 6, sources := [none] }]),
   ((2, 0), [{ route := [7, 8, 0], key := 4, mask := 6, sources := [some 3] }])]
/-- the minimised tables: chip (1,0) keeps only net B's entry -/
def exT' (c : Chip) : List Entry :=
  if c = (1, 0) then [{ route := 2 ^ 10, key := 2#32, mask := 6#32, sources := 2 ^ 24 }]
  else tableAt (tables04 exT10) c

theorem ex_hyps :
    (∀ n ∈ [exA, exB], chipOk exM n.src = true) ∧
    (∀ n ∈ [exA, exB], ∀ s ∈ n.sinks, (s.kind = 1 → s.b ≤ 18) ∧ (s.kind = 2 → s.a < 6 ∧ (s.chip, s.a) ∈ exDev)) ∧
    (∀ d ∈ exDev, linkOk exM d.1 d.2 = false) ∧
    (∀ n ∈ [exA, exB], Rig.C03.ValidTree exM n.src n.sinks n.tree) ∧
    [exA, exB].Pairwise (fun a b => Rig.C04.intersect a.key a.mask b.key b.mask = false) ∧
    Rig.C10.treeTables ([exA, exB].map PNet.net10) = .ok exT10 ∧
    (∀ c, Rig.C04.RouteEquiv (tableAt (tables04 exT10) c) (exT' c)) := by
  refine ⟨by decide, ?_, by decide, ?_, by decide, by decide +kernel, ?_⟩
  · intro n hn
    simp only [List.mem_cons, List.mem_singleton, List.not_mem_nil, or_false] at hn
    rcases hn with rfl | rfl <;> decide
  · intro n hn
    simp only [List.mem_cons, List.mem_singleton, List.not_mem_nil, or_false] at hn
    rcases hn with rfl | rfl <;> exact (Rig.C03.validTree_iff _ _ _ _).1 (by decide +kernel)
  · intro c
    by_cases h : c = (1, 0)
    · subst h
      exact (Rig.C04.oracle_decides _ _).1 (by decide +kernel)
    · simp only [exT', h, if_false]
      exact Rig.C04.routeEquiv_refl _

/-- the conclusion for the example, through the theorem: both fillings of A's don't-care bit reach
cores 1 and 2 of chip (2,0) and the device, B's key reaches core 4 of chip (1,0) -/
example : ∀ n ∈ [exA, exB], ∀ k : W, k &&& n.mask = n.key →
    Delivered (deliver exM exDev exT' k n.src) (sinkCores n.sinks) (sinkExits n.sinks) :=
  pipeline_delivery exM exDev [exA, exB] exT10 exT' ex_hyps.1 ex_hyps.2.1 ex_hyps.2.2.1 ex_hyps.2.2.2.1
    ex_hyps.2.2.2.2.1 ex_hyps.2.2.2.2.2.1 ex_hyps.2.2.2.2.2.2

/-- and directly, by evaluation: key 5 (don't-care bit set) on the minimised tables -/
example : deliver exM exDev exT' 5#32 (0, 0) = [.core (2, 0) 1, .core (2, 0) 2, .exit (2, 0) 0] := by decide +kernel

/-- non-vacuity of `Agrees` / `SrcListed` / `Covered` (hypotheses of `deliver_of_tree`, `deliver_congr`):
they hold for the example's unminimised tables and net A's tree (through the composition lemmas) -/
example : ∀ k : W, k &&& exA.mask = exA.key →
    Agrees exM exDev (tableAt (tables04 exT10)) k [] exA.tree ∧ SrcListed (tableAt (tables04 exT10)) k none exA.tree ∧
    Covered exM exDev (tableAt (tables04 exT10)) k (exM.w * exM.h + 1) [] exA.src none := by
  intro k hk
  have hv := ex_hyps.2.2.2.1
  have hhops : ∀ n' ∈ [exA, exB], ∀ e ∈ n'.tree.edges, Rig.C03.HopOk exM e := by
    intro n' hn' e he
    obtain ⟨c, l, c'⟩ := e
    exact (hv n' hn').hops c l c' he
  have hok : ∀ n' ∈ [exA, exB], ∀ x ∈ n'.tree.chips, chipOk exM x = true := fun n' hn' =>
    L.chips_ok n'.tree (hhops n' hn') (by rw [(hv n' hn').rooted]; exact ex_hyps.1 n' hn')
  have hpos : ∀ n' ∈ [exA, exB], ∀ x ∈ n'.tree.chips, 0 ≤ x.1 ∧ 0 ≤ x.2 := fun n' hn' x hx =>
    ⟨(L.chipOk_bounds (hok n' hn' x hx)).1, (L.chipOk_bounds (hok n' hn' x hx)).2.2.1⟩
  have hwf : ∀ x ∈ [exA, exB].map PNet.net10, x.tree.WF := by
    intro x hx
    obtain ⟨n', hn', rfl⟩ := List.mem_map.1 hx
    exact L.toC10_wf _ (fun e he => (hhops n' hn' e he).1)
  have hex := (Rig.C10.tables_exact _ hwf exT10 ex_hyps.2.2.2.2.2.1).1
  have hag := L.agrees_of_valid (m := exM) (dev := exDev) (T := tableAt (tables04 exT10)) (k := k) exA.tree [] none
    (hv exA (by simp)).distinct (fun x hx => ⟨by simp, hpos exA (by simp) x hx⟩)
    (fun e he => ⟨hhops exA (by simp) e he, by
      have : ∀ e ∈ exA.tree.edges, (e.1, e.2.1) ∉ exDev := by decide
      exact this e he⟩)
    (by
      have : ∀ lf ∈ exA.tree.leafList, ∀ r, lf.2.1 = some r → r < 24 ∧ (r < 6 → (lf.1, r) ∈ exDev) := by decide
      exact this)
    (fun v hv' => L.occOk_of_tables hex ex_hyps.2.2.2.2.1 (fun n' hn' => (hv n' hn').distinct) hpos (by simp) hk hv')
  have hs : SrcListed (tableAt (tables04 exT10)) k none exA.tree := by simpa [Rig.C10.srcOf] using hag.2
  exact ⟨hag.1, hs, covered_of_tree _ _ _ _ exA.tree _ [] none hag.1 hs⟩

/-! ## bridges from the placement and allocation properties

`pipeline_delivery` uses the placement and the allocation through two facts only; both follow from
the stage predicates of C02 and C05. -/

/-- the machine of C03/C01 that has the chips of a C02 machine (links as given) -/
def machineOf02 (m2 : Rig.C02.Machine) (deadLinks : List (Chip × Nat)) : Machine :=
  { w := m2.w, h := m2.h, deadChips := m2.dead.map chipZ, deadLinks := deadLinks }

/-- **C02 ⇒ `hplace`.**  In a feasible placement (C02 `Feasible`) every vertex is on a working chip
of the machine - in particular the source of every net. -/
theorem placement_bridge (vr : Rig.C02.VR) (cs : List Rig.C02.Constraint) (m2 : Rig.C02.Machine)
    (p : Rig.C02.Placement) (dl : List (Chip × Nat)) (hf : Rig.C02.Feasible vr cs m2 p) :
    ∀ v ∈ Rig.C02.keys vr, ∃ c, Rig.C02.aget p v = some c ∧ chipOk (machineOf02 m2 dl) (chipZ c) = true := by
  intro v hv
  obtain ⟨c, hc, hok⟩ := hf.placed v hv
  refine ⟨c, hc, ?_⟩
  have hcont : (m2.dead.map chipZ).contains (chipZ c) = m2.dead.contains c := by
    rw [Bool.eq_iff_iff]
    simp only [List.contains_iff_mem, List.mem_map]
    constructor
    · rintro ⟨a, ha, he⟩; rw [← L.chipZ_inj he]; exact ha
    · intro h; exact ⟨c, h, rfl⟩
  simp only [Rig.C02.Machine.ok, Bool.and_eq_true, decide_eq_true_eq, Bool.not_eq_true'] at hok
  have hw := hok.1.1
  have hh := hok.1.2
  unfold chipOk
  simp only [machineOf02, hcont]
  simp only [chipZ, Bool.and_eq_true, decide_eq_true_eq, Bool.not_eq_true']
  refine ⟨⟨⟨⟨?_, ?_⟩, ?_⟩, ?_⟩, hok.2⟩ <;> (apply decide_eq_true; omega)

/-- **C05 ⇒ `halloc` (cores).**  In a valid allocation (C05 `Valid`) every range handed out for a
resource lies inside `0 .. capacity` of the chip the vertex is placed on; for the cores resource of
a SpiNNaker chip (capacity at most 18) the allocated cores are cores 0..17. -/
theorem allocation_bridge (inp : Rig.C05.Input) (out : Rig.C05.Alloc) (coreRes : Rig.C05.Res)
    (hv : Rig.C05.Valid inp out)
    (hcap : ∀ xy c, Rig.C05.capacity inp.machine xy coreRes = some c → c ≤ 18) :
    ∀ t ∈ Rig.C05.flat out, t.2.1 = coreRes → 0 ≤ t.2.2.start ∧ t.2.2.stop ≤ 18 := by
  intro t ht hres
  obtain ⟨p, _, _, q, _, _, rd, _, hrd, hg⟩ := hv.2.2.1 t ht
  obtain ⟨_, h0, ⟨c, hc, hle⟩, _⟩ := hg
  rw [hrd, hres] at hc
  exact ⟨h0, Int.le_trans hle (hcap _ _ hc)⟩

end Rig.C01
