/-
C01 - multicast packets reach exactly the cores of their net's sinks.
Property theorems; helper lemmas are in RigModel/Lemmas/C01*.lean.

`deliver m dev T k src` (Model/C01.lean) is what the machine `m` with tables `T` and device links
`dev` does with a packet with key `k` injected at chip `src`: the list of events (core deliveries,
exits over device links, and the flags dropped / deadHop / loop / fuelOut).
`Delivered evs cores exits` is the statement of C01 for one packet: `evs` is duplicate free and
consists of exactly one delivery per expected core and one exit per expected device link - hence no
flag, nothing missing, nothing extra, nothing twice.
-/
import RigModel.Model.C01
import RigModel.Lemmas.C01
set_option linter.unusedSimpArgs false
set_option linter.unusedVariables false

namespace Rig.C01
open Rig.C03 (Chip Machine chipOk linkOk step opp Tree)

/-- smoke test of the semantics: chip (0,0) sends key 5 east, chip (1,0) delivers to cores 0 and 1 -/
theorem deliver_example :
    deliver { w := 2, h := 1, deadChips := [], deadLinks := [] } []
      (tableAt [((0, 0), [{ route := 1, key := 5#32, mask := 7#32, sources := 2 ^ 24 }]),
                ((1, 0), [{ route := 192, key := 5#32, mask := 7#32, sources := 8 }])]) 5#32 (0, 0)
      = [.core (1, 0) 0, .core (1, 0) 1] := by decide +kernel

theorem nodupEv_iff (l : List Ev) : nodupEv l = true ↔ l.Nodup := by
  induction l with
  | nil => simp [nodupEv]
  | cons e r ih => simp [nodupEv, ih, List.nodup_cons]

/-- **The oracle is the specification.**  The executable check the harness applies to the events
computed from the implementation's tables decides `Delivered`. -/
theorem deliveredB_iff (evs : List Ev) (ec ex : List (Chip × Nat)) :
    deliveredB evs ec ex = true ↔ Delivered evs ec ex := by
  simp only [deliveredB, Delivered, Bool.and_eq_true, nodupEv_iff, List.all_eq_true]
  constructor
  · rintro ⟨⟨⟨hn, hall⟩, hc⟩, hx⟩
    refine ⟨hn, fun ev => ⟨fun h => ?_, ?_⟩⟩
    · have := hall ev h
      cases ev with
      | core c p => exact Or.inl ⟨(c, p), by simpa [evAllowed] using this, rfl⟩
      | exit c l => exact Or.inr ⟨(c, l), by simpa [evAllowed] using this, rfl⟩
      | _ => simp [evAllowed] at this
    · rintro (⟨x, hx', rfl⟩ | ⟨x, hx', rfl⟩)
      · simpa using hc x hx'
      · simpa using hx x hx'
  · rintro ⟨hn, h⟩
    refine ⟨⟨⟨hn, ?_⟩, ?_⟩, ?_⟩
    · intro ev hev
      rcases (h ev).1 hev with ⟨x, hx, rfl⟩ | ⟨x, hx, rfl⟩ <;> simpa [evAllowed] using hx
    · intro x hx; simpa using (h _).2 (Or.inl ⟨x, hx, rfl⟩)
    · intro x hx; simpa using (h _).2 (Or.inr ⟨x, hx, rfl⟩)

/-- a delivered packet raises no flag -/
theorem delivered_no_flag {evs : List Ev} {ec ex : List (Chip × Nat)} (h : Delivered evs ec ex) :
    flags evs = [] := by
  simp only [flags, List.filter_eq_nil_iff]
  intro ev hev
  rcases (h.2 ev).1 hev with ⟨x, _, rfl⟩ | ⟨x, _, rfl⟩ <;> simp [Ev.isFlag]

/-! ## delivery along a routing tree -/

/-- **deliver_of_tree.**  If the tables agree with a routing tree for key `k` (`Agrees`: every node's
chip looks `k` up to exactly the node's out-set, hops are working links between working adjacent
chips, leaf links are device links, chips differ from the path so far), the chips of the tree are
distinct and the fuel covers the tree, then a packet arriving at the root produces exactly the
events the tree stands for (`treeEvs`: one delivery per leaf core route, one exit per leaf link
route), each exactly once, and no flag: nothing dropped, no dead hop, no circulation.
By induction on the tree (through the fuel). -/
theorem deliver_of_tree (m : Machine) (dev : List (Chip × Nat)) (T : Chip → List Entry) (k : W)
    (t : Tree) (fuel : Nat) (path : List Chip) (arr : Option Nat)
    (ha : Agrees m dev T k path t) (hn : t.chips.Nodup) (hf : t.chips.length ≤ fuel) :
    (visit m dev T k fuel path t.chip arr).Nodup ∧
    (∀ ev, ev ∈ visit m dev T k fuel path t.chip arr ↔ ev ∈ treeEvs t) ∧
    flags (visit m dev T k fuel path t.chip arr) = [] :=
  ⟨L.visit_nodup fuel t path arr ha hn hf, L.visit_mem fuel t path arr ha hf, L.visit_no_flag fuel t path arr ha hf⟩

/-- `deliver_of_tree` for a packet injected at the root chip of the tree -/
theorem deliver_of_tree_root (m : Machine) (dev : List (Chip × Nat)) (T : Chip → List Entry) (k : W) (t : Tree)
    (ha : Agrees m dev T k [] t) (hn : t.chips.Nodup) (hf : t.chips.length ≤ m.w * m.h + 1) :
    (deliver m dev T k t.chip).Nodup ∧ (∀ ev, ev ∈ deliver m dev T k t.chip ↔ ev ∈ treeEvs t) ∧
    flags (deliver m dev T k t.chip) = [] :=
  deliver_of_tree m dev T k t _ [] none ha hn hf

/-! ## invariance under table minimisation -/

/-- **deliver_congr.**  If at every chip the two tables are `RouteEquiv` in C04's sense (every key
matched by `T c` is matched in `T' c` by an entry with the same route and at least its sources, or
is matched by nothing in `T' c` and the old entry was single-source, single-route, link to opposite
link) and on `T` every state the packet reaches is matched by an entry that lists the way it
arrived (`Covered`), then the packet does exactly the same on `T'`: the same events in the same
order.  The induction carries the arrival direction, which is what makes the default route of a
chip whose entry was removed reproduce that entry. -/
theorem deliver_congr (m : Machine) (dev : List (Chip × Nat)) (T T' : Chip → List Entry) (k : W) (src : Chip)
    (heq : ∀ c, Rig.C04.RouteEquiv (T c) (T' c))
    (hcov : Covered m dev T k (m.w * m.h + 1) [] src none) :
    deliver m dev T' k src = deliver m dev T k src :=
  L.visit_congr heq _ _ _ _ hcov

/-- tables built from a tree (`Agrees`, and the sources list the arrival links: `SrcListed`) cover
every state the packet reaches: the hypothesis of `deliver_congr` holds for them -/
theorem covered_of_tree (m : Machine) (dev : List (Chip × Nat)) (T : Chip → List Entry) (k : W) (t : Tree)
    (fuel : Nat) (path : List Chip) (arr : Option Nat)
    (ha : Agrees m dev T k path t) (hs : SrcListed T k arr t) : Covered m dev T k fuel path t.chip arr :=
  L.covered_of_agrees fuel t path arr ha hs

/-- **Delivery survives minimisation.**  Tables `T` agree with the tree and list the arrival links;
`T'` is per-chip RouteEquiv to `T` (what C04 proves of `minimise_tables`): the packet injected at the
root is delivered on `T'` exactly to the leaves of the tree, each once, no flag. -/
theorem deliver_minimised (m : Machine) (dev : List (Chip × Nat)) (T T' : Chip → List Entry) (k : W) (t : Tree)
    (ha : Agrees m dev T k [] t) (hs : SrcListed T k none t)
    (hn : t.chips.Nodup) (hf : t.chips.length ≤ m.w * m.h + 1)
    (heq : ∀ c, Rig.C04.RouteEquiv (T c) (T' c)) :
    (deliver m dev T' k t.chip).Nodup ∧ (∀ ev, ev ∈ deliver m dev T' k t.chip ↔ ev ∈ treeEvs t) ∧
    flags (deliver m dev T' k t.chip) = [] := by
  rw [deliver_congr m dev T T' k t.chip heq (covered_of_tree m dev T k t _ [] none ha hs)]
  exact deliver_of_tree_root m dev T k t ha hn hf

end Rig.C01
