/-
C01 - multicast packets reach exactly the cores of their net's sinks.
Property theorems; helper lemmas are in RigModel/Lemmas/C01*.lean.
-/
import RigModel.Model.C01
set_option linter.unusedSimpArgs false
set_option linter.unusedVariables false

namespace Rig.C01

/-- smoke test of the semantics: chip (0,0) sends key 5 east, chip (1,0) delivers to cores 0 and 1 -/
theorem deliver_example :
    deliver { w := 2, h := 1, deadChips := [], deadLinks := [] } []
      (tableAt [((0, 0), [{ route := 1, key := 5#32, mask := 7#32, sources := 2 ^ 24 }]),
                ((1, 0), [{ route := 192, key := 5#32, mask := 7#32, sources := 8 }])]) 5#32 (0, 0)
      = [.core (1, 0) 0, .core (1, 0) 1] := by decide +kernel

end Rig.C01
