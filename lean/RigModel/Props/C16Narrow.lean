/-
C16 (companion) - NumpyFloatToFixConverter on float32 / float16 input arrays.
`npFloatToFixNarrow` models the code WITHOUT fixes/c16-float32-arrays.diff (the arithmetic runs in
the dtype of the input); with the fix the input is first converted (exactly) to float64, so the
element is converted by `npFloatToFixG` and the float64 theorems apply unchanged.
-/
import RigModel.Props.C16
set_option linter.unusedSimpArgs false
set_option linter.unusedVariables false

namespace Rig.C16
open Rig.Gen.TypeCasts

/-- **The narrow-dtype defect, concrete (finding `array-float32-wrap`).**  Code without the fix:
* float16 array, S15.16 (`n_frac = 16`): `2.0**16` is inf as a float16, `0.5` becomes inf and
  saturates to `2^31 - 1`; the rule (and `float_to_fp`) gives `32768`;
* float32 array, `n_frac = 128`: `0.0 * inf` is NaN, the cast of NaN is unspecified (observed
  `-2^31`), and the least subnormal `2^-149` saturates to `2^31 - 1`; the rule gives `0` for both;
* the observation of the first round, on the code before fixes/c16-saturate-64bit.diff as well:
  `float32(1e30)` in the signed 32-bit integer format is clipped to `float32(2^31 - 1) = 2^31` and
  cast out of range (observed `-2^31`); the rule gives `2^31 - 1`. -/
theorem array_narrow_defect :
    npFloatToFixNarrow true f16 ⟨true, 32, 16⟩ ⟨1, -1⟩ = .ok (.val (2 ^ 31 - 1)) ∧
    floatToFp ⟨true, 32, 16⟩ ⟨1, -1⟩ = .ok 32768 ∧
    ¬ SpecFp ⟨true, 32, 16⟩ ⟨1, -1⟩ (2 ^ 31 - 1) ∧
    npFloatToFixNarrow true f32 ⟨true, 32, 128⟩ ⟨0, 0⟩ = .ok .unspecified ∧
    floatToFp ⟨true, 32, 128⟩ ⟨0, 0⟩ = .ok 0 ∧
    npFloatToFixNarrow true f32 ⟨true, 32, 128⟩ ⟨1, -149⟩ = .ok (.val (2 ^ 31 - 1)) ∧
    floatToFp ⟨true, 32, 128⟩ ⟨1, -149⟩ = .ok 0 ∧
    npFloatToFixNarrow false f32 ⟨true, 32, 0⟩ ⟨6617445, 77⟩ = .ok .unspecified ∧
    floatToFp ⟨true, 32, 0⟩ ⟨6617445, 77⟩ = .ok (2 ^ 31 - 1) := by decide +kernel

/-- the clip bounds of the accepted widths convert to float16 / float32 to the same value (`<=` both ways; the (m, e) pair may differ) whether
the Python int is rounded directly or through a double first (so the model does not depend on which
of the two NumPy does) -/
theorem narrow_bounds_single_rounding :
    ∀ b ∈ npBits, ∀ s ∈ [true, false], ∀ P ∈ [f16, f32],
      (roundP P (round53Val (Fmt.maxV ⟨s, b, 0⟩))).le (roundP P (Fmt.maxV ⟨s, b, 0⟩)) = true ∧
      (roundP P (Fmt.maxV ⟨s, b, 0⟩)).le (roundP P (round53Val (Fmt.maxV ⟨s, b, 0⟩))) = true ∧
      (roundP P (round53Val (Fmt.minV ⟨s, b, 0⟩))).le (roundP P (Fmt.minV ⟨s, b, 0⟩)) = true ∧
      (roundP P (Fmt.minV ⟨s, b, 0⟩)).le (roundP P (round53Val (Fmt.minV ⟨s, b, 0⟩))) = true := by
  decide +kernel

/-- `roundP` never produces NaN, so `+inf` is at or above every clip bound -/
theorem roundP_le_inf (P : Prec) (k : Int) : (roundP P k).le (.inf false) = true := by
  unfold roundP
  simp only
  split
  · rfl
  · cases decide (k < 0) <;> rfl

/-- **The defect for every input (code without the fix):** as soon as `2.0**n_frac` is not a finite
value of the input's dtype (`n_frac >= 16` for float16, `>= 128` for float32), EVERY positive
element saturates to the maximum - whatever its value - and every zero becomes NaN (unspecified
cast), although the rule may demand any value of the range. -/
theorem array_narrow_scale_overflow (P : Prec) (fmt : Fmt) (v : Dy)
    (hw : npBits.contains fmt.bits = true) (h1 : (P.emax : Int) ≤ fmt.frac) (h2 : fmt.frac < 1024) :
    (v.m = 0 → ∀ rep, npFloatToFixNarrow rep P fmt v = .ok .unspecified) ∧
    (0 < v.m → npFloatToFixNarrow true P fmt v = .ok (.val fmt.maxV)) := by
  have a : ¬ (1024 ≤ fmt.frac) := by omega
  have b : ¬ (fmt.frac < -1074) := by omega
  constructor
  · intro hv rep
    unfold npFloatToFixNarrow pow2f
    simp only [hw, Bool.not_true, Bool.false_eq_true, if_false, a, b, bind, Except.bind, scaleN, h1,
      if_true, mulScaleN, hv]
    rfl
  · intro hv
    have hv0 : ¬ v.m = 0 := by omega
    have hv1 : ¬ v.m < 0 := by omega
    unfold npFloatToFixNarrow pow2f
    simp only [hw, Bool.not_true, Bool.false_eq_true, if_false, a, b, bind, Except.bind, scaleN, h1,
      if_true, mulScaleN, hv0, hv1, decide_false, roundP_le_inf, Bool.true_and, pure, Except.pure]

example : npBits.contains (⟨true, 32, 16⟩ : Fmt).bits = true ∧ ((f16.emax : Int) ≤ 16) ∧
    (0 : Int) < (⟨1, -1⟩ : Dy).m := by decide

/-- **With fixes/c16-float32-arrays.diff** an element of a float16 / float32 (any format with at
most 53 significant bits) array is converted by the float64 code applied to its exact value, and that
equals `float_to_fp` for every supported width. -/
theorem array_eq_scalar_narrow_fixed (P : Prec) (hP : P.p ≤ 53) (fmt : Fmt) (v : Dy)
    (hv : v.m.natAbs < 2 ^ P.p)
    (hw : npBits.contains fmt.bits = true) (h1 : fmt.frac < 1024) (h2 : -1074 ≤ fmt.frac)
    (hfin : FiniteScaled fmt v) :
    npFloatToFixRepaired fmt v = (floatToFp fmt v).map Cast.val := by
  apply array_eq_scalar_repaired
  refine ⟨hw, h1, h2, hfin, ?_⟩
  unfold IsDouble
  have : (2 : Nat) ^ P.p ≤ 2 ^ 53 := Nat.pow_le_pow_right (by norm_num) hP
  omega

example : f16.p ≤ 53 ∧ f32.p ≤ 53 ∧ (⟨1, -1⟩ : Dy).m.natAbs < 2 ^ f16.p ∧
    FiniteScaled ⟨true, 32, 16⟩ ⟨1, -1⟩ ∧
    npFloatToFixRepaired ⟨true, 32, 16⟩ ⟨1, -1⟩ = .ok (.val 32768) := by decide +kernel

end Rig.C16
