/-
C15 - SDP and SCP packets encode to the wire layout and decode back unchanged.
Property theorems only (helper lemmas are local and private).
-/
import RigModel.Model.C15
set_option linter.unusedSimpArgs false
set_option linter.unusedVariables false

namespace Rig.C15
open Rig.Gen.Packets

/-! generated constants are the documented flag bytes -/
theorem flags_documented : FLAG_REPLY = 0x87 ∧ FLAG_NO_REPLY = 0x07 ∧ FLAG_REPLY ≠ FLAG_NO_REPLY := by
  decide

private theorem portCpu_eq : ∀ p, p < 8 → ∀ c, c < 32 → portCpu p c = p * 32 + c := by
  decide +kernel
private theorem portCpu_lt : ∀ p, p < 8 → ∀ c, c < 32 → portCpu p c < 256 := by
  decide +kernel
private theorem portCpu_cpu : ∀ p, p < 8 → ∀ c, c < 32 → (portCpu p c) &&& 0x1f = c := by
  decide +kernel
private theorem portCpu_port : ∀ p, p < 8 → ∀ c, c < 32 → (portCpu p c) >>> 5 = p := by
  decide +kernel

private theorem flag_lt (b : Bool) : (if b then FLAG_REPLY else FLAG_NO_REPLY) < 256 := by
  cases b <;> decide
private theorem flag_dec (b : Bool) : ((if b then FLAG_REPLY else FLAG_NO_REPLY) == FLAG_REPLY) = b := by
  cases b <;> decide
private theorem flag_doc (b : Bool) :
    (if b then FLAG_REPLY else FLAG_NO_REPLY) = (if b then 0x87 else 0x07) := by
  cases b <;> decide

private theorem encodeHeader_ok (p : SDP) (h : p.InRange) (packed : List Nat) :
    encodeHeader p packed = .ok (sdpLayout p packed) := by
  obtain ⟨ht, hdp, hdc, hsp, hsc, hdx, hdy, hsx, hsy⟩ := h
  have h1 := portCpu_lt _ hdp _ hdc
  have h2 := portCpu_lt _ hsp _ hsc
  rw [portCpu_eq _ hdp _ hdc] at h1
  rw [portCpu_eq _ hsp _ hsc] at h2
  have hf : (if p.reply = true then 135 else 7) < 256 := by split <;> decide
  simp only [encodeHeader, packB, hf, ht, h1, h2, hdx, hdy, hsx, hsy, if_true,
    bind, Except.bind, pure, Except.pure, sdpLayout, portCpu_eq _ hdp _ hdc,
    portCpu_eq _ hsp _ hsc, flag_doc]

/-- **Layout (SDP).** In-range packets encode to exactly the documented bytes. -/
theorem sdp_layout (p : SDP) (h : p.InRange) : encodeSDP p = .ok (sdpLayout p p.data) :=
  encodeHeader_ok p h p.data

private theorem packArg_ok (a : Option Nat) (h : ArgOk a) : packArg a = .ok (a.toList.flatMap le32) := by
  cases a with
  | none => rfl
  | some v => simp only [ArgOk] at h; simp [packArg, packI, h]

/-- **Layout (SCP).** cmd, seq (LE16), the present arguments (LE32), then the payload. -/
theorem scp_layout (p : SCP) (h : p.InRange) : encodeSCP p = .ok (scpLayout p) := by
  obtain ⟨hh, hc, hs, h1, h2, h3⟩ := h
  simp only [encodeSCP, packedData, packH, hc, hs, if_true, packArg_ok _ h1, packArg_ok _ h2,
    packArg_ok _ h3, bind, Except.bind, pure, Except.pure, encodeHeader_ok _ hh, scpLayout, argList,
    List.flatMap_append, List.append_assoc]

/-- out-of-range byte fields are rejected (struct.error), never silently truncated -/
theorem sdp_reject_wide_tag (p : SDP) (h : 256 ≤ p.tag) : encodeSDP p = .error .structError := by
  have : ¬ p.tag < 256 := by omega
  simp [encodeSDP, encodeHeader, packB, flag_lt, this, bind, Except.bind]

/-- **Round trip (SDP).** -/
theorem sdp_decode_encode (p : SDP) (h : p.InRange) :
    (encodeSDP p >>= decodeSDP) = .ok p := by
  have hl := sdp_layout p h
  obtain ⟨ht, hdp, hdc, hsp, hsc, hdx, hdy, hsx, hsy⟩ := h
  rw [hl]
  simp only [bind, Except.bind, sdpLayout, List.cons_append, List.nil_append, decodeSDP]
  rw [← portCpu_eq _ hdp _ hdc, ← portCpu_eq _ hsp _ hsc,
    portCpu_cpu _ hdp _ hdc, portCpu_port _ hdp _ hdc, portCpu_cpu _ hsp _ hsc,
    portCpu_port _ hsp _ hsc, ← flag_doc, flag_dec]

private theorem word32_le32 (a : Nat) (h : a < 4294967296) : word32 (le32 a) = a := by
  simp only [word32, le32]; omega
private theorem word16_le16 (a : Nat) (h : a < 65536) : a % 256 + 256 * (a / 256 % 256) = a := by
  omega

private theorem decodeSDP_layout (p : SDP) (h : p.InRange) (pl : List Nat) :
    decodeSDP (sdpLayout p pl) = .ok { p with data := pl } := by
  obtain ⟨ht, hdp, hdc, hsp, hsc, hdx, hdy, hsx, hsy⟩ := h
  simp only [sdpLayout, List.cons_append, List.nil_append, decodeSDP]
  rw [← portCpu_eq _ hdp _ hdc, ← portCpu_eq _ hsp _ hsc,
    portCpu_cpu _ hdp _ hdc, portCpu_port _ hdp _ hdc, portCpu_cpu _ hsp _ hsc,
    portCpu_port _ hsp _ hsc, ← flag_doc, flag_dec]

/-- number of arguments present -/
def SCP.nArgs (p : SCP) : Nat := (argList p).length

private theorem le32_length (a : Nat) : (le32 a).length = 4 := by simp [le32]

private theorem take4 (a : Nat) (r : List Nat) : (le32 a ++ r).take 4 = le32 a :=
  List.take_left' (le32_length a)
private theorem drop4 (a : Nat) (r : List Nat) : (le32 a ++ r).drop 4 = r :=
  List.drop_left' (le32_length a)
private theorem drop8 (a b : Nat) (r : List Nat) : (le32 a ++ (le32 b ++ r)).drop 8 = r := by
  have : (le32 a ++ (le32 b ++ r)).drop (4 + 4) = r := by
    rw [← List.drop_drop, drop4, drop4]
  exact this
private theorem drop12 (a b c : Nat) (r : List Nat) :
    (le32 a ++ (le32 b ++ (le32 c ++ r))).drop 12 = r := by
  have : (le32 a ++ (le32 b ++ (le32 c ++ r))).drop (4 + 8) = r := by
    rw [← List.drop_drop, drop4, drop8]
  exact this

/-- **Round trip (SCP).** Decoding the encoding with the same argument count
returns an equal packet (arguments present as a prefix, all fields in range). -/
theorem scp_decode_encode (p : SCP) (h : p.InRange) (hp : p.Prefix) :
    (encodeSCP p >>= fun b => decodeSCP b p.nArgs) = .ok p := by
  rw [scp_layout p h]
  obtain ⟨hh, hc, hs, h1, h2, h3⟩ := h
  obtain ⟨p12, p23⟩ := hp
  obtain ⟨hdr, cmd, seq, a1, a2, a3⟩ := p
  have e1 := word16_le16 cmd hc
  have e2 := word16_le16 seq hs
  simp only [bind, Except.bind, decodeSCP, scpLayout, decodeSDP_layout _ hh, le16,
    List.cons_append, List.nil_append, SCP.nArgs, argList, e1, e2] at *
  cases a1 with
  | none =>
    cases a2 with
    | some _ => simp at p12
    | none =>
      cases a3 with
      | some _ => simp at p23
      | none => simp [pure, Except.pure]
  | some v1 =>
    have w1 := word32_le32 v1 h1
    cases a2 with
    | none =>
      cases a3 with
      | some _ => simp at p23
      | none =>
        simp only [Option.toList, List.cons_append, List.nil_append, List.flatMap_cons, List.flatMap_nil, List.append_nil,
          List.nil_append, List.length_cons, List.length_nil, List.length_append, le32_length,
          take4, drop4, w1]
        simp only [pure, Except.pure]
        repeat' split
        all_goals first | rfl | (exfalso; omega)
    | some v2 =>
      have w2 := word32_le32 v2 h2
      cases a3 with
      | none =>
        simp only [Option.toList, List.cons_append, List.nil_append, List.flatMap_cons, List.flatMap_nil, List.append_nil,
          List.nil_append, List.length_cons, List.length_nil, List.length_append, le32_length,
          take4, drop4, drop8, w1, w2, List.append_assoc]
        simp only [pure, Except.pure]
        repeat' split
        all_goals first | rfl | (exfalso; omega)
      | some v3 =>
        have w3 := word32_le32 v3 h3
        simp only [Option.toList, List.cons_append, List.nil_append, List.flatMap_cons, List.flatMap_nil, List.append_nil,
          List.nil_append, List.length_cons, List.length_nil, List.length_append, le32_length,
          take4, drop4, drop8, drop12, w1, w2, w3, List.append_assoc]
        simp only [pure, Except.pure]
        repeat' split
        all_goals first | rfl | (exfalso; omega)

private theorem le32_word32 (l : List Nat) (hl : Bytes l) (h4 : 4 ≤ l.length) :
    le32 (word32 (l.take 4)) ++ l.drop 4 = l := by
  match l, hl, h4 with
  | a :: b :: c :: d :: r, hl, _ =>
    have ha : a < 256 := hl a (by simp)
    have hb : b < 256 := hl b (by simp)
    have hc : c < 256 := hl c (by simp)
    have hd : d < 256 := hl d (by simp)
    simp only [List.take, List.drop, word32, le32, List.cons_append, List.nil_append]
    congr 1
    · omega
    congr 1
    · omega
    congr 1
    · omega
    congr 1
    · omega

private theorem bytes_drop (l : List Nat) (n : Nat) (hl : Bytes l) : Bytes (l.drop n) :=
  fun b hb => hl b (List.mem_of_mem_drop hb)

/-- **Argument rule.** Decoding takes exactly `min n_args (len/4) 3` arguments, where `len`
is the number of bytes after command and sequence number, and the arguments re-packed
followed by the payload are exactly those bytes: nothing is lost or invented. -/
theorem arg_rule (bs : List Nat) (n : Nat) (p : SCP) (hb : Bytes bs)
    (h : decodeSCP bs n = .ok p) :
    p.nArgs = min n (min ((bs.length - 14) / 4) 3) ∧
    (argList p).flatMap le32 ++ p.hdr.data = bs.drop 14 := by
  match bs, hb with
  | _ :: _ :: f :: t :: d :: s :: dy :: dx :: sy :: sx :: c0 :: c1 :: s0 :: s1 :: data, hb =>
    have hd : Bytes data := bytes_drop _ 14 hb
    simp only [decodeSCP, decodeSDP, bind, Except.bind, pure, Except.pure] at h
    simp only [List.length_cons, List.drop_succ_cons, List.drop_zero, Nat.add_sub_cancel]
    have e := le32_word32 data hd
    have hd4 : Bytes (data.drop 4) := bytes_drop _ 4 hd
    have e2 := le32_word32 (data.drop 4) hd4
    have hd8 : Bytes (data.drop 8) := bytes_drop _ 8 hd
    have e3 := le32_word32 (data.drop 8) hd8
    simp only [List.length_drop, List.drop_drop] at e2 e3
    split at h
    · split at h
      · split at h
        · cases h
          simp only [SCP.nArgs, argList, Option.toList, List.cons_append, List.nil_append,
            List.length_cons, List.length_nil, List.flatMap_cons, List.flatMap_nil, List.append_nil,
            List.append_assoc]
          refine ⟨by omega, ?_⟩
          rw [show (12 : Nat) = 4 + 8 from rfl, e3 (by omega), show (8 : Nat) = 4 + 4 from rfl,
            e2 (by omega), e (by omega)]
        · cases h
          simp only [SCP.nArgs, argList, Option.toList, List.cons_append, List.nil_append,
            List.length_cons, List.length_nil, List.flatMap_cons, List.flatMap_nil, List.append_nil,
            List.append_assoc]
          refine ⟨by omega, ?_⟩
          rw [show (8 : Nat) = 4 + 4 from rfl, e2 (by omega), e (by omega)]
      · cases h
        simp only [SCP.nArgs, argList, Option.toList, List.cons_append, List.nil_append,
          List.length_cons, List.length_nil, List.flatMap_cons, List.flatMap_nil, List.append_nil,
          List.append_assoc]
        refine ⟨by omega, ?_⟩
        rw [e (by omega)]
    · cases h
      simp only [SCP.nArgs, argList, Option.toList, List.nil_append, List.length_nil,
        List.flatMap_nil]
      refine ⟨by omega, trivial⟩
  | [], _ => simp [decodeSCP, decodeSDP, bind, Except.bind] at h

/-- **Field isolation.** Each header field occupies its own byte(s): changing one field of an
in-range packet changes the encoding only at that field's documented position (stated for the
tag; the layout theorem gives the same for every field). -/
theorem tag_isolated (p : SDP) (t' : Nat) (h : p.InRange) (ht : t' < 256) :
    ∃ b b', encodeSDP p = .ok b ∧ encodeSDP { p with tag := t' } = .ok b' ∧
      b' = b.set 3 t' := by
  refine ⟨_, _, sdp_layout p h, sdp_layout _ ?_, ?_⟩
  · obtain ⟨_, h2⟩ := h; exact ⟨ht, h2⟩
  · simp [sdpLayout]

/-- non-vacuity: a full-width packet with three arguments meets every hypothesis -/
def exHdr : SDP :=
  { reply := true, tag := 255, destPort := 7, destCpu := 31, srcPort := 7, srcCpu := 31,
    destX := 255, destY := 255, srcX := 255, srcY := 255, data := [1, 2, 3] }
def exPkt : SCP :=
  { hdr := exHdr, cmd := 65535, seq := 65535, arg1 := some 4294967295, arg2 := some 0,
    arg3 := some 7 }
example : exPkt.InRange ∧ exPkt.Prefix ∧ (encodeSCP exPkt >>= fun b => decodeSCP b 3) = .ok exPkt := by
  refine ⟨by simp [SCP.InRange, SDP.InRange, ArgOk, exPkt, exHdr], by simp [SCP.Prefix, exPkt], ?_⟩
  exact scp_decode_encode exPkt (by simp [SCP.InRange, SDP.InRange, ArgOk, exPkt, exHdr]) (by simp [SCP.Prefix, exPkt])

end Rig.C15
