/-
C02 - translator tie: the resource arithmetic of rig/place_and_route/place/utils.py (`add_resources`,
`subtract_resources`, `overallocated`, `resources_after_reservation`) is regenerated from the source into
`Gen/PyFun.lean`.  A resource dictionary `{resource: value}` is translated as the association list of its items in
insertion order (keys are integers standing for the hashable resource identifiers); the model (Model/C02.lean) keeps
the *values* as a list indexed by the position of the resource, a vertex that does not mention a resource having 0
there - "this is what `res_b.get(resource, 0)` computes".  Proved here: on a dictionary `ks.zip va` the generated
functions compute exactly the model's `add` / `sub` / `over` / `decr` on the value vectors (the second dictionary
enters through `get(k, 0)`), keep the keys and their order, and raise KeyError exactly where the model says `none`.
-/
import RigModel.Model.C02
import RigModel.Gen.PyFun
import RigModel.Lemmas.PyLoops
set_option linter.unusedSimpArgs false
set_option linter.unusedVariables false
set_option linter.unusedTactic false
set_option linter.unreachableTactic false

namespace Rig.C02
open Rig.Gen

/-- the positional view of a second dictionary along the keys of the first: `res_b.get(k, 0)` -/
def along (ks : List Int) (db : List (Int × Int)) : List Int := ks.map (fun k => (db.lookup k).getD 0)

/-- `add_resources` as written in the source = the model's `add` on the value vectors; keys and order are kept -/
theorem gen_add_resources : ∀ (ks va : List Int) (db : List (Int × Int)), ks.length = va.length →
    PyFun.add_resources (ks.zip va) db = ks.zip (add va (along ks db))
  | [], [], db, _ => rfl
  | k :: ks, a :: va, db, h => by
    have ih := gen_add_resources ks va db (by simpa using h)
    simp only [PyFun.add_resources, along, List.zip_cons_cons, List.map_cons, add] at ih ⊢
    refine congrArg₂ List.cons ?_ ih
    first | rfl | (simp only [Prod.mk.injEq, true_and]; omega)
  | [], _ :: _, _, h => by simp at h
  | _ :: _, [], _, h => by simp at h

/-- `subtract_resources` as written in the source = the model's `sub` -/
theorem gen_subtract_resources : ∀ (ks va : List Int) (db : List (Int × Int)), ks.length = va.length →
    PyFun.subtract_resources (ks.zip va) db = ks.zip (sub va (along ks db))
  | [], [], db, _ => rfl
  | k :: ks, a :: va, db, h => by
    have ih := gen_subtract_resources ks va db (by simpa using h)
    simp only [PyFun.subtract_resources, along, List.zip_cons_cons, List.map_cons, sub] at ih ⊢
    refine congrArg₂ List.cons ?_ ih
    first | rfl | (simp only [Prod.mk.injEq, true_and]; omega)
  | [], _ :: _, _, h => by simp at h
  | _ :: _, [], _, h => by simp at h

/-- `overallocated` as written in the source = the model's `over` -/
theorem gen_overallocated (ks v : List Int) (h : ks.length = v.length) :
    PyFun.overallocated (ks.zip v) = over v := by
  unfold PyFun.overallocated over
  rw [List.map_snd_zip (by omega)]
  cases hv : (v.any fun w => decide (w < 0)) <;> simp [hv]

/-- `res[k] -= x` on the association list = the model's `decr` at the position of the key -/
theorem dictUpd_decr : ∀ (ks v : List Int) (i : Nat) (x : Int), ks.length = v.length → ks.Nodup → (hi : i < ks.length) →
    PyFun.pyDictUpd (ks.zip v) ks[i] (fun w => w - x)
      = match decr v i x with
        | some r => .ok (ks.zip r)
        | none => .error "KeyError"
  | k :: ks, a :: v, 0, x, _, _, _ => by
    simp [PyFun.pyDictUpd, decr]
  | k :: ks, a :: v, i + 1, x, h, hnd, hi => by
    have hi' : i < ks.length := by simpa using hi
    have hk : k ≠ ks[i] := by
      intro e
      have := (List.nodup_cons.mp hnd).1
      exact this (e ▸ List.getElem_mem _)
    have ih := dictUpd_decr ks v i x (by simpa using h) (List.nodup_cons.mp hnd).2 hi'
    simp only [List.zip_cons_cons, PyFun.pyDictUpd, List.getElem_cons_succ, hk, if_false, decr, ih]
    cases decr v i x <;> rfl
  | [], _, _, _, _, _, hi => by simp at hi
  | _ :: _, [], _, _, h, _, _ => by simp at h

theorem dictUpd_absent : ∀ (d : List (Int × Int)) (k : Int) (f : Int → Int), k ∉ d.map Prod.fst →
    PyFun.pyDictUpd d k f = .error "KeyError"
  | [], _, _, _ => rfl
  | (k', v) :: t, k, f, h => by
    have h1 : k' ≠ k := fun e => h (by simp [e])
    have h2 : k ∉ t.map Prod.fst := fun m => h (by simp [m])
    simp [PyFun.pyDictUpd, h1, dictUpd_absent t k f h2, Except.map]

/-- `resources_after_reservation` as written in the source: the reserved amount `stop - start` is taken off the
value of the constraint's resource (the model's `decr` at its position), every other entry is unchanged -/
theorem gen_resources_after_reservation (ks v : List Int) (i : Nat) (start stop : Int) (h : ks.length = v.length)
    (hnd : ks.Nodup) (hi : i < ks.length) :
    PyFun.resources_after_reservation (ks.zip v) (ks[i], start, stop)
      = match decr v i (stop - start) with
        | some r => .ok (ks.zip r)
        | none => .error "KeyError" := by
  unfold PyFun.resources_after_reservation
  dsimp only
  rw [dictUpd_decr ks v i (stop - start) h hnd hi]
  cases decr v i (stop - start) <;> rfl

/-- a resource the dictionary does not have: KeyError (the model's `Err.keyError`) -/
theorem gen_resources_after_reservation_absent (d : List (Int × Int)) (k start stop : Int) (h : k ∉ d.map Prod.fst) :
    PyFun.resources_after_reservation d (k, start, stop) = .error "KeyError" := by
  unfold PyFun.resources_after_reservation
  dsimp only
  rw [dictUpd_absent d k _ h]

/-! ### `Machine.__contains__` for a chip (rig/place_and_route/machine.py) -/

/-- a chip of the model as the Python pair -/
def chipPy (c : Chip) : Int × Int := ((c.1 : Int), (c.2 : Int))

/-- `(x, y) in machine` as written in the source = the model's `Machine.ok` (whatever the dead links are) -/
theorem gen_machine_ok (m : Machine) (c : Chip) (dl : List (Int × Int × Int)) :
    (PyFun.Machine_contains_chip (m.w : Int) (m.h : Int) (m.dead.map chipPy) dl (chipPy c)).1 = m.ok c := by
  obtain ⟨x, y⟩ := c
  unfold PyFun.Machine_contains_chip Machine.ok
  have hc : (m.dead.map chipPy).contains (chipPy (x, y)) = m.dead.contains (x, y) :=
    Rig.PyLoops.contains_map_inj chipPy
      (by intro a b h; obtain ⟨a1, a2⟩ := a; obtain ⟨b1, b2⟩ := b; simp [chipPy] at h ⊢; omega) m.dead (x, y)
  simp only [chipPy] at hc ⊢
  rw [Bool.eq_iff_iff]
  simp only [hc, decide_eq_true_eq, Bool.and_eq_true, Bool.not_eq_true', Bool.not_eq_true]
  constructor
  · rintro ⟨⟨_, h1⟩, ⟨_, h2⟩, h3⟩
    exact ⟨⟨by omega, by omega⟩, by simpa using h3⟩
  · rintro ⟨⟨h1, h2⟩, h3⟩
    exact ⟨⟨by omega, by omega⟩, ⟨by omega, by omega⟩, by simpa using h3⟩

/-- the hypotheses are satisfiable: two resources, the second reserved -/
example : PyFun.resources_after_reservation ([10, 20].zip [5, 7]) (20, 1, 3) = .ok [(10, 5), (20, 5)] := by decide

end Rig.C02
