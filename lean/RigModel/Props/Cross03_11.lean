/-
Cross-model consistency C03 <-> C11.

Model/C03.lean (the router) carries its own copies of the geometry functions of rig/geometry.py,
rig/links.py and route/utils.py that Model/C11.lean models independently (with different encodings of the
random oracle, of three-axis vectors and of Python's floor-mod).  This file proves that the duplicated
definitions agree, so that C11's theorems (shortest lengths = graph distance, shortest vectors, the
longest-dimension-first walk, concentric hexagons, links_between) hold for the functions the C03 model
of the router actually calls.
-/
import RigModel.Model.C03
import RigModel.Props.C11
set_option linter.unusedSimpArgs false
set_option linter.unusedVariables false

namespace Rig.Cross
open Rig

/-- a C03 three-axis tuple as a C11 vector -/
def v3 (v : C03.V3) : C11.V3 := ⟨v.1, v.2.1, v.2.2⟩
/-- a C11 vector as a C03 tuple -/
def t3 (v : C11.V3) : C03.V3 := (v.x, v.y, v.z)

theorem t3_v3 (v : C03.V3) : t3 (v3 v) = v := rfl
theorem v3_t3 (v : C11.V3) : v3 (t3 v) = v := rfl

/-! ### link tables -/

theorem tables_eq :
    Gen.C03Links.fromVectorTable = Gen.Links.linkDirectionLookup ∧
    Gen.C03Links.linkOrder = C11.allLinks ∧
    (∀ l, l < 6 → C11.toVector l = some (C03.vec l)) ∧
    (∀ l, l < 6 → C11.specVec l = some (C03.vec l)) ∧
    (∀ l, l < 6 → C03.opp l = C11.opposite l) ∧
    (∀ d, d ∈ C11.hexSteps → C03.fromVec d = C11.fromVector d.1 d.2) := by
  decide

theorem fromVec_eq_lookupDir (d : Int × Int) : C03.fromVec d = C11.lookupDir d := by
  have h : Gen.C03Links.fromVectorTable = Gen.Links.linkDirectionLookup := by decide
  simp only [C03.fromVec, C11.lookupDir, h]
  generalize Gen.Links.linkDirectionLookup = tbl
  induction tbl with
  | nil => rfl
  | cons e r ih =>
    simp only [List.lookup, List.find?]
    by_cases hd : d = e.1
    · subst hd; simp
    · have h1 : (d == e.1) = false := by simpa using hd
      have h2 : (e.1 == d) = false := by simpa using fun h => hd h.symm
      simp only [h1, h2, ih]

theorem minimise_eq (v : C03.V3) : C03.minimise v = t3 (C11.minimiseXyz (v3 v)) := rfl

/-! ### lengths -/

theorem meshLen_eq (a b : C03.Chip) : C03.meshLen a b = C11.meshLen (C11.toXyz a) (C11.toXyz b) := by
  rfl

theorem torusLen_eq (a b : C03.Chip) (w h : Nat) (hw : 1 ≤ w) (hh : 1 ≤ h) :
    C11.torusLen (C11.toXyz a) (C11.toXyz b) w h = .ok (C03.torusLen a b w h) := by
  have hw' : (0 : Int) ≤ w := by omega
  have hh' : (0 : Int) ≤ h := by omega
  have hz : ¬ ((w : Int) = 0 ∨ (h : Int) = 0) := by omega
  have hz' : ¬ w = 0 ∧ ¬ h = 0 := by omega
  simp [C11.torusLen, hz', C11.torusLenCore, C03.torusLen, C11.toXyz, C11.pyMod,
    Int.fmod_eq_emod_of_nonneg _ hw', Int.fmod_eq_emod_of_nonneg _ hh']

theorem meshPath_eq (a b : C03.Chip) : C03.meshPath a b = t3 (C11.meshPath (C11.toXyz a) (C11.toXyz b)) := by
  simp [C03.meshPath, C11.meshPath, C11.toXyz, minimise_eq, v3]


/-! ### oracle tape -/
theorem draw_ok {t t' : C03.Tape} {r : Int} (h : C03.draw t = .ok (r, t')) :
    t = r :: t' ∧ 0 ≤ r ∧ r < C03.SCALE := by
  cases t with
  | nil => simp [C03.draw] at h
  | cons a t =>
    simp only [C03.draw] at h
    by_cases hc : 0 ≤ a ∧ a < C03.SCALE
    · rw [if_pos hc] at h
      simp only [Except.ok.injEq, Prod.mk.injEq] at h
      obtain ⟨rfl, rfl⟩ := h
      exact ⟨rfl, hc.1, hc.2⟩
    · rw [if_neg hc] at h; simp at h

theorem drawInt_ok {lo hi : Int} {t t' : C03.Tape} {r : Int} (h : C03.drawInt lo hi t = .ok (r, t')) :
    t = r :: t' ∧ lo ≤ r ∧ r ≤ hi := by
  cases t with
  | nil => simp [C03.drawInt] at h
  | cons a t =>
    simp only [C03.drawInt] at h
    by_cases hc : lo ≤ a ∧ a ≤ hi
    · rw [if_pos hc] at h
      simp only [Except.ok.injEq, Prod.mk.injEq] at h
      obtain ⟨rfl, rfl⟩ := h
      exact ⟨rfl, hc.1, hc.2⟩
    · rw [if_neg hc] at h; simp at h

/-- the choice among the four approaches: same first-minimum in both models -/
theorem best_eq (k0 k1 k2 k3 : Int) (u0 u1 u2 u3 : C03.V3) :
    v3 (C03.firstMin (fun (p : Int × C03.V3) => p.1) (k0, u0) [(k1, u1), (k2, u2), (k3, u3)]).2 =
    (C11.minByKey (k0, v3 u0) [(k1, v3 u1), (k2, v3 u2), (k3, v3 u3)]).2 := by
  simp only [C03.firstMin, C11.minByKey, List.foldl]
  repeat' split
  all_goals first | rfl | omega


theorem scale_nat : ((1048576 : Nat) : Int) = C03.SCALE := rfl

/-- the spiral adjustment of the C03 model, as a function of the minimised vector -/
def spiral03 (v : C03.V3) (w h : Nat) (t : C03.Tape) : Except C03.Err (C03.V3 × C03.Tape) :=
  let W : Int := w
  let H : Int := h
  let x := v.1
  let y := v.2.1
  let z := v.2.2
  if x.natAbs ≥ h then do
    let ms := (if x < 0 then x + H - 1 else x) / H
    let (k, t) ← C03.drawInt (min 0 ms) (max 0 ms) t
    let d := k * H
    pure ((x - d, y, z - d), t)
  else if y.natAbs ≥ w then do
    let ms := (if y < 0 then y + W - 1 else y) / W
    let (k, t) ← C03.drawInt (min 0 ms) (max 0 ms) t
    let d := k * W
    pure ((x, y - d, z - d), t)
  else
    pure ((x, y, z), t)

def best03 (a b : C03.Chip) (w h : Nat) (r0 r1 r2 r3 : Int) : C03.V3 :=
  let W : Int := w
  let H : Int := h
  let dx := (b.1 - a.1) % W
  let dy := (b.2 - a.2) % H
  let a0 : Int × C03.V3 := (max dx dy * C03.SCALE + r0, (dx, dy, 0))
  let a1 : Int × C03.V3 := ((W - dx + dy) * C03.SCALE + r1, (-(W - dx), dy, 0))
  let a2 : Int × C03.V3 := ((dx + H - dy) * C03.SCALE + r2, (dx, -(H - dy), 0))
  let a3 : Int × C03.V3 := (max (W - dx) (H - dy) * C03.SCALE + r3, (-(W - dx), -(H - dy), 0))
  C03.minimise (C03.firstMin (fun (p : Int × C03.V3) => p.1) a0 [a1, a2, a3]).2

theorem torusPath_decomp (a b : C03.Chip) (w h : Nat) (t : C03.Tape) :
    C03.torusPath a b w h t = (do
      let (r0, t) ← C03.draw t
      let (r1, t) ← C03.draw t
      let (r2, t) ← C03.draw t
      let (r3, t) ← C03.draw t
      spiral03 (best03 a b w h r0 r1 r2 r3) w h t) := rfl

theorem spiral_eq (mv : C03.V3) (w h : Nat) (hw : 1 ≤ w) (hh : 1 ≤ h) (t t' : C03.Tape) (v : C03.V3)
    (hp : spiral03 mv w h t = .ok (v, t')) : ∃ s : Nat, C11.spiral (v3 mv) w h s = v3 v := by
  have hw' : (0 : Int) ≤ w := by omega
  have hh' : (0 : Int) ≤ h := by omega
  obtain ⟨x, y, z⟩ := mv
  simp only [spiral03, bind, Except.bind, pure, Except.pure] at hp
  have e1 : (v3 (x, y, z)).x = x := rfl
  have e2 : (v3 (x, y, z)).y = y := rfl
  have e3 : (v3 (x, y, z)).z = z := rfl
  by_cases c1 : x.natAbs ≥ h
  · have c1' : ((x.natAbs : Nat) : Int) ≥ (h : Int) := by omega
    rw [if_pos c1] at hp
    split at hp
    · simp at hp
    rename_i kt hk; obtain ⟨k, tk⟩ := kt
    obtain ⟨_, lo, hi⟩ := drawInt_ok hk
    obtain ⟨s, hs⟩ := C11.randint_surjective _ _ k lo hi
    simp only [Except.ok.injEq, Prod.mk.injEq] at hp
    obtain ⟨rfl, _⟩ := hp
    refine ⟨s, ?_⟩
    simp only [C11.spiral, e1, e2, e3, C11.pyDiv, Int.fdiv_eq_ediv_of_nonneg _ hh', if_pos c1', hs]
    rfl
  · have c1' : ¬ ((x.natAbs : Nat) : Int) ≥ (h : Int) := by omega
    rw [if_neg c1] at hp
    by_cases c2 : y.natAbs ≥ w
    · have c2' : ((y.natAbs : Nat) : Int) ≥ (w : Int) := by omega
      rw [if_pos c2] at hp
      split at hp
      · simp at hp
      rename_i kt hk; obtain ⟨k, tk⟩ := kt
      obtain ⟨_, lo, hi⟩ := drawInt_ok hk
      obtain ⟨s, hs⟩ := C11.randint_surjective _ _ k lo hi
      simp only [Except.ok.injEq, Prod.mk.injEq] at hp
      obtain ⟨rfl, _⟩ := hp
      refine ⟨s, ?_⟩
      simp only [C11.spiral, e1, e2, e3, C11.pyDiv, Int.fdiv_eq_ediv_of_nonneg _ hw', if_neg c1', if_pos c2', hs]
      rfl
    · have c2' : ¬ ((y.natAbs : Nat) : Int) ≥ (w : Int) := by omega
      rw [if_neg c2] at hp
      simp only [Except.ok.injEq, Prod.mk.injEq] at hp
      obtain ⟨rfl, _⟩ := hp
      refine ⟨0, ?_⟩
      simp only [C11.spiral, e1, e2, e3, if_neg c1', if_neg c2']

theorem best_core_eq (a b : C03.Chip) (w h : Nat) (hw : 1 ≤ w) (hh : 1 ≤ h) (r0 r1 r2 r3 : Int)
    (a0 : 0 ≤ r0) (a1 : 0 ≤ r1) (a2 : 0 ≤ r2) (a3 : 0 ≤ r3) (s : Nat) :
    C11.torusPathCore (C11.toXyz a) (C11.toXyz b) w h 1048576 r0.toNat r1.toNat r2.toNat r3.toNat s =
      C11.spiral (v3 (best03 a b w h r0 r1 r2 r3)) w h s := by
  have hw' : (0 : Int) ≤ w := by omega
  have hh' : (0 : Int) ≤ h := by omega
  have e0 : ((r0.toNat : Nat) : Int) = r0 := by omega
  have e1 : ((r1.toNat : Nat) : Int) = r1 := by omega
  have e2 : ((r2.toNat : Nat) : Int) = r2 := by omega
  have e3 : ((r3.toNat : Nat) : Int) = r3 := by omega
  simp only [C11.torusPathCore, C11.approaches, C11.toXyz, C11.pyMod, Int.fmod_eq_emod_of_nonneg _ hw',
    Int.fmod_eq_emod_of_nonneg _ hh', Int.sub_zero, e0, e1, e2, e3, best03, minimise_eq, v3_t3, scale_nat]
  rw [best_eq]
  rfl

/-- **Torus vector: same function.**  Whatever the C03 model of `shortest_torus_path` returns (reading its
four tie-break draws and, if any, the spiral count from the tape) is the value of C11's model for some legal
choice of C11's oracle inputs. -/
theorem torusPath_eq (a b : C03.Chip) (w h : Nat) (hw : 1 ≤ w) (hh : 1 ≤ h) (t t' : C03.Tape) (v : C03.V3)
    (hp : C03.torusPath a b w h t = .ok (v, t')) :
    ∃ k0 k1 k2 k3 s : Nat, k0 < 1048576 ∧ k1 < 1048576 ∧ k2 < 1048576 ∧ k3 < 1048576 ∧
      C11.torusPath (C11.toXyz a) (C11.toXyz b) w h 1048576 k0 k1 k2 k3 s = .ok (v3 v) := by
  have hw' : (0 : Int) ≤ w := by omega
  have hh' : (0 : Int) ≤ h := by omega
  have hz' : ¬ ((w : Int) = 0 ∨ (h : Int) = 0) := by omega
  rw [torusPath_decomp] at hp
  simp only [bind, Except.bind] at hp
  split at hp
  · simp at hp
  rename_i p0 h0; obtain ⟨r0, t0⟩ := p0
  split at hp
  · simp at hp
  rename_i p1 h1; obtain ⟨r1, t1⟩ := p1
  split at hp
  · simp at hp
  rename_i p2 h2; obtain ⟨r2, t2⟩ := p2
  split at hp
  · simp at hp
  rename_i p3 h3; obtain ⟨r3, t3⟩ := p3
  obtain ⟨_, a0, b0⟩ := draw_ok h0
  obtain ⟨_, a1, b1⟩ := draw_ok h1
  obtain ⟨_, a2, b2⟩ := draw_ok h2
  obtain ⟨_, a3, b3⟩ := draw_ok h3
  have hs : C03.SCALE = 1048576 := rfl
  obtain ⟨s, hsp⟩ := spiral_eq _ w h hw hh _ _ _ hp
  refine ⟨r0.toNat, r1.toNat, r2.toNat, r3.toNat, s, by omega, by omega, by omega, by omega, ?_⟩
  simp only [C11.torusPath, hz', if_false]
  rw [best_core_eq a b w h hw hh r0 r1 r2 r3 a0 a1 a2 a3 s, hsp]

/-! ### longest dimension first -/
theorem wrapC_eq (w h : Nat) (hw : 1 ≤ w) (hh : 1 ≤ h) (p d : Int × Int) :
    C11.stepTo (some (w : Int)) (some (h : Int)) p d = C03.wrapC w h (p.1 + d.1, p.2 + d.2) := by
  have hw' : (0 : Int) ≤ w := by omega
  have hh' : (0 : Int) ≤ h := by omega
  simp only [C11.stepTo, C11.wrap, C11.pyMod, C03.wrapC, Int.fmod_eq_emod_of_nonneg _ hw',
    Int.fmod_eq_emod_of_nonneg _ hh']

theorem walk_eq (w h : Nat) (hw : 1 ≤ w) (hh : 1 ≤ h) (dir : Nat) (d : Int × Int) (n : Nat) (pos : C03.Chip) :
    C11.walkDim (some (w : Int)) (some (h : Int)) d (some dir) n pos =
      (C03.walk w h dir d.1 d.2 n pos).map C11.some1 := by
  induction n generalizing pos with
  | zero => rfl
  | succ n ih =>
    simp only [C11.walkDim, C03.walk, List.map_cons, wrapC_eq w h hw hh, ih, C11.some1]

theorem walkEnd_eq (w h : Nat) (hw : 1 ≤ w) (hh : 1 ≤ h) (d : Int × Int) (n : Nat) (pos : C03.Chip) :
    C11.posAfter (some (w : Int)) (some (h : Int)) d n pos = C03.walkEnd w h d.1 d.2 n pos := by
  induction n generalizing pos with
  | zero => rfl
  | succ n ih => simp only [C11.posAfter, C03.walkEnd, wrapC_eq w h hw hh, ih]

theorem dimDelta_eq (dim : Nat) (mag : Int) :
    C03.dimDelta dim mag = C11.unitOf dim (if mag > 0 then 1 else -1) := by
  unfold C03.dimDelta C11.unitOf
  match dim with
  | 0 => simp
  | 1 => simp
  | (n + 2) => simp

theorem fromVec_unit_eq (dim : Nat) (mag : Int) :
    C03.fromVec (C03.dimDelta dim mag) =
      C11.fromVector (C03.dimDelta dim mag).1 (C03.dimDelta dim mag).2 := by
  have hc : C03.dimDelta dim mag = (1, 0) ∨ C03.dimDelta dim mag = (-1, 0) ∨ C03.dimDelta dim mag = (0, 1) ∨
      C03.dimDelta dim mag = (0, -1) ∨ C03.dimDelta dim mag = (-1, -1) ∨ C03.dimDelta dim mag = (1, 1) := by
    unfold C03.dimDelta
    split <;> split <;> simp
  rcases hc with hc | hc | hc | hc | hc | hc <;> rw [hc] <;> decide

/-- the loop of `longest_dimension_first`: same walk in both models -/
theorem ldfGo_eq (w h : Nat) (hw : 1 ≤ w) (hh : 1 ≤ h) :
    ∀ (items : List (Nat × Int × Int)) (pos : C03.Chip) (out : List (Nat × C03.Chip)),
      C03.ldfGo w h (items.map fun it => (it.1, it.2.1)) pos = .ok out →
      C11.ldfLoop (some (w : Int)) (some (h : Int)) items pos = out.map C11.some1 := by
  intro items
  induction items with
  | nil =>
    intro pos out hgo
    simp only [List.map_nil, C03.ldfGo, pure, Except.pure, Except.ok.injEq] at hgo
    subst hgo; rfl
  | cons it rest ih =>
    intro pos out hgo
    obtain ⟨dim, mag, key⟩ := it
    simp only [List.map_cons, C03.ldfGo] at hgo
    by_cases hm : mag = 0
    · subst hm
      simp only [beq_self_eq_true, if_true, pure, Except.pure, Except.ok.injEq] at hgo
      subst hgo
      simp [C11.ldfLoop]
    · have hm' : (mag == 0) = false := by simpa using hm
      simp only [hm', Bool.false_eq_true, if_false] at hgo
      rw [fromVec_unit_eq] at hgo
      split at hgo
      · simp at hgo
      rename_i dir hdir
      simp only [bind, Except.bind] at hgo
      split at hgo
      · simp at hgo
      rename_i r hr
      simp only [pure, Except.pure, Except.ok.injEq] at hgo
      subst hgo
      have hr' := ih _ _ hr
      simp only [C11.ldfLoop, if_neg hm, ← dimDelta_eq, hdir, walk_eq w h hw hh, walkEnd_eq w h hw hh, hr',
        List.map_append]


theorem order_eq' (x y z k0 k1 k2 : Int) :
    (C03.sortDesc (fun (p : (Nat × Int) × Int) => p.2) [((0, x), k0), ((1, y), k1), ((2, z), k2)]).map (·.1) =
    ((C11.insertDesc (0, x, k0) (C11.insertDesc (1, y, k1) (C11.insertDesc (2, z, k2) []))).map
      fun it => (it.1, it.2.1)) := by
  simp only [C03.sortDesc, List.foldl, C03.insertDesc, C11.insertDesc]
  repeat' split
  all_goals try simp only [C03.insertDesc, C11.insertDesc]
  all_goals repeat' split
  all_goals try simp only [C03.insertDesc, C11.insertDesc]
  all_goals repeat' split
  all_goals first | omega | rfl

theorem order_eq (v : C03.V3) (r0 r1 r2 : Int) :
    (C03.sortDesc (fun (p : (Nat × Int) × Int) => p.2)
      [((0, v.1), (Int.natAbs v.1 : Int) * C03.SCALE + r0), ((1, v.2.1), (Int.natAbs v.2.1 : Int) * C03.SCALE + r1),
       ((2, v.2.2), (Int.natAbs v.2.2 : Int) * C03.SCALE + r2)]).map (·.1) =
    ((C11.insertDesc (0, v.1, (Int.natAbs v.1 : Int) * C03.SCALE + r0)
      (C11.insertDesc (1, v.2.1, (Int.natAbs v.2.1 : Int) * C03.SCALE + r1)
        (C11.insertDesc (2, v.2.2, (Int.natAbs v.2.2 : Int) * C03.SCALE + r2) []))).map fun it => (it.1, it.2.1)) :=
  order_eq' _ _ _ _ _ _


/-- **Longest dimension first: same function.**  The path the C03 model returns (three tie-break draws read
from the tape) is the path of C11's model for the same draws. -/
theorem ldf_eq (v : C03.V3) (start : C03.Chip) (w h : Nat) (hw : 1 ≤ w) (hh : 1 ≤ h) (t t' : C03.Tape)
    (p : List (Nat × C03.Chip)) (hl : C03.ldf v start w h t = .ok (p, t')) :
    ∃ j0 j1 j2 : Nat, j0 < 1048576 ∧ j1 < 1048576 ∧ j2 < 1048576 ∧
      C11.ldf (v3 v) start (some (w : Int)) (some (h : Int)) 1048576 j0 j1 j2 = .ok p := by
  unfold C03.ldf at hl
  simp only [bind, Except.bind] at hl
  split at hl
  · simp at hl
  rename_i p0 h0; obtain ⟨r0, t0⟩ := p0
  split at hl
  · simp at hl
  rename_i p1 h1; obtain ⟨r1, t1⟩ := p1
  split at hl
  · simp at hl
  rename_i p2 h2; obtain ⟨r2, t2⟩ := p2
  obtain ⟨_, a0, b0⟩ := draw_ok h0
  obtain ⟨_, a1, b1⟩ := draw_ok h1
  obtain ⟨_, a2, b2⟩ := draw_ok h2
  have hs : C03.SCALE = 1048576 := rfl
  have e0 : ((r0.toNat : Nat) : Int) = r0 := by omega
  have e1 : ((r1.toNat : Nat) : Int) = r1 := by omega
  have e2 : ((r2.toNat : Nat) : Int) = r2 := by omega
  refine ⟨r0.toNat, r1.toNat, r2.toNat, by omega, by omega, by omega, ?_⟩
  simp only at hl
  split at hl
  · simp at hl
  rename_i out hgo
  simp only [pure, Except.pure, Except.ok.injEq, Prod.mk.injEq] at hl
  obtain ⟨rfl, _⟩ := hl
  rw [order_eq] at hgo
  have := ldfGo_eq w h hw hh _ _ _ hgo
  simp only [C11.ldf, C11.ldfRaw, C11.ldfOrder, v3, e0, e1, e2, scale_nat, this]
  exact C11.mapM_some1 out

/-! ### concentric hexagons -/

theorem side_fold (d : Int × Int) : ∀ (l : List Nat) (p : C03.Chip) (acc : List C03.Chip),
    l.foldl (fun (s : C03.Chip × List C03.Chip) _ => ((s.1.1 + d.1, s.1.2 + d.2), s.1 :: s.2)) (p, acc) =
      (C11.sideEnd d l.length p, (C11.walkSide d l.length p).reverse ++ acc) := by
  intro l
  induction l with
  | nil => intro p acc; simp [C11.sideEnd, C11.walkSide]
  | cons a r ih =>
    intro p acc
    simp only [List.foldl_cons, ih, List.length_cons, C11.walkSide, List.reverse_cons, List.append_assoc,
      List.singleton_append, C11.sideEnd, Prod.mk.injEq, and_true]
    refine ⟨?_, ?_⟩ <;> (rw [Int.natCast_succ, Int.add_mul, Int.one_mul]; omega)

theorem ring_fold (r : Nat) : ∀ (ds : List (Int × Int)) (p : C03.Chip) (acc : List C03.Chip),
    ds.foldl (fun s d =>
      (List.range r).foldl (fun (s : C03.Chip × List C03.Chip) _ => ((s.1.1 + d.1, s.1.2 + d.2), s.1 :: s.2)) s)
      (p, acc) = (C11.ringEnd r ds p, (C11.walkRing r ds p).reverse ++ acc) := by
  intro ds
  induction ds with
  | nil => intro p acc; simp [C11.ringEnd, C11.walkRing]
  | cons d ds ih =>
    intro p acc
    simp only [List.foldl_cons, side_fold, List.length_range, ih, C11.ringEnd, C11.walkRing, List.reverse_append,
      List.append_assoc]

theorem hexRing_eq (r : Nat) (p : C03.Chip) (acc : List C03.Chip) :
    C03.hexRing r (p, acc) =
      (C11.ringEnd r C11.hexDirs (p.1, p.2 - 1), (C11.walkRing r C11.hexDirs (p.1, p.2 - 1)).reverse ++ acc) := by
  simp only [C03.hexRing]
  exact ring_fold r C03.hexDirs (p.1, p.2 - 1) acc

/-- position after `n` rings starting with ring `r` -/
def ringsEnd : Nat → Nat → C11.P2 → C11.P2
  | 0, _, p => p
  | n + 1, r, p => ringsEnd n (r + 1) (C11.ringEnd r C11.hexDirs (p.1, p.2 - 1))

theorem rings_fold : ∀ (n r0 : Nat) (p : C03.Chip) (acc : List C03.Chip),
    (List.range' r0 n).foldl (fun s i => C03.hexRing (i + 1) s) (p, acc) =
      (ringsEnd n (r0 + 1) p, (C11.rings n (r0 + 1) p).reverse ++ acc) := by
  intro n
  induction n with
  | zero => intro r0 p acc; simp [ringsEnd, C11.rings]
  | succ n ih =>
    intro r0 p acc
    simp only [List.range'_succ, List.foldl_cons, hexRing_eq, ih, ringsEnd, C11.rings, List.reverse_append,
      List.append_assoc]

/-- **Concentric hexagons: same list.** -/
theorem concentricHexagons_eq (radius : Nat) :
    C03.concentricHexagons radius = C11.concentricHexagons (radius : Int) (0, 0) := by
  simp only [C03.concentricHexagons, C11.concentricHexagons, List.range_eq_range', rings_fold, Int.toNat_natCast,
    List.reverse_append, List.reverse_reverse, List.reverse_cons, List.reverse_nil, List.nil_append,
    List.singleton_append, Nat.zero_add]


/-! ### machine, links_between -/

/-- the C03 machine as a C11 machine -/
def mach (m : C03.Machine) : C11.Mach := ⟨m.w, m.h, m.deadChips, m.deadLinks⟩

theorem chipOk_eq (m : C03.Machine) (c : C03.Chip) : (mach m).hasChip c = C03.chipOk m c := rfl
theorem linkOk_eq (m : C03.Machine) (c : C03.Chip) (l : Nat) : (mach m).hasLink c l = C03.linkOk m c l := rfl

theorem specVec_vec : ∀ l, l < 6 → C11.specVec l = some (C03.vec l) := by decide

/-- `step` of the C03 model is C11's `stepTo` along the specification's vector -/
theorem step_eq (m : C03.Machine) (hw : 1 ≤ m.w) (hh : 1 ≤ m.h) (c : C03.Chip) (l : Nat) :
    C03.step m c l = C11.stepTo (some (m.w : Int)) (some (m.h : Int)) c (C03.vec l) := by
  rw [wrapC_eq m.w m.h hw hh]; rfl

/-- **links_between: same list**, and it is the specification's list of C11 -/
theorem linksBetween_eq (m : C03.Machine) (hw : 1 ≤ m.w) (hh : 1 ≤ m.h) (a b : C03.Chip) :
    C03.linksBetween m a b = C11.specLinksBetween a b (mach m) ∧
    C11.linksBetween a b (mach m) = some (C03.linksBetween m a b) := by
  have h1 : C03.linksBetween m a b = C11.specLinksBetween a b (mach m) := by
    have hr : Gen.C03Links.linkOrder = List.range 6 := by decide
    simp only [C03.linksBetween, C11.specLinksBetween, hr]
    apply List.filter_congr
    intro l hl
    have hl6 : l < 6 := by simpa using hl
    simp only [specVec_vec l hl6, step_eq m hw hh, linkOk_eq]
    rfl
  exact ⟨h1, by rw [C11.linksBetween_exact, h1]⟩


/-! ### geodesics: a labelled walk whose length is the graph distance -/

theorem walkOk_cons {w h : Option Int} {p : C11.P2} {l : Nat} {q : C11.P2} {rest : List (Nat × C11.P2)}
    (hok : C11.walkOk w h p ((l, q) :: rest) = true) :
    ∃ d, C11.specVec l = some d ∧ d ∈ C11.hexSteps ∧ q = C11.stepTo w h p d ∧ C11.walkOk w h q rest = true := by
  simp only [C11.walkOk, Bool.and_eq_true] at hok
  obtain ⟨h1, h2⟩ := hok
  cases hs : C11.specVec l with
  | none => simp [hs] at h1
  | some d =>
    simp only [hs, beq_iff_eq] at h1
    exact ⟨d, rfl, C11.specVec_mem hs, h1.symm, h2⟩

/-- every chip of a walk splits it into a walk to the chip and a walk from the chip to the end -/
theorem walk_split {w h : Option Int} : ∀ (path : List (Nat × C11.P2)) (p c : C11.P2),
    C11.walkOk w h p path = true → c ∈ path.map (·.2) →
    ∃ i j, 1 ≤ i ∧ i + j = path.length ∧ C11.Reach w h i p c ∧ C11.Reach w h j c (C11.lastPos p path) := by
  intro path
  induction path with
  | nil => intro p c _ hc; simp at hc
  | cons e rest ih =>
    intro p c hok hc
    obtain ⟨l, q⟩ := e
    obtain ⟨d, hs, hd, hq, hrest⟩ := walkOk_cons hok
    rw [C11.lastPos_cons]
    simp only [List.map_cons, List.mem_cons] at hc
    rcases hc with rfl | hc
    · refine ⟨1, rest.length, Nat.le_refl _, by simp; omega, ?_, C11.walkOk_reach w h _ rest hrest⟩
      rw [hq]; exact C11.Reach.step d (C11.Reach.refl p) hd
    · obtain ⟨i, j, hi, hij, r1, r2⟩ := ih q c hrest hc
      exact ⟨i + 1, j, by omega, by simp; omega, C11.reach_cons hd hq r1, r2⟩

/-- **A shortest walk visits no chip twice** (and does not return to its start). -/
theorem geodesic_nodup {w h : Option Int} : ∀ (path : List (Nat × C11.P2)) (p : C11.P2),
    C11.walkOk w h p path = true →
    (∀ m, C11.Reach w h m p (C11.lastPos p path) → path.length ≤ m) →
    (p :: path.map (·.2)).Nodup := by
  intro path
  induction path with
  | nil => intro p _ _; simp
  | cons e rest ih =>
    intro p hok hmin
    obtain ⟨l, q⟩ := e
    obtain ⟨d, hs, hd, hq, hrest⟩ := walkOk_cons hok
    rw [List.nodup_cons]
    constructor
    · intro hmem
      obtain ⟨i, j, hi, hij, r1, r2⟩ := walk_split _ p p hok hmem
      have := hmin j r2
      omega
    · apply ih q hrest
      intro m hr
      rw [C11.lastPos_cons] at hmin
      have := hmin (m + 1) (C11.reach_cons hd hq hr)
      simp at this; omega


theorem projT_inrange (c : C03.Chip) (w h : Nat) (h1 : 0 ≤ c.1) (h2 : c.1 < (w : Int)) (h3 : 0 ≤ c.2)
    (h4 : c.2 < (h : Int)) : C11.projT (C11.toXyz c) w h = c := by
  simp only [C11.projT, C11.toXyz, Int.sub_zero, Int.emod_eq_of_lt h1 h2, Int.emod_eq_of_lt h3 h4]

/-- **The route `ner_net` walks towards a destination on a torus is a shortest walk.**  In the C03 model: the
vector from `shortest_torus_path`, walked by `longest_dimension_first`, for every content of the oracle tape,
is a labelled walk of the `w × h` hexagonal torus from the neighbour to the destination whose number of hops is
`shortest_torus_path_length` = the graph distance (C11); hence it visits no chip twice. -/
theorem torus_route (nb dest : C03.Chip) (w h : Nat) (hw : 1 ≤ w) (hh : 1 ≤ h)
    (n1 : 0 ≤ nb.1) (n2 : nb.1 < (w : Int)) (n3 : 0 ≤ nb.2) (n4 : nb.2 < (h : Int))
    (d1 : 0 ≤ dest.1) (d2 : dest.1 < (w : Int)) (d3 : 0 ≤ dest.2) (d4 : dest.2 < (h : Int))
    (t t1 t2 : C03.Tape) (v : C03.V3) (path : List (Nat × C03.Chip))
    (hv : C03.torusPath nb dest w h t = .ok (v, t1)) (hl : C03.ldf v nb w h t1 = .ok (path, t2)) :
    C11.walkOk (some (w : Int)) (some (h : Int)) nb path = true ∧ C11.lastPos nb path = dest ∧
    (path.length : Int) = C03.torusLen nb dest w h ∧
    C11.IsDist (some (w : Int)) (some (h : Int)) nb dest path.length ∧
    (nb :: path.map (·.2)).Nodup := by
  obtain ⟨k0, k1, k2, k3, s, a0, a1, a2, a3, hv'⟩ := torusPath_eq nb dest w h hw hh t t1 v hv
  obtain ⟨j0, j1, j2, b0, b1, b2, hl'⟩ := ldf_eq v nb w h hw hh t1 t2 path hl
  obtain ⟨v', path', c1, c2, c3, c4, c5⟩ :=
    C11.torus_walk_compose (C11.toXyz nb) (C11.toXyz dest) w h (by omega) (by omega) 1048576 k0 k1 k2 k3 s
      a0 a1 a2 a3 1048576 j0 j1 j2 b0 b1 b2
  rw [hv'] at c1
  simp only [Except.ok.injEq] at c1
  subst c1
  rw [projT_inrange nb w h n1 n2 n3 n4] at c2 c4 c5
  rw [projT_inrange dest w h d1 d2 d3 d4] at c5
  rw [hl'] at c2
  simp only [Except.ok.injEq] at c2
  subst c2
  rw [torusLen_eq nb dest w h hw hh] at c3
  simp only [Except.ok.injEq] at c3
  obtain ⟨n, e1, e2⟩ := C11.torusLen_eq_dist (C11.toXyz nb) (C11.toXyz dest) w h (by omega) (by omega)
  rw [torusLen_eq nb dest w h hw hh] at e1
  simp only [Except.ok.injEq] at e1
  rw [projT_inrange nb w h n1 n2 n3 n4, projT_inrange dest w h d1 d2 d3 d4] at e2
  have hn : n = path.length := by omega
  subst hn
  refine ⟨c4, c5, c3.symm, e2, ?_⟩
  apply geodesic_nodup path nb c4
  intro m hr
  rw [c5] at hr
  exact e2.2 m hr

/-! ### mesh: the unwrapped walk stays inside the machine -/

theorem mapM_some1_inv : ∀ (raw : List (Option Nat × C11.P2)) (path : List (Nat × C11.P2)),
    raw.mapM (fun e : Option Nat × C11.P2 =>
      match e.1 with
      | some l => (Except.ok (l, e.2) : Except C11.Err (Nat × C11.P2))
      | none => .error .keyError) = .ok path → raw = path.map C11.some1 := by
  intro raw
  induction raw with
  | nil => intro path h; simp only [List.mapM_nil, pure, Except.pure, Except.ok.injEq] at h; subst h; rfl
  | cons e r ih =>
    intro path h
    obtain ⟨lab, q⟩ := e
    simp only [List.mapM_cons, bind, Except.bind] at h
    cases lab with
    | none => simp at h
    | some l =>
      simp only at h
      split at h
      · simp at h
      rename_i r' hr'
      simp only [pure, Except.pure, Except.ok.injEq] at h
      subst h
      simp only [List.map_cons, C11.some1, ih r' hr']

def InBox (w h : Nat) (c : C11.P2) : Prop := 0 ≤ c.1 ∧ c.1 < (w : Int) ∧ 0 ≤ c.2 ∧ c.2 < (h : Int)

theorem stepTo_inbox (w h : Nat) (p d : C11.P2) (hb : InBox w h (C11.stepTo none none p d)) :
    C11.stepTo (some (w : Int)) (some (h : Int)) p d = C11.stepTo none none p d := by
  obtain ⟨b1, b2, b3, b4⟩ := hb
  simp only [C11.stepTo, C11.wrap] at b1 b2 b3 b4 ⊢
  have hw' : (0 : Int) ≤ w := by omega
  have hh' : (0 : Int) ≤ h := by omega
  simp only [C11.pyMod, Int.fmod_eq_emod_of_nonneg _ hw', Int.fmod_eq_emod_of_nonneg _ hh',
    Int.emod_eq_of_lt b1 b2, Int.emod_eq_of_lt b3 b4]

theorem walkDim_inbox (w h : Nat) (dv : C11.P2) (lab : Option Nat) : ∀ (n : Nat) (p : C11.P2),
    (∀ e, e ∈ C11.walkDim none none dv lab n p → InBox w h e.2) →
    C11.walkDim (some (w : Int)) (some (h : Int)) dv lab n p = C11.walkDim none none dv lab n p ∧
    C11.posAfter (some (w : Int)) (some (h : Int)) dv n p = C11.posAfter none none dv n p := by
  intro n
  induction n with
  | zero => intro p _; exact ⟨rfl, rfl⟩
  | succ n ih =>
    intro p hb
    simp only [C11.walkDim, List.mem_cons] at hb
    have e := stepTo_inbox w h p dv (hb _ (Or.inl rfl))
    obtain ⟨i1, i2⟩ := ih (C11.stepTo none none p dv) (fun e he => hb e (Or.inr he))
    simp only [C11.walkDim, C11.posAfter, e, i1, i2, and_self]

theorem ldfLoop_inbox (w h : Nat) : ∀ (items : List (Nat × Int × Int)) (p : C11.P2),
    (∀ e, e ∈ C11.ldfLoop none none items p → InBox w h e.2) →
    C11.ldfLoop (some (w : Int)) (some (h : Int)) items p = C11.ldfLoop none none items p := by
  intro items
  induction items with
  | nil => intro p _; rfl
  | cons it rest ih =>
    intro p hb
    obtain ⟨dim, mag, key⟩ := it
    simp only [C11.ldfLoop] at hb ⊢
    by_cases hm : mag = 0
    · simp only [hm, if_true]
    · simp only [hm, if_false, List.mem_append] at hb ⊢
      obtain ⟨i1, i2⟩ := walkDim_inbox w h _ _ _ p (fun e he => hb e (Or.inl he))
      rw [i1, i2, ih _ (fun e he => hb e (Or.inr he))]

theorem hexLen_ge (x y : Int) :
    x ≤ C11.hexLen x y ∧ -x ≤ C11.hexLen x y ∧ y ≤ C11.hexLen x y ∧ -y ≤ C11.hexLen x y ∧
    x - y ≤ C11.hexLen x y ∧ y - x ≤ C11.hexLen x y := by
  simp only [C11.hexLen]; omega

/-- every chip of a shortest walk of the unbounded mesh lies in the bounding box of its two ends -/
theorem geodesic_box (path : List (Nat × C11.P2)) (p c : C11.P2)
    (hok : C11.walkOk none none p path = true)
    (hlen : (path.length : Int) = C11.hexLen ((C11.lastPos p path).1 - p.1) ((C11.lastPos p path).2 - p.2))
    (hc : c ∈ path.map (·.2)) :
    (min p.1 (C11.lastPos p path).1 ≤ c.1 ∧ c.1 ≤ max p.1 (C11.lastPos p path).1) ∧
    (min p.2 (C11.lastPos p path).2 ≤ c.2 ∧ c.2 ≤ max p.2 (C11.lastPos p path).2) := by
  obtain ⟨i, j, hi, hij, r1, r2⟩ := walk_split path p c hok hc
  have l1 := C11.reach_mesh_lower r1
  have l2 := C11.reach_mesh_lower r2
  generalize C11.lastPos p path = q at *
  have : (i : Int) + j = path.length := by omega
  obtain ⟨a1, a2, a3, a4, a5, a6⟩ := hexLen_ge (c.1 - p.1) (c.2 - p.2)
  obtain ⟨b1, b2, b3, b4, b5, b6⟩ := hexLen_ge (q.1 - c.1) (q.2 - c.2)
  generalize C11.hexLen (c.1 - p.1) (c.2 - p.2) = H1 at *
  generalize C11.hexLen (q.1 - c.1) (q.2 - c.2) = H2 at *
  simp only [C11.hexLen] at hlen
  omega

/-- **The route `ner_net` walks towards a destination on a mesh is a shortest walk that never leaves the
machine.**  In the C03 model (whose `longest_dimension_first` always reduces modulo width / height): with both
ends inside the `w × h` machine, the walk of the `shortest_mesh_path` vector is a labelled walk of the
UNWRAPPED hexagonal mesh (no hop uses a wrap-around link), every chip of it is inside the machine, its number of
hops is `shortest_mesh_path_length` = the graph distance (C11), and it visits no chip twice. -/
theorem mesh_route (nb dest : C03.Chip) (w h : Nat) (hw : 1 ≤ w) (hh : 1 ≤ h)
    (hn : InBox w h nb) (hd : InBox w h dest) (t t2 : C03.Tape) (path : List (Nat × C03.Chip))
    (hl : C03.ldf (C03.meshPath nb dest) nb w h t = .ok (path, t2)) :
    C11.walkOk none none nb path = true ∧ C11.lastPos nb path = dest ∧
    (path.length : Int) = C03.meshLen nb dest ∧
    (∀ c, c ∈ path.map (·.2) → InBox w h c) ∧
    (nb :: path.map (·.2)).Nodup := by
  obtain ⟨j0, j1, j2, b0, b1, b2, hl'⟩ := ldf_eq _ nb w h hw hh t t2 path hl
  obtain ⟨path', p1, p2⟩ := C11.ldf_walk (v3 (C03.meshPath nb dest)) nb none none 1048576 j0 j1 j2 b0 b1 b2
  simp only [C11.ldfOk, Bool.and_eq_true, beq_iff_eq, C11.congr?] at p2
  obtain ⟨⟨⟨q1, q2⟩, q3⟩, q4⟩ := p2
  obtain ⟨m1, m2⟩ := C11.meshPath_ok (C11.toXyz nb) (C11.toXyz dest)
  have hvv : v3 (C03.meshPath nb dest) = C11.meshPath (C11.toXyz nb) (C11.toXyz dest) := by
    rw [meshPath_eq]; rfl
  rw [hvv] at q2 q3 q4
  have hlast : C11.lastPos nb path' = dest := by
    simp only [C11.proj, Prod.mk.injEq] at m2
    have x1 : (C11.toXyz nb).x = nb.1 := rfl
    have x2 : (C11.toXyz nb).y = nb.2 := rfl
    have x3 : (C11.toXyz nb).z = 0 := rfl
    have x4 : (C11.toXyz dest).x = dest.1 := rfl
    have x5 : (C11.toXyz dest).y = dest.2 := rfl
    have x6 : (C11.toXyz dest).z = 0 := rfl
    ext
    · rw [q3]; omega
    · rw [q4]; omega
  have hlen : (path'.length : Int) = C03.meshLen nb dest := by rw [q2, m1, meshLen_eq]
  have hhex : C03.meshLen nb dest = C11.hexLen (dest.1 - nb.1) (dest.2 - nb.2) := by
    rw [meshLen_eq, C11.meshLen_eq_hexLen]; simp [C11.proj, C11.toXyz]
  have hbox : ∀ c, c ∈ path'.map (·.2) → InBox w h c := by
    intro c hc
    have := geodesic_box path' nb c q1 (by rw [hlast, hlen, hhex]) hc
    rw [hlast] at this
    obtain ⟨n1, n2, n3, n4⟩ := hn
    obtain ⟨d1, d2, d3, d4⟩ := hd
    refine ⟨?_, ?_, ?_, ?_⟩ <;> omega
  -- the wrapped and the unwrapped walk coincide
  have hraw := mapM_some1_inv _ _ p1
  have hsame : C11.ldf (v3 (C03.meshPath nb dest)) nb (some (w : Int)) (some (h : Int)) 1048576 j0 j1 j2 =
      .ok path' := by
    rw [← p1]
    simp only [C11.ldf, C11.ldfRaw]
    rw [ldfLoop_inbox w h]
    intro e he
    simp only [C11.ldfRaw] at hraw
    rw [hraw] at he
    simp only [List.mem_map] at he
    obtain ⟨e', he', rfl⟩ := he
    exact hbox e'.2 (List.mem_map_of_mem he')
  rw [hl'] at hsame
  simp only [Except.ok.injEq] at hsame
  subst hsame
  refine ⟨q1, hlast, hlen, hbox, ?_⟩
  apply geodesic_nodup path nb q1
  intro m hr
  have := C11.reach_mesh_lower hr
  rw [hlast] at this
  have h0 : (path.length : Int) ≤ m := by rw [hlen, hhex]; exact this
  omega

end Rig.Cross
