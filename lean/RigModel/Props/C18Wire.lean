/-
C18 (companion) - the command put on the wire carries the resolved values:
theorems about the per-method wire rules (`bodyOf`) of EVERY decorated method of the
generated signature table, for all argument values, context stacks and passing styles.

* `rules_obey_signature_rule` (decide over the generated table x `bodyOf`): the symbolic
  requests of every method address the chip / board its own signature names;
* `wire_carries_resolved`: hence every request pattern of every accepted call carries the
  (x, y) / application id / (cabinet, frame, board) bound for that call, and
  `bound_is_resolved` says the bound value is the precedence-resolved one;
* `chip_independent_of_passing_style`, `core_from_context_methods`,
  `core_independent_of_passing_style`: which fields of a request can depend on HOW the
  arguments were passed - (x, y) and the application id never, the core `p` of the inner
  reads of exactly 17 methods.

A changed signature (Gen/Signatures.lean is regenerated from the source on every run) or a
changed rule breaks `rules_obey_signature_rule` / `core_from_context_methods`.
-/
import RigModel.Lemmas.C18Wire
set_option linter.unusedSimpArgs false
set_option linter.unusedVariables false

namespace Rig.C18
open Rig.Gen.Signatures

/-! ## the rule table -/

/-- every symbolic request of every decorated method obeys the addressing rule derived from the
method's own signature (`chipRule`): chip (x, y) for methods that have chip coordinates,
(255, 255) for those that have none, data-computed chips only for the four methods documented to
visit many chips; application id = the method's `app_id`; BMP: (cabinet, frame, board) with the
first board / board 0 exceptions of `set_led` / `set_power` and mask = the boards -/
theorem rules_obey_signature_rule : ∀ s ∈ sigs, (rulesOf sigs s).all (ruleOk s) = true := by decide

/-- no request of any method leaves x, y or the application id to the context stack of an inner call -/
theorem rules_chip_known : ∀ s ∈ sigs, (rulesOf sigs s).all
    (fun ap => ap.a.isSome && ap.b.isSome && ap.extra != some none) = true := by decide

/-! ## concrete statement -/

def chipAddr (b : Dict) : Chip → Val × Val
  | .own => (lookupV b "x", lookupV b "y")
  | .root => (.int 255, .int 255)
  | .data => (.dyn, .dyn)

/-- the request pattern `pt` carries the values bound for this call of `s` -/
def Carries (s : Sig) (b : Dict) (pt : Pat) : Prop :=
  if pt.kind = .bmp then
    pt.a = lookupV b "cabinet" ∧ pt.b = lookupV b "frame" ∧
    (pt.c = lookupV b "board" ∨ pt.c = firstVal (lookupV b "board") ∨ (s.name = "set_power" ∧ pt.c = .int 0)) ∧
    (pt.extra = none ∨ pt.extra = some (maskVal (lookupV b "board")))
  else
    (∃ ch ∈ chipRule s, (pt.a, pt.b) = chipAddr b ch) ∧
    (pt.extra = none ∨ pt.extra = some (lookupV b "app_id"))

theorem carries_of_ruleOk (s : Sig) (b : Dict) (ap : APat) (pt : Pat)
    (hok : ruleOk s ap = true) (hd : ap.Describes b pt) : Carries s b pt := by
  obtain ⟨hk, ha, hb, hc, hx0, hx1⟩ := hd
  unfold ruleOk at hok
  unfold Carries
  have hextra : ∀ e, (ap.extra = none ∨ ap.extra = some (some e)) →
      (pt.extra = none ∨ pt.extra = some (evalEx b e)) := by
    intro e h
    rcases h with h | h
    · exact Or.inl (hx0.mp h)
    · exact Or.inr (hx1 e h)
  by_cases hbmp : ap.kind = .bmp
  · simp only [hbmp, Bool.and_eq_true, Bool.or_eq_true, beq_iff_eq] at hok
    obtain ⟨⟨⟨h1, h2⟩, h3⟩, h4⟩ := hok
    rw [hk, if_pos hbmp]
    refine ⟨ha _ h1, hb _ h2, ?_, hextra _ h4⟩
    rcases h3 with (h3 | h3) | ⟨h3, h3'⟩
    · exact Or.inl (hc _ h3)
    · exact Or.inr (Or.inl (hc _ h3))
    · exact Or.inr (Or.inr ⟨h3, hc _ h3'⟩)
  · have hok' : ((chipRule s).any (fun ch => ap.a == some (chipExprs ch).1 && ap.b == some (chipExprs ch).2) &&
        (ap.extra == none || ap.extra == some (some (.ref "app_id")))) = true := by
      cases hkk : ap.kind <;> simp_all
    simp only [Bool.and_eq_true, Bool.or_eq_true, beq_iff_eq, List.any_eq_true] at hok'
    obtain ⟨⟨ch, hch, h1, h2⟩, h4⟩ := hok'
    rw [hk, if_neg hbmp]
    refine ⟨⟨ch, hch, ?_⟩, hextra _ h4⟩
    rw [ha _ h1, hb _ h2]
    cases ch <;> rfl

/-- generic form: for ANY table of method bodies whose symbolic requests obey the signature rule -/
theorem wireB_carries_resolved (body : String → String → List Op)
    (hrule : ∀ s ∈ sigs, (rulesOfB body sigs s).all (ruleOk s) = true)
    (s : Sig) (hs : s ∈ sigs) (b : Dict) (stack : List Dict) :
    ∀ pt ∈ wireB body sigs s.cls wireFuel s.name b stack, Carries s b pt := by
  intro pt hpt
  obtain ⟨ap, hap, hd⟩ := absWireB_sound body sigs s.cls wireFuel s.name env0 b b stack (envSound_env0 b) pt hpt
  have hall := hrule s hs
  rw [List.all_eq_true] at hall
  exact carries_of_ruleOk s b ap pt (hall ap hap) hd

/-- **The wire carries the resolved values.**  For every decorated method of the generated table,
every argument passing (positional / keyword / context / default, any mix), every context stack:
each request pattern an accepted call may put on the wire is addressed to the chip (x, y) bound for
the call - (255, 255) for the methods without chip coordinates - carries the call's application id
where the command has one, resp. goes to the call's (cabinet, frame, board) with the boards' mask. -/
theorem wire_carries_resolved (s : Sig) (hs : s ∈ sigs) (pos : List Val) (kw : Dict) (stack : List Dict)
    (nk b : Dict) (hr : resolve s pos.length kw stack = .ok nk) (hb : bind s pos nk = .ok b) :
    ∀ pt ∈ wire sigs s.cls wireFuel s.name b stack, Carries s b pt :=
  wireB_carries_resolved bodyOf rules_obey_signature_rule s hs b stack

/-- `callRes` form: the patterns of an accepted call reported by the model (and used as the wire
oracle on the implementation's datagrams) all carry the bound values -/
theorem sent_carries_resolved (E : Env) (hE : E.sigs = sigs) (s : Sig) (hs : s ∈ sigs) (hc : E.cls = s.cls)
    (hf : findSig sigs s.cls s.name = some s)
    (pos : List Val) (kw : Dict) (stack : List Dict) (nk : Dict) (pats : List Pat)
    (h : callRes E s.name pos kw stack = .sent nk pats) :
    ∃ b, resolve s pos.length kw stack = .ok nk ∧ bind s pos nk = .ok b ∧ ∀ pt ∈ pats, Carries s b pt := by
  unfold callRes at h
  rw [hE, hc, hf] at h
  simp only at h
  cases hr : resolve s pos.length kw stack with
  | error e => simp [hr] at h
  | ok nk' =>
    simp only [hr] at h
    cases hb : bind s pos nk' with
    | error e => simp [hb] at h
    | ok b =>
      simp only [hb] at h
      split at h
      · cases h
      · simp only [CallRes.sent.injEq] at h
        obtain ⟨h1, h2⟩ := h
        subst h1; subst h2
        exact ⟨b, rfl, hb, wire_carries_resolved s hs pos kw stack nk' b hr hb⟩

/-- the value bound to a parameter is the resolved one: the positional argument for the first
`pos.length` parameters, the entry of the precedence dictionary (`precedence_accepted`) otherwise -/
theorem bound_is_resolved (s : Sig) (pos : List Val) (nk b : Dict) (hb : bind s pos nk = .ok b) (n : String) :
    dget b n = (match dget ((s.argNames.drop 1).zip pos) n with
                | some v => some v
                | none => dget nk n) := by
  have hb' : b = (s.argNames.drop 1).zip pos ++ nk := by
    unfold bind at hb
    split at hb
    · cases hb
    · split at hb
      · cases hb
      · split at hb
        · cases hb
        · cases hb; rfl
  subst hb'
  generalize (s.argNames.drop 1).zip pos = z
  induction z with
  | nil => simp [dget]
  | cons hd t ih =>
    obtain ⟨k, v⟩ := hd
    simp only [List.cons_append, dget]
    by_cases hk : k = n <;> simp [hk, ih]

/-! ## what can depend on the passing style -/

/-- generic form of `chip_independent_of_passing_style` -/
theorem chipB_independent_of_passing_style (body : String → String → List Op)
    (hknown : ∀ s ∈ sigs, (rulesOfB body sigs s).all
      (fun ap => ap.a.isSome && ap.b.isSome && ap.extra != some none) = true)
    (s : Sig) (hs : s ∈ sigs) (b : Dict) (stack : List Dict) :
    ∀ pt ∈ wireB body sigs s.cls wireFuel s.name b stack,
      ∃ ap ∈ rulesOfB body sigs s, ∃ ex ey, ap.a = some ex ∧ ap.b = some ey ∧
        pt.a = evalEx b ex ∧ pt.b = evalEx b ey ∧
        (pt.extra = none ∨ ∃ ea, ap.extra = some (some ea) ∧ pt.extra = some (evalEx b ea)) := by
  intro pt hpt
  obtain ⟨ap, hap, hd⟩ := absWireB_sound body sigs s.cls wireFuel s.name env0 b b stack (envSound_env0 b) pt hpt
  have hall := hknown s hs
  rw [List.all_eq_true] at hall
  have hk := hall ap hap
  simp only [Bool.and_eq_true, Option.isSome_iff_exists, bne_iff_ne, ne_eq] at hk
  obtain ⟨⟨⟨ex, hx⟩, ⟨ey, hy⟩⟩, hne⟩ := hk
  obtain ⟨_, ha, hb, _, hx0, hx1⟩ := hd
  refine ⟨ap, hap, ex, ey, hx, hy, ha _ hx, hb _ hy, ?_⟩
  cases hex : ap.extra with
  | none => exact Or.inl (hx0.mp hex)
  | some oe =>
    cases oe with
    | none => exact absurd hex hne
    | some ea => exact Or.inr ⟨ea, rfl, hx1 ea hex⟩

/-- **(x, y) and the application id never depend on how the arguments were passed.**  Every request
pattern of an accepted call has x, y (and the application id, if any) equal to the value of an
expression over the call's bound parameters, taken from a list (`rulesOf`) that is computed from
the rules alone - without the stack, the passing style or any value. -/
theorem chip_independent_of_passing_style (s : Sig) (hs : s ∈ sigs) (b : Dict) (stack : List Dict) :
    ∀ pt ∈ wire sigs s.cls wireFuel s.name b stack,
      ∃ ap ∈ rulesOf sigs s, ∃ ex ey, ap.a = some ex ∧ ap.b = some ey ∧
        pt.a = evalEx b ex ∧ pt.b = evalEx b ey ∧
        (pt.extra = none ∨ ∃ ea, ap.extra = some (some ea) ∧ pt.extra = some (evalEx b ea)) :=
  chipB_independent_of_passing_style bodyOf rules_chip_known s hs b stack

/-- **Exactly these methods leave the core of some inner request to the context stack** (an inner
decorated call omits `p`, so it is filled from the innermost context that sets `p`, else 0): -/
theorem core_from_context_methods :
    (sigs.filter (coreFromContext sigs)).map (fun s => s.name) =
      ["discover_connections", "read_vcpu_struct_field", "write_vcpu_struct_field", "get_processor_status",
       "get_iobuf", "get_iobuf_bytes", "get_router_diagnostics", "sdram_alloc", "sdram_alloc_as_filelike",
       "flood_fill_aplx", "load_application", "load_routing_tables", "load_routing_table_entries",
       "get_routing_table_entries", "get_p2p_routing_table", "get_num_working_cores", "get_system_info"] := by
  decide

/-- of those, the ones that take a core argument themselves - for them passing `p` explicitly and
setting it in an enclosing context put different cores on the wire -/
theorem core_style_dependent_methods :
    ((sigs.filter (coreFromContext sigs)).filter (fun s => (sigNames s).contains "p")).map (fun s => s.name) =
      ["read_vcpu_struct_field", "write_vcpu_struct_field", "get_processor_status", "get_iobuf",
       "get_iobuf_bytes"] := by
  decide

/-- generic form of `core_independent_of_passing_style` -/
theorem coreB_independent_of_passing_style (body : String → String → List Op)
    (s : Sig) (hcore : coreFromContextB body sigs s = false) (b : Dict) (stack : List Dict) :
    ∀ pt ∈ wireB body sigs s.cls wireFuel s.name b stack,
      ∃ ap ∈ rulesOfB body sigs s, ∃ ec, ap.c = some ec ∧ pt.c = evalEx b ec := by
  intro pt hpt
  obtain ⟨ap, hap, hd⟩ := absWireB_sound body sigs s.cls wireFuel s.name env0 b b stack (envSound_env0 b) pt hpt
  unfold coreFromContextB at hcore
  have : ap.c.isNone = false := by
    cases h : ap.c.isNone with
    | false => rfl
    | true =>
      have : (rulesOfB body sigs s).any (fun ap => ap.c.isNone) = true := List.any_eq_true.mpr ⟨ap, hap, h⟩
      rw [this] at hcore
      cases hcore
  cases hc : ap.c with
  | none => simp [hc] at this
  | some ec => exact ⟨ap, hap, ec, hc, hd.2.2.2.1 ec hc⟩

/-- for every other method the whole destination (x, y, core, application id / board, mask) of every
request is a function of the call's bound arguments alone -/
theorem core_independent_of_passing_style (s : Sig) (hs : s ∈ sigs) (hcore : coreFromContext sigs s = false)
    (b : Dict) (stack : List Dict) :
    ∀ pt ∈ wire sigs s.cls wireFuel s.name b stack,
      ∃ ap ∈ rulesOf sigs s, ∃ ec, ap.c = some ec ∧ pt.c = evalEx b ec :=
  coreB_independent_of_passing_style bodyOf s hcore b stack

/-! ## worked instances (non-vacuity, and the observation itself) -/

/-- `mc.get_processor_status(3, 1, 2)`: both reads go to chip (1, 2) via core 0 -/
example :
    (match callRes ⟨sigs, "MachineController", []⟩ "get_processor_status" [.int 3, .int 1, .int 2] []
        [[("app_id", .int 66)]] with
     | .sent _ pats => pats.map (fun pt => (pt.a, pt.b, pt.c))
     | .rejected _ => []) =
    [(.int 1, .int 2, .int 0), (.int 1, .int 2, .int 0)] := by decide

/-- `with mc(x=1, y=2, p=3): mc.get_processor_status()`: same chip, but via core 3 -/
example :
    (match callRes ⟨sigs, "MachineController", []⟩ "get_processor_status" [] []
        [[("x", .int 1), ("y", .int 2), ("p", .int 3)], [("app_id", .int 66)]] with
     | .sent _ pats => pats.map (fun pt => (pt.a, pt.b, pt.c))
     | .rejected _ => []) =
    [(.int 1, .int 2, .int 3), (.int 1, .int 2, .int 3)] := by decide

/-- hypotheses of `wire_carries_resolved` are satisfiable with a non-empty wire:
`with mc(x=4, y=5): mc.sdram_alloc(8, 1, clear=True)` under the initial context -/
example :
    (match resolve mc_sdram_alloc 2 [("clear", .bool true)] [[("x", .int 4), ("y", .int 5)], [("app_id", .int 66)]] with
     | .ok nk => (match bind mc_sdram_alloc [.int 8, .int 1] nk with
                  | .ok b => (wire sigs "MachineController" wireFuel "sdram_alloc" b
                                [[("x", .int 4), ("y", .int 5)], [("app_id", .int 66)]]).length
                  | .error _ => 0)
     | .error _ => 0) = 5 := by decide

/-- a composite operation re-dispatches with the RESOLVED values: `with mc(app_id=31): mc.count_cores_in_state(states, 30)`
- one count command per state, through `self.count_cores_in_state(s, app_id)` - every pattern carries
application 30 (the explicit one), none the context's 31 or the default 66 -/
example :
    (match callRes ⟨sigs, "MachineController", []⟩ "count_cores_in_state" [.other "['run', 'wait']", .int 30] []
        [[("app_id", .int 31)], [("app_id", .int 66)]] with
     | .sent _ pats => pats.all (fun pt => pt.extra == some (.int 30)) && pats.length ≥ 2
     | .rejected _ => false) = true := by decide

/-- boards given as an iterable: `bmp.set_led(7, board=[2, 0])` goes to board 2 with mask 0b101,
`bmp.set_power(True, board=[2, 1])` to board 0 with mask 0b110 -/
example :
    callRes ⟨sigs, "BMPController", [[0, 0]]⟩ "set_led" [.int 7] [("board", .ints [2, 0])]
        [[("cabinet", .int 0), ("frame", .int 0), ("board", .int 0)]] =
    .sent [("action", .none), ("cabinet", .int 0), ("frame", .int 0), ("board", .ints [2, 0])]
      [⟨.bmp, .int 0, .int 0, .int 2, some (.int 5)⟩] := by rfl

example :
    callRes ⟨sigs, "BMPController", [[0, 0]]⟩ "set_power" [.bool true] [("board", .ints [2, 1])]
        [[("cabinet", .int 0), ("frame", .int 0), ("board", .int 0)]] =
    .sent [("cabinet", .int 0), ("frame", .int 0), ("board", .ints [2, 1]), ("delay", .other "0.0"),
           ("post_power_on_delay", .other "5.0")]
      [⟨.bmp, .int 0, .int 0, .int 0, some (.int 6)⟩] := by rfl

end Rig.C18
