/-
C08 - translator tie: `BitField._assign_field` (rig/bitfield.py) - the automatic length, the scan for the first free
position (a `for` loop left by `break`), the check of a forced position, the final fit test and the attributes
written back to the field - is regenerated from the source into `Gen/PyFun.lean`.  The `_Field` object returned by
`self.fields.get_field(...)` is represented by its attributes `length`, `start_at` (int or None) and `max_value`;
`int(log(max_value, 2))` is the operation `ilog2` of the float-semantics parameter, instantiated here with the model's
account of that floating-point logarithm (`Field.chosenLen`: the exact integer logarithm, plus the observed spare
bit from 2^44 on).  Proved: the generated definition computes the model's `assignField` (the part of it that follows
`get_field`: `assignCore` below, shown to be what `assignField` does), for every field, mask and bit-field length.
-/
import RigModel.Model.C08
import RigModel.Gen.PyFun
import RigModel.Lemmas.IntBits
import RigModel.Lemmas.PyLoops
set_option linter.unusedSimpArgs false
set_option linter.unusedVariables false
set_option linter.unusedTactic false
set_option linter.unreachableTactic false

namespace Rig.C08
open Rig.Gen Rig.Gen.BitfieldConsts Rig.IntBits Rig.PyLoops

/-- `_assign_field` after `get_field`: (new mask, chosen length, chosen start) -/
def assignCore (L : Nat) (f : Field) (assigned : Nat) : Except Err (Nat × Nat × Nat) :=
  let len := f.chosenLen
  match f.startAt with
  | none =>
    match firstFit L len assigned with
    | some b => if b + len ≤ L then .ok (assigned ||| rangeMask len b, len, b) else .error .valueError
    | none => .error .valueError
  | some s =>
    if assigned &&& rangeMask len s != 0 then .error .valueError
    else if s + len ≤ L then .ok (assigned ||| rangeMask len s, len, s)
    else .error .valueError

/-- the model's `assignField` is `get_field` followed by `assignCore` and the write-back -/
theorem assignField_core (st : State) (assigned : Nat) (ident : Ident) (fv : Reqs) :
    assignField st assigned ident fv =
      match getField st.entries ident fv with
      | none => .error .unavailable
      | some e =>
        match assignCore st.length e.field assigned with
        | .ok (a', len, s) =>
          .ok ({ st with entries := modifyField st.entries ident fv fun f => { f with length := some len, startAt := some s } }, a')
        | .error x => .error x := by
  unfold assignField assignCore
  cases getField st.entries ident fv with
  | none => rfl
  | some e =>
    dsimp only
    cases e.field.startAt with
    | none =>
      dsimp only
      cases firstFit st.length e.field.chosenLen assigned with
      | none => rfl
      | some b =>
        dsimp only
        by_cases h : b + e.field.chosenLen ≤ st.length <;> simp only [h, if_true, if_false]
    | some s =>
      dsimp only
      by_cases h1 : (assigned &&& rangeMask e.field.chosenLen s != 0) = true
      · simp only [h1, if_true]
      · by_cases h2 : s + e.field.chosenLen ≤ st.length <;> simp only [h1, h2, if_true, if_false, Bool.false_eq_true]

/-- the float semantics `_assign_field` needs: `int(log(k, 2))` as the model accounts for it (`spare` = the
floating-point logarithm of this value came out one too large; only possible from `SPARE_FROM` on) -/
def logOps (spare : Bool) : PyFun.PyFloatOps Unit where
  pow2 _ := .ok ()
  ofInt _ := .ok ()
  mul _ _ := ()
  toInt _ := .ok 0
  ilog2 k := if k ≤ 0 then .error "ValueError"
    else .ok (((Nat.log2 k.toNat + (if spare && decide (SPARE_FROM ≤ k.toNat) then 1 else 0) : Nat)) : Int)

def optI : Option Nat → Option Int
  | none => none
  | some a => some (a : Int)

/-- `((1 << length) - 1) << bit` on the Python ints of naturals -/
theorem rangeMask_int (len b : Nat) :
    (((1 : Int) <<< len) - 1) <<< b = ((rangeMask len b : Nat) : Int) := by
  have h1 : 1 ≤ (1 : Nat) <<< len := by rw [Nat.one_shiftLeft]; exact Nat.two_pow_pos _
  rw [one_natCast, shl_natCast, sub_natCast _ _ h1, shl_natCast]
  rfl

abbrev ScanSt := Bool × Int × Int

/-- what one iteration of the scan does (both copies of the generated loop body satisfy it) -/
def ScanStep (len : Nat) (lp : ScanSt → Int → ScanSt) : Prop :=
  (∀ (s : Int) (a b : Nat), lp (false, s, (a : Int)) (b : Int)
      = if (a &&& rangeMask len b == 0) = true then (true, (b : Int), ((a ||| rangeMask len b : Nat) : Int))
        else (false, s, (a : Int))) ∧
  (∀ (s a x : Int), lp (true, s, a) x = (true, s, a))

theorem scan_step1 (len : Nat) : ScanStep len (PyFun.BitField_assign_field_loop1 (len : Int)) := by
  constructor
  · intro s a b
    unfold PyFun.BitField_assign_field_loop1
    simp only [Bool.false_eq_true, if_false, Int.toNat_natCast, rangeMask_int, land_natCast, lor_natCast]
    by_cases h : a &&& rangeMask len b = 0
    · simp [h]
    · have : ¬ (((a &&& rangeMask len b : Nat) : Int) = 0) := by omega
      simp [h, this]
  · intro s a x
    unfold PyFun.BitField_assign_field_loop1
    simp

theorem scan_step2 (len : Nat) : ScanStep len (PyFun.BitField_assign_field_loop2 (len : Int)) := by
  constructor
  · intro s a b
    unfold PyFun.BitField_assign_field_loop2
    simp only [Bool.false_eq_true, if_false, Int.toNat_natCast, rangeMask_int, land_natCast, lor_natCast]
    by_cases h : a &&& rangeMask len b = 0
    · simp [h]
    · have : ¬ (((a &&& rangeMask len b : Nat) : Int) = 0) := by omega
      simp [h, this]
  · intro s a x
    unfold PyFun.BitField_assign_field_loop2
    simp

theorem scan_done {len : Nat} {lp : ScanSt → Int → ScanSt} (h : ScanStep len lp) (s a : Int) (l : List Int) :
    l.foldl lp (true, s, a) = (true, s, a) := by
  induction l with
  | nil => rfl
  | cons x t ih => rw [List.foldl_cons, h.2, ih]

/-- the scan loop finds the model's first fit -/
theorem scan_find {len : Nat} {lp : ScanSt → Int → ScanSt} (h : ScanStep len lp) (s : Int) (a : Nat) :
    ∀ (l : List Nat), (l.map (fun (k : Nat) => (k : Int))).foldl lp (false, s, (a : Int))
      = match l.find? (fun b => a &&& rangeMask len b == 0) with
        | some b => (true, (b : Int), ((a ||| rangeMask len b : Nat) : Int))
        | none => (false, s, (a : Int))
  | [] => rfl
  | b :: t => by
    rw [List.map_cons, List.foldl_cons, h.1, List.find?_cons]
    by_cases hb : (a &&& rangeMask len b == 0) = true
    · simp only [hb, if_true]
      exact scan_done h _ _ _
    · simp only [hb, if_false]
      exact scan_find h s a t

theorem firstFit_eq (L len assigned : Nat) :
    firstFit L len assigned = (List.range (L + 1 - len)).find? (fun b => assigned &&& rangeMask len b == 0) := by
  unfold firstFit
  have hs : SCAN_SLACK = 1 := rfl
  rw [hs]
  by_cases h : L + 1 ≤ len
  · have : L + 1 - len = 0 := by omega
    simp [h, this]
  · simp [h]

theorem scan_range (L len : Nat) :
    PyFun.pyRange1 0 ((L : Int) - (len : Int) + 1) = (List.range (L + 1 - len)).map (fun (k : Nat) => (k : Int)) := by
  rw [pyRange1_eq]
  have : ((L : Int) - (len : Int) + 1 - 0).toNat = L + 1 - len := by omega
  rw [this]
  apply List.map_congr_left
  intro k _
  omega

/-- the outcome of the model as the Python outcome: (mask, field.length, field.start_at, field.max_value) -/
def corePy (mv : Nat) : Except Err (Nat × Nat × Nat) → Except String (Int × Option Int × Option Int × Int)
  | .ok (a', len, s) => .ok ((a' : Int), some (len : Int), some (s : Int), (mv : Int))
  | .error _ => .error "ValueError"

/-- the part after the length is known, for a field without a forced position: scan, then the fit test -/
theorem scan_part {lp : ScanSt → Int → ScanSt} (L len assigned mv : Nat) (h : ScanStep len lp) :
    (match (List.foldl lp (false, (L : Int), (assigned : Int)) (PyFun.pyRange1 0 ((L : Int) - (len : Int) + 1))) with
     | (_, start_at, assigned_bits) =>
       if start_at + (len : Int) ≤ (L : Int) then
         (Except.ok (assigned_bits, some (len : Int), some start_at, (mv : Int)) : Except String _)
       else Except.error "ValueError")
      = corePy mv (match firstFit L len assigned with
          | some b => if b + len ≤ L then .ok (assigned ||| rangeMask len b, len, b) else .error .valueError
          | none => .error .valueError) := by
  rw [scan_range, scan_find h, firstFit_eq]
  cases hf : (List.range (L + 1 - len)).find? (fun b => assigned &&& rangeMask len b == 0) with
  | some b =>
    dsimp only
    by_cases hb : b + len ≤ L
    · have : (b : Int) + (len : Int) ≤ (L : Int) := by omega
      simp only [hb, this, if_true, corePy]
    · have : ¬ ((b : Int) + (len : Int) ≤ (L : Int)) := by omega
      simp only [hb, this, if_false, corePy]
  | none =>
    dsimp only
    -- nothing found: either the range is empty or every position conflicts; then `len >= 1` and `L + len > L`
    have hlen : 1 ≤ len := by
      by_contra hc
      have h0 : len = 0 := by omega
      subst h0
      have hmem : 0 ∈ List.range (L + 1 - 0) := by simp
      have := List.find?_eq_none.mp hf 0 hmem
      simp [rangeMask] at this
    have : ¬ ((L : Int) + (len : Int) ≤ (L : Int)) := by omega
    simp only [this, if_false, corePy]

/-- the part after the length is known, for a forced position -/
theorem forced_part (L len s assigned mv : Nat) :
    (if Int.land (assigned : Int) ((((1 : Int) <<< ((len : Int)).toNat) - 1) <<< ((s : Int)).toNat) ≠ 0 then
       (Except.error "ValueError" : Except String (Int × Option Int × Option Int × Int))
     else if (s : Int) + (len : Int) ≤ (L : Int) then
       Except.ok (Int.lor (assigned : Int) ((((1 : Int) <<< ((len : Int)).toNat) - 1) <<< ((s : Int)).toNat),
                  some (len : Int), some (s : Int), (mv : Int))
     else Except.error "ValueError")
      = corePy mv (if assigned &&& rangeMask len s != 0 then .error .valueError
                   else if s + len ≤ L then .ok (assigned ||| rangeMask len s, len, s) else .error .valueError) := by
  simp only [Int.toNat_natCast, rangeMask_int, land_natCast, lor_natCast]
  by_cases h1 : assigned &&& rangeMask len s = 0
  · have h1' : ¬ (((assigned &&& rangeMask len s : Nat) : Int) ≠ 0) := by omega
    by_cases h2 : s + len ≤ L
    · have : (s : Int) + (len : Int) ≤ (L : Int) := by omega
      simp [h1, h1', h2, this, corePy]
    · have : ¬ ((s : Int) + (len : Int) ≤ (L : Int)) := by omega
      simp [h1, h1', h2, this, corePy]
  · have h1' : (((assigned &&& rangeMask len s : Nat) : Int) ≠ 0) := by omega
    simp [h1, h1', corePy]

/-- `_assign_field` as written in the source = the model's `assignField` after `get_field` (`assignCore`), for every
field, mask of assigned bits and bit-field length; the automatic length needs `max_value > 0` (Python raises
ValueError: math domain error for `log(0)`, which the model does not have) -/
theorem gen_assign_field (L : Nat) (f : Field) (assigned : Nat) (hmv : f.length = none → 0 < f.maxValue) :
    PyFun.BitField_assign_field (logOps f.spare) (optI f.length) (optI f.startAt) (f.maxValue : Int) (L : Int)
        (assigned : Int)
      = corePy f.maxValue (assignCore L f assigned) := by
  unfold PyFun.BitField_assign_field assignCore Field.chosenLen
  cases hl : f.length with
  | none =>
    have hpos := hmv hl
    have hk : ¬ ((f.maxValue : Int) ≤ 0) := by omega
    simp only [optI, logOps, hk, if_false, Int.toNat_natCast]
    have elen : ((Nat.log2 f.maxValue + (if (f.spare && decide (SPARE_FROM ≤ f.maxValue)) = true then 1 else 0) : Nat) : Int) + 1
        = (((if (f.spare && decide (SPARE_FROM ≤ f.maxValue)) = true then autoLen f.maxValue + 1 else autoLen f.maxValue) : Nat) : Int) := by
      unfold autoLen; split <;> omega
    rw [elen]
    generalize (if (f.spare && decide (SPARE_FROM ≤ f.maxValue)) = true then autoLen f.maxValue + 1 else autoLen f.maxValue) = len
    cases hs : f.startAt with
    | none => simp only [optI]; exact scan_part L len assigned f.maxValue (scan_step1 len)
    | some s => simp only [optI]; exact forced_part L len s assigned f.maxValue
  | some len =>
    simp only [optI]
    cases hs : f.startAt with
    | none => simp only [optI]; exact scan_part L len assigned f.maxValue (scan_step2 len)
    | some s => simp only [optI]; exact forced_part L len s assigned f.maxValue

/-- the hypothesis is satisfiable (`max_value` defaults to 1) and the definitions compute: a 3-bit field is put at
bit 2 of an 8-bit field whose two lowest bits are taken -/
example : assignCore 8 { length := some 3, startAt := none, tags := [], maxValue := 1 } 3 = .ok (31, 3, 2) := by decide

end Rig.C08
