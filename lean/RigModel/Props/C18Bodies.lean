/-
C18 (companion) - translator tie for the per-method wire rules.

`Gen/C18Bodies.lean` (`genBody`) is EXTRACTED from the source of MachineController / BMPController on every run
(harness/gen/c18.py: an abstract interpretation of every context-decorated method - sends, connection reads / writes
and inner decorated calls in source order, undecorated helpers and properties inlined, destination arguments
classified as parameter / literal / dyn / mask / first).  Here the wire theorems of Props/C18Wire.lean are
re-established FOR THE GENERATED TABLE, so they speak about the code as it is written now:

* `gen_rules_obey_signature_rule`, `gen_rules_chip_known` (decide over generated signatures x generated bodies);
* `gen_wire_carries_resolved`, `gen_chip_independent_of_passing_style`, `gen_core_independent_of_passing_style`
  (instances of the generic theorems, which hold for any table of bodies);
* `gen_rules_eq_hand`: the symbolic requests of the generated table and of the hand-written transcription `bodyOf`
  (the table the ORACLE uses - it must not follow the code) are the same set, for every method; hence
  `gen_wire_within_hand_rules`: whatever the code's rules can put on the wire is described by a request of the
  hand-written rules, core included;
* `gen_scanned_all`, `gen_no_unknown`: every decorated method was scanned, no send was left unclassified;
* `gen_mc_send`, `gen_bmpConnection`, `gen_bmp_dest`: the two `_send_scp` primitives themselves, read from the source: the
  MachineController one passes its own (x, y, p) to the connection of `_get_connection(x, y)`; the model's
  `bmpConnection` IS the chain of lookups the BMPController one performs, and it addresses (0, 0, board);
* `gen_deferred`, `gen_lazy`: the only sends a method defers to a callback are `application`'s stop signal; the only
  lazily issued probe left out of the rules is `scp_data_length`'s sver to (255, 255, 0).
-/
import RigModel.Props.C18Wire
import RigModel.Gen.C18Bodies
set_option linter.unusedSimpArgs false
set_option linter.unusedVariables false

namespace Rig.C18
open Rig.Gen.Signatures Rig.Gen.C18Bodies

/-! ## the generated table obeys the rules -/

/-- every decorated method of the signature table has been scanned -/
theorem gen_scanned_all : ∀ s ∈ sigs, (s.cls, s.name) ∈ scanned := by decide +kernel

def Op.isUnknown : Op → Bool
  | .unknown _ => true
  | _ => false

/-- the translator classified every send and inner call it found -/
theorem gen_no_unknown : ∀ s ∈ sigs, (genBody s.cls s.name).all (fun op => !op.isUnknown) = true := by decide +kernel

/-- `rules_obey_signature_rule` for the table extracted from the source -/
theorem gen_rules_obey_signature_rule : ∀ s ∈ sigs, (rulesOfB genBody sigs s).all (ruleOk s) = true := by decide +kernel

/-- `rules_chip_known` for the table extracted from the source -/
theorem gen_rules_chip_known : ∀ s ∈ sigs, (rulesOfB genBody sigs s).all
    (fun ap => ap.a.isSome && ap.b.isSome && ap.extra != some none) = true := by decide +kernel

/-- **The wire carries the resolved values - for the method bodies as they are written in the source now.** -/
theorem gen_wire_carries_resolved (s : Sig) (hs : s ∈ sigs) (b : Dict) (stack : List Dict) :
    ∀ pt ∈ wireB genBody sigs s.cls wireFuel s.name b stack, Carries s b pt :=
  wireB_carries_resolved genBody gen_rules_obey_signature_rule s hs b stack

theorem gen_chip_independent_of_passing_style (s : Sig) (hs : s ∈ sigs) (b : Dict) (stack : List Dict) :
    ∀ pt ∈ wireB genBody sigs s.cls wireFuel s.name b stack,
      ∃ ap ∈ rulesOfB genBody sigs s, ∃ ex ey, ap.a = some ex ∧ ap.b = some ey ∧
        pt.a = evalEx b ex ∧ pt.b = evalEx b ey ∧
        (pt.extra = none ∨ ∃ ea, ap.extra = some (some ea) ∧ pt.extra = some (evalEx b ea)) :=
  chipB_independent_of_passing_style genBody gen_rules_chip_known s hs b stack

theorem gen_core_independent_of_passing_style (s : Sig) (hcore : coreFromContextB genBody sigs s = false)
    (b : Dict) (stack : List Dict) :
    ∀ pt ∈ wireB genBody sigs s.cls wireFuel s.name b stack,
      ∃ ap ∈ rulesOfB genBody sigs s, ∃ ec, ap.c = some ec ∧ pt.c = evalEx b ec :=
  coreB_independent_of_passing_style genBody s hcore b stack

/-- the methods whose inner requests leave the core to the context stack, read off the source -/
theorem gen_core_from_context_methods :
    (sigs.filter (coreFromContextB genBody sigs)).map (fun s => s.name) =
      ["discover_connections", "read_vcpu_struct_field", "write_vcpu_struct_field", "get_processor_status",
       "get_iobuf", "get_iobuf_bytes", "get_router_diagnostics", "sdram_alloc", "sdram_alloc_as_filelike",
       "flood_fill_aplx", "load_application", "load_routing_tables", "load_routing_table_entries",
       "get_routing_table_entries", "get_p2p_routing_table", "get_num_working_cores", "get_system_info"] := by
  decide +kernel

/-! ## generated = hand-written, as sets of symbolic requests -/

def subsetB (l₁ l₂ : List APat) : Bool := l₁.all (fun a => l₂.contains a)

/-- the same set of symbolic requests (order and multiplicity of sends are not part of the rules) -/
def sameRules (l₁ l₂ : List APat) : Bool := subsetB l₁ l₂ && subsetB l₂ l₁

/-- **the hand-written transcription `bodyOf` says what the source says**: for every decorated method the symbolic
requests (kind, chip, core, application id / board, mask - each an expression over the caller's parameters, or
"left to the context stack") derived from the generated bodies and from `bodyOf` are the same set -/
theorem gen_rules_eq_hand : ∀ s ∈ sigs, sameRules (rulesOfB genBody sigs s) (rulesOf sigs s) = true := by decide +kernel

/-- hence every request the code's rules can emit is described by a request of the hand-written rules (the ones
the wire oracle judges the implementation's datagrams by), core included -/
theorem gen_wire_within_hand_rules (s : Sig) (hs : s ∈ sigs) (b : Dict) (stack : List Dict) :
    ∀ pt ∈ wireB genBody sigs s.cls wireFuel s.name b stack, ∃ ap ∈ rulesOf sigs s, ap.Describes b pt := by
  intro pt hpt
  obtain ⟨ap, hap, hd⟩ := absWireB_sound genBody sigs s.cls wireFuel s.name env0 b b stack (envSound_env0 b) pt hpt
  have h := gen_rules_eq_hand s hs
  simp only [sameRules, subsetB, Bool.and_eq_true, List.all_eq_true, List.contains_iff_mem] at h
  exact ⟨ap, h.1 ap hap, hd⟩

/-- and conversely: every request of the hand-written rules is one the source's rules can emit -/
theorem hand_wire_within_gen_rules (s : Sig) (hs : s ∈ sigs) (b : Dict) (stack : List Dict) :
    ∀ pt ∈ wire sigs s.cls wireFuel s.name b stack, ∃ ap ∈ rulesOfB genBody sigs s, ap.Describes b pt := by
  intro pt hpt
  obtain ⟨ap, hap, hd⟩ := absWire_sound sigs s.cls wireFuel s.name env0 b b stack (envSound_env0 b) pt hpt
  have h := gen_rules_eq_hand s hs
  simp only [sameRules, subsetB, Bool.and_eq_true, List.all_eq_true, List.contains_iff_mem] at h
  exact ⟨ap, h.2 ap hap, hd⟩

/-! ## what is not in the bodies -/

/-- the only sends a decorated method hands to a callback instead of making them itself: `application`'s stop signal
(`context.before_close(lambda: self.send_signal("stop"))`, modelled by `exec`'s `enter` of an application object) -/
theorem gen_deferred : ∀ s ∈ sigs, genDeferred s.cls s.name =
    (if s.cls = "MachineController" ∧ s.name = "application"
     then [.call "send_signal" [.lit (.other "'stop'")] []] else []) := by decide +kernel

/-- the only cached property whose probe is left out of the rules is `MachineController.scp_data_length`: one
`get_software_version(255, 255, 0)` on first use (C07's subject; the harness presets the cached value) -/
theorem gen_lazy : genLazy = [("MachineController", "scp_data_length",
    [.call "get_software_version" [.lit (.int 255), .lit (.int 255), .lit (.int 0)] []])] := by decide +kernel

/-! ## the primitives: `_send_scp` itself, read from the source -/

/-- `MachineController._send_scp(x, y, p, ..)` hands exactly its own (x, y, p) to the connection that
`_get_connection(x, y)` names for the same chip (the `Op.scp` the rules are written in) -/
theorem gen_mc_send : genMcSend = [.scp (.ref "x") (.ref "y") (.ref "p") none] := by decide +kernel

/-- first key of the chain under which a connection exists -/
def firstKey (conns : List (List Int)) : List (List Int) → Except Err (List Int)
  | [] => .error .noConnection
  | k :: ks => if conns.contains k then .ok k else firstKey conns ks

def intOf (b : Dict) (e : Ex) : Int := ((evalEx b e).asInt?).getD 0

/-- **`bmpConnection` is the lookup `BMPController._send_scp` performs**: the keys extracted from the source, in source
order - (cabinet, frame, board), then (cabinet, frame) - and an error when neither has a connection -/
theorem gen_bmpConnection (conns : List (List Int)) (c f b : Int) :
    genBmpSendOk = true ∧
    bmpConnection conns c f b =
      firstKey conns (genBmpKeys.map (fun k => k.map (intOf [("cabinet", .int c), ("frame", .int f), ("board", .int b)]))) := by
  refine ⟨by decide, ?_⟩
  simp only [genBmpKeys, List.map, intOf, evalEx, lookupV, dget, Val.asInt?, firstKey, bmpConnection]
  simp

/-- ... and the datagram it hands to that connection is addressed (0, 0, board): what `Pat.matches` demands of a
BMP datagram -/
theorem gen_bmp_dest : genBmpDest = [.lit (.int 0), .lit (.int 0), .ref "board"] := by decide +kernel

/-! ## worked instances -/

/-- non-vacuity of `gen_wire_carries_resolved`: `with mc(x=4, y=5): mc.sdram_alloc(8, 1, clear=True)` -/
example :
    (match resolve mc_sdram_alloc 2 [("clear", .bool true)] [[("x", .int 4), ("y", .int 5)], [("app_id", .int 66)]] with
     | .ok nk => (match bind mc_sdram_alloc [.int 8, .int 1] nk with
                  | .ok b => (wireB genBody sigs "MachineController" wireFuel "sdram_alloc" b
                                [[("x", .int 4), ("y", .int 5)], [("app_id", .int 66)]]).length
                  | .error _ => 0)
     | .error _ => 0) = 5 := by decide +kernel

/-- an unclassified send fails the rule (the marker is not vacuous) -/
example : ruleOk mc_read ⟨.scp, none, none, none, some none⟩ = false := by decide +kernel

end Rig.C18
