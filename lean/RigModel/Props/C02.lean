/-
C02 - every placer returns a feasible, constraint-respecting placement or fails with a
documented error.  Property theorems; the lemmas are in RigModel/Lemmas/C02*.lean.
-/
import RigModel.Lemmas.C02Merge2
import RigModel.Lemmas.C02Term
import RigModel.Lemmas.C02Complete
import RigModel.Lemmas.C02Init
import RigModel.Lemmas.C02SA
import RigModel.Lemmas.C02Doc
import RigModel.Lemmas.C02Complete2
import RigModel.Lemmas.C02Hilbert
set_option linter.unusedSimpArgs false
set_option linter.unusedVariables false

namespace Rig.C02

/-- the documented domain of the placers: `vertices_resources` is a dictionary (distinct keys) of
the caller's own vertices, requirements and chip resources are non-negative -/
structure WF (vr : VR) (cs : List Constraint) (m : Machine) : Prop where
  nodup : (keys vr).Nodup
  original : Original vr cs
  nonnegVR : NonNegVR vr
  nonnegCap : NonNegCap m

/-- a same-chip group is never pinned to two different chips ("consistent mixes" of constraints):
stated on the constraint list after the groups have been merged -/
def Consistent (vr : VR) (cs : List Constraint) : Prop :=
  ∀ vr' cs' subs, applySame vr cs = .ok (vr', cs', subs) → LocConsistent cs'

/-- reservations lie inside the resources of every chip (documented precondition of
`ReserveResourceConstraint`); only needed when there is no vertex at all, in which case
`sequential.place` and `sa.place` return `{}` without looking at the constraints -/
def EmptyOK (vr : VR) (cs : List Constraint) (m : Machine) : Prop :=
  vr = [] → (∀ c, m.ok c = true → ∀ i, i < (cap m c).length → reserved cs c i ≤ dem (cap m c) i) ∧
    ∀ v c, Constraint.loc v c ∉ cs

private theorem feasible_empty {cs : List Constraint} {m : Machine} (h : EmptyOK [] cs m) :
    Feasible [] cs m [] where
  keysNodup := by simp [keys]
  placed := by intro v hv; simp [keys] at hv
  onlyVertices := by intro v hv; simp [keys] at hv
  capacity := by intro c hc i hi; have := (h rfl).1 c hc i hi; simpa [load] using this
  location := by intro v c hvc; exact absurd hvc ((h rfl).2 v c)
  sameChip := by intro vs _ a _ b _; simp [aget]

private theorem sameTrivial_of_inv {vr : VR} {cs : List Constraint} {subs : List (List Vtx)}
    (I : MInv cs.length vr cs subs) : SameTrivial cs := by
  intro vs hvs
  obtain ⟨j, hj⟩ := List.mem_iff_getElem?.1 hvs
  have hlt : j < cs.length := by
    rcases Nat.lt_or_ge j cs.length with h | h
    · exact h
    · rw [List.getElem?_eq_none h] at hj; simp at hj
  exact I.const j hlt vs hj

private theorem inv_after_prepare {vr' : VR} {cs' : List Constraint} {m m' : Machine} {fixed : Placement}
    (hn : (keys vr').Nodup) (hnn : NonNegVR vr') (hc : NonNegCap m)
    (h : prepareLoop vr' cs' m [] = .ok (m', fixed)) :
    Inv vr' m (fun c i => reserved cs' c i) m' fixed := by
  have := Inv.prepare hn hnn cs' _ m [] m' fixed (Inv.init vr' m hc) h
  have e : (fun c i => (0 : Int) + reserved cs' c i) = fun c i => reserved cs' c i := by
    funext c i; omega
  rw [← e]; exact this

/-- common end of the proofs: a loop result on the merged problem expands (the expansion cannot
fail) to a feasible placement of the caller's problem -/
private theorem finish_ex {vr vr' : VR} {cs cs' : List Constraint} {m m' : Machine} {subs : List (List Vtx)}
    {fixed pf : Placement} (O : MergeOut m vr cs [] vr' cs' subs) (hcons : LocConsistent cs')
    (hprep : prepareLoop vr' cs' m [] = .ok (m', fixed))
    (mf : Machine) (I : Inv vr' m (fun c i => reserved cs' c i) mf pf)
    (hmono : ∀ v c, aget fixed v = some c → aget pf v = some c)
    (hall : ∀ v ∈ keys vr', (aget pf v).isSome) :
    ∃ p, finalise subs pf = .ok p ∧ Feasible vr cs m p := by
  have hloc : ∀ v c, Constraint.loc v c ∈ cs' → aget pf v = some c :=
    fun v c hvc => hmono v c (prepare_loc hprep hcons v c hvc)
  have hst : SameTrivial cs' := sameTrivial_of_inv (by simpa using O.inv)
  have F := feasible_of_inv I hall hloc hst
  obtain ⟨p0, hp0, F0⟩ := O.back pf F
  simp only [List.length_nil] at hp0
  exact ⟨p0, hp0, F0⟩

private theorem finish {vr vr' : VR} {cs cs' : List Constraint} {m m' : Machine} {subs : List (List Vtx)}
    {fixed pf p : Placement} (O : MergeOut m vr cs [] vr' cs' subs) (hcons : LocConsistent cs')
    (hprep : prepareLoop vr' cs' m [] = .ok (m', fixed))
    (mf : Machine) (I : Inv vr' m (fun c i => reserved cs' c i) mf pf)
    (hmono : ∀ v c, aget fixed v = some c → aget pf v = some c)
    (hall : ∀ v ∈ keys vr', (aget pf v).isSome)
    (hfin : finalise subs pf = .ok p) : Feasible vr cs m p := by
  obtain ⟨p0, hp0, F0⟩ := finish_ex O hcons hprep mf I hmono hall
  rw [hp0] at hfin; injection hfin with e; subst e; exact F0

/-- **Sequential placer (hence Hilbert, RCM, breadth-first).**  For EVERY vertex order that
lists each vertex and EVERY chip order, a returned placement is feasible. -/
theorem seqPlace_sound (vr : VR) (cs : List Constraint) (m : Machine)
    (vertexOrder : Option (List Vtx)) (chipOrder : Option (List Chip)) (p : Placement)
    (wf : WF vr cs m) (hcons : Consistent vr cs) (hempty : EmptyOK vr cs m)
    (hvo : ∀ vo, vertexOrder = some vo → ∀ v ∈ keys vr, v ∈ vo)
    (h : seqPlace vr cs m vertexOrder chipOrder = .ok p) : Feasible vr cs m p := by
  unfold seqPlace at h
  split at h
  · rename_i h0
    have : vr = [] := List.eq_nil_of_length_eq_zero h0
    subst this; injection h with h; subst h
    exact feasible_empty hempty
  · cases hA : applySame vr cs with
    | error e => simp [hA, bind, Except.bind] at h
    | ok r =>
      obtain ⟨vr', cs', subs⟩ := r
      have O := applySame_spec m wf.nodup wf.original hA
      have hn' : (keys vr').Nodup := O.inv.nodup
      have hnn' := O.nonneg wf.nonnegVR
      cases hP : prepareLoop vr' cs' m [] with
      | error e => simp [hA, hP, bind, Except.bind] at h
      | ok r2 =>
        obtain ⟨m', fixed⟩ := r2
        have I0 := inv_after_prepare hn' hnn' wf.nonnegCap hP
        have core : ∀ order pf, (∀ v ∈ keys vr', v ∈ order) →
            seqLoop vr' ((chipOrder.getD m'.chips).filter m'.ok) order 0 m' fixed = .ok pf →
            finalise subs pf = .ok p → Feasible vr cs m p := by
          intro order pf hcover hL h
          obtain ⟨⟨mf, If⟩, hmono, hall⟩ := seqLoop_inv hn' hnn' _ _ _ _ _ _ I0 hL
          exact finish O (hcons _ _ _ hA) hP mf If hmono (fun v hv => hall v (hcover v hv)) h
        cases vertexOrder with
        | none =>
          simp only [hA, hP, bind, Except.bind, pure, Except.pure] at h
          split at h
          · simp at h
          · cases hL : seqLoop vr' ((chipOrder.getD m'.chips).filter m'.ok) (keys vr') 0 m' fixed with
            | error e => simp [hL] at h
            | ok pf => simp only [hL] at h; exact core _ pf (fun v hv => hv) hL h
        | some vo =>
          cases hS : substOrder 0 subs vo with
          | error e => simp [hA, hP, hS, bind, Except.bind] at h
          | ok order =>
            simp only [hA, hP, hS, bind, Except.bind] at h
            split at h
            · simp at h
            · cases hL : seqLoop vr' ((chipOrder.getD m'.chips).filter m'.ok) order 0 m' fixed with
              | error e => simp [hL] at h
              | ok pf =>
                simp only [hL] at h
                exact core order pf (O.order vo order (hvo vo rfl) hS) hL h

/-- **Random placer.**  For EVERY sequence of chips the random number generator may draw. -/
theorem randPlace_sound (vr : VR) (cs : List Constraint) (m : Machine) (picks : List Chip) (p : Placement)
    (wf : WF vr cs m) (hcons : Consistent vr cs)
    (h : randPlace vr cs m picks = .ok p) : Feasible vr cs m p := by
  unfold randPlace at h
  cases hA : applySame vr cs with
  | error e => simp [hA, bind, Except.bind] at h
  | ok r =>
    obtain ⟨vr', cs', subs⟩ := r
    have O := applySame_spec m wf.nodup wf.original hA
    have hn' : (keys vr').Nodup := O.inv.nodup
    have hnn' := O.nonneg wf.nonnegVR
    cases hP : prepareLoop vr' cs' m [] with
    | error e => simp [hA, hP, bind, Except.bind] at h
    | ok r2 =>
      obtain ⟨m', fixed⟩ := r2
      have I0 := inv_after_prepare hn' hnn' wf.nonnegCap hP
      simp only [hA, hP, bind, Except.bind] at h
      split at h
      · simp at h
      · rename_i pf hL
        have hfree : ∀ v ∈ (keys vr').filter (fun v => !(aget fixed v).isSome), aget fixed v = none := by
          intro v hv
          simp only [List.mem_filter] at hv
          cases hx : aget fixed v with
          | none => rfl
          | some x => simp [hx] at hv
        obtain ⟨⟨mf, If⟩, hmono, hall⟩ :=
          randLoop_inv hn' hnn' _ _ _ _ _ _ I0 hfree (List.Nodup.sublist List.filter_sublist hn') hL
        refine finish O (hcons _ _ _ hA) hP mf If hmono (fun v hv => ?_) h
        cases hx : aget fixed v with
        | none => exact hall v (by simp [List.mem_filter, hv, hx])
        | some x => simp [hmono v x hx]

/-- facts about the annealer's initial placement merged with the fixed vertices -/
private theorem sa_initial_facts {vr' : VR} {cs' : List Constraint} {m m' m'' : Machine}
    {fixed init : Placement} {locs : List Chip} {vs : List Vtx}
    (hn' : (keys vr').Nodup) (hnn' : NonNegVR vr') (hcap : NonNegCap m)
    (hP : prepareLoop vr' cs' m [] = .ok (m', fixed))
    (hI : initialPlacement vr' m' locs vs = .ok (m'', init))
    (hvs : ∀ v ∈ keys vr', v ∈ vs ∨ v ∈ keys fixed) :
    Inv vr' m (fun c i => reserved cs' c i) m'' (mergeP init fixed) ∧
    (∀ v c, aget fixed v = some c → aget (mergeP init fixed) v = some c) ∧
    (∀ v ∈ keys vr', (aget (mergeP init fixed) v).isSome) := by
  have I0 := inv_after_prepare hn' hnn' hcap hP
  cases locs with
  | nil => simp [initialPlacement] at hI
  | cons c0 rest =>
    simp only [initialPlacement] at hI
    have hcap' : NonNegCap m' := fun c hc i => I0.nonneg c (by rw [← I0.ok_eq]; exact hc) i
    obtain ⟨I2, hall2, _⟩ := initLoop_inv hn' hnn' _ _ _ _ _ _ _ (Inv.init vr' m' hcap') hI
    have I := Inv.compose hnn' I0 I2
    have hget := aget_mergeP fixed init
    refine ⟨I, ?_, ?_⟩
    · intro v c hv
      rw [hget v I0.pnodup, hv]
    · intro v hv
      rw [hget v I0.pnodup]
      rcases hvs v hv with h1 | h1
      · cases hx : aget fixed v with
        | none => exact hall2 v h1
        | some c => rfl
      · have := (aget_isSome_iff fixed v).2 h1
        cases hx : aget fixed v with
        | none => simp [hx] at this
        | some c => rfl

/-- **Annealer (Python kernel), whole run.**  For EVERY outcome of the two shuffles (`locs` =
shuffled chips, `vs` = shuffled movable vertices, which must list every vertex that is not fixed)
and, when the kernel is used, for EVERY list of proposals `steps` (source vertex, destination chip,
accept bit - i.e. whatever the RNG draws, the temperature and the cost function are), a placement
returned by `sa.place` is feasible.  `steps = none` is the "trivial solution" return. -/
theorem saPlace_sound (vr : VR) (cs : List Constraint) (m : Machine) (locs : List Chip)
    (vs : List Vtx) (steps : Option (List Step)) (p : Placement) (fl : List Bool)
    (wf : WF vr cs m) (hcons : Consistent vr cs) (hempty : EmptyOK vr cs m)
    (hvs : ∀ vr' cs' subs m' fixed, applySame vr cs = .ok (vr', cs', subs) →
      prepareLoop vr' cs' m [] = .ok (m', fixed) → ∀ v ∈ keys vr', v ∈ vs ∨ v ∈ keys fixed)
    (h : saPlace vr cs m locs vs steps = .ok (p, fl)) : Feasible vr cs m p := by
  unfold saPlace at h
  split at h
  · rename_i h0
    have : vr = [] := List.eq_nil_of_length_eq_zero h0
    subst this; injection h with h; injection h with h1 h2; subst h1
    exact feasible_empty hempty
  · cases hA : applySame vr cs with
    | error e => simp [hA, bind, Except.bind] at h
    | ok r =>
      obtain ⟨vr', cs', subs⟩ := r
      have O := applySame_spec m wf.nodup wf.original hA
      have hn' : (keys vr').Nodup := O.inv.nodup
      have hnn' := O.nonneg wf.nonnegVR
      cases hP : prepareLoop vr' cs' m [] with
      | error e => simp [hA, hP, bind, Except.bind] at h
      | ok r2 =>
        obtain ⟨m', fixed⟩ := r2
        cases hI : initialPlacement vr' m' locs vs with
        | error e => simp [hA, hP, hI, bind, Except.bind] at h
        | ok r3 =>
          obtain ⟨m'', init⟩ := r3
          obtain ⟨I, hmono, hall⟩ := sa_initial_facts hn' hnn' wf.nonnegCap hP hI (hvs _ _ _ _ _ hA hP)
          simp only [hA, hP, hI, bind, Except.bind, pure, Except.pure] at h
          have hp0 : List.foldl (fun q (vc : Vtx × Chip) => aset q vc.1 vc.2) init fixed = mergeP init fixed := rfl
          rw [hp0] at h
          cases steps with
          | none =>
            simp only at h
            cases hF : finalise subs (mergeP init fixed) with
            | error e => simp [hF] at h
            | ok pf =>
              simp only [hF] at h
              injection h with h; injection h with h1 h2; subst h1
              exact finish O (hcons _ _ _ hA) hP m'' I hmono hall hF
          | some sts =>
            simp only at h
            cases hL : mkL2v m'' (mergeP init fixed) with
            | error e => simp [hL] at h
            | ok l2v =>
              simp only [hL] at h
              cases hR : saRun vr' (keys fixed) sts { m := m'', p := mergeP init fixed, l2v := l2v } [] with
              | error e => simp [hR] at h
              | ok r4 =>
                obtain ⟨s, fl'⟩ := r4
                simp only [hR] at h
                cases hF : finalise subs s.p with
                | error e => simp [hF] at h
                | ok pf =>
                  simp only [hF] at h
                  injection h with h; injection h with h1 h2; subst h1
                  have J := SAInv.run hn' _ _ _ _ _ (SAInv.start (keys fixed) I hL) hR
                  refine finish O (hcons _ _ _ hA) hP s.m (J.toInv I) ?_ ?_ hF
                  · intro v c hv
                    rw [J.fixedUnmoved v ((aget_isSome_iff fixed v).1 (by simp [hv]))]
                    exact hmono v c hv
                  · intro v hv
                    exact (aget_isSome_iff _ _).2 ((J.pkeys v).2 ((aget_isSome_iff _ _).1 (hall v hv)))

/-- **Annealer: initial placement and the "trivial solution" return.**  For EVERY outcome of the
two shuffles (`locs` = shuffled chips, `vs` = shuffled movable vertices, which must list every vertex
that is not fixed), what `sa.place` returns when the kernel is not used is feasible; the same
placement is the kernel's starting state otherwise.  (Special case of `saPlace_sound`.) -/
theorem saPlace_initial_sound (vr : VR) (cs : List Constraint) (m : Machine) (locs : List Chip)
    (vs : List Vtx) (p : Placement) (fl : List Bool)
    (wf : WF vr cs m) (hcons : Consistent vr cs) (hempty : EmptyOK vr cs m)
    (hvs : ∀ vr' cs' subs m' fixed, applySame vr cs = .ok (vr', cs', subs) →
      prepareLoop vr' cs' m [] = .ok (m', fixed) → ∀ v ∈ keys vr', v ∈ vs ∨ v ∈ keys fixed)
    (h : saPlace vr cs m locs vs none = .ok (p, fl)) : Feasible vr cs m p :=
  saPlace_sound vr cs m locs vs none p fl wf hcons hempty hvs h

/-- **Annealing step invariant.**  `SAInv vr fixed p0 m0 tot s` says of a kernel state `s` (working
machine, placements, location -> vertices lookup): for every working chip `c` and resource `i`,
free[c][i] = tot c i - (sum of the demands of the vertices placed on c) and free[c][i] >= 0, where
`tot` does not change over time; every fixed (location-constrained) vertex is where the initial
placement `p0` put it; exactly the vertices of `p0` are placed, each on a working chip; the lookup
`l2v[c]` lists exactly (and once) the vertices placed on `c`.  One `_step` of the Python kernel
(`_get_candidate_swap`, the return-fit test, `_swap`, the revert) preserves it for EVERY proposal
(source vertex, destination chip, accept bit). -/
theorem saStep_inv (vr : VR) (fixed : List Vtx) (p0 : Placement) (m0 : Machine) (tot : Chip → Nat → Int)
    (s s' : SA) (src : Vtx) (dst : Chip) (accept f : Bool)
    (hn : (keys vr).Nodup) (I : SAInv vr fixed p0 m0 tot s)
    (h : saStep vr fixed s src dst accept = .ok (s', f)) : SAInv vr fixed p0 m0 tot s' :=
  SAInv.step hn I h

/-- ... hence every run of the kernel, over EVERY proposal list -/
theorem saRun_inv (vr : VR) (fixed : List Vtx) (p0 : Placement) (m0 : Machine) (tot : Chip → Nat → Int)
    (steps : List Step) (s s' : SA) (fl fl' : List Bool)
    (hn : (keys vr).Nodup) (I : SAInv vr fixed p0 m0 tot s)
    (h : saRun vr fixed steps s fl = .ok (s', fl')) : SAInv vr fixed p0 m0 tot s' :=
  SAInv.run hn steps s fl s' fl' I h

/-- the state `PythonKernel.__init__` builds from a placement satisfying the placers' resource
invariant satisfies the annealing invariant (so the hypothesis of `saStep_inv` is not vacuous) -/
theorem saStart_inv (vr : VR) (m m2 : Machine) (rsv : Chip → Nat → Int) (p0 : Placement) (fixed : List Vtx)
    (l2v : List (Chip × List Vtx)) (I : Inv vr m rsv m2 p0) (h : mkL2v m2 p0 = .ok l2v) :
    SAInv vr fixed p0 m2 (fun c i => dem (cap m2 c) i + load vr p0 c i) { m := m2, p := p0, l2v := l2v } :=
  SAInv.start fixed I h

/-! ### only the documented errors -/

/-- the documented domain of the placers, second part: constraints mention only vertices of
`vertices_resources`; every resource exception (also one recorded for a dead chip) lists the machine's resources; reservations name a resource of the machine and, when per-chip, a working chip -/
structure InDomain (vr : VR) (cs : List Constraint) (m : Machine) : Prop where
  known : Known vr cs
  excLen : ∀ e ∈ m.exc, e.2.length = m.res.length
  resIdx : ∀ r amt at_, Constraint.reserve r amt at_ ∈ cs → r < m.res.length
  resOk : ∀ r amt c, Constraint.reserve r amt (some c) ∈ cs → m.ok c = true

private theorem prefix_doc {vr : VR} {cs : List Constraint} {m : Machine} (dom : InDomain vr cs m) :
    (∀ e, applySame vr cs ≠ .error e) ∧
    ∀ vr' cs' subs, applySame vr cs = .ok (vr', cs', subs) → Known vr' cs' ∧
      ∀ p e, prepareLoop vr' cs' m p = .error e → e = .insufficient ∨ e = .invalidConstraint := by
  obtain ⟨⟨out, hout⟩, h2⟩ := applySameLoop_dom cs.length 0 vr cs [] dom.known
  refine ⟨fun e he => ?_, fun vr' cs' subs hA => ?_⟩
  · unfold applySame at he; rw [hout] at he; simp at he
  · obtain ⟨k, hr⟩ := h2 vr' cs' subs hA
    refine ⟨k, fun p e he => ?_⟩
    refine prepareLoop_doc (n := m.res.length) cs' m p k ⟨rfl, fun x hx => dom.excLen x hx⟩ ?_ e he
    intro r a at_ hmem
    have hmem' := hr r a at_ hmem
    exact ⟨dom.resIdx r a at_ hmem', fun c hc => by subst hc; exact dom.resOk r a c hmem'⟩

/-- **Sequential placer: only the documented errors.**  Under the documented domain the sequential
placer (default vertex order or a custom order that is a permutation of the vertices, EVERY chip
order - hence Hilbert, RCM, breadth-first) fails with `InsufficientResourceError` or
`InvalidConstraintError` only - never KeyError / IndexError / ValueError, never by running out of
scan steps. -/
theorem seqPlace_documented (vr : VR) (cs : List Constraint) (m : Machine)
    (vertexOrder : Option (List Vtx)) (chipOrder : Option (List Chip)) (e : Err)
    (wf : WF vr cs m) (hcons : Consistent vr cs) (dom : InDomain vr cs m)
    (hvo : ∀ vo, vertexOrder = some vo → vo.Nodup ∧ ∀ v, v ∈ vo ↔ v ∈ keys vr)
    (h : seqPlace vr cs m vertexOrder chipOrder = .error e) : e = .insufficient ∨ e = .invalidConstraint := by
  obtain ⟨d1, d2⟩ := prefix_doc dom
  unfold seqPlace at h
  split at h
  · simp at h
  · cases hA : applySame vr cs with
    | error e' => exact absurd hA (d1 e')
    | ok r =>
      obtain ⟨vr', cs', subs⟩ := r
      obtain ⟨hk, d3⟩ := d2 _ _ _ hA
      have O := applySame_spec m wf.nodup wf.original hA
      have hn' : (keys vr').Nodup := O.inv.nodup
      have hnn' := O.nonneg wf.nonnegVR
      cases hP : prepareLoop vr' cs' m [] with
      | error e' =>
        simp only [hA, hP, bind, Except.bind] at h
        injection h with h; subst h; exact d3 _ _ hP
      | ok r2 =>
        obtain ⟨m', fixed⟩ := r2
        have I0 := inv_after_prepare hn' hnn' wf.nonnegCap hP
        have core : ∀ order, (∀ v ∈ order, v ∈ keys vr') → (∀ v ∈ keys vr', v ∈ order) →
            (if ((chipOrder.getD m'.chips).filter m'.ok).isEmpty = true then (Except.error Err.insufficient : M Placement)
             else (seqLoop vr' ((chipOrder.getD m'.chips).filter m'.ok) order 0 m' fixed).bind (finalise subs))
              = .error e → e = .insufficient ∨ e = .invalidConstraint := by
          intro order ho1 ho2 h
          split at h
          · injection h with h; exact Or.inl h.symm
          · rename_i hne
            have hne' : (chipOrder.getD m'.chips).filter m'.ok ≠ [] := by
              intro e; rw [e] at hne; simp at hne
            cases hL : seqLoop vr' ((chipOrder.getD m'.chips).filter m'.ok) order 0 m' fixed with
            | error e' =>
              simp only [hL, Except.bind] at h
              injection h with h; subst h
              exact Or.inl (seqLoop_doc vr' _ hne' _ _ _ _ _ ho1 (fun c hc => (List.mem_filter.1 hc).2) hL)
            | ok pf =>
              simp only [hL, Except.bind] at h
              obtain ⟨⟨mf, If⟩, hmono, hall⟩ := seqLoop_inv hn' hnn' _ _ _ _ _ _ I0 hL
              obtain ⟨p, hp, _⟩ := finish_ex O (hcons _ _ _ hA) hP mf If hmono (fun v hv => hall v (ho2 v hv))
              rw [hp] at h; simp at h
        cases vertexOrder with
        | none =>
          simp only [hA, hP, bind, Except.bind, pure, Except.pure] at h
          exact core (keys vr') (fun v hv => hv) (fun v hv => hv) h
        | some vo =>
          obtain ⟨hvn, hvm⟩ := hvo vo rfl
          obtain ⟨order, hS, _, ho⟩ := O.orderOk vo hvn hvm
          simp only [List.length_nil] at hS
          simp only [hA, hP, hS, bind, Except.bind] at h
          exact core order (fun v hv => (ho v).1 hv) (fun v hv => (ho v).2 hv) h

/-- **Random placer: only the documented errors**, for EVERY sequence of draws (`BadOracle` is the
model's answer to a sequence of draws the RNG cannot produce, not an exception of the code). -/
theorem randPlace_documented (vr : VR) (cs : List Constraint) (m : Machine) (picks : List Chip) (e : Err)
    (wf : WF vr cs m) (hcons : Consistent vr cs) (dom : InDomain vr cs m)
    (h : randPlace vr cs m picks = .error e) :
    e = .insufficient ∨ e = .invalidConstraint ∨ e = .badOracle := by
  obtain ⟨d1, d2⟩ := prefix_doc dom
  unfold randPlace at h
  cases hA : applySame vr cs with
  | error e' => exact absurd hA (d1 e')
  | ok r =>
    obtain ⟨vr', cs', subs⟩ := r
    obtain ⟨hk, d3⟩ := d2 _ _ _ hA
    have O := applySame_spec m wf.nodup wf.original hA
    have hn' : (keys vr').Nodup := O.inv.nodup
    have hnn' := O.nonneg wf.nonnegVR
    cases hP : prepareLoop vr' cs' m [] with
    | error e' =>
      simp only [hA, hP, bind, Except.bind] at h
      injection h with h; subst h
      rcases d3 _ _ hP with h | h
      · exact Or.inl h
      · exact Or.inr (Or.inl h)
    | ok r2 =>
      obtain ⟨m', fixed⟩ := r2
      have I0 := inv_after_prepare hn' hnn' wf.nonnegCap hP
      simp only [hA, hP, bind, Except.bind] at h
      split at h
      · rename_i e' hL
        injection h with h; subst h
        rcases randLoop_doc vr' _ _ _ _ _ _ (fun v hv => (List.mem_filter.1 hv).1)
          (fun c hc => (mem_chips_iff m' c).1 hc) hL with h | h
        · exact Or.inl h
        · exact Or.inr (Or.inr h)
      · rename_i pf hL
        have hfree : ∀ v ∈ (keys vr').filter (fun v => !(aget fixed v).isSome), aget fixed v = none := by
          intro v hv
          simp only [List.mem_filter] at hv
          cases hx : aget fixed v with
          | none => rfl
          | some x => simp [hx] at hv
        obtain ⟨⟨mf, If⟩, hmono, hall⟩ :=
          randLoop_inv hn' hnn' _ _ _ _ _ _ I0 hfree (List.Nodup.sublist List.filter_sublist hn') hL
        obtain ⟨p, hp, _⟩ := finish_ex O (hcons _ _ _ hA) hP mf If hmono (fun v hv => by
          cases hx : aget fixed v with
          | none => exact hall v (by simp [List.mem_filter, hv, hx])
          | some x => simp [hmono v x hx])
        rw [hp] at h; simp at h

/-- **Annealer, initial placement / trivial-solution path: only the documented errors**, for EVERY
outcome of the two shuffles (`locs` a list of working chips, `vs` a list of the movable vertices). -/
theorem saPlace_initial_documented (vr : VR) (cs : List Constraint) (m : Machine) (locs : List Chip)
    (vs : List Vtx) (e : Err)
    (wf : WF vr cs m) (hcons : Consistent vr cs) (dom : InDomain vr cs m)
    (hlocs : ∀ c ∈ locs, m.ok c = true)
    (hvs : ∀ vr' cs' subs m' fixed, applySame vr cs = .ok (vr', cs', subs) →
      prepareLoop vr' cs' m [] = .ok (m', fixed) →
      (∀ v ∈ keys vr', v ∈ vs ∨ v ∈ keys fixed) ∧ ∀ v ∈ vs, v ∈ keys vr')
    (h : saPlace vr cs m locs vs none = .error e) : e = .insufficient ∨ e = .invalidConstraint := by
  obtain ⟨d1, d2⟩ := prefix_doc dom
  unfold saPlace at h
  split at h
  · simp at h
  · cases hA : applySame vr cs with
    | error e' => exact absurd hA (d1 e')
    | ok r =>
      obtain ⟨vr', cs', subs⟩ := r
      obtain ⟨hk, d3⟩ := d2 _ _ _ hA
      have O := applySame_spec m wf.nodup wf.original hA
      have hn' : (keys vr').Nodup := O.inv.nodup
      have hnn' := O.nonneg wf.nonnegVR
      cases hP : prepareLoop vr' cs' m [] with
      | error e' =>
        simp only [hA, hP, bind, Except.bind] at h
        injection h with h; subst h; exact d3 _ _ hP
      | ok r2 =>
        obtain ⟨m', fixed⟩ := r2
        have I0 := inv_after_prepare hn' hnn' wf.nonnegCap hP
        obtain ⟨hvs1, hvs2⟩ := hvs _ _ _ _ _ hA hP
        cases hI : initialPlacement vr' m' locs vs with
        | error e' =>
          simp only [hA, hP, hI, bind, Except.bind] at h
          injection h with h; subst h
          cases locs with
          | nil => simp [initialPlacement] at hI; exact Or.inl hI.symm
          | cons c0 rest =>
            simp only [initialPlacement] at hI
            have hok' : ∀ c ∈ c0 :: rest, m'.ok c = true := fun c hc => by rw [I0.ok_eq]; exact hlocs c hc
            exact Or.inl (initLoop_doc vr' vs c0 rest m' [] _ hvs2 (hok' c0 (by simp))
              (fun c hc => hok' c (by simp [hc])) hI)
        | ok r3 =>
          obtain ⟨m'', init⟩ := r3
          obtain ⟨I, hmono, hall⟩ := sa_initial_facts hn' hnn' wf.nonnegCap hP hI hvs1
          simp only [hA, hP, hI, bind, Except.bind, pure, Except.pure] at h
          have hp0 : List.foldl (fun q (vc : Vtx × Chip) => aset q vc.1 vc.2) init fixed = mergeP init fixed := rfl
          rw [hp0] at h
          obtain ⟨p, hp, _⟩ := finish_ex O (hcons _ _ _ hA) hP m'' I hmono hall
          rw [hp] at h; simp at h

/-- **Annealing kernel: one step raises nothing.**  In a state satisfying the invariant, for EVERY
proposal whose source vertex is one of the placed vertices, `_step` (with `_get_candidate_swap`,
`_swap` and the revert) performs no failing lookup: the model's only failure is `BadOracle` (the
proposal is not a possible draw: a fixed source vertex, or a destination equal to the source chip). -/
theorem saStep_documented (vr : VR) (fixed : List Vtx) (p0 : Placement) (m0 : Machine) (tot : Chip → Nat → Int)
    (s : SA) (src : Vtx) (dst : Chip) (accept : Bool) (e : Err)
    (hn : (keys vr).Nodup) (I : SAInv vr fixed p0 m0 tot s) (hpvr : ∀ v ∈ keys p0, v ∈ keys vr)
    (hsrc : src ∈ keys p0)
    (h : saStep vr fixed s src dst accept = .error e) : e = .badOracle :=
  SAInv.step_doc hn I hpvr hsrc h

/-- **Annealer (Python kernel), whole run: only the documented errors**, for EVERY outcome of the two
shuffles and EVERY proposal list over the vertices (`BadOracle`: the proposal list is not a possible
sequence of draws). -/
theorem saPlace_documented (vr : VR) (cs : List Constraint) (m : Machine) (locs : List Chip)
    (vs : List Vtx) (steps : Option (List Step)) (e : Err)
    (wf : WF vr cs m) (hcons : Consistent vr cs) (dom : InDomain vr cs m)
    (hlocs : ∀ c ∈ locs, m.ok c = true)
    (hvs : ∀ vr' cs' subs m' fixed, applySame vr cs = .ok (vr', cs', subs) →
      prepareLoop vr' cs' m [] = .ok (m', fixed) →
      (∀ v ∈ keys vr', v ∈ vs ∨ v ∈ keys fixed) ∧ ∀ v ∈ vs, v ∈ keys vr')
    (hsteps : ∀ sts, steps = some sts → ∀ vr' cs' subs, applySame vr cs = .ok (vr', cs', subs) →
      ∀ st ∈ sts, st.src ∈ keys vr')
    (h : saPlace vr cs m locs vs steps = .error e) :
    e = .insufficient ∨ e = .invalidConstraint ∨ e = .badOracle := by
  cases steps with
  | none =>
    rcases saPlace_initial_documented vr cs m locs vs e wf hcons dom hlocs hvs h with h | h
    · exact Or.inl h
    · exact Or.inr (Or.inl h)
  | some sts =>
    obtain ⟨d1, d2⟩ := prefix_doc dom
    have hnone : ∀ e', saPlace vr cs m locs vs none = .error e' → e' = .insufficient ∨ e' = .invalidConstraint :=
      fun e' he' => saPlace_initial_documented vr cs m locs vs e' wf hcons dom hlocs hvs he'
    unfold saPlace at h hnone
    split at h
    · simp at h
    · rename_i hlen
      simp only [hlen, if_false] at hnone
      cases hA : applySame vr cs with
      | error e' => exact absurd hA (d1 e')
      | ok r =>
        obtain ⟨vr', cs', subs⟩ := r
        have O := applySame_spec m wf.nodup wf.original hA
        have hn' : (keys vr').Nodup := O.inv.nodup
        have hnn' := O.nonneg wf.nonnegVR
        cases hP : prepareLoop vr' cs' m [] with
        | error e' =>
          simp only [hA, hP, bind, Except.bind] at h hnone
          rcases hnone e (by rw [h]) with h | h
          · exact Or.inl h
          · exact Or.inr (Or.inl h)
        | ok r2 =>
          obtain ⟨m', fixed⟩ := r2
          obtain ⟨hvs1, hvs2⟩ := hvs _ _ _ _ _ hA hP
          cases hI : initialPlacement vr' m' locs vs with
          | error e' =>
            simp only [hA, hP, hI, bind, Except.bind] at h hnone
            rcases hnone e (by rw [h]) with h | h
            · exact Or.inl h
            · exact Or.inr (Or.inl h)
          | ok r3 =>
            obtain ⟨m'', init⟩ := r3
            obtain ⟨I, hmono, hall⟩ := sa_initial_facts hn' hnn' wf.nonnegCap hP hI hvs1
            simp only [hA, hP, hI, bind, Except.bind, pure, Except.pure] at h
            have hp0 : List.foldl (fun q (vc : Vtx × Chip) => aset q vc.1 vc.2) init fixed = mergeP init fixed := rfl
            rw [hp0] at h
            obtain ⟨l2v, hL⟩ := mkL2v_ok m'' (mergeP init fixed) (m''.chips.map fun c => (c, []))
              (by
                intro vc hvc
                have hok : m''.ok vc.2 = true := by
                  rw [I.ok_eq]; exact I.pok vc.1 vc.2 ((mem_iff_aget I.pnodup vc.1 vc.2).1 hvc)
                simp only [keys, List.map_map, List.mem_map, Function.comp]
                exact ⟨vc.2, (mem_chips_iff m'' vc.2).2 hok, rfl⟩)
            have hL' : mkL2v m'' (mergeP init fixed) = .ok l2v := hL
            simp only [hL'] at h
            have J0 := SAInv.start (keys fixed) I hL'
            cases hR : saRun vr' (keys fixed) sts { m := m'', p := mergeP init fixed, l2v := l2v } [] with
            | error e' =>
              simp only [hR] at h
              injection h with h; subst h
              right; right
              refine SAInv.run_doc hn' I.pvr sts _ _ _ J0 (fun st hst => ?_) hR
              exact (aget_isSome_iff _ _).1 (hall _ (hsteps sts rfl _ _ _ hA st hst))
            | ok r4 =>
              obtain ⟨s, fl'⟩ := r4
              simp only [hR] at h
              have J := SAInv.run hn' _ _ _ _ _ J0 hR
              obtain ⟨p, hp, _⟩ := finish_ex O (hcons _ _ _ hA) hP s.m (J.toInv I)
                (fun v c hv => by
                  rw [J.fixedUnmoved v ((aget_isSome_iff fixed v).1 (by simp [hv]))]
                  exact hmono v c hv)
                (fun v hv => (aget_isSome_iff _ _).2 ((J.pkeys v).2 ((aget_isSome_iff _ _).1 (hall v hv))))
              rw [hp] at h; simp at h

/-- **The oracle is the specification.**  The decidable check the harness runs on every placement
returned by the implementation is equivalent to `Feasible`. -/
theorem validPlacement_iff (vr : VR) (cs : List Constraint) (m : Machine) (p : Placement) :
    validPlacement vr cs m p = true ↔ Feasible vr cs m p := by
  have h2 : ((keys vr).all (vertexOk m p)) = true ↔
      ∀ v, v ∈ keys vr → ∃ c, aget p v = some c ∧ m.ok c = true := by
    simp only [List.all_eq_true]
    constructor
    · intro h v hv
      have := h v hv
      unfold vertexOk at this
      cases hx : aget p v with
      | none => simp [hx] at this
      | some c => simp [hx] at this; exact ⟨c, rfl, this⟩
    · intro h v hv
      obtain ⟨c, h1, h2⟩ := h v hv
      simp [vertexOk, h1, h2]
  have h3 : ((keys p).all (fun v => (keys vr).contains v)) = true ↔ ∀ v, v ∈ keys p → v ∈ keys vr := by
    simp [List.all_eq_true]
  have h4 : (m.chips.all (chipFits vr cs m p)) = true ↔
      ∀ c, m.ok c = true → ∀ i, i < (cap m c).length → load vr p c i + reserved cs c i ≤ dem (cap m c) i := by
    simp only [chipFits, List.all_eq_true, mem_chips_iff, List.mem_range, decide_eq_true_eq]
  have h5 : (cs.all (constraintOk p)) = true ↔
      (∀ v c, Constraint.loc v c ∈ cs → aget p v = some c) ∧
      (∀ vs, Constraint.same vs ∈ cs → ∀ a ∈ vs, ∀ b ∈ vs, aget p a = aget p b) := by
    simp only [List.all_eq_true]
    constructor
    · intro h
      refine ⟨fun v c hvc => ?_, fun vs hvs a ha b hb => ?_⟩
      · simpa [constraintOk] using h _ hvc
      · have := h _ hvs
        simp only [constraintOk, List.all_eq_true, decide_eq_true_eq] at this
        exact this a ha b hb
    · rintro ⟨h1, h2⟩ k hk
      cases k with
      | loc v c => simpa [constraintOk] using h1 v c hk
      | same vs =>
        simp only [constraintOk, List.all_eq_true, decide_eq_true_eq]
        exact h2 vs hk
      | reserve r a c => rfl
      | endpoint v => rfl
      | other => rfl
  unfold validPlacement checkPlacement
  constructor
  · intro h
    split at h
    · simp at h
    · rename_i c1
      split at h
      · simp at h
      · rename_i c2
        split at h
        · simp at h
        · rename_i c3
          split at h
          · simp at h
          · rename_i c4
            split at h
            · simp at h
            · rename_i c5
              simp only [Bool.not_eq_true', Bool.not_eq_false, Bool.not_eq_true] at c1 c2 c3 c4 c5
              have c1' : (keys p).Nodup := by simpa using c1
              have c5' := h5.1 (by simpa using c5)
              exact ⟨c1', h2.1 (by simpa using c2), h3.1 (by simpa using c3), h4.1 (by simpa using c4),
                c5'.1, c5'.2⟩
  · intro F
    have c1 : decide (keys p).Nodup = true := by simpa using F.keysNodup
    have c2 := h2.2 F.placed
    have c3 := h3.2 F.onlyVertices
    have c4 := h4.2 F.capacity
    have c5 := h5.2 ⟨F.location, F.sameChip⟩
    rw [if_neg (by simp [c1]), if_neg (by simp [c2]), if_neg (by rw [c3]; simp), if_neg (by simp [c4]),
      if_neg (by simp [c5])]
    rfl

/-- **Termination (sequential family).**  The model's only unbounded loop, the cyclic chip scan
with the `last_successful_chip` stop rule, is run with the step bound `len(chips)` per vertex;
for every input the bound is never exhausted: each vertex tries at most every chip once.  (All
other loops of `sequential.place` are `for` loops over finite lists and are structurally
recursive in the model.) -/
theorem seqPlace_terminates (vr : VR) (cs : List Constraint) (m : Machine)
    (vertexOrder : Option (List Vtx)) (chipOrder : Option (List Chip)) :
    seqPlace vr cs m vertexOrder chipOrder ≠ .error .fuel := by
  unfold seqPlace
  split
  · simp
  · cases hA : applySame vr cs with
    | error e =>
      simp only [bind, Except.bind]
      intro h; injection h with h; subst h
      exact applySameLoop_no_fuel _ _ _ _ _ hA
    | ok r =>
      obtain ⟨vr', cs', subs⟩ := r
      cases hP : prepareLoop vr' cs' m [] with
      | error e =>
        simp only [hP, bind, Except.bind]
        intro h; injection h with h; subst h
        exact prepareLoop_no_fuel _ _ _ _ hP
      | ok r2 =>
        obtain ⟨m', fixed⟩ := r2
        have core : ∀ order,
            (if ((chipOrder.getD m'.chips).filter m'.ok).isEmpty = true then (Except.error Err.insufficient : M Placement)
             else (seqLoop vr' ((chipOrder.getD m'.chips).filter m'.ok) order 0 m' fixed).bind (finalise subs))
              ≠ .error .fuel := by
          intro order
          split
          · simp
          · rename_i hne
            have hne' : (chipOrder.getD m'.chips).filter m'.ok ≠ [] := by
              intro e; rw [e] at hne; simp at hne
            cases hL : seqLoop vr' ((chipOrder.getD m'.chips).filter m'.ok) order 0 m' fixed with
            | error e =>
              simp only [Except.bind]
              intro h; injection h with h; subst h
              exact seqLoop_no_fuel vr' _ hne' _ _ _ _ hL
            | ok pf =>
              simp only [Except.bind]
              exact finaliseFrom_no_fuel _ _ _
        cases vertexOrder with
        | none =>
          have := core (keys vr')
          simp only [hP, bind, Except.bind, pure, Except.pure] at this ⊢
          exact this
        | some vo =>
          cases hS : substOrder 0 subs vo with
          | error e =>
            simp only [hP, hS, bind, Except.bind]
            intro h; injection h with h; subst h
            exact substOrder_no_fuel _ _ _ hS
          | ok order =>
            have := core order
            simp only [hP, hS, bind, Except.bind] at this ⊢
            exact this

private theorem applySameLoop_noSame (vr : VR) (cs : List Constraint) (subs : List (List Vtx))
    (h : ∀ vs, Constraint.same vs ∉ cs) :
    ∀ (n i : Nat), applySameLoop n i vr cs subs = .ok (vr, cs, subs) := by
  intro n
  induction n with
  | zero => intro i; rfl
  | succ n ih =>
    intro i
    simp only [applySameLoop]
    split
    · rename_i vs hget
      exact absurd (List.mem_of_getElem? hget) (h vs)
    · exact ih _

/-- **Completeness (sequential family) under the unit-demand hypothesis.**  If there are no
same-chip groups, every vertex needs nothing but 0 or 1 unit of one resource `r0`, the constraint
loop succeeds (location-constrained vertices fit on their chips after the reservations), the chip
order lists at least one working chip and no working chip twice, and the total free amount of `r0`
on the listed chips covers the vertices still to be placed, then the sequential placer succeeds -
for EVERY vertex order over known vertices and EVERY such chip order (hence Hilbert / RCM /
breadth-first whenever their chip order covers the free capacity). -/
theorem seqPlace_complete_unit (vr : VR) (cs : List Constraint) (m m' : Machine) (fixed : Placement)
    (vertexOrder : Option (List Vtx)) (chipOrder : Option (List Chip)) (r0 : Nat)
    (hnodup : (keys vr).Nodup) (hcap : NonNegCap m)
    (hnosame : ∀ vs, Constraint.same vs ∉ cs)
    (hunit : ∀ v d, (v, d) ∈ vr → UnitDem r0 d)
    (hprep : prepareLoop vr cs m [] = .ok (m', fixed))
    (hknown : ∀ v ∈ vertexOrder.getD (keys vr), v ∈ keys vr)
    (hnd : ((chipOrder.getD m'.chips).filter m'.ok).Nodup)
    (hne : (chipOrder.getD m'.chips).filter m'.ok ≠ [])
    (hsuff : needOf fixed vr r0 (vertexOrder.getD (keys vr)) ≤
      total m' ((chipOrder.getD m'.chips).filter m'.ok) r0) :
    ∃ p, seqPlace vr cs m vertexOrder chipOrder = .ok p := by
  unfold seqPlace
  split
  · exact ⟨[], rfl⟩
  · have hA : applySame vr cs = .ok (vr, cs, []) := applySameLoop_noSame vr cs [] hnosame _ _
    have hnn : NonNegVR vr := by
      intro v d hvd i
      have hu := hunit v d hvd
      by_cases e : i = r0
      · subst e; rcases hu.2 with h | h <;> omega
      · rw [hu.1 i e]; omega
    have I := inv_after_prepare hnodup hnn hcap hprep
    have hNN : NN m' := fun c hc i => I.nonneg c (by rw [← I.ok_eq]; exact hc) i
    have hunit' : ∀ v ∈ vertexOrder.getD (keys vr), ∃ d, aget vr v = some d ∧ UnitDem r0 d := by
      intro v hv
      have := (aget_isSome_iff vr v).2 (hknown v hv)
      cases hx : aget vr v with
      | none => simp [hx] at this
      | some d => exact ⟨d, rfl, hunit v d (aget_some_mem hx)⟩
    have hokc : ∀ c ∈ (chipOrder.getD m'.chips).filter m'.ok, m'.ok c = true := by
      intro c hc; exact (List.mem_filter.1 hc).2
    obtain ⟨pf, hpf⟩ := seqLoop_complete vr _ hnd hne fixed r0 (vertexOrder.getD (keys vr)) 0 m' fixed
      hokc hNN hunit' (fun v h => h) hsuff
    have hemp : ((chipOrder.getD m'.chips).filter m'.ok).isEmpty = false := by
      cases hx : (chipOrder.getD m'.chips).filter m'.ok with
      | nil => exact absurd hx hne
      | cons a t => rfl
    refine ⟨pf, ?_⟩
    cases vertexOrder with
    | none =>
      simp only [Option.getD_none] at hpf
      simp [hA, hprep, bind, Except.bind, pure, Except.pure, hemp, hpf, finalise, finaliseFrom]
    | some vo =>
      simp only [Option.getD_some] at hpf
      simp [hA, hprep, bind, Except.bind, substOrder, hemp, hpf, finalise, finaliseFrom]

/-- what the unit-demand hypotheses give before the placement loops start -/
private theorem unit_setup {vr : VR} {cs : List Constraint} {m m' : Machine} {fixed : Placement} {r0 : Nat}
    (hnodup : (keys vr).Nodup) (hcap : NonNegCap m)
    (hnosame : ∀ vs, Constraint.same vs ∉ cs)
    (hunit : ∀ v d, (v, d) ∈ vr → UnitDem r0 d)
    (hprep : prepareLoop vr cs m [] = .ok (m', fixed)) :
    applySame vr cs = .ok (vr, cs, []) ∧ NN m' ∧
    (∀ v ∈ keys vr, ∃ d, aget vr v = some d ∧ UnitDem r0 d) ∧ ∀ c, m'.ok c = m.ok c := by
  have hA : applySame vr cs = .ok (vr, cs, []) := applySameLoop_noSame vr cs [] hnosame _ _
  have hnn : NonNegVR vr := by
    intro v d hvd i
    have hu := hunit v d hvd
    by_cases e : i = r0
    · subst e; rcases hu.2 with h | h <;> omega
    · rw [hu.1 i e]; omega
  have I := inv_after_prepare hnodup hnn hcap hprep
  refine ⟨hA, fun c hc => I.nonneg c (by rw [← I.ok_eq]; exact hc), fun v hv => ?_, I.ok_eq⟩
  have := (aget_isSome_iff vr v).2 hv
  cases hx : aget vr v with
  | none => simp [hx] at this
  | some d => exact ⟨d, rfl, hunit v d (aget_some_mem hx)⟩

/-- **Completeness (random placer) under the unit-demand hypothesis.**  Same hypotheses as
`seqPlace_complete_unit` (the chip list is `list(machine)`): for EVERY sequence of draws the random
placer succeeds - the only other outcome of the model is `BadOracle`, i.e. the sequence of draws is
not one the RNG can produce (a chip outside the remaining candidates, or too few draws). -/
theorem randPlace_complete_unit (vr : VR) (cs : List Constraint) (m m' : Machine) (fixed : Placement)
    (picks : List Chip) (r0 : Nat)
    (hnodup : (keys vr).Nodup) (hcap : NonNegCap m)
    (hnosame : ∀ vs, Constraint.same vs ∉ cs)
    (hunit : ∀ v d, (v, d) ∈ vr → UnitDem r0 d)
    (hprep : prepareLoop vr cs m [] = .ok (m', fixed))
    (hne : m'.chips ≠ [])
    (hsuff : needOf fixed vr r0 (keys vr) ≤ total m' m'.chips r0) :
    (∃ p, randPlace vr cs m picks = .ok p) ∨ randPlace vr cs m picks = .error .badOracle := by
  obtain ⟨hA, hNN, hunit', _⟩ := unit_setup hnodup hcap hnosame hunit hprep
  unfold randPlace
  simp only [hA, hprep, bind, Except.bind]
  rw [needOf_filter] at hsuff
  cases hL : randLoop vr picks (List.filter (fun v => !(aget fixed v).isSome) (keys vr)) m'.chips m' fixed with
  | ok pf => left; exact ⟨pf, by simp [finalise, finaliseFrom]⟩
  | error e =>
    right
    have := randLoop_complete vr r0 picks _ _ _ _ e (chips_nodup m') hne
      (fun c hc => (mem_chips_iff m' c).1 hc) hNN
      (fun v hv => hunit' v (List.mem_filter.1 hv).1) hsuff hL
    subst this; rfl

/-- **Completeness (annealer's initial placement) under the unit-demand hypothesis.**  Same
hypotheses; for EVERY outcome of the two shuffles (`locs` a permutation of `list(machine)`, `vs` a
permutation of the movable vertices) the initial placement - which is what `sa.place` returns on the
trivial-solution path and what the kernel starts from - succeeds. -/
theorem saPlace_initial_complete_unit (vr : VR) (cs : List Constraint) (m m' : Machine) (fixed : Placement)
    (locs : List Chip) (vs : List Vtx) (r0 : Nat)
    (hnodup : (keys vr).Nodup) (hcap : NonNegCap m)
    (hnosame : ∀ vs, Constraint.same vs ∉ cs)
    (hunit : ∀ v d, (v, d) ∈ vr → UnitDem r0 d)
    (hprep : prepareLoop vr cs m [] = .ok (m', fixed))
    (hlocs : locs.Perm m'.chips)
    (hvs : vs.Perm ((keys vr).filter fun v => !(aget fixed v).isSome))
    (hne : m'.chips ≠ [])
    (hsuff : needOf fixed vr r0 (keys vr) ≤ total m' m'.chips r0) :
    ∃ p, saPlace vr cs m locs vs none = .ok (p, []) := by
  obtain ⟨hA, hNN, hunit', _⟩ := unit_setup hnodup hcap hnosame hunit hprep
  unfold saPlace
  split
  · exact ⟨[], rfl⟩
  · simp only [hA, hprep, bind, Except.bind, pure, Except.pure]
    rw [needOf_filter, ← needOf_perm _ _ _ hvs, ← total_perm m' r0 hlocs] at hsuff
    have hnd : locs.Nodup := (List.Perm.nodup_iff hlocs).2 (chips_nodup m')
    have hok : ∀ c ∈ locs, m'.ok c = true := fun c hc => (mem_chips_iff m' c).1 ((List.Perm.mem_iff hlocs).1 hc)
    cases locs with
    | nil => exact absurd (List.Perm.eq_nil (List.Perm.symm hlocs)) hne
    | cons c0 rest =>
      obtain ⟨out, hout⟩ := initLoop_complete vr r0 vs c0 rest m' [] hnd (hok c0 (by simp))
        (fun c hc => hok c (by simp [hc])) hNN
        (fun v hv => hunit' v (List.mem_filter.1 ((List.Perm.mem_iff hvs).1 hv)).1) hsuff
      obtain ⟨m'', init⟩ := out
      simp only [initialPlacement, hout]
      exact ⟨mergeP init fixed, by simp [finalise, finaliseFrom, mergeP]⟩

/-- **Completeness (annealer with the Python kernel, whole run) under the unit-demand hypothesis.**
Same hypotheses; for EVERY outcome of the shuffles and EVERY proposal list over the vertices
`sa.place` succeeds (`BadOracle`: the proposal list is not a possible sequence of draws). -/
theorem saPlace_complete_unit (vr : VR) (cs : List Constraint) (m m' : Machine) (fixed : Placement)
    (locs : List Chip) (vs : List Vtx) (steps : Option (List Step)) (r0 : Nat)
    (hnodup : (keys vr).Nodup) (hcap : NonNegCap m)
    (hnosame : ∀ vs, Constraint.same vs ∉ cs)
    (hunit : ∀ v d, (v, d) ∈ vr → UnitDem r0 d)
    (hprep : prepareLoop vr cs m [] = .ok (m', fixed))
    (hlocs : locs.Perm m'.chips)
    (hvs : vs.Perm ((keys vr).filter fun v => !(aget fixed v).isSome))
    (hne : m'.chips ≠ [])
    (hsuff : needOf fixed vr r0 (keys vr) ≤ total m' m'.chips r0)
    (hsteps : ∀ sts, steps = some sts → ∀ st ∈ sts, st.src ∈ keys vr) :
    (∃ p fl, saPlace vr cs m locs vs steps = .ok (p, fl)) ∨
      saPlace vr cs m locs vs steps = .error .badOracle := by
  obtain ⟨p, hp⟩ := saPlace_initial_complete_unit vr cs m m' fixed locs vs r0 hnodup hcap hnosame hunit hprep
    hlocs hvs hne hsuff
  cases steps with
  | none => exact Or.inl ⟨p, [], hp⟩
  | some sts =>
    obtain ⟨hA, hNN, hunit', _⟩ := unit_setup hnodup hcap hnosame hunit hprep
    have hnn : NonNegVR vr := by
      intro v d hvd i
      have hu := hunit v d hvd
      by_cases e : i = r0
      · subst e; rcases hu.2 with h | h <;> omega
      · rw [hu.1 i e]; omega
    unfold saPlace at hp ⊢
    split at hp
    · rename_i h0; simp only [h0, if_true]; exact Or.inl ⟨[], [], rfl⟩
    · rename_i h0
      simp only [h0, if_false]
      simp only [hA, hprep, bind, Except.bind, pure, Except.pure] at hp ⊢
      cases hI : initialPlacement vr m' locs vs with
      | error e' => simp [hI] at hp
      | ok r3 =>
        obtain ⟨m'', init⟩ := r3
        simp only [hI]
        have hp0 : List.foldl (fun q (vc : Vtx × Chip) => aset q vc.1 vc.2) init fixed = mergeP init fixed := rfl
        rw [hp0]
        obtain ⟨I, hmono, hall⟩ := sa_initial_facts (cs' := cs) hnodup hnn hcap hprep hI (by
          intro v hv
          cases hx : aget fixed v with
          | none => exact Or.inl ((List.Perm.mem_iff hvs).2 (by simp [List.mem_filter, hv, hx]))
          | some c => exact Or.inr ((aget_isSome_iff fixed v).1 (by simp [hx])))
        obtain ⟨l2v, hL⟩ := mkL2v_ok m'' (mergeP init fixed) (m''.chips.map fun c => (c, []))
          (by
            intro vc hvc
            have hok : m''.ok vc.2 = true := by
              rw [I.ok_eq]; exact I.pok vc.1 vc.2 ((mem_iff_aget I.pnodup vc.1 vc.2).1 hvc)
            simp only [keys, List.map_map, List.mem_map, Function.comp]
            exact ⟨vc.2, (mem_chips_iff m'' vc.2).2 hok, rfl⟩)
        have hL' : mkL2v m'' (mergeP init fixed) = .ok l2v := hL
        simp only [hL']
        have J0 := SAInv.start (keys fixed) I hL'
        cases hR : saRun vr (keys fixed) sts { m := m'', p := mergeP init fixed, l2v := l2v } [] with
        | error e' =>
          right
          have := SAInv.run_doc hnodup I.pvr sts _ _ _ J0
            (fun st hst => (aget_isSome_iff _ _).1 (hall _ (hsteps sts rfl st hst))) hR
          subst this; rfl
        | ok r4 =>
          obtain ⟨s, fl'⟩ := r4
          left
          exact ⟨s.p, fl', by simp [finalise, finaliseFrom]⟩

/-- **Completeness with the default chip order** (`list(machine)`: sequential and breadth-first
placers) - `seqPlace_complete_unit` with the hypotheses on the chip order discharged. -/
theorem seqPlace_complete_unit_default (vr : VR) (cs : List Constraint) (m m' : Machine) (fixed : Placement)
    (vertexOrder : Option (List Vtx)) (r0 : Nat)
    (hnodup : (keys vr).Nodup) (hcap : NonNegCap m)
    (hnosame : ∀ vs, Constraint.same vs ∉ cs)
    (hunit : ∀ v d, (v, d) ∈ vr → UnitDem r0 d)
    (hprep : prepareLoop vr cs m [] = .ok (m', fixed))
    (hknown : ∀ v ∈ vertexOrder.getD (keys vr), v ∈ keys vr)
    (hne : m'.chips ≠ [])
    (hsuff : needOf fixed vr r0 (vertexOrder.getD (keys vr)) ≤ total m' m'.chips r0) :
    ∃ p, seqPlace vr cs m vertexOrder none = .ok p := by
  have hmem : ∀ c, c ∈ m'.chips.filter m'.ok ↔ m'.ok c = true := by
    intro c
    rw [List.mem_filter, mem_chips_iff]
    exact ⟨fun h => h.2, fun h => ⟨h, h⟩⟩
  have hnd' : (m'.chips.filter m'.ok).Nodup := List.Nodup.sublist List.filter_sublist (chips_nodup m')
  apply seqPlace_complete_unit vr cs m m' fixed vertexOrder none r0 hnodup hcap hnosame hunit hprep hknown
  · simpa using hnd'
  · simp only [Option.getD_none]
    obtain ⟨c, hc⟩ := List.exists_mem_of_ne_nil _ hne
    intro e
    have := (hmem c).2 ((mem_chips_iff m' c).1 hc)
    rw [e] at this; simp at this
  · simp only [Option.getD_none]
    rw [total_cover m' r0 _ hnd' hmem]
    exact hsuff

/-! ### the Hilbert placer -/

/-- **The model of `hilbert(level)` is a Hilbert curve**: for EVERY level it visits every point of
the `2^level x 2^level` square, and no point twice (in particular it has no point with a negative
coordinate). -/
theorem hilbert_curve_exact (L : Nat) :
    (hilbertPts L).Nodup ∧
    ∀ q : Int × Int, q ∈ hilbertPts L ↔ 0 ≤ q.1 ∧ q.1 < 2 ^ L ∧ 0 ≤ q.2 ∧ q.2 < 2 ^ L :=
  hilbertPts_spec L

/-- **Hilbert chip-order coverage**: for EVERY `w x h` machine `hilbert_chip_order` lists every chip
of the machine, and no chip twice. -/
theorem hilbert_covers (w h : Nat) :
    (hilbertChips w h).Nodup ∧ ∀ x y, x < w → y < h → (x, y) ∈ hilbertChips w h :=
  hilbertChips_cover w h

/-- **Completeness of the Hilbert placer under the unit-demand hypothesis** - `seqPlace_complete_unit`
with the coverage hypotheses on the chip order discharged: the total is that of `list(machine)`. -/
theorem hilbertPlace_complete_unit (vr : VR) (cs : List Constraint) (m m' : Machine) (fixed : Placement)
    (vertexOrder : Option (List Vtx)) (r0 : Nat)
    (hnodup : (keys vr).Nodup) (hcap : NonNegCap m)
    (hnosame : ∀ vs, Constraint.same vs ∉ cs)
    (hunit : ∀ v d, (v, d) ∈ vr → UnitDem r0 d)
    (hprep : prepareLoop vr cs m [] = .ok (m', fixed))
    (hknown : ∀ v ∈ vertexOrder.getD (keys vr), v ∈ keys vr)
    (hne : m'.chips ≠ [])
    (hsuff : needOf fixed vr r0 (vertexOrder.getD (keys vr)) ≤ total m' m'.chips r0) :
    ∃ p, seqPlace vr cs m vertexOrder (some (hilbertChips m.w m.h)) = .ok p := by
  obtain ⟨_, _, _, hokeq⟩ := unit_setup hnodup hcap hnosame hunit hprep
  obtain ⟨hnd, hcov⟩ := hilbertChips_cover m.w m.h
  have hmem : ∀ c, c ∈ (hilbertChips m.w m.h).filter m'.ok ↔ m'.ok c = true := by
    intro c
    rw [List.mem_filter]
    constructor
    · exact fun h => h.2
    · intro h
      refine ⟨?_, h⟩
      have h' := h
      rw [hokeq] at h'
      simp only [Machine.ok, Bool.and_eq_true, decide_eq_true_eq] at h'
      exact hcov c.1 c.2 h'.1.1 h'.1.2
  have hnd' : ((hilbertChips m.w m.h).filter m'.ok).Nodup := List.Nodup.sublist List.filter_sublist hnd
  apply seqPlace_complete_unit vr cs m m' fixed vertexOrder (some (hilbertChips m.w m.h)) r0 hnodup hcap
    hnosame hunit hprep hknown
  · simpa using hnd'
  · simp only [Option.getD_some]
    obtain ⟨c, hc⟩ := List.exists_mem_of_ne_nil _ hne
    intro e
    have := (hmem c).2 ((mem_chips_iff m' c).1 hc)
    rw [e] at this; simp at this
  · simp only [Option.getD_some]
    rw [total_cover m' r0 _ hnd' hmem]
    exact hsuff

/-! ### non-vacuity: a problem with a same-chip group whose two members are both pinned (to the
same chip), a global reservation, a resource exception, a custom vertex order and chip order
satisfies every hypothesis, and both placers succeed on it -/
section example_
open Vtx Constraint

private def exVR : VR := [(o 0, [1, 0]), (o 1, [1, 2]), (o 2, [0, 1])]
private def exCS : List Constraint := [same [o 0, o 1], loc (o 1) (1, 0), reserve 1 1 none, loc (o 0) (1, 0)]
private def exM : Machine := { w := 2, h := 1, res := [5, 8], exc := [((0, 0), [1, 2])], dead := [] }

private theorem dem_nonneg_of_all (d : Res) (h : ∀ x ∈ d, 0 ≤ x) (i : Nat) : 0 ≤ dem d i := by
  induction d generalizing i with
  | nil => simp [dem]
  | cons x xs ih =>
    cases i with
    | zero => simpa [dem] using h x (by simp)
    | succ j => rw [dem_cons_succ]; exact ih (fun y hy => h y (by simp [hy])) j

private theorem exWF : WF exVR exCS exM where
  nodup := by decide
  original := by
    refine ⟨fun v hv => ?_, fun c hc => ?_⟩
    · simp [exVR, keys] at hv; rcases hv with rfl | rfl | rfl <;> trivial
    · simp [exCS] at hc
      rcases hc with rfl | rfl | rfl | rfl
      · intro v hv; simp at hv; rcases hv with rfl | rfl <;> trivial
      · trivial
      · trivial
      · trivial
  nonnegVR := by
    intro v d h i
    apply dem_nonneg_of_all
    simp [exVR] at h
    rcases h with ⟨_, rfl⟩ | ⟨_, rfl⟩ | ⟨_, rfl⟩ <;> intro x hx <;> simp at hx <;> omega
  nonnegCap := by
    intro c _ i
    apply dem_nonneg_of_all
    simp only [cap, exM, aget]
    split <;> intro x hx <;> simp at hx <;> omega

private theorem exCons : Consistent exVR exCS := by
  intro vr' cs' subs h
  have e : applySame exVR exCS = .ok ([(o 2, [0, 1]), (m 0, [2, 2])],
      [same [m 0, m 0], loc (m 0) (1, 0), reserve 1 1 none, loc (m 0) (1, 0)], [[o 0, o 1]]) := by rfl
  rw [e] at h; injection h with h; injection h with h1 h2; injection h2 with h2 h3
  subst h2
  intro v c c' hc hc'
  simp at hc hc'
  rw [hc.2, hc'.2]

private theorem exEmpty : EmptyOK exVR exCS exM := by
  intro h; simp [exVR] at h

example : Feasible exVR exCS exM [(o 2, (1, 0)), (o 0, (1, 0)), (o 1, (1, 0))] :=
  seqPlace_sound exVR exCS exM (some [o 2, o 1, o 0]) (some [(1, 0), (0, 0)]) _ exWF exCons exEmpty
    (by intro vo h v hv; injection h with h; subst h; simp [exVR, keys] at hv; rcases hv with rfl | rfl | rfl <;> simp)
    (by rfl)

example : Feasible exVR exCS exM [(o 2, (1, 0)), (o 0, (1, 0)), (o 1, (1, 0))] :=
  randPlace_sound exVR exCS exM [(1, 0), (0, 0)] _ exWF exCons (by rfl)

example : Feasible exVR exCS exM [(o 2, (0, 0)), (o 0, (1, 0)), (o 1, (1, 0))] :=
  saPlace_initial_sound exVR exCS exM [(0, 0), (1, 0)] [o 2] _ [] exWF exCons exEmpty
    (by
      intro vr' cs' subs m' fixed hA hP v hv
      have e : applySame exVR exCS = .ok ([(o 2, [0, 1]), (m 0, [2, 2])],
          [same [m 0, m 0], loc (m 0) (1, 0), reserve 1 1 none, loc (m 0) (1, 0)], [[o 0, o 1]]) := by rfl
      rw [e] at hA; injection hA with hA; injection hA with h1 h2; injection h2 with h2 h3
      subst h1; subst h2
      have e2 : prepareLoop [(o 2, [0, 1]), (m 0, [2, 2])]
          [same [m 0, m 0], loc (m 0) (1, 0), reserve 1 1 none, loc (m 0) (1, 0)] exM [] =
          .ok ({ exM with res := [5, 7], exc := [((0, 0), [1, 1]), ((1, 0), [1, 3])] }, [(m 0, (1, 0))]) := by rfl
      rw [e2] at hP; injection hP with hP; injection hP with h4 h5; subst h5
      simp [keys] at hv ⊢
      rcases hv with rfl | rfl <;> simp)
    (by rfl)

/-- the example problem lies in the domain of the only-documented-errors theorems -/
private theorem exDom : InDomain exVR exCS exM where
  known := by
    intro c hc
    simp [exCS] at hc
    rcases hc with rfl | rfl | rfl | rfl
    · intro v hv; simp at hv; rcases hv with rfl | rfl <;> simp [exVR, keys]
    · simp [CKnown, exVR, keys]
    · trivial
    · simp [CKnown, exVR, keys]
  excLen := by intro e he; simp [exM] at he; subst he; rfl
  resIdx := by
    intro r amt at_ h; simp [exCS] at h; obtain ⟨rfl, _, _⟩ := h; simp [exM]
  resOk := by intro r amt c h; simp [exCS] at h

/-- the hypotheses of the only-documented-errors theorems are satisfiable together -/
example (co : Option (List Chip)) (e : Err) (h : seqPlace exVR exCS exM none co = .error e) :
    e = .insufficient ∨ e = .invalidConstraint :=
  seqPlace_documented exVR exCS exM none co e exWF exCons exDom (by intro vo h; simp at h) h

example (co : Option (List Chip)) (e : Err) (h : seqPlace exVR exCS exM (some [o 2, o 0, o 1]) co = .error e) :
    e = .insufficient ∨ e = .invalidConstraint :=
  seqPlace_documented exVR exCS exM _ co e exWF exCons exDom
    (by intro vo h; injection h with h; subst h; exact ⟨by decide, by
      intro v; simp only [exVR, keys, List.map_cons, List.map_nil, List.mem_cons, List.not_mem_nil, or_false]
      constructor <;> (intro h; rcases h with h | h | h <;> simp [h])⟩) h

example (picks : List Chip) (e : Err) (h : randPlace exVR exCS exM picks = .error e) :
    e = .insufficient ∨ e = .invalidConstraint ∨ e = .badOracle :=
  randPlace_documented exVR exCS exM picks e exWF exCons exDom h

private theorem okEq {α : Type} [DecidableEq α] (x : M α) (a : α)
    (h : (match x with | .ok r => decide (r = a) | .error _ => false) = true) : x = .ok a := by
  cases x with
  | error e => simp at h
  | ok r => simp at h; rw [h]

/-- an annealing run with a swap that displaces a movable vertex (skipping the fixed one on the
destination chip), a reverted swap and an accepted one -/
private def saVR : VR := [(o 0, [1]), (o 1, [1]), (o 2, [1]), (o 3, [1])]
private def saM : Machine := { w := 2, h := 1, res := [2], exc := [], dead := [] }

example : Feasible saVR [loc (o 3) (1, 0)] saM [(o 0, (0, 0)), (o 1, (1, 0)), (o 2, (0, 0)), (o 3, (1, 0))] :=
  saPlace_sound saVR [loc (o 3) (1, 0)] saM [(0, 0), (1, 0)] [o 0, o 1, o 2]
    (some [⟨o 0, (1, 0), true⟩, ⟨o 1, (1, 0), false⟩, ⟨o 1, (1, 0), true⟩]) _ [true, true, true]
    ⟨by decide,
     ⟨fun v hv => by simp [saVR, keys] at hv; rcases hv with rfl | rfl | rfl | rfl <;> trivial,
      fun c hc => by simp at hc; subst hc; trivial⟩,
     by
      intro v d h i; apply dem_nonneg_of_all
      simp [saVR] at h
      rcases h with ⟨_, rfl⟩ | ⟨_, rfl⟩ | ⟨_, rfl⟩ | ⟨_, rfl⟩ <;> intro x hx <;> simp at hx <;> omega,
     by
      intro c _ i; apply dem_nonneg_of_all
      simp only [cap, saM, aget]; intro x hx; simp at hx; omega⟩
    (by
      intro vr' cs' subs h
      have e : applySame saVR [loc (o 3) (1, 0)] = .ok (saVR, [loc (o 3) (1, 0)], []) := by rfl
      rw [e] at h; injection h with h; injection h with h1 h2; injection h2 with h2 h3
      subst h2
      intro v c c' hc hc'
      simp at hc hc'
      rw [hc.2, hc'.2])
    (by intro h; simp [saVR] at h)
    (by
      intro vr' cs' subs m' fixed hA hP v hv
      have e : applySame saVR [loc (o 3) (1, 0)] = .ok (saVR, [loc (o 3) (1, 0)], []) := by rfl
      rw [e] at hA; injection hA with hA; injection hA with h1 h2; injection h2 with h2 h3
      subst h1; subst h2
      have e2 : prepareLoop saVR [loc (o 3) (1, 0)] saM [] =
          .ok ({ saM with exc := [((1, 0), [1])] }, [(o 3, (1, 0))]) := by rfl
      rw [e2] at hP; injection hP with hP; injection hP with h4 h5; subst h5
      simp [keys, saVR] at hv ⊢
      rcases hv with rfl | rfl | rfl | rfl <;> simp)
    (okEq _ _ (by decide +kernel))

private theorem exPrefix {vr' : VR} {cs' : List Constraint} {subs : List (List Vtx)} {m' : Machine} {fixed : Placement}
    (hA : applySame exVR exCS = .ok (vr', cs', subs)) (hP : prepareLoop vr' cs' exM [] = .ok (m', fixed)) :
    vr' = [(o 2, [0, 1]), (m 0, [2, 2])] ∧ fixed = [(m 0, (1, 0))] := by
  have e : applySame exVR exCS = .ok ([(o 2, [0, 1]), (m 0, [2, 2])],
      [same [m 0, m 0], loc (m 0) (1, 0), reserve 1 1 none, loc (m 0) (1, 0)], [[o 0, o 1]]) := by rfl
  rw [e] at hA; injection hA with hA; injection hA with h1 h2; injection h2 with h2 h3
  subst h1; subst h2
  have e2 : prepareLoop [(o 2, [0, 1]), (m 0, [2, 2])]
      [same [m 0, m 0], loc (m 0) (1, 0), reserve 1 1 none, loc (m 0) (1, 0)] exM [] =
      .ok ({ exM with res := [5, 7], exc := [((0, 0), [1, 1]), ((1, 0), [1, 3])] }, [(m 0, (1, 0))]) := by rfl
  rw [e2] at hP; injection hP with hP; injection hP with h4 h5
  exact ⟨rfl, h5.symm⟩

/-- the hypotheses of the whole-run only-documented-errors theorem are satisfiable together -/
example (e : Err)
    (h : saPlace exVR exCS exM [(0, 0), (1, 0)] [o 2] (some [⟨o 2, (1, 0), true⟩, ⟨o 2, (0, 0), false⟩]) = .error e) :
    e = .insufficient ∨ e = .invalidConstraint ∨ e = .badOracle :=
  saPlace_documented exVR exCS exM _ _ _ e exWF exCons exDom
    (by intro c hc; simp at hc; rcases hc with rfl | rfl <;> rfl)
    (by
      intro vr' cs' subs m' fixed hA hP
      obtain ⟨rfl, rfl⟩ := exPrefix hA hP
      simp [keys])
    (by
      intro sts hs vr' cs' subs hA st hst
      injection hs with hs; subst hs
      have e : applySame exVR exCS = .ok ([(o 2, [0, 1]), (m 0, [2, 2])],
          [same [m 0, m 0], loc (m 0) (1, 0), reserve 1 1 none, loc (m 0) (1, 0)], [[o 0, o 1]]) := by rfl
      rw [e] at hA; injection hA with hA; injection hA with h1 h2
      subst h1
      simp at hst
      rcases hst with rfl | rfl <;> simp [keys])
    h

/-- the specification is not trivially true: the same problem with every vertex on the small chip -/
example : ¬ Feasible exVR exCS exM [(o 2, (0, 0)), (o 0, (0, 0)), (o 1, (0, 0))] := by
  rw [← validPlacement_iff]; decide

private def unVR : VR := [(o 0, [1]), (o 1, [1]), (o 2, [0])]
private def unCS : List Constraint := [loc (o 0) (0, 0), reserve 0 1 none]
private def unM : Machine := { w := 2, h := 1, res := [2], exc := [], dead := [] }

/-- the hypotheses of the completeness theorem hold for a problem in which the capacity is used up
exactly (one free unit left for the one movable vertex that needs a unit) -/
example : ∃ p, seqPlace unVR unCS unM none none = .ok p :=
  seqPlace_complete_unit unVR unCS unM { unM with res := [1], exc := [((0, 0), [0])] } [(o 0, (0, 0))]
    none none 0 (by decide)
    (by
      intro c _ i; apply dem_nonneg_of_all
      simp only [cap, unM, aget]; intro x hx; simp at hx; omega)
    (by intro vs h; simp [unCS] at h)
    (by
      intro v d h
      simp [unVR] at h
      rcases h with ⟨_, rfl⟩ | ⟨_, rfl⟩ | ⟨_, rfl⟩
      all_goals
        refine ⟨fun i hi => ?_, by simp [dem]⟩
        cases i with
        | zero => exact absurd rfl hi
        | succ j => simp [dem])
    (by rfl) (by intro v hv; exact hv) (by decide) (by decide) (by decide)

private theorem unCapNN : NonNegCap unM := by
  intro c _ i; apply dem_nonneg_of_all
  simp only [cap, unM, aget]; intro x hx; simp at hx; omega

private theorem unUnit : ∀ v d, (v, d) ∈ unVR → UnitDem 0 d := by
  intro v d h
  simp [unVR] at h
  rcases h with ⟨_, rfl⟩ | ⟨_, rfl⟩ | ⟨_, rfl⟩
  all_goals
    refine ⟨fun i hi => ?_, by simp [dem]⟩
    cases i with
    | zero => exact absurd rfl hi
    | succ j => simp [dem]

/-- the same tight problem satisfies the hypotheses of the completeness theorems of the random placer
and of the annealer's initial placement -/
example (picks : List Chip) :
    (∃ p, randPlace unVR unCS unM picks = .ok p) ∨ randPlace unVR unCS unM picks = .error .badOracle :=
  randPlace_complete_unit unVR unCS unM { unM with res := [1], exc := [((0, 0), [0])] } [(o 0, (0, 0))]
    picks 0 (by decide) unCapNN (by intro vs h; simp [unCS] at h) unUnit (by rfl) (by decide) (by decide)

example : ∃ p, saPlace unVR unCS unM [(1, 0), (0, 0)] [o 2, o 1] none = .ok (p, []) :=
  saPlace_initial_complete_unit unVR unCS unM { unM with res := [1], exc := [((0, 0), [0])] } [(o 0, (0, 0))]
    [(1, 0), (0, 0)] [o 2, o 1] 0 (by decide) unCapNN (by intro vs h; simp [unCS] at h) unUnit (by rfl)
    (by decide) (by decide) (by decide) (by decide)

/-- the Hilbert order of a 3 x 2 machine (level 2: the curve of the 4 x 4 square) -/
example : hilbertChips 3 2 = [(0, 0), (1, 0), (1, 1), (0, 1), (0, 2), (0, 3), (1, 3), (1, 2), (2, 2), (2, 3),
    (3, 3), (3, 2), (3, 1), (2, 1), (2, 0), (3, 0)] := by decide

example : ∃ p, seqPlace unVR unCS unM none (some (hilbertChips unM.w unM.h)) = .ok p :=
  hilbertPlace_complete_unit unVR unCS unM { unM with res := [1], exc := [((0, 0), [0])] } [(o 0, (0, 0))]
    none 0 (by decide) unCapNN (by intro vs h; simp [unCS] at h) unUnit (by rfl) (by intro v hv; exact hv)
    (by decide) (by decide)

example : (∃ p fl, saPlace unVR unCS unM [(1, 0), (0, 0)] [o 2, o 1] (some [⟨o 1, (0, 0), true⟩]) = .ok (p, fl)) ∨
    saPlace unVR unCS unM [(1, 0), (0, 0)] [o 2, o 1] (some [⟨o 1, (0, 0), true⟩]) = .error .badOracle :=
  saPlace_complete_unit unVR unCS unM { unM with res := [1], exc := [((0, 0), [0])] } [(o 0, (0, 0))]
    [(1, 0), (0, 0)] [o 2, o 1] _ 0 (by decide) unCapNN (by intro vs h; simp [unCS] at h) unUnit (by rfl)
    (by decide) (by decide) (by decide) (by decide)
    (by intro sts h st hst; injection h with h; subst h; simp at hst; subst hst; simp [unVR, keys])

end example_

end Rig.C02
