/-
C02 - placers return a feasible placement or fail with a documented error.
-/
import RigModel.Model.C02
set_option linter.unusedSimpArgs false
set_option linter.unusedVariables false

namespace Rig.C02

theorem over_nil : over [] = false := rfl

end Rig.C02
