/-
C14 - translator tie: the generator `_get_minimal_core_reservations` (rig/place_and_route/utils.py) is
regenerated from the source into `Gen/PyFun.lean` (the pending `reservation` - `None` or a slice - is an optional
pair threaded through the `for` loop; each yielded `ReserveResourceConstraint(core_resource, reservation, chip)` is
represented by its slice, `core_resource` and `chip` being opaque objects passed through) and proved equal to the
model's `minimalRes` (Model/C14.lean), for every list of core numbers.
-/
import RigModel.Model.C14
import RigModel.Gen.PyFun
set_option linter.unusedSimpArgs false
set_option linter.unusedVariables false
set_option linter.unusedTactic false
set_option linter.unreachableTactic false

namespace Rig.C14
open Rig.Gen

/-- the slice of a reservation as the Python pair `(start, stop)` -/
def resSlice (r : Reservation) : Int × Int := ((r.start : Int), (r.stop : Int))

/-- the pending reservation as the Python value -/
def pendI : Option (Nat × Nat) → Option (Int × Int)
  | none => none
  | some (s, e) => some ((s : Int), (e : Int))

/-- the flush after the loop: `if reservation is not None: yield ...` -/
def finish (st : Option (Int × Int) × List (Int × Int)) : List (Int × Int) :=
  match st.1 with
  | some v => st.2 ++ [v]
  | none => st.2

/-- one core number: the generated loop body advances the pending reservation and yields like `minimalRes` -/
theorem res_step (st : Option (Nat × Nat)) (out : List (Int × Int)) (c : Nat) :
    PyFun.get_minimal_core_reservations_loop1 (pendI st, out) (c : Int)
      = match st with
        | none => (pendI (some (c, c + 1)), out)
        | some (s, e) => if e = c then (pendI (some (s, c + 1)), out)
                         else (pendI (some (c, c + 1)), out ++ [((s : Int), (e : Int))]) := by
  unfold PyFun.get_minimal_core_reservations_loop1
  cases st with
  | none => simp [pendI]
  | some se =>
    obtain ⟨s, e⟩ := se
    by_cases h : e = c
    · subst h
      simp [pendI]
    · have t1 : ¬ ((e : Int) = (c : Int)) := by omega
      have t2 : ¬ ((c : Int) = (e : Int)) := by omega
      simp [pendI, h, t1, t2]

theorem res_loop (chip : Option (Nat × Nat)) : ∀ (cs : List Nat) (st : Option (Nat × Nat)) (out : List (Int × Int)),
    finish ((cs.map (fun (c : Nat) => (c : Int))).foldl PyFun.get_minimal_core_reservations_loop1 (pendI st, out))
      = out ++ (minimalRes chip cs st).map resSlice
  | [], none, out => by simp [finish, pendI, minimalRes]
  | [], some (s, e), out => by simp [finish, pendI, minimalRes, resSlice]
  | c :: cs, none, out => by
    rw [List.map_cons, List.foldl_cons, res_step, minimalRes]
    exact res_loop chip cs _ _
  | c :: cs, some (s, e), out => by
    rw [List.map_cons, List.foldl_cons, res_step, minimalRes]
    by_cases h : e = c
    · simp only [h, if_true]
      exact res_loop chip cs _ _
    · simp only [h, if_false]
      rw [res_loop chip cs _ _]
      simp [resSlice]

/-- `_get_minimal_core_reservations` as written in the source: the slices of the constraints it yields are the
model's `minimalRes`, for every list of core numbers (ascending or not) and any chip -/
theorem gen_minimal_core_reservations (chip : Option (Nat × Nat)) (cores : List Nat) :
    PyFun.get_minimal_core_reservations (cores.map (fun (c : Nat) => (c : Int)))
      = (minimalRes chip cores none).map resSlice := by
  unfold PyFun.get_minimal_core_reservations
  have := res_loop chip cores none []
  simp only [pendI, List.nil_append] at this
  rw [← this]
  unfold finish
  dsimp only
  generalize List.foldl _ _ _ = r
  obtain ⟨p, o⟩ := r
  cases p <;> rfl

end Rig.C14
