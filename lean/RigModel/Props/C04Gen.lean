/-
C04 - translator tie: the bodies of `intersect` (rig/routing_table/utils.py) and `_get_generality`
(rig/routing_table/ordered_covering.py) are regenerated from the source into `Gen/PyFun.lean`
(Python ints -> `Int`, `&` / `~` -> Mathlib's two's-complement `Int.land` / `Int.lnot`); here they are
proved EQUAL to the model's 32-bit `intersect` / `generality` on the Python ints of 32-bit words.
The proofs are semantic (bit-wise), so a harmless rewrite of the source (`~(key | mask)`, swapped
operands) still proves while a change of meaning breaks the obligation.
Likewise the methods of the `Routes` enumeration (rig/routing_table/entries.py: `is_link`, `is_core`,
`core_num`, `opposite`, `core`), `self` being the member's integer value, against Model/C04U.lean.
Second round: `get_common_xs` (rig/routing_table/utils.py; a `for` loop over the entries, its body the generated
definition `get_common_xs_loop1`) = `commonXs`; `_get_insertion_index` (ordered_covering.py: a nested `def`, list
indexing with its IndexError, a binary-search `while` loop and a scanning `while` loop whose condition can raise) =
`insertionIndex` for every fuel larger than the table - neither IndexError nor fuel exhaustion is reachable.
-/
import RigModel.Model.C04U
import RigModel.Gen.PyFun
import RigModel.Lemmas.IntBits
import RigModel.Lemmas.PyLoops
import Mathlib.Tactic.SplitIfs
set_option linter.unusedSimpArgs false
set_option linter.unusedVariables false
set_option linter.unusedTactic false
set_option linter.unreachableTactic false

namespace Rig.C04
open Rig.Gen Rig.IntBits Rig.PyLoops

/-- the Python int of a 32-bit word -/
abbrev wi (k : W) : Int := ((k.toNat : Nat) : Int)

theorem wi_inj {a b : W} : wi a = wi b ↔ a = b := by
  simp only [wi, Int.natCast_inj, BitVec.toNat_inj]

theorem wi_testBit (k : W) (i : Nat) : (wi k).testBit i = k.getLsbD i := by
  simp only [wi, testBit_natCast, BitVec.testBit_toNat]

/-- `intersect` as written in the source = the model -/
theorem gen_intersect (ka ma kb mb : W) :
    PyFun.intersect (wi ka) (wi ma) (wi kb) (wi mb) = intersect ka ma kb mb := by
  simp only [PyFun.intersect, intersect, wi, land_natCast, lor_natCast, xor_natCast, ← BitVec.toNat_and,
    ← BitVec.toNat_or, ← BitVec.toNat_xor, Int.natCast_inj, BitVec.toNat_inj]
  first
  | rfl
  | (rw [Bool.eq_iff_iff]; simp only [decide_eq_true_eq, beq_iff_eq]
     constructor <;> intro h <;> ext i hi <;> have := congrArg (fun t => BitVec.getLsbD t i) h <;>
       simp at this ⊢ <;> grind)

/-- `_get_generality` as written in the source (`~key & ~mask` on unbounded ints, bits 0..31 counted)
= the model's popcount of the 32-bit complement -/
theorem gen_get_generality (k m : W) :
    PyFun.get_generality (wi k) (wi m) = ((generality k m : Nat) : Int) := by
  simp only [PyFun.get_generality, generality, popcount, Int.natCast_inj]
  apply List.countP_congr
  intro i hi
  have hi : i < 32 := List.mem_range.mp hi
  simp only [Int.toNat_natCast, decide_eq_true_eq, land_one_shiftLeft_ne_zero, Int.testBit_land, Int.testBit_lor,
    Int.testBit_lxor, Int.testBit_lnot, wi_testBit, BitVec.getLsbD_and, BitVec.getLsbD_or, BitVec.getLsbD_xor,
    BitVec.getLsbD_not, hi, decide_true, Bool.true_and]
  try first
    | rfl
    | (cases k.getLsbD i <;> cases m.getLsbD i <;> simp)

/-! ### entries.py: the methods of `Routes` -/

/-- a result of the model as the Python outcome: member value / name of the exception -/
def excInt : Except RErr Nat → Except String Int
  | .ok v => .ok (v : Int)
  | .error .valueError => .error "ValueError"

/-- `Routes(v)` in closed form -/
theorem routesOfValue_eq (v : Nat) : routesOfValue v = if v < 24 then .ok v else .error .valueError := by
  by_cases h : v < 24
  · rw [if_pos h]; revert v; decide
  · rw [if_neg h]
    simp only [routesOfValue, Rig.Gen.C04Routes.members, List.map_cons, List.map_nil, List.contains_eq_mem,
      List.mem_cons, List.mem_nil_iff, or_false, decide_eq_true_eq]
    rw [if_neg (by omega)]

/-- membership of a `Routes` value, as the translator writes the enum lookup -/
theorem contains24 (v : Int) :
    ([0, 1, 2, 3, 4, 5, 6, 7, 8, 9, 10, 11, 12, 13, 14, 15, 16, 17, 18, 19, 20, 21, 22, 23] : List Int).contains v
      = decide (0 ≤ v ∧ v < 24) := by
  rw [Bool.eq_iff_iff]
  simp only [List.contains_eq_mem, List.mem_cons, List.mem_nil_iff, or_false, decide_eq_true_eq]
  omega

/-- both sides are if-chains over linear conditions with leaves `.ok e` / `.error s`: split and decide -/
macro "exc_ifs" : tactic => `(tactic|
  (try simp only [excInt, apply_ite excInt, routesOfValue_eq, contains24, isCore, isLink, Bool.not_eq_true',
      Bool.not_eq_true, decide_eq_true_eq, decide_eq_false_iff_not, Bool.decide_eq_true, Bool.not_not,
      Int.fmod_eq_emod_of_nonneg _ (by decide : (0 : Int) ≤ 6)]
   try split_ifs
   all_goals first
     | rfl
     | omega
     | (refine congrArg Except.ok ?_; omega)
     | (rw [Bool.eq_iff_iff]; simp only [decide_eq_true_eq, Bool.not_eq_true', decide_eq_false_iff_not]; omega)))

/-- `Routes.is_link` as written in the source = the model -/
theorem gen_routes_is_link (r : Nat) : PyFun.Routes_is_link r = isLink r := by
  simp only [PyFun.Routes_is_link]
  exc_ifs

/-- `Routes.is_core` as written in the source = the model -/
theorem gen_routes_is_core (r : Nat) : PyFun.Routes_is_core r = isCore r := by
  simp only [PyFun.Routes_is_core, PyFun.Routes_is_link]
  exc_ifs

/-- `Routes.core_num` as written in the source = the model -/
theorem gen_routes_core_num (r : Nat) : PyFun.Routes_core_num r = excInt (coreNum r) := by
  simp only [PyFun.Routes_core_num, PyFun.Routes_is_core, PyFun.Routes_is_link, coreNum]
  exc_ifs

/-- `Routes.opposite` as written in the source = the model -/
theorem gen_routes_opposite (r : Nat) : PyFun.Routes_opposite r = excInt (routeOpposite r) := by
  simp only [PyFun.Routes_opposite, PyFun.Routes_is_core, PyFun.Routes_is_link, routeOpposite]
  exc_ifs

/-- `Routes.core` as written in the source = the model -/
theorem gen_routes_core (num : Int) : PyFun.Routes_core num = excInt (routesCore num) := by
  simp only [PyFun.Routes_core, routesCore]
  exc_ifs

/-! ### utils.py: `get_common_xs` (a `for` loop over the entries) -/

/-- the Python view of an entry for `get_common_xs`: the ints `(entry.key, entry.mask)` -/
def kmInt (e : Entry) : Int × Int := (wi e.key, wi e.mask)

theorem wi_lor (a b : W) : Int.lor (wi a) (wi b) = wi (a ||| b) := by
  simp only [wi, lor_natCast, BitVec.toNat_or]

theorem common_loop1 (a b : W) (e : Entry) :
    PyFun.get_common_xs_loop1 (wi a, wi b) (kmInt e) = (wi (a ||| e.key), wi (b ||| e.mask)) := by
  unfold PyFun.get_common_xs_loop1 kmInt
  dsimp only
  simp only [wi_lor, Prod.mk.injEq, wi_inj]
  try (constructor <;> first
    | rfl
    | trivial
    | (apply BitVec.eq_of_getLsbD_eq; intro i hi
       simp only [BitVec.getLsbD_or, BitVec.getLsbD_and, BitVec.getLsbD_xor]; grind))

theorem common_fold (T : List Entry) : ∀ (a b : W),
    (T.map kmInt).foldl PyFun.get_common_xs_loop1 (wi a, wi b)
      = (wi (T.foldl (fun a e => a ||| e.key) a), wi (T.foldl (fun a e => a ||| e.mask) b)) := by
  induction T with
  | nil => intro a b; rfl
  | cons e t ih =>
    intro a b
    rw [List.map_cons, List.foldl_cons, common_loop1, ih]
    rfl

theorem testBit_mask32 (i : Nat) : (4294967295 : Int).testBit i = decide (i < 32) := by
  have : (4294967295 : Int) = ((2 ^ 32 - 1 : Nat) : Int) := by decide
  rw [this, testBit_natCast, Nat.testBit_two_pow_sub_one]

/-- `get_common_xs` as written in the source = the model's `commonXs`, on the Python ints of 32-bit words -/
theorem gen_get_common_xs (T : List Entry) : PyFun.get_common_xs (T.map kmInt) = wi (commonXs T) := by
  unfold PyFun.get_common_xs commonXs
  have h0 : (0 : Int) = wi 0 := rfl
  dsimp only
  rw [h0, common_fold]
  dsimp only
  apply eq_of_testBit_eq
  intro i
  simp only [Int.testBit_land, Int.testBit_lor, Int.testBit_lnot, Int.testBit_lxor, testBit_mask32, wi_testBit,
    BitVec.getLsbD_not, BitVec.getLsbD_or]
  by_cases hi : i < 32 <;> simp [hi]

/-! ### ordered_covering.py: `_get_insertion_index` (binary search + forward scan: two `while` loops, list indexing) -/

/-- reading an entry of the table the Python way -/
theorem pyGet_kmInt (T : List Entry) (p : Nat) (hp : p < T.length) :
    PyFun.pyGet (T.map kmInt) (p : Int) = .ok (kmInt T[p]) := by
  unfold PyFun.pyGet
  have h1 : ¬ ((p : Int) < 0) := by omega
  simp only [h1, if_false, Int.toNat_natCast, List.getElem?_map, List.getElem?_eq_getElem hp, Option.map_some]

/-- `gg(entry)` of the source on an entry of the model -/
theorem gg_kmInt (e : Entry) : PyFun.get_generality (kmInt e).1 (kmInt e).2 = ((e.gen : Nat) : Int) :=
  gen_get_generality e.key e.mask

/-- the state of the binary search as the generated loop sees it -/
def bsState (T : List Entry) (b t p : Nat) (hp : p < T.length) :
    Bool × Option (Except String Int) × Int × Int × Int × Int :=
  (false, none, (b : Int), (t : Int), (p : Int), ((T[p].gen : Nat) : Int))

theorem bs_cond (T : List Entry) (g b t p : Nat) (hp : p < T.length) :
    PyFun.get_insertion_index_loop1_cond ((g : Int) - 1) (bsState T b t p hp)
      = decide (T[p].gen + 1 ≠ g ∧ b < p ∧ p < t) := by
  unfold PyFun.get_insertion_index_loop1_cond bsState
  simp only [Bool.not_false, Bool.true_and]
  rw [Bool.eq_iff_iff]
  simp only [decide_eq_true_eq]
  omega

theorem fdiv2 (a : Int) : Int.fdiv a 2 = a / 2 := Int.fdiv_eq_ediv_of_nonneg a (by decide)

/-- reading an entry at any in-range Python index expression -/
theorem pyGet_kmInt' (T : List Entry) (z : Int) (h0 : 0 ≤ z) (h1 : z.toNat < T.length) :
    PyFun.pyGet (T.map kmInt) z = .ok (kmInt (T[z.toNat]'h1)) := by
  have := pyGet_kmInt T z.toNat h1
  rwa [Int.toNat_of_nonneg h0] at this

/-- closes `generated next state = bsState ...`: the position by arithmetic, the entry read by the position -/
macro "bs_next" : tactic => `(tactic|
  (simp only [fdiv2]
   rw [pyGet_kmInt' _ _ (by omega) (by omega)]
   simp only [gg_kmInt, bsState, Prod.mk.injEq, true_and]
   refine ⟨by omega, ?_⟩
   congr 3
   omega))

/-- one round of the binary search: the generated body does what the model's `bsLoop` does -/
theorem bs_body (T : List Entry) (g b t p : Nat) (hp : p < T.length) (ht : t ≤ T.length)
    (hc : T[p].gen + 1 ≠ g ∧ b < p ∧ p < t) :
    PyFun.get_insertion_index_loop1 (T.map kmInt) ((g : Int) - 1) (bsState T b t p hp)
      = if T[p].gen + 1 < g
        then bsState T p t (p + (t - p) / 2) (by omega)
        else bsState T b p (b + (p - b) / 2) (by omega) := by
  unfold PyFun.get_insertion_index_loop1
  rw [bsState]
  dsimp only
  by_cases hlt : T[p].gen + 1 < g
  · have h1 : ((T[p].gen : Nat) : Int) < (g : Int) - 1 := by omega
    simp only [h1, hlt, if_true]
    bs_next
  · have h1 : ¬ (((T[p].gen : Nat) : Int) < (g : Int) - 1) := by omega
    simp only [h1, hlt, if_false]
    bs_next

/-- the binary search: with fuel `≥ top - bottom` the generated loop ends in the state whose position is the
model's `bsLoop` (for every model fuel `≥ top - bottom` as well) -/
theorem bs_loop (T : List Entry) (g : Nat) : ∀ (d b t p : Nat) (hp : p < T.length), t ≤ T.length → t - b ≤ d →
    ∃ (b' t' p' : Nat) (hp' : p' < T.length), p' ≤ T.length ∧
      (∀ fuel, d ≤ fuel → PyFun.pyWhile (PyFun.get_insertion_index_loop1_cond ((g : Int) - 1))
        (PyFun.get_insertion_index_loop1 (T.map kmInt) ((g : Int) - 1)) fuel (bsState T b t p hp)
          = some (bsState T b' t' p' hp')) ∧
      (∀ f, d ≤ f → bsLoop T g f b t p = p') := by
  intro d
  induction d with
  | zero =>
    intro b t p hp ht hd
    refine ⟨b, t, p, hp, by omega, ?_, ?_⟩
    · intro fuel _
      have hc : PyFun.get_insertion_index_loop1_cond ((g : Int) - 1) (bsState T b t p hp) = false := by
        rw [bs_cond]; simp only [decide_eq_false_iff_not]; omega
      cases fuel <;> simp [PyFun.pyWhile, hc]
    · intro f _
      cases f with
      | zero => rfl
      | succ f =>
        rw [bsLoop, List.getElem?_eq_getElem hp]
        have : ¬ (T[p].gen + 1 ≠ g ∧ b < p ∧ p < t) := by omega
        simp only [Entry.gen] at this ⊢
        simp only [this, if_false]
  | succ d ih =>
    intro b t p hp ht hd
    by_cases hc : T[p].gen + 1 ≠ g ∧ b < p ∧ p < t
    · by_cases hlt : T[p].gen + 1 < g
      · obtain ⟨b', t', p', hp', hle, hw, hm⟩ := ih p t (p + (t - p) / 2) (by omega) ht (by omega)
        refine ⟨b', t', p', hp', hle, ?_, ?_⟩
        · intro fuel hf
          obtain ⟨fuel, rfl⟩ : ∃ k, fuel = k + 1 := ⟨fuel - 1, by omega⟩
          have hcb := bs_cond T g b t p hp
          rw [PyFun.pyWhile, hcb, if_pos (by simpa using hc), bs_body T g b t p hp ht hc, if_pos hlt]
          exact hw fuel (by omega)
        · intro f hf
          obtain ⟨f, rfl⟩ : ∃ k, f = k + 1 := ⟨f - 1, by omega⟩
          rw [bsLoop, List.getElem?_eq_getElem hp]
          simp only [Entry.gen] at hc hlt ⊢
          simp only [hc, hlt, if_true, ne_eq, not_false_eq_true, and_self]
          exact hm f (by omega)
      · obtain ⟨b', t', p', hp', hle, hw, hm⟩ := ih b p (b + (p - b) / 2) (by omega) (by omega) (by omega)
        refine ⟨b', t', p', hp', hle, ?_, ?_⟩
        · intro fuel hf
          obtain ⟨fuel, rfl⟩ : ∃ k, fuel = k + 1 := ⟨fuel - 1, by omega⟩
          have hcb := bs_cond T g b t p hp
          rw [PyFun.pyWhile, hcb, if_pos (by simpa using hc), bs_body T g b t p hp ht hc, if_neg hlt]
          exact hw fuel (by omega)
        · intro f hf
          obtain ⟨f, rfl⟩ : ∃ k, f = k + 1 := ⟨f - 1, by omega⟩
          rw [bsLoop, List.getElem?_eq_getElem hp]
          simp only [Entry.gen] at hc hlt ⊢
          simp only [hc, hlt, if_true, if_false, ne_eq, not_false_eq_true, and_self]
          exact hm f (by omega)
    · refine ⟨b, t, p, hp, by omega, ?_, ?_⟩
      · intro fuel _
        have hcf : PyFun.get_insertion_index_loop1_cond ((g : Int) - 1) (bsState T b t p hp) = false := by
          rw [bs_cond]; simpa using hc
        cases fuel <;> simp [PyFun.pyWhile, hcf]
      · intro f _
        cases f with
        | zero => rfl
        | succ f =>
          rw [bsLoop, List.getElem?_eq_getElem hp]
          simp only [Entry.gen] at hc ⊢
          simp only [hc, if_false]

/-- the forward scan: the generated loop (condition evaluated inside the body, left by `break`) ends at the
model's `scanFwd` -/
theorem scan_loop (T : List Entry) (g : Nat) : ∀ (n p : Nat), p ≤ T.length → T.length - p ≤ n →
    ∀ fuel, n + 1 ≤ fuel →
      PyFun.pyWhile PyFun.get_insertion_index_loop2_cond
        (PyFun.get_insertion_index_loop2 (T.map kmInt) ((g : Int) - 1)) fuel (false, none, (p : Int))
        = some (true, none, ((scanFwd g (T.drop p) p : Nat) : Int)) := by
  intro n
  induction n with
  | zero =>
    intro p hp hn fuel hf
    obtain ⟨fuel, rfl⟩ : ∃ k, fuel = k + 1 := ⟨fuel - 1, by omega⟩
    have hpl : p = T.length := by omega
    have hd : T.drop p = [] := by rw [hpl]; exact List.drop_length
    have hlen : ¬ ((p : Int) < ((T.map kmInt).length : Int)) := by simp only [List.length_map]; omega
    rw [PyFun.pyWhile]
    simp only [PyFun.get_insertion_index_loop2_cond, PyFun.get_insertion_index_loop2, Bool.not_false, Bool.and_self,
      if_true, hlen, decide_false, hd, scanFwd]
    cases fuel <;> simp [PyFun.pyWhile, PyFun.get_insertion_index_loop2_cond]
  | succ n ih =>
    intro p hp hn fuel hf
    obtain ⟨fuel, rfl⟩ : ∃ k, fuel = k + 1 := ⟨fuel - 1, by omega⟩
    by_cases hpl : p = T.length
    · have hd : T.drop p = [] := by rw [hpl]; exact List.drop_length
      have hlen : ¬ ((p : Int) < ((T.map kmInt).length : Int)) := by simp only [List.length_map]; omega
      rw [PyFun.pyWhile]
      simp only [PyFun.get_insertion_index_loop2_cond, PyFun.get_insertion_index_loop2, Bool.not_false, Bool.and_self,
        if_true, hlen, decide_false, hd, scanFwd]
      cases fuel <;> simp [PyFun.pyWhile, PyFun.get_insertion_index_loop2_cond]
    · have hp' : p < T.length := by omega
      have hd : T.drop p = T[p] :: T.drop (p + 1) := List.drop_eq_getElem_cons hp'
      have hlen : ((p : Int) < ((T.map kmInt).length : Int)) := by simp only [List.length_map]; omega
      rw [PyFun.pyWhile]
      simp only [PyFun.get_insertion_index_loop2_cond, PyFun.get_insertion_index_loop2, Bool.not_false, Bool.and_self,
        if_true, hlen, decide_true, hd, scanFwd, pyGet_kmInt T p hp', gg_kmInt]
      by_cases hle : T[p].gen + 1 ≤ g
      · have h1 : ((T[p].gen : Nat) : Int) ≤ (g : Int) - 1 := by omega
        simp only [Entry.gen] at hle h1 ⊢
        simp only [h1, hle, decide_true, if_true]
        have := ih (p + 1) (by omega) (by omega) fuel (by omega)
        simpa using this
      · have h1 : ¬ (((T[p].gen : Nat) : Int) ≤ (g : Int) - 1) := by omega
        simp only [Entry.gen] at hle h1 ⊢
        simp only [h1, hle, decide_false, if_false]
        cases fuel <;> simp [PyFun.pyWhile, PyFun.get_insertion_index_loop2_cond]

/-- `_get_insertion_index` as written in the source = the model's `insertionIndex`, for every fuel larger than
the table (neither the `IndexError` of `routing_table[pos]` nor fuel exhaustion can happen) -/
theorem gen_get_insertion_index (T : List Entry) (g fuel : Nat) (hf : T.length + 1 ≤ fuel) :
    PyFun.get_insertion_index (T.map kmInt) (g : Int) fuel = .ok ((insertionIndex T g : Nat) : Int) := by
  unfold PyFun.get_insertion_index insertionIndex
  by_cases hT : T = []
  · subst hT; rfl
  have hlen : 0 < T.length := List.length_pos_iff.mpr hT
  have hne : (T.map kmInt) ≠ [] := by simpa using hT
  have hemp : T.isEmpty = false := by simpa using hT
  simp only [hne, not_true_eq_false, not_not, ne_eq, not_false_eq_true, if_false, hemp, Bool.false_eq_true]
  have e0 : Int.fdiv (((T.map kmInt).length : Int) - 0) 2 = ((T.length / 2 : Nat) : Int) := by
    rw [Int.fdiv_eq_ediv_of_nonneg _ (by decide)]; simp only [List.length_map]; omega
  have hp0 : T.length / 2 < T.length := by omega
  rw [e0, pyGet_kmInt T _ hp0]
  simp only [gg_kmInt]
  obtain ⟨b', t', p', hp', hle, hw, hm⟩ := bs_loop T g T.length 0 T.length (T.length / 2) hp0 (le_refl _) (by omega)
  have hw' := hw fuel (by omega)
  simp only [bsState, List.length_map, Nat.cast_zero] at hw' ⊢
  rw [hw']
  simp only []
  rw [scan_loop T g (T.length - p') p' hle (le_refl _) fuel (by omega), hm T.length (le_refl _)]

/-- non-vacuity: a two-entry table, fuel 3 -/
example : PyFun.get_insertion_index
    ([(⟨1, 0#32, 0xFFFFFFFF#32, 0⟩ : Entry), ⟨2, 0#32, 0xFFFFFFFE#32, 0⟩].map kmInt) 1 3
      = .ok ((insertionIndex [(⟨1, 0#32, 0xFFFFFFFF#32, 0⟩ : Entry), ⟨2, 0#32, 0xFFFFFFFE#32, 0⟩] 1 : Nat) : Int) :=
  gen_get_insertion_index _ 1 3 (by decide)

end Rig.C04
