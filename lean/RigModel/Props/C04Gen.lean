/-
C04 - translator tie: the bodies of `intersect` (rig/routing_table/utils.py) and `_get_generality`
(rig/routing_table/ordered_covering.py) are regenerated from the source into `Gen/PyFun.lean`
(Python ints -> `Int`, `&` / `~` -> Mathlib's two's-complement `Int.land` / `Int.lnot`); here they are
proved EQUAL to the model's 32-bit `intersect` / `generality` on the Python ints of 32-bit words.
The proofs are semantic (bit-wise), so a harmless rewrite of the source (`~(key | mask)`, swapped
operands) still proves while a change of meaning breaks the obligation.
Likewise the methods of the `Routes` enumeration (rig/routing_table/entries.py: `is_link`, `is_core`,
`core_num`, `opposite`, `core`), `self` being the member's integer value, against Model/C04U.lean.
Second round: `get_common_xs` (rig/routing_table/utils.py; a `for` loop over the entries, its body the generated
definition `get_common_xs_loop1`) = `commonXs`.
-/
import RigModel.Model.C04U
import RigModel.Gen.PyFun
import RigModel.Lemmas.IntBits
import Mathlib.Tactic.SplitIfs
set_option linter.unusedSimpArgs false
set_option linter.unusedVariables false
set_option linter.unusedTactic false
set_option linter.unreachableTactic false

namespace Rig.C04
open Rig.Gen Rig.IntBits

/-- the Python int of a 32-bit word -/
abbrev wi (k : W) : Int := ((k.toNat : Nat) : Int)

theorem wi_inj {a b : W} : wi a = wi b ↔ a = b := by
  simp only [wi, Int.natCast_inj, BitVec.toNat_inj]

theorem wi_testBit (k : W) (i : Nat) : (wi k).testBit i = k.getLsbD i := by
  simp only [wi, testBit_natCast, BitVec.testBit_toNat]

/-- `intersect` as written in the source = the model -/
theorem gen_intersect (ka ma kb mb : W) :
    PyFun.intersect (wi ka) (wi ma) (wi kb) (wi mb) = intersect ka ma kb mb := by
  simp only [PyFun.intersect, intersect, wi, land_natCast, lor_natCast, xor_natCast, ← BitVec.toNat_and,
    ← BitVec.toNat_or, ← BitVec.toNat_xor, Int.natCast_inj, BitVec.toNat_inj]
  first
  | rfl
  | (rw [Bool.eq_iff_iff]; simp only [decide_eq_true_eq, beq_iff_eq]
     constructor <;> intro h <;> ext i hi <;> have := congrArg (fun t => BitVec.getLsbD t i) h <;>
       simp at this ⊢ <;> grind)

/-- `_get_generality` as written in the source (`~key & ~mask` on unbounded ints, bits 0..31 counted)
= the model's popcount of the 32-bit complement -/
theorem gen_get_generality (k m : W) :
    PyFun.get_generality (wi k) (wi m) = ((generality k m : Nat) : Int) := by
  simp only [PyFun.get_generality, generality, popcount, Int.natCast_inj]
  apply List.countP_congr
  intro i hi
  have hi : i < 32 := List.mem_range.mp hi
  simp only [Int.toNat_natCast, decide_eq_true_eq, land_one_shiftLeft_ne_zero, Int.testBit_land, Int.testBit_lor,
    Int.testBit_lxor, Int.testBit_lnot, wi_testBit, BitVec.getLsbD_and, BitVec.getLsbD_or, BitVec.getLsbD_xor,
    BitVec.getLsbD_not, hi, decide_true, Bool.true_and]
  try first
    | rfl
    | (cases k.getLsbD i <;> cases m.getLsbD i <;> simp)

/-! ### entries.py: the methods of `Routes` -/

/-- a result of the model as the Python outcome: member value / name of the exception -/
def excInt : Except RErr Nat → Except String Int
  | .ok v => .ok (v : Int)
  | .error .valueError => .error "ValueError"

/-- `Routes(v)` in closed form -/
theorem routesOfValue_eq (v : Nat) : routesOfValue v = if v < 24 then .ok v else .error .valueError := by
  by_cases h : v < 24
  · rw [if_pos h]; revert v; decide
  · rw [if_neg h]
    simp only [routesOfValue, Rig.Gen.C04Routes.members, List.map_cons, List.map_nil, List.contains_eq_mem,
      List.mem_cons, List.mem_nil_iff, or_false, decide_eq_true_eq]
    rw [if_neg (by omega)]

/-- membership of a `Routes` value, as the translator writes the enum lookup -/
theorem contains24 (v : Int) :
    ([0, 1, 2, 3, 4, 5, 6, 7, 8, 9, 10, 11, 12, 13, 14, 15, 16, 17, 18, 19, 20, 21, 22, 23] : List Int).contains v
      = decide (0 ≤ v ∧ v < 24) := by
  rw [Bool.eq_iff_iff]
  simp only [List.contains_eq_mem, List.mem_cons, List.mem_nil_iff, or_false, decide_eq_true_eq]
  omega

/-- both sides are if-chains over linear conditions with leaves `.ok e` / `.error s`: split and decide -/
macro "exc_ifs" : tactic => `(tactic|
  (try simp only [excInt, apply_ite excInt, routesOfValue_eq, contains24, isCore, isLink, Bool.not_eq_true',
      Bool.not_eq_true, decide_eq_true_eq, decide_eq_false_iff_not, Bool.decide_eq_true, Bool.not_not,
      Int.fmod_eq_emod_of_nonneg _ (by decide : (0 : Int) ≤ 6)]
   try split_ifs
   all_goals first
     | rfl
     | omega
     | (refine congrArg Except.ok ?_; omega)
     | (rw [Bool.eq_iff_iff]; simp only [decide_eq_true_eq, Bool.not_eq_true', decide_eq_false_iff_not]; omega)))

/-- `Routes.is_link` as written in the source = the model -/
theorem gen_routes_is_link (r : Nat) : PyFun.Routes_is_link r = isLink r := by
  simp only [PyFun.Routes_is_link]
  exc_ifs

/-- `Routes.is_core` as written in the source = the model -/
theorem gen_routes_is_core (r : Nat) : PyFun.Routes_is_core r = isCore r := by
  simp only [PyFun.Routes_is_core, PyFun.Routes_is_link]
  exc_ifs

/-- `Routes.core_num` as written in the source = the model -/
theorem gen_routes_core_num (r : Nat) : PyFun.Routes_core_num r = excInt (coreNum r) := by
  simp only [PyFun.Routes_core_num, PyFun.Routes_is_core, PyFun.Routes_is_link, coreNum]
  exc_ifs

/-- `Routes.opposite` as written in the source = the model -/
theorem gen_routes_opposite (r : Nat) : PyFun.Routes_opposite r = excInt (routeOpposite r) := by
  simp only [PyFun.Routes_opposite, PyFun.Routes_is_core, PyFun.Routes_is_link, routeOpposite]
  exc_ifs

/-- `Routes.core` as written in the source = the model -/
theorem gen_routes_core (num : Int) : PyFun.Routes_core num = excInt (routesCore num) := by
  simp only [PyFun.Routes_core, routesCore]
  exc_ifs

/-! ### utils.py: `get_common_xs` (a `for` loop over the entries) -/

/-- the Python view of an entry for `get_common_xs`: the ints `(entry.key, entry.mask)` -/
def kmInt (e : Entry) : Int × Int := (wi e.key, wi e.mask)

theorem wi_lor (a b : W) : Int.lor (wi a) (wi b) = wi (a ||| b) := by
  simp only [wi, lor_natCast, BitVec.toNat_or]

theorem common_loop1 (a b : W) (e : Entry) :
    PyFun.get_common_xs_loop1 (wi a, wi b) (kmInt e) = (wi (a ||| e.key), wi (b ||| e.mask)) := by
  unfold PyFun.get_common_xs_loop1 kmInt
  dsimp only
  simp only [wi_lor, Prod.mk.injEq, wi_inj]
  try (constructor <;> first
    | rfl
    | trivial
    | (apply BitVec.eq_of_getLsbD_eq; intro i hi
       simp only [BitVec.getLsbD_or, BitVec.getLsbD_and, BitVec.getLsbD_xor]; grind))

theorem common_fold (T : List Entry) : ∀ (a b : W),
    (T.map kmInt).foldl PyFun.get_common_xs_loop1 (wi a, wi b)
      = (wi (T.foldl (fun a e => a ||| e.key) a), wi (T.foldl (fun a e => a ||| e.mask) b)) := by
  induction T with
  | nil => intro a b; rfl
  | cons e t ih =>
    intro a b
    rw [List.map_cons, List.foldl_cons, common_loop1, ih]
    rfl

theorem testBit_mask32 (i : Nat) : (4294967295 : Int).testBit i = decide (i < 32) := by
  have : (4294967295 : Int) = ((2 ^ 32 - 1 : Nat) : Int) := by decide
  rw [this, testBit_natCast, Nat.testBit_two_pow_sub_one]

/-- `get_common_xs` as written in the source = the model's `commonXs`, on the Python ints of 32-bit words -/
theorem gen_get_common_xs (T : List Entry) : PyFun.get_common_xs (T.map kmInt) = wi (commonXs T) := by
  unfold PyFun.get_common_xs commonXs
  have h0 : (0 : Int) = wi 0 := rfl
  dsimp only
  rw [h0, common_fold]
  dsimp only
  apply eq_of_testBit_eq
  intro i
  simp only [Int.testBit_land, Int.testBit_lor, Int.testBit_lnot, Int.testBit_lxor, testBit_mask32, wi_testBit,
    BitVec.getLsbD_not, BitVec.getLsbD_or]
  by_cases hi : i < 32 <;> simp [hi]

end Rig.C04
