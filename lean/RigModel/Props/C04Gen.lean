/-
C04 - translator tie: the bodies of `intersect` (rig/routing_table/utils.py) and `_get_generality`
(rig/routing_table/ordered_covering.py) are regenerated from the source into `Gen/PyFun.lean`
(Python ints -> `Int`, `&` / `~` -> Mathlib's two's-complement `Int.land` / `Int.lnot`); here they are
proved EQUAL to the model's 32-bit `intersect` / `generality` on the Python ints of 32-bit words.
The proofs are semantic (bit-wise), so a harmless rewrite of the source (`~(key | mask)`, swapped
operands) still proves while a change of meaning breaks the obligation.
-/
import RigModel.Model.C04
import RigModel.Gen.PyFun
import RigModel.Lemmas.IntBits
set_option linter.unusedSimpArgs false
set_option linter.unusedVariables false
set_option linter.unusedTactic false
set_option linter.unreachableTactic false

namespace Rig.C04
open Rig.Gen Rig.IntBits

/-- the Python int of a 32-bit word -/
abbrev wi (k : W) : Int := ((k.toNat : Nat) : Int)

theorem wi_inj {a b : W} : wi a = wi b ↔ a = b := by
  simp only [wi, Int.natCast_inj, BitVec.toNat_inj]

theorem wi_testBit (k : W) (i : Nat) : (wi k).testBit i = k.getLsbD i := by
  simp only [wi, testBit_natCast, BitVec.testBit_toNat]

/-- `intersect` as written in the source = the model -/
theorem gen_intersect (ka ma kb mb : W) :
    PyFun.intersect (wi ka) (wi ma) (wi kb) (wi mb) = intersect ka ma kb mb := by
  simp only [PyFun.intersect, intersect, wi, land_natCast, lor_natCast, xor_natCast, ← BitVec.toNat_and,
    ← BitVec.toNat_or, ← BitVec.toNat_xor, Int.natCast_inj, BitVec.toNat_inj]
  first
  | rfl
  | (rw [Bool.eq_iff_iff]; simp only [decide_eq_true_eq, beq_iff_eq]
     constructor <;> intro h <;> ext i hi <;> have := congrArg (fun t => BitVec.getLsbD t i) h <;>
       simp at this ⊢ <;> grind)

/-- `_get_generality` as written in the source (`~key & ~mask` on unbounded ints, bits 0..31 counted)
= the model's popcount of the 32-bit complement -/
theorem gen_get_generality (k m : W) :
    PyFun.get_generality (wi k) (wi m) = ((generality k m : Nat) : Int) := by
  simp only [PyFun.get_generality, generality, popcount, Int.natCast_inj]
  apply List.countP_congr
  intro i hi
  have hi : i < 32 := List.mem_range.mp hi
  simp only [Int.toNat_natCast, decide_eq_true_eq, land_one_shiftLeft_ne_zero, Int.testBit_land, Int.testBit_lor,
    Int.testBit_lxor, Int.testBit_lnot, wi_testBit, BitVec.getLsbD_and, BitVec.getLsbD_or, BitVec.getLsbD_xor,
    BitVec.getLsbD_not, hi, decide_true, Bool.true_and]
  try first
    | rfl
    | (cases k.getLsbD i <;> cases m.getLsbD i <;> simp)


end Rig.C04
