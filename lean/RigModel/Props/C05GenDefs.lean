/-
C05 - translator tie, outer loops: the three outer loops of the model (`allocResources`, `allocVertices`,
`allocChips`) with the body of the innermost one (`allocOne`) as a parameter, so that the same loops can be run
with the uniform-fuel body `allocOneF fuel` (what the generated `allocate` does: one `fuel` for every `while`).
-/
import RigModel.Props.C05Gen
set_option linter.unusedSimpArgs false
set_option linter.unusedVariables false

namespace Rig.C05

/-- the body of the resource loop -/
abbrev One := Chip → Vertex → Res → Int → Ptrs → Except Err (Ptrs × Entry)

def allocResourcesG (one : One) (xy : Chip) (v : Vertex) :
    List (Res × Int) → Ptrs → Except Err (Ptrs × List Entry)
  | [], ptrs => .ok (ptrs, [])
  | (res, d) :: rest, ptrs =>
    match one xy v res d ptrs with
    | .error e => .error e
    | .ok (ptrs', e) =>
      match allocResourcesG one xy v rest ptrs' with
      | .error e => .error e
      | .ok (ptrs'', es) => .ok (ptrs'', e :: es)

def allocVerticesG (one : One) (vr : List (Vertex × List (Res × Int))) (xy : Chip) :
    List Vertex → Ptrs → Except Err (List (Vertex × List Entry))
  | [], _ => .ok []
  | v :: vs, ptrs =>
    match vr.lookup v with
    | none => .error .keyError
    | some rs =>
      match allocResourcesG one xy v rs ptrs with
      | .error e => .error e
      | .ok (ptrs', es) =>
        match allocVerticesG one vr xy vs ptrs' with
        | .error e => .error e
        | .ok rest => .ok ((v, es) :: rest)

/-- the chip loop over `chip_contents` = `[(xy, [vertex, ...]), ...]` -/
def allocChipsL (one : One) (vr : List (Vertex × List (Res × Int))) :
    List (Chip × List Vertex) → Except Err (List (Vertex × List Entry))
  | [] => .ok []
  | (xy, vs) :: rest =>
    match allocVerticesG one vr xy vs (fun _ => 0) with
    | .error e => .error e
    | .ok a =>
      match allocChipsL one vr rest with
      | .error e => .error e
      | .ok b => .ok (a ++ b)

/-- `chip_contents` as the model sees it -/
def chipContents (inp : Input) : List (Chip × List Vertex) :=
  (chipOrder inp).map fun xy => (xy, chipVertices inp xy)

/-- the model with one fuel for every proposal loop -/
def allocateF (fuel : Nat) (inp : Input) : Except Err (List (Vertex × List Entry)) :=
  allocChipsL (allocOneF fuel inp) inp.vr (chipContents inp)

theorem allocResourcesG_model (inp : Input) (xy : Chip) (v : Vertex) :
    ∀ (rs : List (Res × Int)) (ptrs : Ptrs),
      allocResourcesG (allocOne inp) xy v rs ptrs = allocResources inp xy v rs ptrs := by
  intro rs
  induction rs with
  | nil => intro ptrs; rfl
  | cons rd rs ih =>
    intro ptrs
    obtain ⟨res, d⟩ := rd
    simp only [allocResourcesG, allocResources, ih]
    try rfl

theorem allocVerticesG_model (inp : Input) (xy : Chip) :
    ∀ (vs : List Vertex) (ptrs : Ptrs),
      allocVerticesG (allocOne inp) inp.vr xy vs ptrs = allocVertices inp xy vs ptrs := by
  intro vs
  induction vs with
  | nil => intro ptrs; rfl
  | cons v vs ih =>
    intro ptrs
    simp only [allocVerticesG, allocVertices, ih, allocResourcesG_model]
    try rfl

theorem allocChipsL_model (inp : Input) :
    ∀ (chips : List Chip),
      allocChipsL (allocOne inp) inp.vr (chips.map fun xy => (xy, chipVertices inp xy)) = allocChips inp chips := by
  intro chips
  induction chips with
  | nil => rfl
  | cons xy chips ih =>
    simp only [List.map_cons, allocChipsL, allocChips, ih, allocVerticesG_model]
    rfl

/-- the generic loops run with the model's own body are the model -/
theorem allocate_eq_L (inp : Input) :
    allocate inp = allocChipsL (allocOne inp) inp.vr (chipContents inp) :=
  (allocChipsL_model inp (chipOrder inp)).symm

end Rig.C05
