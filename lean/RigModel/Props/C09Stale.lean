/-
C09 (companion) - the stale-waiter findings, sharply: WITHOUT the pre-state hypothesis `PreClean`,
exactly which pre-states make a normal return of `load_application` unsound, and which make
`SpiNNakerLoadingError` omit a core that is not loaded.

`staleMasks` / `staleHides` (Model/C09.lean) are predicates of the pre-state, the request and the set
of cores that violate the post-condition only; the check evaluates them on the implementation's
runs and files a violation under the known findings `count-shortcut-stale-waiters` /
`readback-stale-waiter` only when they hold.
-/
import RigModel.Props.C09
import RigModel.Lemmas.C09Stale
set_option linter.unusedSimpArgs false
set_option linter.unusedVariables false

namespace Rig.C09
open Rig.Gen.Load Rig.Gen.Scp

theorem countP_split {α : Type} (p q : α → Bool) (l : List α) :
    l.countP p = l.countP (fun x => p x && q x) + l.countP (fun x => p x && !q x) := by
  induction l with
  | nil => rfl
  | cons a l ih =>
    simp only [List.countP_cons, ih]
    cases p a <;> cases q a <;> simp <;> omega

theorem countP_or_le {α : Type} (p q : α → Bool) (l : List α) :
    l.countP (fun x => p x || q x) ≤ l.countP p + l.countP q := by
  induction l with
  | nil => simp
  | cons a l ih =>
    simp only [List.countP_cons]
    cases p a <;> cases q a <;> simp <;> omega

theorem wantedBy_some {apps : List App} {x y p : Nat} {a : App} (h : wantedBy apps x y p = some a) :
    a ∈ apps ∧ wants a x y p = true := by
  unfold wantedBy at h
  exact ⟨List.mem_of_find?_eq_some h, by have := List.find?_some h; simpa using this⟩

theorem wantedBy_none {apps : List App} {x y p : Nat} (h : wantedBy apps x y p = none) :
    ∀ a ∈ apps, wants a x y p = false := by
  unfold wantedBy at h
  intro a ha
  have := (List.find?_eq_none.mp h) a ha
  simpa using this

theorem wantedBy_of_wants {mc : MCfg} {c : Ctl} {apps : List App} (hv : Valid mc c apps) {a : App} (ha : a ∈ apps)
    {x y p : Nat} (hw : wants a x y p = true) : wantedBy apps x y p = some a := by
  cases h : wantedBy apps x y p with
  | none => have := wantedBy_none h a ha; rw [hw] at this; exact absurd this (by simp)
  | some b =>
    obtain ⟨hb, hwb⟩ := wantedBy_some h
    rw [hv.hdisj a ha b hb x y p hw hwb]

/-- the cores after a normal return: the loop's final machine, then the start signal unless `wait` -/
theorem ok_final_core (mc : MCfg) (c : Ctl) (apps : List App) (happ : c.appId < 256) (s : Sim)
    (hunl : (loadLoop mc c (coreCount apps) (c.nTries + 1) s 0 apps []).2.1 = []) (x y p : Nat) :
    (loadApplication mc c s apps).sim.m.core x y p =
      if c.wait then (loadLoop mc c (coreCount apps) (c.nTries + 1) s 0 apps []).1.m.core x y p
      else if mc.chips.contains (x, y) && decide (p < 18) &&
          matchesApp ((loadLoop mc c (coreCount apps) (c.nTries + 1) s 0 apps []).1.m.core x y p) stWait c.appId
        then { (loadLoop mc c (coreCount apps) (c.nTries + 1) s 0 apps []).1.m.core x y p with state := stRun }
        else (loadLoop mc c (coreCount apps) (c.nTries + 1) s 0 apps []).1.m.core x y p := by
  generalize hr : loadLoop mc c (coreCount apps) (c.nTries + 1) s 0 apps [] = r at hunl
  simp only [loadApplication, hr, hunl, ne_eq, not_true_eq_false, if_false]
  by_cases hw : c.wait = true
  · simp only [hw, if_true]
  · have hw' : c.wait = false := by simpa using hw
    simp only [hw', Bool.false_eq_true, if_false, Sim.send, step, decode_start c.appId happ, stepP,
      and_self, if_true]

/-- a requested core violates the post-condition of a normal return iff it does not hold its binary
at the end of the loop (then it is as before the call: never loaded) - unless it was already running
that binary under the app id and a start was asked for -/
theorem bad_iff_never_loaded (appId : Nat) (wait : Bool) (a : App) (k0 k : Core)
    (hk : k = ld appId a ∨ k = k0) :
    ((if wait then k else if matchesApp k stWait appId then { k with state := stRun } else k) ==
        (⟨if wait then stWait else stRun, appId, a.image⟩ : Core)) = false ↔
      (k ≠ ld appId a ∧ ¬ (wait = false ∧ k0 = ⟨stRun, appId, a.image⟩)) := by
  by_cases hld : k = ld appId a
  · subst hld
    cases wait <;> simp [ld, matchesApp]
  · have hk0 : k = k0 := by rcases hk with h | h; exact absurd h hld; exact h
    subst hk0
    obtain ⟨st, ap, im⟩ := k
    simp only [ld, Core.mk.injEq, not_and] at hld
    cases wait
    · simp only [Bool.false_eq_true, if_false, matchesApp, Bool.and_eq_true, beq_iff_eq, ld, ne_eq, Core.mk.injEq,
        not_and, true_and, beq_eq_false_iff_ne]
      by_cases hm : st = stWait ∧ ap = appId
      · obtain ⟨rfl, rfl⟩ := hm
        simp only [and_self, if_true, Core.mk.injEq, true_and, not_and]
        have := hld rfl rfl
        constructor
        · intro _; exact ⟨fun _ _ => this, fun h => absurd h (by decide)⟩
        · intro _ h; exact this h
      · simp only [hm, if_false, Core.mk.injEq, not_and]
        constructor
        · intro h; exact ⟨hld, h⟩
        · intro h; exact h.2
    · simp only [if_true, ld, ne_eq, Core.mk.injEq, not_and, Bool.true_eq_false, false_and, not_false_eq_true,
        and_true, beq_eq_false_iff_ne]

/-- the machine at the end of the retry loop of a call that returned normally -/
def loopEnd (mc : MCfg) (c : Ctl) (s : Sim) (apps : List App) : MState :=
  (loadLoop mc c (coreCount apps) (c.nTries + 1) s 0 apps []).1.m

theorem ok_unl_nil {mc : MCfg} {c : Ctl} {s : Sim} {apps : List App}
    (hok : (loadApplication mc c s apps).outcome = .ok) :
    (loadLoop mc c (coreCount apps) (c.nTries + 1) s 0 apps []).2.1 = [] := by
  by_contra hne
  simp only [loadApplication, if_pos hne] at hok
  exact absurd hok (by simp)

/-- **which cores violate the post-condition of a normal return** (no `PreClean`): exactly the
requested cores that never received their binary - they are as before the call - except those that
were already running that binary under the app id when a start was asked for.  Cores that were not
requested never violate it. -/
theorem postOk_false_iff (mc : MCfg) (c : Ctl) (apps : List App) (hv : Valid mc c apps) (s : Sim)
    (hok : (loadApplication mc c s apps).outcome = .ok) (x y p : Nat) :
    postOkCore apps c.appId c.wait (s.m.core x y p) ((loadApplication mc c s apps).sim.m.core x y p) x y p = false ↔
      ∃ a, wantedBy apps x y p = some a ∧ (loopEnd mc c s apps).core x y p = s.m.core x y p ∧
        s.m.core x y p ≠ ld c.appId a ∧ ¬ (c.wait = false ∧ s.m.core x y p = ⟨stRun, c.appId, a.image⟩) := by
  have hunl := ok_unl_nil hok
  obtain ⟨hinv, _, _, _⟩ := loadLoop_weak mc c apps hv s.m (c.nTries + 1) s 0 apps [] (liw_init mc c apps s)
  rw [ok_final_core mc c apps hv.happ s hunl x y p]
  change Inv apps c.appId s.m (loopEnd mc c s apps) at hinv
  change (postOkCore apps c.appId c.wait (s.m.core x y p)
    (if c.wait then (loopEnd mc c s apps).core x y p
     else if mc.chips.contains (x, y) && decide (p < 18) && matchesApp ((loopEnd mc c s apps).core x y p) stWait c.appId
       then { (loopEnd mc c s apps).core x y p with state := stRun } else (loopEnd mc c s apps).core x y p) x y p = false) ↔ _
  generalize loopEnd mc c s apps = m at hinv ⊢
  unfold postOkCore
  cases hfind : wantedBy apps x y p with
  | some a =>
    obtain ⟨ha, hw⟩ := wantedBy_some hfind
    obtain ⟨hc, hp⟩ := hv.hin a ha x y p hw
    have hcont : mc.chips.contains (x, y) = true := by simpa using hc
    simp only [hcont, hp, decide_true, Bool.true_and]
    rw [bad_iff_never_loaded c.appId c.wait a (s.m.core x y p) (m.core x y p) (hinv.2 a ha x y p hw)]
    constructor
    · rintro ⟨h1, h2⟩
      have he : m.core x y p = s.m.core x y p := by
        rcases hinv.2 a ha x y p hw with h | h
        · exact absurd h h1
        · exact h
      exact ⟨a, rfl, he, by rw [← he]; exact h1, h2⟩
    · rintro ⟨a', ha', he, h1, h2⟩
      cases ha'
      exact ⟨by rw [he]; exact h1, h2⟩
  | none =>
    have he := hinv.1 x y p (wantedBy_none hfind)
    rw [he]
    constructor
    · intro h
      exfalso
      have htrue : (((if c.wait then s.m.core x y p
            else if mc.chips.contains (x, y) && decide (p < 18) && matchesApp (s.m.core x y p) stWait c.appId
              then { s.m.core x y p with state := stRun } else s.m.core x y p) == s.m.core x y p) ||
          (!c.wait && matchesApp (s.m.core x y p) stWait c.appId &&
            (if c.wait then s.m.core x y p
              else if mc.chips.contains (x, y) && decide (p < 18) && matchesApp (s.m.core x y p) stWait c.appId
                then { s.m.core x y p with state := stRun } else s.m.core x y p) ==
              { s.m.core x y p with state := stRun })) = true := by
        cases c.wait
        · by_cases hcnd : (mc.chips.contains (x, y) && decide (p < 18) &&
              matchesApp (s.m.core x y p) stWait c.appId) = true
          · have hm : matchesApp (s.m.core x y p) stWait c.appId = true := by
              simp only [Bool.and_eq_true] at hcnd; exact hcnd.2
            simp only [Bool.false_eq_true, if_false, if_pos hcnd]
            simp only [hm, Bool.not_false, Bool.true_and, beq_self_eq_true, Bool.or_true]
          · simp only [Bool.false_eq_true, if_false, if_neg hcnd, beq_self_eq_true, Bool.true_or]
        · simp only [if_true, beq_self_eq_true, Bool.true_or]
      dsimp only at h
      rw [htrue] at h
      exact absurd h (by simp)
    · rintro ⟨a, ha, _⟩; cases ha

/-- the cores of the machine that violate the post-condition of a normal return -/
def badCores (mc : MCfg) (c : Ctl) (s : Sim) (apps : List App) : List (Nat × Nat × Nat) :=
  (allCores mc.chips).filter fun k =>
    !postOkCore apps c.appId c.wait (s.m.core k.1 k.2.1 k.2.2)
      ((loadApplication mc c s apps).sim.m.core k.1 k.2.1 k.2.2) k.1 k.2.1 k.2.2

theorem mem_badCores (mc : MCfg) (c : Ctl) (apps : List App) (hv : Valid mc c apps) (s : Sim)
    (hok : (loadApplication mc c s apps).outcome = .ok) (x y p : Nat) :
    (x, y, p) ∈ badCores mc c s apps ↔
      postOkCore apps c.appId c.wait (s.m.core x y p) ((loadApplication mc c s apps).sim.m.core x y p) x y p = false := by
  simp only [badCores, List.mem_filter, Bool.not_eq_true', mem_allCores]
  constructor
  · exact fun h => h.2
  · intro h
    obtain ⟨a, ha, _⟩ := (postOk_false_iff mc c apps hv s hok x y p).mp h
    obtain ⟨ha', hw⟩ := wantedBy_some ha
    exact ⟨hv.hin a ha' x y p hw, h⟩

/-- the requested cores of the machine are as many as `core_count` (each core listed once) -/
theorem countP_requested (mc : MCfg) (c : Ctl) (apps : List App) (hv : Valid mc c apps)
    (hnd : (reqCores apps).Nodup) :
    (allCores mc.chips).countP (fun k => (wantedBy apps k.1 k.2.1 k.2.2).isSome) = coreCount apps := by
  rw [coreCount_eq, List.countP_eq_length_filter]
  apply Nat.le_antisymm
  · refine (((allCores_nodup _ hv.hchips).filter _).subperm ?_).length_le
    intro k hk
    obtain ⟨x, y, p⟩ := k
    simp only [List.mem_filter, Option.isSome_iff_exists] at hk
    obtain ⟨_, a, ha⟩ := hk
    obtain ⟨ha', hw⟩ := wantedBy_some ha
    exact (mem_reqCores apps x y p).mpr ⟨a, ha', hw⟩
  · refine (hnd.subperm ?_).length_le
    intro k hk
    obtain ⟨x, y, p⟩ := k
    obtain ⟨a, ha, hw⟩ := (mem_reqCores apps x y p).mp hk
    simp only [List.mem_filter, mem_allCores]
    exact ⟨hv.hin a ha x y p hw, by rw [wantedBy_of_wants hv ha hw]; rfl⟩

/-- the counting argument behind `count-shortcut-stale-waiters`: when the count matched, the stale
waiters on other cores are as many as the requested cores not waiting under the app id at the end -/
theorem count_masks (mc : MCfg) (c : Ctl) (apps : List App) (hv : Valid mc c apps)
    (hnd : (reqCores apps).Nodup) (s : Sim) (hok : (loadApplication mc c s apps).outcome = .ok)
    (hinv : Inv apps c.appId s.m (loopEnd mc c s apps)) (huc : c.useCount = true)
    (hcnt : CountEq mc c apps (loopEnd mc c s apps))
    (hbad : ∀ x y p, postOkCore apps c.appId c.wait (s.m.core x y p)
        ((loadApplication mc c s apps).sim.m.core x y p) x y p = false ↔
      ∃ a, wantedBy apps x y p = some a ∧ (loopEnd mc c s apps).core x y p = s.m.core x y p ∧
        s.m.core x y p ≠ ld c.appId a ∧ ¬ (c.wait = false ∧ s.m.core x y p = ⟨stRun, c.appId, a.image⟩)) :
    staleCount mc.chips apps c.appId c.wait c.useCount s.m.core (badCores mc c s apps) = true := by
  generalize hm : loopEnd mc c s apps = m at hinv hcnt hbad
  let L := allCores mc.chips
  let req : Nat × Nat × Nat → Bool := fun k => (wantedBy apps k.1 k.2.1 k.2.2).isSome
  let Pm : Nat × Nat × Nat → Bool := fun k => matchesApp (m.core k.1 k.2.1 k.2.2) stWait c.appId
  let P0 : Nat × Nat × Nat → Bool := fun k => matchesApp (s.m.core k.1 k.2.1 k.2.2) stWait c.appId
  let badp : Nat × Nat × Nat → Bool := fun k =>
    !postOkCore apps c.appId c.wait (s.m.core k.1 k.2.1 k.2.2)
      ((loadApplication mc c s apps).sim.m.core k.1 k.2.1 k.2.2) k.1 k.2.1 k.2.2
  let accp : Nat × Nat × Nat → Bool := fun k =>
    match wantedBy apps k.1 k.2.1 k.2.2 with
    | some a => !c.wait && s.m.core k.1 k.2.1 k.2.2 == ⟨stRun, c.appId, a.image⟩
    | none => false
  -- S = N
  have h1 : L.countP Pm = L.countP (fun k => Pm k && req k) + L.countP (fun k => Pm k && !req k) :=
    countP_split Pm req L
  have h2 : L.countP req = L.countP (fun k => req k && Pm k) + L.countP (fun k => req k && !Pm k) :=
    countP_split req Pm L
  have h3 : L.countP req = coreCount apps := countP_requested mc c apps hv hnd
  have h4 : L.countP (fun k => Pm k && req k) = L.countP (fun k => req k && Pm k) := by
    congr 1; funext k; exact Bool.and_comm _ _
  have h5 : L.countP (fun k => Pm k && !req k) = staleOthers mc.chips apps c.appId s.m.core := by
    unfold staleOthers
    apply List.countP_congr
    rintro ⟨x, y, p⟩ _
    simp only [Pm, req, Bool.and_eq_true, Bool.not_eq_true', Option.isSome_eq_false_iff, Option.isNone_iff_eq_none]
    constructor
    · rintro ⟨h, hn⟩
      refine ⟨hn, ?_⟩
      rw [← hinv.1 x y p (wantedBy_none hn)]; exact h
    · rintro ⟨hn, h⟩
      refine ⟨?_, hn⟩
      rw [hinv.1 x y p (wantedBy_none hn)]; exact h
  have hS : staleOthers mc.chips apps c.appId s.m.core = L.countP (fun k => req k && !Pm k) := by
    have : coreCount apps = L.countP Pm := hcnt
    omega
  -- a bad core is requested, as before the call, hence not waiting now iff not waiting before
  have hlow : L.countP (fun k => !P0 k && badp k) ≤ L.countP (fun k => req k && !Pm k) := by
    apply List.countP_mono_left
    rintro ⟨x, y, p⟩ _ h
    simp only [Bool.and_eq_true, Bool.not_eq_true', badp, P0] at h
    obtain ⟨a, ha, he, _, _⟩ := (hbad x y p).mp h.2
    simp only [req, Pm, Bool.and_eq_true, Bool.not_eq_true', ha, Option.isSome_some, true_and]
    rw [he]; exact h.1
  have hup : L.countP (fun k => req k && !Pm k) ≤
      L.countP (fun k => !P0 k && badp k) + L.countP accp := by
    refine Nat.le_trans (List.countP_mono_left ?_) (countP_or_le _ accp L)
    rintro ⟨x, y, p⟩ _ h
    simp only [req, Pm, Bool.and_eq_true, Bool.not_eq_true', Option.isSome_iff_exists] at h
    obtain ⟨⟨a, ha⟩, hnm⟩ := h
    obtain ⟨ha', hw⟩ := wantedBy_some ha
    have hne : m.core x y p ≠ ld c.appId a := by
      intro h; rw [h] at hnm; simp [ld, matchesApp] at hnm
    have he : m.core x y p = s.m.core x y p := by
      rcases hinv.2 a ha' x y p hw with h | h
      · exact absurd h hne
      · exact h
    simp only [Bool.or_eq_true, Bool.and_eq_true, Bool.not_eq_true', P0, badp, accp, ha]
    by_cases hb : postOkCore apps c.appId c.wait (s.m.core x y p)
        ((loadApplication mc c s apps).sim.m.core x y p) x y p = false
    · left; exact ⟨by rw [← he]; exact hnm, hb⟩
    · right
      have hacc : c.wait = false ∧ s.m.core x y p = ⟨stRun, c.appId, a.image⟩ := by
        by_contra hna
        exact hb ((hbad x y p).mpr ⟨a, ha, he, by rw [← he]; exact hne, hna⟩)
      simp [hacc.1, hacc.2]
  have hnb : (badCores mc c s apps).countP (fun k => !matchesApp (s.m.core k.1 k.2.1 k.2.2) stWait c.appId) =
      L.countP (fun k => !P0 k && badp k) := by
    simp only [badCores, List.countP_filter]; rfl
  simp only [staleCount, huc, Bool.true_and, Bool.and_eq_true, decide_eq_true_eq, hnb, hS]
  exact ⟨hlow, hup⟩

/-- **`load_sound` needs `PreClean` exactly for the stale waiters.**  Under `Valid` alone (each
requested core listed once), for every missed-set oracle and both modes: if `load_application`
returns normally, then
* the cores violating the post-condition are exactly `badCores` - all of them requested cores of the
  machine that were never loaded (`postOk_false_iff`);
* the return is unsound (some core violates the post-condition) **iff** `staleMasks` holds of the
  pre-state, the request and that set: the set is non-empty, none of its cores held its binary in
  the wait state under the app id before the call, and either every one of them was itself in the
  wait state before the call (the read-back took them as loaded: `readback-stale-waiter`), or - in
  count mode - the stale waiters on other cores are as many as the missed cores that do not count
  themselves, up to the requested cores already running their binary
  (`count-shortcut-stale-waiters`);
* `staleMasks` contradicts `PreClean`: with no stale waiters a normal return is sound (`load_sound`). -/
theorem load_sound_iff_preclean_needed (mc : MCfg) (c : Ctl) (apps : List App) (hv : Valid mc c apps)
    (hnd : (reqCores apps).Nodup) (s : Sim) (hok : (loadApplication mc c s apps).outcome = .ok) :
    (∀ x y p, postOkCore apps c.appId c.wait (s.m.core x y p)
        ((loadApplication mc c s apps).sim.m.core x y p) x y p = false ↔ (x, y, p) ∈ badCores mc c s apps) ∧
    ((∃ x y p, postOkCore apps c.appId c.wait (s.m.core x y p)
        ((loadApplication mc c s apps).sim.m.core x y p) x y p = false) ↔
      staleMasks mc.chips apps c.appId c.wait c.useCount s.m.core (badCores mc c s apps) = true) ∧
    (staleMasks mc.chips apps c.appId c.wait c.useCount s.m.core (badCores mc c s apps) = true →
      ¬ PreClean s.m apps c.appId) := by
  have hmem := mem_badCores mc c apps hv s hok
  have hbad := postOk_false_iff mc c apps hv s hok
  have hnonempty : staleMasks mc.chips apps c.appId c.wait c.useCount s.m.core (badCores mc c s apps) = true →
      ∃ x y p, postOkCore apps c.appId c.wait (s.m.core x y p)
        ((loadApplication mc c s apps).sim.m.core x y p) x y p = false := by
    intro h
    simp only [staleMasks, Bool.and_eq_true, Bool.not_eq_true', List.isEmpty_eq_false_iff] at h
    obtain ⟨⟨x, y, p⟩, hk⟩ := List.exists_mem_of_ne_nil _ h.1.1
    exact ⟨x, y, p, (hmem x y p).mp hk⟩
  refine ⟨fun x y p => (hmem x y p).symm, ⟨?_, hnonempty⟩, ?_⟩
  · rintro ⟨x, y, p, hxyp⟩
    obtain ⟨hinv, _, hreason, _⟩ := loadLoop_weak mc c apps hv s.m (c.nTries + 1) s 0 apps [] (liw_init mc c apps s)
    rw [ok_unl_nil hok] at hreason
    change Inv apps c.appId s.m (loopEnd mc c s apps) at hinv
    change WaitInv apps (loopEnd mc c s apps) [] ∨ ([] = [] ∧ CountExit mc c apps (loopEnd mc c s apps)) at hreason
    simp only [staleMasks, Bool.and_eq_true, Bool.not_eq_true', List.isEmpty_eq_false_iff, Bool.or_eq_true]
    refine ⟨⟨List.ne_nil_of_mem ((hmem x y p).mpr hxyp), ?_⟩, ?_⟩
    · rw [List.all_eq_true]
      rintro ⟨x', y', p'⟩ hk
      obtain ⟨a, ha, _, hne, _⟩ := (hbad x' y' p').mp ((hmem x' y' p').mp hk)
      simp only [ha, loaded, Bool.not_eq_true', beq_eq_false_iff_ne, ne_eq]
      exact hne
    · rcases hreason with hwait | ⟨_, huc, hcnt⟩
      · -- the map became empty through the read-back: every requested core is in the wait state
        left
        simp only [staleSelf, List.all_eq_true, beq_iff_eq]
        rintro ⟨x', y', p'⟩ hk
        obtain ⟨a, ha, he, _, _⟩ := (hbad x' y' p').mp ((hmem x' y' p').mp hk)
        obtain ⟨ha', hw⟩ := wantedBy_some ha
        rw [← he]
        exact hwait a ha' x' y' p' hw (fun u hu => absurd hu (by simp))
      · -- the count matched
        right
        -- the counting argument is `count_masks` below
        exact count_masks mc c apps hv hnd s hok hinv huc hcnt hbad
  · intro h hpre
    obtain ⟨x, y, p, hxyp⟩ := hnonempty h
    have := load_sound mc c apps hv s hpre hok x y p
    rw [hxyp] at this
    exact absurd this (by simp)

/-! ### the error side -/

theorem err_loop {mc : MCfg} {c : Ctl} {s : Sim} {apps unl : List App}
    (herr : (loadApplication mc c s apps).outcome = .loadingError unl) :
    unl = (loadLoop mc c (coreCount apps) (c.nTries + 1) s 0 apps []).2.1 ∧ unl ≠ [] ∧
    (loadApplication mc c s apps).sim = (loadLoop mc c (coreCount apps) (c.nTries + 1) s 0 apps []).1 := by
  generalize hr : loadLoop mc c (coreCount apps) (c.nTries + 1) s 0 apps [] = r at *
  have hne : r.2.1 ≠ [] := by
    intro he
    simp only [loadApplication, hr, he, ne_eq, not_true_eq_false, if_false] at herr
    split at herr <;> exact absurd herr (by simp)
  simp only [loadApplication, hr, if_pos hne] at herr ⊢
  have : unl = r.2.1 := by injection herr with h; exact h.symm
  exact ⟨this, this ▸ hne, trivial⟩

/-- **which cores violate the post-condition of `SpiNNakerLoadingError`** (no `PreClean`): exactly the
requested cores that are not named although they never received their binary, which is possible
only for a core that was itself in the wait state before the call.  A named core is never loaded;
cores that were not requested are untouched and not named. -/
theorem postErr_false_iff (mc : MCfg) (c : Ctl) (apps : List App) (hv : Valid mc c apps) (s : Sim)
    (unl : List App) (herr : (loadApplication mc c s apps).outcome = .loadingError unl) (x y p : Nat) :
    postErrCore apps unl c.appId (s.m.core x y p) ((loadApplication mc c s apps).sim.m.core x y p) x y p = false ↔
      ∃ a, wantedBy apps x y p = some a ∧ (loadApplication mc c s apps).sim.m.core x y p = s.m.core x y p ∧
        s.m.core x y p ≠ ld c.appId a ∧ (s.m.core x y p).state = stWait ∧
        ∀ u ∈ unl, wants u x y p = false := by
  obtain ⟨hu, hne, hsim⟩ := err_loop herr
  obtain ⟨hinv, hsub, hreason, hnamed⟩ :=
    loadLoop_weak mc c apps hv s.m (c.nTries + 1) s 0 apps [] (liw_init mc c apps s)
  rw [hsim]
  rw [← hu] at hsub hreason hnamed
  generalize (loadLoop mc c (coreCount apps) (c.nTries + 1) s 0 apps []).1.m = m at hinv hreason hnamed
  have hwait : WaitInv apps m unl := by
    rcases hreason with h | ⟨h, _⟩
    · exact h
    · exact absurd h hne
  have hnm : NamedInv m unl := hnamed.1 hne (by omega)
  unfold postErrCore
  cases hfind : wantedBy apps x y p with
  | none =>
    have hn := wantedBy_none hfind
    have he := hinv.1 x y p hn
    constructor
    · intro h
      exfalso
      have hno : (unl.any fun u => wants u x y p) = false := by
        rw [List.any_eq_false]
        intro u hu' hwu
        obtain ⟨a', ha', hsa⟩ := hsub u hu'
        have := hsa.2.2 x y p hwu
        rw [hn a' ha'] at this; exact absurd this (by simp)
      dsimp only at h
      rw [he, hno] at h
      simp at h
    · rintro ⟨a, ha, _⟩; cases ha
  | some a =>
    obtain ⟨ha, hw⟩ := wantedBy_some hfind
    dsimp only
    -- named (under its binary) iff some map of the error wants the core
    have hnamed_iff : (unl.any fun u => u.name == a.name && wants u x y p) = true ↔
        ∃ u ∈ unl, wants u x y p = true := by
      simp only [List.any_eq_true, Bool.and_eq_true, beq_iff_eq]
      constructor
      · rintro ⟨u, hu', _, hwu⟩; exact ⟨u, hu', hwu⟩
      · rintro ⟨u, hu', hwu⟩
        obtain ⟨a', ha', hsa⟩ := hsub u hu'
        have := hv.hdisj a ha a' ha' x y p hw (hsa.2.2 x y p hwu)
        subst this
        exact ⟨u, hu', hsa.1, hwu⟩
    have hl : loaded a c.appId (m.core x y p) = true ↔ m.core x y p = ld c.appId a := by simp [loaded, ld]
    have hsecond : (m.core x y p == s.m.core x y p || loaded a c.appId (m.core x y p)) = true := by
      rcases hinv.2 a ha x y p hw with h | h
      · simp [hl.mpr h]
      · simp [h]
    rw [hsecond, Bool.and_true]
    by_cases hex : ∃ u ∈ unl, wants u x y p = true
    · -- named: not in the wait state, hence not loaded: the post-condition holds
      obtain ⟨u, hu', hwu⟩ := hex
      have hst := hnm u hu' x y p hwu
      have hnl : loaded a c.appId (m.core x y p) = false := by
        cases h : loaded a c.appId (m.core x y p) with
        | false => rfl
        | true => rw [hl.mp h] at hst; exact absurd rfl hst
      rw [hnamed_iff.mpr ⟨u, hu', hwu⟩, hnl]
      constructor
      · intro h; simp at h
      · rintro ⟨a', _, _, _, _, hno⟩
        have := hno u hu'
        rw [hwu] at this; exact absurd this (by simp)
    · have hno : ∀ u ∈ unl, wants u x y p = false := by
        intro u hu'
        cases h : wants u x y p with
        | false => rfl
        | true => exact absurd ⟨u, hu', h⟩ hex
      have hnn : (unl.any fun u => u.name == a.name && wants u x y p) = false := by
        cases h : (unl.any fun u => u.name == a.name && wants u x y p) with
        | false => rfl
        | true => exact absurd (hnamed_iff.mp h) hex
      have hst := hwait a ha x y p hw hno
      rw [hnn]
      constructor
      · intro h
        have hnl : m.core x y p ≠ ld c.appId a := by
          intro hld
          rw [hl.mpr hld] at h; simp at h
        have he : m.core x y p = s.m.core x y p := by
          rcases hinv.2 a ha x y p hw with h' | h'
          · exact absurd h' hnl
          · exact h'
        exact ⟨a, rfl, he, by rw [← he]; exact hnl, by rw [← he]; exact hst, hno⟩
      · rintro ⟨a', ha', he, hnl, _, _⟩
        cases ha'
        have : loaded a c.appId (m.core x y p) = false := by
          cases h : loaded a c.appId (m.core x y p) with
          | false => rfl
          | true => exact absurd (he.symm.trans (hl.mp h)) hnl
        rw [this]; rfl

/-- the cores of the machine that violate the post-condition of `SpiNNakerLoadingError(unl)` -/
def badErrCores (mc : MCfg) (c : Ctl) (s : Sim) (apps unl : List App) : List (Nat × Nat × Nat) :=
  (allCores mc.chips).filter fun k =>
    !postErrCore apps unl c.appId (s.m.core k.1 k.2.1 k.2.2)
      ((loadApplication mc c s apps).sim.m.core k.1 k.2.1 k.2.2) k.1 k.2.1 k.2.2

/-- **`load_error_exact` needs `PreClean` exactly for the stale waiters on requested cores.**  Under
`Valid` alone: when `SpiNNakerLoadingError(unl)` is raised, some core violates the post-condition
(the error does not name exactly the cores that are not loaded) **iff** `staleHides` holds of the
pre-state, the request and the violating set: non-empty, requested cores that did not hold their
binary in the wait state under the app id before the call, each of which was itself in the wait
state before the call (the read-back dropped it from the map: `readback-stale-waiter`).  The count
shortcut cannot cause this.  `staleHides` contradicts `PreClean`. -/
theorem load_error_iff_preclean_needed (mc : MCfg) (c : Ctl) (apps : List App) (hv : Valid mc c apps) (s : Sim)
    (unl : List App) (herr : (loadApplication mc c s apps).outcome = .loadingError unl) :
    (∀ x y p, postErrCore apps unl c.appId (s.m.core x y p)
        ((loadApplication mc c s apps).sim.m.core x y p) x y p = false ↔ (x, y, p) ∈ badErrCores mc c s apps unl) ∧
    ((∃ x y p, postErrCore apps unl c.appId (s.m.core x y p)
        ((loadApplication mc c s apps).sim.m.core x y p) x y p = false) ↔
      staleHides apps c.appId s.m.core (badErrCores mc c s apps unl) = true) ∧
    (staleHides apps c.appId s.m.core (badErrCores mc c s apps unl) = true → ¬ PreClean s.m apps c.appId) := by
  have hbad := postErr_false_iff mc c apps hv s unl herr
  have hmem : ∀ x y p, (x, y, p) ∈ badErrCores mc c s apps unl ↔
      postErrCore apps unl c.appId (s.m.core x y p) ((loadApplication mc c s apps).sim.m.core x y p) x y p = false := by
    intro x y p
    simp only [badErrCores, List.mem_filter, Bool.not_eq_true', mem_allCores]
    constructor
    · exact fun h => h.2
    · intro h
      obtain ⟨a, ha, _⟩ := (hbad x y p).mp h
      obtain ⟨ha', hw⟩ := wantedBy_some ha
      exact ⟨hv.hin a ha' x y p hw, h⟩
  have hnonempty : staleHides apps c.appId s.m.core (badErrCores mc c s apps unl) = true →
      ∃ x y p, postErrCore apps unl c.appId (s.m.core x y p)
        ((loadApplication mc c s apps).sim.m.core x y p) x y p = false := by
    intro h
    simp only [staleHides, Bool.and_eq_true, Bool.not_eq_true', List.isEmpty_eq_false_iff] at h
    obtain ⟨⟨x, y, p⟩, hk⟩ := List.exists_mem_of_ne_nil _ h.1.1
    exact ⟨x, y, p, (hmem x y p).mp hk⟩
  refine ⟨fun x y p => (hmem x y p).symm, ⟨?_, hnonempty⟩, ?_⟩
  · rintro ⟨x, y, p, hxyp⟩
    simp only [staleHides, Bool.and_eq_true, Bool.not_eq_true', List.isEmpty_eq_false_iff]
    refine ⟨⟨List.ne_nil_of_mem ((hmem x y p).mpr hxyp), ?_⟩, ?_⟩
    · rw [List.all_eq_true]
      rintro ⟨x', y', p'⟩ hk
      obtain ⟨a, ha, _, hne, _⟩ := (hbad x' y' p').mp ((hmem x' y' p').mp hk)
      simp only [ha, loaded, Bool.not_eq_true', beq_eq_false_iff_ne, ne_eq]
      exact hne
    · simp only [staleSelf, List.all_eq_true, beq_iff_eq]
      rintro ⟨x', y', p'⟩ hk
      obtain ⟨a, _, _, _, hst, _⟩ := (hbad x' y' p').mp ((hmem x' y' p').mp hk)
      exact hst
  · intro h hpre
    obtain ⟨x, y, p, hxyp⟩ := hnonempty h
    have := load_error_exact mc c apps hv s hpre unl herr x y p
    rw [hxyp] at this
    exact absurd this (by simp)

/-! ### re-sends without `PreClean`: only to cores that do not hold their binary -/

/-- a map none of whose cores is in the wait state satisfies the run-time oracle `resendOnlyOK` for
each of its binaries: it names only cores requested for that binary, none of which is loaded -/
theorem namedInv_resendOnly (mc : MCfg) (c : Ctl) (apps : List App) (m : MState) (l : List App) (a u : App)
    (hu : u ∈ l) (hua : SubApp u a) (hn : NamedInv m l) :
    resendOnlyOK mc.chips a u.targets false c.appId m.core = true := by
  simp only [resendOnlyOK, List.all_eq_true, Bool.or_eq_true, Bool.not_eq_true', Bool.and_eq_true,
    Bool.false_or]
  rintro ⟨x, y, p⟩ _
  cases hw : wants { a with targets := u.targets } x y p with
  | false => exact Or.inl rfl
  | true =>
    have hwu : wants u x y p = true := hw
    refine Or.inr ⟨hua.2.2 x y p hwu, ?_⟩
    have hst := hn u hu x y p hwu
    cases hl : loaded a c.appId (m.core x y p) with
    | false => rfl
    | true =>
      simp only [loaded, beq_iff_eq] at hl
      rw [hl] at hst
      exact absurd rfl hst

/-- **"re-send only to the cores still missing" holds whatever was on the machine before the call**
(no `PreClean`): every map `load_application` hands to `flood_fill_aplx` is the requested map itself
(the first attempt) or a part of it none of whose cores was in the wait state - hence none of whose
cores held its binary - in a machine state reached during this call.  A core already loaded by an
earlier attempt or an earlier call (same binary, same app id, waiting) is never sent the binary
again.  (`resendOnlyOK`, the oracle the check evaluates on every fill, follows by
`namedInv_resendOnly`.) -/
theorem resend_only_without_preclean (mc : MCfg) (c : Ctl) (apps : List App) (hv : Valid mc c apps) (s : Sim) :
    ∀ l ∈ (loadApplication mc c s apps).sent, l = apps ∨ SentW c apps s.m l := by
  obtain ⟨_, _, _, _, hs⟩ := loadLoop_weak mc c apps hv s.m (c.nTries + 1) s 0 apps [] (liw_init mc c apps s)
  generalize hr : loadLoop mc c (coreCount apps) (c.nTries + 1) s 0 apps [] = r at hs
  have hsent : (loadApplication mc c s apps).sent = r.2.2 := by
    simp only [loadApplication, hr]; split
    · rfl
    · split <;> rfl
  rw [hsent]
  intro l hl
  rcases hs l hl with h | h | h
  · exact absurd h (by simp)
  · exact Or.inl h.2
  · exact Or.inr h

/-! ### instances: the two known findings are instances of `staleMasks`, by the two clauses -/

example : (reqCores appsE).Nodup := by decide

/-- `count_shortcut_counterexample`: the violating set is core 1 of chip (0, 0); it was idle (not a
stale waiter itself), the stale waiter on core 5 masks it in the count -/
example : badCores (mcE true) (ctlE true true) (initE 5 30) appsE = [(0, 0, 1)] ∧
    staleSelf (initE 5 30).m.core [(0, 0, 1)] = false ∧
    staleCount (mcE true).chips appsE 30 true true (initE 5 30).m.core [(0, 0, 1)] = true ∧
    staleMasks (mcE true).chips appsE 30 true true (initE 5 30).m.core [(0, 0, 1)] = true := by
  decide +kernel

/-- `readback_counterexample`: the violating core was itself waiting before the call -/
example : badCores (mcE true) (ctlE false true) (initE 1 30) appsE = [(0, 0, 1)] ∧
    staleSelf (initE 1 30).m.core [(0, 0, 1)] = true ∧
    staleMasks (mcE true).chips appsE 30 true false (initE 1 30).m.core [(0, 0, 1)] = true := by
  decide +kernel

/-- without stale waiters the predicate is false on any candidate set (here: the chip misses every
fill, the call ends in the error instead) -/
example : staleMasks (mcE true).chips appsE 30 true true (initE 5 31).m.core [(0, 0, 1)] = false := by
  decide +kernel

/-- the error side: cores 1 and 2 of chip (0, 0) requested, core 1 already waiting (another binary),
the chip misses every fill: the error names core 2 only; core 1 violates the post-condition and
`staleHides` holds of it -/
def appsE2 : List App := [{ name := 0, image := [1, 2, 3, 4, 5, 6, 7, 8], targets := [(0, 0, [1, 2])] }]

example : (loadApplication (mcE true) (ctlC false true) (initE 1 30) appsE2).outcome =
      .loadingError [{ name := 0, image := [1, 2, 3, 4, 5, 6, 7, 8], targets := [(0, 0, [2])] }] ∧
    badErrCores (mcE true) (ctlC false true) (initE 1 30) appsE2
      [{ name := 0, image := [1, 2, 3, 4, 5, 6, 7, 8], targets := [(0, 0, [2])] }] = [(0, 0, 1)] ∧
    staleHides appsE2 30 (initE 1 30).m.core [(0, 0, 1)] = true := by
  decide +kernel

end Rig.C09
