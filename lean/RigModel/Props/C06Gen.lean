/-
C06 - translator tie: the body of the sequence-number generator `seqs` (rig/machine_control/scp_connection.py:
`i = 0; while True: yield i; i = (i + 1) & mask`) is regenerated from the source into `Gen/PyFun.lean`.  The
generator is infinite; the generated definition `seqs mask fuel` is the list of the values yielded by the first
`fuel` iterations, the loop body is the generated definition `seqs_loop1`.  Proved: for `mask = 2^b - 1` (the
default 0xffff is b = 16) the values are 0, 1, 2, ... modulo `2^b`, and one step of the generator is exactly the
counter update `(ctr + 1) % modulus` of the model's `drawSeq` (Model/C06.lean) with `modulus = mask + 1`.
-/
import RigModel.Model.C06
import RigModel.Gen.PyFun
import RigModel.Lemmas.IntBits
set_option linter.unusedSimpArgs false
set_option linter.unusedVariables false
set_option linter.unusedTactic false
set_option linter.unreachableTactic false

namespace Rig.C06
open Rig.Gen Rig.IntBits

/-- one iteration of the generator: yields the counter and advances it as the model's `drawSeq` does
(`(ctr + 1) % modulus`, the modulus being `mask + 1 = 2^b`) -/
theorem seqs_step (b ctr : Nat) (o : List Int) (k : Nat) :
    PyFun.seqs_loop1 ((2 ^ b - 1 : Nat) : Int) (o, (ctr : Int)) k
      = (o ++ [(ctr : Int)], (((ctr + 1) % 2 ^ b : Nat) : Int)) := by
  unfold PyFun.seqs_loop1
  dsimp only
  have e : ((ctr : Int) + 1) = ((ctr + 1 : Nat) : Int) := by omega
  first
  | (rw [e, land_natCast, Nat.and_two_pow_sub_one_eq_mod])
  | (simp only [Prod.mk.injEq, true_and]
     rw [show (1 : Int) + (ctr : Int) = ((ctr + 1 : Nat) : Int) by omega, land_natCast, Nat.and_two_pow_sub_one_eq_mod])

theorem seqs_fold (b : Nat) : ∀ (n ctr : Nat) (o : List Int), ctr < 2 ^ b →
    (List.range n).foldl (PyFun.seqs_loop1 ((2 ^ b - 1 : Nat) : Int)) (o, (ctr : Int))
      = (o ++ (List.range n).map (fun k => (((ctr + k) % 2 ^ b : Nat) : Int)), (((ctr + n) % 2 ^ b : Nat) : Int))
  | 0, ctr, o, h => by simp [Nat.mod_eq_of_lt h]
  | n + 1, ctr, o, h => by
    rw [List.range_succ_eq_map, List.foldl_cons, List.foldl_map, seqs_step]
    have hm : (ctr + 1) % 2 ^ b < 2 ^ b := Nat.mod_lt _ (Nat.two_pow_pos b)
    have := seqs_fold b n ((ctr + 1) % 2 ^ b) (o ++ [(ctr : Int)]) hm
    have hf : (fun (x : List Int × Int) (y : Nat) => PyFun.seqs_loop1 ((2 ^ b - 1 : Nat) : Int) x (Nat.succ y))
        = PyFun.seqs_loop1 ((2 ^ b - 1 : Nat) : Int) := rfl
    rw [hf, this]
    simp only [List.map_cons, List.map_map, List.append_assoc, List.singleton_append, Nat.add_zero,
      Nat.mod_eq_of_lt h, Nat.mod_add_mod, Prod.mk.injEq, List.append_cancel_left_eq, List.cons.injEq, true_and]
    constructor
    · apply List.map_congr_left
      intro k _
      simp only [Function.comp, Nat.succ_eq_add_one]
      congr 2; omega
    · congr 2; omega

/-- `seqs(mask)` for `mask = 2^b - 1` (the generator is infinite: its first `n` values) yields 0, 1, 2, ...
modulo `2^b` - the counter sequence the model's `drawSeq` steps through with `modulus = mask + 1` -/
theorem gen_seqs (b n : Nat) :
    PyFun.seqs ((2 ^ b - 1 : Nat) : Int) n = (List.range n).map (fun k => ((k % 2 ^ b : Nat) : Int)) := by
  unfold PyFun.seqs
  dsimp only
  have := seqs_fold b n 0 [] (Nat.two_pow_pos b)
  simp only [Nat.cast_zero, Nat.zero_add, List.nil_append] at this
  rw [this]

/-- the model draws exactly the generator's next value: a free counter value is taken and the counter
advances by the generator's own update -/
theorem drawSeq_is_seqs (b : Nat) (outs : List (Nat × Out)) (fuel ctr : Nat) (hfree : hasSeq outs ctr = false) :
    drawSeq (2 ^ b) outs fuel ctr = (ctr, (ctr + 1) % 2 ^ b) ∧
    (PyFun.seqs_loop1 ((2 ^ b - 1 : Nat) : Int) ([], (ctr : Int)) 0)
      = ([(ctr : Int)], (((drawSeq (2 ^ b) outs fuel ctr).2 : Nat) : Int)) := by
  have h1 : drawSeq (2 ^ b) outs fuel ctr = (ctr, (ctr + 1) % 2 ^ b) := by
    cases fuel <;> simp [drawSeq, hfree]
  exact ⟨h1, by rw [seqs_step, h1]; rfl⟩
/-- the default mask: the first values of `seqs()` -/
example : PyFun.seqs 65535 3 = [0, 1, 2] := by decide

end Rig.C06
